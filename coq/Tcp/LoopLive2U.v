(* C16 liveness, continued.  Part 12: the bookkeeping invariant LInvV behind LInvU:
   every armed timer has exactly one kernel event (its Initialize or its Timeout) on the agenda and
   no event exists for a segment not yet sent; segment ids, ACK numbers and last_ack are multiples
   of MSS; every segment still in sent_packets ends above last_ack.  Hence: the segment starting at
   last_ack is in flight whenever last_ack < next_seq, and no timer is armed when last_ack = next_seq. *)
From Coq Require Import ZArith QArith Qabs Qround Qminmax List Bool Lia Lqa Arith.
From ONL Require Import Tcp.Sink Tcp.SinkProofs Tcp.Sender Tcp.SenderProofs Tcp.Loop Tcp.LoopProofs Tcp.LoopLive
  Tcp.LoopLossfree Tcp.LoopLive2 Tcp.LoopLive2T Tcp.LoopLive2P Tcp.LoopLive2Q.
Import ListNotations.
Open Scope Z_scope.

Definition timer_id (e : aev) : option Z := match e with ATimerInit j | ATimerFire j => Some j | _ => None end.

(* timer outputs of a sender event for segment j *)
Definition tcount (j : Z) (o : list out) : nat :=
  length (filter (fun x => match x with TStart i _ | TRestart i _ => i =? j | _ => false end) o).

Lemma oeff_tcount lc tau j : forall o n1 nw kp k, oeff lc tau n1 o = (nw, kp, k) -> ncount (is_timer j) nw = tcount j o.
Proof.
  induction o as [|x o IH]; intros n1 nw kp k; cbn [oeff].
  - intros E; injection E as <- <- <-. reflexivity.
  - unfold tcount in *. destruct x as [id z|id r|id|id r]; cbn [filter].
    + destruct (oeff lc tau (S n1) o) as [[nw1 kp1] k1] eqn:E1. specialize (IH _ _ _ _ E1).
      destruct (droppedD lc n1); intros E; injection E as <- <- <-; [exact IH|]. rewrite ncount_cons. cbn [snd is_timer b2n]. exact IH.
    + destruct (oeff lc tau n1 o) as [[nw1 kp1] k1] eqn:E1. specialize (IH _ _ _ _ E1). intros E; injection E as <- <- <-.
      rewrite ncount_cons. cbn [snd is_timer]. destruct (id =? j); cbn [b2n length]; lia.
    + apply IH.
    + destruct (oeff lc tau n1 o) as [[nw1 kp1] k1] eqn:E1. specialize (IH _ _ _ _ E1). intros E; injection E as <- <- <-.
      rewrite ncount_cons. cbn [snd is_timer]. destruct (id =? j); cbn [b2n length]; lia.
Qed.

Lemma extra_news_notimer tau s s' e j : ncount (is_timer j) (extra_news tau s s' e) = O.
Proof.
  unfold ncount. apply length_zero_iff_nil, filter_none. intros x Hx. apply extra_news_kind in Hx as [->| ->]; reflexivity.
Qed.

Lemma tcount_segs mm id n r j : 0 < mm -> tcount j (segs mm id n r) = if existsb (Z.eqb j) (seg_ids mm id n) then 1%nat else 0%nat.
Proof.
  intros Hm. revert id. induction n as [|n IH]; intros id; [reflexivity|]. cbn [segs seg_ids existsb]. unfold tcount in *. cbn [filter].
  specialize (IH (id + mm)). rewrite (Z.eqb_sym j id). destruct (id =? j) eqn:E; cbn [orb length]; [|exact IH].
  rewrite IH. apply Z.eqb_eq in E. subst j. destruct (existsb (Z.eqb id) (seg_ids mm (id + mm) n)) eqn:E2; [|reflexivity]. exfalso.
  apply existsb_exists in E2 as (x & Hx & Ex). apply Z.eqb_eq in Ex. subst x. apply seg_ids_In in Hx as (k & _ & Hk). nia.
Qed.

Lemma tcount_stops j ids : tcount j (map TStop ids) = O.
Proof. induction ids as [|i t IH]; [reflexivity|]. unfold tcount in *. cbn [map filter]. exact IH. Qed.

Lemma existsb_eqb_In j l : existsb (Z.eqb j) l = true <-> In j l.
Proof. rewrite existsb_exists. split; [intros (x & Hx & E); apply Z.eqb_eq in E; subst; exact Hx|intros H; exists j; split; [exact H|apply Z.eqb_refl]]. Qed.

(* the timer table and the timer outputs of one sender transition *)
Lemma step_timers c s e s' o :
  0 < mss c -> SInv c s -> step repaired c s e = Ok s' o ->
  next_seq s <= next_seq s' /\
  (forall j, (1 <= tcount j o)%nat -> j < next_seq s') /\
  forall j, In j (keys (timers s')) ->
    (In j (keys (timers s)) /\ tcount j o = match e with EExpire i => if i =? j then 1%nat else 0%nat | _ => 0%nat end) \/
    (~ In j (keys (timers s)) /\ next_seq s <= j /\ tcount j o = 1%nat /\ e = EWake).
Proof.
  intros Hm I H. pose proof (si_below _ _ I) as Hb. rewrite <- (si_keys _ _ I) in Hb. rewrite Forall_forall in Hb.
  destruct e as [ackno pid sample orc|id| |]; cbn [step] in H.
  - apply on_ack_shape in H; [|apply I]. destruct H as (N & _ & _ & _ & _ & [D|Nw]).
    + destruct D as (_ & _ & _ & T & _ & _ & _ & _ & _ & _ & Hout). rewrite N, T.
      assert (Z0 : forall j, tcount j o = O) by (intros j; destruct Hout as [->|(-> & _)]; reflexivity).
      split; [lia|]. split; [intros j Hj; rewrite Z0 in Hj; lia|]. intros j Hj. left. split; [exact Hj|apply Z0].
    + destruct Nw as (_ & _ & _ & T & _ & Hout & _). rewrite N.
      split; [lia|]. split; [intros j Hj; rewrite Hout, tcount_stops in Hj; lia|]. intros j Hj. left. rewrite Hout, tcount_stops. split; [|reflexivity].
      rewrite T in Hj. apply (In_keys_filter (fun x => negb (mem x (acked_ids repaired c s ackno pid)))) in Hj. apply Hj.
  - apply on_timer_shape in H as (Hin & -> & Hout). proj.
    assert (Z0 : forall j, tcount j o = if id =? j then 1%nat else 0%nat).
    { intros j. destruct Hout as [->|(-> & _)]; unfold tcount; cbn [filter]; destruct (id =? j); reflexivity. }
    split; [lia|]. split.
    + intros j Hj. rewrite Z0 in Hj. destruct (id =? j) eqn:E; [|lia]. apply Z.eqb_eq in E. subst j. apply Hb, Hin.
    + intros j Hj. left. rewrite keys_rearm in Hj. split; [exact Hj|apply Z0].
  - apply on_storecb_shape in H as (-> & p & _ & [(_ & _ & ->)|(_ & ->)]); proj;
      (split; [lia|]); (split; [intros j Hj; cbn in Hj; lia|]); intros j Hj; left; split; auto.
  - apply send_guard in H; [|exact Hm]. destruct H as (n & -> & Hns & Ht & _). proj. cbn [app].
    split; [nia|]. split.
    + intros j Hj. rewrite tcount_segs in Hj by exact Hm. destruct (existsb (Z.eqb j) _) eqn:E; [|lia].
      apply existsb_eqb_In in E. apply seg_ids_In in E as (k & Hk & ->). rewrite Hns. nia.
    + intros j Hj. rewrite Ht, keys_app, keys_map_pair in Hj. rewrite tcount_segs by exact Hm.
      apply in_app_or in Hj as [Hj|Hj].
      * left. split; [exact Hj|]. destruct (existsb (Z.eqb j) _) eqn:E; [|reflexivity]. exfalso.
        apply existsb_eqb_In in E. apply seg_ids_In in E as (k & Hk & Ek). specialize (Hb j Hj). nia.
      * right. pose proof Hj as Hj2. apply seg_ids_In in Hj2 as (k & Hk & Ek).
        split; [intros Hin; specialize (Hb j Hin); nia|]. split; [nia|]. split; [|reflexivity].
        apply existsb_eqb_In in Hj. rewrite Hj. reflexivity.
Qed.

Record LInvTm (lc : lcfg) (st : lstate) : Prop := {
  tm_uniq : forall id, In id (keys (timers (l_snd st))) -> acount (is_timer id) (l_agenda st) = 1%nat;
  tm_fresh : forall b j, In b (l_agenda st) -> timer_id (ae_ev b) = Some j -> j < next_seq (l_snd st)
}.

Lemma is_timer_id j e : is_timer j e = true -> timer_id e = Some j.
Proof. destruct e; cbn; try discriminate; intros H; apply Z.eqb_eq in H; subst; reflexivity. Qed.

Lemma timer_id_is j e : timer_id e = Some j -> is_timer j e = true.
Proof. destruct e; cbn; try discriminate; intros H; injection H as ->; apply Z.eqb_refl. Qed.

Lemma ncount_nil_pred p news : (forall x, In x news -> p (snd x) = false) -> ncount p news = O.
Proof. intros H. unfold ncount. apply length_zero_iff_nil, filter_none. exact H. Qed.

Lemma getA_news_notimer tau w x : In x (fst (getA_eff tau w)) -> timer_id (snd x) = None.
Proof. unfold getA_eff. destruct (wa_items w); cbn [fst]; [intros []|]. intros [<-|[]]. reflexivity. Qed.
Lemma getD_news_notimer tau w x : In x (fst (getD_eff tau w)) -> timer_id (snd x) = None.
Proof. unfold getD_eff. destruct (wd_items w); cbn [fst]; [intros []|]. intros [<-|[]]. reflexivity. Qed.

Lemma not_timer_pred j e : timer_id e = None -> is_timer j e = false.
Proof. destruct e; cbn; try discriminate; reflexivity. Qed.

(* a step whose entry and whose new entries are not timer events, and that leaves the sender alone *)
Lemma Tm_plain lc st a rest st' news :
  LInvTm lc st -> l_agenda st = a :: rest -> l_snd st' = l_snd st -> AddsT rest (l_agenda st') news ->
  (forall id, In id (keys (timers (l_snd st))) -> ncount (is_timer id) news = b2n (is_timer id (ae_ev a))) ->
  (forall x j, In x news -> timer_id (snd x) = Some j -> timer_id (ae_ev a) = Some j) ->
  LInvTm lc st'.
Proof.
  intros [U F] E Es HA Hc Hn. constructor; rewrite Es.
  - intros id Hid. rewrite (AddsT_acount _ _ _ _ HA), (Hc id Hid). specialize (U id Hid). rewrite E, acount_cons in U. exact U.
  - intros b j Hb Hj. destruct (AddsT_In_iff _ _ _ HA b Hb) as [Hold|Hnew].
    + apply (F b j); [rewrite E; right; exact Hold|exact Hj].
    + apply (F a j); [rewrite E; left; reflexivity|]. apply (Hn _ _ Hnew). exact Hj.
Qed.

Lemma nw_timer_tcount lc tau o n1 nw kp k x j :
  oeff lc tau n1 o = (nw, kp, k) -> In x nw -> timer_id (snd x) = Some j -> (1 <= tcount j o)%nat.
Proof.
  intros Ho Hx Hj. rewrite <- (oeff_tcount lc tau j o n1 nw kp k Ho). eapply ncount_ge1; [exact Hx|apply timer_id_is; exact Hj].
Qed.

Lemma LInvTm_step lc st a rest st' :
  0 < mss (lc_cfg lc) -> LInvA lc st None -> LInvTm lc st -> l_agenda st = a :: rest -> Tr lc st a rest st' -> LInvTm lc st'.
Proof.
  intros Hm HA HT0 E HT. pose proof HT0 as [U F]. pose proof (la_sinv _ _ _ HA) as I.
  destruct HT as [e isack s' o nw kp k nwa Hev Hstep Ho Hnow Hsnd Hsink Hn2 Hslog Hn1 Hwd Hif HA' Hkp Hkeep Hpkt
                 | id r Hev Hfind Hk Hwd Hwa HA' | Hev Hk Hwd Hwa Hag | Hev Hk Hwa Hwd HA' | Hev Hk Hwd Hwa HA'
                 | id Hev Hq Hk Hwd Hwa HA' | ackno pid tm ct Hev Hq Hk Hwd Hwa HA'
                 | id tm ct Hev Hp Hnow Hsnd Hpkt Hn1 Hslog Hsink Hn2 Hwd Hif].
  - (* sender *)
    destruct (step_timers _ _ _ _ _ Hm I Hstep) as (Hns & Hnew & Hkeys).
    assert (Ek : keys (timers (l_snd st')) = keys (timers s')).
    { rewrite Hsnd. change (timers (norm_sender s')) with (map (fun q : Z * Q => (fst q, nq (snd q))) (timers s')). apply keys_norm. }
    assert (En : next_seq (l_snd st') = next_seq s') by (rewrite Hsnd; reflexivity).
    assert (Cnt : forall j, ncount (is_timer j) ((nw ++ extra_news (ae_time a) (l_snd st) s' e) ++ nwa) = tcount j o).
    { intros j. rewrite !ncount_app, (oeff_tcount lc _ j _ _ _ _ _ Ho), extra_news_notimer.
      assert (ncount (is_timer j) nwa = O); [|lia]. apply ncount_nil_pred. intros x Hx. apply not_timer_pred.
      destruct isack; destruct Hif as [-> _]; [eapply getA_news_notimer; eauto|destruct Hx]. }
    constructor.
    + intros j Hj. rewrite Ek in Hj. rewrite (AddsT_acount _ _ _ _ HA'), Cnt.
      destruct (Hkeys j Hj) as [[Hold Ht]|(Hnot & Hge & Ht & _)].
      * specialize (U j Hold). rewrite E, acount_cons in U. rewrite Ht.
        destruct (ae_ev a) eqn:Ea; inversion Hev; subst; cbn [is_timer b2n] in U; try lia.
        destruct (id =? j); cbn [b2n] in U; lia.
      * rewrite Ht. assert (acount (is_timer j) rest = O); [|lia].
        destruct (acount (is_timer j) rest) eqn:Ec; [reflexivity|]. exfalso.
        destruct (acount_pos (is_timer j) rest ltac:(lia)) as (b & Hb & Hbt).
        pose proof (F b j ltac:(rewrite E; right; exact Hb) (is_timer_id _ _ Hbt)). lia.
    + intros b j Hb Hj. rewrite En. destruct (AddsT_In_iff _ _ _ HA' b Hb) as [Hold|Hnw].
      * pose proof (F b j ltac:(rewrite E; right; exact Hold) Hj). lia.
      * apply Hnew. apply in_app_or in Hnw as [Hnw|Hnw]; [apply in_app_or in Hnw as [Hnw|Hnw]|].
        -- eapply nw_timer_tcount; eauto.
        -- exfalso. apply extra_news_kind in Hnw as [Ex|Ex]; injection Ex as _ Ex; rewrite Ex in Hj; discriminate.
        -- exfalso. destruct isack; destruct Hif as [-> _]; [|destruct Hnw].
           pose proof (getA_news_notimer _ _ _ Hnw) as Hx. cbn [snd] in Hx. congruence.
  - destruct Hk as [k1 k2 k3 k4 k5 k6 k7]. unfold popped in *; lproj.
    eapply Tm_plain; eauto.
    + intros j _. rewrite ncount_cons. cbn [snd ncount filter length]. rewrite Hev. cbn [is_timer]. lia.
    + intros x j [<-|[]] Hj. cbn [snd timer_id] in Hj. rewrite Hev. exact Hj.
  - destruct Hk as [k1 k2 k3 k4 k5 k6 k7]. unfold popped in *; lproj.
    eapply (Tm_plain lc st a rest st' []); eauto; [rewrite Hag; constructor| |intros x j []].
    intros j Hj. cbn. destruct (is_timer j (ae_ev a)) eqn:Et; [|reflexivity]. exfalso.
    apply is_timer_id in Et. apply has_timer_In in Hj.
    destruct (ae_ev a) as [| |i|i|w|w| | | |]; cbn [timer_id] in Et; try discriminate; injection Et as ->; congruence.
  - destruct Hk as [k1 k2 k3 k4 k5 k6 k7]. unfold popped in *; lproj.
    eapply Tm_plain; eauto.
    + intros j _. rewrite ncount_nil_pred by (intros x Hx; apply not_timer_pred; eapply getD_news_notimer; eauto).
      destruct Hev as [->|[-> _]]; reflexivity.
    + intros x j Hx Hj. rewrite (getD_news_notimer _ _ _ Hx) in Hj. discriminate.
  - destruct Hk as [k1 k2 k3 k4 k5 k6 k7]. unfold popped in *; lproj.
    eapply Tm_plain; eauto.
    + intros j _. rewrite ncount_nil_pred by (intros x Hx; apply not_timer_pred; eapply getA_news_notimer; eauto).
      destruct Hev as [->|[-> _]]; reflexivity.
    + intros x j Hx Hj. rewrite (getA_news_notimer _ _ _ Hx) in Hj. discriminate.
  - destruct Hk as [k1 k2 k3 k4 k5 k6 k7]. unfold popped in *; lproj.
    eapply Tm_plain; eauto.
    + intros j _. rewrite Hev. reflexivity.
    + intros x j [<-|[]] Hj. discriminate.
  - destruct Hk as [k1 k2 k3 k4 k5 k6 k7]. unfold popped in *; lproj.
    eapply Tm_plain; eauto.
    + intros j _. rewrite Hev. reflexivity.
    + intros x j [<-|[]] Hj. discriminate.
  - assert (Hnt : timer_id (ae_ev a) = None) by (destruct Hev as [->|[-> _]]; reflexivity).
    destruct (droppedA lc (l_n2 st)); destruct Hif as [_ HA'].
    + eapply Tm_plain; eauto.
      * intros j _. rewrite ncount_nil_pred by (intros x Hx; apply not_timer_pred; eapply getD_news_notimer; eauto).
        rewrite (not_timer_pred j _ Hnt). reflexivity.
      * intros x j Hx Hj. rewrite (getD_news_notimer _ _ _ Hx) in Hj. discriminate.
    + eapply Tm_plain; eauto.
      * intros j _. rewrite ncount_cons. cbn [snd is_timer b2n].
        rewrite ncount_nil_pred by (intros x Hx; apply not_timer_pred; eapply getD_news_notimer; eauto).
        rewrite (not_timer_pred j _ Hnt). reflexivity.
      * intros x j [<-|Hx] Hj; [discriminate|]. rewrite (getD_news_notimer _ _ _ Hx) in Hj. discriminate.
Qed.

(* ================================================================================================ *)
(* multiples of MSS; segments in flight end above last_ack *)
Lemma prefix_mult mm hist n :
  0 < mm -> Forall (fun g => snd g = mm /\ mult mm (fst g)) hist -> prefix_len hist n -> mult mm n.
Proof.
  intros Hm Hh (H0 & Hcov & Hnot). destruct (Z.eq_dec n 0) as [->|Hn]; [exists 0; lia|].
  destruct (Hcov (n - 1) ltac:(lia)) as (g & Hg & Hr). rewrite Forall_forall in Hh. destruct (Hh g Hg) as (Hs & k & Hk & Ek).
  rewrite Hs in Hr.
  assert (Hge : fst g + mm <= n).
  { destruct (Z_le_gt_dec (fst g + mm) n) as [H|H]; [exact H|]. exfalso. apply Hnot. exists g. split; [exact Hg|]. rewrite Hs. lia. }
  exists (k + 1). split; [lia|]. rewrite Ek in *. lia.
Qed.

Lemma oeff_kp_sub lc tau : forall o n1 nw kp k j, oeff lc tau n1 o = (nw, kp, k) -> In j kp -> exists z, In (Tx j z) o.
Proof.
  induction o as [|x o IH]; intros n1 nw kp k j; cbn [oeff].
  - intros E; injection E as <- <- <-. intros [].
  - destruct x as [id z|id r|id|id r].
    + destruct (oeff lc tau (S n1) o) as [[nw1 kp1] k1] eqn:E1.
      destruct (droppedD lc n1); intros E; injection E as <- <- <-; intros Hj.
      * destruct (IH _ _ _ _ _ E1 Hj) as (z' & Hz). exists z'. right. exact Hz.
      * destruct Hj as [<-|Hj]; [exists z; left; reflexivity|]. destruct (IH _ _ _ _ _ E1 Hj) as (z' & Hz). exists z'. right. exact Hz.
    + destruct (oeff lc tau n1 o) as [[nw1 kp1] k1] eqn:E1. intros E; injection E as <- <- <-. intros Hj.
      destruct (IH _ _ _ _ _ E1 Hj) as (z' & Hz). exists z'. right. exact Hz.
    + intros E Hj. destruct (IH _ _ _ _ _ E Hj) as (z' & Hz). exists z'. right. exact Hz.
    + destruct (oeff lc tau n1 o) as [[nw1 kp1] k1] eqn:E1. intros E; injection E as <- <- <-. intros Hj.
      destruct (IH _ _ _ _ _ E1 Hj) as (z' & Hz). exists z'. right. exact Hz.
Qed.

Lemma mult_add mm a k : mult mm a -> 0 <= k -> mult mm (a + k * mm).
Proof. intros (q & Hq & ->) Hk. exists (q + k). split; [lia|ring]. Qed.

(* one sender transition *)
Lemma step_mu c s e s' o :
  0 < mss c -> SInv c s -> mult (mss c) (next_seq s) -> mult (mss c) (last_ack s) -> Forall (mult (mss c)) (sent s) ->
  Forall (fun id => last_ack s < id + mss c) (sent s) -> last_ack s <= next_seq s ->
  (match e with EAck a _ _ _ => mult (mss c) a /\ last_ack s <= a | _ => True end) ->
  step repaired c s e = Ok s' o ->
  mult (mss c) (last_ack s') /\ Forall (mult (mss c)) (sent s') /\ Forall (fun id => last_ack s' < id + mss c) (sent s') /\
  (forall id z, In (Tx id z) o -> mult (mss c) id).
Proof.
  intros Hm I Mn Ml Ms Mu Hle He H. rewrite Forall_forall in Ms, Mu.
  destruct e as [ackno pid sample orc|id| |]; cbn [step] in H.
  - destruct He as [Ma Hfw]. apply on_ack_shape in H; [|apply I]. destruct H as (_ & _ & _ & _ & _ & [D|Nw]).
    + destruct D as (Ea & L & _ & _ & S & _ & _ & _ & _ & _ & Hout). rewrite L, S.
      split; [exact Ml|]. split; [apply Forall_forall; exact Ms|]. split; [apply Forall_forall; exact Mu|].
      intros i z Hin. destruct Hout as [->|(-> & Hi & _)]; [destruct Hin|]. destruct Hin as [Ei|[]]. injection Ei as <- _. apply Ms, Hi.
    + destruct Nw as (_ & L & _ & _ & S & Hout & _). rewrite L, S.
      split; [exact Ma|]. split; [apply Forall_forall; intros i Hi; apply filter_In in Hi as [Hi _]; apply Ms, Hi|]. split.
      * apply Forall_forall. intros i Hi. apply filter_In in Hi as [Hi Hn]. apply negb_true_iff in Hn.
        destruct (Z_lt_ge_dec ackno (i + mss c)) as [Hlt|Hge]; [exact Hlt|]. exfalso.
        assert (Hm2 : mem i (acked_ids repaired c s ackno pid) = true); [|congruence].
        apply mem_In. unfold acked_ids, repaired; proj.
        change (map fst (filter (fun p => fst p + mss c <=? ackno) (timers s)))
          with (keys (filter (fun p => (fun x => x + mss c <=? ackno) (fst p)) (timers s))).
        apply In_keys_filter. split; [rewrite (si_keys _ _ I); exact Hi|apply Z.leb_le; lia].
      * intros i z Hin. rewrite Hout in Hin. apply in_map_iff in Hin as (? & ? & _). discriminate.
  - apply on_timer_shape in H as (_ & -> & Hout). proj.
    split; [exact Ml|]. split; [apply Forall_forall; exact Ms|]. split; [apply Forall_forall; exact Mu|].
    intros i z Hin. destruct Hout as [->|(-> & Hi)]; [destruct Hin as [Ei|[]]; discriminate|].
    destruct Hin as [Ei|[Ei|[]]]; [|discriminate]. injection Ei as <- _. apply Ms, Hi.
  - apply on_storecb_shape in H as (-> & p & _ & [(_ & _ & ->)|(_ & ->)]); proj;
      (split; [exact Ml|]); (split; [apply Forall_forall; exact Ms|]); (split; [apply Forall_forall; exact Mu|]); intros i z [].
  - apply send_guard in H; [|exact Hm]. destruct H as (n & -> & _ & _ & Hse & _ & Hla & _). proj. rewrite Hla, Hse.
    assert (Hnew : forall i, In i (seg_ids (mss c) (next_seq s) n) -> mult (mss c) i /\ last_ack s < i + mss c).
    { intros i Hi. apply seg_ids_In in Hi as (k & _ & ->). split; [apply mult_add; [exact Mn|lia]|nia]. }
    split; [exact Ml|]. split; [|split].
    + apply Forall_forall. intros i Hi. apply in_app_or in Hi as [Hi|Hi]; [apply Ms, Hi|apply Hnew, Hi].
    + apply Forall_forall. intros i Hi. apply in_app_or in Hi as [Hi|Hi]; [apply Mu, Hi|apply Hnew, Hi].
    + intros i z Hin. cbn [app] in Hin. apply Hnew. eapply segs_tx_in; eauto.
Qed.

Record LInvMu (lc : lcfg) (st : lstate) : Prop := {
  mu_la : mult (mss (lc_cfg lc)) (last_ack (l_snd st));
  mu_sent : Forall (mult (mss (lc_cfg lc))) (sent (l_snd st));
  mu_unacked : Forall (fun id => last_ack (l_snd st) < id + mss (lc_cfg lc)) (sent (l_snd st));
  mu_wd : Forall (mult (mss (lc_cfg lc))) (wd_items (l_wd st));
  mu_evd : forall b i, In b (l_agenda st) -> dataid_of (ae_ev b) = Some i -> mult (mss (lc_cfg lc)) i;
  mu_sink : exists hist, Inv hist (l_sink st) /\ prefix_len hist (nse (l_sink st)) /\
                         Forall (fun g => snd g = mss (lc_cfg lc) /\ mult (mss (lc_cfg lc)) (fst g)) hist;
  mu_wa : Forall (fun r => mult (mss (lc_cfg lc)) (a_no r)) (wa_items (l_wa st));
  mu_eva : forall b k, In b (l_agenda st) -> ackno_of (ae_ev b) = Some k -> mult (mss (lc_cfg lc)) k
}.

Lemma getD_mu lc tau w : Forall (mult (mss (lc_cfg lc))) (wd_items w) ->
  Forall (mult (mss (lc_cfg lc))) (wd_items (snd (getD_eff tau w))) /\
  (forall x i, In x (fst (getD_eff tau w)) -> dataid_of (snd x) = Some i -> mult (mss (lc_cfg lc)) i) /\
  (forall x, In x (fst (getD_eff tau w)) -> ackno_of (snd x) = None).
Proof.
  intros H. unfold getD_eff. destruct (wd_items w) as [|y l]; cbn [fst snd wd_items].
  - split; [constructor|]. split; [intros x i []|intros x []].
  - inversion H as [|? ? Hy Hl]; subst. split; [exact Hl|]. split.
    + intros x i [<-|[]] E. cbn in E. injection E as <-. exact Hy.
    + intros x [<-|[]]. reflexivity.
Qed.

Lemma getA_mu lc tau w : Forall (fun r => mult (mss (lc_cfg lc)) (a_no r)) (wa_items w) ->
  Forall (fun r => mult (mss (lc_cfg lc)) (a_no r)) (wa_items (snd (getA_eff tau w))) /\
  (forall x k, In x (fst (getA_eff tau w)) -> ackno_of (snd x) = Some k -> mult (mss (lc_cfg lc)) k) /\
  (forall x, In x (fst (getA_eff tau w)) -> dataid_of (snd x) = None).
Proof.
  intros H. unfold getA_eff. destruct (wa_items w) as [|y l]; cbn [fst snd wa_items].
  - split; [constructor|]. split; [intros x i []|intros x []].
  - inversion H as [|? ? Hy Hl]; subst. split; [exact Hl|]. split.
    + intros x k [<-|[]] E. cbn in E. injection E as <-. exact Hy.
    + intros x [<-|[]]. reflexivity.
Qed.

(* generic re-assembly: the new agenda's data ids and ACK numbers come from the old agenda or are justified *)
Lemma Mu_agenda lc st a rest ag' news :
  LInvMu lc st -> l_agenda st = a :: rest -> AddsT rest ag' news ->
  (forall x i, In x news -> dataid_of (snd x) = Some i -> mult (mss (lc_cfg lc)) i) ->
  (forall x k, In x news -> ackno_of (snd x) = Some k -> mult (mss (lc_cfg lc)) k) ->
  (forall b i, In b ag' -> dataid_of (ae_ev b) = Some i -> mult (mss (lc_cfg lc)) i) /\
  (forall b k, In b ag' -> ackno_of (ae_ev b) = Some k -> mult (mss (lc_cfg lc)) k).
Proof.
  intros M E HA Hd Ha. split.
  - intros b i Hb Hi. destruct (AddsT_In_iff _ _ _ HA b Hb) as [Hold|Hnew].
    + apply (mu_evd _ _ M b i); [rewrite E; right; exact Hold|exact Hi].
    + apply (Hd _ _ Hnew). exact Hi.
  - intros b k Hb Hk. destruct (AddsT_In_iff _ _ _ HA b Hb) as [Hold|Hnew].
    + apply (mu_eva _ _ M b k); [rewrite E; right; exact Hold|exact Hk].
    + apply (Ha _ _ Hnew). exact Hk.
Qed.

Lemma sender_news_nodata lc tau o n1 nw kp k s s' e x :
  oeff lc tau n1 o = (nw, kp, k) -> In x (nw ++ extra_news tau s s' e) -> dataid_of (snd x) = None /\ ackno_of (snd x) = None.
Proof.
  intros Ho Hx. destruct (oeff_kinds lc tau o n1 nw kp k Ho) as [Hk _]. apply in_app_or in Hx as [Hx|Hx].
  - rewrite Forall_forall in Hk. destruct (Hk x Hx) as [->|[(id & ->)|(id & r & ->)]]; split; reflexivity.
  - apply extra_news_kind in Hx as [->| ->]; split; reflexivity.
Qed.

Lemma LInvMu_step lc st a rest st' :
  0 < mss (lc_cfg lc) -> LInvA lc st None -> LInvB lc st None -> LInvC lc st None -> LInvMu lc st ->
  l_agenda st = a :: rest -> Tr lc st a rest st' -> LInvMu lc st'.
Proof.
  intros Hm HA HB HC M E HT. pose proof M as [Ml Ms Mu Mw Med Msk Mwa Mea]. pose proof (la_sinv _ _ _ HA) as I.
  assert (SameSnd : forall news, l_snd st' = l_snd st -> l_sink st' = l_sink st -> AddsT rest (l_agenda st') news ->
                    Forall (mult (mss (lc_cfg lc))) (wd_items (l_wd st')) ->
                    Forall (fun r => mult (mss (lc_cfg lc)) (a_no r)) (wa_items (l_wa st')) ->
                    (forall x i, In x news -> dataid_of (snd x) = Some i -> mult (mss (lc_cfg lc)) i) ->
                    (forall x k, In x news -> ackno_of (snd x) = Some k -> mult (mss (lc_cfg lc)) k) -> LInvMu lc st').
  { intros news Es Ek HA' Hwd' Hwa' Hd Ha. destruct (Mu_agenda lc st a rest _ news M E HA' Hd Ha) as [A1 A2].
    constructor; rewrite ?Es, ?Ek; auto. }
  assert (Aev : forall i, dataid_of (ae_ev a) = Some i -> mult (mss (lc_cfg lc)) i) by (intros i Hi; apply (Med a i); [rewrite E; left; reflexivity|exact Hi]).
  assert (Aak : forall k, ackno_of (ae_ev a) = Some k -> mult (mss (lc_cfg lc)) k) by (intros k Hk; apply (Mea a k); [rewrite E; left; reflexivity|exact Hk]).
  destruct HT as [e isack s' o nw kp k nwa Hev Hstep Ho Hnow Hsnd Hsink Hn2 Hslog Hn1 Hwd Hif HA' Hkp Hkeep Hpkt
                 | id r Hev Hfind Hk Hwd Hwa HA' | Hev Hk Hwd Hwa Hag | Hev Hk Hwa Hwd HA' | Hev Hk Hwd Hwa HA'
                 | id Hev Hq Hk Hwd Hwa HA' | ackno pid tm ct Hev Hq Hk Hwd Hwa HA'
                 | id tm ct Hev Hp Hnow Hsnd Hpkt Hn1 Hslog Hsink Hn2 Hwd Hif].
  - (* sender *)
    assert (Hle : last_ack (l_snd st) <= next_seq (l_snd st)).
    { pose proof (lb_la _ _ _ HB). pose proof (LInvB_nse_le lc st None Hm HB). lia. }
    assert (He : match e with EAck k0 _ _ _ => mult (mss (lc_cfg lc)) k0 /\ last_ack (l_snd st) <= k0 | _ => True end).
    { destruct e as [k0 p0 sm orc| | |]; auto.
      assert (Hk0 : ackno_of (ae_ev a) = Some k0) by (inversion Hev; subst; reflexivity).
      split; [apply Aak; exact Hk0|].
      destruct (lb_eva _ _ _ HB (ae_ev a) k0) as [[A _] _]; [right; exists a; split; [rewrite E; left; reflexivity|reflexivity]|exact Hk0|exact A]. }
    destruct (step_mu _ _ _ _ _ Hm I (sc_mult_ns _ _ (lcc_s _ _ _ HC)) Ml Ms Mu Hle He Hstep) as (L' & S' & U' & Tx').
    assert (Hwa' : Forall (fun r => mult (mss (lc_cfg lc)) (a_no r)) (wa_items (l_wa st')) /\
                   (forall x k0, In x nwa -> ackno_of (snd x) = Some k0 -> mult (mss (lc_cfg lc)) k0) /\
                   (forall x, In x nwa -> dataid_of (snd x) = None)).
    { destruct isack; destruct Hif as [-> ->]; [apply getA_mu; exact Mwa|]. split; [exact Mwa|]. split; intros x; [intros k0 []|intros []]. }
    destruct Hwa' as (W1 & W2 & W3).
    destruct (Mu_agenda lc st a rest _ _ M E HA') as [A1 A2].
    { intros x i Hx Hi. apply in_app_or in Hx as [Hx|Hx].
      - destruct (sender_news_nodata _ _ _ _ _ _ _ _ _ _ _ Ho Hx) as [D _]. congruence.
      - rewrite (W3 x Hx) in Hi. discriminate. }
    { intros x k0 Hx Hk0. apply in_app_or in Hx as [Hx|Hx].
      - destruct (sender_news_nodata _ _ _ _ _ _ _ _ _ _ _ Ho Hx) as [_ D]. congruence.
      - apply (W2 x k0 Hx Hk0). }
    constructor; rewrite ?Hsnd, ?Hsink; auto.
    rewrite Hwd. cbn [wd_items]. apply Forall_app. split; [exact Mw|]. apply Forall_forall. intros j Hj.
    destruct (oeff_kp_sub lc _ _ _ _ _ _ j Ho Hj) as (z & Hz). eapply Tx'; eauto.
  - destruct Hk as [k1 k2 k3 k4 k5 k6 k7]. unfold popped in *; lproj.
    eapply SameSnd; eauto; rewrite ?Hwd, ?Hwa; auto; intros x ? [<-|[]]; discriminate.
  - destruct Hk as [k1 k2 k3 k4 k5 k6 k7]. unfold popped in *; lproj.
    eapply (SameSnd []); eauto; rewrite ?Hwd, ?Hwa; auto; [rewrite Hag; constructor| |]; intros x ? [].
  - destruct Hk as [k1 k2 k3 k4 k5 k6 k7]. unfold popped in *; lproj.
    destruct (getD_mu lc (ae_time a) (l_wd st) Mw) as (G1 & G2 & G3).
    eapply SameSnd; eauto; rewrite ?Hwd, ?Hwa; auto. intros x k0 Hx Hk0. rewrite (G3 x Hx) in Hk0. discriminate.
  - destruct Hk as [k1 k2 k3 k4 k5 k6 k7]. unfold popped in *; lproj.
    destruct (getA_mu lc (ae_time a) (l_wa st) Mwa) as (G1 & G2 & G3).
    eapply SameSnd; eauto; rewrite ?Hwd, ?Hwa; auto. intros x i Hx Hi. rewrite (G3 x Hx) in Hi. discriminate.
  - destruct Hk as [k1 k2 k3 k4 k5 k6 k7]. unfold popped in *; lproj.
    eapply SameSnd; eauto; rewrite ?Hwd, ?Hwa; auto.
    + intros x i [<-|[]] Hi. cbn in Hi. injection Hi as <-. apply Aev. rewrite Hev. reflexivity.
    + intros x k0 [<-|[]]; discriminate.
  - destruct Hk as [k1 k2 k3 k4 k5 k6 k7]. unfold popped in *; lproj.
    eapply SameSnd; eauto; rewrite ?Hwd, ?Hwa; auto.
    + intros x i [<-|[]]; discriminate.
    + intros x k0 [<-|[]] Hk0. cbn in Hk0. injection Hk0 as <-. apply Aak. rewrite Hev. reflexivity.
  - (* delivery *)
    assert (Hid : dataid_of (ae_ev a) = Some id) by (destruct Hev as [->|[-> _]]; reflexivity).
    pose proof (Aev id Hid) as Mid.
    assert (Hid0 : 0 <= id).
    { destruct (lb_evd _ _ _ HB (ae_ev a) id) as [A _]; [right; exists a; split; [rewrite E; left; reflexivity|reflexivity]|exact Hid|exact A]. }
    destruct Msk as (hist & Hi & Hpf & Hh).
    assert (Hi' : Inv (hist ++ [(id, mss (lc_cfg lc))]) (l_sink st')) by (rewrite Hsink; apply Inv_step; cbn [fst snd]; [lia|lia|exact Hi]).
    assert (Hpf' : prefix_len (hist ++ [(id, mss (lc_cfg lc))]) (nse (l_sink st'))).
    { rewrite Hsink in *. apply (ack_prefix _ _ id (mss (lc_cfg lc))) in Hi'. exact Hi'. }
    assert (Hh' : Forall (fun g => snd g = mss (lc_cfg lc) /\ mult (mss (lc_cfg lc)) (fst g)) (hist ++ [(id, mss (lc_cfg lc))])).
    { apply Forall_app. split; [exact Hh|]. constructor; [split; [reflexivity|exact Mid]|constructor]. }
    pose proof (prefix_mult _ _ _ Hm Hh' Hpf') as Mnse.
    destruct (getD_mu lc (ae_time a) (l_wd st) Mw) as (G1 & G2 & G3).
    assert (Hnews : exists news, AddsT rest (l_agenda st') news /\
                      (forall x i, In x news -> dataid_of (snd x) = Some i -> mult (mss (lc_cfg lc)) i) /\
                      (forall x k0, In x news -> ackno_of (snd x) = Some k0 -> mult (mss (lc_cfg lc)) k0) /\
                      Forall (fun r => mult (mss (lc_cfg lc)) (a_no r)) (wa_items (l_wa st'))).
    { destruct (droppedA lc (l_n2 st)); destruct Hif as [Hwa HA'].
      - eexists. split; [exact HA'|]. split; [exact G2|]. split; [intros x k0 Hx Hk0; rewrite (G3 x Hx) in Hk0; discriminate|rewrite Hwa; exact Mwa].
      - eexists. split; [exact HA'|]. split; [|split].
        + intros x i [<-|Hx] Hi0; [discriminate|eapply G2; eauto].
        + intros x k0 [<-|Hx] Hk0; [discriminate|rewrite (G3 x Hx) in Hk0; discriminate].
        + rewrite Hwa. cbn [wa_items]. apply Forall_app. split; [exact Mwa|]. constructor; [exact Mnse|constructor]. }
    destruct Hnews as (news & HA' & N1 & N2 & N3).
    destruct (Mu_agenda lc st a rest _ news M E HA' N1 N2) as [A1 A2].
    constructor; rewrite ?Hsnd; auto.
    + rewrite Hwd. exact G1.
    + exists (hist ++ [(id, mss (lc_cfg lc))]). auto.
Qed.

Lemma linit_Tm lc cw ss rtt0 orc : LInvTm lc (linit cw ss rtt0 orc).
Proof.
  constructor; unfold linit, init; lproj; proj.
  - intros id [].
  - intros b j [<-|[<-|[<-|[]]]]; discriminate.
Qed.

Lemma linit_Mu lc cw ss rtt0 orc : LInvMu lc (linit cw ss rtt0 orc).
Proof.
  constructor; unfold linit, init; lproj; proj; try constructor.
  - exists 0. lia.
  - intros b i [<-|[<-|[<-|[]]]]; discriminate.
  - exists []. split; [apply Inv_init|]. split; [|constructor].
    unfold prefix_len, sink0; cbn [nse]. split; [lia|]. split; [intros b Hb; lia|]. intros (g & [] & _).
  - intros b k [<-|[<-|[<-|[]]]]; discriminate.
Qed.

Lemma reach_V lc cw ss rtt0 orc st :
  lc_ok2 lc -> (zq (mss (lc_cfg lc)) <= cw)%Q -> (0 < rtt0)%Q ->
  lreach lc (linit cw ss rtt0 orc) st -> LInvTm lc st /\ LInvMu lc st.
Proof.
  intros Hok2 Hc Hr. pose proof (ok2_ok _ Hok2) as Hok. induction 1 as [|st st' Hreach IH Hstep].
  - split; [apply linit_Tm|apply linit_Mu].
  - destruct IH as [T M]. destruct (reach_C lc cw ss rtt0 orc st Hok2 Hc Hr Hreach) as [[HA HB] HC].
    pose proof Hstep as Hs. unfold lstep in Hs. destruct (l_agenda st) as [|a rest] eqn:E; [discriminate|]. clear Hs.
    pose proof (lstep_Tr lc st a rest st' (ok_fx _ Hok) E Hstep) as HT.
    split; [eapply LInvTm_step; eauto; apply Hok|eapply LInvMu_step; eauto; apply Hok].
Qed.

(* THE SEGMENT AT last_ack IS IN FLIGHT; one kernel event per armed timer; nothing armed when all is acknowledged *)
Theorem reach_U lc cw ss rtt0 orc st :
  lc_ok2 lc -> (zq (mss (lc_cfg lc)) <= cw)%Q -> (0 < rtt0)%Q ->
  lreach lc (linit cw ss rtt0 orc) st -> LInvU lc st.
Proof.
  intros Hok2 Hc Hr Hreach. pose proof (ok2_ok _ Hok2) as Hok. pose proof (ok_mss _ Hok) as Hm.
  destruct (reach_V lc cw ss rtt0 orc st Hok2 Hc Hr Hreach) as [T M].
  destruct (reach_C lc cw ss rtt0 orc st Hok2 Hc Hr Hreach) as [[HA HB] [Cs _]].
  pose proof (la_sinv _ _ _ HA) as I.
  constructor.
  - apply T.
  - intros Hlt. destruct (mu_la _ _ M) as (k & Hk & Ek). rewrite <- (si_keys _ _ I). rewrite Ek.
    apply (sc_timers _ _ Cs k Hk); lia.
  - intros Heq. assert (Es : sent (l_snd st) = []).
    { destruct (sent (l_snd st)) as [|i l] eqn:Es; [reflexivity|]. exfalso.
      pose proof (lb_sent _ _ _ HB) as Hs. pose proof (mu_unacked _ _ M) as Hu. rewrite Es in Hs, Hu.
      inversion Hs as [|? ? [_ H1] _]; subst. inversion Hu as [|? ? H2 _]; subst. lia. }
    pose proof (si_keys _ _ I) as Hk. rewrite Es in Hk. unfold keys in Hk. destruct (timers (l_snd st)); [reflexivity|discriminate].
Qed.
