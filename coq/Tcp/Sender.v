(* Model of onl/packet/tcp_generator.py : CongestionControl / TCPReno / TCPCubic and
   TCPPacketGenerator.{run, put, timeout_callback, resend_packet}, as an event-driven state machine.
   Executable; no proofs here (the model must still run when a proof breaks).

   Events (what the kernel does to the sender, one atomic piece of Python each):
     EAck ackno pid sample cnt   put(ack) with ack.ack = ackno, ack.packet_id = pid,
                                 sample = env.now - ack.time.  [cnt] is an oracle for TCPCubic only:
                                 the value of self.cnt after cubic_update() (libm `**`, not modelled)
     EExpire id                  the Timer of segment id fires: timeout_callback(id)
     EStoreCb                    the kernel processes one StorePut event of cwnd_avaialbe
                                 (its callback _trigger_get serves a waiting get)
     EWake                       the sender process is resumed (Initialize, or its StoreGet event is
                                 processed): the loop of run() up to the next `yield` / `return`
   Byte counts and ids are Z; cwnd, ssthresh, rtt_estimate, est_deviation, rto are Q.

   [fixes]: the three repairs made in /repo by fix: commits; [false] gives the code as found. *)
From Coq Require Import ZArith QArith Qabs Qround Qminmax List Bool.
Import ListNotations.
Open Scope Z_scope.

Inductive alg := Reno | Cubic.

Record fixes := mkfx {
  fx_deflate3 : bool;      (* dupack_over() only when fast retransmit took place (dupack >= 3) *)
  fx_guard_resend : bool;  (* resend_packet(seqno) ignores a seqno that is not in flight *)
  fx_stop_acked : bool     (* a new ACK stops and forgets every segment below ackno, not only ack.packet_id *)
}.
Definition as_found : fixes := mkfx false false false.

Record config := mkcfg {
  mss : Z;                 (* TCPPacketGenerator.mss = CongestionControl.mss *)
  fsize : Z;               (* flow.size; 0 stands for None (falsy): unbounded flow *)
  calg : alg
}.

Record sender := mkst {
  next_seq : Z; send_buffer : Z; last_ack : Z; dupack : Z;
  cwnd : Q; ssthresh : Q;
  srtt : Q;                (* rtt_estimate *)
  rttvar : Q;              (* est_deviation *)
  rto : Q;
  cwnd_cnt : Z; cnt : Q;   (* TCPCubic.cwnd_cnt, TCPCubic.cnt *)
  timers : list (Z * Q);   (* self.timers in dict order: id, the timeout the Timer was last armed with *)
  sent : list Z;           (* keys of self.sent_packets in dict order *)
  tokens : nat;            (* len(cwnd_avaialbe.items) *)
  pend : nat;              (* StorePut events of cwnd_avaialbe scheduled and not yet processed *)
  waiting : bool;          (* the sender process has an untriggered get in get_queue *)
  wake : bool;             (* the event the sender process waits for is triggered and not yet processed *)
  finished : bool          (* run() returned *)
}.

Inductive err :=
| KeyErr (id : Z)          (* sent_packets[id] / timers[id] misses *)
| ZeroDiv                  (* mss*mss/cwnd with cwnd = 0 *)
| TimerValue               (* Timer(timeout <= 0): ValueError *)
| NotEnabled               (* the event cannot occur in this state (model-level, no Python counterpart) *)
| OutOfFuel
| OtherErr.

Inductive out :=
| Tx (id size : Z)         (* out.put(packet) *)
| TStart (id : Z) (r : Q)  (* Timer(env, timeout=r, args=id) *)
| TStop (id : Z)           (* timers[id].stop() *)
| TRestart (id : Z) (r : Q). (* timers[id].restart(r) from its own callback *)

Inductive result := Ok (s : sender) (o : list out) | Raise (e : err).

Inductive event :=
| EAck (ackno pid : Z) (sample cnt_oracle : Q)
| EExpire (id : Z)
| EStoreCb
| EWake.

(* ---- setters (Coq has no record update) ---- *)
Definition set_cc (s : sender) (cw ss : Q) : sender :=
  mkst (next_seq s) (send_buffer s) (last_ack s) (dupack s) cw ss (srtt s) (rttvar s) (rto s)
       (cwnd_cnt s) (cnt s) (timers s) (sent s) (tokens s) (pend s) (waiting s) (wake s) (finished s).
Definition set_dupack (s : sender) (d : Z) : sender :=
  mkst (next_seq s) (send_buffer s) (last_ack s) d (cwnd s) (ssthresh s) (srtt s) (rttvar s) (rto s)
       (cwnd_cnt s) (cnt s) (timers s) (sent s) (tokens s) (pend s) (waiting s) (wake s) (finished s).
Definition set_rto (s : sender) (r : Q) : sender :=
  mkst (next_seq s) (send_buffer s) (last_ack s) (dupack s) (cwnd s) (ssthresh s) (srtt s) (rttvar s) r
       (cwnd_cnt s) (cnt s) (timers s) (sent s) (tokens s) (pend s) (waiting s) (wake s) (finished s).
Definition set_timers (s : sender) (t : list (Z * Q)) (se : list Z) : sender :=
  mkst (next_seq s) (send_buffer s) (last_ack s) (dupack s) (cwnd s) (ssthresh s) (srtt s) (rttvar s) (rto s)
       (cwnd_cnt s) (cnt s) t se (tokens s) (pend s) (waiting s) (wake s) (finished s).
Definition set_store (s : sender) (tk pd : nat) (wt wk : bool) : sender :=
  mkst (next_seq s) (send_buffer s) (last_ack s) (dupack s) (cwnd s) (ssthresh s) (srtt s) (rttvar s) (rto s)
       (cwnd_cnt s) (cnt s) (timers s) (sent s) tk pd wt wk (finished s).

Definition Qltb (a b : Q) : bool := negb (Qle_bool b a).
Definition zq (z : Z) : Q := inject_Z z.

Fixpoint has_timer (id : Z) (t : list (Z * Q)) : bool :=
  match t with [] => false | (k, _) :: r => (k =? id) || has_timer id r end.
Definition in_sent (id : Z) (l : list Z) : bool := existsb (Z.eqb id) l.
Definition del_timer (id : Z) (t : list (Z * Q)) : list (Z * Q) := filter (fun p => negb (fst p =? id)) t.
Definition del_sent (id : Z) (l : list Z) : list Z := filter (fun k => negb (k =? id)) l.
Fixpoint rearm (id : Z) (r : Q) (t : list (Z * Q)) : list (Z * Q) :=
  match t with [] => [] | (k, x) :: rest => if k =? id then (k, r) :: rest else (k, x) :: rearm id r rest end.

(* ---- CongestionControl ---- *)

(* consecutive_dupacks_received: ssthresh = max(2*mss, cwnd/2); cwnd = ssthresh + 3*mss.
   Python's max(a, b) returns b only when b > a. *)
Definition fr_ssthresh (m : Z) (cw : Q) : Q :=
  if Qltb (zq (2 * m)) (cw / (2 # 1))%Q then (cw / (2 # 1))%Q else zq (2 * m).
Definition fr_cwnd (m : Z) (cw : Q) : Q := (fr_ssthresh m cw + zq (3 * m))%Q.

(* ack_received.  Result: cwnd, cwnd_cnt, cnt  (None: ZeroDivisionError) *)
Definition cc_ack (c : config) (cw ss : Q) (ccnt : Z) (cn oracle : Q) : option (Q * Z * Q) :=
  if Qle_bool cw ss then Some ((cw + zq (mss c))%Q, ccnt, cn)                     (* slow start, both algorithms *)
  else match calg c with
       | Reno => if Qeq_bool cw 0%Q then None
                 else Some ((cw + zq (mss c * mss c) / cw)%Q, ccnt, cn)            (* mss*mss/cwnd *)
       | Cubic =>                                                                (* cubic_update sets self.cnt := oracle *)
           if Qltb oracle (zq ccnt) then Some ((cw + zq (mss c))%Q, 0, oracle)      (* cwnd_cnt > cnt *)
           else Some (cw, ccnt + 1, oracle)
       end.

(* ---- resend_packet(seqno): every packet in sent_packets has size mss ---- *)
Definition resend (fx : fixes) (c : config) (s : sender) (id : Z) : option (list out) :=
  if in_sent id (sent s) then Some [Tx id (mss c)]
  else if fx_guard_resend fx then Some [] else None.

(* ---- Store.put(True) of cwnd_avaialbe: the item is appended at once, the StorePut event is scheduled ---- *)
Definition store_put (s : sender) : sender :=
  set_store s (S (tokens s)) (S (pend s)) (waiting s) (wake s).

(* ---- the timers stopped by a new ACK ---- *)
Definition acked_ids (fx : fixes) (c : config) (s : sender) (ackno pid : Z) : list Z :=
  if fx_stop_acked fx then map fst (filter (fun p => fst p + mss c <=? ackno) (timers s))
  else if has_timer pid (timers s) then [pid] else [].

(* stop(); del timers[id]; del sent_packets[id]  for each id in turn *)
Fixpoint stop_all (ids : list Z) (t : list (Z * Q)) (se : list Z) (acc : list out)
  : option (list (Z * Q) * list Z * list out) :=
  match ids with
  | [] => Some (t, se, acc)
  | id :: rest =>
      if in_sent id se then stop_all rest (del_timer id t) (del_sent id se) (acc ++ [TStop id])
      else None                                                   (* KeyError: del sent_packets[id] *)
  end.
Definition first_missing (ids : list Z) (se : list Z) : Z :=
  hd 0 (filter (fun id => negb (in_sent id se)) ids).

(* ---- put(ack) ---- *)
Definition on_ack (fx : fixes) (c : config) (s : sender) (ackno pid : Z) (sample oracle : Q) : result :=
  let m := mss c in
  (* if ackno == last_ack: dupack += 1  else: [deflate]; dupack = 0 *)
  let s1 :=
    if ackno =? last_ack s then set_dupack s (dupack s + 1)
    else if 0 <? dupack s then
           let thr := if fx_deflate3 fx then 3 else 1 in
           let cw := if thr <=? dupack s then ssthresh s else cwnd s in      (* dupack_over() *)
           set_dupack (set_cc s cw (ssthresh s)) 0
         else s in
  if dupack s1 =? 3 then
    (* consecutive_dupacks_received(); resend_packet(ackno); return *)
    let s2 := set_cc s1 (fr_cwnd m (cwnd s1)) (fr_ssthresh m (cwnd s1)) in
    match resend fx c s2 ackno with
    | Some o => Ok s2 o
    | None => Raise (KeyErr ackno)
    end
  else if 3 <? dupack s1 then
    (* more_dupacks_received(); if last_ack + cwnd >= ackno: resend_packet(ackno); return *)
    let s2 := set_cc s1 (cwnd s1 + zq m)%Q (ssthresh s1) in
    if Qle_bool (zq ackno) (zq (last_ack s2) + cwnd s2)%Q then
      match resend fx c s2 ackno with
      | Some o => Ok s2 o
      | None => Raise (KeyErr ackno)
      end
    else Ok s2 []
  else if dupack s1 =? 0 then
    (* new ACK: estimator, last_ack, ack_received, stop timers, wake the sender process *)
    let e := (sample - srtt s1)%Q in
    let srtt' := (srtt s1 + (1 # 8) * e)%Q in
    let rttvar' := (rttvar s1 + (1 # 4) * (Qabs e - rttvar s1))%Q in
    let rto' := (srtt' + (4 # 1) * rttvar')%Q in
    match cc_ack c (cwnd s1) (ssthresh s1) (cwnd_cnt s1) (cnt s1) oracle with
    | None => Raise ZeroDiv
    | Some (cw, ccnt, cn) =>
        let ids := acked_ids fx c s1 ackno pid in
        match stop_all ids (timers s1) (sent s1) [] with
        | None => Raise (KeyErr (first_missing ids (sent s1)))
        | Some (t, se, o) =>
            Ok (store_put (mkst (next_seq s1) (send_buffer s1) ackno (dupack s1) cw (ssthresh s1) srtt' rttvar' rto'
                                ccnt cn t se (tokens s1) (pend s1) (waiting s1) (wake s1) (finished s1))) o
        end
    end
  else Ok s1 [].

(* ---- timeout_callback(id) ---- *)
Definition on_timer (fx : fixes) (c : config) (s : sender) (id : Z) : result :=
  if negb (has_timer id (timers s)) then Raise NotEnabled
  else
    let s1 := set_cc s (zq (mss c)) (ssthresh s) in          (* timer_expired(): cwnd = mss (+ cubic_reset) *)
    match resend fx c s1 id with
    | None => Raise (KeyErr id)
    | Some o =>
        let r := (rto s1 * (2 # 1))%Q in                               (* self.rto *= 2 *)
        Ok (set_timers (set_rto s1 r) (rearm id r (timers s1)) (sent s1)) (o ++ [TRestart id r])
    end.

(* ---- the kernel processes one StorePut event: _trigger_get ---- *)
Definition on_storecb (s : sender) : result :=
  match pend s with
  | O => Raise NotEnabled
  | S p =>
      match waiting s, tokens s with
      | true, S tk => Ok (set_store s tk p false true) []
      | _, _ => Ok (set_store s (tokens s) p (waiting s) (wake s)) []
      end
  end.

(* ---- run(): one resumption of the sender process ---- *)

(* while self.next_seq >= self.send_buffer: self.send_buffer += packet_size *)
Fixpoint fill (fuel : nat) (ns sb p : Z) : option Z :=
  match fuel with
  | O => None
  | S f => if sb <=? ns then fill f ns (sb + p) p else Some sb
  end.

Definition psize (c : config) (ns : Z) : Z :=
  if fsize c =? 0 then mss c else Z.min (mss c) (fsize c - ns).

Definition guard (c : config) (s : sender) (sb : Z) : bool :=
  Qle_bool (zq (next_seq s + mss c)) (Qmin (zq sb) (zq (last_ack s) + cwnd s)%Q).

Fixpoint send_loop (fuel : nat) (c : config) (s : sender) (acc : list out) : result :=
  match fuel with
  | O => Raise OutOfFuel
  | S f =>
      if negb (fsize c =? 0) && (fsize c <=? next_seq s) then
        Ok (mkst (next_seq s) (send_buffer s) (last_ack s) (dupack s) (cwnd s) (ssthresh s) (srtt s) (rttvar s) (rto s)
                 (cwnd_cnt s) (cnt s) (timers s) (sent s) (tokens s) (pend s) false false true) acc
      else
        match fill (S (S (Z.to_nat (next_seq s - send_buffer s)))) (next_seq s) (send_buffer s) (psize c (next_seq s)) with
        | None => Raise OutOfFuel
        | Some sb =>
            if guard c s sb then
              if Qle_bool (rto s) 0%Q then Raise TimerValue
              else
                let id := next_seq s in
                send_loop f c
                  (mkst (id + mss c) sb (last_ack s) (dupack s) (cwnd s) (ssthresh s) (srtt s) (rttvar s) (rto s)
                        (cwnd_cnt s) (cnt s) (timers s ++ [(id, rto s)]) (sent s ++ [id])
                        (tokens s) (pend s) (waiting s) (wake s) (finished s))
                  (acc ++ [Tx id (mss c); TStart id (rto s)])
            else
              (* yield self.cwnd_avaialbe.get() *)
              let s' := mkst (next_seq s) sb (last_ack s) (dupack s) (cwnd s) (ssthresh s) (srtt s) (rttvar s) (rto s)
                             (cwnd_cnt s) (cnt s) (timers s) (sent s) (tokens s) (pend s) (waiting s) (wake s) (finished s) in
              match tokens s with
              | S tk => Ok (set_store s' tk (pend s) false true) acc
              | O => Ok (set_store s' O (pend s) true false) acc
              end
        end
  end.

Definition send_fuel (s : sender) : nat :=
  S (Z.to_nat (Qfloor (zq (last_ack s) + cwnd s)%Q - next_seq s)).

Definition on_wake (c : config) (s : sender) : result :=
  if wake s && negb (finished s) then
    send_loop (send_fuel s) c (set_store s (tokens s) (pend s) false false) []
  else Raise NotEnabled.

Definition step (fx : fixes) (c : config) (s : sender) (e : event) : result :=
  match e with
  | EAck ackno pid sample oracle => on_ack fx c s ackno pid sample oracle
  | EExpire id => on_timer fx c s id
  | EStoreCb => on_storecb s
  | EWake => on_wake c s
  end.

(* TCPPacketGenerator.__init__: the Initialize event of the sender process is scheduled *)
Definition init (cw ss rtt0 : Q) : sender :=
  mkst 0 0 0 0 cw ss rtt0 0%Q (rtt0 * (2 # 1))%Q 0 0%Q [] [] O O false true false.

(* a history: the states and outputs after each event; stops at the first exception *)
Fixpoint run (fx : fixes) (c : config) (s : sender) (evs : list event) : result :=
  match evs with
  | [] => Ok s []
  | e :: t =>
      match step fx c s e with
      | Raise x => Raise x
      | Ok s' o => match run fx c s' t with
                   | Raise x => Raise x
                   | Ok s'' o' => Ok s'' (o ++ o')
                   end
      end
  end.

(* ------------------------------------------------------------------------------------------------ *)
(* Correspondence: every observed transition of the real sender is a transition of the model.
   The model is stepped from the OBSERVED pre-state (all of the sender's state is public), and its
   post-state must equal the observed one: exactly on everything integral, boolean and on the
   outputs, within a relative 1e-12 on the five float-valued fields (binary64 rounding of
   mss*mss/cwnd, 0.125*err, ... is outside the model). *)

Definition tol : Q := 1 # 1000000000000.
Definition Qclose (a b : Q) : bool := Qle_bool (Qabs (a - b)%Q) (tol * Qabs b)%Q.

Definition timers_close (a b : list (Z * Q)) : bool :=
  (fix go (x y : list (Z * Q)) : bool :=
     match x, y with
     | [], [] => true
     | (i, r) :: x', (j, q) :: y' => (i =? j) && Qclose r q && go x' y'
     | _, _ => false
     end) a b.

Fixpoint listZ_eq (a b : list Z) : bool :=
  match a, b with
  | [], [] => true
  | x :: a', y :: b' => (x =? y) && listZ_eq a' b'
  | _, _ => false
  end.

Definition state_close (m o : sender) : bool :=
  (next_seq m =? next_seq o) && (send_buffer m =? send_buffer o) && (last_ack m =? last_ack o) &&
  (dupack m =? dupack o) && Qclose (cwnd m) (cwnd o) && Qclose (ssthresh m) (ssthresh o) &&
  Qclose (srtt m) (srtt o) && Qclose (rttvar m) (rttvar o) && Qclose (rto m) (rto o) &&
  (cwnd_cnt m =? cwnd_cnt o) && Qeq_bool (cnt m) (cnt o) &&
  timers_close (timers m) (timers o) && listZ_eq (sent m) (sent o) &&
  Nat.eqb (tokens m) (tokens o) && Nat.eqb (pend m) (pend o) &&
  Bool.eqb (waiting m) (waiting o) && Bool.eqb (wake m) (wake o) && Bool.eqb (finished m) (finished o).

(* the initial state is compared exactly *)
Definition state_exact (m o : sender) : bool :=
  state_close m o && Qeq_bool (cwnd m) (cwnd o) && Qeq_bool (ssthresh m) (ssthresh o) &&
  Qeq_bool (srtt m) (srtt o) && Qeq_bool (rttvar m) (rttvar o) && Qeq_bool (rto m) (rto o).

Fixpoint txs (o : list out) : list (Z * Z) :=
  match o with
  | [] => []
  | Tx i z :: t => (i, z) :: txs t
  | _ :: t => txs t
  end.

Fixpoint listZZ_eq (a b : list (Z * Z)) : bool :=
  match a, b with
  | [], [] => true
  | (x, u) :: a', (y, v) :: b' => (x =? y) && (u =? v) && listZZ_eq a' b'
  | _, _ => false
  end.

Definition err_eqb (a b : err) : bool :=
  match a, b with
  | KeyErr x, KeyErr y => x =? y
  | ZeroDiv, ZeroDiv | TimerValue, TimerValue => true
  | _, _ => false
  end.

Record entry := mkentry { e_ev : event; e_tx : list (Z * Z); e_post : sender; e_err : option err }.

Fixpoint check_trace (fx : fixes) (c : config) (pre : sender) (l : list entry) : bool :=
  match l with
  | [] => true
  | e :: t =>
      match step fx c pre (e_ev e), e_err e with
      | Ok s' o, None => state_close s' (e_post e) && listZZ_eq (txs o) (e_tx e) && check_trace fx c (e_post e) t
      | Raise x, Some y => err_eqb x y && match t with [] => true | _ => false end
      | _, _ => false
      end
  end.

(* index of the first entry that does not check (diagnosis only) *)
Fixpoint first_bad (fx : fixes) (c : config) (pre : sender) (l : list entry) (k : nat) : option (nat * result) :=
  match l with
  | [] => None
  | e :: t =>
      let r := step fx c pre (e_ev e) in
      if check_trace fx c pre [e] then first_bad fx c (e_post e) t (S k) else Some (k, r)
  end.

(* the repairs present in /repo today (kept in step with the fix: commits) *)
Definition current : fixes := mkfx true true true.
