(* Proofs about Tcp/Sender.v: the window law (C17).  Every rule is an equation between the state
   before and after the event, including what does not change; the invariants are proved over all
   histories of events. *)
From Coq Require Import ZArith QArith Qabs Qround Qminmax List Bool Lia Lqa.
From ONL Require Import Tcp.Sender.
Import ListNotations.
Open Scope Z_scope.

Ltac proj :=
  cbn [next_seq send_buffer last_ack dupack cwnd ssthresh srtt rttvar rto cwnd_cnt cnt timers sent tokens pend
       waiting wake finished set_cc set_dupack set_rto set_timers set_store store_put mss fsize calg
       fx_deflate3 fx_guard_resend fx_stop_acked] in *.

(* ------------------------------------------------------------------------------------------------ *)
(* small facts *)

Lemma Qle_bool_true a b : Qle_bool a b = true <-> (a <= b)%Q.
Proof. apply Qle_bool_iff. Qed.

Lemma Qle_bool_false a b : Qle_bool a b = false <-> (b < a)%Q.
Proof.
  split; intros H.
  - destruct (Qlt_le_dec b a) as [L|L]; [exact L|]. apply Qle_bool_iff in L. congruence.
  - destruct (Qle_bool a b) eqn:E; [|reflexivity]. apply Qle_bool_iff in E. exfalso. apply (Qlt_not_le _ _ H E).
Qed.

Lemma Qltb_true a b : Qltb a b = true <-> (a < b)%Q.
Proof. unfold Qltb. rewrite negb_true_iff. apply Qle_bool_false. Qed.

Lemma Qltb_false a b : Qltb a b = false <-> (b <= a)%Q.
Proof. unfold Qltb. rewrite negb_false_iff. apply Qle_bool_true. Qed.

Lemma zq_le a b : a <= b -> (zq a <= zq b)%Q.
Proof. intros H. unfold zq. rewrite <- Zle_Qle. exact H. Qed.

Lemma zq_lt a b : a < b -> (zq a < zq b)%Q.
Proof. intros H. unfold zq. rewrite <- Zlt_Qlt. exact H. Qed.

Lemma zq_add a b : (zq (a + b) == zq a + zq b)%Q.
Proof. unfold zq. rewrite inject_Z_plus. reflexivity. Qed.

Lemma zq_mul a b : (zq (a * b) == zq a * zq b)%Q.
Proof. unfold zq. rewrite inject_Z_mult. reflexivity. Qed.

(* fast-retransmit threshold: max(2*mss, cwnd/2) *)
Lemma fr_ssthresh_spec m cw : (fr_ssthresh m cw == Qmax (zq (2 * m)) (cw / (2 # 1)))%Q.
Proof.
  unfold fr_ssthresh. destruct (Qltb (zq (2 * m)) (cw / (2 # 1))) eqn:E.
  - apply Qltb_true in E. symmetry. apply Q.max_r. apply Qlt_le_weak, E.
  - apply Qltb_false in E. symmetry. apply Q.max_l. exact E.
Qed.

Lemma fr_ssthresh_ge m cw : (zq (2 * m) <= fr_ssthresh m cw)%Q.
Proof.
  unfold fr_ssthresh. destruct (Qltb (zq (2 * m)) (cw / (2 # 1))) eqn:E.
  - apply Qltb_true in E. apply Qlt_le_weak, E.
  - apply Qle_refl.
Qed.

(* ------------------------------------------------------------------------------------------------ *)
(* duplicate ACKs *)

(* the first and the second duplicate: only the counter moves *)
Theorem early_dup_rule fx c s pid sample o :
  0 <= dupack s -> dupack s + 1 < 3 ->
  on_ack fx c s (last_ack s) pid sample o = Ok (set_dupack s (dupack s + 1)) [].
Proof.
  intros H0 H3. unfold on_ack. rewrite Z.eqb_refl. proj.
  replace (dupack s + 1 =? 3) with false by (symmetry; apply Z.eqb_neq; lia).
  replace (3 <? dupack s + 1) with false by (symmetry; apply Z.ltb_ge; lia).
  replace (dupack s + 1 =? 0) with false by (symmetry; apply Z.eqb_neq; lia).
  reflexivity.
Qed.

(* the third duplicate: ssthresh = max(2 MSS, cwnd/2), cwnd = ssthresh + 3 MSS, the missing segment
   (the one starting at last_ack) is retransmitted; nothing else changes *)
Theorem fast_retransmit_rule fx c s pid sample o :
  dupack s = 2 -> in_sent (last_ack s) (sent s) = true ->
  on_ack fx c s (last_ack s) pid sample o =
  Ok (mkst (next_seq s) (send_buffer s) (last_ack s) 3
           (fr_ssthresh (mss c) (cwnd s) + zq (3 * mss c))%Q (fr_ssthresh (mss c) (cwnd s))
           (srtt s) (rttvar s) (rto s) (cwnd_cnt s) (cnt s) (timers s) (sent s)
           (tokens s) (pend s) (waiting s) (wake s) (finished s))
     [Tx (last_ack s) (mss c)].
Proof.
  intros H2 Hin. unfold on_ack. rewrite Z.eqb_refl. proj. rewrite H2. cbn [Z.add Z.eqb Pos.add Pos.succ Pos.eqb].
  unfold resend. proj. rewrite Hin. reflexivity.
Qed.

(* with the repaired resend_packet, a third duplicate for which nothing is in flight changes the
   window in the same way and transmits nothing *)
Theorem fast_retransmit_nothing_in_flight fx c s pid sample o :
  fx_guard_resend fx = true -> dupack s = 2 -> in_sent (last_ack s) (sent s) = false ->
  on_ack fx c s (last_ack s) pid sample o =
  Ok (mkst (next_seq s) (send_buffer s) (last_ack s) 3
           (fr_ssthresh (mss c) (cwnd s) + zq (3 * mss c))%Q (fr_ssthresh (mss c) (cwnd s))
           (srtt s) (rttvar s) (rto s) (cwnd_cnt s) (cnt s) (timers s) (sent s)
           (tokens s) (pend s) (waiting s) (wake s) (finished s))
     [].
Proof.
  intros Hg H2 Hin. unfold on_ack. rewrite Z.eqb_refl. proj. rewrite H2. cbn [Z.add Z.eqb Pos.add Pos.succ Pos.eqb].
  unfold resend. proj. rewrite Hin, Hg. reflexivity.
Qed.

(* every further duplicate: cwnd += MSS (and the missing segment is offered again) *)
Theorem more_dupacks_rule fx c s pid sample o :
  3 <= dupack s -> (0 <= cwnd s)%Q -> 0 < mss c -> in_sent (last_ack s) (sent s) = true ->
  on_ack fx c s (last_ack s) pid sample o =
  Ok (mkst (next_seq s) (send_buffer s) (last_ack s) (dupack s + 1)
           (cwnd s + zq (mss c))%Q (ssthresh s)
           (srtt s) (rttvar s) (rto s) (cwnd_cnt s) (cnt s) (timers s) (sent s)
           (tokens s) (pend s) (waiting s) (wake s) (finished s))
     [Tx (last_ack s) (mss c)].
Proof.
  intros H3 Hc Hm Hin. unfold on_ack. rewrite Z.eqb_refl. proj.
  replace (dupack s + 1 =? 3) with false by (symmetry; apply Z.eqb_neq; lia).
  replace (3 <? dupack s + 1) with true by (symmetry; apply Z.ltb_lt; lia).
  assert (E : Qle_bool (zq (last_ack s)) (zq (last_ack s) + (cwnd s + zq (mss c)))%Q = true).
  { apply Qle_bool_true. assert (0 < zq (mss c))%Q by (apply (zq_lt 0); exact Hm). lra. }
  rewrite E. unfold resend. proj. rewrite Hin. reflexivity.
Qed.

(* ------------------------------------------------------------------------------------------------ *)
(* new ACKs *)

(* What a new ACK (ackno <> last_ack) does when no fast retransmit is pending (dupack < 3), stated
   through ack_received's result [cc_ack] and the timers stopped [stop_all]: the estimator, last_ack,
   dupack := 0, one token for the sender process; next_seq, send_buffer, ssthresh unchanged. *)
Theorem new_ack_rule fx c s ackno pid sample o cw ccnt cn t se outs :
  fx_deflate3 fx = true ->
  ackno <> last_ack s -> 0 <= dupack s < 3 ->
  cc_ack c (cwnd s) (ssthresh s) (cwnd_cnt s) (cnt s) o = Some (cw, ccnt, cn) ->
  stop_all (acked_ids fx c s ackno pid) (timers s) (sent s) [] = Some (t, se, outs) ->
  on_ack fx c s ackno pid sample o =
  Ok (mkst (next_seq s) (send_buffer s) ackno 0 cw (ssthresh s)
           (srtt s + (1 # 8) * (sample - srtt s))%Q
           (rttvar s + (1 # 4) * (Qabs (sample - srtt s) - rttvar s))%Q
           (srtt s + (1 # 8) * (sample - srtt s) + (4 # 1) * (rttvar s + (1 # 4) * (Qabs (sample - srtt s) - rttvar s)))%Q
           ccnt cn t se (S (tokens s)) (S (pend s)) (waiting s) (wake s) (finished s))
     outs.
Proof.
  intros Hfx Hne Hd Hcc Hst. unfold on_ack.
  replace (ackno =? last_ack s) with false by (symmetry; apply Z.eqb_neq; exact Hne).
  rewrite Hfx.
  destruct (0 <? dupack s) eqn:E0.
  - replace (3 <=? dupack s) with false by (symmetry; apply Z.leb_gt; lia).
    proj. cbn [Z.eqb Z.ltb Z.compare].
    unfold acked_ids in *. proj. rewrite Hcc. rewrite Hst. reflexivity.
  - apply Z.ltb_ge in E0. assert (Hz : dupack s = 0) by lia.
    rewrite Hz. cbn [Z.eqb Z.ltb Z.compare].
    unfold acked_ids in *. rewrite Hcc. rewrite Hst. proj. reflexivity.
Qed.

(* ack_received for Reno: slow start adds one MSS, congestion avoidance MSS*MSS/cwnd *)
Theorem reno_ack_rule c cw ss ccnt cn o :
  calg c = Reno -> ~ (cw == 0)%Q ->
  cc_ack c cw ss ccnt cn o =
  Some ((if Qle_bool cw ss then cw + zq (mss c) else cw + zq (mss c * mss c) / cw)%Q, ccnt, cn).
Proof.
  intros Ha Hz. unfold cc_ack. rewrite Ha. destruct (Qle_bool cw ss); [reflexivity|].
  destruct (Qeq_bool cw 0) eqn:E; [apply Qeq_bool_iff in E; contradiction|reflexivity].
Qed.

(* ack_received for CUBIC: slow start as Reno; otherwise the cnt / cwnd_cnt counting rule on the
   value of cnt that cubic_update() produced *)
Theorem cubic_ack_rule c cw ss ccnt cn o :
  calg c = Cubic ->
  cc_ack c cw ss ccnt cn o =
  Some (if Qle_bool cw ss then ((cw + zq (mss c))%Q, ccnt, cn)
        else if Qltb o (zq ccnt) then ((cw + zq (mss c))%Q, 0, o) else (cw, ccnt + 1, o)).
Proof.
  intros Ha. unfold cc_ack. rewrite Ha. destruct (Qle_bool cw ss); [reflexivity|].
  destruct (Qltb o (zq ccnt)); reflexivity.
Qed.

(* "the next new ACK first deflates cwnd to ssthresh and is then counted like any new ACK" *)
Theorem deflate_then_count fx c s ackno pid sample o :
  fx_deflate3 fx = true -> ackno <> last_ack s -> 3 <= dupack s ->
  on_ack fx c s ackno pid sample o =
  on_ack fx c (set_dupack (set_cc s (ssthresh s) (ssthresh s)) 0) ackno pid sample o.
Proof.
  intros Hfx Hne Hd. unfold on_ack. proj.
  replace (ackno =? last_ack s) with false by (symmetry; apply Z.eqb_neq; exact Hne).
  rewrite Hfx.
  replace (0 <? dupack s) with true by (symmetry; apply Z.ltb_lt; lia).
  replace (3 <=? dupack s) with true by (symmetry; apply Z.leb_le; lia).
  cbn [Z.ltb Z.compare]. reflexivity.
Qed.

(* the repaired code: after one or two duplicates (no fast retransmit) the window is NOT deflated *)
Theorem no_deflate_before_third_dup fx c s ackno pid sample o :
  fx_deflate3 fx = true -> ackno <> last_ack s -> 0 < dupack s < 3 ->
  on_ack fx c s ackno pid sample o = on_ack fx c (set_dupack s 0) ackno pid sample o.
Proof.
  intros Hfx Hne Hd. unfold on_ack. proj.
  replace (ackno =? last_ack s) with false by (symmetry; apply Z.eqb_neq; exact Hne).
  rewrite Hfx.
  replace (0 <? dupack s) with true by (symmetry; apply Z.ltb_lt; lia).
  replace (3 <=? dupack s) with false by (symmetry; apply Z.leb_gt; lia).
  cbn [Z.ltb Z.compare]. reflexivity.
Qed.

(* the code as found deflated after a single duplicate: cwnd 1536, one duplicate, new ACK:
   cwnd = ssthresh + MSS = 66047 instead of 1536 + 512 *)
Definition s_one_dup : sender :=
  mkst 2048 2560 512 1 (1536 # 1) (65535 # 1) (15 # 16) (1 # 8) (23 # 16) 0 0
       [(512, 2 # 1); (1024, 23 # 16); (1536, 23 # 16)] [512; 1024; 1536] O O true false false.

Theorem deflate_refuted_before_fix :
  exists c s ackno pid sample o s' outs,
    ackno <> last_ack s /\ 0 < dupack s < 3 /\ (cwnd s <= ssthresh s)%Q /\
    on_ack as_found c s ackno pid sample o = Ok s' outs /\
    ~ (cwnd s' == cwnd s + zq (mss c))%Q /\ (cwnd s' == ssthresh s + zq (mss c))%Q.
Proof.
  exists (mkcfg 512 5120 Reno), s_one_dup, 1024, 512, (1 # 4), 0%Q.
  eexists. eexists. split; [cbn; lia|]. split; [cbn; lia|]. split; [cbn; unfold Qle; cbn; lia|].
  split; [vm_compute; reflexivity|]. split; cbn; unfold Qeq; cbn; lia.
Qed.

(* and the repaired code on the same state does count the ACK in slow start *)
Example no_deflate_example :
  exists s' outs, on_ack (mkfx true false false) (mkcfg 512 5120 Reno) s_one_dup 1024 512 (1 # 4) 0 = Ok s' outs /\
                  (cwnd s' == 2048 # 1)%Q /\ dupack s' = 0 /\ last_ack s' = 1024.
Proof. eexists. eexists. split; [vm_compute; reflexivity|]. cbn. split; [reflexivity|split; reflexivity]. Qed.

(* ------------------------------------------------------------------------------------------------ *)
(* retransmission timeout *)

Theorem timeout_rule fx c s id :
  has_timer id (timers s) = true -> in_sent id (sent s) = true ->
  on_timer fx c s id =
  Ok (mkst (next_seq s) (send_buffer s) (last_ack s) (dupack s) (zq (mss c)) (ssthresh s)
           (srtt s) (rttvar s) (rto s * (2 # 1))%Q (cwnd_cnt s) (cnt s)
           (rearm id (rto s * (2 # 1))%Q (timers s)) (sent s)
           (tokens s) (pend s) (waiting s) (wake s) (finished s))
     [Tx id (mss c); TRestart id (rto s * (2 # 1))%Q].
Proof.
  intros Ht Hs. unfold on_timer. rewrite Ht. cbn [negb]. unfold resend. proj. rewrite Hs. reflexivity.
Qed.

Theorem rto_doubles fx c s id s' outs :
  on_timer fx c s id = Ok s' outs -> rto s' = (rto s * (2 # 1))%Q /\ cwnd s' = zq (mss c) /\ ssthresh s' = ssthresh s.
Proof.
  unfold on_timer. destruct (negb (has_timer id (timers s))); [discriminate|].
  destruct (resend fx c (set_cc s (zq (mss c)) (ssthresh s)) id); [|discriminate].
  intros H. injection H as <- _. proj. auto.
Qed.

(* ------------------------------------------------------------------------------------------------ *)
(* RTO formula *)

Local Opaque Qabs.
Theorem rto_formula fx c s ackno pid sample o s' outs :
  ackno <> last_ack s -> 0 <= dupack s ->
  on_ack fx c s ackno pid sample o = Ok s' outs ->
  (srtt s' == srtt s + (sample - srtt s) / (8 # 1))%Q /\
  (rttvar s' == rttvar s + (Qabs (sample - srtt s) - rttvar s) / (4 # 1))%Q /\
  (rto s' == srtt s' + (4 # 1) * rttvar s')%Q /\
  last_ack s' = ackno /\ dupack s' = 0.
Proof.
  intros Hne Hd. unfold on_ack.
  replace (ackno =? last_ack s) with false by (symmetry; apply Z.eqb_neq; exact Hne).
  set (s1 := if 0 <? dupack s then _ else s).
  assert (H1 : dupack s1 = 0 /\ srtt s1 = srtt s /\ rttvar s1 = rttvar s).
  { subst s1. destruct (0 <? dupack s) eqn:E; proj; [auto|]. apply Z.ltb_ge in E. split; [lia|auto]. }
  destruct H1 as (Hd1 & Hs1 & Hr1). rewrite Hd1. cbn [Z.eqb Z.ltb Z.compare].
  destruct (cc_ack c (cwnd s1) (ssthresh s1) (cwnd_cnt s1) (cnt s1) o) as [[[cw ccnt] cn]|]; [|discriminate].
  destruct (stop_all _ _ _ _) as [[[t se] oo]|]; [|discriminate].
  intros H. injection H as <- _. proj. rewrite Hs1, Hr1.
  repeat split; try reflexivity; try exact Hd1; field.
Qed.
Local Transparent Qabs.

(* ------------------------------------------------------------------------------------------------ *)
(* the send loop *)

(* n consecutive MSS-sized segments starting at id, each with a timer armed with r *)
Fixpoint segs (m id : Z) (n : nat) (r : Q) : list out :=
  match n with O => [] | S k => Tx id m :: TStart id r :: segs m (id + m) k r end.
Fixpoint seg_ids (m id : Z) (n : nat) : list Z :=
  match n with O => [] | S k => id :: seg_ids m (id + m) k end.

Lemma fill_ge fuel ns sb p sb' : fill fuel ns sb p = Some sb' -> ns < sb'.
Proof.
  revert sb. induction fuel as [|f IH]; intros sb; cbn [fill]; [discriminate|].
  destruct (sb <=? ns) eqn:E; [apply IH|]. intros H; injection H as <-. apply Z.leb_gt in E. exact E.
Qed.

Lemma fill_bound fuel ns sb p sb' lim :
  fill fuel ns sb p = Some sb' -> sb <= lim -> ns + p <= lim -> 0 <= p -> sb' <= lim.
Proof.
  revert sb. induction fuel as [|f IH]; intros sb; cbn [fill]; [discriminate|].
  destruct (sb <=? ns) eqn:E.
  - intros H Hs Hp H0. apply Z.leb_le in E. apply (IH (sb + p)); auto. lia.
  - intros H; injection H as <-. auto.
Qed.

Lemma fill_mono fuel ns sb p sb' : fill fuel ns sb p = Some sb' -> 0 <= p -> sb <= sb'.
Proof.
  revert sb. induction fuel as [|f IH]; intros sb; cbn [fill]; [discriminate|].
  destruct (sb <=? ns) eqn:E.
  - intros H H0. specialize (IH _ H H0). lia.
  - intros H; injection H as <-. lia.
Qed.

Lemma fill_enough fuel ns sb p : 1 <= p -> (Z.to_nat (ns - sb + 1) < fuel)%nat -> exists sb', fill fuel ns sb p = Some sb'.
Proof.
  intros Hp. revert sb. induction fuel as [|f IH]; intros sb Hf; [lia|]. cbn [fill].
  destruct (sb <=? ns) eqn:E; [|eauto]. apply Z.leb_le in E. apply IH. lia.
Qed.

(* what one resumption of the sender process does *)
Definition wake_spec (c : config) (s s' : sender) (acc outs : list out) : Prop :=
  exists n : nat,
    outs = acc ++ segs (mss c) (next_seq s) n (rto s) /\
    next_seq s' = next_seq s + Z.of_nat n * mss c /\
    timers s' = timers s ++ map (fun i => (i, rto s)) (seg_ids (mss c) (next_seq s) n) /\
    sent s' = sent s ++ seg_ids (mss c) (next_seq s) n /\
    (* every emission was allowed by the window and by the buffered data *)
    (forall k : nat, (k < n)%nat ->
        (zq (next_seq s + Z.of_nat k * mss c + mss c) <= zq (last_ack s) + cwnd s)%Q /\
        next_seq s + Z.of_nat k * mss c + mss c <= send_buffer s') /\
    (* nothing else moves *)
    last_ack s' = last_ack s /\ dupack s' = dupack s /\ cwnd s' = cwnd s /\ ssthresh s' = ssthresh s /\
    srtt s' = srtt s /\ rttvar s' = rttvar s /\ rto s' = rto s /\ cwnd_cnt s' = cwnd_cnt s /\ cnt s' = cnt s /\
    pend s' = pend s /\ send_buffer s <= send_buffer s' /\
    (* it stops only at the end of the flow or when the guard fails *)
    ((finished s' = true /\ fsize c <> 0 /\ fsize c <= next_seq s') \/
     (finished s' = finished s /\ guard c s' (send_buffer s') = false /\ next_seq s' < send_buffer s')).

Lemma send_loop_spec c (Hm : 0 < mss c) : forall fuel s acc s' outs,
  send_loop fuel c s acc = Ok s' outs -> wake_spec c s s' acc outs.
Proof.
  induction fuel as [|f IH]; intros s acc s' outs; cbn [send_loop]; [discriminate|].
  destruct (negb (fsize c =? 0) && (fsize c <=? next_seq s)) eqn:Efin.
  - intros H; injection H as <- <-. exists O. cbn [segs seg_ids map]. rewrite !app_nil_r. proj.
    apply andb_true_iff in Efin as [E1 E2]. apply negb_true_iff, Z.eqb_neq in E1. apply Z.leb_le in E2.
    repeat split; try reflexivity; try lia.
  - destruct (fill _ _ _ _) as [sb|] eqn:Efill; [|discriminate].
    assert (Hp : 0 <= psize c (next_seq s)).
    { unfold psize. destruct (fsize c =? 0) eqn:E0; [lia|].
      apply andb_false_iff in Efin as [E|E]; [discriminate|]. apply Z.leb_gt in E. lia. }
    pose proof (fill_ge _ _ _ _ _ Efill) as Hge. pose proof (fill_mono _ _ _ _ _ Efill Hp) as Hmono.
    destruct (guard c s sb) eqn:Eg.
    + destruct (Qle_bool (rto s) 0); [discriminate|].
      intros H. apply IH in H. destruct H as (n & Ho & Hns & Ht & Hse & Hall & Hrest). proj.
      exists (S n). split; [|split; [|split; [|split; [|split]]]].
      * rewrite Ho. cbn [segs]. rewrite <- app_assoc. reflexivity.
      * rewrite Hns. lia.
      * rewrite Ht. cbn [seg_ids map]. rewrite <- app_assoc. reflexivity.
      * rewrite Hse. cbn [seg_ids]. rewrite <- app_assoc. reflexivity.
      * intros k Hk. destruct k as [|k].
        -- cbn [Z.of_nat]. replace (next_seq s + 0 * mss c + mss c) with (next_seq s + mss c) by lia.
           unfold guard in Eg. apply Qle_bool_true in Eg. split.
           ++ eapply Qle_trans; [exact Eg|apply Q.le_min_r].
           ++ assert (H1 : (zq (next_seq s + mss c) <= zq sb)%Q) by (eapply Qle_trans; [exact Eg|apply Q.le_min_l]).
              unfold zq in H1. rewrite <- Zle_Qle in H1. destruct Hrest as (_&_&_&_&_&_&_&_&_&_&Hsb&_). lia.
        -- destruct (Hall k ltac:(lia)) as [A B].
           replace (next_seq s + Z.of_nat (S k) * mss c + mss c) with (next_seq s + mss c + Z.of_nat k * mss c + mss c) by lia.
           split; assumption.
      * destruct Hrest as (A1&A2&A3&A4&A5&A6&A7&A8&A9&A10&A11&A12). repeat split; try assumption. lia.
    + intros H. exists O. cbn [segs seg_ids map]. rewrite !app_nil_r.
      assert (Hs' : next_seq s' = next_seq s /\ send_buffer s' = sb /\ last_ack s' = last_ack s /\ cwnd s' = cwnd s /\
                    finished s' = finished s /\ timers s' = timers s /\ sent s' = sent s /\ dupack s' = dupack s /\
                    ssthresh s' = ssthresh s /\ srtt s' = srtt s /\ rttvar s' = rttvar s /\ rto s' = rto s /\
                    cwnd_cnt s' = cwnd_cnt s /\ cnt s' = cnt s /\ pend s' = pend s /\ outs = acc).
      { destruct (tokens s); injection H as <- <-; proj; repeat split; reflexivity. }
      destruct Hs' as (B1&B2&B3&B4&B5&B6&B7&B8&B9&B10&B11&B12&B13&B14&B15&B16).
      split; [exact B16|]. split; [lia|]. split; [exact B6|]. split; [exact B7|].
      split; [intros k Hk; lia|].
      repeat split; try assumption; try lia. right. split; [exact B5|]. split; [|lia].
      unfold guard in *. rewrite B1, B2, B3, B4. exact Eg.
Qed.

Theorem send_guard c s s' outs :
  0 < mss c -> on_wake c s = Ok s' outs -> wake_spec c (set_store s (tokens s) (pend s) false false) s' [] outs.
Proof.
  intros Hm. unfold on_wake. destruct (wake s && negb (finished s)); [|discriminate].
  apply send_loop_spec. exact Hm.
Qed.

(* hence: right after sending, the data in flight beyond last_ack fits the congestion window *)
Theorem window_respected c s s' outs :
  0 < mss c -> on_wake c s = Ok s' outs -> next_seq s < next_seq s' ->
  (zq (next_seq s' - last_ack s') <= cwnd s')%Q.
Proof.
  intros Hm H Hlt. apply send_guard in H; [|exact Hm]. destruct H as (n & _ & Hns & _ & _ & Hall & Hla & _ & Hcw & _). proj.
  destruct n as [|n]; [lia|]. destruct (Hall n ltac:(lia)) as [A _].
  rewrite Hla, Hcw, Hns.
  replace (next_seq s + Z.of_nat (S n) * mss c - last_ack s) with (next_seq s + Z.of_nat n * mss c + mss c - last_ack s) by lia.
  unfold Z.sub. rewrite zq_add. unfold zq at 2. rewrite inject_Z_opp. fold (zq (last_ack s)). lra.
Qed.

(* the sender never runs ahead of the data buffered from the flow, which never exceeds the flow *)
Definition buffered_ok (c : config) (s : sender) : Prop :=
  next_seq s <= send_buffer s /\ (fsize c <> 0 -> send_buffer s <= fsize c).

Lemma send_loop_buffered c (Hm : 0 < mss c) : forall fuel s acc s' outs,
  buffered_ok c s -> send_loop fuel c s acc = Ok s' outs -> buffered_ok c s'.
Proof.
  induction fuel as [|f IH]; intros s acc s' outs Hb; cbn [send_loop]; [discriminate|].
  destruct (negb (fsize c =? 0) && (fsize c <=? next_seq s)) eqn:Efin.
  - intros H; injection H as <- _. exact Hb.
  - destruct (fill _ _ _ _) as [sb|] eqn:Efill; [|discriminate].
    assert (Hsb : next_seq s < sb /\ (fsize c <> 0 -> sb <= fsize c)).
    { split; [eapply fill_ge; eauto|]. intros Hf. destruct Hb as [B1 B2].
      apply andb_false_iff in Efin as [E|E]; [apply negb_false_iff, Z.eqb_eq in E; contradiction|]. apply Z.leb_gt in E.
      eapply fill_bound; eauto; unfold psize; replace (fsize c =? 0) with false by (symmetry; apply Z.eqb_neq; exact Hf); lia. }
    destruct (guard c s sb) eqn:Eg.
    + destruct (Qle_bool (rto s) 0); [discriminate|]. apply IH. unfold buffered_ok; proj.
      unfold guard in Eg. apply Qle_bool_true in Eg.
      assert (H1 : (zq (next_seq s + mss c) <= zq sb)%Q) by (eapply Qle_trans; [exact Eg|apply Q.le_min_l]).
      unfold zq in H1. rewrite <- Zle_Qle in H1. tauto.
    + intros H. destruct (tokens s); injection H as <- _; unfold buffered_ok; proj; split; try tauto; lia.
Qed.

(* ------------------------------------------------------------------------------------------------ *)
(* only the resumption of the sender process emits new data *)

Fixpoint starts (o : list out) : list Z :=
  match o with [] => [] | TStart i _ :: t => i :: starts t | _ :: t => starts t end.

Definition retransmissions_only (s : sender) (o : list out) : Prop :=
  starts o = [] /\ forall i z, In (Tx i z) o -> in_sent i (sent s) = true.

Lemma resend_retx fx c s s0 id o :
  sent s0 = sent s -> resend fx c s0 id = Some o -> retransmissions_only s o.
Proof.
  unfold resend. intros Hs. destruct (in_sent id (sent s0)) eqn:E.
  - intros H; injection H as <-. split; [reflexivity|]. intros i z [H|[]]. injection H as <- _. rewrite <- Hs. exact E.
  - destruct (fx_guard_resend fx); [|discriminate]. intros H; injection H as <-. split; [reflexivity|intros i z []].
Qed.

Lemma stop_all_starts ids : forall t se acc t' se' o,
  stop_all ids t se acc = Some (t', se', o) ->
  starts o = starts acc /\ (forall i z, In (Tx i z) o -> In (Tx i z) acc).
Proof.
  induction ids as [|id r IH]; intros t se acc t' se' o; cbn [stop_all].
  - intros H; injection H as _ _ <-. auto.
  - destruct (in_sent id se); [|discriminate]. intros H. apply IH in H as [A B]. split.
    + rewrite A. clear. induction acc as [|x acc IHa]; [reflexivity|]. destruct x; cbn [app starts]; rewrite ?IHa; reflexivity.
    + intros i z Hi. specialize (B i z Hi). apply in_app_or in B as [B|[B|[]]]; [exact B|discriminate].
Qed.

Theorem only_wake_sends_new_data fx c s e s' outs :
  e <> EWake -> step fx c s e = Ok s' outs ->
  next_seq s' = next_seq s /\ send_buffer s' = send_buffer s /\ retransmissions_only s outs.
Proof.
  intros Hne. destruct e as [ackno pid sample o|id| |]; cbn [step]; [| | |contradiction].
  - unfold on_ack. set (s1 := if ackno =? last_ack s then _ else _).
    assert (H1 : next_seq s1 = next_seq s /\ send_buffer s1 = send_buffer s /\ sent s1 = sent s).
    { subst s1. destruct (ackno =? last_ack s); [proj; auto|]. destruct (0 <? dupack s); proj; auto. }
    destruct H1 as (A & B & C).
    destruct (dupack s1 =? 3).
    + destruct (resend _ _ _ _) as [o'|] eqn:R; [|discriminate]. intros H; injection H as <- <-. proj.
      split; [exact A|split; [exact B|]]. eapply resend_retx; [|exact R]. proj. exact C.
    + destruct (3 <? dupack s1).
      * destruct (Qle_bool _ _).
        -- destruct (resend _ _ _ _) as [o'|] eqn:R; [|discriminate]. intros H; injection H as <- <-. proj.
           split; [exact A|split; [exact B|]]. eapply resend_retx; [|exact R]. proj. exact C.
        -- intros H; injection H as <- <-. proj. split; [exact A|split; [exact B|]]. split; [reflexivity|intros i z []].
      * destruct (dupack s1 =? 0).
        -- destruct (cc_ack _ _ _ _ _ _) as [[[cw ccnt] cn]|]; [|discriminate].
           destruct (stop_all _ _ _ _) as [[[t se] oo]|] eqn:St; [|discriminate].
           intros H; injection H as <- <-. proj. split; [exact A|split; [exact B|]].
           apply stop_all_starts in St as [S1 S2]. split; [exact S1|]. intros i z Hi. destruct (S2 i z Hi).
        -- intros H; injection H as <- <-. split; [exact A|split; [exact B|]]. split; [reflexivity|intros i z []].
  - unfold on_timer. destruct (negb (has_timer id (timers s))); [discriminate|].
    destruct (resend _ _ _ _) as [o'|] eqn:R; [|discriminate]. intros H; injection H as <- <-. proj.
    split; [reflexivity|split; [reflexivity|]].
    apply (resend_retx fx c s) in R; [|reflexivity]. destruct R as [R1 R2]. split.
    + clear R2. induction o' as [|x o' IHo]; [reflexivity|]. destruct x; cbn [app starts] in *; try discriminate; auto.
    + intros i z Hi. apply in_app_or in Hi as [Hi|[Hi|[]]]; [eauto|discriminate].
  - unfold on_storecb. destruct (pend s); [discriminate|].
    destruct (waiting s); [destruct (tokens s)|]; intros H; injection H as <- <-; proj; repeat split; try reflexivity; intros i z [].
Qed.

Lemma starts_app a b : starts (a ++ b) = starts a ++ starts b.
Proof. induction a as [|x a IH]; [reflexivity|]. destruct x; cbn [app starts]; rewrite ?IH; reflexivity. Qed.

Lemma starts_segs m id n r : starts (segs m id n r) = seg_ids m id n.
Proof. revert id. induction n as [|n IH]; intros id; [reflexivity|]. cbn [segs starts seg_ids]. rewrite IH. reflexivity. Qed.

Lemma seg_ids_app m id a b : seg_ids m id (a + b) = seg_ids m id a ++ seg_ids m (id + Z.of_nat a * m) b.
Proof.
  revert id. induction a as [|a IH]; intros id.
  - cbn [Nat.add seg_ids app Z.of_nat]. replace (id + 0 * m) with id by lia. reflexivity.
  - change (S a + b)%nat with (S (a + b)).
    change (seg_ids m id (S (a + b))) with (id :: seg_ids m (id + m) (a + b)).
    change (seg_ids m id (S a)) with (id :: seg_ids m (id + m) a).
    rewrite IH. rewrite <- app_comm_cons. do 2 f_equal. f_equal. lia.
Qed.

(* over any history: the new segments (those for which a timer is started) are numbered
   next_seq, next_seq + MSS, ... without gaps, and next_seq counts them *)
Lemma run_numbering fx c (Hm : 0 < mss c) : forall evs s s' outs,
  run fx c s evs = Ok s' outs ->
  exists n : nat, starts outs = seg_ids (mss c) (next_seq s) n /\ next_seq s' = next_seq s + Z.of_nat n * mss c.
Proof.
  induction evs as [|e evs IH]; intros s s' outs; cbn [run].
  - intros H; injection H as <- <-. exists O. cbn. split; [reflexivity|lia].
  - destruct (step fx c s e) as [s1 o1|] eqn:E1; [|discriminate].
    destruct (run fx c s1 evs) as [s2 o2|] eqn:E2; [|discriminate].
    intros H; injection H as <- <-. apply IH in E2 as (n2 & S2 & N2).
    assert (H1 : exists n1 : nat, starts o1 = seg_ids (mss c) (next_seq s) n1 /\ next_seq s1 = next_seq s + Z.of_nat n1 * mss c).
    { destruct e as [ackno pid sample o|id| |].
      1-3: (apply only_wake_sends_new_data in E1 as (A & _ & (B & _)); [|discriminate]; exists O; rewrite B; cbn; split; [reflexivity|lia]).
      cbn [step] in E1. apply send_guard in E1 as (n & Ho & Hns & _); [|exact Hm]. proj.
      exists n. rewrite Ho. cbn [app]. rewrite starts_segs. auto. }
    destruct H1 as (n1 & S1 & N1). exists (n1 + n2)%nat. rewrite starts_app, S1, S2, seg_ids_app, N1. split; [reflexivity|]. rewrite N2, N1. lia.
Qed.

Theorem segments_consecutive fx c cw0 ss0 rtt0 evs s' outs :
  0 < mss c -> run fx c (init cw0 ss0 rtt0) evs = Ok s' outs ->
  exists n : nat, starts outs = seg_ids (mss c) 0 n /\ next_seq s' = Z.of_nat n * mss c.
Proof.
  intros Hm H. apply run_numbering in H as (n & A & B); [|exact Hm]. exists n. split; [exact A|]. rewrite B. cbn. lia.
Qed.

(* ------------------------------------------------------------------------------------------------ *)
(* cwnd >= MSS, over all histories *)

Definition win_inv (c : config) (s : sender) : Prop :=
  (zq (mss c) <= cwnd s)%Q /\ 0 <= dupack s /\ (3 <= dupack s -> (zq (2 * mss c) <= ssthresh s)%Q).

Lemma zq_2m_ge m : 0 < m -> (zq m <= zq (2 * m))%Q.
Proof. intros H. apply zq_le. lia. Qed.

Lemma cc_ack_ge c cw ss ccnt cn o cw' ccnt' cn' :
  0 < mss c -> (zq (mss c) <= cw)%Q -> cc_ack c cw ss ccnt cn o = Some (cw', ccnt', cn') -> (zq (mss c) <= cw')%Q.
Proof.
  intros Hm Hc. assert (Hp : (0 < zq (mss c))%Q) by (apply (zq_lt 0); exact Hm).
  unfold cc_ack. destruct (Qle_bool cw ss).
  - intros H; injection H as <- _ _. lra.
  - destruct (calg c).
    + destruct (Qeq_bool cw 0); [discriminate|]. intros H; injection H as <- _ _.
      assert (H0 : (0 <= zq (mss c * mss c) / cw)%Q).
      { apply Qle_shift_div_l; [lra|]. rewrite Qmult_0_l. apply (zq_le 0). nia. }
      lra.
    + destruct (Qltb o (zq ccnt)); intros H; injection H as <- _ _; lra.
Qed.

Lemma on_ack_win_inv fx c s ackno pid sample o s' outs :
  fx_deflate3 fx = true -> 0 < mss c -> win_inv c s -> on_ack fx c s ackno pid sample o = Ok s' outs -> win_inv c s'.
Proof.
  intros Hfx Hm (Hc & Hd & Hs).
  assert (Hp : (0 < zq (mss c))%Q) by (apply (zq_lt 0); exact Hm).
  assert (H2m : (zq (mss c) <= zq (2 * mss c))%Q) by (apply zq_2m_ge; exact Hm).
  unfold on_ack. rewrite Hfx. destruct (ackno =? last_ack s) eqn:Ea.
  - (* duplicate *)
    proj. destruct (dupack s + 1 =? 3) eqn:E3.
    + apply Z.eqb_eq in E3. destruct (resend _ _ _ _); [|discriminate]. intros H; injection H as <- _.
      unfold win_inv; proj. pose proof (fr_ssthresh_ge (mss c) (cwnd s)) as F. unfold fr_cwnd.
      assert (0 <= zq (3 * mss c))%Q by (apply (zq_le 0); lia).
      split; [lra|]. split; [lia|]. intros _. exact F.
    + apply Z.eqb_neq in E3. destruct (3 <? dupack s + 1) eqn:E4.
      * apply Z.ltb_lt in E4.
        assert (W : win_inv c (set_cc (set_dupack s (dupack s + 1)) (cwnd s + zq (mss c))%Q (ssthresh s))).
        { unfold win_inv; proj. split; [lra|]. split; [lia|]. intros _. apply Hs. lia. }
        destruct (Qle_bool _ _).
        -- destruct (resend _ _ _ _); [|discriminate]. intros H; injection H as <- _. exact W.
        -- intros H; injection H as <- _. exact W.
      * apply Z.ltb_ge in E4. destruct (dupack s + 1 =? 0) eqn:E0; [apply Z.eqb_eq in E0; lia|].
        intros H; injection H as <- _. unfold win_inv; proj. split; [exact Hc|]. split; [lia|]. intros; lia.
  - (* new ACK *)
    set (s1 := if 0 <? dupack s then _ else s).
    assert (H1 : dupack s1 = 0 /\ (zq (mss c) <= cwnd s1)%Q).
    { subst s1. destruct (0 <? dupack s) eqn:E0.
      - proj. split; [reflexivity|]. destruct (3 <=? dupack s) eqn:E3; [|exact Hc].
        apply Z.leb_le in E3. specialize (Hs E3). lra.
      - apply Z.ltb_ge in E0. split; [lia|exact Hc]. }
    destruct H1 as [Hd1 Hc1]. rewrite Hd1. cbn [Z.eqb Z.ltb Z.compare].
    destruct (cc_ack c (cwnd s1) (ssthresh s1) (cwnd_cnt s1) (cnt s1) o) as [[[cw ccnt] cn]|] eqn:Ecc; [|discriminate].
    destruct (stop_all _ _ _ _) as [[[t se] oo]|]; [|discriminate].
    intros H; injection H as <- _. unfold win_inv; proj.
    split; [eapply cc_ack_ge; eauto|]. split; [lia|]. intros; lia.
Qed.

Lemma step_win_inv fx c s e s' outs :
  fx_deflate3 fx = true -> 0 < mss c -> win_inv c s -> step fx c s e = Ok s' outs -> win_inv c s'.
Proof.
  intros Hfx Hm W. destruct e as [ackno pid sample o|id| |]; cbn [step].
  - apply on_ack_win_inv; assumption.
  - destruct W as (Hc & Hd & Hs). unfold on_timer. destruct (negb (has_timer id (timers s))); [discriminate|].
    destruct (resend _ _ _ _); [|discriminate]. intros H; injection H as <- _. unfold win_inv; proj.
    split; [apply Qle_refl|]. split; assumption.
  - destruct W as (Hc & Hd & Hs). unfold on_storecb. destruct (pend s); [discriminate|].
    destruct (waiting s); [destruct (tokens s)|]; intros H; injection H as <- _; unfold win_inv; proj; auto.
  - intros H. apply send_guard in H as (n & _ & _ & _ & _ & _ & _ & Hd' & Hc' & Hs' & _); [|exact Hm]. proj.
    destruct W as (Hc & Hd & Hs). unfold win_inv. rewrite Hd', Hc', Hs'. auto.
Qed.

Lemma run_win_inv fx c (Hfx : fx_deflate3 fx = true) (Hm : 0 < mss c) : forall evs s s' outs,
  win_inv c s -> run fx c s evs = Ok s' outs -> win_inv c s'.
Proof.
  induction evs as [|e evs IH]; intros s s' outs W; cbn [run].
  - intros H; injection H as <- _. exact W.
  - destruct (step fx c s e) as [s1 o1|] eqn:E1; [|discriminate].
    destruct (run fx c s1 evs) as [s2 o2|] eqn:E2; [|discriminate].
    intros H; injection H as <- _. eapply IH; [|exact E2]. eapply step_win_inv; eauto.
Qed.

Lemma init_win_inv c cw0 ss0 rtt0 : (zq (mss c) <= cw0)%Q -> win_inv c (init cw0 ss0 rtt0).
Proof. intros Hc. unfold win_inv, init; proj. split; [exact Hc|]. split; [lia|]. intros; lia. Qed.

(* cwnd never falls below one MSS: every history of ACKs, expiries, store callbacks and resumptions,
   from any initial cwnd >= MSS and ANY initial ssthresh *)
Theorem cwnd_ge_mss fx c cw0 ss0 rtt0 evs s' outs :
  fx_deflate3 fx = true -> 0 < mss c -> (zq (mss c) <= cw0)%Q ->
  run fx c (init cw0 ss0 rtt0) evs = Ok s' outs -> (zq (mss c) <= cwnd s')%Q.
Proof.
  intros Hfx Hm Hc H. eapply run_win_inv in H; eauto; [destruct H as [H _]; exact H|].
  apply init_win_inv; exact Hc.
Qed.

(* the model's division never meets cwnd = 0 (Python would raise ZeroDivisionError) *)
Theorem never_zero_div fx c cw0 ss0 rtt0 evs s' outs e :
  fx_deflate3 fx = true -> 0 < mss c -> (zq (mss c) <= cw0)%Q ->
  run fx c (init cw0 ss0 rtt0) evs = Ok s' outs -> step fx c s' e <> Raise ZeroDiv.
Proof.
  intros Hfx Hm Hc H.
  assert (W : win_inv c s') by (eapply run_win_inv in H; eauto; apply init_win_inv; exact Hc).
  clear H. destruct W as (Hcw & Hd & Hs).
  assert (Hp : (0 < zq (mss c))%Q) by (apply (zq_lt 0); exact Hm).
  destruct e as [ackno pid sample o|id| |]; cbn [step].
  - unfold on_ack. rewrite Hfx. set (s1 := if ackno =? last_ack s' then _ else _).
    assert (H1 : dupack s1 = 0 -> (zq (mss c) <= cwnd s1)%Q).
    { subst s1. destruct (ackno =? last_ack s'); [proj; intros; exact Hcw|].
      destruct (0 <? dupack s') eqn:E0; [|intros; exact Hcw]. proj. intros _.
      destruct (3 <=? dupack s') eqn:E3; [|exact Hcw]. apply Z.leb_le in E3. specialize (Hs E3).
      assert (zq (mss c) <= zq (2 * mss c))%Q by (apply zq_2m_ge; exact Hm). lra. }
    destruct (dupack s1 =? 3); [destruct (resend _ _ _ _); discriminate|].
    destruct (3 <? dupack s1); [destruct (Qle_bool _ _); [destruct (resend _ _ _ _)|]; discriminate|].
    destruct (dupack s1 =? 0) eqn:E0; [|discriminate]. apply Z.eqb_eq in E0. specialize (H1 E0).
    unfold cc_ack. destruct (Qle_bool (cwnd s1) (ssthresh s1)).
    + destruct (stop_all _ _ _ _) as [[[t se] oo]|]; discriminate.
    + destruct (calg c).
      * destruct (Qeq_bool (cwnd s1) 0) eqn:Ez; [apply Qeq_bool_iff in Ez; lra|].
        destruct (stop_all _ _ _ _) as [[[t se] oo]|]; discriminate.
      * destruct (Qltb o (zq (cwnd_cnt s1))); destruct (stop_all _ _ _ _) as [[[t se] oo]|]; discriminate.
  - unfold on_timer. destruct (negb _); [discriminate|]. destruct (resend _ _ _ _); discriminate.
  - unfold on_storecb. destruct (pend s'); [discriminate|]. destruct (waiting s'); [destruct (tokens s')|]; discriminate.
  - unfold on_wake. destruct (wake s' && negb (finished s')); [|discriminate].
    generalize (set_store s' (tokens s') (pend s') false false) as s0. generalize (@nil out) as acc.
    induction (send_fuel s') as [|f IH]; intros acc s0; cbn [send_loop]; [discriminate|].
    destruct (negb (fsize c =? 0) && (fsize c <=? next_seq s0)); [discriminate|].
    destruct (fill _ _ _ _); [|discriminate]. destruct (guard c s0 z).
    + destruct (Qle_bool (rto s0) 0); [discriminate|]. apply IH.
    + destruct (tokens s0); discriminate.
Qed.

(* k expiries (with store callbacks and resumptions, but no ACK, in between) multiply the RTO by 2^k *)
Fixpoint expiries (evs : list event) : nat :=
  match evs with [] => O | EExpire _ :: t => S (expiries t) | _ :: t => expiries t end.
Fixpoint no_ack (evs : list event) : Prop :=
  match evs with [] => True | EAck _ _ _ _ :: _ => False | _ :: t => no_ack t end.

Theorem rto_doubles_k fx c (Hm : 0 < mss c) : forall evs s s' outs,
  no_ack evs -> run fx c s evs = Ok s' outs -> (rto s' == rto s * inject_Z (2 ^ Z.of_nat (expiries evs)))%Q.
Proof.
  induction evs as [|e evs IH]; intros s s' outs Hn; cbn [run].
  - intros H; injection H as <- _. cbn [expiries Z.of_nat]. change (2 ^ 0) with 1. change (inject_Z 1) with 1%Q. ring.
  - destruct (step fx c s e) as [s1 o1|] eqn:E1; [|discriminate].
    destruct (run fx c s1 evs) as [s2 o2|] eqn:E2; [|discriminate].
    intros H; injection H as <- _. destruct e as [ackno pid sample o|id| |]; cbn [no_ack expiries] in *.
    + contradiction.
    + cbn [step] in E1. apply rto_doubles in E1 as (R & _). apply IH in E2; [|exact Hn]. rewrite E2, R.
      rewrite Nat2Z.inj_succ, Z.pow_succ_r by lia. rewrite inject_Z_mult. change (inject_Z 2) with (2 # 1). ring.
    + cbn [step] in E1. unfold on_storecb in E1. destruct (pend s); [discriminate|].
      assert (R : rto s1 = rto s) by (destruct (waiting s); [destruct (tokens s)|]; injection E1 as <- _; reflexivity).
      apply IH in E2; [|exact Hn]. rewrite E2, R. reflexivity.
    + cbn [step] in E1. apply send_guard in E1 as (n & _ & _ & _ & _ & _ & _ & _ & _ & _ & _ & _ & R & _); [|exact Hm]. proj.
      apply IH in E2; [|exact Hn]. rewrite E2, R. reflexivity.
Qed.

(* the fuel of the send loop always suffices *)
Lemma send_loop_fuel c (Hm : 0 < mss c) : forall fuel s acc,
  (Z.to_nat (Qfloor (zq (last_ack s) + cwnd s)%Q - next_seq s) < fuel)%nat ->
  send_loop fuel c s acc <> Raise OutOfFuel.
Proof.
  induction fuel as [|f IH]; intros s acc Hf; [lia|]. cbn [send_loop].
  destruct (negb (fsize c =? 0) && (fsize c <=? next_seq s)) eqn:Efin; [discriminate|].
  assert (Hp : 1 <= psize c (next_seq s)).
  { unfold psize. destruct (fsize c =? 0) eqn:E0; [lia|].
    apply andb_false_iff in Efin as [E|E]; [discriminate|]. apply Z.leb_gt in E. lia. }
  destruct (fill_enough (S (S (Z.to_nat (next_seq s - send_buffer s)))) (next_seq s) (send_buffer s) _ Hp ltac:(lia)) as [sb Esb].
  rewrite Esb. destruct (guard c s sb) eqn:Eg.
  - destruct (Qle_bool (rto s) 0); [discriminate|]. apply IH. proj.
    unfold guard in Eg. apply Qle_bool_true in Eg.
    assert (H1 : (zq (next_seq s + mss c) <= zq (last_ack s) + cwnd s)%Q) by (eapply Qle_trans; [exact Eg|apply Q.le_min_r]).
    apply Qfloor_resp_le in H1. unfold zq in H1 at 1. rewrite Qfloor_Z in H1. lia.
  - destruct (tokens s); discriminate.
Qed.

Theorem wake_never_out_of_fuel c s : 0 < mss c -> on_wake c s <> Raise OutOfFuel.
Proof.
  intros Hm. unfold on_wake. destruct (wake s && negb (finished s)); [|discriminate].
  apply send_loop_fuel; [exact Hm|]. unfold send_fuel. proj. lia.
Qed.

(* ------------------------------------------------------------------------------------------------ *)
(* non-vacuity: a concrete history exercising every rule (Reno, MSS 512, cwnd 1024, ssthresh 65535, 10 segments) *)

Definition ex_cfg := mkcfg 512 5120 Reno.
Definition ex_hist : list event :=
  [EWake; EAck 512 0 (1 # 2) 0; EStoreCb; EWake;
   EAck 512 1024 (1 # 4) 0; EAck 512 1536 (1 # 4) 0; EAck 512 2048 (1 # 4) 0; EAck 512 2048 (1 # 4) 0;
   EAck 2560 512 (1 # 4) 0; EStoreCb; EWake; EExpire 2560].

Example ex_hist_runs :
  exists s' outs, run (mkfx true true true) ex_cfg (init (1024 # 1) (65535 # 1) 1) ex_hist = Ok s' outs /\
    txs outs = [(0, 512); (512, 512); (1024, 512); (1536, 512); (512, 512); (512, 512);
                (2048, 512); (2560, 512); (3072, 512); (3584, 512); (2560, 512)] /\
    (cwnd s' == 512 # 1)%Q /\ (ssthresh s' == 1024 # 1)%Q /\ next_seq s' = 4096 /\ last_ack s' = 2560.
Proof. eexists. eexists. split; [vm_compute; reflexivity|]. repeat split. Qed.
