(* Bridging lemmas (DESIGN 2.6, second tie) for TCPPacketGenerator.put and timeout_callback: the bodies as translated from
   the tree under test on every run (Gen/Extracted_tcpsender.v: dupack / last_ack / rtt_estimate / est_deviation / rto and
   the effects in program order) are [on_ack current] / [on_timer current] of the hand-written sender model
   (Tcp/Sender.v) the C17 (and the sender part of the C16) theorems are about.  The CongestionControl method bodies are
   tied separately (Tcp/CcBridge.v, Tcp/CubicBridge.v); here a CALL of one is an effect whose meaning is the model's
   window rule.  The loop that stops and forgets the acknowledged timers is one whitelisted statement (FxStopAcked =
   [stop_all] of [acked_ids]). *)
From Coq Require Import ZArith QArith Qabs List Bool Lia.
From ONL Require Import Tcp.Sender Gen.Extracted_tcpsender.
Import ListNotations.
Open Scope Z_scope.

Definition sender_fields (s : sender) : sender_st :=
  {| t_dupack := dupack s; t_last_ack := last_ack s; t_rtt_estimate := srtt s; t_est_deviation := rttvar s; t_rto := rto s |}.

Definition sender_with_fields (s : sender) (f : sender_st) : sender :=
  mkst (next_seq s) (send_buffer s) (t_last_ack f) (t_dupack f) (cwnd s) (ssthresh s) (t_rtt_estimate f) (t_est_deviation f)
       (t_rto f) (cwnd_cnt s) (cnt s) (timers s) (sent s) (tokens s) (pend s) (waiting s) (wake s) (finished s).

Definition set_ccack (s : sender) (cw : Q) (ccnt : Z) (cn : Q) : sender :=
  mkst (next_seq s) (send_buffer s) (last_ack s) (dupack s) cw (ssthresh s) (srtt s) (rttvar s) (rto s)
       ccnt cn (timers s) (sent s) (tokens s) (pend s) (waiting s) (wake s) (finished s).

(* the effects in the model; ackno / pid / oracle are what the ACK carries and what TCPCubic computed (see Sender.v) *)
Fixpoint sender_fx_run (c : config) (oracle : Q) (ackno pid : Z) (s : sender) (o : list out) (fx : list sender_fx) : result :=
  match fx with
  | [] => Ok s o
  | FxAssertAck :: t => sender_fx_run c oracle ackno pid s o t
  | FxCcDupackOver :: t => sender_fx_run c oracle ackno pid (set_cc s (ssthresh s) (ssthresh s)) o t
  | FxCcFastRetransmit :: t =>
      sender_fx_run c oracle ackno pid (set_cc s (fr_cwnd (mss c) (cwnd s)) (fr_ssthresh (mss c) (cwnd s))) o t
  | FxCcMoreDupacks :: t => sender_fx_run c oracle ackno pid (set_cc s (cwnd s + zq (mss c))%Q (ssthresh s)) o t
  | FxCcTimerExpired :: t => sender_fx_run c oracle ackno pid (set_cc s (zq (mss c)) (ssthresh s)) o t
  | FxResend id :: t =>
      match resend current c s id with
      | Some o' => sender_fx_run c oracle ackno pid s (o ++ o') t
      | None => Raise (KeyErr id)
      end
  | FxCcAck _ _ :: t =>
      match cc_ack c (cwnd s) (ssthresh s) (cwnd_cnt s) (cnt s) oracle with
      | None => Raise ZeroDiv
      | Some (cw, ccnt, cn) => sender_fx_run c oracle ackno pid (set_ccack s cw ccnt cn) o t
      end
  | FxStopAcked :: t =>
      let ids := acked_ids current c s ackno pid in
      match stop_all ids (timers s) (sent s) [] with
      | None => Raise (KeyErr (first_missing ids (sent s)))
      | Some (tm, se, o') => sender_fx_run c oracle ackno pid (set_timers s tm se) (o ++ o') t
      end
  | FxTokenPut :: t => sender_fx_run c oracle ackno pid (store_put s) o t
  | FxTimerRestart id r :: t =>
      sender_fx_run c oracle ackno pid (set_timers s (rearm id r (timers s)) (sent s)) (o ++ [TRestart id r]) t
  end.

Definition sender_gen_put (c : config) (s : sender) (ackno : Z) (ack_time now : Q) : sender_st * list sender_fx :=
  gen_TCPPacketGenerator_put (sender_fields s) ackno ack_time now (cwnd s + zq (mss c))%Q.

Ltac zcases :=
  repeat match goal with
         | |- context [Z.eqb ?a ?b] => destruct (Z.eqb_spec a b)
         | |- context [Z.ltb ?a ?b] => destruct (Z.ltb_spec a b)
         | |- context [Z.leb ?a ?b] => destruct (Z.leb_spec a b)
         end.

Lemma bridge_sender_put c s ackno pid ack_time now oracle :
  let g := sender_gen_put c s ackno ack_time now in
  sender_fx_run c oracle ackno pid (sender_with_fields s (fst g)) [] (snd g) =
  on_ack current c s ackno pid (now - ack_time)%Q oracle.
Proof.
  unfold sender_gen_put, gen_TCPPacketGenerator_put, on_ack, sender_fields, sender_with_fields.
  cbn [current fx_deflate3 fx_guard_resend fx_stop_acked t_dupack t_last_ack t_rtt_estimate t_est_deviation t_rto].
  rewrite ?(Z.eqb_sym (last_ack s) ackno).       (* `self.last_ack == ackno` as the model writes it *)
  destruct (Z.eqb_spec ackno (last_ack s)) as [E|E].
  - (* a duplicate *)
    cbn -[Z.eqb Z.ltb Z.leb Z.add Qle_bool resend].
    zcases; try lia; cbn -[Qle_bool resend cc_ack stop_all acked_ids];
      try (destruct (Qle_bool _ _)); cbn -[resend cc_ack stop_all acked_ids];
      try (destruct (resend current c _ ackno) eqn:ER; cbn in ER |- *; rewrite ?ER); try reflexivity.
    all: try (cbn; destruct (cc_ack _ _ _ _ _ _) as [[[cw ccnt] cn]|]; [|reflexivity];
              cbn; destruct (stop_all _ _ _ _) as [[[tm se] o']|]; reflexivity).
  - (* a new ACK *)
    destruct (Z.ltb_spec 0 (dupack s)) as [D|D].
    + destruct (Z.leb_spec 3 (dupack s)) as [D3|D3];
        cbn -[Qle_bool resend cc_ack stop_all acked_ids];
        destruct (cc_ack _ _ _ _ _ _) as [[[cw ccnt] cn]|]; try reflexivity;
        cbn -[stop_all acked_ids]; destruct (stop_all _ _ _ _) as [[[tm se] o']|]; reflexivity.
    + cbn -[Z.eqb Z.ltb Z.leb Qle_bool resend cc_ack stop_all acked_ids].
      zcases; try lia; cbn -[Qle_bool resend cc_ack stop_all acked_ids];
        try (destruct (Qle_bool _ _)); cbn -[resend cc_ack stop_all acked_ids];
        try (destruct (resend current c _ ackno) eqn:ER; cbn in ER |- *; rewrite ?ER); try reflexivity.
      all: try (cbn; destruct (cc_ack _ _ _ _ _ _) as [[[cw ccnt] cn]|]; [|reflexivity];
                cbn; destruct (stop_all _ _ _ _) as [[[tm se] o']|]; reflexivity).
  all: destruct s; reflexivity.
Qed.

(* timeout_callback(id) for a segment whose timer exists (the callback of that very Timer) *)
Definition sender_gen_timeout (s : sender) (id : Z) : sender_st * list sender_fx :=
  gen_TCPPacketGenerator_timeout_callback (sender_fields s) id.

Lemma bridge_sender_timeout c s id oracle :
  has_timer id (timers s) = true ->
  let g := sender_gen_timeout s id in
  sender_fx_run c oracle 0 0 (sender_with_fields s (fst g)) [] (snd g) = on_timer current c s id.
Proof.
  intros H. unfold sender_gen_timeout, gen_TCPPacketGenerator_timeout_callback, on_timer, sender_fields, sender_with_fields.
  rewrite H. cbn -[resend].
  destruct (resend current c _ id) eqn:ER; cbn in ER |- *; rewrite ?ER; reflexivity.
Qed.
