(* The sender of Tcp/Sender.v together with the APPLICATION PROCESS of its Flow: run() fetches data from
   flow.arrival_dist / flow.size_dist / flow.size into send_buffer, possibly sleeping on
   env.timeout(wait_time) for the next application write, honours flow.start_time and flow.finish_time.
   A layer around the existing [step]: ACKs, expiries and store callbacks are unchanged; the
   resumptions of run() ([AWake]: Initialize or the granted StoreGet; [AAppWake]: the Timeout of
   start_time or of the next write) are re-modelled here with the data-fetching loop, line by line.
   Executable; no proofs here. *)
From Coq Require Import ZArith QArith Qabs Qminmax List Bool.
From ONL Require Import Tcp.Sender.
Import ListNotations.
Open Scope Z_scope.

Record acfg := mkacfg {
  ac_cfg : config;                       (* mss, flow.size (0 = None), algorithm *)
  ac_start : Q;                          (* flow.start_time (0 = None / falsy) *)
  ac_finish : option Q;                  (* flow.finish_time (None = infinite) *)
  ac_arr : option (list Q * Q);          (* flow.arrival_dist: the scripted draws, then a default; None = not set *)
  ac_siz : option (list Z * Z)           (* flow.size_dist, likewise *)
}.

Record app := mkapp {
  ap_last : Q;                           (* self.last_arrival *)
  ap_sleep : option (bool * Q);          (* run() sleeps on a Timeout due at the instant; true = waiting for the next write, false = start_time *)
  ap_started : bool;                     (* run() has been resumed at least once *)
  ap_ai : nat; ap_si : nat               (* draws taken from arrival_dist / size_dist so far *)
}.
Definition app0 : app := mkapp 0 None false O O.

Inductive aevent :=
| AEv (e : event)                        (* EAck / EExpire / EStoreCb: as in Tcp/Sender.v (EWake is not used here) *)
| AWake (now : Q)                        (* run() resumed by its Initialize event or by the granted StoreGet *)
| AAppWake (now : Q).                    (* run() resumed by the Timeout it sleeps on *)

Inductive aresult := AOk (s : sender) (a : app) (o : list out) | ARaise (e : err) | AHang.

Inductive mode := MOuter | MInner | MAfterArrival.

Definition set_buffer (s : sender) (sb : Z) : sender :=
  mkst (next_seq s) sb (last_ack s) (dupack s) (cwnd s) (ssthresh s) (srtt s) (rttvar s) (rto s)
       (cwnd_cnt s) (cnt s) (timers s) (sent s) (tokens s) (pend s) (waiting s) (wake s) (finished s).

Definition finish_run (s : sender) : sender :=
  mkst (next_seq s) (send_buffer s) (last_ack s) (dupack s) (cwnd s) (ssthresh s) (srtt s) (rttvar s) (rto s)
       (cwnd_cnt s) (cnt s) (timers s) (sent s) (tokens s) (pend s) false false true.

(* the loop of run() from one of its three program points up to the next yield / return *)
Fixpoint arun (fuel : nat) (ac : acfg) (now : Q) (m : mode) (s : sender) (a : app) (acc : list out) : aresult :=
  let c := ac_cfg ac in
  match fuel with
  | O => AHang
  | S f =>
      match m with
      | MOuter =>
          (* while env.now < self.flow.finish_time:  if self.flow.size and self.next_seq >= self.flow.size: return *)
          if match ac_finish ac with Some ft => Qle_bool ft now | None => false end then AOk (finish_run s) a acc
          else if negb (fsize c =? 0) && (fsize c <=? next_seq s) then AOk (finish_run s) a acc
          else arun f ac now MInner s a acc
      | MInner =>
          (* while self.next_seq >= self.send_buffer: *)
          if send_buffer s <=? next_seq s then
            match ac_arr ac with
            | Some (l, dflt) =>
                (* wait_time = self.flow.arrival_dist() - (self.env.now - self.last_arrival) *)
                let wait := (nth (ap_ai a) l dflt - (now - ap_last a))%Q in
                if Qltb 0 wait then
                  AOk s (mkapp (ap_last a) (Some (true, (now + wait)%Q)) true (S (ap_ai a)) (ap_si a)) acc   (* yield env.timeout(wait_time) *)
                else arun f ac now MAfterArrival s (mkapp now None true (S (ap_ai a)) (ap_si a)) acc   (* self.last_arrival = env.now *)
            | None => arun f ac now MAfterArrival s a acc
            end
          else if guard c s (send_buffer s) then
            (* the send guard holds: one MSS-sized segment, its timer *)
            if Qle_bool (rto s) 0 then ARaise TimerValue
            else
              let id := next_seq s in
              arun f ac now MOuter
                (mkst (id + mss c) (send_buffer s) (last_ack s) (dupack s) (cwnd s) (ssthresh s) (srtt s) (rttvar s) (rto s)
                      (cwnd_cnt s) (cnt s) (timers s ++ [(id, rto s)]) (sent s ++ [id])
                      (tokens s) (pend s) (waiting s) (wake s) (finished s))
                a (acc ++ [Tx id (mss c); TStart id (rto s)])
          else
            (* yield self.cwnd_avaialbe.get() *)
            match tokens s with
            | S tk => AOk (set_store s tk (pend s) false true) a acc
            | O => AOk (set_store s O (pend s) true false) a acc
            end
      | MAfterArrival =>
          (* packet_size = size_dist() | min(mss, size - next_seq) | mss ;  self.send_buffer += packet_size *)
          match ac_siz ac with
          | Some (l, dflt) =>
              arun f ac now MInner (set_buffer s (send_buffer s + nth (ap_si a) l dflt))
                   (mkapp (ap_last a) (ap_sleep a) (ap_started a) (ap_ai a) (S (ap_si a))) acc
          | None => arun f ac now MInner (set_buffer s (send_buffer s + psize c (next_seq s))) a acc
          end
      end
  end.

Definition astep (fx : fixes) (fuel : nat) (ac : acfg) (s : sender) (a : app) (e : aevent) : aresult :=
  match e with
  | AEv EWake => ARaise NotEnabled
  | AEv ev => match step fx (ac_cfg ac) s ev with Ok s' o => AOk s' a o | Raise x => ARaise x end
  | AWake now =>
      if wake s && negb (finished s) && match ap_sleep a with None => true | Some _ => false end then
        let s0 := set_store s (tokens s) (pend s) false false in
        if ap_started a then arun fuel ac now MOuter s0 a []
        else
          (* the first resumption: if self.flow.start_time: yield env.timeout(self.flow.start_time) *)
          if Qeq_bool (ac_start ac) 0 then arun fuel ac now MOuter s0 (mkapp (ap_last a) None true (ap_ai a) (ap_si a)) []
          else AOk s0 (mkapp (ap_last a) (Some (false, (now + ac_start ac)%Q)) true (ap_ai a) (ap_si a)) []
      else ARaise NotEnabled
  | AAppWake now =>
      match ap_sleep a with
      | Some (isapp, due) =>
          if Qeq_bool due now && negb (finished s) then
            if isapp then arun fuel ac now MAfterArrival s (mkapp now None true (ap_ai a) (ap_si a)) []   (* self.last_arrival = env.now *)
            else arun fuel ac now MOuter s (mkapp (ap_last a) None true (ap_ai a) (ap_si a)) []
          else ARaise NotEnabled
      | None => ARaise NotEnabled
      end
  end.

(* ---- correspondence, per transition from the observed pre-state ---- *)
Definition app_eqb (m o : app) : bool :=
  Qeq_bool (ap_last m) (ap_last o) &&
  match ap_sleep m, ap_sleep o with
  | None, None => true
  | Some (k, d), Some (k', d') => Bool.eqb k k' && Qeq_bool d d'
  | _, _ => false
  end && Bool.eqb (ap_started m) (ap_started o) && Nat.eqb (ap_ai m) (ap_ai o) && Nat.eqb (ap_si m) (ap_si o).

Record aentry := mkaentry { ae_ev : aevent; ae_tx : list (Z * Z); ae_post : sender; ae_app : app; ae_err : option err }.

Fixpoint check_atrace (fx : fixes) (fuel : nat) (ac : acfg) (pre : sender) (pa : app) (l : list aentry) : bool :=
  match l with
  | [] => true
  | e :: t =>
      match astep fx fuel ac pre pa (ae_ev e), ae_err e with
      | AOk s' a' o, None =>
          state_close s' (ae_post e) && app_eqb a' (ae_app e) && listZZ_eq (txs o) (ae_tx e) &&
          check_atrace fx fuel ac (ae_post e) (ae_app e) t
      | ARaise x, Some y => err_eqb x y && match t with [] => true | _ => false end
      | _, _ => false
      end
  end.

Fixpoint first_abad (fx : fixes) (fuel : nat) (ac : acfg) (pre : sender) (pa : app) (l : list aentry) (k : nat)
  : option (nat * aresult) :=
  match l with
  | [] => None
  | e :: t => if check_atrace fx fuel ac pre pa [e] then first_abad fx fuel ac (ae_post e) (ae_app e) t (S k)
              else Some (k, astep fx fuel ac pre pa (ae_ev e))
  end.
