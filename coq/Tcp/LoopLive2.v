(* C16 liveness, continued (LoopLive.v bounds the work by the number of transmissions).
   Part 7: a finer potential.  A fast retransmission is paid for by the duplicate ACK that triggers
   it: an ACK numbered a carries 20*(size-a)+10, a data copy of segment id that the sink can already
   chain (id <= next_seq_expected) carries 20*(size-id), any other copy 20*(size+1).  A copy delivered
   in order produces an ACK numbered at least id+mss, a duplicate ACK numbered a retransmits segment
   a = last_ack <= next_seq_expected: both lose potential.  Only a timer expiry adds potential.
   Hence: the number of agenda steps (and of transmissions) is bounded by the number of EXPIRIES.
   Part 8: the retransmission timeout has a positive lower bound along every run. *)
From Coq Require Import ZArith QArith Qabs Qround Qminmax List Bool Lia Lqa Arith.
From ONL Require Import Tcp.Sink Tcp.SinkProofs Tcp.Sender Tcp.SenderProofs Tcp.Loop Tcp.LoopProofs Tcp.LoopLive.
Import ListNotations.
Open Scope Z_scope.

Definition is_expire (e : event) : bool := match e with EExpire _ => true | _ => false end.
(* the number of timer expiries (timeout_callback calls) so far *)
Definition nexp (st : lstate) : nat := length (filter (fun x => is_expire (sl_ev x)) (l_slog st)).

Section Pot2.
Variable lc : lcfg.
Local Notation SZ := (fsize (lc_cfg lc)).

Definition wD (n id : Z) : Z := if id <=? n then 20 * (SZ - id) else 20 * (SZ + 1).
Definition wA (a : Z) : Z := 20 * (SZ - a) + 10.

Definition wev2 (n : Z) (e : aev) : Z :=
  match e with
  | AWireGetD id => 8 + wD n id
  | AWireOutD id => 7 + wD n id
  | AWireGetA a _ _ _ => 5 + wA a
  | AWireOutA a _ _ _ => 4 + wA a
  | _ => wev e
  end.

Fixpoint wag2 (n : Z) (l : list aentry) : Z :=
  match l with [] => 0 | a :: t => wev2 n (ae_ev a) + wag2 n t end.
Fixpoint sumD (n : Z) (l : list Z) : Z :=
  match l with [] => 0 | id :: t => 8 + wD n id + sumD n t end.
Fixpoint sumA (l : list ackrec) : Z :=
  match l with [] => 0 | r :: t => 5 + wA (a_no r) + sumA t end.

Definition potN2 (n : Z) (st : lstate) : Z :=
  wag2 n (l_agenda st) + sumD n (wd_items (l_wd st)) + sumA (wa_items (l_wa st)).

Definition Gnew : Z := 20 * (SZ + 1) + 11.     (* a new segment: its copy, the put callback, its timer *)
Definition Cexp : Z := 20 * (SZ + 1) + 10.     (* an expiry: the copy, the put callback, the re-armed timer *)

Definition potS2 (s : sender) : Z := Z.of_nat (tokens s) + Gnew * (SZ - next_seq s).
Definition pot2 (st : lstate) : Z :=
  potN2 (nse (l_sink st)) st + potS2 (l_snd st) - Cexp * Z.of_nat (nexp st).

Lemma wD_mono n n' id : n <= n' -> -1 <= id -> wD n' id <= wD n id.
Proof.
  intros Hn Hid. unfold wD. destruct (id <=? n) eqn:E1; destruct (id <=? n') eqn:E2; lia.
Qed.

Lemma wD_le n id : -1 <= id -> wD n id <= 20 * (SZ + 1).
Proof. intros H. unfold wD. destruct (id <=? n); lia. Qed.

Lemma wD_nonneg n id : 0 <= id <= SZ -> 0 <= wD n id.
Proof. intros H. unfold wD. destruct (id <=? n); lia. Qed.

Lemma wD_cheap n id : id <= n -> wD n id = 20 * (SZ - id).
Proof. intros H. unfold wD. apply Z.leb_le in H. rewrite H. reflexivity. Qed.

Lemma wag2_insert n e l : wag2 n (ainsert e l) = wev2 n (ae_ev e) + wag2 n l.
Proof.
  induction l as [|x t IH]; cbn [ainsert wag2]; [lia|].
  destruct (ae_before e x); cbn [wag2]; [lia|rewrite IH; lia].
Qed.

Lemma sumD_app n a b : sumD n (a ++ b) = sumD n a + sumD n b.
Proof. induction a as [|x a IH]; cbn [app sumD]; [lia|rewrite IH; lia]. Qed.
Lemma sumA_app a b : sumA (a ++ b) = sumA a + sumA b.
Proof. induction a as [|x a IH]; cbn [app sumA]; [lia|rewrite IH; lia]. Qed.

Lemma potN2_sched n st t p e : potN2 n (sched st t p e) = wev2 n e + potN2 n st.
Proof. unfold potN2, sched; lproj. rewrite wag2_insert. cbn [ae_ev]. lia. Qed.

(* data ids in the wire and on the agenda *)
Definition dids_ok (P : Z -> Prop) (st : lstate) : Prop :=
  Forall P (wd_items (l_wd st)) /\
  Forall (fun a => match dataid_of (ae_ev a) with Some id => P id | None => True end) (l_agenda st).

Lemma wag2_mono n n' l : n <= n' ->
  Forall (fun a => match dataid_of (ae_ev a) with Some id => -1 <= id | None => True end) l ->
  wag2 n' l <= wag2 n l.
Proof.
  intros Hn. induction 1 as [|a l Ha Hl IH]; cbn [wag2]; [lia|].
  assert (wev2 n' (ae_ev a) <= wev2 n (ae_ev a)).
  { destruct (ae_ev a); cbn [wev2 dataid_of] in *; try lia; pose proof (wD_mono n n' id Hn Ha); lia. }
  lia.
Qed.

Lemma sumD_mono n n' l : n <= n' -> Forall (fun id => -1 <= id) l -> sumD n' l <= sumD n l.
Proof.
  intros Hn. induction 1 as [|a l Ha Hl IH]; cbn [sumD]; [lia|]. pose proof (wD_mono n n' a Hn Ha). lia.
Qed.

Lemma potN2_mono n n' st : n <= n' -> dids_ok (fun id => -1 <= id) st -> potN2 n' st <= potN2 n st.
Proof.
  intros Hn [H1 H2]. unfold potN2. pose proof (wag2_mono n n' _ Hn H2). pose proof (sumD_mono n n' _ Hn H1). lia.
Qed.

(* ---- the outputs of a sender event ---- *)
Fixpoint ocost2 (n : Z) (o : list out) : Z :=
  match o with
  | [] => 0
  | Tx id _ :: t => 9 + wD n id + ocost2 n t
  | TStart _ _ :: t => 2 + ocost2 n t
  | TStop _ :: t => ocost2 n t
  | TRestart _ _ :: t => 1 + ocost2 n t
  end.

Definition tx_ok (o : list out) : Prop := forall id z, In (Tx id z) o -> 0 <= id <= SZ.

Lemma nexp_sched st t p e : nexp (sched st t p e) = nexp st.
Proof. reflexivity. Qed.

Lemma tx_data_pot2 n st id : 0 <= id <= SZ ->
  potN2 n (tx_data lc st id) <= potN2 n st + 9 + wD n id /\ l_snd (tx_data lc st id) = l_snd st /\
  l_sink (tx_data lc st id) = l_sink st /\ l_slog (tx_data lc st id) = l_slog st.
Proof.
  intros Hid. pose proof (wD_nonneg n id Hid) as Hw.
  unfold tx_data. destruct (existsb (Nat.eqb (l_n1 st)) (lc_drop_data lc)).
  - repeat split. unfold potN2; lproj. lia.
  - repeat split. rewrite potN2_sched. unfold potN2; lproj. rewrite sumD_app. cbn [sumD wev2 wev]. lia.
Qed.

Lemma do_outs_pot2 n : forall o st, tx_ok o ->
  potN2 n (do_outs lc st o) <= potN2 n st + ocost2 n o /\ l_snd (do_outs lc st o) = l_snd st /\
  l_sink (do_outs lc st o) = l_sink st /\ l_slog (do_outs lc st o) = l_slog st.
Proof.
  induction o as [|x o IH]; intros st Hok; cbn [do_outs ocost2]; [repeat split; lia|].
  assert (Hok' : tx_ok o) by (intros i z Hi; apply (Hok i z); right; exact Hi).
  destruct x as [id z|id r|id|id r].
  - assert (Hid : 0 <= id <= SZ) by (apply (Hok id z); left; reflexivity).
    destruct (tx_data_pot2 n st id Hid) as (A & B & C & D).
    destruct (IH (tx_data lc st id) Hok') as (A' & B' & C' & D'). repeat split; try congruence. lia.
  - destruct (IH (sched st (l_now st) 0 (ATimerInit id)) Hok') as (A' & B' & C' & D').
    rewrite potN2_sched in A'. cbn [wev2 wev] in A'. repeat split; auto. lia.
  - apply IH. exact Hok'.
  - destruct (IH (sched st (l_now st + r)%Q 1 (ATimerFire id)) Hok') as (A' & B' & C' & D').
    rewrite potN2_sched in A'. cbn [wev2 wev] in A'. repeat split; auto. lia.
Qed.

Lemma sender_event_pot2 n st e st' s' o :
  step (lc_fx lc) (lc_cfg lc) (l_snd st) e = Ok s' o -> tx_ok o -> sender_event lc st e = inl st' ->
  l_snd st' = norm_sender s' /\ l_sink st' = l_sink st /\
  nexp st' = (nexp st + (if is_expire e then 1 else 0))%nat /\
  potN2 n st' <= potN2 n st + ocost2 n o + extra_cost (l_snd st) s' e.
Proof.
  intros Hstep Hok H. unfold sender_event in H. rewrite Hstep in H. injection H as <-.
  set (st0 := set_snd st (norm_sender s')).
  destruct (do_outs_pot2 n o st0 Hok) as (A & B & C & D). set (st1 := do_outs lc st0 o) in *.
  change (pend (norm_sender s')) with (pend s'). change (wake (norm_sender s')) with (wake s').
  unfold extra_cost.
  set (c1 := (pend (l_snd st) <? pend s')%nat). set (c2 := wake s' && negb _).
  set (st2 := if c1 then sched st1 (l_now st) 1 ASenderCb else st1).
  set (st3 := if c2 then sched st2 (l_now st) 1 ASenderWake else st2).
  assert (E0 : potN2 n st0 = potN2 n st) by reflexivity.
  assert (F2 : l_snd st2 = l_snd st1 /\ l_sink st2 = l_sink st1 /\ l_slog st2 = l_slog st1 /\
               potN2 n st2 = potN2 n st1 + (if c1 then 2 else 0)).
  { subst st2. destruct c1; [rewrite potN2_sched; cbn [wev2 wev]|]; repeat split; lia. }
  assert (F3 : l_snd st3 = l_snd st2 /\ l_sink st3 = l_sink st2 /\ l_slog st3 = l_slog st2 /\
               potN2 n st3 = potN2 n st2 + (if c2 then 1 else 0)).
  { subst st3. destruct c2; [rewrite potN2_sched; cbn [wev2 wev]|]; repeat split; lia. }
  destruct F2 as (F2a & F2b & F2c & F2d). destruct F3 as (F3a & F3b & F3c & F3d).
  lproj. split; [rewrite F3a, F2a, B; reflexivity|]. split; [rewrite F3b, F2b, C; reflexivity|]. split.
  - unfold nexp; lproj. cbn [filter sl_ev]. rewrite F3c, F2c, D. change (l_slog st0) with (l_slog st).
    destruct (is_expire e); cbn [length]; lia.
  - unfold potN2 in *; lproj. lia.
Qed.

Lemma ocost2_segs n m id k r : -1 <= id -> 0 < m -> ocost2 n (segs m id k r) <= Z.of_nat k * Gnew.
Proof.
  intros Hid Hm. revert id Hid. induction k as [|k IH]; intros id Hid; cbn [segs ocost2]; [lia|].
  specialize (IH (id + m) ltac:(lia)). pose proof (wD_le n id Hid). unfold Gnew in *. lia.
Qed.

Lemma ocost2_stops n ids : ocost2 n (map TStop ids) = 0.
Proof. induction ids as [|i t IH]; cbn [map ocost2]; auto. Qed.

(* the sender's share of one event *)
Lemma step_potS2 n s e s' o :
  0 < mss (lc_cfg lc) -> SInv (lc_cfg lc) s -> 0 <= next_seq s <= SZ -> Forall (fun i => 0 <= i) (sent s) ->
  (match e with EAck a _ _ _ => last_ack s <= n /\ a <= SZ | _ => True end) ->
  step repaired (lc_cfg lc) s e = Ok s' o ->
  ocost2 n o + extra_cost s s' e + potS2 s' <=
  potS2 s + (match e with EAck a _ _ _ => 3 + wA a | EExpire _ => Cexp | _ => 0 end).
Proof.
  intros Hm I Hns Hsent He H. unfold extra_cost, potS2. destruct e as [ackno pid sample orc|id| |]; cbn [step] in H.
  - destruct He as [Hla Ha]. apply on_ack_shape in H; [|apply I]. destruct H as (N & _ & Wk & _ & _ & [D|Nw]).
    + destruct D as (Ea&_&_&_&_&_&_&_&Tk&Pd&O). rewrite N, Wk, Tk, Pd, Nat.ltb_irrefl.
      assert (Hb : wake s && negb (wake s) = false) by (destruct (wake s); reflexivity). rewrite Hb.
      unfold wA. destruct O as [->|(-> & _)]; cbn [ocost2]; [lia|].
      rewrite wD_cheap by lia. lia.
    + destruct Nw as (_&_&_&_&_&O&_&_&_&Tk&Pd). rewrite N, Wk, Tk, Pd, O, ocost2_stops.
      replace (pend s <? S (pend s))%nat with true by (symmetry; apply Nat.ltb_lt; lia).
      assert (Hb : wake s && negb (wake s) = false) by (destruct (wake s); reflexivity). rewrite Hb. unfold wA. lia.
  - unfold on_timer in H. destruct (has_timer id (timers s)) eqn:Eh; cbn [negb] in H; [|discriminate].
    apply has_timer_In in Eh. rewrite (si_keys _ _ I) in Eh.
    assert (Hid : 0 <= id) by (rewrite Forall_forall in Hsent; apply Hsent, Eh).
    apply in_sent_In in Eh.
    unfold resend in H. proj. rewrite Eh in H. injection H as <- <-. proj. cbn [app ocost2]. rewrite Nat.ltb_irrefl.
    assert (Hb : wake s && negb (wake s) = false) by (destruct (wake s); reflexivity). rewrite Hb.
    pose proof (wD_le n id ltac:(lia)). unfold Cexp. lia.
  - apply on_storecb_shape in H as (-> & p & Hp & [(Wt & Tk & ->)|(_ & ->)]); proj; rewrite Hp; cbn [ocost2];
      (replace (S p <? p)%nat with false by (symmetry; apply Nat.ltb_ge; lia)).
    + destruct (negb (wake s)); cbn [andb]; lia.
    + assert (Hb : wake s && negb (wake s) = false) by (destruct (wake s); reflexivity). rewrite Hb. lia.
  - pose proof H as H0. unfold on_wake in H0. destruct (wake s && negb (finished s)); [|discriminate].
    apply send_loop_flags in H0 as (Pd & Fl). proj.
    apply send_guard in H; [|exact Hm]. destruct H as (k & -> & Hk & _). proj. cbn [app].
    pose proof (ocost2_segs n (mss (lc_cfg lc)) (next_seq s) k (rto s) ltac:(lia) Hm) as Hc.
    rewrite Hk, Pd, Nat.ltb_irrefl. cbn [negb]. rewrite andb_true_r.
    assert (HG : 0 <= Gnew) by (unfold Gnew; lia).
    assert (Hkm : Z.of_nat k * Gnew <= Gnew * (Z.of_nat k * mss (lc_cfg lc))) by nia.
    destruct Fl as [(_ & Hw & _ & Tk)|(_ & [(Hw & _ & Tk)|(Hw & _ & Tk & Tk0)])]; rewrite Hw; cbn [Z.of_nat]; lia.
Qed.

(* ---- the sink: an in-order arrival pushes the ACK beyond the segment ---- *)
Lemma sink_nse_after st ev id :
  0 < mss (lc_cfg lc) -> LInvB lc st ev -> 0 <= id ->
  let sk := sink_step true (l_sink st) (id, mss (lc_cfg lc)) in
  nse (l_sink st) <= nse sk /\ 0 <= nse sk /\ (id <= nse (l_sink st) -> id + mss (lc_cfg lc) <= nse sk).
Proof.
  intros Hm HB Hid sk. destruct (lb_sink _ _ _ HB) as (hist & Bi & Bp & _).
  assert (Bi' : Inv (hist ++ [(id, mss (lc_cfg lc))]) sk) by (apply Inv_step; cbn [fst snd]; [lia|lia|exact Bi]).
  assert (Bp' : prefix_len (hist ++ [(id, mss (lc_cfg lc))]) (nse sk)).
  { apply (ack_prefix _ sk id (mss (lc_cfg lc))) in Bi'. exact Bi'. }
  split; [|split].
  - eapply prefix_len_mono; [|exact Bp|exact Bp']. intros x Hx. apply covered_app. left. exact Hx.
  - apply Bp'.
  - intros Hle. destruct Bp as (P0 & P1 & _). destruct Bp' as (Q0 & _ & Q2).
    destruct (Z_lt_ge_dec (nse sk) (id + mss (lc_cfg lc))) as [Hlt|Hge]; [|lia]. exfalso. apply Q2.
    apply covered_app. cbn [fst snd]. destruct (Z_lt_ge_dec (nse sk) id) as [H1|H1]; [left; apply P1; clearbody sk; lia|right; clearbody sk; lia].
Qed.

(* ---- the wires ---- *)
Lemma wd_get_pot2 n st : potN2 n (wd_get st) = potN2 n st /\ l_sink (wd_get st) = l_sink st /\ l_slog (wd_get st) = l_slog st.
Proof.
  unfold wd_get. destruct (wd_items (l_wd st)) as [|x rest] eqn:E.
  - repeat split. unfold potN2; lproj. rewrite E. reflexivity.
  - repeat split. rewrite potN2_sched. unfold potN2; lproj. rewrite E. cbn [sumD wev2]. lia.
Qed.

Lemma wa_get_pot2 n st : potN2 n (wa_get st) = potN2 n st /\ l_sink (wa_get st) = l_sink st /\ l_slog (wa_get st) = l_slog st.
Proof.
  unfold wa_get. destruct (wa_items (l_wa st)) as [|x rest] eqn:E.
  - repeat split. unfold potN2; lproj. rewrite E. reflexivity.
  - repeat split. rewrite potN2_sched. unfold potN2; lproj. rewrite E. cbn [sumA wev2]. lia.
Qed.

Lemma deliver_data_pot2 st id st' :
  deliver_data lc st id = inl st' ->
  l_snd st' = l_snd st /\ l_slog st' = l_slog st /\
  l_sink st' = sink_step true (l_sink st) (id, mss (lc_cfg lc)) /\
  (nse (l_sink st') <= SZ -> forall n, potN2 n st' <= potN2 n st + 6 + wA (nse (l_sink st'))).
Proof.
  unfold deliver_data. destruct (pkt_get id (l_pkt st)) as [[tm ct]|]; [|discriminate].
  cbv zeta. remember (sink_step true (l_sink st) (id, mss (lc_cfg lc))) as sk eqn:Esk. clear Esk.
  destruct (existsb _ _); intros H; injection H as <-; lproj; repeat split; intros Hle n.
  - unfold potN2, wA in *; lproj. lia.
  - rewrite potN2_sched. unfold potN2; lproj. rewrite sumA_app. cbn [sumA a_no wev2 wev]. lia.
Qed.

Lemma nexp_wd_get st : nexp (wd_get st) = nexp st.
Proof. unfold nexp. destruct (wd_get_pot2 0 st) as (_ & _ & ->). reflexivity. Qed.
Lemma nexp_wa_get st : nexp (wa_get st) = nexp st.
Proof. unfold nexp. destruct (wa_get_pot2 0 st) as (_ & _ & ->). reflexivity. Qed.

Lemma B_dids_ok st ev : LInvB lc st ev -> dids_ok (fun id => -1 <= id) st.
Proof.
  intros HB. split.
  - eapply Forall_impl; [|exact (lb_wd _ _ _ HB)]. intros id [H _]. lia.
  - apply Forall_forall. intros a Ha. destruct (dataid_of (ae_ev a)) as [id|] eqn:E; [|exact I].
    destruct (lb_evd _ _ _ HB (ae_ev a) id) as [H _]; [right; eauto|exact E|lia].
Qed.

Lemma potS2_norm s : potS2 (norm_sender s) = potS2 s.
Proof. reflexivity. Qed.

(* one sender event inside the loop *)
Lemma sender_event_pot2_total st e ev st' :
  lc_ok lc -> LInvA lc st (Some ev) -> LInvB lc st (Some ev) ->
  next_seq (l_snd st) <= SZ -> next_seq (l_snd st') <= SZ ->
  (match e with EAck a _ _ _ => ackno_of ev = Some a | _ => True end) ->
  sender_event lc st e = inl st' ->
  pot2 st' <= pot2 st + (match e with EAck a _ _ _ => 3 + wA a | _ => 0 end).
Proof.
  intros [Hfx Hm _] HA HB Hns Hns' Hev H.
  pose proof (la_sinv _ _ _ HA) as I.
  destruct (step (lc_fx lc) (lc_cfg lc) (l_snd st) e) as [s' o|x] eqn:Hstep;
    [|unfold sender_event in H; rewrite Hstep in H; discriminate].
  pose proof Hstep as Hstep'. rewrite Hfx in Hstep'.
  destruct (step_seg _ _ _ _ _ Hm (proj1 (proj2 (si_win _ _ I))) (lb_ns _ _ _ HB) (lb_sent _ _ _ HB) Hstep') as (_ & _ & Stx & _).
  assert (Hsn : l_snd st' = norm_sender s').
  { unfold sender_event in H. rewrite Hstep in H. injection H as <-. lproj.
    set (st1 := do_outs lc _ o). destruct (do_outs_pot lc o (set_snd st (norm_sender s'))) as [_ E]. fold st1 in E.
    destruct (_ <? _)%nat; destruct (_ && _); lproj; exact E. }
  assert (Hns2 : next_seq s' <= SZ) by (rewrite Hsn in Hns'; exact Hns').
  assert (Hok : tx_ok o).
  { intros id z Hi. destruct (Stx id z Hi) as [A B]. lia. }
  destruct (sender_event_pot2 (nse (l_sink st)) st e st' s' o Hstep Hok H) as (_ & Hsk & Hne & Hp).
  assert (Hsent : Forall (fun i => 0 <= i) (sent (l_snd st))).
  { eapply Forall_impl; [|exact (lb_sent _ _ _ HB)]. intros i [A _]. exact A. }
  assert (He : match e with EAck a _ _ _ => last_ack (l_snd st) <= nse (l_sink st) /\ a <= SZ | _ => True end).
  { destruct e as [a pid sm orc| | |]; auto. split; [apply HB|].
    destruct (lb_eva _ _ _ HB ev a (or_introl eq_refl) Hev) as [[_ A] _].
    pose proof (LInvB_nse_le lc st _ Hm HB). lia. }
  pose proof (step_potS2 (nse (l_sink st)) _ _ _ _ Hm I (conj (lb_ns _ _ _ HB) Hns) Hsent He Hstep') as Hq.
  unfold pot2. rewrite Hsk, Hsn, potS2_norm, Hne.
  destruct e as [a pid sm orc|id| |]; cbn [is_expire] in *; lia.
Qed.

Lemma pot2_same n st st' :
  potN2 n st' <= potN2 n st -> l_sink st' = l_sink st -> l_snd st' = l_snd st -> l_slog st' = l_slog st ->
  nse (l_sink st) = n -> pot2 st' <= pot2 st.
Proof. intros Hp Hk Hs Hl <-. unfold pot2, nexp. rewrite Hk, Hs, Hl. lia. Qed.

Lemma deliver_then_get st ev id st1 :
  lc_ok lc -> LInvB lc st (Some ev) -> dataid_of ev = Some id ->
  next_seq (l_snd st) <= SZ -> nse (l_sink st1) <= SZ ->
  deliver_data lc st id = inl st1 ->
  pot2 (wd_get st1) <= pot2 st + 7 + wD (nse (l_sink st)) id - 1.
Proof.
  intros [_ Hm _] HB Hid Hns Hle D.
  destruct (lb_evd _ _ _ HB ev id (or_introl eq_refl) Hid) as [Hid0 Hid1].
  destruct (deliver_data_pot2 st id st1 D) as (Hs & Hl & Hk & Hp). specialize (Hp Hle).
  destruct (sink_nse_after st _ id Hm HB Hid0) as (M1 & M2 & M3). cbv zeta in *. rewrite <- Hk in *.
  set (n := nse (l_sink st)) in *. set (n' := nse (l_sink st1)) in *.
  destruct (wd_get_pot2 n' st1) as (G1 & G2 & G3).
  pose proof (potN2_mono n n' st M1 (B_dids_ok _ _ HB)) as Hmono.
  specialize (Hp n').
  assert (Hw : 6 + wA n' <= 6 + wD n id).
  { unfold wA, wD. destruct (id <=? n) eqn:E; [apply Z.leb_le in E; specialize (M3 E); lia|lia]. }
  unfold pot2, nexp. rewrite G2, G3, wd_get_snd, Hs, Hl. fold n'. fold n. lia.
Qed.

Lemma deliver_ack_then_get st ev a pid tm st1 :
  lc_ok lc -> LInvA lc st (Some ev) -> LInvB lc st (Some ev) -> ackno_of ev = Some a ->
  next_seq (l_snd st) <= SZ -> next_seq (l_snd st1) <= SZ ->
  deliver_ack lc st a pid tm = inl st1 ->
  pot2 (wa_get st1) <= pot2 st + 3 + wA a.
Proof.
  intros Hok HA HB Hev Hns Hns1 D. unfold deliver_ack in D.
  set (st0 := mkls _ _ _ _ _ _ _ _ _ _ (tl (l_oracle st)) _ _ _) in D.
  assert (A0 : LInvA lc st0 (Some ev)).
  { destruct HA as [Is Iw Ic [Ts Tf Tpk Tw Te Td Tk]]. constructor; subst st0; lproj; auto. constructor; lproj; auto. }
  assert (B0 : LInvB lc st0 (Some ev)).
  { destruct HB as [Bns Bsent Bsk Bwd Bevd Beva Bwa Bsort Bctl Bla]. constructor; subst st0; lproj; auto. }
  pose proof (sender_event_pot2_total st0 (EAck a pid (nq (l_now st - tm)) (hd 0%Q (l_oracle st))) ev st1 Hok A0 B0 Hns Hns1 Hev D) as Hp. cbn beta iota in Hp.
  change (pot2 st0) with (pot2 st) in Hp.
  destruct (wa_get_pot2 (nse (l_sink st1)) st1) as (G1 & G2 & G3).
  unfold pot2 in *. unfold nexp in *. rewrite G2, G3, wa_get_snd, G1. rewrite Z.add_assoc in Hp. exact Hp.
Qed.

(* one agenda entry: the potential drops by at least one *)
Lemma handle_pot2 st ev st' :
  lc_ok lc -> LInvA lc st (Some ev) -> LInvB lc st (Some ev) ->
  next_seq (l_snd st) <= SZ -> next_seq (l_snd st') <= SZ -> nse (l_sink st') <= SZ ->
  handle lc st ev = inl st' -> pot2 st' <= pot2 st + wev2 (nse (l_sink st)) ev - 1.
Proof.
  intros Hok HA HB Hns Hns' Hle H. set (n := nse (l_sink st)).
  destruct ev as [| |id|id|w|w|id|id|ackno pid tm ct|ackno pid tm ct]; cbn [handle wev2 wev] in *.
  - pose proof (sender_event_pot2_total st EWake _ st' Hok HA HB Hns Hns' I H) as Hp; cbn beta iota in Hp; lia.
  - pose proof (sender_event_pot2_total st EStoreCb _ st' Hok HA HB Hns Hns' I H) as Hp; cbn beta iota in Hp; lia.
  - destruct (find _ _) as [[k r]|]; injection H as <-.
    + assert (pot2 (sched st (l_now st + r)%Q 1 (ATimerFire id)) <= pot2 st + 1); [|lia].
      unfold pot2. lproj. rewrite potN2_sched. cbn [wev2 wev]. unfold nexp; lproj. lia.
    + lia.
  - destruct (has_timer _ _); [|injection H as <-; lia].
    pose proof (sender_event_pot2_total st (EExpire id) _ st' Hok HA HB Hns Hns' I H) as Hp; cbn beta iota in Hp; lia.
  - destruct w; injection H as <-.
    + destruct (wa_get_pot2 n st) as (G1 & G2 & G3). pose proof (pot2_same n st (wa_get st) ltac:(lia) G2 (wa_get_snd st) G3 eq_refl). lia.
    + destruct (wd_get_pot2 n st) as (G1 & G2 & G3). pose proof (pot2_same n st (wd_get st) ltac:(lia) G2 (wd_get_snd st) G3 eq_refl). lia.
  - destruct w; [destruct (wa_waiting _)|destruct (wd_waiting _)]; injection H as <-; try lia.
    + destruct (wa_get_pot2 n st) as (G1 & G2 & G3). pose proof (pot2_same n st (wa_get st) ltac:(lia) G2 (wa_get_snd st) G3 eq_refl). lia.
    + destruct (wd_get_pot2 n st) as (G1 & G2 & G3). pose proof (pot2_same n st (wd_get st) ltac:(lia) G2 (wd_get_snd st) G3 eq_refl). lia.
  - destruct (pkt_get id (l_pkt st)) as [[tm ct]|]; [|discriminate].
    destruct (Qltb _ _).
    + injection H as <-. unfold pot2. lproj. rewrite potN2_sched. cbn [wev2]. unfold nexp; lproj. fold n. lia.
    + destruct (deliver_data lc st id) as [st1|] eqn:D; cbn [bind] in H; [|discriminate]. injection H as <-.
      destruct (wd_get_pot2 0 st1) as (_ & G2 & _). rewrite G2 in Hle.
      pose proof (deliver_then_get st _ id st1 Hok HB eq_refl Hns Hle D). fold n in H. lia.
  - destruct (deliver_data lc st id) as [st1|] eqn:D; cbn [bind] in H; [|discriminate]. injection H as <-.
    destruct (wd_get_pot2 0 st1) as (_ & G2 & _). rewrite G2 in Hle.
    pose proof (deliver_then_get st _ id st1 Hok HB eq_refl Hns Hle D). fold n in H. lia.
  - destruct (Qltb _ _).
    + injection H as <-. unfold pot2. lproj. rewrite potN2_sched. cbn [wev2]. unfold nexp; lproj. lia.
    + destruct (deliver_ack lc st ackno pid tm) as [st1|] eqn:D; cbn [bind] in H; [|discriminate]. injection H as <-.
      rewrite wa_get_snd in Hns'.
      pose proof (deliver_ack_then_get st _ ackno pid tm st1 Hok HA HB eq_refl Hns Hns' D). lia.
  - destruct (deliver_ack lc st ackno pid tm) as [st1|] eqn:D; cbn [bind] in H; [|discriminate]. injection H as <-.
    rewrite wa_get_snd in Hns'.
    pose proof (deliver_ack_then_get st _ ackno pid tm st1 Hok HA HB eq_refl Hns Hns' D). lia.
Qed.

Lemma wag2_nonneg n l :
  Forall (fun a => match ae_ev a with
                   | AWireGetD id | AWireOutD id => 0 <= id <= SZ
                   | AWireGetA a _ _ _ | AWireOutA a _ _ _ => a <= SZ
                   | _ => True end) l -> 0 <= wag2 n l.
Proof.
  induction 1 as [|a l Ha Hl IH]; cbn [wag2]; [lia|].
  assert (0 <= wev2 n (ae_ev a)); [|lia].
  destruct (ae_ev a); cbn [wev2 wev]; try lia; try (pose proof (wD_nonneg n id Ha); lia); unfold wA; lia.
Qed.

Lemma potN2_nonneg st : 0 < mss (lc_cfg lc) -> LInvB lc st None -> next_seq (l_snd st) <= SZ -> 0 <= potN2 (nse (l_sink st)) st.
Proof.
  intros Hm HB Hns. pose proof (LInvB_nse_le lc st None Hm HB) as Hnse. unfold potN2.
  assert (0 <= wag2 (nse (l_sink st)) (l_agenda st)).
  { apply wag2_nonneg. apply Forall_forall. intros a Ha.
    destruct (ae_ev a) eqn:E; auto.
    - destruct (lb_evd _ _ _ HB (ae_ev a) id) as [A B]; [right; eauto|rewrite E; reflexivity|lia].
    - destruct (lb_evd _ _ _ HB (ae_ev a) id) as [A B]; [right; eauto|rewrite E; reflexivity|lia].
    - destruct (lb_eva _ _ _ HB (ae_ev a) ackno) as [[A B] _]; [right; eauto|rewrite E; reflexivity|lia].
    - destruct (lb_eva _ _ _ HB (ae_ev a) ackno) as [[A B] _]; [right; eauto|rewrite E; reflexivity|lia]. }
  assert (0 <= sumD (nse (l_sink st)) (wd_items (l_wd st))).
  { pose proof (lb_wd _ _ _ HB) as Hw. induction Hw as [|x l [A B] Hl IH]; cbn [sumD]; [lia|].
    pose proof (wD_nonneg (nse (l_sink st)) x ltac:(lia)). lia. }
  assert (0 <= sumA (wa_items (l_wa st))).
  { pose proof (lb_wa _ _ _ HB) as Hw. induction Hw as [|x l [A B] Hl IH]; cbn [sumA]; [lia|]. unfold wA. lia. }
  lia.
Qed.

End Pot2.

Lemma reach_ns_le lc cw ss rtt0 orc st :
  lc_ok2 lc -> (zq (mss (lc_cfg lc)) <= cw)%Q -> (0 < rtt0)%Q -> fsize (lc_cfg lc) <> 0 ->
  lreach lc (linit cw ss rtt0 orc) st -> next_seq (l_snd st) <= fsize (lc_cfg lc).
Proof.
  intros Hok2 Hc Hr Hfs H. destruct (reach_C lc cw ss rtt0 orc st Hok2 Hc Hr H) as [_ [Cs _]].
  destruct (sc_buf _ _ Cs) as [B1 B2]. specialize (B2 Hfs). lia.
Qed.

Lemma lstep_pot2 lc cw ss rtt0 orc st st' :
  lc_ok2 lc -> (zq (mss (lc_cfg lc)) <= cw)%Q -> (0 < rtt0)%Q -> fsize (lc_cfg lc) <> 0 ->
  lreach lc (linit cw ss rtt0 orc) st -> lstep lc st = Some (inl st') -> pot2 lc st' + 1 <= pot2 lc st.
Proof.
  intros Hok2 Hc Hr Hfs Hreach H. pose proof (ok2_ok _ Hok2) as Hok.
  assert (Hreach' : lreach lc (linit cw ss rtt0 orc) st') by (eapply reach_step; eauto).
  destruct (reach_AB lc cw ss rtt0 orc st Hok Hc Hr Hreach) as [HA HB].
  destruct (reach_AB lc cw ss rtt0 orc st' Hok Hc Hr Hreach') as [HA' HB'].
  pose proof (reach_ns_le lc cw ss rtt0 orc st Hok2 Hc Hr Hfs Hreach) as Hns.
  pose proof (reach_ns_le lc cw ss rtt0 orc st' Hok2 Hc Hr Hfs Hreach') as Hns'.
  pose proof (LInvB_nse_le lc st' None (ok_mss _ Hok) HB') as Hnse'.
  unfold lstep in H. destruct (l_agenda st) as [|a rest] eqn:E; [discriminate|].
  injection H as H. fold (popped st a rest) in H.
  destruct (pop_A lc st a rest HA E) as (P1 & _). pose proof (pop_B lc st a rest HB E) as P2.
  apply handle_pot2 in H; auto; try (unfold popped; lproj; lia).
  unfold pot2, potN2, nexp, popped in *; lproj. rewrite E. cbn [wag2]. lia.
Qed.

Lemma lsteps_pot2 lc cw ss rtt0 orc k st :
  lc_ok2 lc -> (zq (mss (lc_cfg lc)) <= cw)%Q -> (0 < rtt0)%Q -> fsize (lc_cfg lc) <> 0 ->
  lsteps lc k (linit cw ss rtt0 orc) st -> Z.of_nat k + pot2 lc st <= pot2 lc (linit cw ss rtt0 orc).
Proof.
  intros Hok Hc Hr Hfs H. remember (linit cw ss rtt0 orc) as s0. induction H as [|k st st1 st2 H IH Hs]; [lia|].
  specialize (IH Heqs0). subst st.
  pose proof (lstep_pot2 lc cw ss rtt0 orc st1 st2 Hok Hc Hr Hfs (lsteps_reach _ _ _ _ H) Hs). lia.
Qed.

(* WORK IS BOUNDED BY EXPIRIES: after k agenda steps,
   k <= 3 + (20*(size+1)+11)*size + (20*(size+1)+10) * (timer expiries so far).
   New data, fast retransmissions, duplicate ACKs, hand-offs are all finite work; only the
   retransmission timer can keep the loop busy. *)
Theorem loop_work_bounded_by_expiries lc cw ss rtt0 orc k st :
  lc_ok2 lc -> (zq (mss (lc_cfg lc)) <= cw)%Q -> (0 < rtt0)%Q -> fsize (lc_cfg lc) <> 0 ->
  lsteps lc k (linit cw ss rtt0 orc) st ->
  Z.of_nat k <= 3 + Gnew lc * fsize (lc_cfg lc) + Cexp lc * Z.of_nat (nexp st).
Proof.
  intros Hok2 Hc Hr Hfs H. pose proof (ok2_ok _ Hok2) as Hok.
  pose proof (lsteps_pot2 lc cw ss rtt0 orc k st Hok2 Hc Hr Hfs H) as Hp.
  pose proof (lsteps_reach _ _ _ _ H) as Hreach.
  destruct (reach_AB lc cw ss rtt0 orc st Hok Hc Hr Hreach) as [HA HB].
  pose proof (reach_ns_le lc cw ss rtt0 orc st Hok2 Hc Hr Hfs Hreach) as Hns.
  pose proof (potN2_nonneg lc st (ok_mss _ Hok) HB Hns) as Hn.
  assert (Hinit : pot2 lc (linit cw ss rtt0 orc) = 3 + Gnew lc * fsize (lc_cfg lc)).
  { unfold pot2, potN2, potS2, nexp, linit, init; lproj; proj. cbn [wag2 ae_ev wev2 wev sumD sumA filter length Z.of_nat]. lia. }
  assert (0 <= Gnew lc) by (unfold Gnew; pose proof (lb_ns _ _ _ HB); lia).
  assert (0 <= potS2 lc (l_snd st)) by (unfold potS2; nia).
  unfold pot2 in Hp at 1. lia.
Qed.

(* ================================================================================================ *)
(* Part 8: what an agenda step does to the sender; the RTO stays above a positive bound *)

Lemma sender_event_snd lc st e st' :
  sender_event lc st e = inl st' ->
  exists s' o, step (lc_fx lc) (lc_cfg lc) (l_snd st) e = Ok s' o /\ l_snd st' = norm_sender s'.
Proof.
  intros H. destruct (step (lc_fx lc) (lc_cfg lc) (l_snd st) e) as [s' o|x] eqn:Hstep;
    [|unfold sender_event in H; rewrite Hstep in H; discriminate].
  exists s', o. split; [reflexivity|].
  unfold sender_event in H. rewrite Hstep in H. injection H as <-. lproj.
  destruct (do_outs_pot lc o (set_snd st (norm_sender s'))) as [_ E].
  destruct (_ <? _)%nat; destruct (_ && _); lproj; exact E.
Qed.

(* every agenda step leaves the sender alone or is one sender transition, on an ACK that does not
   go backwards and carries a non-negative RTT sample *)
Lemma lstep_sender lc cw ss rtt0 orc st st' :
  lc_ok lc -> (zq (mss (lc_cfg lc)) <= cw)%Q -> (0 < rtt0)%Q ->
  lreach lc (linit cw ss rtt0 orc) st -> lstep lc st = Some (inl st') ->
  l_snd st' = l_snd st \/
  exists e s' o, step repaired (lc_cfg lc) (l_snd st) e = Ok s' o /\ l_snd st' = norm_sender s' /\
                 sample_ok e /\ ack_fwd (l_snd st) e.
Proof.
  intros Hok Hc Hr Hreach H. pose proof Hok as [Hfx Hm Hd].
  destruct (reach_AB lc cw ss rtt0 orc st Hok Hc Hr Hreach) as [HA HB].
  unfold lstep in H. destruct (l_agenda st) as [|a rest] eqn:E; [discriminate|].
  injection H as H. fold (popped st a rest) in H.
  destruct (pop_A lc st a rest HA E) as (P1 & P2 & _). pose proof (pop_B lc st a rest HB E) as PB.
  change (l_snd st) with (l_snd (popped st a rest)).
  assert (SE : forall stx e, l_snd stx = l_snd (popped st a rest) -> sample_ok e -> ack_fwd (l_snd (popped st a rest)) e ->
                             sender_event lc stx e = inl st' ->
               exists e s' o, step repaired (lc_cfg lc) (l_snd (popped st a rest)) e = Ok s' o /\ l_snd st' = norm_sender s' /\
                              sample_ok e /\ ack_fwd (l_snd (popped st a rest)) e).
  { intros stx e Es Hs Hf Hse. apply sender_event_snd in Hse as (s' & o & Hst & Hsn). rewrite Hfx, Es in Hst.
    exists e, s', o. auto. }
  assert (AK : forall ackno pid tm st1, ackno_of (ae_ev a) = Some ackno -> (tm <= ae_time a)%Q ->
               deliver_ack lc (popped st a rest) ackno pid tm = inl st1 ->
               exists e s' o, step repaired (lc_cfg lc) (l_snd (popped st a rest)) e = Ok s' o /\ l_snd (wa_get st1) = norm_sender s' /\
                              sample_ok e /\ ack_fwd (l_snd (popped st a rest)) e).
  { intros ackno pid tm st1 Ea Htm D. unfold deliver_ack in D. apply sender_event_snd in D as (s' & o & Hst & Hsn).
    lproj. rewrite Hfx in Hst. eexists _, s', o. split; [exact Hst|]. split; [rewrite wa_get_snd; exact Hsn|]. split.
    - cbn [sample_ok]. apply nq_nonneg. exact Htm.
    - cbn [ack_fwd]. destruct (lb_eva _ _ _ PB (ae_ev a) ackno (or_introl eq_refl) Ea) as [[A _] _]. exact A. }
  destruct (ae_ev a) as [| |id|id|w|w|id|id|ackno pid tm ct|ackno pid tm ct] eqn:Eev; cbn [handle] in H.
  - right. eapply SE; eauto; exact I.
  - right. eapply SE; eauto; exact I.
  - left. destruct (find _ _) as [[k r]|]; injection H as <-; reflexivity.
  - destruct (has_timer _ _); [right; eapply SE; eauto; exact I|left; injection H as <-; reflexivity].
  - left. destruct w; injection H as <-; [apply wa_get_snd|apply wd_get_snd].
  - left. destruct w; [destruct (wa_waiting _)|destruct (wd_waiting _)]; injection H as <-; rewrite ?wa_get_snd, ?wd_get_snd; reflexivity.
  - left. destruct (pkt_get id _) as [[tm ct]|]; [|discriminate].
    destruct (Qltb _ _); [injection H as <-; reflexivity|].
    destruct (deliver_data lc _ id) as [st1|] eqn:D; cbn [bind] in H; [|discriminate]. injection H as <-.
    rewrite wd_get_snd. eapply deliver_data_snd; eauto.
  - left. destruct (deliver_data lc _ id) as [st1|] eqn:D; cbn [bind] in H; [|discriminate]. injection H as <-.
    rewrite wd_get_snd. eapply deliver_data_snd; eauto.
  - cbn [ev_time_ok] in P2. destruct (Qltb _ _); [left; injection H as <-; reflexivity|].
    destruct (deliver_ack lc _ ackno pid tm) as [st1|] eqn:D; cbn [bind] in H; [|discriminate]. injection H as <-.
    right. eapply AK; eauto. reflexivity.
  - cbn [ev_time_ok] in P2.
    destruct (deliver_ack lc _ ackno pid tm) as [st1|] eqn:D; cbn [bind] in H; [|discriminate]. injection H as <-.
    right. eapply AK; eauto. reflexivity.
Qed.

(* (7/8)^k: each new ACK moves rtt_estimate at most one eighth of the way down to a sample >= 0 *)
Fixpoint geo (k : nat) : Q := match k with O => 1 | S j => (7 # 8) * geo j end.

Lemma geo_pos k : (0 < geo k)%Q.
Proof. induction k as [|k IH]; cbn [geo]; lra. Qed.

Lemma geo_S_le k : (geo (S k) <= geo k)%Q.
Proof. cbn [geo]. pose proof (geo_pos k). lra. Qed.

Lemma geo_mono k j : (k <= j)%nat -> (geo j <= geo k)%Q.
Proof. induction 1 as [|j H IH]; [lra|]. pose proof (geo_S_le j). lra. Qed.

Record RtoLow (rtt0 : Q) (s : sender) : Prop := {
  rl_la : 0 <= last_ack s;
  rl_srtt : (rtt0 * geo (Z.to_nat (last_ack s)) <= srtt s)%Q;
  rl_rto : (srtt s <= rto s)%Q
}.

Lemma RtoLow_norm rtt0 s : RtoLow rtt0 s -> RtoLow rtt0 (norm_sender s).
Proof. intros [A B C]. constructor; unfold norm_sender; proj; rewrite ?nq_eq; auto. Qed.

Lemma RtoLow_init cw ss rtt0 : (0 < rtt0)%Q -> RtoLow rtt0 (init cw ss rtt0).
Proof. intros H. constructor; unfold init; proj; cbn [Z.to_nat geo]; lra || lia. Qed.

Lemma RtoLow_step c rtt0 s e s' o :
  0 < mss c -> (0 < rtt0)%Q -> SInv c s -> sample_ok e -> ack_fwd s e -> RtoLow rtt0 s ->
  step repaired c s e = Ok s' o -> RtoLow rtt0 s'.
Proof.
  intros Hm Hr I Hs Hf [A B C] H. destruct e as [ackno pid sample orc|id| |]; cbn [step] in H.
  - apply on_ack_shape in H; [|apply I]. destruct H as (_ & _ & _ & _ & _ & [D|Nw]).
    + destruct D as (_ & L & _ & _ & _ & SR & _ & R & _). constructor; rewrite ?L, ?SR, ?R; auto.
    + destruct Nw as (Hne & L & _ & _ & _ & _ & SR & RV & R & _). cbn [sample_ok ack_fwd] in *.
      pose proof (si_rttvar _ _ I) as Hrv. pose proof (Qabs_nonneg (sample - srtt s)) as Hab.
      assert (G : (geo (Z.to_nat ackno) <= (7 # 8) * geo (Z.to_nat (last_ack s)))%Q).
      { change ((7 # 8) * geo (Z.to_nat (last_ack s)))%Q with (geo (S (Z.to_nat (last_ack s)))). apply geo_mono. lia. }
      constructor; rewrite ?L.
      * lia.
      * rewrite SR. nra.
      * rewrite R, RV. lra.
  - apply on_timer_shape in H as (_ & -> & _). constructor; proj; auto. pose proof (si_rto _ _ I). lra.
  - apply on_storecb_shape in H as (_ & p & _ & [(_ & _ & ->)|(_ & ->)]); constructor; proj; auto.
  - apply send_guard in H; [|exact Hm]. destruct H as (n & _ & _ & _ & _ & _ & L & _ & _ & _ & SR & _ & R & _). proj.
    constructor; rewrite ?L, ?SR, ?R; auto.
Qed.

Lemma reach_RtoLow lc cw ss rtt0 orc st :
  lc_ok lc -> (zq (mss (lc_cfg lc)) <= cw)%Q -> (0 < rtt0)%Q ->
  lreach lc (linit cw ss rtt0 orc) st -> RtoLow rtt0 (l_snd st).
Proof.
  intros Hok Hc Hr. induction 1 as [|st st' Hreach IH Hstep]; [apply RtoLow_init; exact Hr|].
  destruct (lstep_sender lc cw ss rtt0 orc st st' Hok Hc Hr Hreach Hstep) as [->|(e & s' & o & Hst & -> & Hs & Hf)]; [exact IH|].
  apply RtoLow_norm. eapply RtoLow_step; eauto; [apply Hok|].
  apply (reach_A lc cw ss rtt0 orc st Hok Hc Hr Hreach).
Qed.

(* THE RTO HAS A POSITIVE LOWER BOUND along every run: rto >= rtt_estimate >= rtt0 * (7/8)^last_ack
   (and last_ack <= size).  In particular the RTO never reaches 0, also with delay 0, where every RTT
   sample is 0 and rtt_estimate decays geometrically. *)
Theorem loop_rto_lower_bound lc cw ss rtt0 orc st :
  lc_ok2 lc -> (zq (mss (lc_cfg lc)) <= cw)%Q -> (0 < rtt0)%Q -> fsize (lc_cfg lc) <> 0 ->
  lreach lc (linit cw ss rtt0 orc) st ->
  (0 < rtt0 * geo (Z.to_nat (fsize (lc_cfg lc))) <= rto (l_snd st))%Q.
Proof.
  intros Hok2 Hc Hr Hfs Hreach. pose proof (ok2_ok _ Hok2) as Hok.
  destruct (reach_RtoLow lc cw ss rtt0 orc st Hok Hc Hr Hreach) as [A B C].
  destruct (loop_last_ack_le_prefix_le_next_seq lc cw ss rtt0 orc st Hok Hc Hr Hreach) as [[L1 L2] _].
  pose proof (reach_ns_le lc cw ss rtt0 orc st Hok2 Hc Hr Hfs Hreach) as Hns.
  pose proof (geo_pos (Z.to_nat (fsize (lc_cfg lc)))) as Hg.
  assert (G : (geo (Z.to_nat (fsize (lc_cfg lc))) <= geo (Z.to_nat (last_ack (l_snd st))))%Q) by (apply geo_mono; lia).
  split; [nra|]. nra.
Qed.

(* non-vacuity of parts 7 and 8: a run with drops; 3 expiries, 60 agenda steps, RTO above the bound *)
Definition lc_ex2 : lcfg := mklcfg repaired (mkcfg 1 4 Reno) (1 # 1) [0; 2]%nat [1]%nat (1000000 # 1).
Example work_and_rto_example :
  lc_ok2 lc_ex2 /\
  exists st, lrun 1000 lc_ex2 (linit (2 # 1) (65535 # 1) 1 []) = LQuiescent st /\ nexp st = 3%nat /\
             3 + Gnew lc_ex2 * 4 + Cexp lc_ex2 * Z.of_nat (nexp st) = 777 /\
             (0 < 1 * geo 4 <= rto (l_snd st))%Q.
Proof.
  split.
  - constructor; [constructor; cbn; [reflexivity|lia|discriminate]|]. exists 4. cbn. lia.
  - eexists. split; [vm_compute; reflexivity|]. split; [reflexivity|]. split; [reflexivity|]. split; vm_compute; [reflexivity|discriminate].
Qed.
