(* Witness terms for the non-vacuity statements of Props/C16_Examples.v and Props/C17_Examples.v: concrete
   histories of the sender alone (Tcp/Sender.v), Reno and CUBIC (Tcp/Cubic.v), and the states they lead to. *)
From Coq Require Import ZArith QArith List.
From ONL Require Import Tcp.Sender Tcp.SenderProofs Tcp.Cubic.
Import ListNotations.
Open Scope Z_scope.

(* ---- Reno: MSS 512, 8 segments, window 2 MSS, rtt_estimate 1/16 ----
   wake (segments 0, 512 sent), new ACK 512, store hand-off, wake (1024, 1536 sent), two duplicates of ACK 512 *)
Definition cS : config := mkcfg 512 4096 Reno.
Definition sS0 : sender := init (1024 # 1) (65535 # 1) (1 # 16).
Definition dupS : event := EAck 512 0 (1 # 8) 0.
Definition hS2 : list event := [EWake; EAck 512 0 (1 # 8) 0; EStoreCb; EWake; dupS; dupS].
(* ... the third duplicate (fast retransmit of 512), the timer of 1024 expires (retransmission, RTO doubled),
   a cumulative ACK 2048 (stops the timers of 512, 1024, 1536) *)
Definition hS : list event := hS2 ++ [dupS; EExpire 1024; EAck 2048 1024 (1 # 4) 0].
(* ... and an expiry of the timer of 512, which that ACK has stopped: cannot occur *)
Definition hSbad : list event := hS ++ [EExpire 512].
(* ... or instead the store hand-off and the next resumption of the sender process (2048, 2560, 3072 sent) *)
Definition hSca : list event := hS ++ [EStoreCb; EWake].
Definition sender_after (evs : list event) : sender :=
  match run current cS sS0 evs with Ok s _ => s | Raise _ => sS0 end.

(* ---- CUBIC: MSS 512, 16 segments, cwnd preset to 4 MSS, rtt_estimate 1/4; events carry the clock ----
   wake (0..1536 sent), ACK 512 (slow start), hand-off, wake (2048, 2560 sent), three duplicates of ACK 512 (fast
   retransmit: ssthresh 1280, cwnd 2816), cumulative ACK 3072 (deflation to 1280, then slow start: 1792), hand-off,
   wake (3072, 3584, 4096 sent), ACK 3584 (congestion avoidance: a new epoch starts), ACK 4096 (running epoch) *)
Definition cX : config := mkcfg 512 8192 Cubic.
Definition xS0 : sender := init (2048 # 1) (65535 # 1) (1 # 4).
Definition hX1 : list xevent :=
  [XWake; XAck 512 0 (1 # 4) (1 # 4); XStoreCb; XWake;
   XAck 512 1024 (1 # 4) (1 # 2); XAck 512 1536 (1 # 4) (1 # 2); XAck 512 2048 (1 # 4) (3 # 4)].
Definition hX2 : list xevent := hX1 ++ [XAck 3072 512 (1 # 2) (1 # 1); XStoreCb; XWake].
Definition hX3 : list xevent := hX2 ++ [XAck 3584 3072 (1 # 4) (5 # 4)].
Definition hX4 : list xevent := hX3 ++ [XAck 4096 3584 (1 # 4) (3 # 2)].
Definition xafter (evs : list xevent) : sender * cubic :=
  match runx current cX xS0 cubic0 evs with XOk s cs _ => (s, cs) | _ => (xS0, cubic0) end.
