(* Proofs about Tcp/Sink.v: the repaired ACK choice returns the length of the contiguous received
   prefix, for every arrival sequence. *)
From Coq Require Import ZArith List Bool Lia.
From ONL Require Import Tcp.Sink.
Import ListNotations.
Open Scope Z_scope.

Definition inr (r : range) (b : Z) : Prop := fst r <= b < snd r.
Definition cov (l : list range) (b : Z) : Prop := exists r, In r l /\ inr r b.

(* what the property talks about: bytes covered by the segments that arrived *)
Definition covered (segs : list (Z * Z)) (b : Z) : Prop :=
  exists g, In g segs /\ fst g <= b < fst g + snd g.
Definition prefix_len (segs : list (Z * Z)) (n : Z) : Prop :=
  0 <= n /\ (forall b, 0 <= b < n -> covered segs b) /\ ~ covered segs n.

Fixpoint ssorted (l : list range) : Prop :=
  match l with [] => True | x :: t => (forall y, In y t -> fst x <= fst y) /\ ssorted t end.

(* well-formed, strictly separated (non-adjacent) ranges in increasing order *)
Fixpoint gaps (l : list range) : Prop :=
  match l with
  | [] => True
  | x :: t => fst x <= snd x /\ (forall y, In y t -> snd x < fst y) /\ gaps t
  end.

Lemma gaps_wf l : gaps l -> forall y, In y l -> fst y <= snd y.
Proof.
  induction l as [|x t IH]; cbn [gaps In]; [tauto|].
  intros (Hx & _ & Ht) y [->|Hy]; auto.
Qed.

Lemma gaps_ssorted l : gaps l -> ssorted l.
Proof.
  induction l as [|x t IH]; cbn [gaps ssorted]; [tauto|].
  intros (Hx & Hlt & Ht); split; [|auto].
  intros y Hy. specialize (Hlt y Hy). lia.
Qed.

Lemma insert_in r l y : In y (insert_sorted r l) <-> y = r \/ In y l.
Proof.
  induction l as [|x t IH]; cbn [insert_sorted In].
  - intuition.
  - destruct (range_leb x r); cbn [In]; rewrite ?IH; intuition.
Qed.

Lemma insert_cov r l b : cov (insert_sorted r l) b <-> inr r b \/ cov l b.
Proof.
  unfold cov; split.
  - intros (y & Hy & Hb). apply insert_in in Hy as [->|Hy]; [left; auto|right; eauto].
  - intros [Hb|(y & Hy & Hb)]; [exists r|exists y]; split; auto; apply insert_in; auto.
Qed.

Lemma range_leb_false x r : range_leb x r = false -> fst r <= fst x.
Proof.
  unfold range_leb. intros H.
  apply orb_false_iff in H as [H1 H2]. apply Z.ltb_ge in H1. exact H1.
Qed.

Lemma range_leb_true x r : range_leb x r = true -> fst x <= fst r.
Proof.
  unfold range_leb. intros H.
  apply orb_true_iff in H as [H|H]; [apply Z.ltb_lt in H; lia|].
  apply andb_true_iff in H as [H _]. apply Z.eqb_eq in H. lia.
Qed.

Lemma insert_ssorted r l : ssorted l -> ssorted (insert_sorted r l).
Proof.
  induction l as [|x t IH]; cbn [insert_sorted ssorted].
  - intros _. split; [intros y []|exact I].
  - intros (Hx & Ht). destruct (range_leb x r) eqn:E; cbn [ssorted].
    + split; [|auto]. intros y Hy. apply insert_in in Hy as [->|Hy]; [apply range_leb_true; auto|auto].
    + apply range_leb_false in E. split; [|split; auto].
      intros y [<-|Hy]; [exact E|]. specialize (Hx y Hy). lia.
Qed.

Lemma merge_from_spec l : forall cur,
  fst cur <= snd cur ->
  (forall y, In y l -> fst cur <= fst y /\ fst y <= snd y) ->
  ssorted l ->
  gaps (merge_from cur l) /\
  (forall y, In y (merge_from cur l) -> fst cur <= fst y) /\
  (forall b, cov (merge_from cur l) b <-> inr cur b \/ cov l b).
Proof.
  induction l as [|[s e] t IH]; intros cur Hc Hall Hs; cbn [merge_from].
  - cbn [gaps]. split; [|split].
    + split; [exact Hc|split; [intros y []|exact I]].
    + intros y [<-|[]]; lia.
    + intros b; unfold cov; split.
      * intros (y & [<-|[]] & Hb); auto.
      * intros [Hb|(y & [] & _)]. exists cur; split; [left; auto|auto].
  - destruct Hs as (Hse & Hst).
    assert (Hcs : fst cur <= s /\ s <= e) by (apply (Hall (s, e)); left; auto).
    destruct (s <=? snd cur) eqn:E.
    + apply Z.leb_le in E.
      destruct (IH (fst cur, Z.max (snd cur) e)) as (G & F & C).
      * cbn [fst snd]. lia.
      * intros y Hy. cbn [fst]. apply Hall. right; auto.
      * exact Hst.
      * split; [exact G|split; [exact F|]].
        intros b. rewrite C. unfold cov, inr; cbn [fst snd]. split.
        -- intros [Hb|(y & Hy & Hb)].
           ++ destruct (Z_lt_dec b (snd cur)); [left; lia|].
              right; exists (s, e); split; [left; auto|cbn [fst snd]; lia].
           ++ right; exists y; split; [right; auto|auto].
        -- intros [Hb|(y & [<-|Hy] & Hb)].
           ++ left; lia.
           ++ cbn [fst snd] in Hb. left; lia.
           ++ right; exists y; auto.
    + apply Z.leb_gt in E.
      destruct (IH (s, e)) as (G & F & C).
      * cbn [fst snd]; lia.
      * intros y Hy. cbn [fst snd]. split; [apply (Hse y Hy)|apply Hall; right; auto].
      * exact Hst.
      * cbn [fst snd] in F. split; [|split].
        -- cbn [gaps]. split; [exact Hc|split; [|exact G]].
           intros y Hy. specialize (F y Hy). lia.
        -- intros y [<-|Hy]; [lia|]. specialize (F y Hy). lia.
        -- intros b. unfold cov in *. split.
           ++ intros (y & [<-|Hy] & Hb); [left; auto|].
              assert (H : exists r, In r (merge_from (s, e) t) /\ inr r b) by eauto.
              apply C in H as [H|(r & Hr & Hrb)]; right; [exists (s, e)|exists r]; split; auto; [left|right]; auto.
           ++ intros [Hb|(y & [<-|Hy] & Hb)].
              ** exists cur; split; [left; auto|auto].
              ** assert (H : inr (s, e) b \/ (exists r, In r t /\ inr r b)) by (left; auto).
                 apply C in H as (r & Hr & Hrb). exists r; split; [right; auto|auto].
              ** assert (H : inr (s, e) b \/ (exists r, In r t /\ inr r b)) by (right; eauto).
                 apply C in H as (r & Hr & Hrb). exists r; split; [right; auto|auto].
Qed.

Lemma merge_spec l :
  (forall y, In y l -> fst y <= snd y) -> ssorted l ->
  gaps (merge l) /\ (forall b, cov (merge l) b <-> cov l b) /\
  (forall y, In y (merge l) -> exists x, In x l /\ fst x <= fst y).
Proof.
  destruct l as [|x t]; cbn [merge].
  - intros _ _. split; [exact I|split; [tauto|intros y []]].
  - intros Hwf (Hx & Ht).
    destruct (merge_from_spec t x) as (G & F & C).
    + apply Hwf; left; auto.
    + intros y Hy; split; [auto|apply Hwf; right; auto].
    + exact Ht.
    + split; [exact G|split].
      * intros b. rewrite C. unfold cov. split.
        -- intros [Hb|(y & Hy & Hb)]; [exists x|exists y]; split; auto; [left|right]; auto.
        -- intros (y & [<-|Hy] & Hb); [left; auto|right; eauto].
      * intros y Hy. exists x; split; [left; auto|auto].
Qed.

(* the invariant of the sink w.r.t. the history of arrivals *)
Definition Inv (hist : list (Z * Z)) (s : sink) : Prop :=
  gaps (buf s) /\ (forall r, In r (buf s) -> 0 <= fst r) /\ (forall b, cov (buf s) b <-> covered hist b).

Lemma Inv_init : Inv [] sink0.
Proof.
  unfold Inv, sink0; cbn. split; [exact I|split; [tauto|]].
  intros b; unfold cov, covered; split; intros (x & [] & _).
Qed.

Lemma covered_app h g b : covered (h ++ [g]) b <-> covered h b \/ (fst g <= b < fst g + snd g).
Proof.
  unfold covered; split.
  - intros (x & Hx & Hb). apply in_app_or in Hx as [Hx|[<-|[]]]; [left; eauto|right; auto].
  - intros [(x & Hx & Hb)|Hb]; [exists x|exists g]; split; auto; apply in_or_app; [left|right; left]; auto.
Qed.

Lemma Inv_step hist s g fixed :
  0 <= fst g -> 0 <= snd g -> Inv hist s -> Inv (hist ++ [g]) (sink_step fixed s g).
Proof.
  intros Hid Hsz (G & P & C). unfold Inv, sink_step; cbn [buf]. unfold packet_arrived.
  set (r := (fst g, fst g + snd g)).
  destruct (merge_spec (insert_sorted r (buf s))) as (G' & C' & F').
  - intros y Hy. apply insert_in in Hy as [->|Hy]; [cbn; lia|eapply gaps_wf; eauto].
  - apply insert_ssorted, gaps_ssorted, G.
  - split; [exact G'|split].
    + intros y Hy. destruct (F' y Hy) as (x & Hx & Hle).
      apply insert_in in Hx as [->|Hx]; [cbn in Hle; lia|specialize (P x Hx); lia].
    + intros b. rewrite C', insert_cov, covered_app, C. unfold inr, r; cbn [fst snd]. tauto.
Qed.

Lemma ack_prefix hist s pid size :
  Inv hist s -> prefix_len hist (ack_choice true (buf s) pid size).
Proof.
  intros (G & P & C). unfold prefix_len, ack_choice.
  destruct (buf s) as [|[a e] t] eqn:E.
  - split; [lia|split; [intros b Hb; lia|]].
    intros H. apply C in H as (x & [] & _).
  - cbn [gaps fst snd] in G. destruct G as (Hae & Hlt & Gt).
    assert (Ha : 0 <= a) by (apply (P (a, e)); left; auto).
    destruct (a =? 0) eqn:Ea.
    + apply Z.eqb_eq in Ea. subst a. split; [lia|split].
      * intros b Hb. apply C. exists (0, e); split; [left; auto|unfold inr; cbn; lia].
      * intros H. apply C in H as (x & [<-|Hx] & Hb); unfold inr in Hb; cbn [fst snd] in Hb; [lia|].
        specialize (Hlt x Hx). lia.
    + apply Z.eqb_neq in Ea. split; [lia|split; [intros b Hb; lia|]].
      intros H. apply C in H as (x & [<-|Hx] & Hb); unfold inr in Hb; cbn [fst snd] in Hb; [lia|].
      specialize (Hlt x Hx). lia.
Qed.

Lemma acks_prefix segs : forall hist s,
  (forall g, In g segs -> 0 <= fst g /\ 0 <= snd g) ->
  Inv hist s ->
  forall k a, nth_error (acks true s segs) k = Some a -> prefix_len (hist ++ firstn (S k) segs) a.
Proof.
  induction segs as [|g t IH]; intros hist s Hpos HI k a Hk; cbn [acks] in Hk.
  - destruct k; discriminate.
  - assert (Hg : 0 <= fst g /\ 0 <= snd g) by (apply Hpos; left; auto).
    assert (HI' : Inv (hist ++ [g]) (sink_step true s g)) by (apply Inv_step; tauto).
    destruct k as [|k]; cbn [nth_error] in Hk.
    + injection Hk as <-. cbn [firstn].
      apply (ack_prefix _ (sink_step true s g) (fst g) (snd g)) in HI'. exact HI'.
    + change (firstn (S (S k)) (g :: t)) with (g :: firstn (S k) t).
      replace (hist ++ g :: firstn (S k) t) with ((hist ++ [g]) ++ firstn (S k) t)
        by (rewrite <- app_assoc; reflexivity).
      eapply IH; eauto. intros x Hx; apply Hpos; right; auto.
Qed.

Lemma prefix_len_mono s1 s2 a b :
  (forall x, covered s1 x -> covered s2 x) -> prefix_len s1 a -> prefix_len s2 b -> a <= b.
Proof.
  intros Hsub (Ha & Pa & _) (Hb & _ & Nb).
  destruct (Z_le_gt_dec a b); [auto|]. exfalso. apply Nb, Hsub, Pa. lia.
Qed.

Lemma in_firstn_mono (A : Type) (l : list A) : forall i j g,
  (i <= j)%nat -> In g (firstn i l) -> In g (firstn j l).
Proof.
  induction l as [|y t IH]; intros i j g Hij Hg.
  - rewrite firstn_nil in Hg. destruct Hg.
  - destruct i as [|i]; [destruct Hg|]. destruct j as [|j]; [lia|].
    cbn [firstn In] in *. destruct Hg as [->|Hg]; [left; auto|right].
    apply (IH i j); [lia|auto].
Qed.

Lemma covered_firstn_mono (segs : list (Z * Z)) i j x :
  (i <= j)%nat -> covered (firstn i segs) x -> covered (firstn j segs) x.
Proof.
  intros Hij (g & Hg & Hb). exists g; split; [|auto].
  eapply in_firstn_mono; eauto.
Qed.

Theorem ack_is_prefix segs :
  (forall g, In g segs -> 0 <= fst g /\ 0 <= snd g) ->
  forall k a, nth_error (acks true sink0 segs) k = Some a -> prefix_len (firstn (S k) segs) a.
Proof.
  intros Hpos k a Hk. apply (acks_prefix segs [] sink0 Hpos Inv_init k a Hk).
Qed.

Theorem ack_monotone segs :
  (forall g, In g segs -> 0 <= fst g /\ 0 <= snd g) ->
  forall i j a b, (i <= j)%nat ->
  nth_error (acks true sink0 segs) i = Some a -> nth_error (acks true sink0 segs) j = Some b -> a <= b.
Proof.
  intros Hpos i j a b Hij Hi Hj.
  apply (prefix_len_mono (firstn (S i) segs) (firstn (S j) segs)).
  - intros x. apply covered_firstn_mono. lia.
  - apply ack_is_prefix; auto.
  - apply ack_is_prefix; auto.
Qed.

(* the code as found at the pinned commit violates both statements *)
Lemma ack_refuted_unfixed :
  exists segs, (forall g, In g segs -> 0 <= fst g /\ 0 <= snd g) /\
    exists i j a b, (i <= j)%nat /\ nth_error (acks false sink0 segs) i = Some a /\
                    nth_error (acks false sink0 segs) j = Some b /\ b < a.
Proof.
  exists [(0, 512); (512, 512); (1024, 512); (512, 512)]. split.
  - intros g Hg. cbn [In] in Hg. repeat (destruct Hg as [<-|Hg]; [cbn; lia|]). destruct Hg.
  - exists 2%nat, 3%nat, 1536, 1024. repeat split; try reflexivity. lia.
Qed.

(* non-vacuity: a concrete reordered, duplicated history with a gap *)
Example ack_example :
  acks true sink0 [(512, 512); (0, 512); (1536, 512); (512, 512); (1024, 512)] = [0; 1024; 1024; 1024; 2048].
Proof. vm_compute. reflexivity. Qed.
