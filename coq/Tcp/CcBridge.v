(* Bridging lemmas (DESIGN 2.6): the bodies of the CongestionControl methods as translated from
   /repo on every run (Gen/Extracted_cc.v) compute what the hand-written model (Tcp/Sender.v) uses.
   One fixed script: unfold, split on every `if`, finish with lra.  It survives harmless rewrites of
   the Python (a > b for b < a, renamed locals) and fails when a constant, an operator or a
   comparison changes. *)
From Coq Require Import ZArith QArith Qabs Qminmax Bool Lia Lqa.
From ONL Require Import Tcp.Sender Tcp.SenderProofs Gen.Extracted_cc.
Open Scope Z_scope.

Ltac bridge :=
  unfold g_CongestionControl_timer_expired, g_CongestionControl_dupack_over,
         g_CongestionControl_consecutive_dupacks_received, g_CongestionControl_more_dupacks_received,
         g_TCPReno_ack_received, set_cwnd, set_ssthresh, fr_cwnd, fr_ssthresh, cc_ack, zq;
  cbn [x_mss x_cwnd x_ssthresh];
  repeat match goal with
         | |- context [if Qle_bool ?a ?b then _ else _] =>
             let E := fresh "E" in destruct (Qle_bool a b) eqn:E; [apply Qle_bool_true in E|apply Qle_bool_false in E]
         | |- context [if Qltb ?a ?b then _ else _] =>
             let E := fresh "E" in destruct (Qltb a b) eqn:E; [apply Qltb_true in E|apply Qltb_false in E]
         end;
  cbn [x_mss x_cwnd x_ssthresh].

(* timer_expired: cwnd = mss, ssthresh untouched (on_timer sets cwnd := zq mss) *)
Lemma bridge_timer_expired m cw ss :
  let s' := g_CongestionControl_timer_expired (mkcc (zq m) cw ss) in
  x_cwnd s' = zq m /\ x_ssthresh s' = ss.
Proof. bridge. split; reflexivity. Qed.

(* dupack_over: cwnd = ssthresh (on_ack's deflation) *)
Lemma bridge_dupack_over m cw ss :
  let s' := g_CongestionControl_dupack_over (mkcc (zq m) cw ss) in
  x_cwnd s' = ss /\ x_ssthresh s' = ss.
Proof. bridge. split; reflexivity. Qed.

(* consecutive_dupacks_received: the model's fr_ssthresh / fr_cwnd *)
Lemma bridge_fast_retransmit m cw ss :
  let s' := g_CongestionControl_consecutive_dupacks_received (mkcc (zq m) cw ss) in
  (x_ssthresh s' == fr_ssthresh m cw)%Q /\ (x_cwnd s' == fr_cwnd m cw)%Q.
Proof.
  assert (H2 : (inject_Z (2 * m) == (2 # 1) * inject_Z m)%Q) by (rewrite inject_Z_mult; reflexivity).
  assert (H3 : (inject_Z (3 * m) == (3 # 1) * inject_Z m)%Q) by (rewrite inject_Z_mult; reflexivity).
  bridge; split; try rewrite H2 in *; try rewrite H3; lra.
Qed.

(* more_dupacks_received: cwnd += mss *)
Lemma bridge_more_dupacks m cw ss :
  let s' := g_CongestionControl_more_dupacks_received (mkcc (zq m) cw ss) in
  x_cwnd s' = (cw + zq m)%Q /\ x_ssthresh s' = ss.
Proof. bridge. split; reflexivity. Qed.

(* TCPReno.ack_received: the model's cc_ack for Reno *)
Lemma bridge_reno_ack c cw ss ccnt cn o :
  calg c = Reno -> ~ (cw == 0)%Q ->
  exists cw', cc_ack c cw ss ccnt cn o = Some (cw', ccnt, cn) /\
              (cw' == x_cwnd (g_TCPReno_ack_received (mkcc (zq (mss c)) cw ss)))%Q /\
              x_ssthresh (g_TCPReno_ack_received (mkcc (zq (mss c)) cw ss)) = ss.
Proof.
  intros Ha Hz. rewrite (reno_ack_rule c cw ss ccnt cn o Ha Hz). eexists. split; [reflexivity|].
  assert (Hmm : (inject_Z (mss c * mss c) == inject_Z (mss c) * inject_Z (mss c))%Q) by (rewrite inject_Z_mult; reflexivity).
  bridge; split; try reflexivity; try lra; rewrite Hmm; reflexivity.
Qed.
