(* Bridging lemmas for the TCPCubic methods translated from /repo (Gen/Extracted_cc.v, second part):
   ack_received (with cubic_update and cubic_tcp_friendliness inlined by the calls) and timer_expired
   (with cubic_reset) compute what Tcp/Cubic.v + Tcp/Sender.v:cc_ack use. *)
From Coq Require Import ZArith QArith Qabs Qminmax Bool Lia Lqa.
From ONL Require Import Tcp.Sender Tcp.SenderProofs Tcp.Cubic Gen.Extracted_cc.
Open Scope Z_scope.

(* the generated state of a model state *)
Definition G (m cw ss : Q) (cs : cubic) (cn : Q) (ccnt : Z) : cubst :=
  mkgc m cw ss (c_wlast cs) (c_epoch cs) (c_origin cs) (c_dmin cs) (c_wtcp cs) (c_k cs)
       (c_ackcnt cs) cn (inject_Z ccnt) cBeta cC.

Definition gc_eq (a b : cubst) : Prop :=
  (y_mss a == y_mss b /\ y_cwnd a == y_cwnd b /\ y_ssthresh a == y_ssthresh b /\ y_W_last_max a == y_W_last_max b /\
   y_epoch_start a == y_epoch_start b /\ y_origin_point a == y_origin_point b /\ y_d_min a == y_d_min b /\
   y_W_tcp a == y_W_tcp b /\ y_K a == y_K b /\ y_ack_cnt a == y_ack_cnt b /\ y_cnt a == y_cnt b /\
   y_cwnd_cnt a == y_cwnd_cnt b /\ y_beta a == y_beta b /\ y_C a == y_C b)%Q.

Lemma bridge_cubic_consts : g_cubic_init_beta = cBeta /\ g_cubic_init_C = cC /\ g_cubic_init_tcp_friendliness = true.
Proof. repeat split. Qed.

Ltac gproj := cbn [y_mss y_cwnd y_ssthresh y_W_last_max y_epoch_start y_origin_point y_d_min y_W_tcp y_K y_ack_cnt y_cnt
                   y_cwnd_cnt y_beta y_C sety_cwnd sety_ssthresh sety_W_last_max sety_epoch_start sety_origin_point
                   sety_d_min sety_W_tcp sety_K sety_ack_cnt sety_cnt sety_cwnd_cnt G
                   c_wlast c_epoch c_origin c_dmin c_wtcp c_k c_ackcnt] in *.

Ltac split_ifs :=
  repeat match goal with
         | |- context [Qle_bool ?a ?b] => let E := fresh "E" in destruct (Qle_bool a b) eqn:E; cbn [negb] in *
         end.

Lemma bridge_cubic_timer_expired m cw ss cs cn ccnt :
  exists g', g_TCPCubic_timer_expired (G m cw ss cs cn ccnt) = Some g' /\ gc_eq g' (G m m ss (cubic_reset cs) cn ccnt).
Proof.
  unfold g_TCPCubic_timer_expired, g_TCPCubic_cubic_reset. gproj. eexists. split; [reflexivity|].
  unfold gc_eq, cubic_reset, cubic0. gproj. repeat split; reflexivity.
Qed.

Lemma bridge_cubic_ack_received c cs cw ss ccnt cn rtt now :
  calg c = Cubic ->
  match cubic_ack cs cw ss rtt now with
  | CubicRoot => g_TCPCubic_ack_received (G (zq (mss c)) cw ss cs cn ccnt) rtt now = None
  | CubOk cs' q =>
      exists g', g_TCPCubic_ack_received (G (zq (mss c)) cw ss cs cn ccnt) rtt now = Some g' /\
                 match cc_ack c cw ss ccnt cn (match q with Some x => x | None => cn end) with
                 | Some (cw', ccnt', cn') => gc_eq g' (G (zq (mss c)) cw' ss cs' cn' ccnt')
                 | None => False
                 end
  end.
Proof.
  intros Ha. unfold cubic_ack, cc_ack, g_TCPCubic_ack_received, g_TCPCubic_cubic_update, g_TCPCubic_cubic_tcp_friendliness,
    g_cubic_init_tcp_friendliness, Qltb, zq. rewrite Ha. gproj.
  assert (Leaf : forall (g : cubst) (P : cubst -> Prop), P g -> exists g', Some g = Some g' /\ P g') by (intros g P H; exists g; auto).
  destruct (Qle_bool (c_dmin cs) 0) eqn:D0; cbn [negb]; gproj;
    [|destruct (Qle_bool (c_dmin cs) rtt) eqn:D1; gproj];
    (destruct (Qle_bool cw ss) eqn:S0; gproj;
     [apply Leaf; unfold gc_eq; gproj; repeat split; reflexivity|
      destruct (Qle_bool (c_epoch cs) 0) eqn:P0; gproj;
      [destruct (Qle_bool (c_wlast cs) cw) eqn:W0; cbn [negb]; gproj; [|reflexivity]|];
      split_ifs; gproj; try congruence;
      (apply Leaf; unfold gc_eq; gproj; repeat split; try reflexivity; rewrite inject_Z_plus; reflexivity)]).
Qed.
