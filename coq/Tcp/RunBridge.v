(* Bridging lemmas for the GENERATOR body TCPPacketGenerator.run (second tie, generator bodies: vlib/translate_gen.py).
   Gen/Extracted_tcprun.v is regenerated from the tree under test on every run: run() cut at its yields AND at the heads of its
   two loops that can go around without yielding:
     gen_TCPGen_run_from_0   entry: `if self.flow.start_time: yield env.timeout(start_time)`, else to the outer loop head
     gen_TCPGen_run_from_2   head of `while env.now < self.flow.finish_time:` -- the two ways out of run(), else to the inner head
     gen_TCPGen_run_from_3   head of `while self.next_seq >= self.send_buffer:` -- ONE fetch from the application (arrival draw,
                             maybe `yield env.timeout(wait_time)`, size draw, send_buffer += ..) and back to this head; or, with
                             data buffered, the send guard: one segment (Packet, sent_packets, out.put, Timer) and back to the
                             outer head, or `yield self.cwnd_avaialbe.get()`
     gen_TCPGen_run_from_4   resumed after the wait for the next application write: last_arrival = now, the size, to the inner head
     gen_TCPGen_run_from_1/5 resumed after start_time / with the window token: to the outer head
   Here they are tied to [arun] of Tcp/AppSender.v, the fuelled machine with modes MOuter / MInner / MAfterArrival the C17 / C16
   theorems about the application process are about: [arun1] is ONE mode step of [arun] ([arun_unfold]: arun (S f) = that step,
   then arun f), and each mode step IS the generated function of the corresponding loop head, the effects and the next request
   given their meaning by [tcp_apply]. *)
From Coq Require Import ZArith QArith Qminmax List Bool.
From ONL Require Import Tcp.Sender Tcp.AppSender Gen.Extracted_tcprun.
Import ListNotations.
Open Scope Z_scope.

(* ---- one mode step of arun -------------------------------------------------------------------------------------------- *)
Inductive astep_res := ADone (r : aresult) | ACont (m : mode) (s : sender) (a : app) (acc : list out).

Definition arun1 (ac : acfg) (now : Q) (m : mode) (s : sender) (a : app) (acc : list out) : astep_res :=
  let c := ac_cfg ac in
  match m with
  | MOuter =>
      if match ac_finish ac with Some ft => Qle_bool ft now | None => false end then ADone (AOk (finish_run s) a acc)
      else if negb (fsize c =? 0) && (fsize c <=? next_seq s) then ADone (AOk (finish_run s) a acc)
      else ACont MInner s a acc
  | MInner =>
      if send_buffer s <=? next_seq s then
        match ac_arr ac with
        | Some (l, dflt) =>
            let wait := (nth (ap_ai a) l dflt - (now - ap_last a))%Q in
            if Qltb 0 wait then
              ADone (AOk s (mkapp (ap_last a) (Some (true, (now + wait)%Q)) true (S (ap_ai a)) (ap_si a)) acc)
            else ACont MAfterArrival s (mkapp now None true (S (ap_ai a)) (ap_si a)) acc
        | None => ACont MAfterArrival s a acc
        end
      else if guard c s (send_buffer s) then
        if Qle_bool (rto s) 0 then ADone (ARaise TimerValue)
        else
          let id := next_seq s in
          ACont MOuter
            (mkst (id + mss c) (send_buffer s) (last_ack s) (dupack s) (cwnd s) (ssthresh s) (srtt s) (rttvar s) (rto s)
                  (cwnd_cnt s) (cnt s) (timers s ++ [(id, rto s)]) (sent s ++ [id])
                  (tokens s) (pend s) (waiting s) (wake s) (finished s))
            a (acc ++ [Tx id (mss c); TStart id (rto s)])
      else
        match tokens s with
        | S tk => ADone (AOk (set_store s tk (pend s) false true) a acc)
        | O => ADone (AOk (set_store s O (pend s) true false) a acc)
        end
  | MAfterArrival =>
      match ac_siz ac with
      | Some (l, dflt) =>
          ACont MInner (set_buffer s (send_buffer s + nth (ap_si a) l dflt))
                (mkapp (ap_last a) (ap_sleep a) (ap_started a) (ap_ai a) (S (ap_si a))) acc
      | None => ACont MInner (set_buffer s (send_buffer s + psize c (next_seq s))) a acc
      end
  end.

Lemma arun_unfold : forall (f : nat) (ac : acfg) (now : Q) (m : mode) (s : sender) (a : app) (acc : list out),
  arun (S f) ac now m s a acc =
    match arun1 ac now m s a acc with
    | ADone r => r
    | ACont m' s' a' acc' => arun f ac now m' s' a' acc'
    end.
Proof.
  intros f ac now m s a acc. destruct m; cbn [arun arun1].
  - destruct (match ac_finish ac with Some ft => Qle_bool ft now | None => false end); [reflexivity|].
    destruct (negb (fsize (ac_cfg ac) =? 0) && (fsize (ac_cfg ac) <=? next_seq s)); reflexivity.
  - destruct (send_buffer s <=? next_seq s).
    + destruct (ac_arr ac) as [[l dflt]|]; [|reflexivity].
      destruct (Qltb 0 (nth (ap_ai a) l dflt - (now - ap_last a))); reflexivity.
    + destruct (guard (ac_cfg ac) s (send_buffer s)).
      * destruct (Qle_bool (rto s) 0); reflexivity.
      * destruct (tokens s); reflexivity.
  - destruct (ac_siz ac) as [[l dflt]|]; reflexivity.
Qed.

(* the fetch pass of the inner loop head: the MInner step and, when it goes on to MAfterArrival, that step too *)
Definition arun_inner (ac : acfg) (now : Q) (s : sender) (a : app) (acc : list out) : astep_res :=
  match arun1 ac now MInner s a acc with
  | ACont MAfterArrival s' a' acc' => arun1 ac now MAfterArrival s' a' acc'
  | r => r
  end.

(* ---- the generated functions on the model's state ----------------------------------------------------------------- *)
Definition tcp_fields (s : sender) (a : app) : tcprun_st :=
  {| tg_next_seq := next_seq s; tg_send_buffer := send_buffer s; tg_last_arrival := ap_last a |}.

Definition opt_is {A : Type} (o : option A) : bool := match o with Some _ => true | None => false end.

(* observations: flow.start_time (0 stands for falsy), the loop test `env.now < flow.finish_time`, flow.size (0 = falsy), whether
   the two distributions are set and the values their NEXT call returns, mss, last_ack, cwnd, rto, now, out set, and size / id of
   the packet run() creates (mss, next_seq) *)
Definition tcp_gen (k : nat) (ac : acfg) (now : Q) (s : sender) (a : app) :=
  let c := ac_cfg ac in
  let f := match k with
           | 0%nat => gen_TCPGen_run_from_0 | 1%nat => gen_TCPGen_run_from_1 | 2%nat => gen_TCPGen_run_from_2
           | 3%nat => gen_TCPGen_run_from_3 | 4%nat => gen_TCPGen_run_from_4 | _ => gen_TCPGen_run_from_5
           end in
  f (tcp_fields s a) (Some (ac_start ac))
    (negb match ac_finish ac with Some ft => Qle_bool ft now | None => false end)
    (Some (fsize c)) (opt_is (ac_arr ac)) (opt_is (ac_siz ac)) (mss c) (last_ack s) (cwnd s) (rto s) now true
    (mss c) (next_seq s)
    (match ac_arr ac with Some (l, dflt) => nth (ap_ai a) l dflt | None => 0%Q end)
    (match ac_siz ac with Some (l, dflt) => nth (ap_si a) l dflt | None => 0 end).

(* ---- the meaning of effects and requests ------------------------------------------------------------------------------ *)
Record run_acc := { ra_app : app; ra_pkt : option (Z * Z); ra_timers : list (Z * Q); ra_sent : list Z; ra_out : list out;
                    ra_err : option err }.

(* arrival_dist() / size_dist() called: the next draw of the script is consumed (an arrival also ends any sleep and marks the
   process started); Packet(now, size, id): the packet in hand; sent_packets[id] = packet; out.put(packet): Tx id size;
   Timer(env, timeout=r, args=id): ValueError for r <= 0, else the timer is recorded and started *)
Definition tcp_fx (r : run_acc) (e : tcprun_fx) : run_acc :=
  match ra_err r with
  | Some _ => r
  | None =>
      let a := ra_app r in
      match e with
      | FxArrivalDist => {| ra_app := mkapp (ap_last a) None true (S (ap_ai a)) (ap_si a); ra_pkt := ra_pkt r;
                            ra_timers := ra_timers r; ra_sent := ra_sent r; ra_out := ra_out r; ra_err := None |}
      | FxSizeDist => {| ra_app := mkapp (ap_last a) (ap_sleep a) (ap_started a) (ap_ai a) (S (ap_si a)); ra_pkt := ra_pkt r;
                         ra_timers := ra_timers r; ra_sent := ra_sent r; ra_out := ra_out r; ra_err := None |}
      | FxNewPacket _ size id => {| ra_app := a; ra_pkt := Some (id, size); ra_timers := ra_timers r; ra_sent := ra_sent r;
                                    ra_out := ra_out r; ra_err := None |}
      | FxRecordSent =>
          match ra_pkt r with
          | Some (id, _) => {| ra_app := a; ra_pkt := ra_pkt r; ra_timers := ra_timers r; ra_sent := ra_sent r ++ [id];
                               ra_out := ra_out r; ra_err := None |}
          | None => {| ra_app := a; ra_pkt := None; ra_timers := ra_timers r; ra_sent := ra_sent r; ra_out := ra_out r;
                       ra_err := Some OtherErr |}
          end
      | FxOutPut =>
          match ra_pkt r with
          | Some (id, size) => {| ra_app := a; ra_pkt := ra_pkt r; ra_timers := ra_timers r; ra_sent := ra_sent r;
                                  ra_out := ra_out r ++ [Tx id size]; ra_err := None |}
          | None => {| ra_app := a; ra_pkt := None; ra_timers := ra_timers r; ra_sent := ra_sent r; ra_out := ra_out r;
                       ra_err := Some OtherErr |}
          end
      | FxNewTimer t =>
          match ra_pkt r with
          | Some (id, _) =>
              if Qle_bool t 0
              then {| ra_app := a; ra_pkt := ra_pkt r; ra_timers := ra_timers r; ra_sent := ra_sent r; ra_out := ra_out r;
                      ra_err := Some TimerValue |}
              else {| ra_app := a; ra_pkt := ra_pkt r; ra_timers := ra_timers r ++ [(id, t)]; ra_sent := ra_sent r;
                      ra_out := ra_out r ++ [TStart id t]; ra_err := None |}
          | None => {| ra_app := a; ra_pkt := None; ra_timers := ra_timers r; ra_sent := ra_sent r; ra_out := ra_out r;
                       ra_err := Some OtherErr |}
          end
      end
  end.

(* the sender / the application record after the code ran from one program point to the next: next_seq, send_buffer and
   last_arrival as the code left them; NxAgain at the outer / inner loop head = the mode MOuter / MInner; the end of the generator
   = finish_run; `yield env.timeout(d)` at point 4 = asleep until now + d for the next application write (at point 1: for
   start_time); `yield self.cwnd_avaialbe.get()` = the Store get of the window token *)
Definition tcp_apply (now : Q) (s : sender) (a : app) (acc : list out) (g : tcprun_st * list tcprun_fx * tcprun_next)
  : astep_res :=
  match g with
  | (f, fx, n) =>
      let r := fold_left tcp_fx fx {| ra_app := a; ra_pkt := None; ra_timers := timers s; ra_sent := sent s; ra_out := acc;
                                      ra_err := None |} in
      match ra_err r with
      | Some e => ADone (ARaise e)
      | None =>
          let s1 := mkst (tg_next_seq f) (tg_send_buffer f) (last_ack s) (dupack s) (cwnd s) (ssthresh s) (srtt s) (rttvar s)
                         (rto s) (cwnd_cnt s) (cnt s) (ra_timers r) (ra_sent r) (tokens s) (pend s) (waiting s) (wake s)
                         (finished s) in
          let a0 := ra_app r in
          let a1 := mkapp (tg_last_arrival f) (ap_sleep a0) (ap_started a0) (ap_ai a0) (ap_si a0) in
          match n with
          | NxAgain PP2 => ACont MOuter s1 a1 (ra_out r)
          | NxAgain PP3 => ACont MInner s1 a1 (ra_out r)
          | NxExit => ADone (AOk (finish_run s1) a1 (ra_out r))
          | NxYield (RqTimeout d) PP4 =>
              ADone (AOk s1 (mkapp (ap_last a1) (Some (true, (now + d)%Q)) true (ap_ai a1) (ap_si a1)) (ra_out r))
          | NxYield (RqTimeout d) PP1 =>
              ADone (AOk s1 (mkapp (ap_last a1) (Some (false, (now + d)%Q)) true (ap_ai a1) (ap_si a1)) (ra_out r))
          | NxYield RqWindowGet PP5 =>
              match tokens s1 with
              | S tk => ADone (AOk (set_store s1 tk (pend s1) false true) a1 (ra_out r))
              | O => ADone (AOk (set_store s1 O (pend s1) true false) a1 (ra_out r))
              end
          | _ => ADone (ARaise OtherErr)
          end
      end
  end.

(* ---- the mode steps ARE the generated loop heads ------------------------------------------------------------------------ *)
Lemma bridge_tcp_run_outer : forall (ac : acfg) (now : Q) (s : sender) (a : app) (acc : list out),
  arun1 ac now MOuter s a acc = tcp_apply now s a acc (tcp_gen 2 ac now s a).
Proof.
  intros ac now s a acc. destruct s, a. unfold arun1, tcp_gen, gen_TCPGen_run_from_2, tcp_apply, tcp_fields.
  cbn -[Qle_bool]. destruct (match ac_finish ac with Some ft => Qle_bool ft now | None => false end); cbn -[Qle_bool];
    [reflexivity|].
  destruct (negb (fsize (ac_cfg ac) =? 0) && (fsize (ac_cfg ac) <=? next_seq)); reflexivity.
Qed.

Lemma bridge_tcp_run_inner : forall (ac : acfg) (now : Q) (s : sender) (a : app) (acc : list out),
  arun_inner ac now s a acc = tcp_apply now s a acc (tcp_gen 3 ac now s a).
Proof.
  intros ac now s a acc. destruct s, a. destruct ac as [c st fin arr siz].
  unfold arun_inner, arun1, tcp_gen, gen_TCPGen_run_from_3, tcp_apply, tcp_fields, guard, zq, Qltb, psize, set_buffer, set_store.
  cbn -[Qle_bool Qmin Qplus Qminus nth Z.add Z.min Z.sub].
  destruct (send_buffer <=? next_seq).
  - destruct arr as [[la da]|]; destruct siz as [[ls ds]|]; cbn -[Qle_bool Qmin Qplus Qminus nth Z.add Z.min Z.sub];
      try destruct (Qle_bool (nth ap_ai la da - (now - ap_last)) 0); cbn -[Qle_bool Qmin Qplus Qminus nth Z.add Z.min Z.sub];
      try reflexivity; destruct (fsize c =? 0); reflexivity.
  - destruct (Qle_bool (inject_Z (next_seq + mss c)) (Qmin (inject_Z send_buffer) (inject_Z last_ack + cwnd)));
      cbn -[Qle_bool Qmin Qplus Qminus nth Z.add Z.min Z.sub].
    + destruct (Qle_bool rto 0); cbn -[Qle_bool Qmin Qplus Qminus nth Z.add Z.min Z.sub]; rewrite <- ?app_assoc; reflexivity.
    + destruct tokens; reflexivity.
Qed.

(* resumed after the wait for the next application write (astep has set last_arrival = now) *)
Lemma bridge_tcp_run_after_arrival : forall (ac : acfg) (now : Q) (s : sender) (a : app) (acc : list out),
  ap_last a = now ->
  arun1 ac now MAfterArrival s a acc = tcp_apply now s a acc (tcp_gen 4 ac now s a).
Proof.
  intros ac now s a acc H. destruct s, a. cbn in H. subst ap_last. destruct ac as [c st fin arr siz].
  unfold arun1, tcp_gen, gen_TCPGen_run_from_4, tcp_apply, tcp_fields, psize, set_buffer.
  cbn -[Qle_bool nth Z.add Z.min Z.sub].
  destruct siz as [[ls ds]|]; cbn -[Qle_bool nth Z.add Z.min Z.sub]; [reflexivity|]. destruct (fsize c =? 0); reflexivity.
Qed.

(* entry, the two plain resumptions *)
Lemma bridge_tcp_run_entry : forall (ac : acfg) (now : Q) (s : sender) (a : app) (acc : list out),
  tcp_apply now s a acc (tcp_gen 0 ac now s a) =
    (if Qeq_bool (ac_start ac) 0
     then ACont MOuter (mkst (next_seq s) (send_buffer s) (last_ack s) (dupack s) (cwnd s) (ssthresh s) (srtt s) (rttvar s) (rto s)
                             (cwnd_cnt s) (cnt s) (timers s) (sent s) (tokens s) (pend s) (waiting s) (wake s) (finished s))
                       (mkapp (ap_last a) (ap_sleep a) (ap_started a) (ap_ai a) (ap_si a)) acc
     else ADone (AOk (mkst (next_seq s) (send_buffer s) (last_ack s) (dupack s) (cwnd s) (ssthresh s) (srtt s) (rttvar s) (rto s)
                           (cwnd_cnt s) (cnt s) (timers s) (sent s) (tokens s) (pend s) (waiting s) (wake s) (finished s))
                     (mkapp (ap_last a) (Some (false, (now + ac_start ac)%Q)) true (ap_ai a) (ap_si a)) acc)) /\
  tcp_apply now s a acc (tcp_gen 1 ac now s a) = tcp_apply now s a acc (tcp_gen 5 ac now s a) /\
  (exists s1 a1, tcp_apply now s a acc (tcp_gen 5 ac now s a) = ACont MOuter s1 a1 acc /\
                 next_seq s1 = next_seq s /\ send_buffer s1 = send_buffer s /\ ap_last a1 = ap_last a).
Proof.
  intros ac now s a acc. unfold tcp_gen, gen_TCPGen_run_from_0, gen_TCPGen_run_from_1, gen_TCPGen_run_from_5, tcp_apply, tcp_fields.
  cbn -[Qeq_bool Qplus]. split; [destruct (Qeq_bool (ac_start ac) 0); reflexivity|]. split; [reflexivity|].
  eexists; eexists; split; [reflexivity|]. repeat split; reflexivity.
Qed.
