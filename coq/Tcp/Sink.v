(* Model of onl/packet/tcp_sink.py : TCPSink.packet_arrived + the ACK choice in TCPSink.put.
   Executable; no proofs here (the model must still run when a proof breaks). *)
From Coq Require Import ZArith List Bool.
Import ListNotations.
Open Scope Z_scope.

Definition range := (Z * Z)%type.          (* [start, end) as the Python list [start, end] *)

(* Python compares the two-element lists lexicographically in list.sort() *)
Definition range_leb (a b : range) : bool :=
  (fst a <? fst b) || ((fst a =? fst b) && (snd a <=? snd b)).

(* recv_buffer.append(r); recv_buffer.sort()  -- the buffer is sorted before the append, the sort is
   stable, so the result is the insertion of r after every element <= r. Elements equal to r are
   indistinguishable from it. *)
Fixpoint insert_sorted (r : range) (l : list range) : list range :=
  match l with
  | [] => [r]
  | x :: t => if range_leb x r then x :: insert_sorted r t else r :: x :: t
  end.

(* the merge loop:  merge_stats[-1] is [cur] *)
Fixpoint merge_from (cur : range) (l : list range) : list range :=
  match l with
  | [] => [cur]
  | (s, e) :: t =>
      if s <=? snd cur then merge_from (fst cur, Z.max (snd cur) e) t
      else cur :: merge_from (s, e) t
  end.

Definition merge (l : list range) : list range :=
  match l with [] => [] | x :: t => merge_from x t end.

Definition packet_arrived (buf : list range) (pid size : Z) : list range :=
  merge (insert_sorted (pid, pid + size) buf).

(* ACK choice.  [fixed = true] is the repaired code (ACK = end of the first range if it starts at
   byte 0, else 0); [fixed = false] is the code as found at the pinned commit
   (pid+size when the buffer has one range, else end of the first range). *)
Definition ack_choice (fixed : bool) (buf : list range) (pid size : Z) : Z :=
  if fixed then
    match buf with
    | (s, e) :: _ => if s =? 0 then e else 0
    | [] => 0
    end
  else
    match buf with
    | [_] => pid + size
    | (s, e) :: _ => e
    | [] => 0
    end.

Record sink := { buf : list range; nse : Z }.       (* recv_buffer, next_seq_expected *)
Definition sink0 : sink := {| buf := []; nse := 0 |}.

Definition sink_step (fixed : bool) (s : sink) (seg : Z * Z) : sink :=
  let b := packet_arrived (buf s) (fst seg) (snd seg) in
  {| buf := b; nse := ack_choice fixed b (fst seg) (snd seg) |}.

(* the sequence of ACK numbers returned for a sequence of arriving segments (id, size) *)
Fixpoint acks (fixed : bool) (s : sink) (segs : list (Z * Z)) : list Z :=
  match segs with
  | [] => []
  | g :: t => let s' := sink_step fixed s g in nse s' :: acks fixed s' t
  end.

Definition run_sink (fixed : bool) (segs : list (Z * Z)) : sink :=
  fold_left (sink_step fixed) segs sink0.
