(* Proofs about Tcp/Cubic.v: the oracle of the sender model is the computed CUBIC cnt; the cube-root
   branch is dead; the growth rule in closed form. *)
From Coq Require Import ZArith QArith Qabs Qminmax List Bool Lia Lqa.
From ONL Require Import Tcp.Sender Tcp.SenderProofs Tcp.Cubic.
Import ListNotations.
Open Scope Z_scope.

(* ---- how put() consumes the oracle ---- *)

(* a duplicate ACK, or any ACK that does not reach ack_received(): the oracle is not looked at *)
Lemma on_ack_oracle_irrelevant fx c s ackno pid sample o o' :
  ack_counts s ackno = false -> on_ack fx c s ackno pid sample o = on_ack fx c s ackno pid sample o'.
Proof.
  unfold ack_counts, on_ack. destruct (ackno =? last_ack s) eqn:Ea.
  - proj. intros H. rewrite H. reflexivity.
  - destruct (0 <? dupack s) eqn:E0; [discriminate|]. intros H. rewrite H.
    destruct (dupack s =? 3); [reflexivity|]. destruct (3 <? dupack s); reflexivity.
Qed.

(* an ACK that reaches ack_received(): ack_received runs on cwnd = ack_cwnd (after the deflation, if
   any), and that is the only place the oracle goes: cc_ack *)
Lemma on_ack_counts fx c s ackno pid sample o :
  ack_counts s ackno = true -> 0 <= dupack s ->
  ackno <> last_ack s /\
  on_ack fx c s ackno pid sample o =
  let s1 := set_dupack (set_cc s (ack_cwnd fx s ackno) (ssthresh s)) 0 in
  match cc_ack c (ack_cwnd fx s ackno) (ssthresh s) (cwnd_cnt s) (cnt s) o with
  | None => Raise ZeroDiv
  | Some (cw, ccnt, cn) =>
      let ids := acked_ids fx c s1 ackno pid in
      match stop_all ids (timers s) (sent s) [] with
      | None => Raise (KeyErr (first_missing ids (sent s)))
      | Some (t, se, oo) =>
          Ok (store_put (mkst (next_seq s) (send_buffer s) ackno 0 cw (ssthresh s)
                              (srtt s + (1 # 8) * (sample - srtt s))%Q
                              (rttvar s + (1 # 4) * (Qabs (sample - srtt s) - rttvar s))%Q
                              (srtt s + (1 # 8) * (sample - srtt s) + (4 # 1) * (rttvar s + (1 # 4) * (Qabs (sample - srtt s) - rttvar s)))%Q
                              ccnt cn t se (tokens s) (pend s) (waiting s) (wake s) (finished s))) oo
      end
  end.
Proof.
  unfold ack_counts, ack_cwnd, on_ack. intros H Hd. destruct (ackno =? last_ack s) eqn:Ea.
  - apply Z.eqb_eq in H. lia.
  - split; [apply Z.eqb_neq; exact Ea|]. destruct (0 <? dupack s) eqn:E0.
    + proj. cbn [Z.eqb Z.ltb Z.compare]. unfold acked_ids; proj. reflexivity.
    + apply Z.eqb_eq in H. rewrite H. cbn [Z.eqb Z.ltb Z.compare]. unfold acked_ids; proj. reflexivity.
Qed.

(* ---- stepx is step with the computed oracle ---- *)
Lemma stepx_is_step fx c s cs e s' cs' o :
  stepx fx c s cs e = XOk s' cs' o ->
  exists ev, step fx c s ev = Ok s' o /\
             match e, ev with
             | XAck a p sm _, EAck a' p' sm' _ => a = a' /\ p = p' /\ sm = sm'
             | XExpire i, EExpire i' => i = i'
             | XStoreCb, EStoreCb | XWake, EWake => True
             | _, _ => False
             end.
Proof.
  destruct e as [ackno pid sample now|id| |]; cbn [stepx].
  - destruct (ack_counts s ackno).
    + destruct (calg c).
      * destruct (step fx c s (EAck ackno pid sample 0)) eqn:E; [|discriminate]. intros H; injection H as <- <- <-. eexists; split; [exact E|repeat split].
      * destruct (cubic_ack _ _ _ _ _) as [cs1 cn|]; [|discriminate].
        destruct (step fx c s (EAck ackno pid sample _)) eqn:E; [|discriminate]. intros H; injection H as <- <- <-. eexists; split; [exact E|repeat split].
    + destruct (step fx c s (EAck ackno pid sample 0)) eqn:E; [|discriminate]. intros H; injection H as <- <- <-. eexists; split; [exact E|repeat split].
  - destruct (step fx c s (EExpire id)) eqn:E; [|discriminate]. intros H; injection H as <- <- <-. eexists; split; [exact E|repeat split].
  - destruct (step fx c s EStoreCb) eqn:E; [|discriminate]. intros H; injection H as <- <- <-. eexists; split; [exact E|repeat split].
  - destruct (step fx c s EWake) eqn:E; [|discriminate]. intros H; injection H as <- <- <-. eexists; split; [exact E|repeat split].
Qed.

(* ---- the cube-root branch is dead ---- *)
Definition cub_inv (c : config) (s : sender) (cs : cubic) : Prop := win_inv c s /\ (c_wlast cs == 0)%Q.

Lemma ack_cwnd_ge fx c s ackno : fx_deflate3 fx = true -> 0 < mss c -> win_inv c s -> (zq (mss c) <= ack_cwnd fx s ackno)%Q.
Proof.
  intros Hfx Hm (Hc & Hd & Hs). unfold ack_cwnd. rewrite Hfx. destruct (ackno =? last_ack s); [exact Hc|].
  destruct (0 <? dupack s); [|exact Hc]. destruct (3 <=? dupack s) eqn:E3; [|exact Hc].
  apply Z.leb_le in E3. specialize (Hs E3). assert (zq (mss c) <= zq (2 * mss c))%Q by (apply zq_2m_ge; exact Hm). lra.
Qed.

Lemma cubic_ack_wlast cs cw ss rtt now cs' cn : cubic_ack cs cw ss rtt now = CubOk cs' cn -> c_wlast cs' = c_wlast cs.
Proof.
  unfold cubic_ack. destruct (Qle_bool cw ss); [intros H; injection H as <- _; reflexivity|].
  destruct (Qle_bool (c_epoch cs) 0); [destruct (Qltb cw (c_wlast cs)); [discriminate|]|]; intros H; injection H as <- _; reflexivity.
Qed.

Lemma cubic_ack_no_root cs cw ss rtt now : (c_wlast cs == 0)%Q -> (0 < cw)%Q -> cubic_ack cs cw ss rtt now <> CubicRoot.
Proof.
  intros Hw Hc. unfold cubic_ack. destruct (Qle_bool cw ss); [discriminate|].
  destruct (Qle_bool (c_epoch cs) 0); [|discriminate].
  destruct (Qltb cw (c_wlast cs)) eqn:E; [|discriminate]. apply Qltb_true in E. lra.
Qed.

Lemma stepx_inv fx c s cs e s' cs' o :
  fx_deflate3 fx = true -> 0 < mss c -> cub_inv c s cs -> stepx fx c s cs e = XOk s' cs' o -> cub_inv c s' cs'.
Proof.
  intros Hfx Hm [W Hw] H. pose proof H as H0. apply stepx_is_step in H0 as (ev & Hstep & _).
  split; [eapply step_win_inv; eauto|].
  destruct e as [ackno pid sample now|id| |]; cbn [stepx] in H.
  - destruct (ack_counts s ackno).
    + destruct (calg c).
      * destruct (step _ _ _ _); [|discriminate]. injection H as _ <- _. exact Hw.
      * destruct (cubic_ack _ _ _ _ _) as [cs1 cn|] eqn:Ec; [|discriminate].
        destruct (step _ _ _ _); [|discriminate]. injection H as _ <- _. rewrite (cubic_ack_wlast _ _ _ _ _ _ _ Ec). exact Hw.
    + destruct (step _ _ _ _); [|discriminate]. injection H as _ <- _. exact Hw.
  - destruct (step _ _ _ _); [|discriminate]. injection H as _ <- _. destruct (calg c); [exact Hw|reflexivity].
  - destruct (step _ _ _ _); [|discriminate]. injection H as _ <- _. exact Hw.
  - destruct (step _ _ _ _); [|discriminate]. injection H as _ <- _. exact Hw.
Qed.

Lemma stepx_no_root fx c s cs e :
  fx_deflate3 fx = true -> 0 < mss c -> cub_inv c s cs -> stepx fx c s cs e <> XCubicRoot.
Proof.
  intros Hfx Hm [W Hw]. destruct e as [ackno pid sample now|id| |]; cbn [stepx].
  - destruct (ack_counts s ackno).
    + destruct (calg c); [destruct (step _ _ _ _); discriminate|].
      destruct (cubic_ack _ _ _ _ _) as [cs1 cn|] eqn:Ec; [destruct (step _ _ _ _); discriminate|].
      exfalso. eapply cubic_ack_no_root; [exact Hw| |exact Ec].
      pose proof (ack_cwnd_ge fx c s ackno Hfx Hm W). assert (0 < zq (mss c))%Q by (apply (zq_lt 0); exact Hm). lra.
    + destruct (step _ _ _ _); discriminate.
  - destruct (step _ _ _ _); discriminate.
  - destruct (step _ _ _ _); discriminate.
  - destruct (step _ _ _ _); discriminate.
Qed.

(* W_last_max is only ever 0 and cwnd >= MSS > 0: `cwnd < W_last_max` never holds, K = (...) ** (1/3)
   is never evaluated -- over all histories, from TCPCubic's initial state *)
Theorem cubic_root_unreachable fx c cw0 ss0 rtt0 evs :
  fx_deflate3 fx = true -> 0 < mss c -> (zq (mss c) <= cw0)%Q ->
  runx fx c (init cw0 ss0 rtt0) cubic0 evs <> XCubicRoot.
Proof.
  intros Hfx Hm Hc.
  assert (I0 : cub_inv c (init cw0 ss0 rtt0) cubic0) by (split; [apply init_win_inv; exact Hc|reflexivity]).
  revert I0. generalize (init cw0 ss0 rtt0) as s. generalize cubic0 as cs.
  induction evs as [|e evs IH]; intros cs s I; cbn [runx]; [discriminate|].
  destruct (stepx fx c s cs e) as [s' cs' o|x|] eqn:E.
  - specialize (IH cs' s' (stepx_inv _ _ _ _ _ _ _ _ Hfx Hm I E)).
    destruct (runx fx c s' cs' evs); [discriminate|discriminate|contradiction].
  - discriminate.
  - exfalso. eapply stepx_no_root; eauto.
Qed.

(* and K stays 0 *)
Lemma cubic_ack_k cs cw ss rtt now cs' cn : (c_k cs == 0)%Q -> cubic_ack cs cw ss rtt now = CubOk cs' cn -> (c_k cs' == 0)%Q.
Proof.
  intros Hk. unfold cubic_ack. destruct (Qle_bool cw ss); [intros H; injection H as <- _; exact Hk|].
  destruct (Qle_bool (c_epoch cs) 0); [destruct (Qltb cw (c_wlast cs)); [discriminate|]|]; intros H; injection H as <- _; cbn [c_k]; [reflexivity|exact Hk].
Qed.

(* ---- the growth rule in closed form ---- *)
Lemma friendliness_gain : ((3 # 1) * cBeta / ((2 # 1) - cBeta) == 1 # 3)%Q.
Proof. reflexivity. Qed.

(* congestion avoidance, epoch already running: the cubic target C (t - K)^3 above origin_point, the
   TCP-friendly estimate W_tcp += (1/3) ack_cnt / cwnd, and cnt = cwnd / (target - cwnd) capped by
   cwnd / (W_tcp - cwnd) *)
Theorem cubic_growth_rule cs cw ss rtt now :
  ~ (cw <= ss)%Q -> (0 < c_epoch cs)%Q ->
  let dmin := if Qltb 0 (c_dmin cs) then (if Qle_bool (c_dmin cs) rtt then c_dmin cs else rtt) else rtt in
  let t := (now + dmin - c_epoch cs)%Q in
  let target := (c_origin cs + (2 # 5) * ((t - c_k cs) * (t - c_k cs) * (t - c_k cs)))%Q in
  let wtcp := (c_wtcp cs + (3 # 1) * cBeta / ((2 # 1) - cBeta) * ((c_ackcnt cs + 1) / cw))%Q in
  let cnt1 := if Qltb cw target then (cw / (target - cw))%Q else ((100 # 1) * cw)%Q in
  cubic_ack cs cw ss rtt now =
  CubOk (mkcub (c_wlast cs) (c_epoch cs) (c_origin cs) dmin wtcp (c_k cs) 0)
        (Some (if Qltb cw wtcp then (if Qltb (cw / (wtcp - cw)) cnt1 then cw / (wtcp - cw) else cnt1)%Q else cnt1)).
Proof.
  intros Hca He. unfold cubic_ack.
  destruct (Qle_bool cw ss) eqn:E1; [apply Qle_bool_iff in E1; contradiction|].
  destruct (Qle_bool (c_epoch cs) 0) eqn:E2; [apply Qle_bool_iff in E2; lra|]. reflexivity.
Qed.

(* a new epoch (first congestion-avoidance ACK after the start or after a timeout): origin_point = cwnd,
   epoch_start = now, W_tcp = cwnd, so t = d_min and the target is cwnd + C d_min^3 *)
Theorem cubic_epoch_start_rule cs cw ss rtt now :
  ~ (cw <= ss)%Q -> (c_epoch cs <= 0)%Q -> ~ (cw < c_wlast cs)%Q ->
  let dmin := if Qltb 0 (c_dmin cs) then (if Qle_bool (c_dmin cs) rtt then c_dmin cs else rtt) else rtt in
  let t := (now + dmin - now)%Q in
  let target := (cw + (2 # 5) * ((t - 0) * (t - 0) * (t - 0)))%Q in
  let wtcp := (cw + (3 # 1) * cBeta / ((2 # 1) - cBeta) * (1 / cw))%Q in
  let cnt1 := if Qltb cw target then (cw / (target - cw))%Q else ((100 # 1) * cw)%Q in
  cubic_ack cs cw ss rtt now =
  CubOk (mkcub (c_wlast cs) now cw dmin wtcp 0 0)
        (Some (if Qltb cw wtcp then (if Qltb (cw / (wtcp - cw)) cnt1 then cw / (wtcp - cw) else cnt1)%Q else cnt1)).
Proof.
  intros Hca He Hw. unfold cubic_ack.
  destruct (Qle_bool cw ss) eqn:E1; [apply Qle_bool_iff in E1; contradiction|].
  destruct (Qle_bool (c_epoch cs) 0) eqn:E2; [|apply Qle_bool_false in E2; lra].
  destruct (Qltb cw (c_wlast cs)) eqn:E3; [apply Qltb_true in E3; contradiction|]. reflexivity.
Qed.

(* slow start: only d_min moves, cnt is untouched *)
Theorem cubic_slow_start_rule cs cw ss rtt now :
  (cw <= ss)%Q ->
  cubic_ack cs cw ss rtt now =
  CubOk (mkcub (c_wlast cs) (c_epoch cs) (c_origin cs)
               (if Qltb 0 (c_dmin cs) then (if Qle_bool (c_dmin cs) rtt then c_dmin cs else rtt) else rtt)
               (c_wtcp cs) (c_k cs) (c_ackcnt cs)) None.
Proof. intros H. unfold cubic_ack. apply Qle_bool_iff in H. rewrite H. reflexivity. Qed.

(* the computed cnt is positive (cwnd > 0): the window can always grow again *)
Lemma cnt_formula_pos cw tgt w2 :
  (0 < cw)%Q ->
  let c1 := if Qltb cw tgt then (cw / (tgt - cw))%Q else ((100 # 1) * cw)%Q in
  (0 < (if Qltb cw w2 then (if Qltb (cw / (w2 - cw)) c1 then cw / (w2 - cw) else c1) else c1))%Q.
Proof.
  intros Hc c1.
  assert (P1 : (0 < c1)%Q).
  { unfold c1. destruct (Qltb cw tgt) eqn:Et; [apply Qltb_true in Et; apply Qlt_shift_div_l; lra|lra]. }
  destruct (Qltb cw w2) eqn:Ew; [|exact P1]. apply Qltb_true in Ew.
  destruct (Qltb (cw / (w2 - cw)) c1); [apply Qlt_shift_div_l; lra|exact P1].
Qed.

Theorem cubic_cnt_pos cs cw ss rtt now cs' q :
  (0 < cw)%Q -> cubic_ack cs cw ss rtt now = CubOk cs' (Some q) -> (0 < q)%Q.
Proof.
  intros Hc. unfold cubic_ack. destruct (Qle_bool cw ss); [discriminate|].
  destruct (Qle_bool (c_epoch cs) 0); [destruct (Qltb cw (c_wlast cs)); [discriminate|]|];
    intros H; injection H as _ <-; apply cnt_formula_pos; exact Hc.
Qed.

(* ---- the full rule for a new ACK of TCPCubic: stepx on an ACK that reaches ack_received() ---- *)
Theorem cubic_new_ack_rule fx c s cs ackno pid sample now cs' q :
  calg c = Cubic -> ack_counts s ackno = true -> 0 <= dupack s ->
  cubic_ack cs (ack_cwnd fx s ackno) (ssthresh s) sample now = CubOk cs' q ->
  stepx fx c s cs (XAck ackno pid sample now) =
  match on_ack fx c s ackno pid sample (match q with Some x => x | None => cnt s end) with
  | Ok s' o => XOk s' cs' o
  | Raise x => XRaise x
  end /\
  cc_ack c (ack_cwnd fx s ackno) (ssthresh s) (cwnd_cnt s) (cnt s) (match q with Some x => x | None => cnt s end) =
  Some (match q with
        | None => ((ack_cwnd fx s ackno + zq (mss c))%Q, cwnd_cnt s, cnt s)                 (* slow start *)
        | Some x => if Qltb x (zq (cwnd_cnt s)) then ((ack_cwnd fx s ackno + zq (mss c))%Q, 0, x)   (* cwnd_cnt > cnt *)
                    else (ack_cwnd fx s ackno, cwnd_cnt s + 1, x)
        end).
Proof.
  intros Ha Hc Hd Hq. split.
  - cbn [stepx step]. rewrite Hc, Ha, Hq. reflexivity.
  - unfold cc_ack. rewrite Ha. unfold cubic_ack in Hq.
    destruct (Qle_bool (ack_cwnd fx s ackno) (ssthresh s)); [injection Hq as _ <-; reflexivity|].
    destruct (Qle_bool (c_epoch cs) 0); [destruct (Qltb (ack_cwnd fx s ackno) (c_wlast cs)); [discriminate|]|];
      injection Hq as _ <-; match goal with |- context [Qltb ?x (zq (cwnd_cnt s))] => destruct (Qltb x (zq (cwnd_cnt s))) end; reflexivity.
Qed.
