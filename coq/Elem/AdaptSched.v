(* The multi-queue schedulers SP / RR / WRR (one automaton, Elem/SchedBase.v, any configuration mq_cfg) as an interface
   element (Elem/Iface.v).  The adapter's labels are the scheduler's own actions; its executions are exactly the executions
   of mq_run, so the theorems of SchedBaseProofs.v transfer.  A scheduler has no drop rule; a packet of an unconfigured
   class or of negative size is not an admissible input (C12's domain), exactly as in the model. *)
From Coq Require Import ZArith QArith List Bool Permutation Lia.
From ONL Require Import Elem.Packet Elem.StoreQ Elem.SchedBase Elem.SchedBaseProofs Elem.SP Elem.SPProofs Elem.RR Elem.RRProofs
  Elem.WRR Elem.WRRProofs Elem.Iface.
Import ListNotations.

Definition sout_e (o : sout) : list eout := match o with OForward p => [EForward p] | _ => [] end.
Definition mq_internal (a : saction) : bool := match a with SPut _ | SAdvance _ => false | _ => true end.
Definition slift (r : option (mq * list sout)) : option (mq * list eout) :=
  match r with Some (s', o) => Some (s', flat_map sout_e o) | None => None end.

(* everything inside the scheduler: per configured class, the packet handed to send_packet, the packet travelling in
   a granted get, the store *)
Definition mq_held (c : mq_cfg) (s : mq) : list pkt := flat_map (held_class c s) (dclasses c).

Definition mq_elem (c : mq_cfg) : elem := {|
  st := mq;
  lab := saction;
  init := mq0 c;
  now := mnow;
  put := fun p s => slift (mq_act c s (SPut p));
  step := fun a s => if mq_internal a then slift (mq_act c s a) else None;
  advance := fun t s => match mq_act c s (SAdvance t) with Some (s', _) => Some s' | None => None end;
  urgent := SchedBase.urgent c;
  deadline := fun s => match mchild s with CTx _ dl => Some dl | _ => None end;
  held := mq_held c;
  accepts := fun _ => true;
  width := 1
|}.

Definition sp_elem (r : Q) (cm : Z -> Z) (fl : list Z) (tbl : list (Z * Z)) : elem := mq_elem (sp_cfg true r cm fl tbl).
Definition rr_elem (r : Q) (fl : list Z) : elem := mq_elem (rr_cfg r fl).
Definition wrr_elem (r : Q) (ws : list (Z * Z)) : elem := mq_elem (wrr_cfg r ws).

Definition s_to (a : iact saction) : saction := match a with IPut p => SPut p | IStep l => l | IAdv t => SAdvance t end.
Definition s_of (a : saction) : iact saction := match a with SPut p => IPut p | SAdvance t => IAdv t | _ => IStep a end.
Definition s_ev (e : SchedBase.tev) : Q * iact saction * list eout := (fst (fst e), s_of (snd (fst e)), flat_map sout_e (snd e)).

Lemma mq_adv_outs c s t s' o : mq_act c s (SAdvance t) = Some (s', o) -> o = [].
Proof.
  cbn [mq_act]. destruct (SchedBase.urgent c s); [discriminate|]. destruct (Qlt_le_dec (mnow s) t); [|discriminate].
  destruct (mchild s) as [|p|p dl|]; try (intros H; injection H as _ <-; reflexivity).
  destruct (Qle_bool t dl); [|discriminate]. intros H; injection H as _ <-; reflexivity.
Qed.

Lemma mq_elem_act_of c s a : act (mq_elem c) s (s_of a) = slift (mq_act c s a).
Proof.
  destruct a; try reflexivity. cbn [s_of act mq_elem advance slift].
  destruct (mq_act c s (SAdvance t)) as [[s' o]|] eqn:E; [|reflexivity].
  rewrite (mq_adv_outs _ _ _ _ _ E). reflexivity.
Qed.

Lemma mq_elem_act_to c s a s' o :
  act (mq_elem c) s a = Some (s', o) -> s_of (s_to a) = a /\ slift (mq_act c s (s_to a)) = Some (s', o).
Proof.
  destruct a as [p|l|t]; cbn [act mq_elem put step advance s_to].
  - intros H. split; [reflexivity|exact H].
  - destruct (mq_internal l) eqn:El; [|discriminate]. intros H. split; [|exact H]. destruct l; try reflexivity; discriminate.
  - destruct (mq_act c s (SAdvance t)) as [[s1 o1]|] eqn:E; [|discriminate].
    intros H. injection H as <- <-. split; [reflexivity|]. cbn [slift]. rewrite (mq_adv_outs _ _ _ _ _ E). reflexivity.
Qed.

(* every execution of the model is an execution of the adapter ... *)
Theorem mq_run_elem c : forall acts s s' tr,
  mq_run c s acts = Some (s', tr) -> run (mq_elem c) s (map s_of acts) = Some (s', map s_ev tr).
Proof.
  induction acts as [|a acts IH]; intros s s' tr H; cbn [mq_run] in H.
  - injection H as <- <-. reflexivity.
  - destruct (mq_act c s a) as [[s1 o]|] eqn:Ea; [|discriminate].
    destruct (mq_run c s1 acts) as [[s2 tr1]|] eqn:Er; [|discriminate]. injection H as <- <-.
    cbn [map run]. rewrite mq_elem_act_of, Ea. cbn [slift]. rewrite (IH _ _ _ Er). reflexivity.
Qed.

(* ... and conversely: the adapter has no other executions *)
Theorem mq_elem_run c : forall acts s s' tr,
  run (mq_elem c) s acts = Some (s', tr) ->
  exists tr0, mq_run c s (map s_to acts) = Some (s', tr0) /\ tr = map s_ev tr0 /\ map s_of (map s_to acts) = acts.
Proof.
  induction acts as [|a acts IH]; intros s s' tr H; cbn [run] in H.
  - injection H as <- <-. exists []. auto.
  - destruct (act (mq_elem c) s a) as [[s1 o]|] eqn:Ea; [|discriminate].
    destruct (run (mq_elem c) s1 acts) as [[s2 tr1]|] eqn:Er; [|discriminate]. injection H as <- <-.
    destruct (mq_elem_act_to _ _ _ _ _ Ea) as [Hn Hl]. destruct (IH _ _ _ Er) as (tr0 & R0 & -> & Hm).
    unfold slift in Hl. destruct (mq_act c s (s_to a)) as [[s1' o']|] eqn:E0; [|discriminate]. injection Hl as -> <-.
    exists ((mnow s1, s_to a, o') :: tr0). cbn [map mq_run]. rewrite E0, R0. repeat split.
    + unfold s_ev at 2. cbn [fst snd]. rewrite Hn. reflexivity.
    + rewrite Hn, Hm. reflexivity.
Qed.

(* what the interface trace functions are on a model trace *)
Lemma mq_puts tr : Iface.puts (map s_ev tr) = tr_puts tr.
Proof.
  induction tr as [|[[t a] o] tr IH]; [reflexivity|]. cbn [map]. unfold s_ev at 1. cbn [fst snd]. rewrite puts_cons, IH.
  unfold tr_puts. cbn [flat_map fst snd]. destruct a; reflexivity.
Qed.
Lemma mq_o_fwds o : o_fwds (flat_map sout_e o) = forwards o.
Proof. induction o as [|x o IH]; [reflexivity|]. cbn [flat_map]. rewrite o_fwds_app, IH. unfold forwards. destruct x; reflexivity. Qed.
Lemma mq_o_drops o : o_drops (flat_map sout_e o) = [].
Proof. induction o as [|x o IH]; [reflexivity|]. cbn [flat_map]. rewrite o_drops_app, IH. destruct x; reflexivity. Qed.
Lemma mq_fwds tr : fwds (map s_ev tr) = tr_fwds tr.
Proof.
  induction tr as [|[[t a] o] tr IH]; [reflexivity|]. cbn [map]. unfold s_ev at 1. cbn [fst snd]. rewrite fwds_cons, IH.
  unfold tr_fwds. cbn [flat_map snd]. rewrite mq_o_fwds. reflexivity.
Qed.
Lemma mq_drops tr : drops (map s_ev tr) = [].
Proof.
  induction tr as [|[[t a] o] tr IH]; [reflexivity|]. cbn [map]. unfold s_ev at 1. cbn [fst snd]. rewrite drops_cons, IH.
  rewrite mq_o_drops. reflexivity.
Qed.

(* ---- from the per-class list equations to one multiset equation --------------------------------------------- *)
Lemma count_flat_map {K} (g : K -> list pkt) (p : pkt) (k0 : K) (dec : forall a b : K, {a = b} + {a <> b}) :
  (forall k, In p (g k) -> k = k0) -> forall ks, NoDup ks ->
  count_occ pkt_eq_dec (flat_map g ks) p = if in_dec dec k0 ks then count_occ pkt_eq_dec (g k0) p else 0%nat.
Proof.
  intros Hu. induction ks as [|k ks IH]; intros ND; [reflexivity|].
  inversion ND as [|? ? Nk NDr]; subst. cbn [flat_map]. rewrite count_occ_app, (IH NDr).
  destruct (dec k k0) as [->|Ne].
  - destruct (in_dec dec k0 (k0 :: ks)) as [_|N]; [|exfalso; apply N; left; reflexivity].
    destruct (in_dec dec k0 ks) as [I|_]; [contradiction|]. lia.
  - assert (Z0 : count_occ pkt_eq_dec (g k) p = 0%nat).
    { apply count_occ_not_In. intros I. apply Ne. apply Hu. exact I. }
    rewrite Z0. destruct (in_dec dec k0 ks) as [I|N]; destruct (in_dec dec k0 (k :: ks)) as [I'|N']; try reflexivity.
    + exfalso. apply N'. right. exact I.
    + exfalso. destruct I' as [E|I']; [apply Ne; exact E|contradiction].
Qed.

Theorem mq_elem_conserves c : wf c -> conserves (mq_elem c).
Proof.
  intros R acts s tr H. destruct (mq_elem_run _ _ _ _ _ H) as (tr0 & R0 & -> & _).
  rewrite mq_puts, mq_fwds, mq_drops. cbn [app held mq_elem].
  destruct (run_conserves c _ _ _ R R0) as (Hc & _ & Hin).
  apply (Permutation_count_occ pkt_eq_dec). intros p. rewrite count_occ_app.
  rewrite (run_exactly_once c _ _ _ p R R0). f_equal.
  assert (Hk : forall k, In p (held_class c s k) -> k = cls c (flow p)).
  { intros k I. assert (I2 : In p (filter (is_class c k) (tr_puts tr0))) by (rewrite (Hc k); apply in_or_app; right; exact I).
    apply filter_is_class_in in I2 as [E _]. symmetry. exact E. }
  unfold mq_held. rewrite (count_flat_map (held_class c s) p (cls c (flow p)) Z.eq_dec Hk (dclasses c) (NoDup_nodup Z.eq_dec _)).
  destruct (in_dec Z.eq_dec (cls c (flow p)) (dclasses c)) as [_|N]; [reflexivity|].
  apply count_occ_not_In. intros I. apply N. unfold dclasses. apply nodup_In. apply Hin.
  assert (I2 : In p (filter (is_class c (cls c (flow p))) (tr_puts tr0))) by (rewrite (Hc _); apply in_or_app; right; exact I).
  apply filter_In in I2 as [I2 _]. exact I2.
Qed.

Theorem mq_elem_flow_fifo c f : wf c -> flow_fifo (mq_elem c) f.
Proof.
  intros R acts s tr H. destruct (mq_elem_run _ _ _ _ _ H) as (tr0 & R0 & -> & _).
  rewrite mq_puts, mq_fwds. destruct (run_flow_fifo c _ _ _ f R R0) as [rest E].
  change (on_flow f) with (is_flow f). rewrite E. apply sublist_app_r.
Qed.

Theorem mq_elem_drained c : cfg_ok c -> drained (mq_elem c).
Proof.
  intros Ok acts s tr H _ U Dl. destruct (mq_elem_run _ _ _ _ _ H) as (tr0 & R0 & _ & _).
  cbn [urgent deadline mq_elem] in U, Dl.
  assert (Nd : forall p dl, mchild s <> CTx p dl) by (intros p dl E; rewrite E in Dl; discriminate).
  destruct (drained0 c _ _ _ Ok R0 U Nd) as (He & _). cbn [held mq_elem]. unfold mq_held.
  induction (dclasses c) as [|k ks IH]; [reflexivity|]. cbn [flat_map]. rewrite (He k), IH. reflexivity.
Qed.

Theorem mq_elem_laws c : cfg_ok c -> laws (mq_elem c).
Proof.
  intros Ok. pose proof (proj1 Ok) as R.
  split; [apply mq_elem_conserves; exact R|intros f; apply mq_elem_flow_fifo; exact R|apply mq_elem_drained; exact Ok].
Qed.

(* the three schedulers *)
Corollary sp_elem_laws r cm fl tbl : 0 < r -> (forall k p, In (k, p) tbl -> (0 < p)%Z) -> laws (sp_elem r cm fl tbl).
Proof. intros R P. apply mq_elem_laws. apply sp_cfg_ok; assumption. Qed.

Corollary rr_elem_laws r fl : 0 < r -> laws (rr_elem r fl).
Proof. intros R. apply mq_elem_laws. apply rr_cfg_ok; assumption. Qed.
Corollary wrr_elem_laws r ws : 0 < r -> (forall f w, In (f, w) ws -> (0 < w)%Z) -> laws (wrr_elem r ws).
Proof. intros R P. apply mq_elem_laws. apply wrr_cfg_ok; assumption. Qed.

Theorem mq_elem_timed c : timed (mq_elem c).
Proof.
  repeat split.
  - intros p s s' o H. cbn [put mq_elem] in H. unfold slift in H.
    destruct (mq_act c s (SPut p)) as [[w' o']|] eqn:E; [|discriminate]. injection H as <- _.
    apply (act_now _ _ _ _ _ E). discriminate.
  - intros l s s' o H. cbn [step mq_elem] in H. destruct (mq_internal l) eqn:El; [|discriminate]. unfold slift in H.
    destruct (mq_act c s l) as [[w' o']|] eqn:E; [|discriminate]. injection H as <- _.
    apply (act_now _ _ _ _ _ E). intros t ->. discriminate.
  - cbn [advance mq_elem mq_act] in H. destruct (SchedBase.urgent c s); [discriminate|]. destruct (Qlt_le_dec (mnow s) t); [|discriminate].
    destruct (mchild s) as [|p|p dl|]; try (injection H as <-; reflexivity).
    destruct (Qle_bool t dl); [|discriminate]. injection H as <-; reflexivity.
  - cbn [advance mq_elem mq_act] in H. destruct (SchedBase.urgent c s); [discriminate|]. destruct (Qlt_le_dec (mnow s) t); [|discriminate]. assumption.
  - cbn [advance mq_elem mq_act] in H. cbn [urgent mq_elem]. destruct (SchedBase.urgent c s); [discriminate|reflexivity].
  - cbn [advance mq_elem mq_act] in H. cbn [deadline mq_elem]. destruct (SchedBase.urgent c s); [discriminate|].
    destruct (Qlt_le_dec (mnow s) t); [|discriminate]. intros d Hd.
    destruct (mchild s) as [|p|p dl|]; try discriminate. injection Hd as <-.
    destruct (Qle_bool t dl) eqn:El; [|discriminate]. apply Qle_bool_iff. exact El.
Qed.
