(* Model of onl/netdev/token_bucket.py : TokenBucket (put + the run() server process) as a timed
   automaton with urgent internal micro-steps (DESIGN.md 2.4).  Executable; proofs are in
   BucketProofs.v.

   Actions (what the harness observes of the real execution, one per kernel step or put() call):
     TPut p        bucket.put(p) called by the upstream element
     TInit         the kernel processes the Initialize event of run(): the server reaches its first store.get()
     TStoreCb      the kernel processes a StorePut event of the bucket's store
     TGet          the kernel processes the granted StoreGet: run() resumes with the head packet, refills
                   the bucket (min(B, level + rate*(now-update_time)/8)), then debits it or starts the
                   token wait (size-level)*8/rate
     TTimer        the kernel processes a timeout of run(): the token wait ends (level := 0,
                   update_time := now; then the peak spacing timeout 8*size/peak starts, or the packet
                   is forwarded), or the peak spacing ends (the packet is forwarded)
     TAdvance t    the clock moves to t (only when nothing is due at the current instant)

   Outputs: OHead p (the server took p: p is at the head with the server free), ODebit p (the
   tokens of p are taken out of the bucket), OForward p (out.put(p)).  Only OForward is visible from
   outside; the other two mark the instants the property speaks about. *)
From Coq Require Import ZArith QArith Qminmax List Bool.
From ONL Require Import Elem.Packet Elem.StoreQ.
Import ListNotations.

Record tbcfg := { rate : Q;            (* bits per second, > 0 *)
                  bsize : Q;           (* bucket_size, bytes, >= 0 *)
                  peak : option Q }.   (* peak rate, bits per second *)

(* `if self.peak:` : None and 0 are falsy *)
Definition peak_on (c : tbcfg) : option Q :=
  match peak c with
  | None => None
  | Some k => if Qeq_bool k 0 then None else Some k
  end.

Inductive tphase :=
| PIdle                              (* between packets: a store.get() is outstanding (or being granted) *)
| PTok (p : pkt) (dl : Q)            (* waiting for the missing tokens of p; the timeout is due at dl *)
| PPeak (p : pkt) (dl : Q).          (* p is debited; the peak spacing timeout is due at dl *)

Inductive taction := TPut (p : pkt) | TInit | TStoreCb | TGet | TTimer | TAdvance (t : Q).
Inductive tout := OHead (p : pkt) | ODebit (p : pkt) | OForward (p : pkt).

Record tb := {
  tnow : Q;
  tq : sq pkt;                       (* the Store *)
  tstarted : bool;                   (* Initialize processed *)
  level : Q;                         (* current_bucket *)
  utime : Q;                         (* update_time *)
  phase : tphase;
  nrecv : Z;                         (* packets_received *)
  nsent : Z                          (* packets_sent *)
}.

(* [fx] = the repaired constructor: update_time starts at env.now.  The code as found started it at
   0.0 whatever the environment's initial time. *)
Definition tb0 (fx : bool) (c : tbcfg) (t0 : Q) : tb :=
  {| tnow := t0; tq := sq0; tstarted := false; level := bsize c; utime := if fx then t0 else 0;
     phase := PIdle; nrecv := 0; nsent := 0 |}.

Definition sz (p : pkt) : Q := inject_Z (psize p).

(* tokens that arrive in a duration d at r bits per second: r * d / 8.0 *)
Definition fill (r d : Q) : Q := r * d / 8.
(* the refill line of run() *)
Definition refill (B r L U t : Q) : Q := Qmin B (L + fill r (t - U)).
(* duration of the wait for the missing tokens: (size - level) * 8.0 / rate *)
Definition tokwait (r size lvl : Q) : Q := (size - lvl) * 8 / r.
(* size * 8.0 / peak *)
Definition spacing (k size : Q) : Q := size * 8 / k.

(* out.put(p); packets_sent += 1; back to `packet = yield self.store.get()` *)
Definition tb_forward (s : tb) (p : pkt) : option (tb * list tout) :=
  match sq_get fifo_pop (tq s) with
  | Some q => Some ({| tnow := tnow s; tq := q; tstarted := tstarted s; level := level s; utime := utime s;
                       phase := PIdle; nrecv := nrecv s; nsent := (nsent s + 1)%Z |}, [OForward p])
  | None => None
  end.

(* after the debit: `if self.peak: yield env.timeout(packet.size * 8.0 / self.peak)`, then forward *)
Definition tb_after_debit (c : tbcfg) (s : tb) (p : pkt) : option (tb * list tout) :=
  match peak_on c with
  | Some k =>
      (* env.timeout(d) raises ValueError for d < 0 (negative size or peak): not an admissible step *)
      if Qlt_le_dec (spacing k (sz p)) 0 then None else
      Some ({| tnow := tnow s; tq := tq s; tstarted := tstarted s; level := level s; utime := utime s;
               phase := PPeak p (Qred (tnow s + spacing k (sz p))); nrecv := nrecv s; nsent := nsent s |}, [])
  | None => tb_forward s p
  end.

Definition tb_due (s : tb) : bool :=
  match phase s with
  | PIdle => false
  | PTok _ dl => Qeq_bool dl (tnow s)
  | PPeak _ dl => Qeq_bool dl (tnow s)
  end.

Definition tb_urgent (s : tb) : bool := negb (tstarted s) || sq_urgent (tq s) || tb_due s.

Definition tb_act (c : tbcfg) (s : tb) (a : taction) : option (tb * list tout) :=
  match a with
  | TPut p =>
      Some ({| tnow := tnow s; tq := sq_put fifo_push (tnow s) p (tq s); tstarted := tstarted s; level := level s;
               utime := utime s; phase := phase s; nrecv := (nrecv s + 1)%Z; nsent := nsent s |}, [])
  | TInit =>
      if tstarted s then None
      else match sq_get fifo_pop (tq s) with
           | Some q => Some ({| tnow := tnow s; tq := q; tstarted := true; level := level s; utime := utime s;
                                phase := phase s; nrecv := nrecv s; nsent := nsent s |}, [])
           | None => None
           end
  | TStoreCb =>
      match sq_cb fifo_pop (tq s) with
      | Some q => Some ({| tnow := tnow s; tq := q; tstarted := tstarted s; level := level s; utime := utime s;
                           phase := phase s; nrecv := nrecv s; nsent := nsent s |}, [])
      | None => None
      end
  | TGet =>
      match phase s, sq_take (tq s) with
      | PIdle, Some ((_, p), q) =>
          if negb (tstarted s) then None else
          let lvl := Qred (refill (bsize c) (rate c) (level s) (utime s) (tnow s)) in
          if Qlt_le_dec lvl (sz p) then
            (* packet.size > current_bucket: wait for the missing tokens *)
            Some ({| tnow := tnow s; tq := q; tstarted := tstarted s; level := lvl; utime := tnow s;
                     phase := PTok p (Qred (tnow s + tokwait (rate c) (sz p) lvl));
                     nrecv := nrecv s; nsent := nsent s |}, [OHead p])
          else
            match tb_after_debit c {| tnow := tnow s; tq := q; tstarted := tstarted s; level := Qred (lvl - sz p);
                                      utime := tnow s; phase := PIdle; nrecv := nrecv s; nsent := nsent s |} p with
            | Some (s2, o) => Some (s2, OHead p :: ODebit p :: o)
            | None => None
            end
      | _, _ => None
      end
  | TTimer =>
      match phase s with
      | PTok p dl =>
          if Qeq_bool dl (tnow s) then
            match tb_after_debit c {| tnow := tnow s; tq := tq s; tstarted := tstarted s; level := 0;
                                      utime := tnow s; phase := PIdle; nrecv := nrecv s; nsent := nsent s |} p with
            | Some (s2, o) => Some (s2, ODebit p :: o)
            | None => None
            end
          else None
      | PPeak p dl =>
          if Qeq_bool dl (tnow s) then
            tb_forward {| tnow := tnow s; tq := tq s; tstarted := tstarted s; level := level s;
                          utime := utime s; phase := PIdle; nrecv := nrecv s; nsent := nsent s |} p
          else None
      | PIdle => None
      end
  | TAdvance t =>
      if tb_urgent s then None
      else if Qlt_le_dec (tnow s) t then
        let s' := {| tnow := t; tq := tq s; tstarted := tstarted s; level := level s; utime := utime s;
                     phase := phase s; nrecv := nrecv s; nsent := nsent s |} in
        match phase s with
        | PIdle => Some (s', [])
        | PTok _ dl => if Qle_bool t dl then Some (s', []) else None
        | PPeak _ dl => if Qle_bool t dl then Some (s', []) else None
        end
      else None
  end.

(* an execution: every action must be enabled (admissible); the trace pairs each action with the
   instant at which it happened and with what it emitted *)
Definition tev := (Q * taction * list tout)%type.

Fixpoint tb_run (c : tbcfg) (s : tb) (acts : list taction) : option (tb * list tev) :=
  match acts with
  | [] => Some (s, [])
  | a :: rest =>
      match tb_act c s a with
      | None => None
      | Some (s', outs) =>
          match tb_run c s' rest with
          | None => None
          | Some (s'', tr) => Some (s'', (tnow s', a, outs) :: tr)
          end
      end
  end.

(* index of the first action that is not admissible (diagnosis), or None *)
Fixpoint tb_stuck (c : tbcfg) (s : tb) (acts : list taction) (i : nat) : option nat :=
  match acts with
  | [] => None
  | a :: rest =>
      match tb_act c s a with
      | None => Some i
      | Some (s', _) => tb_stuck c s' rest (S i)
      end
  end.

(* ---- comparison with an observed execution (correspondence) -------------------------------- *)
Definition forwards_of (l : list tout) : list pkt :=
  flat_map (fun o => match o with OForward p => [p] | _ => [] end) l.

Fixpoint pkts_eqb (a b : list pkt) : bool :=
  match a, b with
  | [], [] => true
  | x :: s, y :: t => pkt_eqb x y && pkts_eqb s t
  | _, _ => false
  end.

(* observed: per action, the packets forwarded during it and
   (packets_received, packets_sent, current_bucket, update_time, len(store.items)) after it *)
Definition tbsample := (Z * Z * Q * Q * nat)%type.

Fixpoint tb_agree (c : tbcfg) (s : tb) (obs : list (taction * list pkt * tbsample)) : bool :=
  match obs with
  | [] => true
  | (a, outs, (r, sn, lv, ut, n)) :: rest =>
      match tb_act c s a with
      | None => false
      | Some (s', outs') =>
          pkts_eqb (forwards_of outs') outs && Z.eqb (nrecv s') r && Z.eqb (nsent s') sn
          && Qeq_bool (level s') lv && Qeq_bool (utime s') ut && Nat.eqb (length (items (tq s'))) n
          && tb_agree c s' rest
      end
  end.

(* index of the first observed action on which model and observation differ (diagnosis) *)
Fixpoint tb_differ (c : tbcfg) (s : tb) (obs : list (taction * list pkt * tbsample)) (i : nat) : option (nat * option tb) :=
  match obs with
  | [] => None
  | (a, outs, (r, sn, lv, ut, n)) :: rest =>
      match tb_act c s a with
      | None => Some (i, None)
      | Some (s', outs') =>
          if pkts_eqb (forwards_of outs') outs && Z.eqb (nrecv s') r && Z.eqb (nsent s') sn
             && Qeq_bool (level s') lv && Qeq_bool (utime s') ut && Nat.eqb (length (items (tq s'))) n
          then tb_differ c s' rest (S i) else Some (i, Some s')
      end
  end.

(* ---- the hand-off: what the next hop sees of the bucket inside its put() -------------------------------- *)
(* out.put(p) is called after the debit and before packets_sent += 1 and before the next store.get(): the next
   hop reads packets_received, packets_sent (this packet not yet counted), current_bucket, update_time and
   len(store.items) (a packet the following get() takes at once is still in the store).  All of it is a function
   of the state after the action. *)
Definition tb_hand_view (s' : tb) : tbsample :=
  (nrecv s', (nsent s' - 1)%Z, level s', utime s', length (sq_held (tq s'))).

Definition tbsample_eqb (a b : tbsample) : bool :=
  let '(r, sn, lv, ut, n) := a in
  let '(r', sn', lv', ut', n') := b in
  Z.eqb r r' && Z.eqb sn sn' && Qeq_bool lv lv' && Qeq_bool ut ut' && Nat.eqb n n'.

Fixpoint tb_hands_eqb (s' : tb) (fw : list pkt) (obs : list (pkt * tbsample)) : bool :=
  match fw, obs with
  | [], [] => true
  | p :: fw', (q, h) :: obs' => pkt_eqb p q && tbsample_eqb (tb_hand_view s') h && tb_hands_eqb s' fw' obs'
  | _, _ => false
  end.

(* as tb_agree, the forwarded packets paired with the state sampled by the next hop inside its put() *)
Fixpoint tb_agree_h (c : tbcfg) (s : tb) (obs : list (taction * list (pkt * tbsample) * tbsample)) : bool :=
  match obs with
  | [] => true
  | (a, outs, smp) :: rest =>
      match tb_act c s a with
      | None => false
      | Some (s', outs') =>
          tb_hands_eqb s' (forwards_of outs') outs
          && tbsample_eqb (nrecv s', nsent s', level s', utime s', length (items (tq s'))) smp
          && tb_agree_h c s' rest
      end
  end.
