(* Model of onl/scheduler/sp.py (SP) over Elem/SchedBase.v.
   SP.__init__ sorts the priority table (keyed by class id; flow2class maps flows to classes, put() files a packet in
   the store of its class) by descending priority (Python's sorted(..., reverse=True) is stable: equal
   priorities keep their declaration order).  run() scans that list; a class with prio <= 0 is never looked at; the
   test is store.size() != 0; after a transmission the repaired code leaves the for-loop (`break`), so the scan
   restarts from the highest priority.  [fixed = false] is the loop as found at the pinned commit: it continues with
   the next (lower) class. *)
From Coq Require Import ZArith QArith List Bool.
From ONL Require Import Elem.Packet Elem.StoreQ Elem.SchedBase.
Import ListNotations.

(* stable insertion sort, descending by priority *)
Fixpoint ins_desc (x : Z * Z) (l : list (Z * Z)) : list (Z * Z) :=
  match l with
  | [] => [x]
  | y :: t => if Z.leb (snd y) (snd x) then x :: y :: t else y :: ins_desc x t
  end.
Fixpoint sort_desc (l : list (Z * Z)) : list (Z * Z) :=
  match l with [] => [] | x :: t => ins_desc x (sort_desc t) end.

Definition sp_slot (x : Z * Z) : Z * nat := (fst x, if Z.ltb 0 (snd x) then 1%nat else 0%nat).

(* cm = flow2class; tbl = the priority table, keyed by CLASS id; fl = the flows the Monitor model reports *)
Definition sp_cfg (fixed : bool) (r : Q) (cm : Z -> Z) (fl : list Z) (tbl : list (Z * Z)) : mq_cfg :=
  {| rate := r; pass := map sp_slot (sort_desc tbl); by_count := false; brk := fixed; cls := cm; sflows := fl |}.

Definition sp_act (r : Q) (cm : Z -> Z) (fl : list Z) (tbl : list (Z * Z)) := mq_act (sp_cfg true r cm fl tbl).
Definition sp_run (r : Q) (cm : Z -> Z) (fl : list Z) (tbl : list (Z * Z)) (acts : list saction) :=
  mq_run (sp_cfg true r cm fl tbl) (mq0 (sp_cfg true r cm fl tbl)) acts.
(* the run() loop of the pinned commit *)
Definition sp_run_unfixed (r : Q) (cm : Z -> Z) (fl : list Z) (tbl : list (Z * Z)) (acts : list saction) :=
  mq_run (sp_cfg false r cm fl tbl) (mq0 (sp_cfg false r cm fl tbl)) acts.
