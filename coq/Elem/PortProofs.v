(* Proofs about Elem/Port.v, for EVERY drop policy (tail drop, RED, ...) unless a lemma says "tail":
   the departure recurrence, FIFO conservation, counters, exact byte occupancy, stamps, monitor samples,
   never-late / work-conserving, and for the tail-drop policy the drop rule and the occupancy bound.
   All statements quantify over all admissible executions ([port_run ... = Some ...]). *)
From Coq Require Import ZArith QArith Qminmax List Bool Lia Lqa Permutation.
From ONL Require Import Elem.Packet Elem.StoreQ Elem.StoreQProofs Elem.Port.
Import ListNotations.

(* ============================================================================================== *)
(* 1. one step of the automaton, as a relation (inversion of port_act)                             *)

Inductive pstep (c : pcfg) (s : port) : paction -> port -> list pout -> Prop :=
| st_accept p u a : c_policy c s p u = Some (false, a) ->
    pstep c s (PPut p u) (put_accept s p a) (stamp_outs c s)
| st_refuse p u a : c_policy c s p u = Some (true, a) ->
    pstep c s (PPut p u) (put_refuse s a) (stamp_outs c s ++ [ODrop p])
| st_init q : pstarted s = false -> sq_get fifo_pop (pq s) = Some q ->
    pstep c s PInit (with_q (with_started s) q) []
| st_cb q : sq_cb fifo_pop (pq s) = Some q ->
    pstep c s PStoreCb (with_q s q) []
| st_get_tx a0 p q : psvc s = None -> pstarted s = true -> sq_take (pq s) = Some ((a0, p), q) -> 0 < c_rate c ->
    pstep c s PGet (with_svc (with_q s q) (Some (p, Qred (pnow s + tx c p)))) []
| st_get_now a0 p q q' : psvc s = None -> pstarted s = true -> sq_take (pq s) = Some ((a0, p), q) -> c_rate c <= 0 ->
    sq_get fifo_pop q = Some q' ->
    pstep c s PGet (with_q (leave_now c (with_q s q) p) q') [OForward p]
| st_timer p dl q' : psvc s = Some (p, dl) -> dl == pnow s -> sq_get fifo_pop (pq s) = Some q' ->
    pstep c s PTimer (with_q (with_bytes (with_svc s None) (pbytes s - psize p)%Z) q') [OForward p]
| st_adv t : purgent s = false -> pnow s < t -> (forall p dl, psvc s = Some (p, dl) -> t <= dl) ->
    pstep c s (PAdvance t) (with_now s t) []
| st_sample incl :
    pstep c s (PSample incl) s [sample (c_fix_mon c) incl s].

Lemma leave_now_pq c s p : pq (leave_now c s p) = pq s.
Proof. unfold leave_now. destruct (c_fix_rate0 c); reflexivity. Qed.

Lemma port_act_step c s a s' outs : port_act c s a = Some (s', outs) -> pstep c s a s' outs.
Proof.
  destruct a as [p u| | | | |t|incl]; cbn [port_act].
  - unfold port_put. destruct (c_policy c s p u) as [[r a]|] eqn:E; [|discriminate].
    destruct r; intros H; injection H as <- <-; [eapply st_refuse|eapply st_accept]; eauto.
  - destruct (pstarted s) eqn:S; [discriminate|].
    unfold server_get. cbn [pq with_started].
    destruct (sq_get fifo_pop (pq s)) as [q|] eqn:G; [|discriminate].
    intros H; injection H as <- <-. apply st_init; auto.
  - destruct (sq_cb fifo_pop (pq s)) as [q|] eqn:G; [|discriminate].
    intros H; injection H as <- <-. apply st_cb; auto.
  - destruct (psvc s) as [[p0 d0]|] eqn:V; [discriminate|].
    destruct (sq_take (pq s)) as [[[a0 p] q]|] eqn:T; [|discriminate].
    destruct (pstarted s) eqn:S; cbn [negb]; [|discriminate].
    destruct (Qlt_le_dec 0 (c_rate c)) as [R|R].
    + intros H; injection H as <- <-. eapply st_get_tx; eauto.
    + unfold server_get. rewrite leave_now_pq. cbn [pq with_q].
      destruct (sq_get fifo_pop q) as [q'|] eqn:G; [|discriminate].
      intros H; injection H as <- <-. eapply st_get_now; eauto.
  - destruct (psvc s) as [[p dl]|] eqn:V; [|discriminate].
    destruct (Qeq_bool dl (pnow s)) eqn:E; [|discriminate].
    unfold server_get. cbn [pq with_bytes with_svc].
    destruct (sq_get fifo_pop (pq s)) as [q'|] eqn:G; [|discriminate].
    intros H; injection H as <- <-. eapply st_timer; eauto. apply Qeq_bool_iff; exact E.
  - destruct (purgent s) eqn:U; [discriminate|].
    destruct (Qlt_le_dec (pnow s) t) as [L|L]; [|discriminate].
    destruct (psvc s) as [[p dl]|] eqn:V.
    + destruct (Qle_bool t dl) eqn:E; [|discriminate].
      intros H; injection H as <- <-. apply st_adv; auto.
      intros p' dl' H'. rewrite V in H'. injection H' as <- <-. apply Qle_bool_iff; exact E.
    + intros H; injection H as <- <-. apply st_adv; auto. intros p dl H'; rewrite V in H'; discriminate.
  - intros H; injection H as <- <-. apply st_sample.
Qed.

(* a property kept by every step from a state that has it holds after every admissible execution;
   [okact] restricts the actions considered (e.g. packets of non-negative size) *)
Lemma run_inv (c : pcfg) (okact : paction -> Prop) (P : port -> Prop) :
  (forall s a s' outs, okact a -> P s -> pstep c s a s' outs -> P s') ->
  forall acts s s' tr, Forall okact acts -> P s -> port_run c s acts = Some (s', tr) -> P s'.
Proof.
  intros Hstep. induction acts as [|a rest IH]; intros s s' tr Hok HP H; cbn [port_run] in H.
  - injection H as <- _. exact HP.
  - destruct (port_act c s a) as [[s1 outs]|] eqn:A; [|discriminate].
    destruct (port_run c s1 rest) as [[s2 tr']|] eqn:R; [|discriminate].
    injection H as <- _. inversion Hok as [|? ? Ha Hr]; subst.
    apply (IH s1 s2 tr' Hr); [|exact R].
    apply (Hstep s a s1 outs Ha HP). apply port_act_step; exact A.
Qed.

Definition anyact (a : paction) : Prop := True.
Lemma Forall_anyact acts : Forall anyact acts.
Proof. induction acts; constructor; auto. exact I. Qed.

(* a property of the trace: holds for every event when every step produces an event that has it *)
Lemma run_trace_inv (c : pcfg) (P : port -> Prop) (E : pev -> Prop) :
  (forall s a s' outs, P s -> pstep c s a s' outs -> P s' /\ E (pnow s', a, outs)) ->
  forall acts s s' tr, P s -> port_run c s acts = Some (s', tr) -> P s' /\ Forall E tr.
Proof.
  intros Hstep. induction acts as [|a rest IH]; intros s s' tr HP H; cbn [port_run] in H.
  - injection H as <- <-. split; [exact HP|constructor].
  - destruct (port_act c s a) as [[s1 outs]|] eqn:A; [|discriminate].
    destruct (port_run c s1 rest) as [[s2 tr']|] eqn:R; [|discriminate].
    injection H as <- <-. apply port_act_step in A. destruct (Hstep _ _ _ _ HP A) as [HP1 HE].
    destruct (IH _ _ _ HP1 R) as [HP2 HF]. split; [exact HP2|constructor; assumption].
Qed.

(* ============================================================================================== *)
(* 2. the phase invariant of server and store (I1 of the guide)                                     *)

Definition W (s : port) : list (Q * pkt) := sq_held (pq s).

Record phase_inv (s : port) : Prop := {
  ph_nostrand : sq_nostrand (pq s);
  ph_unstarted : pstarted s = false -> get (pq s) = GNone /\ psvc s = None;
  ph_idle : pstarted s = true -> psvc s = None -> get (pq s) <> GNone;
  ph_busy : psvc s <> None -> get (pq s) = GNone
}.

Lemma phase_init t0 : phase_inv (port0 t0).
Proof.
  constructor; cbn.
  - apply sq_nostrand_init.
  - auto.
  - discriminate.
  - intros H; contradiction.
Qed.

Lemma phase_step c s a s' outs : phase_inv s -> pstep c s a s' outs -> phase_inv s'.
Proof.
  intros [N U I B] H.
  destruct H as [p u a Hpol|p u a Hpol|q Hst Hget|q Hcb|a0 p q Hsvc Hst Htake Hrate|a0 p q q' Hsvc Hst Htake Hrate Hget
                |p dl q' Hsvc Hdl Hget|t Hurg Hlt Hdl|incl].
  - constructor; cbn; auto. apply fifo_nostrand_put.
  - constructor; cbn; auto.
  - destruct (sq_get_not_none _ _ _ _ Hget) as [G _].
    constructor; cbn.
    + eapply fifo_nostrand_get; eauto.
    + discriminate.
    + intros _ _. exact G.
    + intros V. destruct (U Hst) as [_ V']. contradiction.
  - constructor; cbn.
    + eapply fifo_nostrand_cb; eauto.
    + intros S. destruct (U S) as [G V]. split; [|exact V].
      apply (sq_cb_get_none _ _ _ _ Hcb); exact G.
    + intros S V G'. apply (sq_cb_get_none _ _ _ _ Hcb) in G'. exact (I S V G').
    + intros V. apply (sq_cb_get_none _ _ _ _ Hcb). auto.
  - pose proof (fifo_nostrand_take _ _ _ _ Htake) as N'.
    apply sq_take_inv in Htake as (G & _ & _ & G').
    constructor; cbn.
    + exact N'.
    + intros S. rewrite S in Hst. discriminate.
    + intros _ V. discriminate.
    + intros _. exact G'.
  - pose proof (fifo_nostrand_get _ _ _ Hget) as N'.
    destruct (sq_get_not_none _ _ _ _ Hget) as [G' _].
    assert (E1 : pstarted (leave_now c (with_q s q) p) = pstarted s)
      by (unfold leave_now; destruct (c_fix_rate0 c); reflexivity).
    assert (E2 : psvc (leave_now c (with_q s q) p) = psvc s)
      by (unfold leave_now; destruct (c_fix_rate0 c); reflexivity).
    constructor; cbn; rewrite ?E1, ?E2.
    + exact N'.
    + intros S. rewrite S in Hst. discriminate.
    + intros _ _. exact G'.
    + intros V. contradiction.
  - pose proof (fifo_nostrand_get _ _ _ Hget) as N'.
    destruct (sq_get_not_none _ _ _ _ Hget) as [G' _].
    constructor; cbn.
    + exact N'.
    + intros S. destruct (U S) as [_ V]. rewrite V in Hsvc. discriminate.
    + intros _ _. exact G'.
    + intros V; contradiction.
  - constructor; cbn; auto.
  - constructor; auto.
Qed.

(* nothing enabled and no transmission in progress: the port holds nothing *)
Lemma quiet_idle_empty s : phase_inv s -> purgent s = false -> psvc s = None -> W s = [].
Proof.
  intros [N U I B] Hu V. unfold purgent in Hu.
  apply orb_false_iff in Hu as [Hu _]. apply orb_false_iff in Hu as [S Q0].
  apply negb_false_iff in S.
  pose proof (I S V) as G.
  destruct (proj1 (sq_urgent_false _ _) Q0) as [_ NG].
  destruct (get (pq s)) as [| |x] eqn:E.
  - contradiction.
  - unfold W. apply sq_waiting_quiet_held; auto.
  - exfalso. apply (NG x). reflexivity.
Qed.

(* ============================================================================================== *)
(* 3. what a trace says: accepted arrivals, departures, refusals                                    *)

Definition is_drop (o : pout) : bool := match o with ODrop _ => true | _ => false end.
Definition has_drop (outs : list pout) : bool := existsb is_drop outs.
Definition out_forward (o : pout) : list pkt := match o with OForward p => [p] | _ => [] end.
Definition out_drop (o : pout) : list pkt := match o with ODrop p => [p] | _ => [] end.

(* the packets accepted by put(), with their arrival instants *)
Definition ev_accepted (e : pev) : list (Q * pkt) :=
  match e with
  | (t, PPut p _, outs) => if has_drop outs then [] else [(t, p)]
  | _ => []
  end.
(* the packets handed to self.out, with the instants *)
Definition ev_departures (e : pev) : list (Q * pkt) :=
  match e with (t, _, outs) => map (fun p => (t, p)) (flat_map out_forward outs) end.
Definition ev_puts (e : pev) : list pkt := match e with (_, PPut p _, _) => [p] | _ => [] end.
Definition ev_dropped (e : pev) : list pkt := match e with (_, _, outs) => flat_map out_drop outs end.

Definition accepted (tr : list pev) : list (Q * pkt) := flat_map ev_accepted tr.
Definition departures (tr : list pev) : list (Q * pkt) := flat_map ev_departures tr.
Definition puts (tr : list pev) : list pkt := flat_map ev_puts tr.
Definition dropped (tr : list pev) : list pkt := flat_map ev_dropped tr.
Definition forwarded (tr : list pev) : list pkt := map snd (departures tr).

Lemma stamp_no_drop c s : has_drop (stamp_outs c s) = false.
Proof. unfold stamp_outs. destruct (c_stamp c); reflexivity. Qed.
Lemma stamp_drop c s p : has_drop (stamp_outs c s ++ [ODrop p]) = true.
Proof. unfold stamp_outs. destruct (c_stamp c); reflexivity. Qed.
Lemma stamp_no_forward c s : flat_map out_forward (stamp_outs c s) = [].
Proof. unfold stamp_outs. destruct (c_stamp c); reflexivity. Qed.
Lemma stamp_drop_no_forward c s p : flat_map out_forward (stamp_outs c s ++ [ODrop p]) = [].
Proof. unfold stamp_outs. destruct (c_stamp c); reflexivity. Qed.
Lemma stamp_no_dropped c s : flat_map out_drop (stamp_outs c s) = [].
Proof. unfold stamp_outs. destruct (c_stamp c); reflexivity. Qed.
Lemma stamp_drop_dropped c s p : flat_map out_drop (stamp_outs c s ++ [ODrop p]) = [p].
Proof. unfold stamp_outs. destruct (c_stamp c); reflexivity. Qed.

(* ============================================================================================== *)
(* 4. the departure recurrence                                                                      *)

(* transmission time of a packet: 8*size/rate, nothing when rate <= 0 *)
Definition txe (c : pcfg) (p : pkt) : Q := if Qlt_le_dec 0 (c_rate c) then tx c p else 0.

(* the recurrence of the property, started with the instant F at which the server became free *)
Fixpoint dep_from (f : pkt -> Q) (F : Q) (arr : list (Q * pkt)) : list (Q * pkt) :=
  match arr with
  | [] => []
  | (a, p) :: rest => let d := Qmax a F + f p in (d, p) :: dep_from f d rest
  end.

(* ... and from scratch: the first accepted packet leaves at arrival + transmission time *)
Definition dep_spec (f : pkt -> Q) (arr : list (Q * pkt)) : list (Q * pkt) :=
  match arr with
  | [] => []
  | (a, p) :: rest => (a + f p, p) :: dep_from f (a + f p) rest
  end.

(* timed packets, instants compared as rationals *)
Definition teq (x y : Q * pkt) : Prop := fst x == fst y /\ snd x = snd y.
Definition tl_eq : list (Q * pkt) -> list (Q * pkt) -> Prop := Forall2 teq.

Lemma teq_refl x : teq x x.
Proof. split; reflexivity. Qed.
Lemma tl_eq_refl l : tl_eq l l.
Proof. induction l; constructor; auto using teq_refl. Qed.
Lemma tl_eq_trans l1 l2 l3 : tl_eq l1 l2 -> tl_eq l2 l3 -> tl_eq l1 l3.
Proof.
  intros H. revert l3. induction H as [|x y l1 l2 [Hxy1 Hxy2] H IH]; intros l3 H3.
  - exact H3.
  - inversion H3 as [|y' z l2' l3' [Hyz1 Hyz2] H']; subst. constructor.
    + split; [rewrite Hxy1; exact Hyz1|congruence].
    + apply IH; assumption.
Qed.
Lemma tl_eq_sym l1 l2 : tl_eq l1 l2 -> tl_eq l2 l1.
Proof. intros H. induction H as [|x y l1 l2 [E1 E2] H IH]; constructor; auto. split; [symmetry; exact E1|congruence]. Qed.
Lemma tl_eq_app l1 l2 m1 m2 : tl_eq l1 l2 -> tl_eq m1 m2 -> tl_eq (l1 ++ m1) (l2 ++ m2).
Proof. intros H1 H2. apply Forall2_app; assumption. Qed.
Lemma tl_eq_length l1 l2 : tl_eq l1 l2 -> length l1 = length l2.
Proof. intros H. induction H; cbn; congruence. Qed.
Lemma tl_eq_map_snd l1 l2 : tl_eq l1 l2 -> map snd l1 = map snd l2.
Proof. intros H. induction H as [|x y l1 l2 [_ E] H IH]; cbn; congruence. Qed.

Lemma Qmax_eq_r a F F' : F == F' -> Qmax a F == Qmax a F'.
Proof.
  intros E. destruct (Q.max_spec a F) as [[L1 E1]|[L1 E1]], (Q.max_spec a F') as [[L2 E2]|[L2 E2]];
    rewrite E1, E2; lra.
Qed.

Lemma dep_from_proper f l : forall F F', F == F' -> tl_eq (dep_from f F l) (dep_from f F' l).
Proof.
  induction l as [|[a p] rest IH]; intros F F' E; cbn [dep_from].
  - constructor.
  - assert (E' : Qmax a F + f p == Qmax a F' + f p) by (rewrite (Qmax_eq_r a F F' E); reflexivity).
    constructor; [split; [exact E'|reflexivity]|]. apply IH. exact E'.
Qed.

Lemma dep_from_length f l : forall F, length (dep_from f F l) = length l.
Proof. induction l as [|[a p] rest IH]; intros F; cbn; auto. Qed.

Lemma dep_from_packets f l : forall F, map snd (dep_from f F l) = map snd l.
Proof. induction l as [|[a p] rest IH]; intros F; cbn; [reflexivity|]. rewrite IH. reflexivity. Qed.

(* when the server is free no later than the first arrival, the two forms agree *)
Lemma dep_from_spec f F l :
  (forall a p rest, l = (a, p) :: rest -> F <= a) -> tl_eq (dep_from f F l) (dep_spec f l).
Proof.
  destruct l as [|[a p] rest]; intros H; cbn [dep_from dep_spec].
  - constructor.
  - assert (L : F <= a) by (eapply H; reflexivity).
    assert (E : Qmax a F + f p == a + f p) by (rewrite (Q.max_l a F L); reflexivity).
    constructor; [split; [exact E|reflexivity]|]. apply dep_from_proper. exact E.
Qed.

(* (I2)/(I3) of the guide: held items were put no later than now; an idle server with work pending found
   that work at the current instant, or became free at the current instant *)
Definition timing (s : port) (F : Q) : Prop :=
  sq_stamped (pnow s) (pq s) /\
  (psvc s = None -> F <= pnow s /\ forall a p rest, W s = (a, p) :: rest -> pnow s <= Qmax a F).

(* the departures still to come, given the packets that will still be accepted *)
Definition future (c : pcfg) (s : port) (F : Q) (arr : list (Q * pkt)) : list (Q * pkt) :=
  match psvc s with
  | Some (p, dl) => (dl, p) :: dep_from (txe c) dl (W s ++ arr)
  | None => dep_from (txe c) F (W s ++ arr)
  end.

Lemma timing_init t0 : timing (port0 t0) t0.
Proof.
  split; cbn.
  - apply sq_stamped_init.
  - intros _. split; [apply Qle_refl|]. intros a p rest H. discriminate.
Qed.

Lemma future_step c s a s' outs F :
  phase_inv s -> timing s F -> pstep c s a s' outs ->
  exists F', timing s' F' /\
    forall arr, tl_eq (future c s F (ev_accepted (pnow s', a, outs) ++ arr))
                      (ev_departures (pnow s', a, outs) ++ future c s' F' arr).
Proof.
  intros PH [TS TI] H.
  destruct H as [p u a Hpol|p u a Hpol|q Hst Hget|q Hcb|a0 p q Hsvc Hst Htake Hrate|a0 p q q' Hsvc Hst Htake Hrate Hget
                |p dl q' Hsvc Hdl Hget|t Hurg Hlt Hdl|incl].
  - (* accepted *)
    exists F. split.
    + split; cbn.
      * apply sq_stamped_put. exact TS.
      * intros V. destruct (TI V) as [TF TH]. split; [exact TF|].
        intros a1 p1 rest E. unfold W in E. cbn in E. rewrite fifo_held_put in E.
        destruct (sq_held (pq s)) as [|[a2 p2] r2] eqn:EW.
        -- cbn in E. injection E as <- <- <-. apply Q.le_max_l.
        -- cbn in E. injection E as <- <- <-. eapply TH. unfold W. rewrite EW. reflexivity.
    + intros arr. unfold ev_accepted, ev_departures. rewrite stamp_no_drop, stamp_no_forward. cbn [map app].
      unfold future, W. cbn [psvc put_accept pq pnow]. rewrite fifo_held_put, <- app_assoc. cbn [app].
      apply tl_eq_refl.
  - (* refused *)
    exists F. split.
    + split; cbn; [exact TS|exact TI].
    + intros arr. unfold ev_accepted, ev_departures. rewrite stamp_drop, stamp_drop_no_forward. cbn [map app].
      apply tl_eq_refl.
  - (* Initialize *)
    exists F. assert (EW : W (with_q (with_started s) q) = W s) by (unfold W; cbn; eapply fifo_held_get; eauto).
    split.
    + split; cbn.
      * eapply sq_stamped_get; eauto.
      * intros V. destruct (TI V) as [TF TH]. split; [exact TF|]. intros a1 p1 rest E. rewrite EW in E. eauto.
    + intros arr. cbn [ev_accepted ev_departures flat_map map app]. unfold future. rewrite EW. apply tl_eq_refl.
  - (* StorePut processed *)
    exists F. assert (EW : W (with_q s q) = W s) by (unfold W; cbn; eapply fifo_held_cb; eauto).
    split.
    + split; cbn.
      * eapply sq_stamped_cb; eauto.
      * intros V. destruct (TI V) as [TF TH]. split; [exact TF|]. intros a1 p1 rest E. rewrite EW in E. eauto.
    + intros arr. cbn [ev_accepted ev_departures flat_map map app]. unfold future. rewrite EW. apply tl_eq_refl.
  - (* the server takes a packet and starts transmitting *)
    exists F. pose proof (fifo_held_take _ _ _ _ Htake) as EH.
    destruct (sq_stamped_take _ _ _ _ _ Htake TS) as [La TS'].
    split.
    + split; cbn; [exact TS'|]. intros V; discriminate.
    + intros arr. cbn [ev_accepted ev_departures flat_map map app]. unfold future. cbn [psvc with_svc with_q].
      rewrite Hsvc. unfold W at 1. rewrite EH. cbn [app dep_from].
      destruct (TI Hsvc) as [TF TH].
      assert (Lm : pnow s <= Qmax a0 F) by (eapply TH; unfold W; rewrite EH; reflexivity).
      assert (Um : Qmax a0 F <= pnow s) by (apply Q.max_lub; [exact La|exact TF]).
      assert (Et : txe c p = tx c p) by (unfold txe; destruct (Qlt_le_dec 0 (c_rate c)) as [L|L]; [reflexivity|lra]).
      assert (E : Qmax a0 F + txe c p == Qred (pnow s + tx c p)) by (rewrite Qred_correct, Et; lra).
      constructor; [split; [exact E|reflexivity]|].
      unfold W. cbn [pq with_svc with_q]. apply dep_from_proper. exact E.
  - (* the server takes a packet and forwards it at once (no serialisation delay) *)
    exists (pnow s). pose proof (fifo_held_take _ _ _ _ Htake) as EH.
    destruct (sq_stamped_take _ _ _ _ _ Htake TS) as [La TS'].
    assert (EW : W (with_q (leave_now c (with_q s q) p) q') = sq_held q)
      by (unfold W; cbn; eapply fifo_held_get; eauto).
    assert (EN : pnow (leave_now c (with_q s q) p) = pnow s) by (unfold leave_now; destruct (c_fix_rate0 c); reflexivity).
    assert (EV : psvc (leave_now c (with_q s q) p) = None) by (unfold leave_now; destruct (c_fix_rate0 c); cbn; exact Hsvc).
    split.
    + split; cbn; rewrite ?EN, ?EV.
      * eapply sq_stamped_get; eauto.
      * intros _. split; [apply Qle_refl|]. intros a1 p1 rest E. apply Q.le_max_r.
    + intros arr. cbn [ev_accepted ev_departures flat_map map app out_forward]. unfold future. cbn [psvc with_q]. rewrite EV, Hsvc, EW.
      unfold W. rewrite EH. cbn [app dep_from pnow with_q]. rewrite EN.
      destruct (TI Hsvc) as [TF TH].
      assert (Lm : pnow s <= Qmax a0 F) by (eapply TH; unfold W; rewrite EH; reflexivity).
      assert (Um : Qmax a0 F <= pnow s) by (apply Q.max_lub; [exact La|exact TF]).
      assert (Et : txe c p = 0) by (unfold txe; destruct (Qlt_le_dec 0 (c_rate c)) as [L|L]; [lra|reflexivity]).
      assert (E : Qmax a0 F + txe c p == pnow s) by (rewrite Et; lra).
      constructor; [split; [exact E|reflexivity]|]. apply dep_from_proper. exact E.
  - (* transmission ends *)
    exists (pnow s).
    assert (EW : W (with_q (with_bytes (with_svc s None) (pbytes s - psize p)%Z) q') = W s)
      by (unfold W; cbn; eapply fifo_held_get; eauto).
    split.
    + split; cbn.
      * eapply sq_stamped_get; eauto.
      * intros _. split; [apply Qle_refl|]. intros a1 p1 rest E. apply Q.le_max_r.
    + intros arr. cbn [ev_accepted ev_departures flat_map map app out_forward]. unfold future. cbn [psvc with_q with_bytes with_svc pnow].
      rewrite Hsvc, EW. constructor; [split; [exact Hdl|reflexivity]|]. apply dep_from_proper. exact Hdl.
  - (* the clock advances *)
    exists F. split.
    + split; cbn.
      * eapply sq_stamped_mono; [|exact TS]. apply Qlt_le_weak; exact Hlt.
      * intros V. destruct (TI V) as [TF _]. split; [lra|].
        intros a1 p1 rest E. change (W (with_now s t)) with (W s) in E.
        rewrite (quiet_idle_empty s PH Hurg V) in E. discriminate.
    + intros arr. cbn [ev_accepted ev_departures flat_map map app]. apply tl_eq_refl.
  - (* a monitor sample *)
    exists F. split; [split; assumption|].
    intros arr. cbn [ev_accepted ev_departures flat_map map app sample].
    unfold sample. destruct incl; cbn [flat_map out_forward app map]; apply tl_eq_refl.
Qed.

Lemma future_run c : forall acts s s' tr F,
  phase_inv s -> timing s F -> port_run c s acts = Some (s', tr) ->
  exists F', phase_inv s' /\ timing s' F' /\
    forall arr, tl_eq (future c s F (accepted tr ++ arr)) (departures tr ++ future c s' F' arr).
Proof.
  induction acts as [|a rest IH]; intros s s' tr F PH TI H; cbn [port_run] in H.
  - injection H as <- <-. exists F. split; [exact PH|split; [exact TI|]]. intros arr. apply tl_eq_refl.
  - destruct (port_act c s a) as [[s1 outs]|] eqn:A; [|discriminate].
    destruct (port_run c s1 rest) as [[s2 tr']|] eqn:R; [|discriminate].
    injection H as <- <-. apply port_act_step in A.
    destruct (future_step c s a s1 outs F PH TI A) as (F1 & TI1 & E1).
    pose proof (phase_step c s a s1 outs PH A) as PH1.
    destruct (IH s1 s2 tr' F1 PH1 TI1 R) as (F2 & PH2 & TI2 & E2).
    exists F2. split; [exact PH2|split; [exact TI2|]]. intros arr.
    unfold accepted, departures. cbn [flat_map]. fold (accepted tr') (departures tr').
    rewrite <- !app_assoc.
    eapply tl_eq_trans; [apply E1|]. apply tl_eq_app; [apply tl_eq_refl|]. apply E2.
Qed.

(* time never runs backwards, and every event of a trace happened at or after the start *)
Lemma step_time_mono c s a s' outs : pstep c s a s' outs -> pnow s <= pnow s'.
Proof.
  intros H. destruct H; cbn; try apply Qle_refl.
  - unfold leave_now. destruct (c_fix_rate0 c); cbn; apply Qle_refl.
  - apply Qlt_le_weak. assumption.
Qed.

Lemma run_time_mono c : forall acts s s' tr,
  port_run c s acts = Some (s', tr) -> pnow s <= pnow s' /\ Forall (fun e => pnow s <= fst (fst e)) tr.
Proof.
  induction acts as [|a rest IH]; intros s s' tr H; cbn [port_run] in H.
  - injection H as <- <-. split; [apply Qle_refl|constructor].
  - destruct (port_act c s a) as [[s1 outs]|] eqn:A; [|discriminate].
    destruct (port_run c s1 rest) as [[s2 tr']|] eqn:R; [|discriminate].
    injection H as <- <-. apply port_act_step, step_time_mono in A.
    destruct (IH _ _ _ R) as [L1 L2]. split; [eapply Qle_trans; eauto|].
    constructor; [exact A|]. eapply Forall_impl; [|exact L2]. intros e Le. cbn in Le. eapply Qle_trans; eauto.
Qed.

Lemma accepted_instants tr (P : Q -> Prop) :
  Forall (fun e : pev => P (fst (fst e))) tr -> Forall (fun x => P (fst x)) (accepted tr).
Proof.
  induction 1 as [|[[t a] outs] tr Ht _ IH]; cbn; [constructor|].
  apply Forall_app. split; [|exact IH].
  destruct a; cbn; try constructor. destruct (has_drop outs); constructor; [exact Ht|constructor].
Qed.

(* what is still to come when nothing more arrives: one departure per packet held, in order *)
Lemma future_nil_packets c s F : map snd (future c s F []) = port_held s.
Proof.
  unfold future, port_held. rewrite app_nil_r. fold (W s).
  destruct (psvc s) as [[p dl]|]; cbn [map snd app]; rewrite dep_from_packets; reflexivity.
Qed.

(* THE RECURRENCE.  For every admissible execution from the initial state: the timed departures so far,
   followed by one more departure per packet still held, are exactly what the recurrence of the property
   gives for the accepted arrivals:  d_1 = a_1 + tx_1,  d_k = max(a_k, d_{k-1}) + tx_k,  same packets, same
   order (FIFO).  So the departures so far are a prefix of the recurrence, and all of it once nothing is held. *)
Theorem port_departure_recurrence c t0 acts s tr :
  port_run c (port0 t0) acts = Some (s, tr) ->
  exists rest, tl_eq (dep_spec (txe c) (accepted tr)) (departures tr ++ rest) /\ map snd rest = port_held s.
Proof.
  intros H.
  destruct (future_run c acts (port0 t0) s tr t0 (phase_init t0) (timing_init t0) H) as (F' & PH & TI & E).
  exists (future c s F' []). split; [|apply future_nil_packets].
  specialize (E []). rewrite app_nil_r in E. unfold future at 1 in E. cbn [psvc port0 W pq] in E.
  change (sq_held sq0 ++ accepted tr) with (accepted tr) in E.
  eapply tl_eq_trans; [|exact E].
  apply tl_eq_sym. apply dep_from_spec. intros a p rest0 Ea.
  destruct (run_time_mono c acts _ _ _ H) as [_ Lt].
  pose proof (accepted_instants tr (fun t => t0 <= t) Lt) as La. rewrite Ea in La.
  inversion La; subst. assumption.
Qed.

(* ============================================================================================== *)
(* 5. the books: FIFO conservation (I4), counters                                                   *)

Lemma map_snd_pair (t : Q) (l : list pkt) : map snd (map (fun p => (t, p)) l) = l.
Proof. induction l; cbn; congruence. Qed.

Lemma leave_now_fields c s p :
  pnow (leave_now c s p) = pnow s /\ psvc (leave_now c s p) = psvc s /\ precv (leave_now c s p) = precv s /\
  pdrop (leave_now c s p) = pdrop s /\ pstarted (leave_now c s p) = pstarted s /\ pavg (leave_now c s p) = pavg s.
Proof. unfold leave_now. destruct (c_fix_rate0 c); cbn; auto 10. Qed.

Lemma books_step c s a s' outs : pstep c s a s' outs ->
  let e := (pnow s', a, outs) in
  port_held s ++ map snd (ev_accepted e) = map snd (ev_departures e) ++ port_held s'
  /\ precv s' = (precv s + Z.of_nat (length (ev_puts e)))%Z
  /\ pdrop s' = (pdrop s + Z.of_nat (length (ev_dropped e)))%Z
  /\ ev_puts e = map snd (ev_accepted e) ++ ev_dropped e.
Proof.
  intros H.
  destruct H as [p u a Hpol|p u a Hpol|q Hst Hget|q Hcb|a0 p q Hsvc Hst Htake Hrate|a0 p q q' Hsvc Hst Htake Hrate Hget
                |p dl q' Hsvc Hdl Hget|t Hurg Hlt Hdl|incl]; cbn zeta.
  - unfold ev_accepted, ev_departures, ev_dropped, ev_puts. rewrite stamp_no_drop, stamp_no_forward, stamp_no_dropped.
    cbn [map app length put_accept precv pdrop]. repeat split; try lia.
    unfold port_held. cbn [psvc pq put_accept]. rewrite fifo_held_put, map_app, app_assoc. reflexivity.
  - unfold ev_accepted, ev_departures, ev_dropped, ev_puts. rewrite stamp_drop, stamp_drop_no_forward, stamp_drop_dropped.
    cbn [map app length put_refuse precv pdrop]. repeat split; try lia.
    unfold port_held. cbn [psvc pq put_refuse]. rewrite app_nil_r. reflexivity.
  - cbn. repeat split; try lia. unfold port_held. cbn. rewrite app_nil_r, (fifo_held_get _ _ _ Hget). reflexivity.
  - cbn. repeat split; try lia. unfold port_held. cbn. rewrite app_nil_r, (fifo_held_cb _ _ _ Hcb). reflexivity.
  - cbn. repeat split; try lia. unfold port_held. cbn. rewrite Hsvc, app_nil_r, (fifo_held_take _ _ _ _ Htake). reflexivity.
  - destruct (leave_now_fields c (with_q s q) p) as (E1 & E2 & E3 & E4 & _).
    cbn. rewrite E3, E4. cbn. repeat split; try lia.
    unfold port_held. cbn. rewrite E2. cbn. rewrite Hsvc, app_nil_r, (fifo_held_take _ _ _ _ Htake), (fifo_held_get _ _ _ Hget).
    reflexivity.
  - cbn. repeat split; try lia. unfold port_held. cbn. rewrite Hsvc, app_nil_r, (fifo_held_get _ _ _ Hget). reflexivity.
  - cbn. repeat split; try lia. unfold port_held. cbn. rewrite app_nil_r. reflexivity.
  - unfold sample. destruct incl; cbn; repeat split; try lia; rewrite app_nil_r; reflexivity.
Qed.

Lemma perm_4 (A : Type) (a b c d : list A) : Permutation ((a ++ b) ++ (c ++ d)) ((a ++ c) ++ (b ++ d)).
Proof.
  rewrite <- !app_assoc. apply Permutation_app_head. rewrite !app_assoc.
  apply Permutation_app_tail. apply Permutation_app_comm.
Qed.

Lemma books_run c : forall acts s s' tr, port_run c s acts = Some (s', tr) ->
  port_held s ++ map snd (accepted tr) = forwarded tr ++ port_held s'
  /\ precv s' = (precv s + Z.of_nat (length (puts tr)))%Z
  /\ pdrop s' = (pdrop s + Z.of_nat (length (dropped tr)))%Z
  /\ Permutation (puts tr) (map snd (accepted tr) ++ dropped tr).
Proof.
  induction acts as [|a rest IH]; intros s s' tr H; cbn [port_run] in H.
  - injection H as <- <-. cbn. rewrite app_nil_r. repeat split; try lia. constructor.
  - destruct (port_act c s a) as [[s1 outs]|] eqn:A; [|discriminate].
    destruct (port_run c s1 rest) as [[s2 tr']|] eqn:R; [|discriminate].
    injection H as <- <-. apply port_act_step, books_step in A. cbn zeta in A.
    destruct A as (A1 & A2 & A3 & A4). destruct (IH _ _ _ R) as (B1 & B2 & B3 & B4).
    unfold forwarded. unfold accepted, departures, puts, dropped. cbn [flat_map].
    fold (accepted tr') (departures tr') (puts tr') (dropped tr').
    rewrite !map_app, !app_length. fold (forwarded tr'). repeat split.
    + rewrite app_assoc, A1, <- app_assoc, B1, app_assoc. reflexivity.
    + lia.
    + lia.
    + rewrite A4. eapply Permutation_trans; [apply Permutation_app_head; exact B4|]. apply perm_4.
Qed.

Lemma accepted_le_puts_sub tr : length (accepted tr) = length (map snd (accepted tr)).
Proof. rewrite map_length. reflexivity. Qed.

(* packets_received = accepted + packets_dropped, packets_dropped = number of refusals, in every reachable state *)
Theorem port_counters c t0 acts s tr :
  port_run c (port0 t0) acts = Some (s, tr) ->
  precv s = Z.of_nat (length (puts tr)) /\ pdrop s = Z.of_nat (length (dropped tr)) /\
  precv s = (Z.of_nat (length (accepted tr)) + pdrop s)%Z.
Proof.
  intros H. destruct (books_run c _ _ _ _ H) as (_ & B2 & B3 & B4). cbn in B2, B3.
  apply Permutation_length in B4. rewrite app_length, map_length in B4. repeat split; lia.
Qed.

(* FIFO conservation: accepted = forwarded ++ held, as lists of the very packets *)
Theorem port_fifo_conservation c t0 acts s tr :
  port_run c (port0 t0) acts = Some (s, tr) -> map snd (accepted tr) = forwarded tr ++ port_held s.
Proof. intros H. destruct (books_run c _ _ _ _ H) as (B1 & _). exact B1. Qed.

(* ============================================================================================== *)
(* 6. the advertised byte occupancy is the bytes actually held                                      *)

Lemma sum_sizes_app l1 l2 : sum_sizes (l1 ++ l2) = (sum_sizes l1 + sum_sizes l2)%Z.
Proof.
  induction l1 as [|p l IH]; [reflexivity|].
  rewrite <- app_comm_cons. change (sum_sizes (p :: l ++ l2)) with (psize p + sum_sizes (l ++ l2))%Z.
  change (sum_sizes (p :: l)) with (psize p + sum_sizes l)%Z. rewrite IH. lia.
Qed.

Definition bytes_exact (s : port) : Prop := pbytes s = sum_sizes (port_held s).

Lemma bytes_step c s a s' outs : c_fix_rate0 c = true -> bytes_exact s -> pstep c s a s' outs -> bytes_exact s'.
Proof.
  intros FX B H. unfold bytes_exact in *.
  destruct H as [p u a Hpol|p u a Hpol|q Hst Hget|q Hcb|a0 p q Hsvc Hst Htake Hrate|a0 p q q' Hsvc Hst Htake Hrate Hget
                |p dl q' Hsvc Hdl Hget|t Hurg Hlt Hdl|incl]; unfold port_held in *.
  - cbn. rewrite fifo_held_put, map_app, app_assoc, sum_sizes_app, B. cbn. lia.
  - cbn. exact B.
  - cbn. rewrite (fifo_held_get _ _ _ Hget). exact B.
  - cbn. rewrite (fifo_held_cb _ _ _ Hcb). exact B.
  - cbn. rewrite Hsvc, (fifo_held_take _ _ _ _ Htake) in B. cbn in B. cbn. exact B.
  - unfold leave_now. rewrite FX. cbn. rewrite Hsvc, (fifo_held_take _ _ _ _ Htake) in B. cbn in B.
    rewrite Hsvc, (fifo_held_get _ _ _ Hget). cbn. lia.
  - cbn. rewrite Hsvc in B. cbn in B. rewrite (fifo_held_get _ _ _ Hget). lia.
  - cbn. exact B.
  - exact B.
Qed.

Theorem port_bytes_exact c t0 acts s tr :
  c_fix_rate0 c = true -> port_run c (port0 t0) acts = Some (s, tr) -> pbytes s = sum_sizes (port_held s).
Proof.
  intros FX H.
  apply (run_inv c anyact bytes_exact) with (acts := acts) (s := port0 t0) (tr := tr); auto using Forall_anyact.
  - intros s0 a s1 outs _. apply bytes_step. exact FX.
  - reflexivity.
Qed.

(* ============================================================================================== *)
(* 7. never late, work-conserving, drained                                                          *)

Definition put_nonneg (a : paction) : Prop := match a with PPut p _ => (0 <= psize p)%Z | _ => True end.
Definition nonneg_held (s : port) : Prop := Forall (fun p => (0 <= psize p)%Z) (port_held s).

Lemma nonneg_step c s a s' outs : put_nonneg a -> nonneg_held s -> pstep c s a s' outs -> nonneg_held s'.
Proof.
  intros OK NH H. pose proof (books_step c s a s' outs H) as (E & _). cbn zeta in E. unfold nonneg_held in *.
  assert (F : Forall (fun p => (0 <= psize p)%Z) (port_held s ++ map snd (ev_accepted (pnow s', a, outs)))).
  { apply Forall_app. split; [exact NH|]. destruct a; cbn; try constructor.
    destruct (has_drop outs); cbn; constructor; [exact OK|constructor]. }
  rewrite E in F. apply Forall_app in F as [_ F]. exact F.
Qed.

Lemma tx_nonneg c p : 0 < c_rate c -> (0 <= psize p)%Z -> 0 <= tx c p.
Proof.
  intros R S. unfold tx. apply Qle_shift_div_l; [exact R|]. rewrite Qmult_0_l.
  unfold Qle; cbn. lia.
Qed.

Definition not_late (s : port) : Prop := forall p dl, psvc s = Some (p, dl) -> pnow s <= dl.

Lemma not_late_step c s a s' outs : nonneg_held s -> not_late s -> pstep c s a s' outs -> not_late s'.
Proof.
  intros NH NL H. unfold not_late in *.
  destruct H as [p u a Hpol|p u a Hpol|q Hst Hget|q Hcb|a0 p q Hsvc Hst Htake Hrate|a0 p q q' Hsvc Hst Htake Hrate Hget
                |p dl q' Hsvc Hdl Hget|t Hurg Hlt Hdl|incl];
    cbn [psvc pnow with_svc with_q with_now with_bytes with_started put_accept put_refuse]; auto.
  - assert (S : (0 <= psize p)%Z).
    { unfold nonneg_held, port_held in NH. rewrite Hsvc, (fifo_held_take _ _ _ _ Htake) in NH.
      cbn [app map snd] in NH. exact (Forall_inv NH). }
    pose proof (tx_nonneg c p Hrate S) as TX.
    pose proof (Qred_correct (pnow s + tx c p)) as ER.
    intros p1 dl1 E. assert (E' : dl1 = Qred (pnow s + tx c p)) by congruence. rewrite E'. lra.
  - destruct (leave_now_fields c (with_q s q) p) as (_ & E2 & _). rewrite E2. cbn. rewrite Hsvc. discriminate.
  - discriminate.
Qed.

Record safe_inv (s : port) : Prop := { sf_phase : phase_inv s; sf_nonneg : nonneg_held s; sf_late : not_late s }.

Lemma safe_run c t0 acts s tr :
  Forall put_nonneg acts -> port_run c (port0 t0) acts = Some (s, tr) -> safe_inv s.
Proof.
  intros OK H.
  apply (run_inv c put_nonneg safe_inv) with (acts := acts) (s := port0 t0) (tr := tr); auto.
  - intros s0 a s1 outs Ha [P N L] St. constructor.
    + eapply phase_step; eauto.
    + eapply nonneg_step; eauto.
    + eapply not_late_step; eauto.
  - constructor; [apply phase_init|constructor|intros p dl E; discriminate].
Qed.

Lemma phase_run c t0 acts s tr : port_run c (port0 t0) acts = Some (s, tr) -> phase_inv s.
Proof.
  intros H. apply (run_inv c anyact phase_inv) with (acts := acts) (s := port0 t0) (tr := tr); auto using Forall_anyact, phase_init.
  intros s0 a s1 outs _. apply phase_step.
Qed.

(* a pending transmission deadline is never passed *)
Theorem port_never_late c t0 acts s tr :
  Forall put_nonneg acts -> port_run c (port0 t0) acts = Some (s, tr) ->
  forall p dl, psvc s = Some (p, dl) -> pnow s <= dl.
Proof. intros OK H. apply (sf_late s (safe_run c t0 acts s tr OK H)). Qed.

(* whenever the clock may advance the port is transmitting or holds nothing *)
Theorem port_work_conserving c t0 acts s tr t s' outs :
  port_run c (port0 t0) acts = Some (s, tr) -> port_act c s (PAdvance t) = Some (s', outs) ->
  (exists p dl, psvc s = Some (p, dl) /\ t <= dl) \/ port_held s = [].
Proof.
  intros H A. pose proof (phase_run c t0 acts s tr H) as PH. apply port_act_step in A.
  inversion A as [| | | | | | |t' Hurg Hlt Hdl|]; subst.
  destruct (psvc s) as [[p dl]|] eqn:V.
  - left. exists p, dl. split; [reflexivity|]. eapply Hdl; reflexivity.
  - right. unfold port_held. rewrite V. fold (W s). rewrite (quiet_idle_empty s PH Hurg V). reflexivity.
Qed.

(* nothing enabled and no deadline pending: nothing is held *)
Theorem port_drained c t0 acts s tr :
  port_run c (port0 t0) acts = Some (s, tr) -> purgent s = false -> psvc s = None -> port_held s = [].
Proof.
  intros H U V. pose proof (phase_run c t0 acts s tr H) as PH.
  unfold port_held. rewrite V. fold (W s). rewrite (quiet_idle_empty s PH U V). reflexivity.
Qed.

(* ============================================================================================== *)
(* 8. per-hop stamps                                                                                *)

Definition out_stamp (o : pout) : list (ekey * Q) := match o with OStamp k t => [(k, t)] | _ => [] end.

(* every put() event carries exactly the stamp (key, its own instant) when the port stamps, nothing else does *)
Definition stamp_ok (c : pcfg) (e : pev) : Prop :=
  match e with
  | (t, a, outs) =>
      flat_map out_stamp outs =
      match a, c_stamp c with
      | PPut _ _, Some k => [(k, t)]
      | _, _ => []
      end
  end.

Lemma stamp_step c s a s' outs : pstep c s a s' outs -> stamp_ok c (pnow s', a, outs).
Proof.
  intros H. destruct H; cbn; try reflexivity.
  - unfold stamp_outs. destruct (c_stamp c); reflexivity.
  - unfold stamp_outs. destruct (c_stamp c); reflexivity.
  - unfold sample. destruct incl; reflexivity.
Qed.

Theorem port_perhop_stamp c s0 acts s tr : port_run c s0 acts = Some (s, tr) -> Forall (stamp_ok c) tr.
Proof.
  intros H.
  assert (Hs : forall s1 a s2 outs, True -> pstep c s1 a s2 outs -> True /\ stamp_ok c (pnow s2, a, outs))
    by (intros s1 a s2 outs _ St; split; [exact I|exact (stamp_step _ _ _ _ _ St)]).
  destruct (run_trace_inv c (fun _ => True) (stamp_ok c) Hs acts s0 s tr I H) as [_ HF]. exact HF.
Qed.

(* ============================================================================================== *)
(* 9. PortMonitor samples                                                                           *)

Theorem monitor_samples c t0 acts s tr incl :
  c_fix_rate0 c = true -> c_fix_mon c = true -> port_run c (port0 t0) acts = Some (s, tr) ->
  exists n b, port_act c s (PSample incl) = Some (s, [OSample n b]) /\
    b = (if incl then sum_sizes (port_held s) else sum_sizes (map snd (W s))) /\
    n = (Z.of_nat (length (items (pq s))) + (if incl then busy_flag s else 0))%Z /\
    ((forall x, get (pq s) <> GGranted x) ->
       n = Z.of_nat (length (if incl then port_held s else map snd (W s)))).
Proof.
  intros FX FM H. pose proof (port_bytes_exact c t0 acts s tr FX H) as B.
  cbn [port_act]. rewrite FM. unfold sample.
  assert (EB : sum_sizes (port_held s) = (busy_size s + sum_sizes (map snd (W s)))%Z).
  { unfold port_held, busy_size. fold (W s). destruct (psvc s) as [[p dl]|]; cbn [app]; [|reflexivity]. reflexivity. }
  assert (EN : (forall x, get (pq s) <> GGranted x) ->
               Z.of_nat (length (map snd (W s))) = Z.of_nat (length (items (pq s)))
               /\ Z.of_nat (length (port_held s)) = (Z.of_nat (length (items (pq s))) + busy_flag s)%Z).
  { intros NG. unfold port_held, busy_flag. fold (W s). unfold W. rewrite (sq_held_not_granted _ _ NG).
    rewrite app_length, map_length. destruct (psvc s) as [[p dl]|]; cbn [length]; lia. }
  destruct incl.
  - eexists _, _. split; [reflexivity|]. split; [exact B|]. split; [reflexivity|].
    intros NG. destruct (EN NG) as [_ E2]. lia.
  - eexists _, _. split; [reflexivity|]. split; [lia|]. split; [lia|].
    intros NG. destruct (EN NG) as [E1 _]. lia.
Qed.

(* ============================================================================================== *)
(* 10. the tail-drop rule (Port.put, repaired) and the occupancy bound                              *)

(* the property's refusal condition, on what is ACTUALLY held *)
Definition tail_refuses (qlimit : option Z) (lb : bool) (s : port) (p : pkt) : Prop :=
  match qlimit with
  | None => False
  | Some q => if lb then (sum_sizes (port_held s) + psize p > q)%Z
              else (Z.of_nat (length (items (pq s))) >= q - 1)%Z
  end.

Lemma no_drop_in_stamp c s p : ~ In (ODrop p) (stamp_outs c s).
Proof. unfold stamp_outs. destruct (c_stamp c); cbn; intuition discriminate. Qed.

Lemma tail_policy_inv qlimit lb s p u r a :
  tail_policy true qlimit lb s p u = Some (r, a) ->
  u = None /\ a = pavg s /\ r = match qlimit with None => false | Some q => over_limit lb q s p end.
Proof.
  unfold tail_policy. destruct u; [discriminate|]. destruct qlimit; intros H; injection H as <- <-; auto.
Qed.

Theorem port_drop_iff rate qlimit lb eid t0 acts s tr p u s' outs :
  let c := port_cfg all_fixed rate qlimit lb eid in
  port_run c (port0 t0) acts = Some (s, tr) ->
  port_act c s (PPut p u) = Some (s', outs) ->
  (In (ODrop p) outs <-> tail_refuses qlimit lb s p)
  /\ (In (ODrop p) outs -> pq s' = pq s /\ pbytes s' = pbytes s /\ pdrop s' = (pdrop s + 1)%Z)
  /\ (~ In (ODrop p) outs ->
        pq s' = sq_put fifo_push (pnow s) p (pq s) /\ pbytes s' = (pbytes s + psize p)%Z /\ pdrop s' = pdrop s).
Proof.
  intros c H A.
  pose proof (port_bytes_exact c t0 acts s tr eq_refl H) as B.
  apply port_act_step in A.
  inversion A as [p0 u0 a Hpol|p0 u0 a Hpol| | | | | | |]; subst.
  - (* accepted *)
    cbn [c_policy c port_cfg all_fixed fx_qlimit] in Hpol. apply tail_policy_inv in Hpol as (_ & _ & R).
    assert (ND : ~ In (ODrop p) (stamp_outs c s)) by apply no_drop_in_stamp.
    split; [|split].
    + split; [intros D; contradiction|]. intros T. exfalso. unfold tail_refuses in T.
      destruct qlimit as [q|]; [|exact T]. symmetry in R. unfold over_limit in R. rewrite <- B in T.
      destruct lb; [apply Z.ltb_ge in R|apply Z.leb_gt in R]; lia.
    + intros D; contradiction.
    + intros _. cbn. auto.
  - (* refused *)
    cbn [c_policy c port_cfg all_fixed fx_qlimit] in Hpol. apply tail_policy_inv in Hpol as (_ & _ & R).
    assert (D : In (ODrop p) (stamp_outs c s ++ [ODrop p])) by (apply in_or_app; right; left; reflexivity).
    split; [|split].
    + split; [|intros _; exact D]. intros _. unfold tail_refuses.
      destruct qlimit as [q|]; [|discriminate]. symmetry in R. unfold over_limit in R. rewrite <- B.
      destruct lb; [apply Z.ltb_lt in R|apply Z.leb_le in R]; lia.
    + intros _. cbn. auto.
    + intros ND; contradiction.
Qed.

(* a port without limit never refuses *)
Corollary port_unlimited_never_drops rate lb eid t0 acts s tr p u s' outs :
  let c := port_cfg all_fixed rate None lb eid in
  port_run c (port0 t0) acts = Some (s, tr) -> port_act c s (PPut p u) = Some (s', outs) -> ~ In (ODrop p) outs.
Proof.
  intros c H A D. destruct (port_drop_iff rate None lb eid t0 acts s tr p u s' outs H A) as ((T & _) & _).
  exact (T D).
Qed.

Lemma held_le_items s : phase_inv s -> (length (port_held s) <= S (length (items (pq s))))%nat.
Proof.
  intros [N U I B]. unfold port_held. rewrite app_length, map_length.
  destruct (psvc s) as [[p dl]|] eqn:V.
  - assert (G : get (pq s) = GNone) by (apply B; discriminate). unfold sq_held. rewrite G. cbn. lia.
  - unfold sq_held. destruct (get (pq s)); cbn; lia.
Qed.

Lemma items_get_le (q q' : sq pkt) : sq_get fifo_pop q = Some q' -> (length (items q') <= length (items q))%nat.
Proof.
  intros H. apply fifo_get_inv in H as (_ & _ & [(E & E' & _)|(x & E & _)]); rewrite E; [rewrite E'|]; cbn; lia.
Qed.
Lemma items_cb_le (q q' : sq pkt) : sq_cb fifo_pop q = Some q' -> (length (items q') <= length (items q))%nat.
Proof.
  intros H. apply fifo_cb_inv in H as (_ & [(_ & x & E & _)|(_ & E & _)]); rewrite E; cbn; lia.
Qed.
Lemma items_take_eq (q q' : sq pkt) x : sq_take q = Some (x, q') -> items q' = items q.
Proof. intros H. apply sq_take_inv in H as (_ & E & _). exact E. Qed.

(* the occupancy invariant of the tail-drop port *)
Definition occ_inv (qlimit : option Z) (lb : bool) (s : port) : Prop :=
  match qlimit with
  | None => True
  | Some q =>
      if lb then (pbytes s <= Z.max q 0)%Z
      else (Z.of_nat (length (items (pq s))) <= Z.max (q - 1) 0)%Z /\ ((q <= 1)%Z -> port_held s = [])
  end.

Lemma occ_step rate qlimit lb eid s a s' outs :
  let c := port_cfg all_fixed rate qlimit lb eid in
  nonneg_held s -> occ_inv qlimit lb s -> pstep c s a s' outs -> occ_inv qlimit lb s'.
Proof.
  intros c NH O H. unfold occ_inv in *. destruct qlimit as [q|]; [|exact I].
  pose proof (books_step c s a s' outs H) as (EH & _). cbn zeta in EH.
  destruct H as [p u a Hpol|p u a Hpol|q0 Hst Hget|q0 Hcb|a0 p q0 Hsvc Hst Htake Hrate|a0 p q0 q' Hsvc Hst Htake Hrate Hget
                |p dl q' Hsvc Hdl Hget|t Hurg Hlt Hdl|incl].
  - (* accepted *)
    cbn [c_policy c port_cfg all_fixed fx_qlimit] in Hpol. apply tail_policy_inv in Hpol as (_ & _ & R).
    symmetry in R. unfold over_limit in R. destruct lb.
    + apply Z.ltb_ge in R. cbn. lia.
    + apply Z.leb_gt in R. destruct O as [O1 O2]. cbn [pq put_accept sq_put items]. unfold fifo_push.
      rewrite app_length. cbn [length]. split; [lia|]. intros Q1. lia.
  - (* refused *)
    destruct lb; [exact O|]. destruct O as [O1 O2]. split; [exact O1|]. intros Q1. specialize (O2 Q1).
    unfold ev_accepted, ev_departures in EH. rewrite stamp_drop, stamp_drop_no_forward in EH. cbn [map app] in EH.
    rewrite app_nil_r in EH. rewrite <- EH. exact O2.
  - destruct lb; [exact O|]. destruct O as [O1 O2]. cbn [pq with_q]. pose proof (items_get_le _ _ Hget). split; [cbn in *; lia|].
    intros Q1. specialize (O2 Q1). cbn [ev_accepted ev_departures flat_map out_forward map app snd] in EH. rewrite app_nil_r in EH. rewrite <- EH. exact O2.
  - destruct lb; [exact O|]. destruct O as [O1 O2]. cbn [pq with_q]. pose proof (items_cb_le _ _ Hcb). split; [lia|].
    intros Q1. specialize (O2 Q1). cbn [ev_accepted ev_departures flat_map out_forward map app snd] in EH. rewrite app_nil_r in EH. rewrite <- EH. exact O2.
  - destruct lb; [exact O|]. destruct O as [O1 O2]. cbn [pq with_q with_svc]. rewrite (items_take_eq _ _ _ Htake). split; [exact O1|].
    intros Q1. specialize (O2 Q1). cbn [ev_accepted ev_departures flat_map out_forward map app snd] in EH. rewrite app_nil_r in EH. rewrite <- EH. exact O2.
  - (* forwarded at once *)
    assert (S : (0 <= psize p)%Z).
    { unfold nonneg_held, port_held in NH. rewrite Hsvc, (fifo_held_take _ _ _ _ Htake) in NH.
      cbn [app map snd] in NH. exact (Forall_inv NH). }
    destruct lb.
    + unfold leave_now. cbn [c_fix_rate0 c port_cfg all_fixed fx_rate0]. cbn. lia.
    + destruct O as [O1 O2]. cbn [pq with_q]. pose proof (items_get_le _ _ Hget) as L.
      rewrite <- (items_take_eq _ _ _ Htake) in O1. split; [lia|].
      intros Q1. specialize (O2 Q1). cbn [ev_accepted ev_departures flat_map out_forward map app snd] in EH. rewrite app_nil_r in EH. rewrite O2 in EH. discriminate.
  - (* transmission ends *)
    assert (S : (0 <= psize p)%Z).
    { unfold nonneg_held, port_held in NH. rewrite Hsvc in NH. cbn [app] in NH. exact (Forall_inv NH). }
    destruct lb.
    + cbn. lia.
    + destruct O as [O1 O2]. cbn [pq with_q with_bytes with_svc]. pose proof (items_get_le _ _ Hget) as L. split; [lia|].
      intros Q1. specialize (O2 Q1). cbn [ev_accepted ev_departures flat_map out_forward map app snd] in EH. rewrite app_nil_r in EH. rewrite O2 in EH. discriminate.
  - exact O.
  - exact O.
Qed.

(* occupancy never exceeds the limit: bytes held <= qlimit in byte mode; packets held (waiting, travelling to
   the server, in transmission) <= qlimit in packet mode (qlimit - 1 waiting + the reserved place) *)
Theorem port_occupancy_le_limit rate q lb eid t0 acts s tr :
  let c := port_cfg all_fixed rate (Some q) lb eid in
  Forall put_nonneg acts -> port_run c (port0 t0) acts = Some (s, tr) ->
  if lb then (sum_sizes (port_held s) <= Z.max q 0)%Z
  else (Z.of_nat (length (items (pq s))) <= Z.max (q - 1) 0)%Z /\ (Z.of_nat (length (port_held s)) <= Z.max q 0)%Z.
Proof.
  intros c OK H.
  assert (INV : safe_inv s /\ occ_inv (Some q) lb s).
  { apply (run_inv c put_nonneg (fun x => safe_inv x /\ occ_inv (Some q) lb x)) with (acts := acts) (s := port0 t0) (tr := tr); auto.
    - intros s0 a s1 outs Ha [[P N L] O] St. split.
      + constructor; [eapply phase_step; eauto|eapply nonneg_step; eauto|eapply not_late_step; eauto].
      + eapply occ_step; eauto.
    - split.
      + constructor; [apply phase_init|constructor|intros p dl E; discriminate].
      + unfold occ_inv. destruct lb; cbn; [lia|]. split; [lia|reflexivity]. }
  destruct INV as [[P N L] O]. unfold occ_inv in O. destruct lb.
  - rewrite <- (port_bytes_exact c t0 acts s tr eq_refl H). exact O.
  - destruct O as [O1 O2]. split; [exact O1|].
    destruct (Z_le_gt_dec q 1) as [Q1|Q1].
    + rewrite (O2 Q1). cbn. lia.
    + pose proof (held_le_items s P). lia.
Qed.

(* ============================================================================================== *)
(* 11. conservation as C08 states it                                                                *)

Inductive subseq {A : Type} : list A -> list A -> Prop :=
| sub_nil : subseq [] []
| sub_take x l1 l2 : subseq l1 l2 -> subseq (x :: l1) (x :: l2)
| sub_skip x l1 l2 : subseq l1 l2 -> subseq l1 (x :: l2).

Lemma subseq_refl (A : Type) (l : list A) : subseq l l.
Proof. induction l; constructor; auto. Qed.
Lemma subseq_nil_l (A : Type) (l : list A) : subseq [] l.
Proof. induction l; constructor; auto. Qed.
Lemma subseq_app (A : Type) (l1 l2 m1 m2 : list A) : subseq l1 l2 -> subseq m1 m2 -> subseq (l1 ++ m1) (l2 ++ m2).
Proof. intros H1 H2. induction H1; cbn; auto; constructor; auto. Qed.
Lemma subseq_trans (A : Type) (l1 l2 l3 : list A) : subseq l1 l2 -> subseq l2 l3 -> subseq l1 l3.
Proof.
  intros H12 H23. revert l1 H12. induction H23 as [|x l2 l3 H IH|x l2 l3 H IH]; intros l1 H12.
  - exact H12.
  - inversion H12; subst; constructor; auto.
  - constructor. auto.
Qed.
Lemma subseq_filter (A : Type) (f : A -> bool) (l1 l2 : list A) : subseq l1 l2 -> subseq (filter f l1) (filter f l2).
Proof. intros H. induction H; cbn; [constructor| |]; destruct (f x); try constructor; auto. Qed.
Lemma subseq_prefix (A : Type) (l r : list A) : subseq l (l ++ r).
Proof. rewrite <- (app_nil_r l) at 1. apply subseq_app; [apply subseq_refl|apply subseq_nil_l]. Qed.

Lemma accepted_subseq_puts tr : subseq (map snd (accepted tr)) (puts tr).
Proof.
  induction tr as [|[[t a] outs] tr IH]; [constructor|].
  unfold accepted, puts. cbn [flat_map]. fold (accepted tr) (puts tr). rewrite map_app.
  apply subseq_app; [|exact IH].
  destruct a as [p u| | | | |t'|incl]; cbn.
  1: destruct (has_drop outs); cbn; [apply sub_skip, sub_nil|apply sub_take, sub_nil].
  all: constructor.
Qed.

(* put-in = forwarded + refused + held, as multisets of the very packets; refusals are the counted drops *)
Theorem port_conserves c t0 acts s tr :
  port_run c (port0 t0) acts = Some (s, tr) ->
  Permutation (puts tr) (forwarded tr ++ dropped tr ++ port_held s)
  /\ pdrop s = Z.of_nat (length (dropped tr))
  /\ map snd (accepted tr) = forwarded tr ++ port_held s.
Proof.
  intros H. destruct (books_run c _ _ _ _ H) as (B1 & _ & B3 & B4). cbn in B1, B3.
  split; [|split; [lia|exact B1]].
  eapply Permutation_trans; [exact B4|]. rewrite B1, <- app_assoc.
  apply Permutation_app_head. apply Permutation_app_comm.
Qed.

(* packets of one flow leave in the order in which they were put in *)
Theorem port_flow_fifo c t0 acts s tr (f : pkt -> bool) :
  port_run c (port0 t0) acts = Some (s, tr) ->
  subseq (filter f (forwarded tr)) (filter f (puts tr))
  /\ exists rest, filter f (map snd (accepted tr)) = filter f (forwarded tr) ++ rest.
Proof.
  intros H. pose proof (port_fifo_conservation c t0 acts s tr H) as E. split.
  - apply subseq_filter. eapply subseq_trans; [|apply accepted_subseq_puts]. rewrite E. apply subseq_prefix.
  - exists (filter f (port_held s)). rewrite E, filter_app. reflexivity.
Qed.

(* ============================================================================================== *)
(* 12. the stamp theorem in terms of the configured element id                                      *)

Definition stamped_as (eid : ekey) (e : pev) : Prop :=
  match e with
  | (t, PPut _ _, outs) => flat_map out_stamp outs = match eid with Some _ => [(eid, t)] | None => [] end
  | (_, _, outs) => flat_map out_stamp outs = []
  end.

Theorem port_perhop_stamp_eid rate qlimit lb eid s0 acts s tr :
  port_run (port_cfg all_fixed rate qlimit lb eid) s0 acts = Some (s, tr) -> Forall (stamped_as eid) tr.
Proof.
  intros H. eapply Forall_impl; [|eapply port_perhop_stamp; exact H].
  intros [[t a] outs] E. unfold stamp_ok in E. unfold stamped_as.
  cbn [c_stamp port_cfg all_fixed fx_stamp stamp_key] in E.
  destruct a; try exact E. destruct eid; exact E.
Qed.

(* ============================================================================================== *)
(* 13. non-vacuity: a concrete admissible execution (burst of four at a packet limit of 3, a fifth packet
       arriving exactly at the first departure), and the refutations of the code as found             *)

Definition exP (u : nat) (f sz : Z) (t : Q) : pkt := mkp u (Z.of_nat u + 1) f sz t.

Definition ex_cfg : pcfg := port_cfg all_fixed 64 (Some 3%Z) false (Some 1%Z).
Definition ex_acts : list paction :=
  [PInit; PPut (exP 0 0 8 0) None; PPut (exP 1 1 8 0) None; PPut (exP 2 0 16 0) None; PPut (exP 3 1 8 0) None;
   PStoreCb; PStoreCb; PGet; PAdvance 1; PPut (exP 4 0 8 1) None; PTimer; PStoreCb; PGet; PAdvance 2; PTimer; PGet;
   PAdvance 3; PTimer].

Definition summary (r : port * list pev) :=
  (map (fun x => (fst x, uid (snd x))) (departures (snd r)), map uid (dropped (snd r)),
   map (fun x => (fst x, uid (snd x))) (accepted (snd r)), (precv (fst r), pdrop (fst r), pbytes (fst r)), port_held (fst r)).

Example port_example :
  option_map summary (port_run ex_cfg (port0 0) ex_acts)
  = Some ([(1, 0%nat); (2, 1%nat); (3, 4%nat)], [2%nat; 3%nat], [(0, 0%nat); (0, 1%nat); (1, 4%nat)], (5, 2, 0)%Z, []).
Proof. vm_compute. reflexivity. Qed.

Example port_example_recurrence :
  dep_spec (txe ex_cfg) [(0, exP 0 0 8 0); (0, exP 1 1 8 0); (1, exP 4 0 8 1)]
  = [(0 + txe ex_cfg (exP 0 0 8 0), exP 0 0 8 0);
     (Qmax 0 (0 + txe ex_cfg (exP 0 0 8 0)) + txe ex_cfg (exP 1 1 8 0), exP 1 1 8 0);
     (Qmax 1 (Qmax 0 (0 + txe ex_cfg (exP 0 0 8 0)) + txe ex_cfg (exP 1 1 8 0)) + txe ex_cfg (exP 4 0 8 1), exP 4 0 8 1)]
  /\ map (fun x => Qred (fst x)) (dep_spec (txe ex_cfg) [(0, exP 0 0 8 0); (0, exP 1 1 8 0); (1, exP 4 0 8 1)]) = [1; 2; 3].
Proof. split; [reflexivity|vm_compute; reflexivity]. Qed.

(* rate 0: every packet leaves at its arrival instant and byte_size returns to 0 *)
Example port_example_rate0 :
  option_map summary
    (port_run (port_cfg all_fixed 0 (Some 20%Z) true (Some 1%Z)) (port0 0)
       [PInit; PPut (exP 0 0 8 0) None; PPut (exP 1 1 8 0) None; PPut (exP 2 0 16 0) None; PStoreCb; PStoreCb; PGet; PGet;
        PAdvance 1; PPut (exP 4 0 8 1) None; PStoreCb; PGet])
  = Some ([(0, 0%nat); (0, 1%nat); (1, 4%nat)], [2%nat], [(0, 0%nat); (0, 1%nat); (1, 4%nat)], (4, 1, 0)%Z, []).
Proof. vm_compute. reflexivity. Qed.

(* a monitored port: one packet in transmission (4 bytes), one waiting (4 bytes) *)
Definition mon_acts : list paction :=
  [PInit; PAdvance 1; PPut (exP 0 0 4 1) None; PPut (exP 1 0 4 1) None; PStoreCb; PStoreCb; PGet; PAdvance 2].

Definition sample_of (c : pcfg) (incl : bool) (r : port * list pev) : list pout :=
  match port_act c (fst r) (PSample incl) with Some (_, o) => o | None => [] end.

Example monitor_example :
  let c := port_cfg all_fixed 8 (Some 4%Z) false (Some 1%Z) in
  option_map (fun r => (sample_of c true r, sample_of c false r)) (port_run c (port0 0) mon_acts)
  = Some ([OSample 2 8], [OSample 1 4]).
Proof. vm_compute. reflexivity. Qed.

(* ---- the code as found (one repair withheld at a time) violates the statements ---- *)
Definition without_qlimit_fix : fixes := {| fx_qlimit := false; fx_stamp := true; fx_rate0 := true; fx_mon := true |}.
Definition without_stamp_fix : fixes := {| fx_qlimit := true; fx_stamp := false; fx_rate0 := true; fx_mon := true |}.
Definition without_rate0_fix : fixes := {| fx_qlimit := true; fx_stamp := true; fx_rate0 := false; fx_mon := true |}.
Definition without_mon_fix : fixes := {| fx_qlimit := true; fx_stamp := true; fx_rate0 := true; fx_mon := false |}.

(* `if self.qlimit:` : a packet is accepted although qlimit - 1 = 1 packet is already waiting *)
Lemma port_drop_rule_refuted_unfixed :
  exists acts s tr p s' outs,
    let c := port_cfg without_qlimit_fix 64 (Some 2%Z) false (Some 1%Z) in
    port_run c (port0 0) acts = Some (s, tr) /\ port_act c s (PPut p None) = Some (s', outs) /\
    ~ In (ODrop p) outs /\ tail_refuses (Some 2%Z) false s p.
Proof.
  exists [PInit; PPut (exP 0 0 8 0) None]. eexists. eexists. exists (exP 1 0 8 0). eexists. eexists.
  cbn zeta. split; [lazy; reflexivity|]. split; [lazy; reflexivity|]. split.
  - intros [H|[]]. discriminate.
  - cbn. lia.
Qed.

(* ... and qlimit = None is not "never refused" but a TypeError: the call is not even admissible *)
Lemma port_unlimited_raises_unfixed :
  forall rate lb eid s p, port_act (port_cfg without_qlimit_fix rate None lb eid) s (PPut p None) = None.
Proof. reflexivity. Qed.

(* rate 0: byte_size is never decremented *)
Lemma port_bytes_exact_refuted_unfixed :
  exists acts s tr,
    port_run (port_cfg without_rate0_fix 0 (Some 100%Z) true (Some 1%Z)) (port0 0) acts = Some (s, tr) /\
    port_held s = [] /\ pbytes s = 10%Z.
Proof.
  exists [PInit; PPut (exP 0 0 10 0) None; PStoreCb; PGet]. eexists. eexists.
  split; [lazy; reflexivity|]. split; reflexivity.
Qed.

(* `if not self.element_id:` : a port with an element id stamps nothing *)
Lemma port_perhop_stamp_refuted_unfixed :
  exists acts s tr,
    port_run (port_cfg without_stamp_fix 64 None false (Some 1%Z)) (port0 0) acts = Some (s, tr) /\
    ~ Forall (stamped_as (Some 1%Z)) tr.
Proof.
  exists [PPut (exP 0 0 8 0) None]. eexists. eexists. split; [lazy; reflexivity|].
  intros H. inversion H as [|e l He Hl]; subst. cbn in He. discriminate.
Qed.

(* PortMonitor: the packet in transmission is counted twice when included, once when excluded *)
Lemma monitor_samples_refuted_unfixed :
  exists acts s tr,
    let c := port_cfg without_mon_fix 8 (Some 4%Z) false (Some 1%Z) in
    port_run c (port0 0) acts = Some (s, tr) /\ sum_sizes (port_held s) = 8%Z /\
    port_act c s (PSample true) = Some (s, [OSample 2 12]) /\ port_act c s (PSample false) = Some (s, [OSample 1 8]).
Proof.
  exists mon_acts. eexists. eexists. cbn zeta. split; [lazy; reflexivity|]. split; [reflexivity|]. split; reflexivity.
Qed.

(* ============================================================================================== *)
(* 14. rate 0 (no serialisation delay): every accepted packet leaves at its arrival instant         *)

Fixpoint sorted_from (t : Q) (l : list (Q * pkt)) : Prop :=
  match l with [] => True | (a, _) :: r => t <= a /\ sorted_from a r end.

Lemma sorted_from_weaken t t' l : t' <= t -> sorted_from t l -> sorted_from t' l.
Proof. destruct l as [|[a p] r]; cbn; [auto|]. intros L [H1 H2]. split; [lra|exact H2]. Qed.

Lemma accepted_sorted c : forall acts s s' tr, port_run c s acts = Some (s', tr) -> sorted_from (pnow s) (accepted tr).
Proof.
  induction acts as [|a rest IH]; intros s s' tr H; cbn [port_run] in H.
  - injection H as <- <-. exact I.
  - destruct (port_act c s a) as [[s1 outs]|] eqn:A; [|discriminate].
    destruct (port_run c s1 rest) as [[s2 tr']|] eqn:R; [|discriminate].
    injection H as <- <-. pose proof (step_time_mono _ _ _ _ _ (port_act_step _ _ _ _ _ A)) as L.
    specialize (IH _ _ _ R). unfold accepted. cbn [flat_map]. fold (accepted tr').
    assert (W0 : sorted_from (pnow s) (accepted tr')) by (eapply sorted_from_weaken; eauto).
    destruct a; cbn [ev_accepted app]; try exact W0.
    destruct (has_drop outs); cbn [app]; [exact W0|]. split; [exact L|exact IH].
Qed.

Lemma dep_from_zero f : (forall p, f p == 0) ->
  forall l F, sorted_from F l -> tl_eq (dep_from f F l) l.
Proof.
  intros Z0. induction l as [|[a p] r IH]; intros F S; cbn [dep_from].
  - constructor.
  - destruct S as [S1 S2].
    assert (E : Qmax a F + f p == a) by (rewrite (Q.max_l a F S1), Z0; lra).
    constructor; [split; [exact E|reflexivity]|].
    eapply tl_eq_trans; [apply dep_from_proper; exact E|]. apply IH. exact S2.
Qed.

Theorem port_rate0_departs_at_arrival c t0 acts s tr :
  c_rate c <= 0 -> port_run c (port0 t0) acts = Some (s, tr) ->
  exists rest, tl_eq (accepted tr) (departures tr ++ rest) /\ map snd rest = port_held s.
Proof.
  intros R H. destruct (port_departure_recurrence c t0 acts s tr H) as (rest & E & EH).
  exists rest. split; [|exact EH]. eapply tl_eq_trans; [|exact E]. apply tl_eq_sym.
  assert (Z0 : forall p, txe c p == 0).
  { intros p. unfold txe. destruct (Qlt_le_dec 0 (c_rate c)) as [L|L]; [lra|reflexivity]. }
  pose proof (accepted_sorted c acts _ _ _ H) as S. cbn [pnow port0] in S.
  destruct (accepted tr) as [|[a p] r]; cbn [dep_spec]; [constructor|]. destruct S as [S1 S2].
  assert (E0 : a + txe c p == a) by (rewrite Z0; lra).
  constructor; [split; [exact E0|reflexivity]|].
  eapply tl_eq_trans; [apply dep_from_proper; exact E0|]. apply dep_from_zero; assumption.
Qed.
