(* Model of onl/netdev/wire.py : Wire (put + the run() server process) as a timed automaton with
   urgent internal micro-steps (DESIGN.md 2.4).  Executable; proofs are in WireProofs.v.

   Actions (what the harness observes of the real execution, one per kernel step or put() call):
     WPut p        wire.put(p) called by the upstream element
     WInit         the kernel processes the Initialize event of run(): the server reaches its first store.get()
     WStoreCb      the kernel processes a StorePut event of the wire's store
     WGet u d      the kernel processes the granted StoreGet: run() resumes with a packet, draws
                   u = random.uniform(0,1) (only when loss_rate is truthy) and, if the packet is not
                   lost, d = delay_dist(); forwards at once or starts the propagation timeout
     WTimer        the kernel processes the propagation timeout: run() forwards the packet
     WAdvance t    the clock moves to t (only when nothing is due at the current instant) *)
From Coq Require Import ZArith QArith Qminmax List Bool.
From ONL Require Import Elem.Packet Elem.StoreQ.
Import ListNotations.

Inductive waction :=
| WPut (p : pkt) | WInit | WStoreCb | WGet (u d : option Q) | WTimer | WAdvance (t : Q).

Inductive wout := ODeliver (p : pkt) | OLost (p : pkt).

Record wire := {
  wnow : Q;
  wq : sq pkt;                      (* the Store; items are (instant of put = packet.current_time, packet) *)
  started : bool;                   (* Initialize processed *)
  hold : option (pkt * Q);          (* packet propagating and the instant its timeout is due *)
  nrec : Z                          (* packets_rec *)
}.

Definition wire0 (t0 : Q) : wire :=
  {| wnow := t0; wq := sq0; started := false; hold := None; nrec := 0 |}.

(* `not self.loss_rate` : None and 0 are falsy *)
Definition loss_on (loss : option Q) : option Q :=
  match loss with
  | None => None
  | Some r => if Qeq_bool r 0 then None else Some r
  end.

(* is the packet lost?  None = the draws do not fit the configuration *)
Definition lost_dec (loss : option Q) (u : option Q) : option bool :=
  match loss_on loss, u with
  | None, None => Some false
  | Some r, Some x => Some (negb (Qle_bool r x))      (* kept iff uniform >= loss_rate *)
  | _, _ => None
  end.

Definition with_q (w : wire) (q : sq pkt) : wire :=
  {| wnow := wnow w; wq := q; started := started w; hold := hold w; nrec := nrec w |}.

(* the server loops back to `packet = yield self.store.get()` *)
Definition server_get (w : wire) : option wire :=
  match sq_get fifo_pop (wq w) with
  | Some q => Some (with_q w q)
  | None => None
  end.

Definition timer_due (w : wire) : bool :=
  match hold w with Some (_, dl) => Qeq_bool dl (wnow w) | None => false end.

Definition wurgent (w : wire) : bool :=
  negb (started w) || sq_urgent (wq w) || timer_due w.

Definition wire_act (loss : option Q) (w : wire) (a : waction) : option (wire * list wout) :=
  match a with
  | WPut p =>
      Some ({| wnow := wnow w; wq := sq_put fifo_push (wnow w) p (wq w); started := started w;
               hold := hold w; nrec := (nrec w + 1)%Z |}, [])
  | WInit =>
      if started w then None
      else match server_get {| wnow := wnow w; wq := wq w; started := true; hold := hold w; nrec := nrec w |} with
           | Some w' => Some (w', [])
           | None => None
           end
  | WStoreCb =>
      match sq_cb fifo_pop (wq w) with
      | Some q => Some (with_q w q, [])
      | None => None
      end
  | WGet u d =>
      match hold w, sq_take (wq w) with
      | None, Some ((a0, p), q) =>
          if negb (started w) then None else
          let w1 := with_q w q in
          match lost_dec loss u, d with
          | Some true, None =>
              match server_get w1 with Some w2 => Some (w2, [OLost p]) | None => None end
          | Some false, Some dd =>
              let queued := wnow w - a0 in
              if Qlt_le_dec queued dd then
                (* yield env.timeout(delay - queued_time) *)
                Some ({| wnow := wnow w1; wq := wq w1; started := started w1;
                         hold := Some (p, wnow w + (dd - queued)); nrec := nrec w1 |}, [])
              else
                match server_get w1 with Some w2 => Some (w2, [ODeliver p]) | None => None end
          | _, _ => None
          end
      | _, _ => None
      end
  | WTimer =>
      match hold w with
      | Some (p, dl) =>
          if Qeq_bool dl (wnow w) then
            match server_get {| wnow := wnow w; wq := wq w; started := started w; hold := None; nrec := nrec w |} with
            | Some w2 => Some (w2, [ODeliver p])
            | None => None
            end
          else None
      | None => None
      end
  | WAdvance t =>
      if wurgent w then None
      else if Qlt_le_dec (wnow w) t then
        let w' := {| wnow := t; wq := wq w; started := started w; hold := hold w; nrec := nrec w |} in
        match hold w with
        | Some (_, dl) => if Qle_bool t dl then Some (w', []) else None
        | None => Some (w', [])
        end
      else None
  end.

(* an execution: every action must be enabled (admissible); the trace pairs each action with the
   instant at which it happened and with what it emitted *)
Definition tev := (Q * waction * list wout)%type.

Fixpoint wire_run (loss : option Q) (w : wire) (acts : list waction) : option (wire * list tev) :=
  match acts with
  | [] => Some (w, [])
  | a :: rest =>
      match wire_act loss w a with
      | None => None
      | Some (w', outs) =>
          match wire_run loss w' rest with
          | None => None
          | Some (w'', tr) => Some (w'', (wnow w', a, outs) :: tr)
          end
      end
  end.

(* index of the first action that is not admissible (diagnosis), or None *)
Fixpoint wire_stuck (loss : option Q) (w : wire) (acts : list waction) (i : nat) : option nat :=
  match acts with
  | [] => None
  | a :: rest =>
      match wire_act loss w a with
      | None => Some i
      | Some (w', _) => wire_stuck loss w' rest (S i)
      end
  end.

(* ---- comparison with an observed execution (correspondence) -------------------------------- *)
Definition wout_eqb (a b : wout) : bool :=
  match a, b with
  | ODeliver p, ODeliver q => pkt_eqb p q
  | OLost p, OLost q => pkt_eqb p q
  | _, _ => false
  end.

Fixpoint outs_eqb (a b : list wout) : bool :=
  match a, b with
  | [], [] => true
  | x :: s, y :: t => wout_eqb x y && outs_eqb s t
  | _, _ => false
  end.

(* a loss is not observable from outside the wire: only deliveries are compared *)
Definition deliveries (l : list wout) : list wout :=
  filter (fun o => match o with ODeliver _ => true | OLost _ => false end) l.

(* observed: per action, the outputs seen and (packets_rec, len(store.items)) after it *)
Fixpoint wire_agree (loss : option Q) (w : wire) (obs : list (waction * list wout * (Z * nat))) : bool :=
  match obs with
  | [] => true
  | (a, outs, (r, n)) :: rest =>
      match wire_act loss w a with
      | None => false
      | Some (w', outs') =>
          outs_eqb (deliveries outs') outs && Z.eqb (nrec w') r && Nat.eqb (length (items (wq w'))) n
          && wire_agree loss w' rest
      end
  end.

(* ---- the property's recurrence (specification side; executable) ----------------------------- *)
(* What the trace of an execution says about arrivals, draws, deliveries, losses, dequeue instants. *)
Definition arrivals (tr : list tev) : list (Q * pkt) :=
  flat_map (fun e : tev => match e with (t, WPut p, _) => [(t, p)] | _ => [] end) tr.
Definition draws (tr : list tev) : list (option Q * option Q) :=
  flat_map (fun e : tev => match e with (_, WGet u d, _) => [(u, d)] | _ => [] end) tr.
Definition tgets (tr : list tev) : list Q :=
  flat_map (fun e : tev => match e with (t, WGet _ _, _) => [t] | _ => [] end) tr.
Definition tdeliv (tr : list tev) : list (Q * pkt) :=
  flat_map (fun e : tev => match e with
            (t, _, outs) => flat_map (fun o => match o with ODeliver p => [(t, p)] | OLost _ => [] end) outs end) tr.
Definition tlost (tr : list tev) : list (Q * pkt) :=
  flat_map (fun e : tev => match e with
            (t, _, outs) => flat_map (fun o => match o with OLost p => [(t, p)] | ODeliver _ => [] end) outs end) tr.

Inductive fate := Lost | Deliv (T : Q).

(* delivery instant of a kept packet dequeued at s that arrived at a and drew delay dd *)
Definition deliver_at (s a dd : Q) : Q := if Qlt_le_dec (s - a) dd then a + dd else s.

(* one packet: F = instant the server finished the previous packet, a = arrival, (u, d) = its draws.
   Result: (dequeue instant s = max(a, F), fate).  None = the draws do not fit the configuration. *)
Definition rec_step (loss : option Q) (F a : Q) (u d : option Q) : option (Q * fate) :=
  let s := Qmax a F in
  match lost_dec loss u, d with
  | Some true, None => Some (s, Lost)
  | Some false, Some dd => Some (s, Deliv (deliver_at s a dd))
  | _, _ => None
  end.

Record outcome := { o_pkt : pkt; o_arr : Q; o_start : Q; o_fate : fate }.
(* the instant the server is free again *)
Definition o_fin (o : outcome) : Q := match o_fate o with Lost => o_start o | Deliv T => T end.
Definition o_ap (o : outcome) : Q * pkt := (o_arr o, o_pkt o).

(* F_0 = t0; packet k (k-th arrival, k-th pair of draws): s_k = max(a_k, F_{k-1}); lost => F_k = s_k;
   kept => delivered at T_k = deliver_at s_k a_k d_k and F_k = T_k.  One outcome per pair of draws. *)
Fixpoint wire_rec (loss : option Q) (F : Q) (arr : list (Q * pkt)) (dr : list (option Q * option Q))
  {struct dr} : option (list outcome) :=
  match dr, arr with
  | [], _ => Some []
  | _ :: _, [] => None
  | (u, d) :: dr', (a, p) :: arr' =>
      match rec_step loss F a u d with
      | None => None
      | Some (s, f) =>
          let o := {| o_pkt := p; o_arr := a; o_start := s; o_fate := f |} in
          match wire_rec loss (o_fin o) arr' dr' with
          | Some R => Some (o :: R)
          | None => None
          end
      end
  end.

Definition exp_deliv (R : list outcome) : list (Q * pkt) :=
  flat_map (fun o => match o_fate o with Deliv T => [(T, o_pkt o)] | Lost => [] end) R.
Definition exp_lost (R : list outcome) : list (Q * pkt) :=
  flat_map (fun o => match o_fate o with Lost => [(o_start o, o_pkt o)] | Deliv _ => [] end) R.

(* what the wire holds: the packet propagating and everything in the store (incl. a granted get) *)
Definition wheld (w : wire) : list pkt :=
  match hold w with Some (p, _) => [p] | None => [] end ++ map snd (sq_held (wq w)).

(* ---- correspondence under late configuration ------------------------------------------------ *)
(* loss_rate is a public attribute that run() reads every time it takes a packet; an observed execution may
   therefore carry, per action, the value in force when the action happened. *)
Fixpoint wire_agree_cfg (w : wire) (obs : list (option Q * (waction * list wout * (Z * nat)))) : bool :=
  match obs with
  | [] => true
  | (loss, (a, outs, (r, n))) :: rest =>
      match wire_act loss w a with
      | None => false
      | Some (w', outs') =>
          outs_eqb (deliveries outs') outs && Z.eqb (nrec w') r && Nat.eqb (length (items (wq w'))) n
          && wire_agree_cfg w' rest
      end
  end.
