(* Bridging lemmas for the GENERATOR body Scheduler.send_packet (second tie, generator bodies: vlib/translate_gen.py) -- the
   child process every multi-queue scheduler (SP, RR, WRR) starts for each packet it serves.
   Gen/Extracted_sendpacket_run.v is regenerated from the tree under test on every run: send_packet cut at its yield into
     gen_Scheduler_send_packet_from_0   entry: current_packet = packet, `yield self.env.timeout(packet.size * 8.0 / self.rate)`
     gen_Scheduler_send_packet_from_1   resumed after the transmission: queue_count / queue_byte_size of the packet's flow
                                        decremented, out.put(packet), current_packet = None, end of the generator
   Here they get their meaning in the hand-written automaton (Elem/SchedBase.v) and the micro-steps SChildInit / SChildTimer
   are proved to be EXACTLY the generated functions, for all states and configurations. *)
From Coq Require Import ZArith QArith List Bool.
From ONL Require Import Elem.Packet Elem.StoreQ Elem.SchedBase Gen.Extracted_sendpacket_run.
Import ListNotations.

Definition sendp_fields (s : mq) : sendp_st := {| sd_queue_count := mqc s; sd_queue_byte_size := mqb s |}.

(* effects in order: the assignments to current_packet, and out.put(packet) = the packet is forwarded *)
Fixpoint sendp_fx_run (p : pkt) (cur : option pkt) (fx : list sendp_fx) : option pkt * list sout :=
  match fx with
  | [] => (cur, [])
  | FxSetCurrent :: t => sendp_fx_run p (Some p) t
  | FxClearCurrent :: t => sendp_fx_run p None t
  | FxOutPut _ _ :: t => let r := sendp_fx_run p cur t in (fst r, OForward p :: snd r)
  end.

(* the child's next request as its state in the automaton: `yield timeout(d)` at point 1 = transmitting until now + d -- the
   automaton keeps that deadline in the form now + 8 * size / rate, so d must equal (==) that duration --; the end of the
   generator = ended (its Process event pending).  The ghost output OStart marks the start of the transmission. *)
Definition sendp_step (c : mq_cfg) (s : mq) (p : pkt) (g : sendp_st * list sendp_fx * sendp_next) : option (mq * list sout) :=
  match g with
  | (f, fx, n) =>
      let r := sendp_fx_run p (mcur s) fx in
      let mk (ch : child_st) :=
        {| mnow := mnow s; mstores := mstores s; mtok := mtok s; mqc := sd_queue_count f; mqb := sd_queue_byte_size f;
           (* total_packets is the sum of queue_count: it moves by what the count of the packet's flow moved by *)
           mtotal := (mtotal s + (sd_queue_count f (flow p) - mqc s (flow p)))%Z;
           mcur := fst r; mrecv := mrecv s; mchild := ch; mpc := mpc s |} in
      match n with
      | NxYield (RqTimeout d) PP1 =>
          if Qeq_bool d (tx_time c p) then Some (mk (CTx p (mnow s + tx_time c p)), OStart p :: snd r) else None
      | NxExit => Some (mk CEnded, snd r)
      | _ => None
      end
  end.

Definition sendp_gen (k : nat) (c : mq_cfg) (s : mq) (p : pkt) :=
  match k with
  | 0%nat => gen_Scheduler_send_packet_from_0 (sendp_fields s) (psize p) (flow p) (rate c) true
  | _ => gen_Scheduler_send_packet_from_1 (sendp_fields s) (psize p) (flow p) (rate c) true
  end.

Ltac cbnq := cbn -[Qplus Qmult Qdiv Qeq_bool inject_Z Z.add Z.sub tx_time].

(* ---- SChildInit = from_0 ------------------------------------------------------------------------------------ *)
Lemma bridge_sendp_init : forall (c : mq_cfg) (s : mq),
  mq_act c s SChildInit =
    match mchild s with
    | CInit p => sendp_step c s p (sendp_gen 0 c s p)
    | _ => None
    end.
Proof.
  intros c s. destruct s as [nw st tk qc qb tot cu rc ch pc]. cbn [mq_act mchild].
  destruct ch as [|p|p dl|]; try reflexivity.
  unfold sendp_gen, gen_Scheduler_send_packet_from_0, sendp_step, sendp_fields. cbnq.
  match goal with |- context [Qeq_bool ?d (tx_time c p)] =>
    replace (Qeq_bool d (tx_time c p)) with true
      by (symmetry; apply Qeq_bool_iff; unfold tx_time; rewrite ?inject_Z_mult; unfold Qdiv; ring) end.
  rewrite Z.sub_diag, Z.add_0_r. reflexivity.
Qed.

(* ---- SChildTimer = from_1 ----------------------------------------------------------------------------------- *)
Lemma bridge_sendp_timer : forall (c : mq_cfg) (s : mq),
  mq_act c s SChildTimer =
    match mchild s with
    | CTx p dl => if Qeq_bool dl (mnow s) then sendp_step c s p (sendp_gen 1 c s p) else None
    | _ => None
    end.
Proof.
  intros c s. destruct s as [nw st tk qc qb tot cu rc ch pc]. cbn [mq_act mchild mnow].
  destruct ch as [|p|p dl|]; try reflexivity. destruct (Qeq_bool dl nw); [|reflexivity].
  unfold sendp_gen, gen_Scheduler_send_packet_from_1, sendp_step, sendp_fields, gen_upd, upd. cbnq.
  rewrite Z.eqb_refl.
  replace (tot + (qc (flow p) - 1 - qc (flow p)))%Z with (tot - 1)%Z by ring.
  reflexivity.
Qed.

(* ---- explicitly: the order of the effects, the delay, the counters ---------------------------------------------- *)
Lemma sendp_explicit : forall (c : mq_cfg) (s : mq) (p : pkt),
  (exists d, sendp_gen 0 c s p = (sendp_fields s, [FxSetCurrent], NxYield (RqTimeout d) PP1) /\ d == tx_time c p) /\
  snd (fst (sendp_gen 1 c s p)) = [FxOutPut (mqc s (flow p) - 1) (mqb s (flow p) - psize p); FxClearCurrent] /\
  snd (sendp_gen 1 c s p) = NxExit /\
  sd_queue_count (fst (fst (sendp_gen 1 c s p))) (flow p) = (mqc s (flow p) - 1)%Z /\
  sd_queue_byte_size (fst (fst (sendp_gen 1 c s p))) (flow p) = (mqb s (flow p) - psize p)%Z /\
  (forall g, g <> flow p -> sd_queue_count (fst (fst (sendp_gen 1 c s p))) g = mqc s g /\
                            sd_queue_byte_size (fst (fst (sendp_gen 1 c s p))) g = mqb s g).
Proof.
  intros c s p. destruct s as [nw st tk qc qb tot cu rc ch pc].
  unfold sendp_gen, gen_Scheduler_send_packet_from_0, gen_Scheduler_send_packet_from_1, sendp_fields, gen_upd. cbnq.
  repeat split.
  - eexists; split; [reflexivity|]. unfold tx_time. rewrite ?inject_Z_mult. unfold Qdiv. ring.
  - rewrite Z.eqb_refl. reflexivity.
  - rewrite Z.eqb_refl. reflexivity.
  - rewrite Z.eqb_refl. reflexivity.
  - destruct (Z.eqb_spec g (flow p)); [contradiction|reflexivity].
  - destruct (Z.eqb_spec g (flow p)); [contradiction|reflexivity].
Qed.
