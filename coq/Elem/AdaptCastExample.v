(* Concrete executions of the splitter / hub models, OBSERVED on the real onl.netdev.splitter.NSplitter and onl.netdev.hub.Hub
   (props/part_route.py prints them): non-vacuity of Elem/ComposeCast.v / AdaptCast.v. *)
From Coq Require Import ZArith QArith List Bool.
From ONL Require Import Elem.Packet Elem.StoreQ Elem.Port Route.Hub Elem.Iface Elem.Compose Elem.ComposePar Elem.ComposeSwitch Elem.ComposeCast
  Elem.AdaptPort Elem.AdaptCast.
Import ListNotations.
Local Open Scope Z_scope.

Definition nsp_E : elem := (mcast ((0)%Z # 1) (fun _ _ => true) [(port_elem (port_cfg all_fixed ((1024)%Z # 1) (Some (2)%Z) false (Some (300)%Z)) ((0)%Z # 1)); (port_elem (port_cfg all_fixed ((0)%Z # 1) None false (Some (301)%Z)) ((0)%Z # 1))]).
Definition nsp_acts : list (iact (lab nsp_E)) :=
  [IStep (inl (PInit));
   IStep (inr (inl (PInit)));
   IPut (mkp 0%nat (1)%Z (0)%Z (128)%Z ((0)%Z # 1));
   IPut (mkp 1%nat (2)%Z (1)%Z (128)%Z ((0)%Z # 1));
   IPut (mkp 2%nat (3)%Z (0)%Z (128)%Z ((0)%Z # 1));
   IStep (inl (PStoreCb));
   IStep (inr (inl (PStoreCb)));
   IStep (inr (inl (PStoreCb)));
   IStep (inr (inl (PStoreCb)));
   IStep (inl (PGet));
   IStep (inr (inl (PGet)));
   IStep (inr (inl (PGet)));
   IStep (inr (inl (PGet)));
   IAdv ((1)%Z # 1);
   IStep (inl (PTimer))].
Definition hub_E : elem := (mcast ((0)%Z # 1) (fun i p => existsb (fun e => Nat.eqb (fst e) i) (hub_put [{| ep_id := (0)%Z; ep_port := true |}; {| ep_id := (1)%Z; ep_port := true |}; {| ep_id := (2)%Z; ep_port := true |}] (flow p))) [(port_elem (port_cfg all_fixed ((0)%Z # 1) None false (Some (300)%Z)) ((0)%Z # 1)); (port_elem (port_cfg all_fixed ((1024)%Z # 1) (Some (2)%Z) false (Some (301)%Z)) ((0)%Z # 1)); (port_elem (port_cfg all_fixed ((0)%Z # 1) None false (Some (302)%Z)) ((0)%Z # 1))]).
Definition hub_acts : list (iact (lab hub_E)) :=
  [IStep (inl (PInit));
   IStep (inr (inl (PInit)));
   IStep (inr (inr (inl (PInit))));
   IPut (mkp 0%nat (1)%Z (0)%Z (128)%Z ((0)%Z # 1));
   IPut (mkp 1%nat (2)%Z (1)%Z (128)%Z ((0)%Z # 1));
   IPut (mkp 2%nat (3)%Z (3)%Z (128)%Z ((0)%Z # 1));
   IPut (mkp 3%nat (4)%Z (1)%Z (128)%Z ((0)%Z # 1));
   IStep (inr (inl (PStoreCb)));
   IStep (inr (inr (inl (PStoreCb))));
   IStep (inl (PStoreCb));
   IStep (inr (inr (inl (PStoreCb))));
   IStep (inl (PStoreCb));
   IStep (inr (inr (inl (PStoreCb))));
   IStep (inl (PStoreCb));
   IStep (inr (inr (inl (PStoreCb))));
   IStep (inr (inl (PGet)));
   IStep (inr (inr (inl (PGet))));
   IStep (inl (PGet));
   IStep (inr (inr (inl (PGet))));
   IStep (inl (PGet));
   IStep (inr (inr (inl (PGet))));
   IStep (inl (PGet));
   IStep (inr (inr (inl (PGet))));
   IAdv ((1)%Z # 1);
   IStep (inr (inl (PTimer)))].

Definition cuids (l : list pkt) : list nat := map uid l.

(* NSplitter(2), output 0 -> Port(1024 bit/s, limit 2), output 1 -> Port(rate 0): three packets at t = 0.  Both ports are given
   all three; the second port forwards all of them at once, the first refuses two (counted) and forwards one at t = 1 *)
Example nsp_run :
  exists s tr, Iface.run nsp_E (init nsp_E) nsp_acts = Some (s, tr) /\
    cuids (puts tr) = [0; 1; 2]%nat /\ cuids (fwds tr) = [0; 1; 2; 0]%nat /\ cuids (drops tr) = [1; 2]%nat /\
    precv (fst s) = 3 /\ pdrop (fst s) = 2 /\ precv (fst (snd s)) = 3 /\ pdrop (fst (snd s)) = 0 /\
    held nsp_E s = [] /\ Iface.urgent nsp_E s = false /\ deadline nsp_E s = None.
Proof. eexists. eexists. split; [vm_compute; reflexivity|]. vm_compute. repeat split. Qed.

(* Hub with three endpoints behind ports (endpoint 1 behind Port(1024 bit/s, limit 2), the others behind rate-0 ports): packets
   from endpoints 0, 1, from outside (3) and from 1 again.  Endpoint 0 is given 3 packets, endpoint 1 two (one refused by its
   port), endpoint 2 all four; nobody gets its own packet *)
Example hub_run :
  exists s tr, Iface.run hub_E (init hub_E) hub_acts = Some (s, tr) /\
    cuids (puts tr) = [0; 1; 2; 3]%nat /\ cuids (fwds tr) = [0; 1; 1; 2; 2; 3; 3; 0]%nat /\ cuids (drops tr) = [2]%nat /\
    precv (fst s) = 3 /\ precv (fst (snd s)) = 2 /\ pdrop (fst (snd s)) = 1 /\ precv (fst (snd (snd s))) = 4 /\
    held hub_E s = [] /\ Iface.urgent hub_E s = false /\ deadline hub_E s = None.
Proof. eexists. eexists. split; [vm_compute; reflexivity|]. vm_compute. repeat split. Qed.
