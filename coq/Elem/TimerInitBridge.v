(* Bridging lemmas (DESIGN 2.6, second tie) for Timer.__init__: the body as translated from the tree under test on
   every run (Gen/Extracted_timer_init.v: the timeout check, the first arming, and -- as effects in program order --
   the rebinding of the local `args`, the store into self.args / self.kwargs, the creation of the timer process)
   yields the initial state [timer0] of the automaton (Elem/Timer.v) and stores [py_stored_args] (Elem/TimerArgs.v). *)
From Coq Require Import ZArith QArith List Bool Lqa.
From ONL Require Import Elem.Timer Elem.TimerArgs Gen.Extracted_timer_init.
Import ListNotations.

(* what the effects on `args` mean: the local variable, and what has been stored into self.args *)
Record init_env := { loc_args : pyval; stored_args : option pyval; nprocs : nat; raised : bool }.

Definition init_fx_apply (e : init_env) (x : timer_init_fx) : init_env :=
  match x with
  | IxArgsEmpty => {| loc_args := VList []; stored_args := stored_args e; nprocs := nprocs e; raised := raised e |}
  | IxArgsWrap => {| loc_args := VList [loc_args e]; stored_args := stored_args e; nprocs := nprocs e; raised := raised e |}
  | IxStoreArgs => {| loc_args := loc_args e; stored_args := Some (loc_args e); nprocs := nprocs e; raised := raised e |}
  | IxStoreKwargs => e
  | IxNewProc => {| loc_args := loc_args e; stored_args := stored_args e; nprocs := S (nprocs e); raised := raised e |}
  | IxRaiseValueError => {| loc_args := loc_args e; stored_args := stored_args e; nprocs := nprocs e; raised := true |}
  end.

Definition init_run (v : pyval) (fx : list timer_init_fx) : init_env :=
  fold_left init_fx_apply fx {| loc_args := v; stored_args := None; nprocs := 0; raised := false |}.

(* the two observations of `args` *)
Definition is_none (v : pyval) : bool := match v with VNone => true | _ => false end.

Definition timer_gen_init (s : timer_init_st) (now tau nx : Q) (v : pyval) :=
  gen_Timer_init s now tau nx (is_none v) (is_list_or_tuple v).

Lemma arm_guard_dead_init (now tau : Q) :
  negb (Qle_bool tau (0 # 1)) && negb (negb (Qle_bool (now + tau) now)) = false.
Proof.
  destruct (Qle_bool tau (0 # 1)) eqn:E1; [reflexivity|].
  destruct (Qle_bool (now + tau) now) eqn:E2; [|reflexivity].
  exfalso. apply Qle_bool_iff in E2.
  assert (~ tau <= 0 # 1) as N by (intro H; apply Qle_bool_iff in H; congruence).
  apply N. lra.
Qed.

(* a positive timeout: self.args holds py_stored_args of the object given, one timer process is created, nothing is raised
   -- whatever the previous field values and the nextafter observation are *)
Lemma bridge_timer_init_args s now tau nx v :
  0 < tau ->
  let e := init_run v (snd (timer_gen_init s now tau nx v)) in
  stored_args e = Some (py_stored_args v) /\ nprocs e = 1%nat /\ raised e = false.
Proof.
  intros Ht. unfold timer_gen_init, gen_Timer_init.
  assert (E : Qle_bool tau (0 # 1) = false).
  { destruct (Qle_bool tau (0 # 1)) eqn:E; [|reflexivity]. apply Qle_bool_iff in E. lra. }
  cbv zeta. rewrite arm_guard_dead_init, E.
  destruct v; cbn; repeat split; reflexivity.
Qed.

(* ... and the fields are those of timer0 (for every argument shape `a` of the automaton and every auto_restart flag) *)
Lemma bridge_timer_init_fields s now tau nx v au a :
  0 < tau ->
  let f := fst (timer_gen_init s now tau nx v) in
  let st := timer0 fixed now tau au a in
  ti_start_time f = tstart st /\ ti_timeout f = tmo st /\ ti_expire_time f = expire st /\ ti_stopped f = stopped st /\
  length (procs st) = 1%nat.
Proof.
  intros Ht. unfold timer_gen_init, gen_Timer_init.
  assert (E : Qle_bool tau (0 # 1) = false).
  { destruct (Qle_bool tau (0 # 1)) eqn:E; [|reflexivity]. apply Qle_bool_iff in E. lra. }
  cbv zeta. rewrite arm_guard_dead_init, E. destruct (is_none v), (is_list_or_tuple v); cbn; repeat split; reflexivity.
Qed.

(* a non-positive timeout: ValueError before anything is stored or created *)
Lemma bridge_timer_init_rejects s now tau nx v :
  tau <= 0 ->
  timer_gen_init s now tau nx v = (s, [IxRaiseValueError]).
Proof.
  intros Ht. unfold timer_gen_init, gen_Timer_init.
  assert (E : Qle_bool tau (0 # 1) = true) by (apply Qle_bool_iff; lra).
  rewrite E. destruct s; reflexivity.
Qed.

Example ex_init_scalar_string :
  stored_args (init_run (VStr [115; 101; 103]%Z)
                 (snd (timer_gen_init {| ti_start_time := 0; ti_timeout := 0; ti_expire_time := 0; ti_stopped := true |}
                         2 3 7 (VStr [115; 101; 103]%Z))))
  = Some (VList [VStr [115; 101; 103]%Z]).
Proof. vm_compute. reflexivity. Qed.
