(* Trace-level theorems about Elem/WFQServer.v for every discipline satisfying WFQServerProofs.disc:
   conservation, per-flow FIFO, exactly-once, counters, one transmission at a time lasting exactly
   8*size/rate, each transmission start = the entry selected in that instant with the least key,
   back-to-back service.  All statements are about the trace returned by [run] for ALL action lists. *)
From Coq Require Import ZArith QArith Qminmax Qabs List Bool Lia Lqa Permutation.
From ONL Require Import Elem.Packet Elem.StoreQ Elem.StoreQProofs Elem.HeapList Elem.WFQServer Elem.WFQServerProofs.
Import ListNotations.

Definition out_pkts (o : list fout) : list pkt := map (fun x => match x with OForward p => p end) o.

Definition only (f : Z) (l : list pkt) : list pkt := filter (fun p => Z.eqb (flow p) f) l.
Definition cnt (f : Z) (l : list pkt) : Z := Z.of_nat (length (only f l)).
Definition byt (f : Z) (l : list pkt) : Z := fold_right (fun p a => (psize p + a)%Z) 0%Z (only f l).

Lemma only_app f l1 l2 : only f (l1 ++ l2) = only f l1 ++ only f l2.
Proof. apply filter_app. Qed.

Lemma only_perm f l l' : Permutation l l' -> Permutation (only f l) (only f l').
Proof.
  intros P. unfold only. induction P; cbn.
  - constructor.
  - destruct (Z.eqb (flow x) f); [constructor|]; assumption.
  - destruct (Z.eqb (flow x) f), (Z.eqb (flow y) f); try apply Permutation_refl. apply perm_swap.
  - eapply Permutation_trans; eauto.
Qed.

Lemma cnt_perm f l l' : Permutation l l' -> cnt f l = cnt f l'.
Proof. intros P. unfold cnt. f_equal. apply Permutation_length, only_perm, P. Qed.

Lemma sum_perm (l l' : list pkt) : Permutation l l' ->
  fold_right (fun p a => (psize p + a)%Z) 0%Z l = fold_right (fun p a => (psize p + a)%Z) 0%Z l'.
Proof. intros P. induction P; cbn; lia. Qed.

Lemma byt_perm f l l' : Permutation l l' -> byt f l = byt f l'.
Proof. intros P. unfold byt. apply sum_perm, only_perm, P. Qed.

Lemma cnt_cons f p l : cnt f (p :: l) = ((if Z.eqb (flow p) f then 1 else 0) + cnt f l)%Z.
Proof. unfold cnt, only. cbn [filter]. destruct (Z.eqb (flow p) f); cbn [length]; lia. Qed.

Lemma byt_cons f p l : byt f (p :: l) = ((if Z.eqb (flow p) f then psize p else 0) + byt f l)%Z.
Proof. unfold byt, only. cbn [filter]. destruct (Z.eqb (flow p) f); cbn [fold_right]; lia. Qed.

(* moving x to the front does not change the subsequence of a flow if no earlier element has x's flow *)
Lemma only_move f (l1 : list pkt) x l2 :
  (forall y, In y l1 -> flow y <> flow x) -> only f (x :: l1 ++ l2) = only f (l1 ++ x :: l2).
Proof.
  intros H. unfold only. cbn [filter]. rewrite !filter_app. cbn [filter].
  destruct (Z.eqb_spec (flow x) f) as [E|E]; [|reflexivity].
  assert (N : filter (fun p => Z.eqb (flow p) f) l1 = []).
  { clear -H E. induction l1 as [|y t IH]; [reflexivity|]. cbn [filter].
    destruct (Z.eqb_spec (flow y) f) as [Ey|Ey].
    - exfalso. apply (H y); [left; reflexivity|congruence].
    - apply IH. intros z Hz. apply H. right. exact Hz. }
  rewrite N. reflexivity.
Qed.

Lemma NoDup_app_l (A : Type) (l1 l2 : list A) : NoDup (l1 ++ l2) -> NoDup l1.
Proof.
  induction l1 as [|a t IH]; cbn; intros H; [constructor|].
  inversion H; subst. constructor; [|apply IH; assumption].
  intros C. match goal with N : ~ In a (t ++ l2) |- _ => apply N end. apply in_or_app. left. exact C.
Qed.

Section Trace.
  Variable S : stamper.
  Variable rate : Q.
  Hypothesis rate_pos : 0 < rate.
  Variable st0 : ST S.
  Variable conf : pkt -> Prop.
  Variable cls : pkt -> Z.
  Variable D : disc S st0 conf cls.
  Notation srvS := (srv S).
  Notation actS := (act S rate).
  Notation runS := (run S rate).
  Notation Reach := (reach S rate st0 conf).
  Notation InvS := (Inv S st0 conf cls D).

  Fixpoint puts (tr : list (tev S)) : list pkt :=
    match tr with
    | [] => []
    | (FPut p, _, _) :: t => p :: puts t
    | _ :: t => puts t
    end.

  Fixpoint fwds (tr : list (tev S)) : list pkt :=
    match tr with
    | [] => []
    | (_, o, _) :: t => out_pkts o ++ fwds t
    end.

  Definition puts_conf (acts : list faction) : Prop := forall p, In (FPut p) acts -> conf p.

  Lemma run_cons s a rest s'' tr :
    runS s (a :: rest) = Some (s'', tr) ->
    exists s' o tr', actS s a = Ok (s', o) /\ runS s' rest = Some (s'', tr') /\ tr = (a, o, s') :: tr'.
  Proof.
    cbn [run]. destruct (actS s a) as [[s' o]| |] eqn:E; try discriminate.
    destruct (runS s' rest) as [[s2 tr']|] eqn:R; [|discriminate].
    intros H. inversion H; subst. eauto 6.
  Qed.

  Lemma puts_conf_cons a rest : puts_conf (a :: rest) -> (forall p, a = FPut p -> conf p) /\ puts_conf rest.
  Proof.
    intros H. split.
    - intros p ->. apply H. left. reflexivity.
    - intros p Hp. apply H. right. exact Hp.
  Qed.

  (* every property of single steps from reachable states holds along every run *)
  Fixpoint steps_ok (P : srvS -> faction -> list fout -> srvS -> Prop) (pre : srvS) (tr : list (tev S)) : Prop :=
    match tr with
    | [] => True
    | (a, o, s') :: t => P pre a o s' /\ steps_ok P s' t
    end.

  Lemma run_reach acts : forall s s' tr,
    Reach s -> puts_conf acts -> runS s acts = Some (s', tr) -> Reach s'.
  Proof.
    induction acts as [|a rest IH]; intros s s' tr R C H.
    - cbn in H. injection H as <- _. exact R.
    - apply run_cons in H as (s1 & o & tr' & A & H & ->). apply puts_conf_cons in C as (Ca & Cr).
      eapply IH; [|exact Cr|exact H]. eapply reachS; eauto.
  Qed.

  Lemma run_steps (P : srvS -> faction -> list fout -> srvS -> Prop) :
    (forall s a o s', Reach s -> (forall p, a = FPut p -> conf p) -> actS s a = Ok (s', o) -> P s a o s') ->
    forall acts s s' tr, Reach s -> puts_conf acts -> runS s acts = Some (s', tr) -> steps_ok P s tr.
  Proof.
    intros HP. induction acts as [|a rest IH]; intros s s' tr R C H.
    - cbn in H. injection H as _ <-. exact I.
    - apply run_cons in H as (s1 & o & tr' & A & H & ->). apply puts_conf_cons in C as (Ca & Cr).
      cbn [steps_ok]. split; [apply HP; assumption|].
      eapply IH; [|exact Cr|exact H]. eapply reachS; eauto.
  Qed.

  (* ---- conservation ---- *)
  Theorem srv_conserves_gen acts : forall s s' tr,
    runS s acts = Some (s', tr) -> Permutation (held S s ++ puts tr) (fwds tr ++ held S s').
  Proof.
    induction acts as [|a rest IH]; intros s s' tr H.
    - cbn in H. injection H as <- <-. cbn. rewrite app_nil_r. apply Permutation_refl.
    - apply run_cons in H as (s1 & o & tr' & A & H & ->). specialize (IH _ _ _ H).
      pose proof (step_held S rate _ _ _ _ A) as SH.
      destruct a; cbn [puts fwds];
        try (destruct SH as (P & _ & ->); cbn [out_pkts map app];
             eapply Permutation_trans; [apply Permutation_app_tail; symmetry; exact P|exact IH]).
      + destruct SH as (E & _ & ->). cbn [out_pkts map app]. rewrite E in IH. rewrite <- app_assoc in IH. exact IH.
      + destruct SH as (e & dl & _ & -> & E & _). rewrite E. cbn [out_pkts map app]. apply perm_skip. exact IH.
      + destruct SH as (e & _ & _ & P & ->). cbn [out_pkts map app].
        eapply Permutation_trans; [apply Permutation_app_tail; symmetry; exact P|exact IH].
  Qed.

  Theorem srv_conserves acts s' tr :
    runS (srv0 0 st0) acts = Some (s', tr) -> Permutation (puts tr) (fwds tr ++ held S s').
  Proof. intros H. apply srv_conserves_gen in H. exact H. Qed.

  (* ---- per-flow FIFO ---- *)
  (* a store micro-step either leaves what is held as it is, or selects the least entry x *)
  Lemma cb_or_get_held (q q' : sq item) :
    (sq_cb pq_pop q = Some q' \/ sq_get pq_pop q = Some q') ->
    sq_held q' = sq_held q \/ (exists x, selects q q' x /\ (forall y, get q <> GGranted y)).
  Proof.
    intros [H|H].
    - apply pq_cb_inv in H as (_ & [(G & x & Hs)|(_ & E & G')]).
      + right. exists x. split; [exact Hs|]. intros y; rewrite G; discriminate.
      + left. unfold sq_held. rewrite G', E. reflexivity.
    - apply pq_get_inv in H as (G & _ & [(E & E' & G')|(x & Hs)]).
      + left. unfold sq_held. rewrite G, G', E, E'. reflexivity.
      + right. exists x. split; [exact Hs|]. intros y; rewrite G; discriminate.
  Qed.

  Lemma selection_only s (q' : sq item) f :
    InvS s ->
    (sq_cb pq_pop (store s) = Some q' \/ sq_get pq_pop (store s) = Some q') ->
    only f (map epkt (sq_held q')) = only f (map epkt (sq_held (store s))).
  Proof.
    intros HI H. destruct (cb_or_get_held _ _ H) as [E|(x & Hs & NG)]; [rewrite E; reflexivity|].
    destruct (selects_strict S st0 conf cls D s q' x HI Hs) as (l1 & l2 & E1 & E2 & G' & (_ & SL)).
    assert (Hs1 : sq_held (store s) = l1 ++ x :: l2).
    { unfold sq_held. destruct (get (store s)) as [| |y] eqn:G; try exact E1. exfalso. apply (NG y). reflexivity. }
    assert (Hs2 : sq_held q' = x :: l1 ++ l2).
    { unfold sq_held. rewrite G', E2. reflexivity. }
    rewrite Hs1, Hs2. cbn [map]. rewrite !map_app. cbn [map]. apply only_move.
    intros y Hy. apply in_map_iff in Hy as (e & <- & He). intros Ef.
    apply (SL e He). apply (cls_flow S st0 conf cls D). exact Ef.
  Qed.

  (* what one step does to the pipeline-ordered list of held packets, per flow *)
  Lemma step_only s a s' o f :
    InvS s -> actS s a = Ok (s', o) ->
    only f (out_pkts o) ++ only f (held S s') =
    only f (held S s) ++ only f (match a with FPut p => [p] | _ => [] end).
  Proof.
    intros HI H. pose proof HI as ((N & I0 & I1 & Dl) & _).
    destruct a; act_inv H; unfold held;
      cbn [now started store stm seq qcount qbytes nrecv chl with_store with_child out_pkts map app only filter];
      rewrite ?app_nil_r.
    - (* FPut *) rewrite pq_held_put, map_app, !only_app. cbn [map epkt snd ipkt]. rewrite app_assoc. reflexivity.
    - (* FInit *) rewrite !only_app. f_equal. apply selection_only; [exact HI|right; assumption].
    - (* FStoreCb *) rewrite !only_app. f_equal. apply selection_only; [exact HI|left; assumption].
    - (* FGetDone *)
      match goal with E : sq_take _ = Some _ |- _ => apply sq_take_held in E; rewrite E end.
      match goal with E : chl s = CNone |- _ => rewrite E end. reflexivity.
    - (* FChildInit *) match goal with E : chl s = CInit _ |- _ => rewrite E end. reflexivity.
    - (* FChildTimer *) match goal with E : chl s = CTx _ _ |- _ => rewrite E end.
      cbn [child_pkts app only filter]. unfold only. cbn [filter]. destruct (Z.eqb (flow (epkt e)) f); reflexivity.
    - (* FChildEnd *) match goal with E : chl s = CEnded _ |- _ => rewrite E end. cbn [child_pkts app].
      apply selection_only; [exact HI|right; assumption].
    - match goal with E : chl s = _ |- _ => rewrite E end. reflexivity.
    - match goal with E : chl s = _ |- _ => rewrite E end. reflexivity.
    - match goal with E : chl s = _ |- _ => rewrite E end. reflexivity.
    - match goal with E : chl s = _ |- _ => rewrite E end. reflexivity.
  Qed.

  Theorem srv_flow_fifo_gen acts : forall s s' tr f,
    Reach s -> puts_conf acts -> runS s acts = Some (s', tr) ->
    only f (fwds tr) ++ only f (held S s') = only f (held S s) ++ only f (puts tr).
  Proof.
    induction acts as [|a rest IH]; intros s s' tr f R C H.
    - cbn in H. injection H as <- <-. cbn. rewrite app_nil_r. reflexivity.
    - apply run_cons in H as (s1 & o & tr' & A & H & ->). apply puts_conf_cons in C as (Ca & Cr).
      assert (R1 : Reach s1) by (eapply reachS; eauto).
      specialize (IH _ _ _ f R1 Cr H).
      pose proof (step_only _ _ _ _ f (Inv_reach S rate rate_pos st0 conf cls D s R) A) as SO.
      cbn [fwds]. rewrite only_app, <- app_assoc, IH, app_assoc, SO, <- app_assoc. f_equal.
      destruct a; cbn [puts only filter app]; try reflexivity.
      unfold only. cbn [filter]. destruct (Z.eqb (flow p) f); reflexivity.
  Qed.

  (* the packets of a flow forwarded so far, followed by those of it still held (in pipeline order), are
     the packets of that flow put in, in the order they were put *)
  Theorem srv_flow_fifo acts s' tr f :
    puts_conf acts -> runS (srv0 0 st0) acts = Some (s', tr) ->
    only f (fwds tr) ++ only f (held S s') = only f (puts tr).
  Proof. intros C H. apply (srv_flow_fifo_gen acts _ _ _ f (reach0 _ _ _ _) C H). Qed.

  (* ---- exactly once ---- *)
  Theorem srv_exactly_once acts s' tr :
    puts_conf acts -> runS (srv0 0 st0) acts = Some (s', tr) -> NoDup (map uid (puts tr)) ->
    NoDup (map uid (fwds tr)) /\ (forall p, In p (fwds tr) -> In p (puts tr)) /\
    (urgent s' = false -> (forall e dl, chl s' <> CTx e dl) -> Permutation (puts tr) (fwds tr)).
  Proof.
    intros C H ND. pose proof (srv_conserves _ _ _ H) as P. split; [|split].
    - assert (ND' : NoDup (map uid (fwds tr ++ held S s'))).
      { eapply Permutation_NoDup; [apply Permutation_map; exact P|exact ND]. }
      rewrite map_app in ND'. apply NoDup_app_l in ND'. exact ND'.
    - intros p Hp. eapply Permutation_in; [symmetry; exact P|]. apply in_or_app. left. exact Hp.
    - intros U NT. assert (R : Reach s') by (eapply run_reach; [apply reach0|exact C|exact H]).
      destruct (srv_drained S rate rate_pos st0 conf cls D s' R U NT) as (Hh & _).
      rewrite Hh, app_nil_r in P. exact P.
  Qed.

  (* ---- counters ---- *)
  Theorem srv_counters s : Reach s ->
    (forall f, qcount s f = cnt f (held S s) /\ qbytes s f = byt f (held S s)) /\ nrecv s = Z.of_nat (seq s).
  Proof.
    induction 1 as [|s a s' o R IH Hc H].
    - split; [intros f; split; reflexivity|reflexivity].
    - destruct IH as (IHf & IHn). pose proof (step_held S rate _ _ _ _ H) as SH.
      destruct a; act_inv H; cbn [now started store stm seq qcount qbytes nrecv chl with_store with_child] in *;
        try (destruct SH as (P & _ & _); split; [intros f; rewrite (cnt_perm f _ _ P), (byt_perm f _ _ P); apply IHf|exact IHn]).
      + (* FPut *)
        destruct SH as (E & _ & _). split; [|lia]. intros f. rewrite E.
        rewrite (cnt_perm f _ (p :: held S s)), (byt_perm f _ (p :: held S s))
          by (symmetry; apply Permutation_cons_append).
        rewrite cnt_cons, byt_cons. unfold fupd. destruct (IHf f) as (A & B). destruct (IHf (flow p)) as (A' & B').
        destruct (Z.eqb_spec f (flow p)) as [->|Nf].
        * rewrite Z.eqb_refl. lia.
        * destruct (Z.eqb_spec (flow p) f); [congruence|]. lia.
      + (* FChildTimer *)
        destruct SH as (e' & dl' & Ee & _ & E & _). injection Ee as <- <-. split; [|exact IHn]. intros f.
        match type of E with _ = _ :: ?hh => set (h := hh) in * end.
        destruct (IHf f) as (A & B). destruct (IHf (flow (epkt e))) as (A' & B'). rewrite E in A, B, A', B'.
        rewrite cnt_cons in A, A'. rewrite byt_cons in B, B'. unfold fupd.
        destruct (Z.eqb_spec f (flow (epkt e))) as [->|Nf].
        * clear A' B'. rewrite Z.eqb_refl in A, B. lia.
        * destruct (Z.eqb_spec (flow (epkt e)) f); [congruence|]. lia.
      + (* FChildEnd *)
        destruct SH as (e' & _ & _ & P & _). split; [intros f; rewrite (cnt_perm f _ _ P), (byt_perm f _ _ P); apply IHf|exact IHn].
  Qed.

  Theorem srv_drained_trace acts s' tr :
    puts_conf acts -> runS (srv0 0 st0) acts = Some (s', tr) ->
    urgent s' = false -> (forall e dl, chl s' <> CTx e dl) ->
    held S s' = [] /\ (forall f, qcount s' f = 0%Z /\ qbytes s' f = 0%Z).
  Proof.
    intros C H U NT. assert (R : Reach s') by (eapply run_reach; [apply reach0|exact C|exact H]).
    destruct (srv_drained S rate rate_pos st0 conf cls D s' R U NT) as (Hh & _). split; [exact Hh|].
    intros f. destruct (srv_counters s' R) as (Cf & _). destruct (Cf f) as (A & B). rewrite Hh in A, B. exact (conj A B).
  Qed.

  (* ---- one transmission at a time, lasting exactly 8*size/rate, never aborted ---- *)
  (* [cur] = the transmission in progress: (instant at which it must end, packet) *)
  Fixpoint tx_ok (cur : option (Q * pkt)) (tr : list (tev S)) : Prop :=
    match tr with
    | [] => True
    | (a, o, s') :: t =>
        match a with
        | FChildInit =>       (* a transmission starts: none may be in progress *)
            cur = None /\ o = [] /\
            exists e dl, chl s' = CTx e dl /\ dl == now s' + tx_time rate (epkt e) /\ tx_ok (Some (dl, epkt e)) t
        | FChildTimer =>      (* a packet is forwarded: it is the one in transmission, at exactly its end instant *)
            exists dl p, cur = Some (dl, p) /\ o = [OForward p] /\ now s' == dl /\ tx_ok None t
        | _ =>                (* nothing else forwards, aborts or lets the end instant pass *)
            o = [] /\ (forall dl p, cur = Some (dl, p) -> now s' <= dl) /\ tx_ok cur t
        end
    end.

  Definition cur_of (s : srvS) : option (Q * pkt) :=
    match chl s with CTx e dl => Some (dl, epkt e) | _ => None end.

  Theorem srv_tx_time_gen acts : forall s s' tr,
    Reach s -> puts_conf acts -> runS s acts = Some (s', tr) -> tx_ok (cur_of s) tr.
  Proof.
    induction acts as [|a rest IH]; intros s s' tr R C H.
    - cbn in H. injection H as _ <-. exact I.
    - apply run_cons in H as (s1 & o & tr' & A & H & ->). apply puts_conf_cons in C as (Ca & Cr).
      assert (R1 : Reach s1) by (eapply reachS; eauto).
      specialize (IH _ _ _ R1 Cr H).
      destruct (Inv_reach S rate rate_pos st0 conf cls D s R) as ((_ & _ & _ & Dl) & _).
      unfold cur_of in *. cbn [tx_ok].
      destruct a; act_inv A; cbn [now started store stm seq qcount qbytes nrecv chl with_store with_child] in *.
      + (* FPut *) split; [reflexivity|]. split; [|exact IH].
        intros dl0 q0 E. destruct (chl s) as [| |e0 d0|]; try discriminate. injection E as <- _. apply (Dl e0 d0 eq_refl).
      + (* FInit *) split; [reflexivity|]. split; [|exact IH].
        intros dl0 q0 E. destruct (chl s) as [| |e0 d0|]; try discriminate. injection E as <- _. apply (Dl e0 d0 eq_refl).
      + (* FStoreCb *) split; [reflexivity|]. split; [|exact IH].
        intros dl0 q0 E. destruct (chl s) as [| |e0 d0|]; try discriminate. injection E as <- _. apply (Dl e0 d0 eq_refl).
      + (* FGetDone *) split; [reflexivity|]. split; [discriminate|exact IH].
      + (* FChildInit *) split; [reflexivity|]. split; [reflexivity|]. eexists _, _. split; [reflexivity|].
        split; [apply Qred_correct|exact IH].
      + (* FChildTimer *) eexists _, _. split; [reflexivity|]. split; [reflexivity|]. split; [|exact IH].
        match goal with E : Qeq_bool _ _ = true |- _ => apply Qeq_bool_iff in E; symmetry; exact E end.
      + (* FChildEnd *) split; [reflexivity|]. split; [discriminate|exact IH].
      + (* FAdvance *) split; [reflexivity|]. split; [discriminate|exact IH].
      + split; [reflexivity|]. split; [discriminate|exact IH].
      + split; [reflexivity|]. split; [|exact IH]. intros dl' q' E. injection E as <- _.
        match goal with E : Qle_bool _ _ = true |- _ => apply Qle_bool_iff in E; exact E end.
      + split; [reflexivity|]. split; [discriminate|exact IH].
  Qed.

  Theorem srv_tx_time acts s' tr :
    puts_conf acts -> runS (srv0 0 st0) acts = Some (s', tr) -> tx_ok None tr.
  Proof. intros C H. apply (srv_tx_time_gen acts _ _ _ (reach0 _ _ _ _) C H). Qed.

  (* ---- each transmission starts the entry selected in that very instant, which had the least key ---- *)
  Definition newly_granted (pre post : srvS) : option entry :=
    match get (store post), get (store pre) with
    | GGranted _, GGranted _ => None
    | GGranted x, _ => Some x
    | _, _ => None
    end.

  (* [cur] = the entry selected (popped from the PriorityStore) and not yet in transmission, with the instant
     of its selection *)
  Fixpoint sel_ok (pre : srvS) (cur : option (Q * entry)) (tr : list (tev S)) : Prop :=
    match tr with
    | [] => True
    | (a, o, s') :: t =>
        match newly_granted pre s' with
        | Some x =>        (* a selection: nothing else is selected and pending; x has strictly the least key *)
            cur = None /\
            (exists l1 l2, items (store pre) = l1 ++ x :: l2 /\ items (store s') = l1 ++ l2 /\ strictly_least cls x l1 l2) /\
            sel_ok s' (Some (now s', x)) t
        | None =>
            match a with
            | FChildInit =>  (* a transmission starts: it is the selected entry, selected at this very instant *)
                exists x dl, cur = Some (now s', x) /\ chl s' = CTx x dl /\ sel_ok s' None t
            | _ =>           (* no time passes while a selected entry waits for its transmission to start *)
                (forall t0 x, cur = Some (t0, x) -> now s' = t0) /\ sel_ok s' cur t
            end
        end
    end.

  Definition pending (s : srvS) : option (Q * entry) :=
    match get (store s) with
    | GGranted x => Some (now s, x)
    | _ => match chl s with CInit x => Some (now s, x) | _ => None end
    end.

  Lemma newly_granted_same (s s' : srvS) : get (store s') = get (store s) -> newly_granted s s' = None.
  Proof. unfold newly_granted. intros ->. destruct (get (store s)); reflexivity. Qed.

  (* a store micro-step by the server (cb / get) from a reachable state *)
  Lemma sel_step s a s' o (q' : sq item) :
    Reach s -> actS s a = Ok (s', o) -> store s' = q' -> now s' = now s ->
    (chl s' = CNone) -> (chl s = CNone \/ exists e, chl s = CEnded e) ->
    (sq_cb pq_pop (store s) = Some q' \/ sq_get pq_pop (store s) = Some q') ->
    forall t, sel_ok s' (pending s') t ->
    match newly_granted s s' with
    | Some x => pending s = None /\
                (exists l1 l2, items (store s) = l1 ++ x :: l2 /\ items (store s') = l1 ++ l2 /\ strictly_least cls x l1 l2) /\
                sel_ok s' (Some (now s', x)) t
    | None => (forall t0 x, pending s = Some (t0, x) -> now s' = t0) /\ sel_ok s' (pending s) t
    end.
  Proof.
    intros R A Es En Ec' Ec Hq t IH.
    assert (Hsel : forall x, selects (store s) q' x -> (forall y, get (store s) <> GGranted y) ->
              match newly_granted s s' with
              | Some x => pending s = None /\
                  (exists l1 l2, items (store s) = l1 ++ x :: l2 /\ items (store s') = l1 ++ l2 /\ strictly_least cls x l1 l2) /\
                  sel_ok s' (Some (now s', x)) t
              | None => (forall t0 x, pending s = Some (t0, x) -> now s' = t0) /\ sel_ok s' (pending s) t
              end).
    { intros x Hs NG. pose proof Hs as (l1 & l2 & _ & _ & Gx & _).
      assert (Hn : newly_granted s s' = Some x).
      { unfold newly_granted. rewrite Es, Gx. destruct (get (store s)) as [| |y] eqn:G; try reflexivity.
        exfalso. apply (NG y). reflexivity. }
      rewrite Hn.
      assert (Hp : pending s = None).
      { unfold pending. destruct (get (store s)) as [| |y] eqn:G; [| |exfalso; apply (NG y); reflexivity];
          destruct Ec as [->|(e & ->)]; reflexivity. }
      split; [exact Hp|]. split.
      + rewrite <- Es in Gx. eapply (srv_select_min S rate rate_pos st0 conf cls D s a s' o x R A Gx).
        intros G. apply (NG x). exact G.
      + unfold pending in IH. rewrite Es, Gx in IH. exact IH. }
    assert (Hsame : get q' = get (store s) \/ (get (store s) = GNone /\ get q' = GWaiting) ->
              match newly_granted s s' with
              | Some x => pending s = None /\
                  (exists l1 l2, items (store s) = l1 ++ x :: l2 /\ items (store s') = l1 ++ l2 /\ strictly_least cls x l1 l2) /\
                  sel_ok s' (Some (now s', x)) t
              | None => (forall t0 x, pending s = Some (t0, x) -> now s' = t0) /\ sel_ok s' (pending s) t
              end).
    { intros Hg.
      assert (Hn : newly_granted s s' = None).
      { unfold newly_granted. rewrite Es. destruct Hg as [->|(-> & ->)]; [destruct (get (store s))|]; reflexivity. }
      assert (Ep : pending s' = pending s).
      { unfold pending. rewrite Es, En, Ec'. destruct Hg as [->|(-> & ->)].
        - destruct (get (store s)); try reflexivity; destruct Ec as [->|(e & ->)]; reflexivity.
        - destruct Ec as [->|(e & ->)]; reflexivity. }
      rewrite Hn, <- Ep. split; [|exact IH].
      intros t0 y E. unfold pending in E.
      destruct (get (store s')); [| |injection E as <- _; reflexivity];
        (destruct (chl s'); try discriminate; injection E as <- _; reflexivity). }
    destruct Hq as [Hq|Hq].
    - apply pq_cb_inv in Hq as (_ & [(G & y & Hy)|(_ & _ & G')]).
      + apply (Hsel y Hy). intros z. rewrite G. discriminate.
      + apply Hsame. left. exact G'.
    - apply pq_get_inv in Hq as (G & _ & [(_ & _ & G')|(y & Hy)]).
      + apply Hsame. right. auto.
      + apply (Hsel y Hy). intros z. rewrite G. discriminate.
  Qed.

  (* a step that touches neither the getter nor the child nor the clock *)
  Lemma same_step (s s' : srvS) t :
    get (store s') = get (store s) -> chl s' = chl s -> now s' = now s ->
    sel_ok s' (pending s') t ->
    newly_granted s s' = None /\ (forall t0 x, pending s = Some (t0, x) -> now s' = t0) /\ sel_ok s' (pending s) t.
  Proof.
    intros Eg Ec En IH. split; [apply newly_granted_same; exact Eg|].
    assert (Ep : pending s' = pending s) by (unfold pending; rewrite Eg, Ec, En; reflexivity).
    rewrite <- Ep. split; [|exact IH]. intros t0 x E. unfold pending in E.
    destruct (get (store s')); [| |injection E as <- _; reflexivity];
      (destruct (chl s'); try discriminate; injection E as <- _; reflexivity).
  Qed.

  Theorem srv_stamp_order_gen acts : forall s s' tr,
    Reach s -> puts_conf acts -> runS s acts = Some (s', tr) -> sel_ok s (pending s) tr.
  Proof.
    induction acts as [|a rest IH]; intros s s' tr R C H.
    - cbn in H. injection H as _ <-. exact I.
    - apply run_cons in H as (s1 & o & tr' & A & H & ->). apply puts_conf_cons in C as (Ca & Cr).
      assert (R1 : Reach s1) by (eapply reachS; eauto).
      specialize (IH _ _ _ R1 Cr H).
      destruct (Inv_reach S rate rate_pos st0 conf cls D s R) as ((N & I0 & I1 & Dl) & _).
      cbn [sel_ok]. pose proof A as A0.
      destruct a; act_inv A; cbn [now started store stm seq qcount qbytes nrecv chl with_store with_child] in *.
      + (* FPut *)
        match goal with |- context [newly_granted s ?x] => set (s1 := x) in * end.
        destruct (same_step s s1 tr' eq_refl eq_refl eq_refl IH) as (-> & P & Q'). split; assumption.
      + (* FInit *)
        match goal with |- context [newly_granted s ?x] => set (s1 := x) in * end.
        destruct (I0 eq_refl) as (G0 & C0).
        pose proof (sel_step s FInit s1 [] _ R A0 eq_refl eq_refl C0 (or_introl C0)) as L.
        match goal with E : sq_get _ _ = Some _ |- _ => specialize (L (or_intror E) tr' IH) end.
        destruct (newly_granted s s1); exact L.
      + (* FStoreCb *)
        match goal with |- context [newly_granted s ?x] => set (s1 := x) in * end.
        destruct (chl s) as [|e|e dl|e] eqn:Ec.
        * pose proof (sel_step s FStoreCb s1 [] _ R A0 eq_refl eq_refl Ec (or_introl Ec)) as L.
          match goal with E : sq_cb _ _ = Some _ |- _ => specialize (L (or_introl E) tr' IH) end.
          destruct (newly_granted s s1); exact L.
        * assert (G : get (store s) = GNone).
          { destruct (started s); [apply (I1 eq_refl); discriminate|destruct (I0 eq_refl); discriminate]. }
          match goal with E : sq_cb _ _ = Some _ |- _ =>
            destruct (sq_cb_not_waiting _ _ _ _ E) as (_ & G'); [rewrite G; discriminate|] end.
          destruct (same_step s s1 tr') as (-> & P & Q'); [exact G'|reflexivity|reflexivity|exact IH|]. split; assumption.
        * assert (G : get (store s) = GNone).
          { destruct (started s); [apply (I1 eq_refl); discriminate|destruct (I0 eq_refl); discriminate]. }
          match goal with E : sq_cb _ _ = Some _ |- _ =>
            destruct (sq_cb_not_waiting _ _ _ _ E) as (_ & G'); [rewrite G; discriminate|] end.
          destruct (same_step s s1 tr') as (-> & P & Q'); [exact G'|reflexivity|reflexivity|exact IH|]. split; assumption.
        * assert (G : get (store s) = GNone).
          { destruct (started s); [apply (I1 eq_refl); discriminate|destruct (I0 eq_refl); discriminate]. }
          match goal with E : sq_cb _ _ = Some _ |- _ =>
            destruct (sq_cb_not_waiting _ _ _ _ E) as (_ & G'); [rewrite G; discriminate|] end.
          destruct (same_step s s1 tr') as (-> & P & Q'); [exact G'|reflexivity|reflexivity|exact IH|]. split; assumption.
      + (* FGetDone *)
        match goal with |- context [newly_granted s ?x] => set (s1 := x) in * end.
        match goal with E : sq_take _ = Some _ |- _ => apply sq_take_inv in E as (G & _ & _ & G') end.
        assert (Hn : newly_granted s s1 = None) by (unfold newly_granted, s1; cbn [store with_child with_store]; rewrite G'; reflexivity).
        rewrite Hn. unfold pending in IH |- *. subst s1. cbn [store chl now with_child with_store] in IH. rewrite G' in IH. rewrite G.
        split; [|exact IH]. intros t0 x E. injection E as <- _. reflexivity.
      + (* FChildInit *)
        match goal with |- context [newly_granted s ?x] => set (s1 := x) in * end.
        assert (Hn : newly_granted s s1 = None) by (apply newly_granted_same; reflexivity). rewrite Hn.
        assert (G : get (store s) = GNone).
        { destruct (started s); [apply (I1 eq_refl); discriminate|destruct (I0 eq_refl); discriminate]. }
        eexists _, _. unfold pending. rewrite G. match goal with E : chl s = CInit _ |- _ => rewrite E end.
        split; [reflexivity|]. split; [reflexivity|].
        unfold pending in IH. subst s1. cbn [store chl now with_child with_store] in IH. rewrite G in IH. exact IH.
      + (* FChildTimer *)
        match goal with |- context [newly_granted s ?x] => set (s1 := x) in * end.
        assert (Hn : newly_granted s s1 = None) by (apply newly_granted_same; reflexivity). rewrite Hn.
        assert (G : get (store s) = GNone).
        { destruct (started s); [apply (I1 eq_refl); discriminate|destruct (I0 eq_refl); discriminate]. }
        unfold pending in IH |- *. subst s1. cbn [store chl now with_child with_store] in IH. rewrite G in IH |- *.
        match goal with E : chl s = CTx _ _ |- _ => rewrite E end.
        split; [discriminate|exact IH].
      + (* FChildEnd *)
        match goal with |- context [newly_granted s ?x] => set (s1 := x) in * end.
        pose proof (sel_step s FChildEnd s1 [] _ R A0 eq_refl eq_refl eq_refl (or_intror (ex_intro _ e Heqc))) as L.
        match goal with E : sq_get _ _ = Some _ |- _ => specialize (L (or_intror E) tr' IH) end.
        destruct (newly_granted s s1); exact L.
      + (* FAdvance: nothing is pending *)
        match goal with |- context [newly_granted s ?x] => set (s1 := x) in * end.
        assert (Hn : newly_granted s s1 = None) by (apply newly_granted_same; reflexivity). rewrite Hn.
        match goal with E : urgent s = false |- _ => rename E into U end.
        match goal with E : chl s = _ |- _ => rename E into Ec end.
        unfold urgent, child_urgent in U. rewrite Ec in U.
        apply orb_false_iff in U as (U & _). apply orb_false_iff in U as (U & _).
        apply orb_false_iff in U as (_ & Uq). apply sq_urgent_false in Uq as (_ & NG).
        assert (Ep : pending s = None).
        { unfold pending. rewrite Ec. destruct (get (store s)) as [| |y] eqn:G; [reflexivity|reflexivity|exfalso; apply (NG y); reflexivity]. }
        assert (Ep1 : pending s1 = None).
        { unfold pending, s1; cbn [store chl with_child with_store]. rewrite ?Ec. destruct (get (store s)) as [| |y] eqn:G; [reflexivity|reflexivity|exfalso; apply (NG y); reflexivity]. }
        rewrite Ep. rewrite Ep1 in IH. split; [discriminate|exact IH].
      +
        exfalso. match goal with E : urgent s = false |- _ => rename E into U end.
        match goal with E : chl s = _ |- _ => rename E into Ec end.
        unfold urgent, child_urgent in U. rewrite Ec in U.
        destruct (negb (started s)), (sq_urgent (store s)); discriminate U.
      +
        match goal with |- context [newly_granted s ?x] => set (s1 := x) in * end.
        assert (Hn : newly_granted s s1 = None) by (apply newly_granted_same; reflexivity). rewrite Hn.
        match goal with E : urgent s = false |- _ => rename E into U end.
        match goal with E : chl s = _ |- _ => rename E into Ec end.
        unfold urgent, child_urgent in U. rewrite Ec in U.
        apply orb_false_iff in U as (U & _). apply orb_false_iff in U as (U & _).
        apply orb_false_iff in U as (_ & Uq). apply sq_urgent_false in Uq as (_ & NG).
        assert (Ep : pending s = None).
        { unfold pending. rewrite Ec. destruct (get (store s)) as [| |y] eqn:G; [reflexivity|reflexivity|exfalso; apply (NG y); reflexivity]. }
        assert (Ep1 : pending s1 = None).
        { unfold pending, s1; cbn [store chl with_child with_store]. rewrite ?Ec. destruct (get (store s)) as [| |y] eqn:G; [reflexivity|reflexivity|exfalso; apply (NG y); reflexivity]. }
        rewrite Ep. rewrite Ep1 in IH. split; [discriminate|exact IH].
      +
        exfalso. match goal with E : urgent s = false |- _ => rename E into U end.
        match goal with E : chl s = _ |- _ => rename E into Ec end.
        unfold urgent, child_urgent in U. rewrite Ec in U.
        destruct (negb (started s)), (sq_urgent (store s)); discriminate U.
  Qed.

  (* ---- never idle with a backlog; back-to-back transmissions ---- *)
  (* scanning forward: the clock does not move before the next transmission starts, and it starts at t0 *)
  Fixpoint starts_at (t0 : Q) (tr : list (tev S)) : Prop :=
    match tr with
    | [] => True
    | (a, _, s1) :: t =>
        match a with
        | FChildInit => now s1 = t0
        | FAdvance _ => False
        | _ => starts_at t0 t
        end
    end.

  Lemma perm_nonempty (A : Type) (l l' : list A) : Permutation l' l -> l <> [] -> l' <> [].
  Proof. intros P H E. subst l'. apply Permutation_nil in P. contradiction. Qed.

  Theorem srv_no_idle_backlog_gen acts : forall s s' tr,
    Reach s -> puts_conf acts -> runS s acts = Some (s', tr) ->
    held S s <> [] -> (forall e dl, chl s <> CTx e dl) -> starts_at (now s) tr.
  Proof.
    induction acts as [|a rest IH]; intros s s' tr R C H Hh NT.
    - cbn in H. injection H as _ <-. exact I.
    - apply run_cons in H as (s1 & o & tr' & A & H & ->). apply puts_conf_cons in C as (Ca & Cr).
      assert (R1 : Reach s1) by (eapply reachS; eauto).
      specialize (IH _ _ _ R1 Cr H). pose proof (step_held S rate _ _ _ _ A) as SH.
      cbn [starts_at].
      destruct a.
      + (* FPut *) destruct SH as (E & _ & _).
        assert (En : now s1 = now s) by (act_inv A; reflexivity).
        assert (Ec : chl s1 = chl s) by (act_inv A; reflexivity).
        rewrite <- En. apply IH; [rewrite E; intros F; apply app_eq_nil in F as (_ & F); discriminate|].
        intros e dl. rewrite Ec. apply NT.
      + destruct SH as (P & _ & _).
        assert (En : now s1 = now s) by (act_inv A; reflexivity).
        assert (Ec : chl s1 = chl s) by (act_inv A; reflexivity).
        rewrite <- En. apply IH; [eapply perm_nonempty; eauto|]. intros e dl. rewrite Ec. apply NT.
      + destruct SH as (P & _ & _).
        assert (En : now s1 = now s) by (act_inv A; reflexivity).
        assert (Ec : chl s1 = chl s) by (act_inv A; reflexivity).
        rewrite <- En. apply IH; [eapply perm_nonempty; eauto|]. intros e dl. rewrite Ec. apply NT.
      + destruct SH as (P & _ & _).
        assert (En : now s1 = now s) by (act_inv A; reflexivity).
        assert (Ec : exists e, chl s1 = CInit e) by (act_inv A; eexists; reflexivity).
        rewrite <- En. apply IH; [eapply perm_nonempty; eauto|]. intros e dl. destruct Ec as (e' & ->). discriminate.
      + act_inv A. reflexivity.
      + exfalso. destruct SH as (e & dl & Ec & _). eapply NT; eauto.
      + destruct SH as (e & _ & _ & P & _).
        assert (En : now s1 = now s) by (act_inv A; reflexivity).
        assert (Ec : chl s1 = CNone) by (act_inv A; reflexivity).
        rewrite <- En. apply IH; [eapply perm_nonempty; eauto|]. intros e' dl. rewrite Ec. discriminate.
      + act_inv A;
          (match goal with U : urgent s = false |- _ =>
             destruct (srv_work_conserving S rate rate_pos st0 conf cls D s R U) as [(e' & dl' & Ec' & _)|E] end;
           [first [congruence | (eapply NT; reflexivity)]|contradiction]).
  Qed.

  (* if a packet is held right after any step of a run and no transmission is in progress, the next
     transmission starts before the clock moves, i.e. in that very instant *)
  Theorem srv_no_idle_backlog acts s' tr :
    puts_conf acts -> runS (srv0 0 st0) acts = Some (s', tr) ->
    forall tr1 a o s1 tr2, tr = tr1 ++ (a, o, s1) :: tr2 ->
    held S s1 <> [] -> (forall e dl, chl s1 <> CTx e dl) -> starts_at (now s1) tr2.
  Proof.
    intros C H tr1. revert acts s' tr C H. generalize (reach0 S rate st0 conf). generalize (srv0 0 st0) as s.
    induction tr1 as [|ev tr1 IH]; intros s R acts s' tr C H a o s1 tr2 E Hh NT.
    - destruct acts as [|a0 rest]; [cbn in H; injection H as _ <-; discriminate|].
      apply run_cons in H as (s2 & o2 & tr' & A & H & ->). apply puts_conf_cons in C as (Ca & Cr).
      cbn [app] in E. injection E as <- <- <- <-.
      eapply srv_no_idle_backlog_gen; [eapply reachS; eauto|exact Cr|exact H|exact Hh|exact NT].
    - destruct acts as [|a0 rest]; [cbn in H; injection H as _ <-; discriminate|].
      apply run_cons in H as (s2 & o2 & tr' & A & H & ->). apply puts_conf_cons in C as (Ca & Cr).
      cbn [app] in E. injection E as _ E.
      eapply (IH s2); [eapply reachS; eauto|exact Cr|exact H|exact E|exact Hh|exact NT].
  Qed.

  (* in particular after the end of a transmission: back-to-back service *)
  Corollary srv_back_to_back acts s' tr :
    puts_conf acts -> runS (srv0 0 st0) acts = Some (s', tr) ->
    forall tr1 o s1 tr2, tr = tr1 ++ (FChildTimer, o, s1) :: tr2 -> held S s1 <> [] -> starts_at (now s1) tr2.
  Proof.
    intros C H tr1 o s1 tr2 E Hh. eapply srv_no_idle_backlog; eauto.
    (* right after FChildTimer the child is CEnded *)
    assert (Hc : exists e, chl s1 = CEnded e).
    { clear Hh. revert acts s' tr C H E. generalize (srv0 0 st0) as s.
      induction tr1 as [|ev tr1 IH]; intros s acts s' tr C H E.
      - destruct acts as [|a0 rest]; [cbn in H; injection H as _ <-; discriminate|].
        apply run_cons in H as (s2 & o2 & tr' & A & H & ->). cbn [app] in E. injection E as -> -> -> ->.
        act_inv A. eexists. reflexivity.
      - destruct acts as [|a0 rest]; [cbn in H; injection H as _ <-; discriminate|].
        apply run_cons in H as (s2 & o2 & tr' & A & H & ->). apply puts_conf_cons in C as (Ca & Cr).
        cbn [app] in E. injection E as _ E. eapply (IH s2); eauto. }
    destruct Hc as (e & ->). discriminate.
  Qed.

  (* ---- one at a time, as properties of single steps: a transmission starts only when none is in progress;
          while one is in progress no step aborts it or forwards anything, and it ends only at its end
          instant with its own packet; nothing but the end of a transmission forwards ---- *)
  Theorem srv_start_when_free s s' o :
    actS s FChildInit = Ok (s', o) ->
    current_packet s = None /\
    exists e, chl s = CInit e /\ chl s' = CTx e (Qred (now s + tx_time rate (epkt e))) /\ current_packet s' = Some (epkt e).
  Proof.
    intros A. unfold act in A. unfold current_packet. destruct (chl s) as [|e|e dl|e] eqn:Ec; try discriminate A.
    apply Ok_inj in A as [-> ->]. split; [reflexivity|]. exists e. cbn [chl with_child]. auto.
  Qed.

  Theorem srv_never_aborts s a s' o e dl :
    Reach s -> chl s = CTx e dl -> actS s a = Ok (s', o) ->
    (a = FChildTimer /\ o = [OForward (epkt e)] /\ dl == now s /\ chl s' = CEnded e /\ current_packet s' = None) \/
    (a <> FChildTimer /\ chl s' = CTx e dl /\ o = [] /\ now s' <= dl).
  Proof.
    intros R Ec A. destruct (Inv_reach S rate rate_pos st0 conf cls D s R) as ((_ & _ & _ & Dl) & _).
    specialize (Dl e dl Ec).
    destruct a; unfold act in A; rewrite ?Ec in A.
    - destruct (st_put S (now s) (stm s) p) as [[st' F]|]; [|discriminate A]. apply Ok_inj in A as [-> ->].
      right. cbn [chl now]. split; [discriminate|]. auto.
    - destruct (started s); [discriminate A|]. destruct (sq_get pq_pop (store s)); [|discriminate A].
      apply Ok_inj in A as [-> ->]. right. cbn [chl now]. split; [discriminate|]. auto.
    - destruct (sq_cb pq_pop (store s)); [|discriminate A]. apply Ok_inj in A as [-> ->].
      right. cbn [chl now with_store]. split; [discriminate|]. auto.
    - discriminate A.
    - discriminate A.
    - destruct (Qeq_bool dl (now s)) eqn:E; [|discriminate A]. apply Ok_inj in A as [-> ->].
      left. apply Qeq_bool_iff in E. unfold current_packet. cbn [chl]. auto 6.
    - discriminate A.
    - destruct (urgent s); [discriminate A|]. destruct (Qlt_le_dec (now s) t); [|discriminate A].
      destruct (Qle_bool t dl) eqn:E; [|discriminate A]. apply Ok_inj in A as [-> ->].
      right. cbn [chl now]. split; [discriminate|]. split; [reflexivity|]. split; [reflexivity|]. apply Qle_bool_iff. exact E.
  Qed.

  Theorem srv_only_end_forwards s a s' o : actS s a = Ok (s', o) -> o <> [] -> a = FChildTimer.
  Proof.
    intros A Ho. destruct a; try reflexivity; act_inv A; exfalso; apply Ho; reflexivity.
  Qed.
End Trace.
