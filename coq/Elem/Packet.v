(* Packets as the network elements see them.  [uid] is the object identity (creation index assigned
   by the harness); the other fields are the identifying header fields of onl/packet/packet.py. *)
From Coq Require Import ZArith QArith List Bool.
Import ListNotations.

Record pkt := { uid : nat; pid : Z; flow : Z; psize : Z; ptime : Q }.

Definition pkt_eqb (a b : pkt) : bool :=
  Nat.eqb (uid a) (uid b) && Z.eqb (pid a) (pid b) && Z.eqb (flow a) (flow b)
  && Z.eqb (psize a) (psize b) && Qeq_bool (ptime a) (ptime b).

Definition mkp (u : nat) (i f s : Z) (t : Q) : pkt :=
  {| uid := u; pid := i; flow := f; psize := s; ptime := t |}.
