(* Back-to-back transmissions and progress of the DRR model: the fuel of [dpasses] always suffices, every action whose
   kernel-level guard holds is accepted by the model (no error state is reachable). *)
From Coq Require Import ZArith QArith Qminmax List Bool Lia Lqa.
From ONL Require Import Elem.Packet Elem.StoreQ Elem.StoreQProofs Elem.DRR Elem.DRRInv Elem.DRRProofs Elem.DRRVisit Elem.DRRFair.
Import ListNotations.
Opaque Qred.

Lemma drr_run_app cfg : forall a1 d d1 t1 a2 d2 t2,
  drr_run cfg d a1 = Some (d1, t1) -> drr_run cfg d1 a2 = Some (d2, t2) -> drr_run cfg d (a1 ++ a2) = Some (d2, t1 ++ t2).
Proof.
  induction a1 as [|a r IH]; intros d d1 t1 a2 d2 t2 H1 H2; cbn [drr_run app] in *.
  - injection H1 as <- <-. exact H2.
  - destruct (drr_act cfg d a) as [[d' o]|]; [|discriminate].
    destruct (drr_run cfg d' r) as [[d'' tr]|] eqn:R; [|discriminate]. injection H1 as <- <-.
    rewrite (IH _ _ _ _ _ _ R H2). reflexivity.
Qed.

(* only DChildInit starts a transmission *)
Definition dnot_tx (d : drr) : Prop := forall p dl, dchd d <> DCTx p dl.

Lemma dchd_ns_not_tx d : dchd_ns d -> dnot_tx d.
Proof. intros [E|(q & E)] p dl; rewrite E; discriminate. Qed.

Lemma dstep_not_tx cfg d a d' ev :
  dwf cfg -> dinv cfg d -> drr_act cfg d a = Some (d', ev) -> a <> DChildInit -> dnot_tx d -> dnot_tx d'.
Proof.
  intros Hwf I A Ha Hn. pose proof (i_ctl _ _ I) as C. unfold dctl_ok in C.
  unfold drr_act in A. destruct a as [p| |[k|]|[k|]| | | |t].
  - cbv zeta in A. destruct (_ && _); [|discriminate]. injection A as <- <-. exact Hn.
  - destruct (dctrl d) eqn:K; try discriminate. destruct C as (C1 & _).
    apply dchd_ns_not_tx. apply (dpasses_ok _ _ _ _ _ C1 A).
  - destruct (dmemZ k (dclasses cfg)); [|discriminate]. destruct (sq_cb fifo_pop (dst d k)); [|discriminate].
    injection A as <- <-. exact Hn.
  - destruct (sq_cb fifo_pop (dtok d)); [|discriminate]. injection A as <- <-. exact Hn.
  - destruct (dctrl d) as [| |c0 rest|] eqn:K; try discriminate. destruct (Z.eqb k c0); [|discriminate].
    destruct (sq_take (dst d k)) as [[[t0 p] q]|]; [|discriminate]. destruct C as (C1 & _).
    assert (Hr : match dtry_head k rest (dset_st d k q) p with
                 | DYield d0 e0 => forallb dinternal e0 = true /\ dchd_ns d0
                 | DFall d0 e0 => forallb dinternal e0 = true /\ dchd d0 = DCNone | DErr => True end).
    { pose proof (dtry_head_ok k rest (dset_st d k q) p C1) as Hk.
      destruct (dtry_head k rest (dset_st d k q) p) as [d0 e0|d0 e0|] eqn:Et; cbn [dres_ok] in Hk; auto.
      split; [apply Hk|]. apply (dtry_head_fall_chd k rest (dset_st d k q) p d0 e0 C1 Et). }
    apply dchd_ns_not_tx. apply (dcontinue_ok _ _ _ _ _ Hr A).
  - destruct (dctrl d) eqn:K; try discriminate. destruct (sq_take (dtok d)) as [[x q]|]; [|discriminate]. destruct C as (C1 & _).
    assert (C1' : dchd (dset_tok d q) = DCNone) by exact C1.
    apply dchd_ns_not_tx. apply (dpasses_ok _ _ _ _ _ C1' A).
  - contradiction.
  - destruct (dchd d) as [| |p dl|] eqn:Ch; try discriminate. exfalso. apply (Hn p dl). exact Ch.
  - destruct (dchd d) as [| | |p] eqn:Ch; try discriminate. destruct (dctrl d) as [| | |c0 rest] eqn:K; try discriminate.
    destruct (dcontinue cfg rest (dinner c0 rest (ddebit d c0 rest p))) as [[d2 e2]|] eqn:Dc; [|discriminate]. injection A as <- <-.
    assert (Ch1 : dchd (ddebit d c0 rest p) = DCNone) by reflexivity.
    assert (Hr : match dinner c0 rest (ddebit d c0 rest p) with
                 | DYield d0 e0 => forallb dinternal e0 = true /\ dchd_ns d0
                 | DFall d0 e0 => forallb dinternal e0 = true /\ dchd d0 = DCNone | DErr => True end).
    { pose proof (dinner_ok c0 rest (ddebit d c0 rest p) Ch1) as Hk.
      destruct (dinner c0 rest (ddebit d c0 rest p)) as [d0 e0|d0 e0|] eqn:Et; cbn [dres_ok] in Hk; auto.
      split; [apply Hk|]. apply (dinner_fall_chd _ _ _ _ _ Ch1 Et). }
    apply dchd_ns_not_tx. apply (dcontinue_ok _ _ _ _ _ Hr Dc).
  - destruct (durgent cfg d); [discriminate|]. destruct (Qlt_le_dec (dnow d) t); [|discriminate]. cbv zeta in A.
    assert (E0 : dchd d' = dchd d).
    { destruct (dchd d) as [|p|p dl|p]; try (injection A as <- <-; reflexivity).
      destruct (Qle_bool t dl); [|discriminate]. injection A as <- <-. reflexivity. }
    intros p dl. rewrite E0. apply Hn.
Qed.

Lemma daction_eq_init (a : daction) : {a = DChildInit} + {a <> DChildInit}.
Proof. destruct a; try (right; discriminate). left. reflexivity. Qed.

Lemma drun_now cfg : forall acts d d' tr,
  dwf cfg -> dinv cfg d -> drr_run cfg d acts = Some (d', tr) -> (forall t, ~ In (DAdvance t) acts) -> dnow d' = dnow d.
Proof.
  induction acts as [|a r IH]; intros d d' tr Hwf I H Hadv; cbn [drr_run] in H.
  - injection H as <- <-. reflexivity.
  - destruct (drr_act cfg d a) as [[d1 o]|] eqn:A; [|discriminate].
    destruct (drr_run cfg d1 r) as [[d2 tr2]|] eqn:R; [|discriminate]. injection H as <- <-.
    destruct (dstep_frame cfg d a d1 o Hwf I A) as (_ & _ & _ & Hnow).
    rewrite (IH d1 d2 tr2 Hwf (dinv_step _ _ _ _ _ Hwf I A) R); [|intros t Ht; apply (Hadv t); right; exact Ht].
    apply Hnow. intros t E. apply (Hadv t). left. exact E.
Qed.

Lemma drun_not_tx cfg : forall acts d d' tr,
  dwf cfg -> dinv cfg d -> drr_run cfg d acts = Some (d', tr) -> dnot_tx d -> In DChildInit acts \/ dnot_tx d'.
Proof.
  induction acts as [|a r IH]; intros d d' tr Hwf I H Hn; cbn [drr_run] in H.
  - injection H as <- <-. right. exact Hn.
  - destruct (drr_act cfg d a) as [[d1 o]|] eqn:A; [|discriminate].
    destruct (drr_run cfg d1 r) as [[d2 tr2]|] eqn:R; [|discriminate]. injection H as <- <-.
    destruct (daction_eq_init a) as [->|Hne]; [left; left; reflexivity|].
    destruct (IH d1 d2 tr2 Hwf (dinv_step _ _ _ _ _ Hwf I A) R (dstep_not_tx cfg d a d1 o Hwf I A Hne Hn)) as [Hin|Hn2].
    + left. right. exact Hin.
    + right. exact Hn2.
Qed.

(* C12: if a packet is held when a transmission ends, the next transmission starts at that very instant:
   d0 is a state in which a transmission has just ended (DCDone); whatever happens next without the clock moving
   (acts1), when the clock may move on again (d1 not urgent) and a packet is still held, a transmission is in
   progress and it was started within acts1, i.e. at the instant the previous one ended *)
Lemma drr_back_to_back_l cfg t0 acts0 d0 tr0 acts1 d1 tr1 p0 :
  dwf cfg -> drr_run cfg (drr0 t0) acts0 = Some (d0, tr0) -> dchd d0 = DCDone p0 ->
  drr_run cfg d0 acts1 = Some (d1, tr1) -> (forall t, ~ In (DAdvance t) acts1) ->
  durgent cfg d1 = false -> (exists c, dheld cfg d1 c <> []) ->
  exists p dl, dchd d1 = DCTx p dl /\ In DChildInit acts1 /\ dnow d1 = dnow d0 /\ dnow d1 < dl.
Proof.
  intros Hwf H0 Ch H1 Hadv U (c & Hc).
  pose proof (dreach_inv _ _ _ _ _ Hwf H0) as I0.
  pose proof (drr_run_app cfg _ _ _ _ _ _ _ H0 H1) as H01.
  destruct (drr_work_conserving_l cfg t0 _ d1 _ Hwf H01 U) as [(p & dl & E & Hlt)|Hall]; [|exfalso; apply Hc; apply Hall].
  exists p, dl. split; [exact E|]. split; [|split; [apply (drun_now cfg acts1 d0 d1 tr1 Hwf I0 H1 Hadv)|exact Hlt]].
  assert (Hn0 : dnot_tx d0) by (intros q dl0; rewrite Ch; discriminate).
  destruct (drun_not_tx cfg acts1 d0 d1 tr1 Hwf I0 H1 Hn0) as [Hin|Hn1]; [exact Hin|].
  exfalso. apply (Hn1 p dl). exact E.
Qed.

(* ====================================================================================================================== *)
(* Progress: the fuel of [dpasses] suffices                                                                              *)

Lemma dinner_fall_same c rest d d2 e2 :
  dinner c rest d = DFall d2 e2 -> (forall k, ddef d2 k = ddef d k) /\ (forall k, dccnt d2 k = dccnt d k).
Proof.
  unfold dinner. destruct (_ && _); [|intros E; injection E as <- _; auto].
  destruct (dhol d c); [|destruct (sq_get fifo_pop (dst d c)); discriminate].
  unfold dtry_head. destruct (Qle_bool _ _); [discriminate|]. intros E. injection E as <- _. auto.
Qed.

(* a pass (or the rest of one) that sends nothing adds its quantum to every backlogged class it visits, nothing else *)
Lemma dscan_fall_def cfg cs : forall d d1 e1, NoDup cs -> dscan cfg cs d = DFall d1 e1 ->
  (forall k, dccnt d1 k = dccnt d k) /\
  (forall k, ddef d1 k == if dmemZ k cs && (0 <? dccnt d k)%Z then ddef d k + dquantum cfg k else ddef d k).
Proof.
  induction cs as [|c rest IH]; intros d d1 e1 Hnd H; cbn [dscan] in H.
  - injection H as <- _. split; [auto|]. intros k. cbn. reflexivity.
  - inversion Hnd as [|? ? Hnot Hnd']; subst.
    assert (Hv : (forall k, dccnt (fst (dvisit_start cfg c d)) k = dccnt d k) /\
                 (forall k, ddef (fst (dvisit_start cfg c d)) k ==
                            if Z.eqb k c && (0 <? dccnt d c)%Z then ddef d c + dquantum cfg c else ddef d k)).
    { unfold dvisit_start. destruct (0 <? dccnt d c)%Z; cbn [fst]; (split; [auto|]); intros k.
      - cbn [dset_def ddef]. unfold dupd. destruct (Z.eqb k c); cbn [andb]; [apply Qred_correct|reflexivity].
      - rewrite andb_false_r. reflexivity. }
    destruct (dvisit_start cfg c d) as [dv ev]. cbn [fst] in Hv. destruct Hv as [Hv1 Hv2].
    destruct (dinner c rest dv) as [d2 e2|d2 e2|] eqn:Ei; try discriminate.
    destruct (dinner_fall_same _ _ _ _ _ Ei) as [Hi1 Hi2].
    destruct (dscan cfg rest d2) as [d3 e3|d3 e3|] eqn:Es; try discriminate. injection H as <- _.
    destruct (IH d2 d3 e3 Hnd' Es) as [J1 J2]. split.
    + intros k. rewrite J1, Hi2, Hv1. reflexivity.
    + intros k. rewrite J2, Hi2, Hv1, Hi1. cbn [dmemZ existsb]. fold (dmemZ k rest).
      pose proof (Hv2 k) as Hk.
      destruct (Z.eqb_spec k c) as [E0|Hne]; [subst k|].
      * assert (E : dmemZ c rest = false).
        { destruct (dmemZ c rest) eqn:E; [|reflexivity]. exfalso. apply Hnot. apply dmemZ_In. exact E. }
        rewrite E. cbn [andb orb] in *. destruct (0 <? dccnt d c)%Z; exact Hk.
      * cbn [andb orb] in *. destruct (dmemZ k rest && (0 <? dccnt d k)%Z); rewrite Hk; reflexivity.
Qed.

Lemma dpasses_fuel cfg fuel : forall d,
  dwf cfg -> dmid cfg d None ->
  ((0 < dtotal d)%Z -> exists c, In c (dclasses cfg) /\ (0 < dlen cfg d c)%Z
                                /\ inject_Z (dlmax d) < ddef d c + 1500 * inject_Z (Z.of_nat fuel)) ->
  exists r, dpasses fuel cfg d = Some r.
Proof.
  induction fuel as [|n IH]; intros d Hwf M Hf.
  - cbn [dpasses]. destruct (0 <? dtotal d)%Z eqn:T.
    + exfalso. apply Z.ltb_lt in T. destruct (Hf T) as (c & Hc & Hl & Hb).
      destruct (dlen_pos_in _ _ _ Hl) as (p & Hp).
      pose proof (dlmax_pos_of_held _ _ _ _ (m_base _ _ _ M) Hp) as HL.
      assert (R : dparked_or_zero d c) by (apply (m_rest _ _ _ M); discriminate).
      pose proof (dparked_lt_lmax _ _ _ (m_base _ _ _ M) R HL). cbn in Hb. qz. lra.
    + destruct (sq_get_enabled unit fifo_pop (dtok d) (m_tok _ _ _ M)) as (q & Hq). rewrite Hq. eauto.
  - cbn [dpasses]. destruct (0 <? dtotal d)%Z eqn:T.
    + apply Z.ltb_lt in T. destruct (Hf T) as (c & Hc & Hl & Hb).
      pose proof (dscan_spec cfg (dclasses cfg) d Hwf M (dsuffix_all cfg)) as HS.
      destruct (dscan cfg (dclasses cfg) d) as [d1 e1|d1 e1|] eqn:Es; [eauto| |contradiction].
      destruct HS as (M1 & S1 & T1).
      destruct (dscan_fall_def cfg (dclasses cfg) d d1 e1 ltac:(destruct Hwf as (_ & _ & Hnd & _); exact Hnd) Es) as [J1 J2].
      destruct (IH d1 Hwf M1) as (r & Hr).
      * intros _. exists c. split; [exact Hc|]. unfold dlen. rewrite (s_held _ _ _ S1). split; [exact Hl|].
        rewrite (s_lmax _ _ _ S1), (J2 c).
        assert (E1 : dmemZ c (dclasses cfg) = true) by (apply dmemZ_In; exact Hc).
        assert (E2 : (0 <? dccnt d c)%Z = true) by (apply Z.ltb_lt; rewrite (dmid_ccnt _ _ _ c M); exact Hl).
        rewrite E1, E2. cbn [andb].
        pose proof (dquantum_ge cfg c Hwf Hc) as HQ.
        rewrite Nat2Z.inj_succ in Hb. unfold Z.succ in Hb. rewrite inject_Z_plus in Hb. qz. lra.
      * rewrite Hr. destruct r as [d2 e2]. eauto.
    + destruct (sq_get_enabled unit fifo_pop (dtok d) (m_tok _ _ _ M)) as (q & Hq). rewrite Hq. eauto.
Qed.

Lemma dpasses_total cfg d : dwf cfg -> dmid cfg d None -> exists r, dpasses (dfuel d) cfg d = Some r.
Proof.
  intros Hwf M. apply (dpasses_fuel cfg (dfuel d) d Hwf M). intros T.
  destruct (dtotal_pos_ex cfg d (m_base _ _ _ M) T) as (c & Hc & Hne). exists c. split; [exact Hc|]. split.
  - unfold dlen. destruct (dheld cfg d c); [contradiction|cbn; lia].
  - destruct (b_def _ _ (m_base _ _ _ M) c) as [D0 _]. pose proof (b_lmax _ _ (m_base _ _ _ M)) as L0.
    assert (Hz : (dlmax d < 1500 * Z.of_nat (dfuel d))%Z).
    { unfold dfuel. rewrite !Nat2Z.inj_succ, Z2Nat.id by (apply Z.div_pos; lia).
      pose proof (Z.div_mod (dlmax d) 1024 ltac:(lia)). pose proof (Z.mod_pos_bound (dlmax d) 1024 ltac:(lia)). lia. }
    rewrite Zlt_Qlt in Hz. rewrite inject_Z_mult in Hz. change (inject_Z 1500) with 1500 in Hz. lra.
Qed.

Lemma dcontinue_total cfg rest r :
  dwf cfg -> dsuffix cfg rest ->
  match r with DYield d _ => True | DFall d _ => dmid cfg d None | DErr => False end ->
  exists res, dcontinue cfg rest r = Some res.
Proof.
  intros Hwf Hsuf Hr. destruct r as [d e|d e|]; cbn [dcontinue]; [eauto| |contradiction].
  pose proof (dscan_spec cfg rest d Hwf Hr Hsuf) as HS.
  destruct (dscan cfg rest d) as [d1 e1|d1 e1|]; [eauto| |contradiction].
  destruct HS as (M1 & _). destruct (dpasses_total cfg d1 Hwf M1) as ([d2 e2] & P). rewrite P. eauto.
Qed.

(* C08/C12: no admissible execution reaches an error state: in every reachable state every action whose guard (as the
   kernel sees it) holds is accepted by the model -- in particular run() never spins through [dpasses] without reaching
   a yield *)
Theorem drr_progress_l cfg t0 acts d tr :
  dwf cfg -> drr_run cfg (drr0 t0) acts = Some (d, tr) ->
  (dctrl d = DKFresh -> exists r, drr_act cfg d DInit = Some r)
  /\ (forall x, get (dtok d) = GGranted x -> exists r, drr_act cfg d (DGetDone None) = Some r)
  /\ (forall c x, get (dst d c) = GGranted x -> exists r, drr_act cfg d (DGetDone (Some c)) = Some r)
  /\ (forall p, dchd d = DCStart p -> exists r, drr_act cfg d DChildInit = Some r)
  /\ (forall p dl, dchd d = DCTx p dl -> dl == dnow d -> exists r, drr_act cfg d DChildTimer = Some r)
  /\ (forall p, dchd d = DCDone p -> exists r, drr_act cfg d DChildEnd = Some r)
  /\ ((pend (dtok d) > 0)%nat -> exists r, drr_act cfg d (DStoreCb None) = Some r)
  /\ (forall c, In c (dclasses cfg) -> (pend (dst d c) > 0)%nat -> exists r, drr_act cfg d (DStoreCb (Some c)) = Some r)
  /\ (forall p, In (dcls cfg p) (dclasses cfg) -> (0 < psize p)%Z -> exists r, drr_act cfg d (DPut p) = Some r)
  /\ (forall t, durgent cfg d = false -> dnow d < t -> (forall p dl, dchd d = DCTx p dl -> t <= dl) ->
      exists r, drr_act cfg d (DAdvance t) = Some r).
Proof.
  intros Hwf H. pose proof (dreach_inv _ _ _ _ _ Hwf H) as I. pose proof (i_ctl _ _ I) as C. pose proof (i_base _ _ I) as B.
  unfold dctl_ok in C. repeat split.
  - intros K. unfold drr_act. rewrite K in *. destruct C as (C1 & C2 & C3).
    apply dpasses_total; [exact Hwf|]. apply dinv_mid; auto. unfold dvisiting. rewrite K. reflexivity.
  - intros x G. unfold drr_act. destruct (dctrl d) as [| |c rest|c rest] eqn:K.
    + destruct C as (_ & C2 & _). congruence.
    + destruct C as (C1 & C2 & C3). destruct (sq_take_enabled unit (dtok d) x G) as (q & Tk). rewrite Tk.
      pose proof (sq_take_inv unit _ _ _ Tk) as (_ & Ei & Ep & Gq).
      apply dpasses_total; [exact Hwf|]. constructor; cbn; auto.
      * apply (dbase_transfer cfg d _ B); [constructor; reflexivity|intros k; reflexivity| |apply (b_def _ _ B)].
        cbn. apply (fifo_nostrand_take unit _ _ _ Tk).
      * intros k _. apply (i_rest _ _ I). unfold dvisiting. rewrite K. discriminate.
      * intros k Hk. discriminate.
    + destruct C as (_ & C2 & _). congruence.
    + destruct C as (_ & C2 & _). congruence.
  - intros c x G. unfold drr_act. destruct (dctrl d) as [| |c0 rest|c0 rest] eqn:K.
    + destruct C as (_ & _ & C3). rewrite C3 in G. discriminate.
    + destruct C as (_ & _ & C3). rewrite C3 in G. discriminate.
    + destruct (Z.eqb_spec c c0) as [->|Hne].
      * destruct (sq_take_enabled pkt (dst d c0) x G) as (q & Tk). rewrite Tk. destruct x as [t p].
        destruct (dget_mid cfg d c0 rest t p q Hwf I K Tk) as (M & S2 & Hpos & Hsuf & Ch).
        pose proof (dtry_head_spec cfg (dset_st d c0 q) c0 rest p Hwf M Hsuf) as HT.
        apply (dcontinue_total cfg rest _ Hwf (dsuffix_tail _ _ _ Hsuf)).
        destruct (dtry_head c0 rest (dset_st d c0 q) p); [exact Logic.I|apply HT|exact HT].
      * destruct C as (_ & _ & _ & C4 & _). rewrite (C4 c Hne) in G. discriminate.
    + destruct C as (_ & _ & C3 & _). rewrite C3 in G. discriminate.
  - intros p Ch. unfold drr_act. rewrite Ch. eauto.
  - intros p dl Ch E. unfold drr_act. rewrite Ch.
    assert (Eb : Qeq_bool dl (dnow d) = true) by (apply Qeq_bool_iff; exact E). rewrite Eb. eauto.
  - intros p Ch. unfold drr_act. rewrite Ch.
    destruct (dctl_child cfg d (i_ctl _ _ I) ltac:(congruence)) as (c & rest & p0 & K & _). rewrite K.
    destruct (dchildend_mid cfg d c rest p Hwf I Ch K) as (M & S1 & Hsuf & _).
    pose proof (dinner_spec cfg (ddebit d c rest p) c rest Hwf M Hsuf) as HI.
    destruct (dcontinue_total cfg rest (dinner c rest (ddebit d c rest p)) Hwf (dsuffix_tail _ _ _ Hsuf)) as ([d2 e2] & Dc).
    + destruct (dinner c rest (ddebit d c rest p)); [exact Logic.I|apply HI|exact HI].
    + rewrite Dc. eauto.
  - intros Hp. unfold drr_act. destruct (proj1 (sq_cb_enabled unit fifo_pop (dtok d)) Hp) as (q & Hq). rewrite Hq. eauto.
  - intros c Hc Hp. unfold drr_act. apply dmemZ_In in Hc. rewrite Hc.
    destruct (proj1 (sq_cb_enabled pkt fifo_pop (dst d c)) Hp) as (q & Hq). rewrite Hq. eauto.
  - intros p Hc Hp. unfold drr_act. cbv zeta. unfold dcls in Hc. apply dmemZ_In in Hc. rewrite Hc.
    assert (E : (0 <? psize p)%Z = true) by (apply Z.ltb_lt; exact Hp). rewrite E. cbn [andb]. eauto.
  - intros t U Lt Hdl. unfold drr_act. rewrite U. destruct (Qlt_le_dec (dnow d) t) as [_|Hle]; [|exfalso; lra].
    cbv zeta. destruct (dchd d) as [|p|p dl|p] eqn:Ch; eauto.
    assert (E : Qle_bool t dl = true) by (apply Qle_bool_iff; apply (Hdl p dl eq_refl)). rewrite E. eauto.
Qed.
