(* Proofs about Elem/WFQServer.v, for every stamping discipline that satisfies the interface [stamper_ok]
   (instantiated by WFQProofs.v and VCProofs.v).

   Part 1  the key order (Python's tuple comparison on (stamp, now, arrivals)) is a strict weak order, strict
           and total on keys with different arrival counters; hence the list model of the PriorityStore pops
           exactly what CPython's heapq pops (HeapProofs.heap_sim_pop).
   Part 2  reachable states; the control invariant (no stranded consumer, who waits for what, deadline not
           passed); shape of every step.
   Part 3  the order invariant of the store (arrival counters increasing, per-class stamps non-decreasing and
           bounded by the discipline's last stamp, keys pairwise distinct), the discipline never raises,
           the selection takes the strictly least key, counters. *)
From Coq Require Import ZArith QArith Qminmax Qabs List Bool Lia Lqa Permutation.
From ONL Require Import Elem.Packet Elem.StoreQ Elem.StoreQProofs Elem.HeapList Elem.Heap Elem.HeapProofs Elem.WFQServer.
Import ListNotations.

(* ---------------------------------------------------------------------------------------------------- *)
(* Part 1: the key order                                                                                  *)

Lemma Qltb_true a b : Qltb a b = true <-> a < b.
Proof.
  unfold Qltb. rewrite negb_true_iff. split.
  - intros H. apply Qnot_le_lt. intros L. apply Qle_bool_iff in L. congruence.
  - intros H. destruct (Qle_bool b a) eqn:E; [|reflexivity]. apply Qle_bool_iff in E. apply Qlt_not_le in H. contradiction.
Qed.

Lemma Qltb_false a b : Qltb a b = false <-> b <= a.
Proof.
  unfold Qltb. rewrite negb_false_iff. apply Qle_bool_iff.
Qed.

Definition klt (a b : Q * Q * nat) : Prop :=
  match a, b with
  | (s1, t1, n1), (s2, t2, n2) => s1 < s2 \/ (s1 == s2 /\ (t1 < t2 \/ (t1 == t2 /\ (n1 < n2)%nat)))
  end.

Definition keq (a b : Q * Q * nat) : Prop :=
  match a, b with
  | (s1, t1, n1), (s2, t2, n2) => s1 == s2 /\ t1 == t2 /\ n1 = n2
  end.

Lemma key_ltb_true a b : key_ltb a b = true <-> klt a b.
Proof.
  destruct a as [[s1 t1] n1], b as [[s2 t2] n2]. unfold key_ltb, klt.
  destruct (Qeq_bool s1 s2) eqn:Es.
  - apply Qeq_bool_iff in Es. destruct (Qeq_bool t1 t2) eqn:Et.
    + apply Qeq_bool_iff in Et. rewrite Nat.ltb_lt. split.
      * intros H. right. split; [exact Es|]. right. split; [exact Et|exact H].
      * intros [H|[_ [H|[_ H]]]]; [lra|lra|exact H].
    + assert (Hn : ~ t1 == t2) by (intros H; apply Qeq_bool_iff in H; congruence).
      rewrite Qltb_true. split.
      * intros H. right. split; [exact Es|]. left. exact H.
      * intros [H|[_ [H|[H _]]]]; [lra|exact H|contradiction].
  - assert (Hn : ~ s1 == s2) by (intros H; apply Qeq_bool_iff in H; congruence).
    rewrite Qltb_true. split.
    + intros H. left. exact H.
    + intros [H|[H _]]; [exact H|contradiction].
Qed.

Lemma klt_total a b : klt a b \/ keq a b \/ klt b a.
Proof.
  destruct a as [[s1 t1] n1], b as [[s2 t2] n2]. unfold klt, keq.
  destruct (Q_dec s1 s2) as [[H|H]|H]; [left; left; exact H|right; right; left; exact H|].
  destruct (Q_dec t1 t2) as [[G|G]|G].
  - left. right. split; [exact H|]. left. exact G.
  - right. right. right. split; [symmetry; exact H|]. left. exact G.
  - destruct (lt_eq_lt_dec n1 n2) as [[L|L]|L].
    + left. right. split; [exact H|]. right. split; [exact G|exact L].
    + right. left. auto.
    + right. right. right. split; [symmetry; exact H|]. right. split; [symmetry; exact G|exact L].
Qed.

Lemma klt_irrefl a : ~ klt a a.
Proof.
  destruct a as [[s t] n]. unfold klt. intros [H|[_ [H|[_ H]]]]; [lra|lra|lia].
Qed.

Lemma klt_trans a b c : klt a b -> klt b c -> klt a c.
Proof.
  destruct a as [[s1 t1] n1], b as [[s2 t2] n2], c as [[s3 t3] n3]. unfold klt.
  intros [H|[H1 [H|[H2 H3]]]] [G|[G1 [G|[G2 G3]]]];
    first [ left; lra
          | right; split; [lra|]; first [ left; lra | right; split; [lra|lia] ] ].
Qed.

Lemma klt_keq_l a b c : keq a b -> klt b c -> klt a c.
Proof.
  destruct a as [[s1 t1] n1], b as [[s2 t2] n2], c as [[s3 t3] n3]. unfold klt, keq.
  intros (H1 & H2 & H3) [G|[G1 [G|[G2 G3]]]];
    first [ left; lra
          | right; split; [lra|]; first [ left; lra | right; split; [lra|lia] ] ].
Qed.

Lemma klt_keq_r a b c : klt a b -> keq b c -> klt a c.
Proof.
  destruct a as [[s1 t1] n1], b as [[s2 t2] n2], c as [[s3 t3] n3]. unfold klt, keq.
  intros [G|[G1 [G|[G2 G3]]]] (H1 & H2 & H3);
    first [ left; lra
          | right; split; [lra|]; first [ left; lra | right; split; [lra|lia] ] ].
Qed.

Lemma keq_trans a b c : keq a b -> keq b c -> keq a c.
Proof.
  destruct a as [[s1 t1] n1], b as [[s2 t2] n2], c as [[s3 t3] n3]. unfold keq.
  intros (H1 & H2 & H3) (G1 & G2 & G3). repeat split; [lra|lra|lia].
Qed.

Lemma keq_sym a b : keq a b -> keq b a.
Proof.
  destruct a as [[s1 t1] n1], b as [[s2 t2] n2]. unfold keq. intros (H1 & H2 & H3). repeat split; [lra|lra|lia].
Qed.

Lemma key_ltb_false a b : key_ltb a b = false <-> (keq a b \/ klt b a).
Proof.
  split.
  - intros H. destruct (klt_total a b) as [K|K]; [|exact K].
    apply key_ltb_true in K. congruence.
  - intros H. destruct (key_ltb a b) eqn:E; [|reflexivity]. apply key_ltb_true in E. exfalso.
    destruct H as [H|H].
    + apply (klt_irrefl b). eapply klt_keq_l; [apply keq_sym; exact H|exact E].
    + apply (klt_irrefl a). eapply klt_trans; eauto.
Qed.

Lemma key_ltb_irrefl a : key_ltb a a = false.
Proof. destruct (key_ltb a a) eqn:E; [|reflexivity]. apply key_ltb_true in E. exfalso. eapply klt_irrefl; eauto. Qed.

Lemma key_ltb_trans a b c : key_ltb a b = true -> key_ltb b c = true -> key_ltb a c = true.
Proof. rewrite !key_ltb_true. apply klt_trans. Qed.

Lemma key_ltb_negtrans a b c : key_ltb a b = false -> key_ltb b c = false -> key_ltb a c = false.
Proof.
  rewrite !key_ltb_false. intros [H|H] [G|G].
  - left. eapply keq_trans; eauto.
  - right. eapply klt_keq_r; [exact G|apply keq_sym; exact H].
  - right. eapply klt_keq_l; [apply keq_sym; exact G|exact H].
  - right. eapply klt_trans; eauto.
Qed.

Lemma entry_ltb_irrefl (a : entry) : entry_ltb a a = false.
Proof. apply key_ltb_irrefl. Qed.
Lemma entry_ltb_trans (a b c : entry) : entry_ltb a b = true -> entry_ltb b c = true -> entry_ltb a c = true.
Proof. apply key_ltb_trans. Qed.
Lemma entry_ltb_negtrans (a b c : entry) : entry_ltb a b = false -> entry_ltb b c = false -> entry_ltb a c = false.
Proof. apply key_ltb_negtrans. Qed.

(* keys with different arrival counters are strictly comparable *)
Lemma entry_ltb_seq_total (a b : entry) : iseq (snd a) <> iseq (snd b) -> entry_ltb a b = true \/ entry_ltb b a = true.
Proof.
  intros Hn. unfold entry_ltb. rewrite !key_ltb_true.
  destruct (klt_total (ekey a) (ekey b)) as [H|[H|H]]; [left; exact H| |right; exact H].
  exfalso. unfold ekey, keq in H. destruct H as (_ & _ & H). contradiction.
Qed.

(* what pop does *)
Definition least (x : entry) (l : list entry) : Prop := forall y, In y l -> entry_ltb y x = false.

Lemma pq_pop_total : pop_total pq_pop.
Proof. intros l H. apply (lpop_none _ _ _ H). Qed.

Lemma pq_pop_some l x l' :
  pq_pop l = Some (x, l') -> exists l1 l2, l = l1 ++ x :: l2 /\ l' = l1 ++ l2 /\ least x l.
Proof.
  intros H. destruct l as [|e t]; [discriminate|].
  destruct (lpop_spec entry entry_ltb entry_ltb_irrefl entry_ltb_trans entry_ltb_negtrans (e :: t)) as (m & l1 & l2 & P & E & L);
    [discriminate|].
  unfold pq_pop in H. rewrite P in H. injection H as <- <-. exists l1, l2. auto.
Qed.

Lemma pq_pop_nonempty l : l <> [] -> exists x l', pq_pop l = Some (x, l').
Proof.
  intros H. destruct (pq_pop l) as [[x l']|] eqn:E; [eauto|]. apply pq_pop_total in E. contradiction.
Qed.

(* the list model against CPython's heap: a heap holding the same entries (as a multiset) gives, on every
   push and pop, the same answer as the list, as long as the keys held are pairwise distinct *)
Theorem pq_refines_heapq_push h l x :
  heap_inv entry_ltb h -> Permutation h l ->
  exists h', heappush entry_ltb h x = Some h' /\ heap_inv entry_ltb h' /\ Permutation h' (pq_push x l).
Proof. apply (heap_sim_push entry entry_ltb entry_ltb_irrefl entry_ltb_trans entry_ltb_negtrans). Qed.

Theorem pq_refines_heapq_pop h l :
  heap_inv entry_ltb h -> Permutation h l -> distinct_keys entry_ltb l ->
  forall m l', pq_pop l = Some (m, l') ->
  exists h', heappop entry_ltb h = Some (m, h') /\ heap_inv entry_ltb h' /\ Permutation h' l' /\ distinct_keys entry_ltb l'.
Proof. apply (heap_sim_pop entry entry_ltb entry_ltb_irrefl entry_ltb_trans entry_ltb_negtrans). Qed.

Theorem pq_refines_heapq_pop_none h l : Permutation h l -> pq_pop l = None -> heappop entry_ltb h = None.
Proof. apply heap_sim_pop_none. Qed.

(* ---------------------------------------------------------------------------------------------------- *)
(* Part 2: reachable states, control invariant                                                            *)

(* injectivity without letting [injection] simplify the rational terms inside *)
Lemma Ok_inj (X Y : Type) (a c : X) (b d : Y) : Ok (a, b) = Ok (c, d) -> c = a /\ d = b.
Proof. intros H. inversion H. auto. Qed.
Lemma CTx_inj p d q e : CTx p d = CTx q e -> q = p /\ e = d.
Proof. intros H. inversion H. auto. Qed.

Ltac act_inv H :=
  unfold act in H;
  repeat match type of H with
  | context [match ?x with _ => _ end] => destruct x eqn:?; try discriminate H
  end;
  apply Ok_inj in H; destruct H as [-> ->].

Definition child_pkts (c : child) : list pkt := match c with CInit e | CTx e _ => [epkt e] | _ => [] end.
Definition child_all (c : child) : list pkt := match c with CNone => [] | CInit e | CTx e _ | CEnded e => [epkt e] end.

Section Gen.
  Variable S : stamper.
  Variable rate : Q.
  Variable st0 : ST S.
  Variable conf : pkt -> Prop.          (* packets the upstream may put: configured class, size >= 0 *)
  Notation srvS := (srv S).
  Notation actS := (act S rate).

  (* states reachable by admissible executions: every action is enabled and does not raise; the upstream
     element puts only configured packets *)
  Inductive reach : srvS -> Prop :=
  | reach0 : reach (srv0 0 st0)
  | reachS s a s' o : reach s -> (forall p, a = FPut p -> conf p) -> actS s a = Ok (s', o) -> reach s'.

  (* packets held: in the store, travelling in a granted get, handed to the child, in transmission *)
  Definition held (s : srvS) : list pkt := child_pkts (chl s) ++ map epkt (sq_held (store s)).
  (* packets put and not yet noticed as done by run() (the discipline's view of the system) *)
  Definition insys (s : srvS) : list pkt := child_all (chl s) ++ map epkt (sq_held (store s)).

  Definition InvA (s : srvS) : Prop :=
    sq_nostrand (store s) /\
    (started s = false -> get (store s) = GNone /\ chl s = CNone) /\
    (started s = true -> (chl s = CNone -> get (store s) <> GNone) /\ (chl s <> CNone -> get (store s) = GNone)) /\
    (forall p dl, chl s = CTx p dl -> now s <= dl).

  Lemma InvA_init : InvA (srv0 0 st0).
  Proof.
    unfold InvA, srv0; cbn. split; [apply sq_nostrand_init|]. split; [auto|]. split; [discriminate|]. discriminate.
  Qed.

  Hypothesis rate_pos : 0 < rate.

  Lemma tx_time_nonneg p : (0 <= psize p)%Z -> 0 <= tx_time rate p.
  Proof.
    intros H. unfold tx_time. apply Qle_shift_div_l; [exact rate_pos|].
    rewrite Qmult_0_l. apply Qmult_le_0_compat; [discriminate|].
    unfold Qle; cbn. lia.
  Qed.

  Lemma InvA_step s a s' o :
    (forall e, a = FChildInit -> chl s = CInit e -> (0 <= psize (epkt e))%Z) ->
    InvA s -> actS s a = Ok (s', o) -> InvA s'.
  Proof.
    intros Hsz (N & I0 & I1 & D) H. destruct a; act_inv H; unfold InvA; cbn [now started store stm seq qcount qbytes nrecv chl with_store with_child].
    - (* FPut *)
      split; [apply sq_nostrand_put|]. split; [exact I0|]. split; [exact I1|exact D].
    - (* FInit *)
      match goal with E : sq_get _ _ = Some _ |- _ => rename E into G end.
      split; [eapply sq_nostrand_get; [apply pq_pop_total|exact G]|].
      split; [discriminate|]. split; [|exact D].
      intros _. destruct (I0 eq_refl) as (_ & C). split.
      + intros _. apply (sq_get_not_none _ _ _ _ G).
      + intros C'. contradiction.
    - (* FStoreCb *)
      match goal with E : sq_cb _ _ = Some _ |- _ => rename E into G end.
      split; [eapply sq_nostrand_cb; [apply pq_pop_total|exact G]|].
      pose proof (sq_cb_get_none _ _ _ _ G) as GN.
      split; [|split; [|exact D]].
      + intros St. destruct (I0 St) as (G0 & C). split; [apply GN; exact G0|exact C].
      + intros St. destruct (I1 St) as (A & B). split.
        * intros C G'. apply GN in G'. apply (A C G').
        * intros C. apply GN. apply (B C).
    - (* FGetDone *)
      match goal with E : sq_take _ = Some _ |- _ => rename E into G end.
      split; [eapply sq_nostrand_take; exact G|].
      apply sq_take_inv in G as (_ & _ & _ & G').
      split; [intros St; congruence|]. split; [|discriminate].
      intros _. split; [discriminate|]. intros _. exact G'.
    - (* FChildInit *)
      split; [exact N|]. split; [intros St; destruct (I0 St) as (_ & C); congruence|].
      split.
      + intros St. destruct (I1 St) as (_ & B). split; [discriminate|]. intros _. apply B. congruence.
      + intros q dl E. apply CTx_inj in E as [-> ->]. rewrite Qred_correct.
        match goal with |- _ <= _ + tx_time rate ?pp => assert (0 <= tx_time rate pp) by (apply tx_time_nonneg; eapply Hsz; eauto) end. lra.
    - (* FChildTimer *)
      split; [exact N|]. split; [intros St; destruct (I0 St) as (_ & C); congruence|].
      split; [|discriminate].
      intros St. destruct (I1 St) as (_ & B). split; [discriminate|]. intros _. apply B. congruence.
    - (* FChildEnd *)
      match goal with E : sq_get _ _ = Some _ |- _ => rename E into G end.
      split; [eapply sq_nostrand_get; [apply pq_pop_total|exact G]|].
      split; [intros St; destruct (I0 St) as (_ & C); congruence|].
      split; [|discriminate].
      intros _. split; [|intros C; contradiction]. intros _. apply (sq_get_not_none _ _ _ _ G).
    - (* FAdvance *) split; [exact N|]. split; [exact I0|]. split; [exact I1|]. discriminate.
    - split; [exact N|]. split; [exact I0|]. split; [exact I1|]. discriminate.
    - split; [exact N|]. split; [exact I0|]. split; [exact I1|].
      intros p' dl' E. apply CTx_inj in E as [-> ->].
      match goal with E : Qle_bool _ _ = true |- _ => apply Qle_bool_iff in E; exact E end.
    - split; [exact N|]. split; [exact I0|]. split; [exact I1|]. discriminate.
  Qed.
End Gen.

(* ---------------------------------------------------------------------------------------------------- *)
(* the priority discipline inside StoreQ: what the micro-steps do to the store                            *)

Lemma pq_held_put now (x : item) (s : sq item) : sq_held (sq_put pq_push now x s) = sq_held s ++ [(now, x)].
Proof. unfold sq_held, sq_put, pq_push, lpush; cbn. destruct (get s); reflexivity. Qed.

(* a selection: x leaves the items (l1 ++ x :: l2 -> l1 ++ l2) into the granted get, and x is least *)
Definition selects (s s' : sq item) (x : entry) : Prop :=
  exists l1 l2, items s = l1 ++ x :: l2 /\ items s' = l1 ++ l2 /\ get s' = GGranted x /\ least x (items s).

Lemma pq_cb_inv (s s' : sq item) :
  sq_cb pq_pop s = Some s' ->
  pend s = Datatypes.S (pend s') /\
  ((get s = GWaiting /\ exists x, selects s s' x)
   \/ ((get s <> GWaiting \/ items s = []) /\ items s' = items s /\ get s' = get s)).
Proof.
  unfold sq_cb. destruct (pend s) as [|n]; [discriminate|].
  destruct (get s) eqn:G.
  - intros H; injection H as <-. cbn. split; [reflexivity|]. right. try rewrite G. split; [left; discriminate|auto].
  - destruct (pq_pop (items s)) as [[x rest]|] eqn:P; intros H; injection H as <-; cbn; (split; [reflexivity|]).
    + left. split; [reflexivity|]. exists x. apply pq_pop_some in P as (l1 & l2 & E1 & E2 & L).
      exists l1, l2. cbn. auto.
    + right. apply pq_pop_total in P. try rewrite G. auto.
  - intros H; injection H as <-. cbn. split; [reflexivity|]. right. try rewrite G. split; [left; discriminate|auto].
Qed.

Lemma pq_get_inv (s s' : sq item) :
  sq_get pq_pop s = Some s' ->
  get s = GNone /\ pend s' = pend s /\
  ((items s = [] /\ items s' = [] /\ get s' = GWaiting) \/ (exists x, selects s s' x)).
Proof.
  unfold sq_get. destruct (get s); try discriminate.
  destruct (pq_pop (items s)) as [[x rest]|] eqn:P; intros H; injection H as <-; cbn.
  - split; [reflexivity|split; [reflexivity|right]]. exists x. apply pq_pop_some in P as (l1 & l2 & E1 & E2 & L).
    exists l1, l2. cbn. auto.
  - apply pq_pop_total in P. split; [reflexivity|split; [reflexivity|left; auto]].
Qed.

Lemma selects_held (s s' : sq item) x : selects s s' x -> get s <> GGranted x -> (forall y, get s <> GGranted y) ->
  Permutation (sq_held s') (sq_held s).
Proof.
  intros (l1 & l2 & E1 & E2 & G' & _) _ NG. unfold sq_held. rewrite G', E1, E2.
  destruct (get s) as [| |y]; try (apply Permutation_middle). exfalso. apply (NG y). reflexivity.
Qed.

Lemma pq_cb_held (s s' : sq item) : sq_cb pq_pop s = Some s' -> Permutation (sq_held s') (sq_held s).
Proof.
  intros H. apply pq_cb_inv in H as (_ & [(G & x & Hs)|(_ & E & G')]).
  - apply (selects_held _ _ x Hs); intros; rewrite G; discriminate.
  - unfold sq_held. rewrite G', E. apply Permutation_refl.
Qed.

Lemma pq_get_held (s s' : sq item) : sq_get pq_pop s = Some s' -> Permutation (sq_held s') (sq_held s).
Proof.
  intros H. apply pq_get_inv in H as (G & _ & [(E & E' & G')|(x & Hs)]).
  - unfold sq_held. rewrite G, G', E, E'. apply Permutation_refl.
  - apply (selects_held _ _ x Hs); intros; rewrite G; discriminate.
Qed.

Lemma sq_take_held (s : sq item) x s' : sq_take s = Some (x, s') -> sq_held s = x :: sq_held s'.
Proof. intros H. apply sq_take_inv in H as (G & E & _ & G'). unfold sq_held. rewrite G, G', E. reflexivity. Qed.

(* ---------------------------------------------------------------------------------------------------- *)
(* Part 3: the discipline interface, the order invariant, selection of the least key                      *)

(* what the generic proofs need from a stamping discipline: an invariant [dJ] tying its state to the packets
   put and not yet noticed as done, under which put/done never raise, and the last stamp per class [dbound],
   under which stamps never decrease within a class while anything is in the system *)
Record disc (S : stamper) (st0 : ST S) (conf : pkt -> Prop) (cls : pkt -> Z) : Type := {
  dJ : ST S -> list pkt -> Prop;
  dbound : ST S -> Z -> Q;
  d_conf_size : forall p, conf p -> (0 <= psize p)%Z;
  d_cls_flow : forall p q, flow p = flow q -> cls p = cls q;
  d_J_perm : forall st l l', Permutation l l' -> dJ st l -> dJ st l';
  d_J_init : dJ st0 [];
  d_J_put_ok : forall nw st l p, dJ st l -> conf p -> st_put S nw st p <> None;
  d_J_put : forall nw st l p st' F, dJ st l -> conf p -> st_put S nw st p = Some (st', F) ->
      dJ st' (p :: l) /\ dbound st' (cls p) == F /\
      (l = [] \/ (dbound st (cls p) <= F /\ forall c, c <> cls p -> dbound st' c == dbound st c));
  d_J_done_ok : forall nw st l p, dJ st (p :: l) -> st_done S nw st p <> None;
  d_J_done : forall nw st l p st', dJ st (p :: l) -> st_done S nw st p = Some st' ->
      dJ st' l /\ (l = [] \/ forall c, dbound st' c == dbound st c)
}.

Section GenB.
  Variable S : stamper.
  Variable rate : Q.
  Hypothesis rate_pos : 0 < rate.
  Variable st0 : ST S.
  Variable conf : pkt -> Prop.
  Variable cls : pkt -> Z.                          (* the class of a packet (flow2class of its flow) *)
  Variable D : disc S st0 conf cls.
  Notation srvS := (srv S).
  Notation actS := (act S rate).
  Notation reachS := (reach S rate st0 conf).

  Definition J : ST S -> list pkt -> Prop := dJ S st0 conf cls D.
  Definition bound : ST S -> Z -> Q := dbound S st0 conf cls D.
  Lemma conf_size : forall p, conf p -> (0 <= psize p)%Z.
  Proof. exact (d_conf_size _ _ _ _ D). Qed.
  Lemma cls_flow : forall p q, flow p = flow q -> cls p = cls q.
  Proof. exact (d_cls_flow _ _ _ _ D). Qed.
  Lemma J_perm : forall st l l', Permutation l l' -> J st l -> J st l'.
  Proof. exact (d_J_perm _ _ _ _ D). Qed.
  Lemma J_init : J st0 [].
  Proof. exact (d_J_init _ _ _ _ D). Qed.
  Lemma J_put_ok : forall nw st l p, J st l -> conf p -> st_put S nw st p <> None.
  Proof. exact (d_J_put_ok _ _ _ _ D). Qed.
  Lemma J_put : forall nw st l p st' F, J st l -> conf p -> st_put S nw st p = Some (st', F) ->
      J st' (p :: l) /\ bound st' (cls p) == F /\
      (l = [] \/ (bound st (cls p) <= F /\ forall c, c <> cls p -> bound st' c == bound st c)).
  Proof. exact (d_J_put _ _ _ _ D). Qed.
  Lemma J_done_ok : forall nw st l p, J st (p :: l) -> st_done S nw st p <> None.
  Proof. exact (d_J_done_ok _ _ _ _ D). Qed.
  Lemma J_done : forall nw st l p st', J st (p :: l) -> st_done S nw st p = Some st' ->
      J st' l /\ (l = [] \/ forall c, bound st' c == bound st c).
  Proof. exact (d_J_done _ _ _ _ D). Qed.

  (* e was put before y: smaller arrival counter, not later, and within a class not a larger stamp *)
  Definition before (e y : entry) : Prop :=
    (iseq (snd e) < iseq (snd y))%nat /\ fst e <= fst y /\
    (cls (epkt e) = cls (epkt y) -> istamp (snd e) <= istamp (snd y)).

  Fixpoint ordl (l : list entry) : Prop :=
    match l with
    | [] => True
    | e :: t => (forall y, In y t -> before e y) /\ ordl t
    end.

  Lemma ordl_app_one l x : ordl l -> (forall y, In y l -> before y x) -> ordl (l ++ [x]).
  Proof.
    induction l as [|a l IH]; intros H Hx; cbn [ordl app] in *.
    - split; [intros y []|exact I].
    - destruct H as [H1 H2]. split.
      + intros y Hy. apply in_app_or in Hy as [Hy|[<-|[]]]; [apply H1; exact Hy|apply Hx; left; reflexivity].
      + apply IH; [exact H2|]. intros y Hy. apply Hx. right. exact Hy.
  Qed.

  Lemma ordl_remove l1 m l2 : ordl (l1 ++ m :: l2) -> ordl (l1 ++ l2).
  Proof.
    induction l1 as [|a l1 IH]; intros H; cbn [ordl app] in *.
    - apply H.
    - destruct H as [H1 H2]. split; [|apply IH; exact H2].
      intros y Hy. apply H1. apply in_app_or in Hy. apply in_or_app. destruct Hy as [Hy|Hy]; [left|right; right]; exact Hy.
  Qed.

  Lemma ordl_split_before l1 m l2 : ordl (l1 ++ m :: l2) -> forall y, In y l1 -> before y m.
  Proof.
    induction l1 as [|a l1 IH]; intros H y Hy; [destruct Hy|].
    cbn [ordl app] in H. destruct H as [H1 H2]. destruct Hy as [<-|Hy].
    - apply H1. apply in_or_app. right. left. reflexivity.
    - apply IH; assumption.
  Qed.

  Lemma ordl_split_after l1 m l2 : ordl (l1 ++ m :: l2) -> forall y, In y l2 -> before m y.
  Proof.
    induction l1 as [|a l1 IH]; intros H y Hy; cbn [ordl app] in H; destruct H as [H1 H2].
    - apply H1. exact Hy.
    - apply IH; assumption.
  Qed.

  Lemma before_seq_neq e y : before e y -> iseq (snd e) <> iseq (snd y).
  Proof. intros (H & _). lia. Qed.

  Lemma ordl_dkeys l : ordl l -> dkeys entry_ltb l.
  Proof.
    induction l as [|a l IH]; cbn [ordl dkeys]; [auto|].
    intros [H1 H2]. split; [|apply IH; exact H2].
    intros b Hb. apply entry_ltb_seq_total. apply before_seq_neq. apply H1. exact Hb.
  Qed.

  Lemma ordl_distinct l : ordl l -> distinct_keys entry_ltb l.
  Proof. intros H. apply distinct_keys_dkeys. apply ordl_dkeys. exact H. Qed.

  (* within a class, an earlier arrival has the strictly smaller key *)
  Lemma before_same_class_lt e y : before e y -> cls (epkt e) = cls (epkt y) -> entry_ltb e y = true.
  Proof.
    intros (Hn & Ht & Hs) C. specialize (Hs C). unfold entry_ltb. apply key_ltb_true. unfold ekey, klt.
    destruct (Qlt_le_dec (istamp (snd e)) (istamp (snd y))) as [L|L]; [left; exact L|].
    right. split; [lra|].
    destruct (Qlt_le_dec (fst e) (fst y)) as [L'|L']; [left; exact L'|].
    right. split; [lra|exact Hn].
  Qed.

  (* the least element of an ordered list is strictly least, and no earlier arrival of its class precedes it *)
  Lemma least_strict l1 x l2 :
    ordl (l1 ++ x :: l2) -> least x (l1 ++ x :: l2) ->
    (forall y, In y (l1 ++ l2) -> entry_ltb x y = true) /\ (forall y, In y l1 -> cls (epkt y) <> cls (epkt x)).
  Proof.
    intros O L. split.
    - intros y Hy.
      assert (Hin : In y (l1 ++ x :: l2)) by (apply in_app_or in Hy; apply in_or_app; destruct Hy; [left|right; right]; assumption).
      specialize (L y Hin).
      assert (Hne : iseq (snd y) <> iseq (snd x)).
      { apply in_app_or in Hy as [Hy|Hy].
        - apply before_seq_neq. eapply ordl_split_before; eauto.
        - intros E. symmetry in E. revert E. apply before_seq_neq. eapply ordl_split_after; eauto. }
      destruct (entry_ltb_seq_total y x Hne) as [C|C]; [congruence|exact C].
    - intros y Hy C.
      assert (B : before y x) by (eapply ordl_split_before; eauto).
      assert (Hin : In y (l1 ++ x :: l2)) by (apply in_or_app; left; exact Hy).
      specialize (L y Hin). rewrite (before_same_class_lt y x B C) in L. discriminate.
  Qed.

  (* ---- the invariant ---- *)
  Definition InvB (s : srvS) : Prop :=
    J (stm s) (insys S s) /\
    Forall conf (insys S s) /\
    ordl (items (store s)) /\
    (forall e, In e (items (store s)) ->
       fst e <= now s /\ (iseq (snd e) <= seq s)%nat /\ istamp (snd e) <= bound (stm s) (cls (epkt e))).

  Definition Inv (s : srvS) : Prop := InvA S s /\ InvB s.

  Lemma InvB_init : InvB (srv0 0 st0).
  Proof.
    unfold InvB, insys, srv0; cbn. split; [exact J_init|]. split; [constructor|]. split; [exact I|]. intros e [].
  Qed.

  (* how one step changes what is held / in the system, and what it emits *)
  Lemma step_held s a s' o :
    actS s a = Ok (s', o) ->
    match a with
    | FPut p => held S s' = held S s ++ [p] /\ insys S s' = insys S s ++ [p] /\ o = []
    | FChildTimer => exists e dl, chl s = CTx e dl /\ o = [OForward (epkt e)] /\ held S s = epkt e :: held S s' /\ insys S s' = insys S s
    | FChildEnd => exists e, chl s = CEnded e /\ Permutation (insys S s) (epkt e :: insys S s') /\ Permutation (held S s') (held S s) /\ o = []
    | _ => Permutation (held S s') (held S s) /\ Permutation (insys S s') (insys S s) /\ o = []
    end.
  Proof.
    intros H. destruct a; act_inv H; unfold held, insys;
      cbn [now started store stm seq qcount qbytes nrecv chl with_store with_child];
      try match goal with E : chl s = _ |- _ => rewrite ?E end; cbn [child_pkts child_all app].
    - rewrite pq_held_put, map_app. cbn [map epkt snd ipkt]. rewrite !app_assoc. auto.
    - match goal with E : sq_get _ _ = Some _ |- _ => apply pq_get_held in E; rename E into P end.
      split; [|split; [|reflexivity]]; apply Permutation_app_head, Permutation_map, P.
    - match goal with E : sq_cb _ _ = Some _ |- _ => apply pq_cb_held in E; rename E into P end.
      split; [|split; [|reflexivity]]; apply Permutation_app_head, Permutation_map, P.
    - match goal with E : sq_take _ = Some _ |- _ => apply sq_take_held in E; rename E into P end.
      rewrite P. cbn [map epkt snd]. split; [|split; [|reflexivity]]; apply Permutation_refl.
    - split; [|split; [|reflexivity]]; apply Permutation_refl.
    - eexists _, _. split; [reflexivity|]. split; [reflexivity|]. split; reflexivity.
    - match goal with E : sq_get _ _ = Some _ |- _ => apply pq_get_held in E; rename E into P end.
      eexists. split; [reflexivity|]. split; [|split; [|reflexivity]].
      + cbn [app]. apply perm_skip. apply Permutation_map. symmetry. exact P.
      + apply Permutation_map. exact P.
    - split; [|split; [|reflexivity]]; apply Permutation_refl.
    - split; [|split; [|reflexivity]]; apply Permutation_refl.
    - split; [|split; [|reflexivity]]; apply Permutation_refl.
    - split; [|split; [|reflexivity]]; apply Permutation_refl.
  Qed.

  Lemma items_in_held (q : sq item) e : In e (items q) -> In e (sq_held q).
  Proof. unfold sq_held. destruct (get q); auto. intros H. right. exact H. Qed.

  Lemma selects_sub (q q' : sq item) x : selects q q' x ->
    (forall e, In e (items q') -> In e (items q)) /\ (ordl (items q) -> ordl (items q')).
  Proof.
    intros (l1 & l2 & E1 & E2 & _ & _). rewrite E1, E2. split.
    - intros e He. apply in_app_or in He. apply in_or_app. destruct He; [left|right; right]; assumption.
    - apply ordl_remove.
  Qed.

  Lemma pq_cb_sub (q q' : sq item) : sq_cb pq_pop q = Some q' ->
    (forall e, In e (items q') -> In e (items q)) /\ (ordl (items q) -> ordl (items q')).
  Proof.
    intros H. apply pq_cb_inv in H as (_ & [(_ & x & Hs)|(_ & E & _)]); [eapply selects_sub; eauto|].
    rewrite E. auto.
  Qed.

  Lemma pq_get_sub (q q' : sq item) : sq_get pq_pop q = Some q' ->
    (forall e, In e (items q') -> In e (items q)) /\ (ordl (items q) -> ordl (items q')).
  Proof.
    intros H. apply pq_get_inv in H as (_ & _ & [(E & E' & _)|(x & Hs)]); [|eapply selects_sub; eauto].
    rewrite E, E'. auto.
  Qed.

  Lemma in_items_insys s e : In e (items (store s)) -> In (epkt e) (insys S s).
  Proof.
    intros H. unfold insys. apply in_or_app. right. apply in_map. apply items_in_held. exact H.
  Qed.

  Lemma InvB_step s a s' o :
    InvB s -> (forall p, a = FPut p -> conf p) -> actS s a = Ok (s', o) -> InvB s'.
  Proof.
    intros (HJ & HC & HO & HB) Hconf H. pose proof (step_held _ _ _ _ H) as SH.
    destruct a; act_inv H; unfold InvB;
      cbn [now started store stm seq qcount qbytes nrecv chl with_store with_child] in *.
    - (* FPut *)
      destruct SH as (_ & SI & _). rewrite SI.
      match goal with E : st_put _ _ _ _ = Some _ |- _ => rename E into P end.
      destruct (J_put _ _ _ _ _ _ HJ (Hconf p eq_refl) P) as (J' & Bq & Hrest).
      assert (Qr : Qred q == q) by apply Qred_correct.
      split; [eapply J_perm; [|exact J']; apply Permutation_cons_append|].
      split; [apply Forall_app; split; [exact HC|constructor; [apply Hconf; reflexivity|constructor]]|].
      assert (Hold : forall y, In y (items (store s)) ->
                fst y <= now s /\ (iseq (snd y) <= seq s)%nat /\
                istamp (snd y) <= bound s0 (cls (epkt y)) /\ (cls (epkt y) = cls p -> istamp (snd y) <= q)).
      { intros y Hy. destruct (HB y Hy) as (B1 & B2 & B3). split; [exact B1|]. split; [exact B2|].
        destruct Hrest as [Hnil|(Hle & Hoth)].
        - exfalso. pose proof (in_items_insys _ _ Hy) as Hin. rewrite Hnil in Hin. destruct Hin.
        - destruct (Z.eq_dec (cls (epkt y)) (cls p)) as [C|C].
          + rewrite C in *. split; [rewrite Bq; lra|intros _; lra].
          + split; [rewrite (Hoth _ C); exact B3|intros C'; contradiction]. }
      split.
      + cbn [items sq_put]. unfold pq_push, lpush. apply ordl_app_one; [exact HO|].
        intros y Hy. destruct (Hold y Hy) as (B1 & B2 & _ & B4). unfold before. cbn [fst snd iseq istamp epkt ipkt].
        split; [lia|]. split; [exact B1|]. intros C. rewrite Qr. apply B4. exact C.
      + cbn [items sq_put]. unfold pq_push, lpush. intros e He. apply in_app_or in He as [He|[<-|[]]].
        * destruct (Hold e He) as (B1 & B2 & B3 & _). split; [exact B1|]. split; [lia|exact B3].
        * cbn [fst snd iseq istamp epkt ipkt]. split; [apply Qle_refl|]. split; [lia|]. rewrite Qr, Bq. apply Qle_refl.
    - (* FInit *)
      destruct SH as (_ & SI & _).
      match goal with E : sq_get _ _ = Some _ |- _ => apply pq_get_sub in E as (Sub & Ord) end.
      split; [eapply J_perm; [symmetry; exact SI|exact HJ]|].
      split; [eapply Permutation_Forall; [symmetry; exact SI|exact HC]|].
      split; [apply Ord; exact HO|]. intros e He. apply HB. apply Sub. exact He.
    - (* FStoreCb *)
      destruct SH as (_ & SI & _).
      match goal with E : sq_cb _ _ = Some _ |- _ => apply pq_cb_sub in E as (Sub & Ord) end.
      split; [eapply J_perm; [symmetry; exact SI|exact HJ]|].
      split; [eapply Permutation_Forall; [symmetry; exact SI|exact HC]|].
      split; [apply Ord; exact HO|]. intros e He. apply HB. apply Sub. exact He.
    - (* FGetDone *)
      destruct SH as (_ & SI & _).
      match goal with E : sq_take _ = Some _ |- _ => apply sq_take_inv in E as (_ & EI & _ & _) end.
      split; [eapply J_perm; [symmetry; exact SI|exact HJ]|].
      split; [eapply Permutation_Forall; [symmetry; exact SI|exact HC]|].
      rewrite EI. split; [exact HO|exact HB].
    - (* FChildInit *)
      destruct SH as (_ & SI & _).
      split; [eapply J_perm; [symmetry; exact SI|exact HJ]|].
      split; [eapply Permutation_Forall; [symmetry; exact SI|exact HC]|]. split; [exact HO|exact HB].
    - (* FChildTimer *)
      destruct SH as (p' & dl' & _ & _ & _ & SI). rewrite SI. split; [exact HJ|]. split; [exact HC|]. split; [exact HO|exact HB].
    - (* FChildEnd *)
      destruct SH as (p' & Ec & SI & _ & _).
      match goal with E : st_done _ _ _ _ = Some _ |- _ => rename E into Dn end.
      injection Ec as <-.
      match type of Dn with st_done _ _ _ ?pp = _ => set (p := pp) in * end.
      assert (J1 : J (stm s) (p :: map epkt (sq_held s1))).
      { eapply J_perm; [exact SI|exact HJ]. }
      unfold insys. cbn [now started store stm seq qcount qbytes nrecv chl child_all app].
      destruct (J_done _ _ _ _ _ J1 Dn) as (J' & Hb).
      match goal with E : sq_get _ _ = Some _ |- _ => pose proof (pq_get_held _ _ E) as PH; apply pq_get_sub in E as (Sub & Ord) end.
      split; [exact J'|].
      split.
      { assert (F1 : Forall conf (p :: map epkt (sq_held s1))).
        { eapply Permutation_Forall; [exact SI|exact HC]. }
        inversion F1; assumption. }
      split; [apply Ord; exact HO|].
      intros y He. destruct (HB y (Sub y He)) as (B1 & B2 & B3). split; [exact B1|]. split; [exact B2|].
      destruct Hb as [Hnil|Hb].
      + exfalso. assert (Hin : In (epkt y) (map epkt (sq_held s1))) by (apply in_map, items_in_held; exact He).
        rewrite Hnil in Hin. destruct Hin.
      + rewrite Hb. exact B3.
    - destruct SH as (_ & SI & _).
      split; [eapply J_perm; [symmetry; exact SI|exact HJ]|].
      split; [eapply Permutation_Forall; [symmetry; exact SI|exact HC]|]. split; [exact HO|].
      intros y He. destruct (HB y He) as (B1 & B2 & B3). split; [lra|]. split; [exact B2|exact B3].
    - destruct SH as (_ & SI & _).
      split; [eapply J_perm; [symmetry; exact SI|exact HJ]|].
      split; [eapply Permutation_Forall; [symmetry; exact SI|exact HC]|]. split; [exact HO|].
      intros y He. destruct (HB y He) as (B1 & B2 & B3). split; [lra|]. split; [exact B2|exact B3].
    - destruct SH as (_ & SI & _).
      split; [eapply J_perm; [symmetry; exact SI|exact HJ]|].
      split; [eapply Permutation_Forall; [symmetry; exact SI|exact HC]|]. split; [exact HO|].
      intros y He. destruct (HB y He) as (B1 & B2 & B3). split; [lra|]. split; [exact B2|exact B3].
    - destruct SH as (_ & SI & _).
      split; [eapply J_perm; [symmetry; exact SI|exact HJ]|].
      split; [eapply Permutation_Forall; [symmetry; exact SI|exact HC]|]. split; [exact HO|].
      intros y He. destruct (HB y He) as (B1 & B2 & B3). split; [lra|]. split; [exact B2|exact B3].
  Qed.

  Lemma Inv_init : Inv (srv0 0 st0).
  Proof. split; [apply InvA_init|apply InvB_init]. Qed.

  Lemma Inv_step s a s' o :
    Inv s -> (forall p, a = FPut p -> conf p) -> actS s a = Ok (s', o) -> Inv s'.
  Proof.
    intros (HA & HB) Hc H. split; [|eapply InvB_step; eauto].
    eapply InvA_step; [exact rate_pos| |exact HA|exact H].
    intros e _ Ec. apply conf_size. destruct HB as (_ & HC & _).
    rewrite Forall_forall in HC. apply HC. unfold insys. rewrite Ec. left. reflexivity.
  Qed.

  Theorem Inv_reach s : reachS s -> Inv s.
  Proof.
    induction 1 as [|s a s' o R IH Hc H]; [apply Inv_init|eapply Inv_step; eauto].
  Qed.

  (* ---- the Python code never raises (KeyError, ZeroDivisionError) on configured packets ---- *)
  Theorem srv_never_raises s a :
    reachS s -> (forall p, a = FPut p -> conf p) -> actS s a <> Raises.
  Proof.
    intros R Hc. destruct (Inv_reach _ R) as (_ & HJ & _). destruct a; unfold act.
    - destruct (st_put S (now s) (stm s) p) as [[st' F]|] eqn:E; [discriminate|].
      exfalso. eapply J_put_ok; [exact HJ|apply Hc; reflexivity|exact E].
    - destruct (started s); [discriminate|]. destruct (sq_get pq_pop (store s)); discriminate.
    - destruct (sq_cb pq_pop (store s)); discriminate.
    - destruct (chl s); try discriminate. destruct (sq_take (store s)) as [[[? ?] ?]|]; try discriminate.
      destruct (started s); discriminate.
    - destruct (chl s); discriminate.
    - destruct (chl s); try discriminate. destruct (Qeq_bool dl (now s)); discriminate.
    - destruct (chl s) eqn:Ec; try discriminate.
      destruct (st_done S (now s) (stm s) (epkt e)) as [st'|] eqn:E.
      + destruct (sq_get pq_pop (store s)); discriminate.
      + exfalso. unfold insys in HJ. rewrite Ec in HJ. cbn [child_all app] in HJ.
        eapply J_done_ok; [exact HJ|exact E].
    - destruct (urgent s); [discriminate|]. destruct (Qlt_le_dec (now s) t); [|discriminate].
      destruct (chl s); try discriminate. destruct (Qle_bool t dl); discriminate.
  Qed.

  (* ---- the selection takes the strictly least key; no earlier packet of the same class is overtaken ---- *)
  Definition strictly_least (x : entry) (l1 l2 : list entry) : Prop :=
    (forall y, In y (l1 ++ l2) -> entry_ltb x y = true) /\ (forall y, In y l1 -> cls (epkt y) <> cls (epkt x)).

  Lemma selects_strict s (q' : sq item) x :
    Inv s -> selects (store s) q' x ->
    exists l1 l2, items (store s) = l1 ++ x :: l2 /\ items q' = l1 ++ l2 /\ get q' = GGranted x /\ strictly_least x l1 l2.
  Proof.
    intros (_ & _ & _ & HO & _) (l1 & l2 & E1 & E2 & G & L). exists l1, l2.
    rewrite E1 in HO, L. repeat split; auto; apply (least_strict l1 x l2 HO L).
  Qed.

  Theorem srv_select_min s a s' o x :
    reachS s -> actS s a = Ok (s', o) ->
    get (store s') = GGranted x -> get (store s) <> GGranted x ->
    exists l1 l2, items (store s) = l1 ++ x :: l2 /\ items (store s') = l1 ++ l2 /\ strictly_least x l1 l2.
  Proof.
    intros R H G' G. pose proof (Inv_reach _ R) as HI.
    destruct a; act_inv H; cbn [now started store stm seq qcount qbytes nrecv chl with_store with_child] in *;
      try (exfalso; apply G; exact G').
    - match goal with E : sq_get _ _ = Some _ |- _ => apply pq_get_inv in E as (_ & _ & [(_ & _ & W)|(y & Hs)]) end.
      + rewrite W in G'. discriminate.
      + destruct (selects_strict _ _ _ HI Hs) as (l1 & l2 & E1 & E2 & Gy & SL).
        rewrite Gy in G'. injection G' as <-. exists l1, l2. auto.
    - match goal with E : sq_cb _ _ = Some _ |- _ => apply pq_cb_inv in E as (_ & [(_ & y & Hs)|(_ & _ & Gs)]) end.
      + destruct (selects_strict _ _ _ HI Hs) as (l1 & l2 & E1 & E2 & Gy & SL).
        rewrite Gy in G'. injection G' as <-. exists l1, l2. auto.
      + exfalso. apply G. rewrite <- Gs. exact G'.
    - match goal with E : sq_take _ = Some _ |- _ => apply sq_take_inv in E as (_ & _ & _ & Gn) end.
      rewrite Gn in G'. discriminate.
    - match goal with E : sq_get _ _ = Some _ |- _ => apply pq_get_inv in E as (_ & _ & [(_ & _ & W)|(y & Hs)]) end.
      + rewrite W in G'. discriminate.
      + destruct (selects_strict _ _ _ HI Hs) as (l1 & l2 & E1 & E2 & Gy & SL).
        rewrite Gy in G'. injection G' as <-. exists l1, l2. auto.
  Qed.

  (* ---- work conservation: the clock may move only during a transmission or when nothing is held ---- *)
  Theorem srv_work_conserving s :
    reachS s -> urgent s = false -> (exists p dl, chl s = CTx p dl /\ now s < dl) \/ held S s = [].
  Proof.
    intros R U. destruct (Inv_reach _ R) as ((N & I0 & I1 & Dl) & _).
    unfold urgent in U. apply orb_false_iff in U as (U & Ut). apply orb_false_iff in U as (U & Uc).
    apply orb_false_iff in U as (Us & Uq). apply negb_false_iff in Us.
    destruct (I1 Us) as (A & B). unfold held. unfold child_urgent in Uc. unfold timer_due in Ut.
    destruct (chl s) as [|e|e dl|e] eqn:Ec; try discriminate.
    - right. cbn [child_pkts app].
      assert (W : get (store s) = GWaiting).
      { apply sq_urgent_false in Uq as (_ & NG). destruct (get (store s)) as [| |y] eqn:G; [|reflexivity|].
        - exfalso. apply A; reflexivity.
        - exfalso. apply (NG y). reflexivity. }
      rewrite (sq_waiting_quiet_held _ _ Uq N W). reflexivity.
    - left. exists e, dl. split; [reflexivity|].
      specialize (Dl e dl eq_refl). destruct (Qlt_le_dec (now s) dl) as [L|L]; [exact L|].
      exfalso. assert (E : dl == now s) by lra. apply Qeq_bool_iff in E. congruence.
  Qed.

  (* nothing enabled and no deadline: nothing is held *)
  Corollary srv_drained s :
    reachS s -> urgent s = false -> (forall p dl, chl s <> CTx p dl) -> held S s = [] /\ insys S s = [].
  Proof.
    intros R U NT. destruct (srv_work_conserving s R U) as [(p & dl & E & _)|H]; [exfalso; eapply NT; eauto|].
    split; [exact H|]. unfold held, insys in *.
    destruct (chl s) as [|p|p dl|p] eqn:Ec; cbn [child_pkts child_all app] in *; try discriminate; auto.
    exfalso. unfold urgent, child_urgent in U. rewrite Ec in U.
    destruct (negb (started s)), (sq_urgent (store s)); discriminate.
  Qed.

  (* the keys held in the store of a reachable state are pairwise distinct (the arrival counter differs), which is
     the hypothesis under which the list model pops exactly what heapq pops (pq_refines_heapq_pop) *)
  Theorem srv_store_distinct_keys s : reachS s -> distinct_keys entry_ltb (items (store s)).
  Proof. intros R. destruct (Inv_reach _ R) as (_ & _ & _ & HO & _). apply ordl_distinct. exact HO. Qed.
End GenB.
