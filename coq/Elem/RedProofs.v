(* Proofs about Elem/Red.v: the EWMA recurrence and the three regions of REDPort.put.  Everything PortProofs.v
   proves for an arbitrary drop policy (departure recurrence, conservation, counters, byte occupancy, stamps,
   samples, never late) holds for a REDPort as it stands, because [red_cfg] is a [pcfg]. *)
From Coq Require Import ZArith QArith Qminmax List Bool Lia Lqa.
From ONL Require Import Elem.Packet Elem.StoreQ Elem.StoreQProofs Elem.Port Elem.PortProofs Elem.Red.
Import ListNotations.

Lemma Qle_bool_false x y : Qle_bool x y = false -> y < x.
Proof.
  intros H. apply Qnot_le_lt. intros L. apply Qle_bool_iff in L. rewrite L in H. discriminate.
Qed.

(* the RED curve of the property: linear from 0 at min_threshold to max_probability at max_threshold,
   max_probability from there up to qlimit *)
Definition red_curve (rc : redcfg) (a : Q) : Q :=
  if Qlt_le_dec a (r_max rc) then r_maxp rc * ((a - r_min rc) / (r_max rc - r_min rc)) else r_maxp rc.

Lemma red_prob_curve rc a : red_prob rc a == red_curve rc a.
Proof.
  unfold red_prob, red_curve. destruct (Qle_bool (r_max rc) a) eqn:E.
  - apply Qle_bool_iff in E. destruct (Qlt_le_dec a (r_max rc)) as [L|L]; [lra|reflexivity].
  - apply Qle_bool_false in E. destruct (Qlt_le_dec a (r_max rc)) as [L|L]; [|lra].
    rewrite Qmult_comm. reflexivity.
Qed.

(* what REDPort.put decides, by region of the NEW average *)
Lemma red_policy_inv rc s p u r a :
  red_policy rc s p u = Some (r, a) ->
  a = red_avg_next rc s /\
  ((r_qlimit rc <= a /\ u = None /\ r = true)
   \/ (a < r_qlimit rc /\ (r_max rc <= a \/ r_min rc <= a) /\ exists x, u = Some x /\ r = Qle_bool x (red_prob rc a))
   \/ (a < r_qlimit rc /\ a < r_max rc /\ a < r_min rc /\ u = None /\ r = false)).
Proof.
  unfold red_policy. set (a0 := red_avg_next rc s).
  destruct (Qle_bool (r_qlimit rc) a0) eqn:EQ.
  - destruct u; [discriminate|]. intros H; injection H as <- <-. split; [reflexivity|]. left.
    apply Qle_bool_iff in EQ. auto.
  - apply Qle_bool_false in EQ.
    destruct (Qle_bool (r_max rc) a0) eqn:EX; cbn [orb].
    + destruct u as [x|]; [|discriminate]. intros H; injection H as <- <-. split; [reflexivity|]. right; left.
      apply Qle_bool_iff in EX. split; [exact EQ|]. split; [left; exact EX|]. exists x. auto.
    + apply Qle_bool_false in EX. destruct (Qle_bool (r_min rc) a0) eqn:EN.
      * destruct u as [x|]; [|discriminate]. intros H; injection H as <- <-. split; [reflexivity|]. right; left.
        apply Qle_bool_iff in EN. split; [exact EQ|]. split; [right; exact EN|]. exists x. auto.
      * apply Qle_bool_false in EN. destruct u; [discriminate|]. intros H; injection H as <- <-.
        split; [reflexivity|]. right; right. auto.
Qed.

(* a put() of a REDPort: the decision taken, the new average stored, refusal visible as ODrop *)
Lemma red_put_inv f rate rc eid s p u s' outs :
  port_act (red_cfg f rate rc eid) s (PPut p u) = Some (s', outs) ->
  exists r, red_policy rc s p u = Some (r, pavg s') /\ (In (ODrop p) outs <-> r = true).
Proof.
  intros A. apply port_act_step in A.
  inversion A as [p0 u0 a Hpol|p0 u0 a Hpol| | | | | | |]; subst; cbn [c_policy red_cfg] in Hpol.
  - exists false. split; [exact Hpol|]. split; [|discriminate]. intros D. exfalso. exact (no_drop_in_stamp _ _ _ D).
  - exists true. split; [exact Hpol|]. split; [reflexivity|]. intros _. apply in_or_app. right. left. reflexivity.
Qed.

(* red_avg: on every arrival (accepted or refused) the average moves by the EWMA recurrence with gain 2^-w
   towards the queue measure found by the arrival; nothing else changes it *)
Theorem red_avg f rate rc eid s p u s' outs :
  port_act (red_cfg f rate rc eid) s (PPut p u) = Some (s', outs) ->
  pavg s' == pavg s * (1 - Qpower 2 (- r_w rc)) + red_cur rc s * Qpower 2 (- r_w rc).
Proof.
  intros A. destruct (red_put_inv _ _ _ _ _ _ _ _ _ A) as (r & Hpol & _).
  apply red_policy_inv in Hpol as (E & _). rewrite E. unfold red_avg_next. rewrite Qred_correct. reflexivity.
Qed.

Theorem red_avg_unchanged c s a s' outs :
  port_act c s a = Some (s', outs) -> (forall p u, a <> PPut p u) -> pavg s' = pavg s.
Proof.
  intros A NP. apply port_act_step in A. destruct A; try reflexivity; try (exfalso; eapply NP; reflexivity).
  destruct (leave_now_fields c (with_q s q) p) as (_ & _ & _ & _ & _ & E). cbn. exact E.
Qed.

Definition red_wf (rc : redcfg) : Prop := r_min rc <= r_max rc /\ r_max rc <= r_qlimit rc.

(* never refused while the average is below min_threshold (and no draw is made) *)
Theorem red_no_drop_below_min f rate rc eid s p u s' outs :
  red_wf rc -> port_act (red_cfg f rate rc eid) s (PPut p u) = Some (s', outs) ->
  pavg s' < r_min rc -> ~ In (ODrop p) outs /\ u = None.
Proof.
  intros [W1 W2] A L. destruct (red_put_inv _ _ _ _ _ _ _ _ _ A) as (r & Hpol & D).
  apply red_policy_inv in Hpol as (_ & [(Q1 & _)|[(_ & [X|N] & _)|(_ & _ & _ & U & R)]]); try lra.
  split; [|exact U]. intros HD. apply D in HD. congruence.
Qed.

(* always refused when the average is at or above qlimit (no draw) *)
Theorem red_drop_at_limit f rate rc eid s p u s' outs :
  port_act (red_cfg f rate rc eid) s (PPut p u) = Some (s', outs) ->
  r_qlimit rc <= pavg s' -> In (ODrop p) outs /\ u = None.
Proof.
  intros A L. destruct (red_put_inv _ _ _ _ _ _ _ _ _ A) as (r & Hpol & D).
  apply red_policy_inv in Hpol as (_ & [(_ & U & R)|[(Q1 & _)|(Q1 & _)]]); try lra.
  split; [apply D; exact R|exact U].
Qed.

(* in between: exactly one uniform draw u is consumed and the packet is refused iff u <= p(avg), p the RED curve *)
Theorem red_curve_rule f rate rc eid s p u s' outs :
  red_wf rc -> port_act (red_cfg f rate rc eid) s (PPut p u) = Some (s', outs) ->
  r_min rc <= pavg s' -> pavg s' < r_qlimit rc ->
  exists x, u = Some x /\ (In (ODrop p) outs <-> x <= red_curve rc (pavg s')).
Proof.
  intros [W1 W2] A L1 L2. destruct (red_put_inv _ _ _ _ _ _ _ _ _ A) as (r & Hpol & D).
  apply red_policy_inv in Hpol as (_ & [(Q1 & _)|[(_ & _ & x & U & R)|(_ & _ & N & _)]]); try lra.
  exists x. split; [exact U|]. rewrite D, R. rewrite <- red_prob_curve. apply Qle_bool_iff.
Qed.

(* the curve is what the property says: 0 at min, max_probability at and above max, linear in between *)
Lemma red_curve_values rc :
  r_min rc < r_max rc ->
  red_curve rc (r_min rc) == 0 /\ red_curve rc (r_max rc) == r_maxp rc /\
  (forall a, r_min rc <= a -> a < r_max rc -> 0 <= r_maxp rc ->
     0 <= red_curve rc a /\ red_curve rc a <= r_maxp rc).
Proof.
  intros L. unfold red_curve. split; [|split].
  - destruct (Qlt_le_dec (r_min rc) (r_max rc)) as [H|H]; [|lra]. field. lra.
  - destruct (Qlt_le_dec (r_max rc) (r_max rc)) as [H|H]; [lra|reflexivity].
  - intros a L1 L2 P. destruct (Qlt_le_dec a (r_max rc)) as [H|H]; [|lra].
    assert (D : 0 < r_max rc - r_min rc) by lra.
    assert (F0 : 0 <= (a - r_min rc) / (r_max rc - r_min rc)).
    { apply Qle_shift_div_l; [exact D|]. lra. }
    assert (F1 : (a - r_min rc) / (r_max rc - r_min rc) <= 1).
    { apply Qle_shift_div_r; [exact D|]. lra. }
    set (k := (a - r_min rc) / (r_max rc - r_min rc)) in *.
    split; [apply Qmult_le_0_compat; assumption|]. nra.
Qed.

(* stamps of the repaired REDPort *)
Theorem red_perhop_stamp_eid rate rc eid s0 acts s tr :
  port_run (red_cfg all_fixed rate rc eid) s0 acts = Some (s, tr) -> Forall (stamped_as eid) tr.
Proof.
  intros H. eapply Forall_impl; [|eapply port_perhop_stamp; exact H].
  intros [[t a] outs] E. unfold stamp_ok in E. unfold stamped_as.
  cbn [c_stamp red_cfg all_fixed fx_stamp stamp_key] in E.
  destruct a; try exact E. destruct eid; exact E.
Qed.

Lemma red_perhop_stamp_refuted_unfixed :
  exists acts s tr,
    port_run (red_cfg without_stamp_fix 64 {| r_min := 1; r_max := 3; r_maxp := 1 # 2; r_qlimit := 4; r_w := 0; r_lb := false |}
                (Some 1%Z)) (port0 0) acts = Some (s, tr) /\
    ~ Forall (stamped_as (Some 1%Z)) tr.
Proof.
  exists [PPut (exP 0 0 8 0) None]. eexists. eexists. split; [lazy; reflexivity|].
  intros H. inversion H as [|e l He Hl]; subst. cbn in He. discriminate.
Qed.

(* non-vacuity: six packets in one burst into a REDPort (packet mode, w = 0 so avg = queue length found):
   avg 0 accept (no draw); avg 1, p = 0, u = 1/4: accept; avg 2, p = 1/4, u = 3/8: accept;
   avg 3 >= max, p = 1/2, u = 1/2: refused (u = p); avg 3, u = 0: refused twice *)
Definition red_ex_cfg : pcfg :=
  red_cfg all_fixed 64 {| r_min := 1; r_max := 3; r_maxp := 1 # 2; r_qlimit := 4; r_w := 0; r_lb := false |} (Some 1%Z).
Definition red_ex_acts : list paction :=
  [PInit; PPut (exP 0 0 8 0) None; PPut (exP 1 0 8 0) (Some (1 # 4)); PPut (exP 2 0 8 0) (Some (3 # 8));
   PPut (exP 3 0 8 0) (Some (1 # 2)); PPut (exP 4 0 8 0) (Some 0); PPut (exP 5 0 8 0) (Some 0);
   PStoreCb; PStoreCb; PStoreCb; PGet; PAdvance 1; PTimer; PGet; PAdvance 2; PTimer; PGet; PAdvance 3; PTimer].

Example red_example :
  option_map (fun r => (summary r, pavg (fst r))) (port_run red_ex_cfg (port0 0) red_ex_acts)
  = Some (([(1, 0%nat); (2, 1%nat); (3, 2%nat)], [3%nat; 4%nat; 5%nat], [(0, 0%nat); (0, 1%nat); (0, 2%nat)], (6, 3, 0)%Z, []), 3).
Proof. vm_compute. reflexivity. Qed.

(* a weighted average: w = 1, byte mode, two arrivals finding 0 then 100 bytes: avg 0, then 50 *)
Example red_example_ewma :
  option_map (fun r => pavg (fst r))
    (port_run (red_cfg all_fixed 0 {| r_min := 50; r_max := 306; r_maxp := 1 # 4; r_qlimit := 506; r_w := 1; r_lb := true |} None)
       (port0 0) [PInit; PPut (exP 0 0 100 0) None; PPut (exP 1 0 512 0) (Some (1 # 8))])
  = Some 50.
Proof. vm_compute. reflexivity. Qed.

(* The step configuration min_threshold = max_threshold (a legal RED parameterisation: no linear part).  The rule
   of [red_curve_rule] needs only min <= max, so it covers this case; spelled out: between the common threshold and
   qlimit one draw is made and the packet is refused iff u <= max_probability.  No quotient by max - min = 0 is
   involved: [red_policy] takes the linear branch only when min <= avg < max, which forces min < max (Coq's total
   division x / 0 = 0 is never evaluated on a reachable path, exactly as the code never divides there). *)
Corollary red_step_rule f rate rc eid s p u s' outs :
  r_min rc == r_max rc -> r_max rc <= r_qlimit rc ->
  port_act (red_cfg f rate rc eid) s (PPut p u) = Some (s', outs) ->
  r_min rc <= pavg s' -> pavg s' < r_qlimit rc ->
  exists x, u = Some x /\ (In (ODrop p) outs <-> x <= r_maxp rc).
Proof.
  intros E W2 A L1 L2.
  assert (WF : red_wf rc) by (split; [rewrite E; apply Qle_refl|exact W2]).
  destruct (red_curve_rule f rate rc eid s p u s' outs WF A L1 L2) as (x & U & D).
  exists x. split; [exact U|]. unfold red_curve in D.
  destruct (Qlt_le_dec (pavg s') (r_max rc)) as [H|H]; [exfalso; lra|exact D].
Qed.

(* the linear branch of the model is taken only with min < max *)
Lemma red_linear_branch_needs_gap rc s p x r a :
  red_policy rc s p (Some x) = Some (r, a) -> a < r_max rc -> r_min rc < r_max rc.
Proof.
  intros H L. apply red_policy_inv in H as (_ & [(_ & U & _)|[(_ & [X|N] & _)|(_ & _ & _ & U & _)]]); try discriminate; lra.
Qed.

(* non-vacuity: step RED min = max = 1, qlimit 3, gain 1, max_probability 1/2: avg 0 accept without draw;
   avg 1 with u = 1/2 refused (u = p), avg 1 with u = 3/4 accepted, avg 2 with u = 0 refused *)
Example red_step_example :
  option_map (fun r => (map uid (dropped (snd r)), map (fun x => uid (snd x)) (accepted (snd r)), pavg (fst r)))
    (port_run (red_cfg all_fixed 64 {| r_min := 1; r_max := 1; r_maxp := 1 # 2; r_qlimit := 3; r_w := 0; r_lb := false |} None)
       (port0 0) [PInit; PPut (exP 0 0 8 0) None; PPut (exP 1 0 8 0) (Some (1 # 2)); PPut (exP 2 0 8 0) (Some (3 # 4));
                  PPut (exP 3 0 8 0) (Some 0)])
  = Some ([1%nat; 3%nat], [0%nat; 2%nat], 2).
Proof. vm_compute. reflexivity. Qed.

(* the hypotheses of [red_step_rule] are met by a reachable state: second arrival of [red_step_example] *)
Definition step_rc : redcfg := {| r_min := 1; r_max := 1; r_maxp := 1 # 2; r_qlimit := 3; r_w := 0; r_lb := false |}.

Lemma red_step_witness :
  exists s tr s' outs,
    port_run (red_cfg all_fixed 64 step_rc None) (port0 0) [PInit; PPut (exP 0 0 8 0) None] = Some (s, tr) /\
    port_act (red_cfg all_fixed 64 step_rc None) s (PPut (exP 1 0 8 0) (Some (1 # 2))) = Some (s', outs) /\
    r_min step_rc == r_max step_rc /\ r_max step_rc <= r_qlimit step_rc /\
    r_min step_rc <= pavg s' /\ pavg s' < r_qlimit step_rc /\ In (ODrop (exP 1 0 8 0)) outs.
Proof.
  eexists. eexists. eexists. eexists.
  split; [lazy; reflexivity|]. split; [lazy; reflexivity|].
  split; [reflexivity|]. split; [vm_compute; discriminate|]. split; [vm_compute; discriminate|].
  split; [vm_compute; reflexivity|]. left. reflexivity.
Qed.
