(* The visit rule of C15 as a specification automaton over the internal events of run(), and the proof that every
   enabled action of the DRR model emits an event sequence the automaton accepts (refinement).
   The automaton state: the credits, the classes still to be visited in the current pass, the class whose visit is in
   progress, the packet whose transmission was started and is not yet debited.  [H c] is the list of packets class c
   holds (waiting or in transmission, oldest first); it does not change while run() executes between two yields. *)
From Coq Require Import ZArith QArith Qminmax List Bool Lia Lqa.
From ONL Require Import Elem.Packet Elem.StoreQ Elem.StoreQProofs Elem.DRR Elem.DRRInv Elem.DRRProofs.
Import ListNotations.
Opaque Qred.

Record dss := dmk { ss_cr : Z -> Q; ss_todo : list Z; ss_cur : option Z; ss_tx : option pkt }.

Definition dcr_same (cr cr' : Z -> Q) : Prop := forall k, cr' k == cr k.
Definition dcr_set (cr cr' : Z -> Q) (c : Z) (v : Q) : Prop := forall k, cr' k == if Z.eqb k c then v else cr k.

Inductive dspec (cfg : dcfg) (H : Z -> list pkt) : dss -> dout -> dss -> Prop :=
| sp_fwd s p :                       (* forwarding is not part of the visit rule *)
    dspec cfg H s (DOForward p) s
| sp_pass cr cr' :                   (* a new round begins: the previous one is over, somebody holds a packet *)
    (exists c, In c (dclasses cfg) /\ H c <> []) -> dcr_same cr cr' ->
    dspec cfg H (dmk cr [] None None) DOPass (dmk cr' (dclasses cfg) None None)
| sp_quantum cr cr' c rest :         (* next class in declaration order holds a packet: it gets its quantum *)
    H c <> [] -> dcr_set cr cr' c (cr c + dquantum cfg c) ->
    dspec cfg H (dmk cr (c :: rest) None None) (DOQuantum c) (dmk cr' rest (Some c) None)
| sp_skip cr cr' c rest :            (* next class holds nothing: no quantum (its visit ends at once: sp_end) *)
    H c = [] -> dcr_same cr cr' ->
    dspec cfg H (dmk cr (c :: rest) None None) (DOSkip c) (dmk cr' rest (Some c) None)
| sp_send cr cr' c rest p :          (* the head packet is covered by the credit: it is sent *)
    hd_error (H c) = Some p -> 0 < cr c -> inject_Z (psize p) <= cr c -> dcr_same cr cr' ->
    dspec cfg H (dmk cr rest (Some c) None) (DOSend c p) (dmk cr' rest (Some c) (Some p))
| sp_park cr cr' c rest p :          (* the head packet is not covered: it waits for the next visit, the credit is kept *)
    hd_error (H c) = Some p -> 0 < cr c -> cr c < inject_Z (psize p) -> dcr_same cr cr' ->
    dspec cfg H (dmk cr rest (Some c) None) (DOPark c p) (dmk cr' rest None None)
| sp_end cr cr' c rest :             (* the credit is used up or the class is empty: the visit is over *)
    (cr c <= 0 \/ H c = []) -> dcr_same cr cr' ->
    dspec cfg H (dmk cr rest (Some c) None) (DOEnd c) (dmk cr' rest None None)
| sp_debit cr cr' c rest p reset :   (* the sent packet's size is subtracted; the credit is forgotten iff the class is now empty *)
    (reset = true <-> H c = []) ->
    dcr_set cr cr' c (if reset then 0 else cr c - inject_Z (psize p)) ->
    dspec cfg H (dmk cr rest (Some c) (Some p)) (DODebit c p reset) (dmk cr' rest (Some c) None).

Inductive dspecs (cfg : dcfg) (H : Z -> list pkt) : dss -> list dout -> dss -> Prop :=
| sps_nil s : dspecs cfg H s [] s
| sps_cons s x s1 e s2 : dspec cfg H s x s1 -> dspecs cfg H s1 e s2 -> dspecs cfg H s (x :: e) s2.

Lemma dspecs_app cfg H s e1 s1 e2 s2 : dspecs cfg H s e1 s1 -> dspecs cfg H s1 e2 s2 -> dspecs cfg H s (e1 ++ e2) s2.
Proof. induction 1; cbn [app]; [auto|]. intros. econstructor; eauto. Qed.

Lemma dspecs_one cfg H s x s1 : dspec cfg H s x s1 -> dspecs cfg H s [x] s1.
Proof. intros. econstructor; [eassumption|constructor]. Qed.

(* the automaton state a model state stands for *)
Definition dtodo (d : drr) : list Z := match dctrl d with DKGet _ r | DKChild _ r => r | _ => [] end.
Definition dtxp (d : drr) : option pkt :=
  match dchd d with DCNone => None | DCStart p | DCTx p _ | DCDone p => Some p end.
Definition dabs (d : drr) : dss := dmk (ddef d) (dtodo d) (dvisiting d) (dtxp d).

Lemma dcr_same_refl cr : dcr_same cr cr.
Proof. intros k. reflexivity. Qed.

(* ---- the pieces of run() ------------------------------------------------------------------------------------------------ *)
Lemma dtry_head_ev cfg H d c rest p :
  dwf cfg -> dmid cfg (dset_hol d c (Some p)) (Some c) -> dsuffix cfg (c :: rest) ->
  (forall k, H k = dheld cfg (dset_hol d c (Some p)) k) -> 0 < ddef d c ->
  match dtry_head c rest d p with
  | DYield d' e => dspecs cfg H (dmk (ddef d) rest (Some c) None) e (dabs d')
  | DFall d' e => dspecs cfg H (dmk (ddef d) rest (Some c) None) e (dmk (ddef d') rest None None)
  | DErr => False
  end.
Proof.
  intros Hwf M Hsuf HH Hpos.
  assert (Hhd : hd_error (H c) = Some p).
  { rewrite HH. unfold dheld. rewrite (dmid_tx_nil _ _ _ c M). unfold dhol_l. cbn [dset_hol dhol]. rewrite dupd_eq. reflexivity. }
  unfold dtry_head. destruct (Qle_bool (inject_Z (psize p)) (ddef d c)) eqn:E.
  - apply Qle_bool_iff in E. apply dspecs_one. unfold dabs. cbn [ddef dtodo dvisiting dtxp dctrl dchd].
    apply sp_send; auto. apply dcr_same_refl.
  - apply Qle_bool_false in E. apply dspecs_one. cbn [dset_hol ddef].
    apply sp_park; auto. apply dcr_same_refl.
Qed.

Lemma dinner_ev cfg H d c rest :
  dwf cfg -> dmid cfg d (Some c) -> dsuffix cfg (c :: rest) -> (forall k, H k = dheld cfg d k) ->
  match dinner c rest d with
  | DYield d' e => dspecs cfg H (dmk (ddef d) rest (Some c) None) e (dabs d')
  | DFall d' e => dspecs cfg H (dmk (ddef d) rest (Some c) None) e (dmk (ddef d') rest None None)
  | DErr => False
  end.
Proof.
  intros Hwf M Hsuf HH. pose proof (dinner_spec cfg d c rest Hwf M Hsuf) as HS.
  unfold dinner in *. destruct (negb (Qle_bool (ddef d c) 0) && (0 <? dccnt d c)%Z) eqn:T.
  - apply andb_true_iff in T as [T1 T2]. apply negb_true_iff, Qle_bool_false in T1.
    destruct (dhol d c) as [p|] eqn:Eh.
    + destruct (dmid_rehol cfg d (Some c) c p M Eh) as [M1 S1].
      apply (dtry_head_ev cfg H d c rest p Hwf M1 Hsuf); [|exact T1].
      intros k. rewrite HH. symmetry. apply (s_held _ _ _ S1).
    + destruct (sq_get fifo_pop (dst d c)) as [q|]; [|exact HS].
      change (dabs (dset_ctl (dset_st d c q) (DKGet c rest))) with (dmk (ddef d) rest (Some c) (dtxp d)).
      unfold dtxp. rewrite (m_chd _ _ _ M). constructor.
  - apply dspecs_one. apply sp_end; [|apply dcr_same_refl].
    apply andb_false_iff in T as [T|T].
    + left. apply negb_false_iff, Qle_bool_iff in T. exact T.
    + right. apply Z.ltb_ge in T. rewrite (dmid_ccnt _ _ _ c M) in T. rewrite HH.
      unfold dlen in T. destruct (dheld cfg d c); [reflexivity|cbn in T; lia].
Qed.

Lemma dvisit_start_ev cfg H d c rest :
  dwf cfg -> dmid cfg d None -> In c (dclasses cfg) -> (forall k, H k = dheld cfg d k) ->
  dspecs cfg H (dmk (ddef d) (c :: rest) None None) (snd (dvisit_start cfg c d))
    (dmk (ddef (fst (dvisit_start cfg c d))) rest (Some c) None).
Proof.
  intros Hwf M Hc HH. unfold dvisit_start. destruct (0 <? dccnt d c)%Z eqn:E; cbn [fst snd]; apply dspecs_one.
  - apply Z.ltb_lt in E. rewrite (dmid_ccnt _ _ _ c M) in E. apply sp_quantum.
    + rewrite HH. unfold dlen in E. destruct (dheld cfg d c); [cbn in E; lia|discriminate].
    + intros k. cbn [dset_def ddef]. unfold dupd. destruct (Z.eqb k c); [apply Qred_correct|reflexivity].
  - apply Z.ltb_ge in E. rewrite (dmid_ccnt _ _ _ c M) in E. apply sp_skip; [|apply dcr_same_refl].
    rewrite HH. unfold dlen in E. destruct (dheld cfg d c); [reflexivity|cbn in E; lia].
Qed.

Lemma dscan_ev cfg H cs : forall d,
  dwf cfg -> dmid cfg d None -> dsuffix cfg cs -> (forall k, H k = dheld cfg d k) ->
  match dscan cfg cs d with
  | DYield d' e => dspecs cfg H (dmk (ddef d) cs None None) e (dabs d')
  | DFall d' e => dspecs cfg H (dmk (ddef d) cs None None) e (dmk (ddef d') [] None None)
  | DErr => False
  end.
Proof.
  induction cs as [|c rest IH]; intros d Hwf M Hsuf HH; cbn [dscan]; [constructor|].
  pose proof (dsuffix_head _ _ _ Hsuf) as Hin.
  destruct (dvisit_start_spec cfg d c Hwf M Hin) as (M1 & S1 & T1).
  pose proof (dvisit_start_ev cfg H d c rest Hwf M Hin HH) as E1.
  destruct (dvisit_start cfg c d) as [d1 e1] eqn:V. cbn [fst snd] in *.
  assert (HH1 : forall k, H k = dheld cfg d1 k) by (intros k; rewrite HH; symmetry; apply (s_held _ _ _ S1)).
  pose proof (dinner_spec cfg d1 c rest Hwf M1 Hsuf) as HS.
  pose proof (dinner_ev cfg H d1 c rest Hwf M1 Hsuf HH1) as E2.
  destruct (dinner c rest d1) as [d2 e2|d2 e2|]; [| |exact E2].
  - eapply dspecs_app; eauto.
  - destruct HS as (M2 & S2 & T2).
    assert (HH2 : forall k, H k = dheld cfg d2 k) by (intros k; rewrite HH1; symmetry; apply (s_held _ _ _ S2)).
    specialize (IH d2 Hwf M2 (dsuffix_tail _ _ _ Hsuf) HH2).
    destruct (dscan cfg rest d2) as [d3 e3|d3 e3|]; [| |exact IH];
      (eapply dspecs_app; [exact E1|]; eapply dspecs_app; [exact E2|exact IH]).
Qed.

Lemma dtotal_pos_ex cfg d : dbase cfg d -> (0 < dtotal d)%Z -> exists c, In c (dclasses cfg) /\ dheld cfg d c <> [].
Proof.
  intros B T. rewrite (b_total _ _ B) in T.
  destruct (dsum_pos_ex _ _ (dlen_nonneg cfg d) T) as (c & Hc & Hl). exists c. split; [exact Hc|].
  unfold dlen in Hl. destruct (dheld cfg d c); [cbn in Hl; lia|discriminate].
Qed.

Lemma dpasses_ev cfg H fuel : forall d d' e,
  dwf cfg -> dmid cfg d None -> (forall k, H k = dheld cfg d k) -> dpasses fuel cfg d = Some (d', e) ->
  dspecs cfg H (dmk (ddef d) [] None None) e (dabs d').
Proof.
  assert (Htok : forall d d' e q, dmid cfg d None -> Some (dset_ctl (dset_tok d q) DKTok, @nil dout) = Some (d', e) ->
                 dspecs cfg H (dmk (ddef d) [] None None) e (dabs d')).
  { intros d d' e q M E. injection E as <- <-.
    change (dabs (dset_ctl (dset_tok d q) DKTok)) with (dmk (ddef d) [] None (dtxp d)).
    unfold dtxp. rewrite (m_chd _ _ _ M). constructor. }
  induction fuel as [|n IH]; intros d d' e Hwf M HH P; cbn [dpasses] in P.
  - destruct (0 <? dtotal d)%Z; [discriminate|]. destruct (sq_get fifo_pop (dtok d)) as [q|]; [|discriminate].
    eapply Htok; eauto.
  - destruct (0 <? dtotal d)%Z eqn:T.
    + apply Z.ltb_lt in T.
      assert (Hp : dspec cfg H (dmk (ddef d) [] None None) DOPass (dmk (ddef d) (dclasses cfg) None None)).
      { apply sp_pass; [|apply dcr_same_refl]. destruct (dtotal_pos_ex cfg d (m_base _ _ _ M) T) as (c & Hc & Hne).
        exists c. split; [exact Hc|]. rewrite HH. exact Hne. }
      pose proof (dscan_spec cfg (dclasses cfg) d Hwf M (dsuffix_all cfg)) as HS.
      pose proof (dscan_ev cfg H (dclasses cfg) d Hwf M (dsuffix_all cfg) HH) as E1.
      destruct (dscan cfg (dclasses cfg) d) as [d1 e1|d1 e1|]; [| |discriminate].
      * injection P as <- <-. econstructor; eauto.
      * destruct HS as (M1 & S1 & T1).
        destruct (dpasses n cfg d1) as [[d2 e2]|] eqn:P2; [|discriminate]. injection P as <- <-.
        assert (HH1 : forall k, H k = dheld cfg d1 k) by (intros k; rewrite HH; symmetry; apply (s_held _ _ _ S1)).
        econstructor; [exact Hp|]. eapply dspecs_app; [exact E1|]. apply (IH d1 d2 e2 Hwf M1 HH1 P2).
    + destruct (sq_get fifo_pop (dtok d)) as [q|]; [|discriminate]. eapply Htok; eauto.
Qed.

Lemma dcontinue_ev cfg H rest r s0 d' e :
  dwf cfg -> dsuffix cfg rest ->
  match r with
  | DYield d e0 => dinv cfg d /\ dspecs cfg H s0 e0 (dabs d)
  | DFall d e0 => dmid cfg d None /\ (forall k, H k = dheld cfg d k) /\ dspecs cfg H s0 e0 (dmk (ddef d) rest None None)
  | DErr => False
  end ->
  dcontinue cfg rest r = Some (d', e) -> dspecs cfg H s0 e (dabs d').
Proof.
  intros Hwf Hsuf Hr P. destruct r as [d e0|d e0|]; cbn [dcontinue] in P; [| |contradiction].
  - injection P as <- <-. apply Hr.
  - destruct Hr as (M & HH & E0).
    pose proof (dscan_spec cfg rest d Hwf M Hsuf) as HS.
    pose proof (dscan_ev cfg H rest d Hwf M Hsuf HH) as E1.
    destruct (dscan cfg rest d) as [d1 e1|d1 e1|]; [| |discriminate].
    + injection P as <- <-. eapply dspecs_app; eauto.
    + destruct HS as (M1 & S1 & T1).
      destruct (dpasses (dfuel d1) cfg d1) as [[d2 e2]|] eqn:P2; [|discriminate]. injection P as <- <-.
      assert (HH1 : forall k, H k = dheld cfg d1 k) by (intros k; rewrite HH; symmetry; apply (s_held _ _ _ S1)).
      eapply dspecs_app; [exact E0|]. eapply dspecs_app; [exact E1|].
      apply (dpasses_ev cfg H _ d1 d2 e2 Hwf M1 HH1 P2).
Qed.

(* ---- refinement: every enabled action follows the visit rule ------------------------------------------------------------ *)
Lemma dstep_visit cfg d a d' ev :
  dwf cfg -> dinv cfg d -> drr_act cfg d a = Some (d', ev) -> dspecs cfg (dheld cfg d') (dabs d) ev (dabs d').
Proof.
  intros Hwf I A. pose proof (i_ctl _ _ I) as C. unfold dctl_ok in C.
  destruct a as [p| |[c|]|[c|]| | | |t].
  - (* DPut *) unfold drr_act in A. cbv zeta in A. destruct (_ && _); [|discriminate]. injection A as <- <-. apply sps_nil.
  - (* DInit *) destruct (dstep_init cfg d d' ev Hwf I A) as (_ & S).
    unfold drr_act in A. destruct (dctrl d) eqn:K; try discriminate. destruct C as (C1 & C2 & C3).
    assert (M : dmid cfg d None) by (apply dinv_mid; auto; unfold dvisiting; rewrite K; reflexivity).
    assert (E : dabs d = dmk (ddef d) [] None None) by (unfold dabs, dtodo, dvisiting, dtxp; rewrite K, C1; reflexivity).
    rewrite E. eapply (dpasses_ev cfg (dheld cfg d')); [exact Hwf|exact M| |exact A]. intros k. apply (h_held _ _ _ S).
  - (* DStoreCb (Some c) *) unfold drr_act in A. destruct (dmemZ c (dclasses cfg)); [|discriminate].
    destruct (sq_cb fifo_pop (dst d c)); [|discriminate]. injection A as <- <-. apply sps_nil.
  - unfold drr_act in A. destruct (sq_cb fifo_pop (dtok d)); [|discriminate]. injection A as <- <-. apply sps_nil.
  - (* DGetDone (Some c) *) destruct (dstep_get cfg d c d' ev Hwf I A) as (_ & S).
    unfold drr_act in A. destruct (dctrl d) as [| |c0 rest|] eqn:K; try discriminate.
    destruct (Z.eqb_spec c c0) as [<-|]; [|discriminate].
    destruct (sq_take (dst d c)) as [[[t0 p] q]|] eqn:Tk; [|discriminate].
    destruct (dget_mid cfg d c rest t0 p q Hwf I K Tk) as (M & S2 & Hpos & Hsuf & Ch).
    assert (E : dabs d = dmk (ddef d) rest (Some c) None) by (unfold dabs, dtodo, dvisiting, dtxp; rewrite K, Ch; reflexivity).
    rewrite E.
    assert (HH : forall k, dheld cfg d' k = dheld cfg (dset_hol (dset_st d c q) c (Some p)) k).
    { intros k. rewrite (h_held _ _ _ S). symmetry. apply (s_held _ _ _ S2). }
    pose proof (dtry_head_spec cfg (dset_st d c q) c rest p Hwf M Hsuf) as HT.
    pose proof (dtry_head_ev cfg (dheld cfg d') (dset_st d c q) c rest p Hwf M Hsuf HH Hpos) as ET.
    change (ddef (dset_st d c q)) with (ddef d) in ET.
    apply (dcontinue_ev cfg (dheld cfg d') rest (dtry_head c rest (dset_st d c q) p) (dmk (ddef d) rest (Some c) None) d' ev Hwf (dsuffix_tail _ _ _ Hsuf)); [|exact A].
    destruct (dtry_head c rest (dset_st d c q) p) as [dr er|dr er|]; [| |exact HT].
    + split; [apply HT|exact ET].
    + destruct HT as (Mr & Sr & _). split; [exact Mr|]. split; [|exact ET].
      intros k. rewrite HH. symmetry. apply (s_held _ _ _ Sr).
  - (* DGetDone None *) destruct (dstep_tokget cfg d d' ev Hwf I A) as (_ & S).
    unfold drr_act in A. destruct (dctrl d) eqn:K; try discriminate.
    destruct (sq_take (dtok d)) as [[x q]|] eqn:Tk; [|discriminate]. destruct C as (C1 & C2 & C3).
    pose proof (sq_take_inv unit _ _ _ Tk) as (G & Ei & Ep & Gq). pose proof (i_base _ _ I) as B.
    assert (M : dmid cfg (dset_tok d q) None).
    { constructor; cbn; auto.
      - apply (dbase_transfer cfg d _ B); [constructor; reflexivity|intros k; reflexivity| |apply (b_def _ _ B)].
        cbn. apply (fifo_nostrand_take unit _ _ _ Tk).
      - intros c _. apply (i_rest _ _ I). unfold dvisiting. rewrite K. discriminate.
      - intros c Hc. discriminate. }
    assert (E : dabs d = dmk (ddef (dset_tok d q)) [] None None) by (unfold dabs, dtodo, dvisiting, dtxp; rewrite K, C1; reflexivity).
    rewrite E. eapply (dpasses_ev cfg (dheld cfg d')); [exact Hwf|exact M| |exact A]. intros k. apply (h_held _ _ _ S).
  - (* DChildInit *) unfold drr_act in A. destruct (dchd d) as [|p| |] eqn:Ch; try discriminate. injection A as <- <-.
    assert (E : dabs d = dmk (ddef d) (dtodo d) (dvisiting d) (Some p)) by (unfold dabs, dtxp; rewrite Ch; reflexivity).
    rewrite E. apply sps_nil.
  - (* DChildTimer *) unfold drr_act in A. destruct (dchd d) as [| |p dl|] eqn:Ch; try discriminate.
    destruct (Qeq_bool dl (dnow d)); [|discriminate]. cbv zeta in A. injection A as <- <-.
    assert (E : dabs d = dmk (ddef d) (dtodo d) (dvisiting d) (Some p)) by (unfold dabs, dtxp; rewrite Ch; reflexivity).
    rewrite E. apply dspecs_one. apply sp_fwd.
  - (* DChildEnd *) destruct (dstep_childend cfg d d' ev Hwf I A) as (_ & S).
    unfold drr_act in A. destruct (dchd d) as [| | |p] eqn:Ch; try discriminate.
    destruct (dctrl d) as [| | |c rest] eqn:K; try discriminate.
    destruct (dchildend_mid cfg d c rest p Hwf I Ch K) as (M & S1 & Hsuf & Hc & Hreset).
    destruct (dcontinue cfg rest (dinner c rest (ddebit d c rest p))) as [[d2 e2]|] eqn:Dc; [|discriminate]. injection A as <- <-.
    assert (E : dabs d = dmk (ddef d) rest (Some c) (Some p)) by (unfold dabs, dtodo, dvisiting, dtxp; rewrite K, Ch; reflexivity).
    rewrite E.
    assert (HH : forall k, dheld cfg d2 k = dheld cfg (ddebit d c rest p) k).
    { intros k. rewrite (h_held _ _ _ S). symmetry. apply (h_held _ _ _ S1). }
    econstructor.
    + apply (sp_debit cfg (dheld cfg d2) (ddef d) (ddef (ddebit d c rest p)) c rest p).
      * rewrite (h_held _ _ _ S). exact Hreset.
      * intros k. unfold ddebit. cbn [ddef]. unfold dupd. destruct (Z.eqb k c); [|reflexivity].
        destruct (ddebit_reset d c); [reflexivity|apply Qred_correct].
    + pose proof (dinner_spec cfg (ddebit d c rest p) c rest Hwf M Hsuf) as HI.
      pose proof (dinner_ev cfg (dheld cfg d2) (ddebit d c rest p) c rest Hwf M Hsuf HH) as EI.
      apply (dcontinue_ev cfg (dheld cfg d2) rest (dinner c rest (ddebit d c rest p))
               (dmk (ddef (ddebit d c rest p)) rest (Some c) None) d2 e2 Hwf (dsuffix_tail _ _ _ Hsuf)); [|exact Dc].
      destruct (dinner c rest (ddebit d c rest p)) as [dr er|dr er|]; [| |exact HI].
      * split; [apply HI|exact EI].
      * destruct HI as (Mr & Sr & _). split; [exact Mr|]. split; [|exact EI].
        intros k. rewrite HH. symmetry. apply (s_held _ _ _ Sr).
  - (* DAdvance *) unfold drr_act in A. destruct (durgent cfg d); [discriminate|]. destruct (Qlt_le_dec (dnow d) t); [|discriminate].
    cbv zeta in A.
    assert (E0 : ev = [] /\ dabs d' = dabs d).
    { destruct (dchd d) as [|p|p dl|p] eqn:Ch; try (injection A as <- <-; split; [reflexivity|unfold dabs, dtxp; cbn; rewrite Ch; reflexivity]).
      destruct (Qle_bool t dl); [|discriminate]. injection A as <- <-. split; [reflexivity|unfold dabs, dtxp; cbn; rewrite Ch; reflexivity]. }
    destruct E0 as (-> & ->). apply sps_nil.
Qed.

Theorem drr_visit_l cfg t0 acts d tr a d' ev :
  dwf cfg -> drr_run cfg (drr0 t0) acts = Some (d, tr) -> drr_act cfg d a = Some (d', ev) ->
  dspecs cfg (dheld cfg d') (dabs d) ev (dabs d').
Proof. intros Hwf H A. apply (dstep_visit cfg d a d' ev Hwf (dreach_inv cfg t0 acts d tr Hwf H) A). Qed.
