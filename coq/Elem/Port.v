(* Model of onl/netdev/port.py : Port (put + the run() server process), of the sampling step of
   onl/netdev/port_monitor.py : PortMonitor, and the frame shared with REDPort (Elem/Red.v), as a timed
   automaton with urgent internal micro-steps (DESIGN.md 2.4).  Executable; proofs are in PortProofs.v.

   Actions (what the harness observes of the real execution, one per kernel step or put() call):
     PPut p u      port.put(p) called by the upstream element; u = the random.uniform(0,1) draw the call
                   consumed (REDPort only; None when no draw was made)
     PInit         the kernel processes the Initialize event of run(): the server reaches its first store.get()
     PStoreCb      the kernel processes a StorePut event of the port's store
     PGet          the kernel processes the granted StoreGet: run() resumes with a packet, sets busy and
                   starts the transmission timeout 8*size/rate, or (rate <= 0) forwards at once and loops
     PTimer        the kernel processes the transmission timeout: byte_size -= size, forward, loop to get
     PAdvance t    the clock moves to t (only when nothing of the port is due at the current instant and t
                   does not pass the pending transmission deadline)
     PSample incl  a PortMonitor created with pkt_in_service_included = incl takes one sample of the port

   The drop decision of put() is a parameter (a [policy]): tail drop here, RED in Elem/Red.v.  The model is
   the model of the REPAIRED code; the behaviour of the code as found is kept behind booleans ([fixes]) so
   that the refutations of the unrepaired variants can be computed. *)
From Coq Require Import ZArith QArith Qminmax List Bool.
From ONL Require Import Elem.Packet Elem.StoreQ.
Import ListNotations.

Inductive paction :=
| PPut (p : pkt) (u : option Q) | PInit | PStoreCb | PGet | PTimer | PAdvance (t : Q) | PSample (incl : bool).

(* a key of packet.perhop_time: None = the Python value None, Some 0 = the empty string, Some k = an id *)
Definition ekey := option Z.

Inductive pout :=
| OForward (p : pkt)              (* self.out.put(packet) *)
| ODrop (p : pkt)                 (* the packet is refused (packets_dropped += 1) *)
| OStamp (k : ekey) (t : Q)       (* packet.perhop_time[k] = t *)
| OSample (n : Z) (b : Z).        (* PortMonitor appends n to sizes and b to sizes_byte *)

Record port := {
  pnow : Q;
  pq : sq pkt;                     (* the Store; items are (instant of put, packet) *)
  pstarted : bool;                 (* Initialize processed *)
  psvc : option (pkt * Q);         (* packet in transmission (busy = 1) and the instant its timeout is due *)
  pbytes : Z;                      (* byte_size *)
  precv : Z;                       (* packets_received *)
  pdrop : Z;                       (* packets_dropped *)
  pavg : Q                         (* REDPort.average_queue_size (stays 0 in a plain Port) *)
}.

Definition port0 (t0 : Q) : port :=
  {| pnow := t0; pq := sq0; pstarted := false; psvc := None; pbytes := 0; precv := 0; pdrop := 0; pavg := 0 |}.

(* the decision of put(): Some (refuse?, new average); None = the call does not fit (wrong number of
   draws) or, in an unrepaired variant, raises *)
Definition policy := port -> pkt -> option Q -> option (bool * Q).

Record pcfg := {
  c_rate : Q;                      (* bit rate; <= 0 means "no serialisation delay" (`if self.rate > 0`) *)
  c_policy : policy;
  c_stamp : option ekey;           (* Some k: put() stamps perhop_time[k] = now; None: no stamp *)
  c_fix_rate0 : bool;              (* true = repaired: byte_size is decremented also when rate <= 0 *)
  c_fix_mon : bool                 (* true = repaired PortMonitor byte arithmetic *)
}.

(* ---- the repairs (one boolean per defect of the code as found) ---------------------------------- *)
Record fixes := { fx_qlimit : bool; fx_stamp : bool; fx_rate0 : bool; fx_mon : bool }.
Definition all_fixed : fixes := {| fx_qlimit := true; fx_stamp := true; fx_rate0 := true; fx_mon := true |}.
Definition as_found : fixes := {| fx_qlimit := false; fx_stamp := false; fx_rate0 := false; fx_mon := false |}.

(* the threshold test of Port.put *)
Definition over_limit (lb : bool) (q : Z) (s : port) (p : pkt) : bool :=
  if lb then Z.ltb q (pbytes s + psize p)                          (* byte_count > qlimit *)
  else Z.leb (q - 1) (Z.of_nat (length (items (pq s)))).           (* len(store.items) >= qlimit - 1 *)

Definition tail_policy (fxq : bool) (qlimit : option Z) (lb : bool) : policy :=
  fun s p u =>
    match u with
    | Some _ => None
    | None =>
        if fxq then
          match qlimit with                                        (* `if self.qlimit is None:` *)
          | None => Some (false, pavg s)
          | Some q => Some (over_limit lb q s p, pavg s)
          end
        else
          match qlimit with                                        (* as found: `if self.qlimit:` *)
          | None => None                                           (* falls to the comparison: TypeError *)
          | Some q => if Z.eqb q 0 then Some (over_limit lb q s p, pavg s) else Some (false, pavg s)
          end
    end.

(* `if self.element_id is not None:` (repaired)  /  `if not self.element_id:` (as found) *)
Definition stamp_key (fxs : bool) (eid : ekey) : option ekey :=
  if fxs then match eid with Some _ => Some eid | None => None end
  else match eid with
       | None => Some None
       | Some k => if Z.eqb k 0 then Some eid else None
       end.

Definition port_cfg (f : fixes) (rate : Q) (qlimit : option Z) (lb : bool) (eid : ekey) : pcfg :=
  {| c_rate := rate; c_policy := tail_policy (fx_qlimit f) qlimit lb; c_stamp := stamp_key (fx_stamp f) eid;
     c_fix_rate0 := fx_rate0 f; c_fix_mon := fx_mon f |}.

(* ---- the automaton ---------------------------------------------------------------------------- *)
Definition with_q (s : port) (q : sq pkt) : port :=
  {| pnow := pnow s; pq := q; pstarted := pstarted s; psvc := psvc s; pbytes := pbytes s;
     precv := precv s; pdrop := pdrop s; pavg := pavg s |}.
Definition with_svc (s : port) (v : option (pkt * Q)) : port :=
  {| pnow := pnow s; pq := pq s; pstarted := pstarted s; psvc := v; pbytes := pbytes s;
     precv := precv s; pdrop := pdrop s; pavg := pavg s |}.
Definition with_bytes (s : port) (b : Z) : port :=
  {| pnow := pnow s; pq := pq s; pstarted := pstarted s; psvc := psvc s; pbytes := b;
     precv := precv s; pdrop := pdrop s; pavg := pavg s |}.
Definition with_started (s : port) : port :=
  {| pnow := pnow s; pq := pq s; pstarted := true; psvc := psvc s; pbytes := pbytes s;
     precv := precv s; pdrop := pdrop s; pavg := pavg s |}.
Definition with_now (s : port) (t : Q) : port :=
  {| pnow := t; pq := pq s; pstarted := pstarted s; psvc := psvc s; pbytes := pbytes s;
     precv := precv s; pdrop := pdrop s; pavg := pavg s |}.

(* packet.size * 8 / self.rate *)
Definition tx (c : pcfg) (p : pkt) : Q := inject_Z (psize p * 8) / c_rate c.

(* the server loops back to `packet = yield self.store.get()` *)
Definition server_get (s : port) : option port :=
  match sq_get fifo_pop (pq s) with
  | Some q => Some (with_q s q)
  | None => None
  end.

(* what put() writes into packet.perhop_time *)
Definition stamp_outs (c : pcfg) (s : port) : list pout :=
  match c_stamp c with Some k => [OStamp k (pnow s)] | None => [] end.

(* the packet is enqueued: byte_size += size; store.put(packet) *)
Definition put_accept (s : port) (p : pkt) (a : Q) : port :=
  {| pnow := pnow s; pq := sq_put fifo_push (pnow s) p (pq s); pstarted := pstarted s; psvc := psvc s;
     pbytes := (pbytes s + psize p)%Z; precv := (precv s + 1)%Z; pdrop := pdrop s; pavg := a |}.

(* the packet is refused: packets_dropped += 1 *)
Definition put_refuse (s : port) (a : Q) : port :=
  {| pnow := pnow s; pq := pq s; pstarted := pstarted s; psvc := psvc s; pbytes := pbytes s;
     precv := (precv s + 1)%Z; pdrop := (pdrop s + 1)%Z; pavg := a |}.

Definition port_put (c : pcfg) (s : port) (p : pkt) (u : option Q) : option (port * list pout) :=
  match c_policy c s p u with
  | None => None
  | Some (refuse, a) =>
      if refuse then Some (put_refuse s a, stamp_outs c s ++ [ODrop p])
      else Some (put_accept s p a, stamp_outs c s)
  end.

(* the server's share of `byte_size -= packet.size` when there is no transmission delay *)
Definition leave_now (c : pcfg) (s : port) (p : pkt) : port :=
  if c_fix_rate0 c then with_bytes s (pbytes s - psize p)%Z else s.

Definition timer_due (s : port) : bool :=
  match psvc s with Some (_, dl) => Qeq_bool dl (pnow s) | None => false end.

Definition purgent (s : port) : bool :=
  negb (pstarted s) || sq_urgent (pq s) || timer_due s.

Definition busy_size (s : port) : Z := match psvc s with Some (p, _) => psize p | None => 0%Z end.   (* busy_packet_size *)
Definition busy_flag (s : port) : Z := match psvc s with Some _ => 1%Z | None => 0%Z end.             (* busy *)

(* one sample of PortMonitor.run *)
Definition sample (fxm incl : bool) (s : port) : pout :=
  let n := Z.of_nat (length (items (pq s))) in
  if incl then OSample (n + busy_flag s) (if fxm then pbytes s else pbytes s + busy_size s)
  else OSample n (if fxm then pbytes s - busy_size s else pbytes s).

Definition port_act (c : pcfg) (s : port) (a : paction) : option (port * list pout) :=
  match a with
  | PPut p u => port_put c s p u
  | PInit =>
      if pstarted s then None
      else match server_get (with_started s) with
           | Some s' => Some (s', [])
           | None => None
           end
  | PStoreCb =>
      match sq_cb fifo_pop (pq s) with
      | Some q => Some (with_q s q, [])
      | None => None
      end
  | PGet =>
      match psvc s, sq_take (pq s) with
      | None, Some ((_, p), q) =>
          if negb (pstarted s) then None else
          let s1 := with_q s q in
          if Qlt_le_dec 0 (c_rate c) then
            (* busy = 1; yield env.timeout(packet.size * 8 / self.rate) *)
            Some (with_svc s1 (Some (p, Qred (pnow s + tx c p))), [])
          else
            match server_get (leave_now c s1 p) with
            | Some s2 => Some (s2, [OForward p])
            | None => None
            end
      | _, _ => None
      end
  | PTimer =>
      match psvc s with
      | Some (p, dl) =>
          if Qeq_bool dl (pnow s) then
            match server_get (with_bytes (with_svc s None) (pbytes s - psize p)%Z) with
            | Some s2 => Some (s2, [OForward p])
            | None => None
            end
          else None
      | None => None
      end
  | PAdvance t =>
      if purgent s then None
      else if Qlt_le_dec (pnow s) t then
        match psvc s with
        | Some (_, dl) => if Qle_bool t dl then Some (with_now s t, []) else None
        | None => Some (with_now s t, [])
        end
      else None
  | PSample incl => Some (s, [sample (c_fix_mon c) incl s])
  end.

(* an execution: every action must be enabled (admissible); the trace pairs each action with the
   instant at which it happened and with what it emitted *)
Definition pev := (Q * paction * list pout)%type.

Fixpoint port_run (c : pcfg) (s : port) (acts : list paction) : option (port * list pev) :=
  match acts with
  | [] => Some (s, [])
  | a :: rest =>
      match port_act c s a with
      | None => None
      | Some (s', outs) =>
          match port_run c s' rest with
          | None => None
          | Some (s'', tr) => Some (s'', (pnow s', a, outs) :: tr)
          end
      end
  end.

(* index of the first action that is not admissible (diagnosis), or None *)
Fixpoint port_stuck (c : pcfg) (s : port) (acts : list paction) (i : nat) : option nat :=
  match acts with
  | [] => None
  | a :: rest =>
      match port_act c s a with
      | None => Some i
      | Some (s', _) => port_stuck c s' rest (S i)
      end
  end.

(* what the port holds: the packet in transmission, the packet travelling in a granted get, the store items *)
Definition port_held (s : port) : list pkt :=
  (match psvc s with Some (p, _) => [p] | None => [] end) ++ map snd (sq_held (pq s)).

Definition sum_sizes (l : list pkt) : Z := fold_right (fun p acc => (psize p + acc)%Z) 0%Z l.

(* ---- comparison with an observed execution (correspondence) -------------------------------- *)
Definition ekey_eqb (a b : ekey) : bool :=
  match a, b with
  | None, None => true
  | Some x, Some y => Z.eqb x y
  | _, _ => false
  end.

Definition pout_eqb (a b : pout) : bool :=
  match a, b with
  | OForward p, OForward q => pkt_eqb p q
  | ODrop p, ODrop q => pkt_eqb p q
  | OStamp k t, OStamp k' t' => ekey_eqb k k' && Qeq_bool t t'
  | OSample n b, OSample n' b' => Z.eqb n n' && Z.eqb b b'
  | _, _ => false
  end.

Fixpoint pouts_eqb (a b : list pout) : bool :=
  match a, b with
  | [], [] => true
  | x :: s, y :: t => pout_eqb x y && pouts_eqb s t
  | _, _ => false
  end.

(* a refusal is seen from outside only through packets_dropped: the other outputs are compared *)
Definition observable (l : list pout) : list pout :=
  filter (fun o => match o with ODrop _ => false | _ => true end) l.

(* observed after an action: (packets_received, packets_dropped, byte_size, len(store.items), busy, average_queue_size) *)
Definition pobs := (Z * Z * Z * nat * bool * Q)%type.

Definition obs_eqb (s : port) (o : pobs) : bool :=
  match o with
  | (r, d, b, n, busy, a) =>
      Z.eqb (precv s) r && Z.eqb (pdrop s) d && Z.eqb (pbytes s) b && Nat.eqb (length (items (pq s))) n
      && Bool.eqb (match psvc s with Some _ => true | None => false end) busy && Qeq_bool (pavg s) a
  end.

Fixpoint port_agree (c : pcfg) (s : port) (obs : list (paction * list pout * pobs)) : bool :=
  match obs with
  | [] => true
  | (a, outs, o) :: rest =>
      match port_act c s a with
      | None => false
      | Some (s', outs') => pouts_eqb (observable outs') outs && obs_eqb s' o && port_agree c s' rest
      end
  end.

(* diagnosis: index of the first observed action the model does not reproduce *)
Fixpoint port_first_diff (c : pcfg) (s : port) (obs : list (paction * list pout * pobs)) (i : nat)
  : option (nat * option (list pout * pobs)) :=
  match obs with
  | [] => None
  | (a, outs, o) :: rest =>
      match port_act c s a with
      | None => Some (i, None)
      | Some (s', outs') =>
          if pouts_eqb (observable outs') outs && obs_eqb s' o then port_first_diff c s' rest (S i)
          else Some (i, Some (outs', (precv s', pdrop s', pbytes s', length (items (pq s')),
                                      match psvc s' with Some _ => true | None => false end, pavg s')))
      end
  end.
