(* A concrete execution of the RandomDemux model, OBSERVED on the real onl.netdev.demux.RandomDemux with scripted draws
   (props/part_route.py prints it): non-vacuity of Elem/ComposeRandom.v. *)
From Coq Require Import ZArith QArith List Bool.
From ONL Require Import Elem.Packet Elem.StoreQ Elem.Port Route.Demux Elem.Iface Elem.Compose Elem.ComposePar Elem.ComposeFan Elem.ComposeSwitch
  Elem.ComposeRandom Elem.AdaptPort.
Import ListNotations.
Local Open Scope Z_scope.

Definition rdx_E : elem := (rdemux_elem (fun p => nth (uid p) [(choices_index [((1)%Z # 4); ((1)%Z # 4)] ((7)%Z # 8)); (choices_index [((1)%Z # 4); ((1)%Z # 4)] ((1)%Z # 8)); (choices_index [((1)%Z # 4); ((1)%Z # 4)] ((1)%Z # 2)); (choices_index [((0)%Z # 1); ((1)%Z # 1)] ((3)%Z # 8))] 0%nat) ((0)%Z # 1) [(port_elem (port_cfg all_fixed ((1024)%Z # 1) (Some (2)%Z) false (Some (300)%Z)) ((0)%Z # 1)); (port_elem (port_cfg all_fixed ((0)%Z # 1) None false (Some (301)%Z)) ((0)%Z # 1))]).
Definition rdx_acts : list (iact (lab rdx_E)) :=
  [IStep (inr (inl (PInit)));
   IStep (inr (inr (inl (PInit))));
   IPut (mkp 0%nat (1)%Z (0)%Z (128)%Z ((0)%Z # 1));
   IPut (mkp 1%nat (2)%Z (0)%Z (128)%Z ((0)%Z # 1));
   IPut (mkp 2%nat (3)%Z (1)%Z (128)%Z ((0)%Z # 1));
   IPut (mkp 3%nat (4)%Z (0)%Z (128)%Z ((0)%Z # 1));
   IStep (inr (inr (inl (PStoreCb))));
   IStep (inr (inl (PStoreCb)));
   IStep (inr (inr (inl (PStoreCb))));
   IStep (inr (inr (inl (PStoreCb))));
   IStep (inr (inr (inl (PGet))));
   IStep (inr (inl (PGet)));
   IStep (inr (inr (inl (PGet))));
   IStep (inr (inr (inl (PGet))));
   IAdv ((1)%Z # 1);
   IStep (inr (inl (PTimer)))].

Definition ruids (l : list pkt) : list nat := map uid l.

(* RandomDemux over Port(1024 bit/s, limit 2) and Port(rate 0) with RELATIVE weights [1/4, 1/4] (sum 1/2) and draws 7/8, 1/8, 1/2:
   random.choices scales the draw by the total, so the outputs chosen are 1, 0, 1; then probs := [0, 1] and the draw 3/8 gives
   output 1.  Every packet leaves by exactly one output; output 0 is given one packet, output 1 three *)
Example rdx_run :
  map (choices_index [1 # 4; 1 # 4]%Q) [7 # 8; 1 # 8; 1 # 2]%Q = [1; 0; 1]%nat /\ choices_index [0; 1]%Q (3 # 8)%Q = 1%nat /\
  exists s tr, Iface.run rdx_E (init rdx_E) rdx_acts = Some (s, tr) /\
    ruids (puts tr) = [0; 1; 2; 3]%nat /\ ruids (fwds tr) = [0; 2; 3; 1]%nat /\ ruids (drops tr) = [] /\
    ruids (hands 0 tr) = [0; 1; 2; 3]%nat /\ precv (fst (snd s)) = 1 /\ precv (fst (snd (snd s))) = 3 /\
    held rdx_E s = [] /\ Iface.urgent rdx_E s = false /\ deadline rdx_E s = None.
Proof. split; [vm_compute; reflexivity|]. split; [vm_compute; reflexivity|]. eexists. eexists. split; [vm_compute; reflexivity|]. vm_compute. repeat split. Qed.
