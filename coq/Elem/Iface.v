(* A common interface for network elements (C08, "any pipeline built from them").

   Every element model of layer E (Wire.v, Port.v, Bucket.v, SchedBase.v, WFQServer.v ...) is a timed automaton
   `X_act : cfg -> state -> action -> option (state * list out)` with a Put action, internal micro-step actions and an
   Advance action.  [elem] is that shape with the element-specific parts abstracted: a state type, a type of labels for
   the internal micro-steps, the three kinds of action, and what the C08 statements speak about (what is held, whether
   something is still due in the current instant, the pending deadline).  The adapters (Elem/Adapt*.v) instantiate it
   from the existing models and show that the adapter's executions are exactly the model's executions.

   Outputs: EForward p (out.put(p)), EDrop p (discarded by the element's documented rule), EHand k p (a hand-over
   INSIDE a composed element: stage k passed p to stage k+1; atomic elements never emit it).  Executable; the generic
   lemmas used by Compose.v are proved here. *)
From Coq Require Import ZArith QArith List Bool Permutation Lia.
From ONL Require Import Elem.Packet.
Import ListNotations.

Inductive eout := EForward (p : pkt) | EDrop (p : pkt) | EHand (k : nat) (p : pkt).

Inductive iact (L : Type) := IPut (p : pkt) | IStep (l : L) | IAdv (t : Q).
Arguments IPut {L} p.
Arguments IStep {L} l.
Arguments IAdv {L} t.

Record elem := mkElem {
  st : Type;                                         (* the element's state (carries its clock) *)
  lab : Type;                                        (* labels of its internal micro-steps (kernel steps that belong to it) *)
  init : st;
  now : st -> Q;
  put : pkt -> st -> option (st * list eout);        (* put(p) called by the upstream element; None = not admissible *)
  step : lab -> st -> option (st * list eout);       (* one internal micro-step; None = not enabled *)
  advance : Q -> st -> option st;                    (* the clock moves; None = something is still due / a deadline would be passed *)
  urgent : st -> bool;                               (* something of the element is still due in the current instant *)
  deadline : st -> option Q;                         (* the pending timeout, if any *)
  held : st -> list pkt;                             (* the packets inside the element *)
  accepts : pkt -> bool;                             (* the packets the element is specified for (drained clause only) *)
  width : nat                                        (* number of atomic stages (1 for an atomic element) *)
}.

Definition act (E : elem) (s : st E) (a : iact (lab E)) : option (st E * list eout) :=
  match a with
  | IPut p => put E p s
  | IStep l => step E l s
  | IAdv t => match advance E t s with Some s' => Some (s', []) | None => None end
  end.

(* an execution: every action must be admissible; the trace pairs each action with the instant at which it happened
   and with what it emitted *)
Definition tev (L : Type) := (Q * iact L * list eout)%type.

Fixpoint run (E : elem) (s : st E) (acts : list (iact (lab E))) : option (st E * list (tev (lab E))) :=
  match acts with
  | [] => Some (s, [])
  | a :: rest =>
      match act E s a with
      | None => None
      | Some (s', outs) =>
          match run E s' rest with
          | None => None
          | Some (s'', tr) => Some (s'', (now E s', a, outs) :: tr)
          end
      end
  end.

(* index of the first action that is not admissible (diagnosis), or None *)
Fixpoint stuck (E : elem) (s : st E) (acts : list (iact (lab E))) (i : nat) : option nat :=
  match acts with
  | [] => None
  | a :: rest => match act E s a with None => Some i | Some (s', _) => stuck E s' rest (S i) end
  end.

(* ---- what a trace says ----------------------------------------------------------------------------------- *)
Definition a_puts {L : Type} (a : iact L) : list pkt := match a with IPut p => [p] | _ => [] end.
Definition o_fwds (l : list eout) : list pkt := flat_map (fun o => match o with EForward p => [p] | _ => [] end) l.
Definition o_drops (l : list eout) : list pkt := flat_map (fun o => match o with EDrop p => [p] | _ => [] end) l.
Definition o_hands (k : nat) (l : list eout) : list pkt :=
  flat_map (fun o => match o with EHand j p => if Nat.eqb j k then [p] else [] | _ => [] end) l.

Definition puts {L : Type} (tr : list (tev L)) : list pkt := flat_map (fun e : tev L => a_puts (snd (fst e))) tr.
Definition fwds {L : Type} (tr : list (tev L)) : list pkt := flat_map (fun e : tev L => o_fwds (snd e)) tr.
Definition drops {L : Type} (tr : list (tev L)) : list pkt := flat_map (fun e : tev L => o_drops (snd e)) tr.
Definition hands {L : Type} (k : nat) (tr : list (tev L)) : list pkt := flat_map (fun e : tev L => o_hands k (snd e)) tr.
(* the timed versions: (instant, packet) *)
Definition tputs {L : Type} (tr : list (tev L)) : list (Q * pkt) :=
  flat_map (fun e : tev L => map (fun p => (fst (fst e), p)) (a_puts (snd (fst e)))) tr.
Definition tfwds {L : Type} (tr : list (tev L)) : list (Q * pkt) :=
  flat_map (fun e : tev L => map (fun p => (fst (fst e), p)) (o_fwds (snd e))) tr.

Definition on_flow (f : Z) (p : pkt) : bool := Z.eqb (flow p) f.

(* l1 is a subsequence of l2 (same relative order) *)
Inductive sublist {A : Type} : list A -> list A -> Prop :=
| sl_nil l : sublist [] l
| sl_take x l1 l2 : sublist l1 l2 -> sublist (x :: l1) (x :: l2)
| sl_skip x l1 l2 : sublist l1 l2 -> sublist l1 (x :: l2).

(* ---- the C08 laws in interface form ------------------------------------------------------------------------ *)
(* for every admissible execution: the packets put in are, as a multiset of packet RECORDS (uid and header fields: a
   forwarded packet IS a packet that was put in), the packets forwarded, those dropped by the rule and those held *)
Definition conserves (E : elem) : Prop := forall acts s tr,
  run E (init E) acts = Some (s, tr) -> Permutation (puts tr) (fwds tr ++ drops tr ++ held E s).
(* the forwarded packets of flow f leave in the order in which they entered *)
Definition flow_fifo (E : elem) (f : Z) : Prop := forall acts s tr,
  run E (init E) acts = Some (s, tr) -> sublist (filter (on_flow f) (fwds tr)) (filter (on_flow f) (puts tr)).
(* nothing due now and no deadline pending (the element's share of "the simulation ran out of events"): nothing held *)
Definition drained (E : elem) : Prop := forall acts s tr,
  run E (init E) acts = Some (s, tr) -> Forall (fun p => accepts E p = true) (puts tr) ->
  urgent E s = false -> deadline E s = None -> held E s = [].
(* the clock: only Advance moves it, to the instant it names; Advance is admissible only when nothing is due now and no
   pending deadline is passed *)
Definition timed (E : elem) : Prop :=
  (forall p s s' o, put E p s = Some (s', o) -> now E s' = now E s) /\
  (forall l s s' o, step E l s = Some (s', o) -> now E s' = now E s) /\
  (forall t s s', advance E t s = Some s' ->
     now E s' = t /\ now E s < t /\ urgent E s = false /\ (forall d, deadline E s = Some d -> t <= d)).

Record laws (E : elem) : Prop := {
  l_conserves : conserves E;
  l_fifo : forall f, flow_fifo E f;
  l_drained : drained E
}.

(* ---- generic lemmas ---------------------------------------------------------------------------------------- *)
Lemma sublist_refl {A} (l : list A) : sublist l l.
Proof. induction l; constructor; auto. Qed.

Lemma sublist_trans {A} (l1 l2 l3 : list A) : sublist l1 l2 -> sublist l2 l3 -> sublist l1 l3.
Proof.
  intros H12 H23. revert l1 H12. induction H23 as [l|x l2 l3 H IH|x l2 l3 H IH]; intros l1 H12.
  - inversion H12; subst. constructor.
  - inversion H12; subst.
    + constructor.
    + constructor. apply IH; assumption.
    + apply sl_skip. apply IH; assumption.
  - apply sl_skip. apply IH; assumption.
Qed.

Lemma sublist_app_r {A} (l r : list A) : sublist l (l ++ r).
Proof. induction l; cbn; constructor; auto. Qed.

Lemma sublist_filter {A} (f : A -> bool) (l1 l2 : list A) : sublist l1 l2 -> sublist (filter f l1) (filter f l2).
Proof.
  induction 1 as [l|x l1 l2 H IH|x l1 l2 H IH]; cbn.
  - constructor.
  - destruct (f x); [constructor|]; assumption.
  - destruct (f x); [apply sl_skip|]; assumption.
Qed.

Lemma sublist_In {A} (l1 l2 : list A) x : sublist l1 l2 -> In x l1 -> In x l2.
Proof. induction 1; cbn; intuition. Qed.

Lemma sublist_app {A} (a b c d : list A) : sublist a b -> sublist c d -> sublist (a ++ c) (b ++ d).
Proof.
  induction 1 as [l|x l1 l2 H IH|x l1 l2 H IH]; intros Hcd; cbn.
  - induction l; cbn; [assumption|apply sl_skip; assumption].
  - constructor; auto.
  - apply sl_skip; auto.
Qed.

Lemma run_app E : forall a1 a2 s,
  run E s (a1 ++ a2) =
  match run E s a1 with
  | Some (s1, t1) => match run E s1 a2 with Some (s2, t2) => Some (s2, t1 ++ t2) | None => None end
  | None => None
  end.
Proof.
  induction a1 as [|a a1 IH]; intros a2 s; cbn [app run].
  - destruct (run E s a2) as [[s2 t2]|]; reflexivity.
  - destruct (act E s a) as [[s' o]|]; [|reflexivity]. rewrite IH.
    destruct (run E s' a1) as [[s1 t1]|]; [|reflexivity].
    destruct (run E s1 a2) as [[s2 t2]|]; reflexivity.
Qed.

Lemma puts_app {L} (a b : list (tev L)) : puts (a ++ b) = puts a ++ puts b.
Proof. apply flat_map_app. Qed.
Lemma fwds_app {L} (a b : list (tev L)) : fwds (a ++ b) = fwds a ++ fwds b.
Proof. apply flat_map_app. Qed.
Lemma drops_app {L} (a b : list (tev L)) : drops (a ++ b) = drops a ++ drops b.
Proof. apply flat_map_app. Qed.
Lemma hands_app {L} k (a b : list (tev L)) : hands k (a ++ b) = hands k a ++ hands k b.
Proof. apply flat_map_app. Qed.
Lemma puts_cons {L} t (a : iact L) o (tr : list (tev L)) : puts ((t, a, o) :: tr) = a_puts a ++ puts tr.
Proof. reflexivity. Qed.
Lemma fwds_cons {L} t (a : iact L) o (tr : list (tev L)) : fwds ((t, a, o) :: tr) = o_fwds o ++ fwds tr.
Proof. reflexivity. Qed.
Lemma drops_cons {L} t (a : iact L) o (tr : list (tev L)) : drops ((t, a, o) :: tr) = o_drops o ++ drops tr.
Proof. reflexivity. Qed.
Lemma hands_cons {L} k t (a : iact L) o (tr : list (tev L)) : hands k ((t, a, o) :: tr) = o_hands k o ++ hands k tr.
Proof. reflexivity. Qed.
Lemma o_fwds_cons x l : o_fwds (x :: l) = match x with EForward p => [p] | _ => [] end ++ o_fwds l.
Proof. reflexivity. Qed.
Lemma o_drops_cons x l : o_drops (x :: l) = match x with EDrop p => [p] | _ => [] end ++ o_drops l.
Proof. reflexivity. Qed.
Lemma o_hands_cons k x l :
  o_hands k (x :: l) = match x with EHand j p => if Nat.eqb j k then [p] else [] | _ => [] end ++ o_hands k l.
Proof. reflexivity. Qed.
Lemma o_fwds_app a b : o_fwds (a ++ b) = o_fwds a ++ o_fwds b.
Proof. apply flat_map_app. Qed.
Lemma o_drops_app a b : o_drops (a ++ b) = o_drops a ++ o_drops b.
Proof. apply flat_map_app. Qed.
Lemma o_hands_app k a b : o_hands k (a ++ b) = o_hands k a ++ o_hands k b.
Proof. apply flat_map_app. Qed.

(* a forwarded packet is one of the packets put in (same record) *)
Lemma conserves_fwd_in E : conserves E -> forall acts s tr p,
  run E (init E) acts = Some (s, tr) -> In p (fwds tr) -> In p (puts tr).
Proof.
  intros C acts s tr p R H. apply (Permutation_in p (Permutation_sym (C _ _ _ R))).
  apply in_or_app. left. exact H.
Qed.

(* ---- comparison with an observed execution (correspondence) ------------------------------------------------ *)
Definition eout_eqb (a b : eout) : bool :=
  match a, b with
  | EForward p, EForward q => pkt_eqb p q
  | EDrop p, EDrop q => pkt_eqb p q
  | EHand j p, EHand k q => Nat.eqb j k && pkt_eqb p q
  | _, _ => false
  end.
Fixpoint eouts_eqb (a b : list eout) : bool :=
  match a, b with
  | [], [] => true
  | x :: s, y :: t => eout_eqb x y && eouts_eqb s t
  | _, _ => false
  end.
(* a drop is not an event seen from outside (it shows in counters only): hand-overs and deliveries are compared *)
Definition visible (l : list eout) : list eout :=
  filter (fun o => match o with EDrop _ => false | _ => true end) l.

(* observed: per global action, the hand-overs between the stages and the deliveries, in order *)
Fixpoint agree (E : elem) (s : st E) (obs : list (iact (lab E) * list eout)) : bool :=
  match obs with
  | [] => true
  | (a, outs) :: rest =>
      match act E s a with
      | None => false
      | Some (s', outs') => eouts_eqb (visible outs') outs && agree E s' rest
      end
  end.
Fixpoint first_diff (E : elem) (s : st E) (obs : list (iact (lab E) * list eout)) (i : nat) : option (nat * option (list eout)) :=
  match obs with
  | [] => None
  | (a, outs) :: rest =>
      match act E s a with
      | None => Some (i, None)
      | Some (s', outs') => if eouts_eqb (visible outs') outs then first_diff E s' rest (S i) else Some (i, Some outs')
      end
  end.
