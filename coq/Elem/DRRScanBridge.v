(* Bridging lemmas for the GENERATOR body DRR.run (second tie, generator bodies: vlib/translate_gen.py).
   Gen/Extracted_drr_run.v is regenerated from the tree under test on every run.  DRR.run is cut at its yields AND at the head
   of `while self.total_packets > 0:` -- a loop that can go around several times without yielding (a class whose parked head
   packet is not affordable gains one quantum per pass) --, and `for class_id in self.quantum:` is ONE separate definition that
   threads the state (quantum, deficit, class_count, the keys of head_of_line) and the effects through its iterations:
     gen_DRR_run_loop1    the rest of the class table, state, effects -> next program point (NxAgain PP1 at the end of the table)
     gen_DRR_run_from_1   at the loop head: ONE pass over the table if total_packets > 0, else the token get
     gen_DRR_run_from_2   resumed with a packet of the store of the class: affordable -> send_packet, else park it, on with the table
     gen_DRR_run_from_3   the child has ended: debit, reset of an emptied class, the same class again, else on with the table
     gen_DRR_run_from_0/4 entry / resumed with the token: to the loop head
   Here they are related to the hand-written automaton (Elem/DRR.v: dvisit_start, dinner, dtry_head, dscan, dpasses, ddebit):
   deficits are compared up to == (the model stores them reduced), so the statements are SIMULATIONS: from related states the
   generated code and the automaton take the same decision (again / get on class c / child for class c / token get, with the
   same rest of the table) and end in related states.  [drr_iter] runs the generated pass with fuel; it follows [dpasses]. *)
From Coq Require Import ZArith QArith Qreduction List Bool Lia Lqa.
From ONL Require Import Elem.Packet Elem.StoreQ Elem.DRR Gen.Extracted_drr_run.
Import ListNotations.

Definition is_some {A : Type} (o : option A) : bool := match o with Some _ => true | None => false end.

(* the code's fields against the automaton's state; parked k = size of the packet parked under class k *)
Record drr_rel (cfg : dcfg) (parked : Z -> Z) (d : drr) (st : drr_run_st) : Prop := {
  r_q : forall k, dr_quantum st k == dquantum cfg k;
  r_d : forall k, dr_deficit st k == ddef d k;
  r_c : forall k, dr_class_count st k = dccnt d k;
  r_h : forall k, dr_head_of_line st k = is_some (dhol d k);
  r_p : forall k p, dhol d k = Some p -> parked k = psize p }.

(* what run() does next, on both sides *)
Inductive outcome := OAgain | OGet (c : Z) (rest : list Z) | OChild (c : Z) (rest : list Z) | OTok | ONone.
Definition out_of_ctl (k : dctl) : outcome :=
  match k with DKGet c r => OGet c r | DKChild c r => OChild c r | DKTok => OTok | DKFresh => ONone end.
Definition out_of_next (n : drr_run_next) : outcome :=
  match n with
  | NxAgain PP1 => OAgain
  | NxYield (RqStoreGet k) (PP2 c r) => if Z.eqb k c then OGet c r else ONone
  | NxYield RqChild (PP3 c r) => OChild c r
  | NxYield RqTokGet PP4 => OTok
  | _ => ONone
  end.

Definition gres := (drr_run_st * list drr_run_fx * drr_run_next)%type.

(* the automaton's result of a construct against the generated one: nothing is claimed where the automaton has no step *)
Definition dres_rel (cfg : dcfg) (parked : Z -> Z) (r : dres) (g : gres) : Prop :=
  match r with
  | DErr => True
  | DYield d' _ => out_of_next (snd g) = out_of_ctl (dctrl d') /\ drr_rel cfg parked d' (fst (fst g))
  | DFall d' _ => out_of_next (snd g) = OAgain /\ drr_rel cfg parked d' (fst (fst g))
  end.

(* ---- small facts ------------------------------------------------------------------------------------------------ *)
Lemma Qle_bool_comp (a a' b b' : Q) : a == a' -> b == b' -> Qle_bool a b = Qle_bool a' b'.
Proof.
  intros Ea Eb. destruct (Qle_bool a b) eqn:E1, (Qle_bool a' b') eqn:E2; try reflexivity.
  - apply Qle_bool_iff in E1. rewrite Ea, Eb in E1. apply Qle_bool_iff in E1. congruence.
  - apply Qle_bool_iff in E2. rewrite <- Ea, <- Eb in E2. apply Qle_bool_iff in E2. congruence.
Qed.

Lemma dres_rel_map cfg parked (r : dres) (f g : list dout -> list dout) (x : gres) :
  dres_rel cfg parked r x ->
  dres_rel cfg parked (match r with DYield d e => DYield d (f e) | DFall d e => DFall d (g e) | DErr => DErr end) x.
Proof. destruct r; exact (fun H => H). Qed.

(* ---- the generated blocks, as the bridge reads them ------------------------------------------------------------------ *)
Definition st_with (st : drr_run_st) (df : Z -> Q) (cc : Z -> Z) (h : Z -> bool) : drr_run_st :=
  {| dr_quantum := dr_quantum st; dr_deficit := df; dr_class_count := cc; dr_head_of_line := h |}.

(* the visit of class c begins *)
Definition visit_gen (st : drr_run_st) (c : Z) : drr_run_st :=
  st_with st (if Z.ltb 0 (dr_class_count st c)
              then gen_upd (dr_deficit st) c (dr_deficit st c + dr_quantum st c) else dr_deficit st)
          (dr_class_count st) (dr_head_of_line st).

(* run() holds a packet of class c of size sz: send it or park it and go on with K *)
Definition try_gen (c : Z) (rest : list Z) (sz : Z) (st : drr_run_st) (h : Z -> bool) (fx : list drr_run_fx)
           (K : drr_run_st -> list drr_run_fx -> gres) : gres :=
  let fx1 := if Qle_bool (inject_Z sz) (dr_deficit st c) then fx ++ [FxSetCurrent] else fx in
  if Qle_bool (inject_Z sz) (dr_deficit st c)
  then (st_with st (dr_deficit st) (dr_class_count st) h, fx1, NxYield RqChild (PP3 c rest))
  else if negb (h c)
       then K (st_with st (dr_deficit st) (dr_class_count st) (gen_upd h c true)) (fx1 ++ [FxPark c])
       else (st_with st (dr_deficit st) (dr_class_count st) h, fx1, NxRaise ExAssert).

(* `while self.deficit[c] > 0 and self.class_count[c] > 0:` one iteration *)
Definition inner_gen (parked : Z -> Z) (c : Z) (rest : list Z) (st : drr_run_st) (fx : list drr_run_fx)
           (K : drr_run_st -> list drr_run_fx -> gres) : gres :=
  if negb (Qle_bool (dr_deficit st c) (0 # 1)) && Z.ltb 0 (dr_class_count st c)
  then if dr_head_of_line st c
       then try_gen c rest (parked c) st (gen_upd (dr_head_of_line st) c false) (fx ++ [FxTakeParked c; FxUnpark c]) K
       else (st_with st (dr_deficit st) (dr_class_count st) (dr_head_of_line st), fx, NxYield (RqStoreGet c) (PP2 c rest))
  else K (st_with st (dr_deficit st) (dr_class_count st) (dr_head_of_line st)) fx.

(* after the transmission of a packet of size sz of class c *)
Definition debit_gen (st : drr_run_st) (c sz : Z) : drr_run_st :=
  let cc := gen_upd (dr_class_count st) c (dr_class_count st c - 1)%Z in
  let d1 := gen_upd (dr_deficit st) c (dr_deficit st c - inject_Z sz) in
  st_with st (if Z.eqb (cc c) 0 then gen_upd d1 c (0 # 1) else d1) cc (dr_head_of_line st).

Section Shapes.
  Variables (tot size : Z) (classes : list Z) (parked : Z -> Z).
  Let loop := gen_DRR_run_loop1 tot size classes parked.

  (* the generated text IS these blocks (by computation) *)
  Lemma loop_nil st fx : loop [] st fx = (st_with st (dr_deficit st) (dr_class_count st) (dr_head_of_line st), fx, NxAgain PP1).
  Proof. reflexivity. Qed.

  Lemma loop_cons c rest st fx :
    fst (loop (c :: rest) st fx) = fst (inner_gen parked c rest (visit_gen st c) fx (fun st2 fx2 => loop rest st2 fx2)) /\
    snd (loop (c :: rest) st fx) = snd (inner_gen parked c rest (visit_gen st c) fx (fun st2 fx2 => loop rest st2 fx2)).
  Proof.
    unfold loop, inner_gen, try_gen, visit_gen, st_with. cbn -[Qle_bool Qplus].
    repeat match goal with |- context [if ?b then _ else _] => destruct b end; split; rewrite <- ?app_assoc; reflexivity.
  Qed.
End Shapes.

(* ---- simulation ------------------------------------------------------------------------------------------------------ *)
Lemma dres_rel_ext cfg parked (r : dres) (g g' : gres) :
  fst g = fst g' -> snd g = snd g' -> dres_rel cfg parked r g' -> dres_rel cfg parked r g.
Proof. intros E1 E2. unfold dres_rel. rewrite E1, E2. exact (fun H => H). Qed.

Section Sim.
  Variables (cfg : dcfg) (tot size : Z) (classes : list Z) (parked : Z -> Z).
  Let loop := gen_DRR_run_loop1 tot size classes parked.
  Let R := drr_rel cfg parked.

  Lemma rel_eta d st : R d st -> R d (st_with st (dr_deficit st) (dr_class_count st) (dr_head_of_line st)).
  Proof. intros [Hq Hd Hc Hh Hp]. constructor; cbn -[Qeq Qred Qplus Qminus Qle_bool]; assumption. Qed.

  Lemma rel_visit d st c : R d st -> R (fst (dvisit_start cfg c d)) (visit_gen st c).
  Proof.
    intros [Hq Hd Hc Hh Hp]. unfold dvisit_start, visit_gen. rewrite (Hc c).
    destruct (Z.ltb 0 (dccnt d c)); cbn [fst]; constructor; cbn -[Qeq Qred Qplus Qminus Qle_bool]; try assumption.
    intros k. unfold gen_upd, dupd. destruct (Z.eqb k c) eqn:E.
    - apply Z.eqb_eq in E. subst k. rewrite Qred_correct, (Hd c), (Hq c). reflexivity.
    - apply Hd.
  Qed.

  Lemma rel_debit d st c rest p : R d st -> R (ddebit d c rest p) (debit_gen st c (psize p)).
  Proof.
    intros [Hq Hd Hc Hh Hp]. unfold ddebit, debit_gen, ddebit_reset. constructor; cbn -[Qeq Qred Qplus Qminus Qle_bool]; try assumption.
    - intros k. unfold gen_upd at 1. rewrite Z.eqb_refl. rewrite (Hc c).
      destruct (Z.eqb (dccnt d c - 1) 0); unfold gen_upd, dupd; destruct (Z.eqb k c) eqn:E; try reflexivity; try apply Hd.
      apply Z.eqb_eq in E. subst k. rewrite Qred_correct, (Hd c). reflexivity.
    - intros k. unfold gen_upd, dupd. destruct (Z.eqb k c) eqn:E; [|apply Hc].
      apply Z.eqb_eq in E. subst k. rewrite (Hc c). reflexivity.
  Qed.

  (* run() holds packet p of class c *)
  Lemma sim_try : forall c rest p d st h fx (Kg : drr_run_st -> list drr_run_fx -> gres) (Km : drr -> dres),
    R d st -> (forall k, h k = is_some (dupd (dhol d) c None k)) -> parked c = psize p ->
    (forall d2 st2 fx2, R d2 st2 -> dres_rel cfg parked (Km d2) (Kg st2 fx2)) ->
    dres_rel cfg parked (match dtry_head c rest d p with DYield d' e => DYield d' e | DFall d2 e => Km d2 | DErr => DErr end)
             (try_gen c rest (psize p) st h fx Kg).
  Proof.
    intros c rest p d st h fx Kg Km HR Hh' Hpk HK. destruct HR as [Hq Hd Hc Hh Hp].
    unfold dtry_head, try_gen. rewrite (Qle_bool_comp _ (inject_Z (psize p)) _ (ddef d c) (Qeq_refl _) (Hd c)).
    destruct (Qle_bool (inject_Z (psize p)) (ddef d c)).
    - cbn. split; [reflexivity|]. constructor; cbn -[Qeq Qred Qplus Qminus Qle_bool]; try assumption.
      intros k q E. unfold dupd in E. destruct (Z.eqb k c); [discriminate|]. exact (Hp k q E).
    - assert (Hc0 : h c = false) by (rewrite Hh'; unfold dupd; rewrite Z.eqb_refl; reflexivity).
      rewrite Hc0. cbn [negb]. apply HK. unfold dset_hol. constructor; cbn -[Qeq Qred Qplus Qminus Qle_bool]; try assumption.
      + intros k. unfold gen_upd, dupd. destruct (Z.eqb k c) eqn:E; [reflexivity|].
        rewrite Hh'. unfold dupd. rewrite E. reflexivity.
      + intros k q E. unfold dupd in E. destruct (Z.eqb k c) eqn:Ek.
        * apply Z.eqb_eq in Ek. subst k. inversion E; subst q. exact Hpk.
        * exact (Hp k q E).
  Qed.

  (* one iteration of the inner while of the visit of class c *)
  Lemma sim_inner : forall c rest d st fx (Kg : drr_run_st -> list drr_run_fx -> gres) (Km : drr -> dres),
    R d st ->
    (forall d2 st2 fx2, R d2 st2 -> dres_rel cfg parked (Km d2) (Kg st2 fx2)) ->
    dres_rel cfg parked (match dinner c rest d with DYield d' e => DYield d' e | DFall d2 e => Km d2 | DErr => DErr end)
             (inner_gen parked c rest st fx Kg).
  Proof.
    intros c rest d st fx Kg Km HR HK. pose proof HR as [Hq Hd Hc Hh Hp].
    unfold dinner, inner_gen. rewrite (Qle_bool_comp _ (ddef d c) (0 # 1) 0 (Hd c) (Qeq_refl _)), (Hc c), (Hh c).
    destruct (negb (Qle_bool (ddef d c) 0) && Z.ltb 0 (dccnt d c)).
    - destruct (dhol d c) as [p|] eqn:Eh; cbn [is_some].
      + rewrite (Hp c p Eh). apply sim_try; try assumption; [|exact (Hp c p Eh)].
        intros k. unfold gen_upd, dupd. destruct (Z.eqb k c); [reflexivity|apply Hh].
      + destruct (sq_get fifo_pop (dst d c)); [|exact I].
        cbn. rewrite Z.eqb_refl. split; [reflexivity|]. constructor; cbn -[Qeq Qred Qplus Qminus Qle_bool]; assumption.
    - apply HK. apply rel_eta. exact HR.
  Qed.

  (* the rest of the for loop over the classes: the generated definition against [dscan] *)
  Lemma sim_loop : forall l d st fx, R d st -> dres_rel cfg parked (dscan cfg l d) (loop l st fx).
  Proof.
    induction l as [|c rest IH]; intros d st fx HR.
    - cbn. split; [reflexivity|]. apply rel_eta. exact HR.
    - destruct (loop_cons tot size classes parked c rest st fx) as [E1 E2].
      apply (dres_rel_ext _ _ _ _ _ E1 E2).
      pose proof (sim_inner c rest (fst (dvisit_start cfg c d)) (visit_gen st c) fx
                            (fun st2 fx2 => loop rest st2 fx2) (fun d2 => dscan cfg rest d2)
                            (rel_visit d st c HR) (fun d2 st2 fx2 H2 => IH d2 st2 fx2 H2)) as S.
      cbn [dscan]. destruct (dvisit_start cfg c d) as [d1 e1]. cbn [fst] in S.
      destruct (dinner c rest d1) as [d2 e2|d2 e2|]; [exact S| |exact I].
      destruct (dscan cfg rest d2); exact S.
  Qed.

  (* ---- the program points ------------------------------------------------------------------------------------------ *)
  (* the loop head: ONE pass of `while self.total_packets > 0`, or the token get *)
  Lemma sim_pass : forall d st, R d st -> tot = dtotal d -> classes = dclasses cfg ->
    let g := gen_DRR_run_from_1 st tot size classes parked in
    if Z.ltb 0 (dtotal d) then dres_rel cfg parked (dscan cfg (dclasses cfg) d) g
    else (dtotal d = 0%Z -> out_of_next (snd g) = OTok /\ R d (fst (fst g))).
  Proof.
    intros d st HR Et Ec g. subst g. unfold gen_DRR_run_from_1. rewrite Et.
    destruct (Z.ltb 0 (dtotal d)).
    - rewrite <- Et, Ec. apply (sim_loop (dclasses cfg) d _ [] (rel_eta d st HR)).
    - intros E0. rewrite E0. cbn. split; [reflexivity|]. apply rel_eta. exact HR.
  Qed.

  (* resumed with packet p taken from the store of class c (nothing is parked under c then) *)
  Lemma sim_get : forall d st c rest p, R d st -> dhol d c = None -> parked c = psize p -> size = psize p ->
    dres_rel cfg parked (match dtry_head c rest d p with DYield d' e => DYield d' e | DFall d2 e => dscan cfg rest d2 | DErr => DErr end)
             (gen_DRR_run_from_2 st c rest tot size classes parked).
  Proof.
    intros d st c rest p HR Hn Hpk Hs.
    assert (S : dres_rel cfg parked
                  (match dtry_head c rest d p with DYield d' e => DYield d' e | DFall d2 e => dscan cfg rest d2 | DErr => DErr end)
                  (try_gen c rest (psize p) st (dr_head_of_line st) [] (fun st2 fx2 => loop rest st2 fx2))).
    { apply sim_try; try assumption.
      - intros k. destruct HR as [Hq Hd Hc Hh Hp]. rewrite Hh. unfold dupd. destruct (Z.eqb k c) eqn:E; [|reflexivity].
        apply Z.eqb_eq in E. subst k. rewrite Hn. reflexivity.
      - intros d2 st2 fx2 H2. apply sim_loop. exact H2. }
    refine (dres_rel_ext _ _ _ _ _ _ _ S); subst size; unfold gen_DRR_run_from_2, try_gen, st_with, loop;
      cbn -[Qle_bool]; repeat match goal with |- context [if ?b then _ else _] => destruct b end; reflexivity.
  Qed.

  (* the child has ended: debit, then the same class again, else on with the table *)
  Lemma sim_child_end : forall d st c rest p, R d st -> size = psize p ->
    dres_rel cfg parked (match dinner c rest (ddebit d c rest p) with
                         | DYield d' e => DYield d' e | DFall d2 e => dscan cfg rest d2 | DErr => DErr end)
             (gen_DRR_run_from_3 st c rest tot size classes parked).
  Proof.
    intros d st c rest p HR Hs.
    pose proof (sim_inner c rest (ddebit d c rest p) (debit_gen st c (psize p)) []
                          (fun st2 fx2 => loop rest st2 fx2) (fun d2 => dscan cfg rest d2)
                          (rel_debit d st c rest p HR) (fun d2 st2 fx2 H2 => sim_loop rest d2 st2 fx2 H2)) as S.
    refine (dres_rel_ext _ _ _ _ _ _ _ S); subst size; unfold gen_DRR_run_from_3, inner_gen, try_gen, debit_gen, st_with, loop;
      cbn -[Qle_bool Qminus]; repeat match goal with |- context [if ?b then _ else _] => destruct b end; reflexivity.
  Qed.
End Sim.

(* ---- several passes: the generated pass iterated with fuel follows [dpasses] ---------------------------------------- *)
Definition is_again (n : drr_run_next) : bool := match n with NxAgain PP1 => true | _ => false end.

Lemma is_again_out (n : drr_run_next) : is_again n = true <-> out_of_next n = OAgain.
Proof.
  destruct n as [r k|  |e|k]; cbn; try (split; discriminate).
  - destruct r as [c| |], k as [|c' r'|c' r'|]; cbn; try (split; discriminate).
    destruct (Z.eqb c c'); split; discriminate.
  - destruct k; cbn; split; try discriminate; reflexivity.
Qed.

Lemma out_of_ctl_not_again (k : dctl) : out_of_ctl k <> OAgain.
Proof. destruct k; discriminate. Qed.

(* run the loop head again and again while it answers NxAgain *)
Fixpoint drr_iter (fuel : nat) (tot size : Z) (classes : list Z) (parked : Z -> Z) (st : drr_run_st)
  : option (drr_run_st * drr_run_next) :=
  match fuel with
  | O => None
  | S n =>
      let g := gen_DRR_run_from_1 st tot size classes parked in
      if is_again (snd g) then drr_iter n tot size classes parked (fst (fst g)) else Some (fst (fst g), snd g)
  end.

(* a program point's result, followed by the passes it may lead to *)
Definition drr_then (fuel : nat) (tot size : Z) (classes : list Z) (parked : Z -> Z) (g : gres)
  : option (drr_run_st * drr_run_next) :=
  if is_again (snd g) then drr_iter fuel tot size classes parked (fst (fst g)) else Some (fst (fst g), snd g).

Lemma dtry_head_total c rest d p : match dtry_head c rest d p with DYield d' _ | DFall d' _ => dtotal d' = dtotal d | DErr => True end.
Proof. unfold dtry_head. destruct (Qle_bool _ _); reflexivity. Qed.

Lemma dinner_total c rest d : match dinner c rest d with DYield d' _ | DFall d' _ => dtotal d' = dtotal d | DErr => True end.
Proof.
  unfold dinner. destruct (_ && _); [|reflexivity]. destruct (dhol d c); [apply dtry_head_total|].
  destruct (sq_get fifo_pop (dst d c)); [reflexivity|exact I].
Qed.

Lemma dscan_total cfg : forall l d, match dscan cfg l d with DYield d' _ | DFall d' _ => dtotal d' = dtotal d | DErr => True end.
Proof.
  induction l as [|c rest IH]; intros d; [reflexivity|]. cbn [dscan].
  assert (V : dtotal (fst (dvisit_start cfg c d)) = dtotal d) by (unfold dvisit_start; destruct (Z.ltb 0 (dccnt d c)); reflexivity).
  destruct (dvisit_start cfg c d) as [d1 e1]. cbn [fst] in V.
  pose proof (dinner_total c rest d1) as I1. destruct (dinner c rest d1) as [d2 e2|d2 e2|]; [congruence| |exact I].
  pose proof (IH d2) as I2. destruct (dscan cfg rest d2); try exact I; congruence.
Qed.

Section Passes.
  Variables (cfg : dcfg) (size : Z) (parked : Z -> Z).
  Let R := drr_rel cfg parked.

  Lemma rel_tok d st q : R d st -> R (dset_ctl (dset_tok d q) DKTok) st.
  Proof. intros [Hq Hd Hc Hh Hp]. constructor; assumption. Qed.

  Theorem sim_passes : forall fuel d st d' e,
    R d st -> (0 <= dtotal d)%Z -> dpasses fuel cfg d = Some (d', e) ->
    exists st' nx, drr_iter (S fuel) (dtotal d) size (dclasses cfg) parked st = Some (st', nx) /\
                   out_of_next nx = out_of_ctl (dctrl d') /\ R d' st'.
  Proof.
    induction fuel as [|n IH]; intros d st d' e HR H0 HP.
    - cbn [dpasses] in HP. pose proof (sim_pass cfg (dtotal d) size (dclasses cfg) parked d st HR eq_refl eq_refl) as SP.
      destruct (Z.ltb 0 (dtotal d)) eqn:Et; [discriminate|].
      assert (E0 : dtotal d = 0%Z) by (apply Z.ltb_ge in Et; lia).
      destruct (SP E0) as [So Sr]. destruct (sq_get fifo_pop (dtok d)) as [q|]; [|discriminate].
      inversion HP; subst d' e. cbn [drr_iter].
      destruct (is_again _) eqn:Ea; [apply is_again_out in Ea; rewrite Ea in So; discriminate|].
      eexists; eexists. split; [reflexivity|]. split; [exact So|]. apply rel_tok. exact Sr.
    - cbn [dpasses] in HP. pose proof (sim_pass cfg (dtotal d) size (dclasses cfg) parked d st HR eq_refl eq_refl) as SP.
      destruct (Z.ltb 0 (dtotal d)) eqn:Et.
      + pose proof (dscan_total cfg (dclasses cfg) d) as T.
        destruct (dscan cfg (dclasses cfg) d) as [d1 e1|d1 e1|]; [| |discriminate].
        * inversion HP; subst d' e. destruct SP as [So Sr]. cbn [drr_iter].
          destruct (is_again _) eqn:Ea;
            [apply is_again_out in Ea; rewrite Ea in So; exfalso; exact (out_of_ctl_not_again _ (eq_sym So))|].
          eexists; eexists. split; [reflexivity|]. split; assumption.
        * destruct (dpasses n cfg d1) as [[d2 e2]|] eqn:HP1; [|discriminate]. inversion HP; subst d' e.
          destruct SP as [So Sr]. apply is_again_out in So.
          assert (H1 : (0 <= dtotal d1)%Z) by lia.
          destruct (IH d1 _ d2 e2 Sr H1 HP1) as (st' & nx & I1 & I2 & I3).
          exists st', nx. split; [|split; assumption].
          change (drr_iter (S (S n)) (dtotal d) size (dclasses cfg) parked st)
            with (let g := gen_DRR_run_from_1 st (dtotal d) size (dclasses cfg) parked in
                  if is_again (snd g) then drr_iter (S n) (dtotal d) size (dclasses cfg) parked (fst (fst g))
                  else Some (fst (fst g), snd g)).
          cbv zeta. rewrite So. rewrite T in I1. exact I1.
      + assert (E0 : dtotal d = 0%Z) by (apply Z.ltb_ge in Et; lia).
        destruct (SP E0) as [So Sr]. destruct (sq_get fifo_pop (dtok d)) as [q|]; [|discriminate].
        inversion HP; subst d' e.
        change (drr_iter (S (S n)) (dtotal d) size (dclasses cfg) parked st)
          with (let g := gen_DRR_run_from_1 st (dtotal d) size (dclasses cfg) parked in
                if is_again (snd g) then drr_iter (S n) (dtotal d) size (dclasses cfg) parked (fst (fst g))
                else Some (fst (fst g), snd g)).
        cbv zeta. destruct (is_again _) eqn:Ea; [apply is_again_out in Ea; rewrite Ea in So; discriminate|].
        eexists; eexists. split; [reflexivity|]. split; [exact So|]. apply rel_tok. exact Sr.
  Qed.

  (* what follows a resumption inside the for loop: the rest of the pass (r), then the passes it may lead to *)
  Definition dafter (r : dres) : option (drr * list dout) :=
    match r with
    | DYield d e0 => Some (d, e0)
    | DFall d e0 => match dpasses (dfuel d) cfg d with Some (d2, e2) => Some (d2, e0 ++ e2) | None => None end
    | DErr => None
    end.
  Definition restpass (rest : list Z) (r0 : dres) : dres :=
    match r0 with DYield d e => DYield d e | DFall d e => dscan cfg rest d | DErr => DErr end.

  Lemma cont_after rest r0 : option_map fst (dcontinue cfg rest r0) = option_map fst (dafter (restpass rest r0)).
  Proof.
    unfold dcontinue, dafter, restpass. destruct r0 as [d e|d e|]; try reflexivity.
    destruct (dscan cfg rest d) as [d1 e1|d1 e1|]; try reflexivity.
    destruct (dpasses (dfuel d1) cfg d1) as [[d2 e2]|]; reflexivity.
  Qed.

  Theorem sim_after : forall (r : dres) (g : gres) d',
    dres_rel cfg parked r g ->
    match r with DYield d _ | DFall d _ => (0 <= dtotal d)%Z | DErr => True end ->
    option_map fst (dafter r) = Some d' ->
    exists fuel tot st' nx, drr_then fuel tot size (dclasses cfg) parked g = Some (st', nx) /\
                            out_of_next nx = out_of_ctl (dctrl d') /\ R d' st'.
  Proof.
    intros r g d' HR H0 HS. destruct r as [d0 e0|d0 e0|]; [| |discriminate].
    - cbn in HS. inversion HS; subst d'. destruct HR as [So Sr]. exists O, 0%Z. unfold drr_then.
      destruct (is_again _) eqn:Ea;
        [apply is_again_out in Ea; rewrite Ea in So; exfalso; exact (out_of_ctl_not_again _ (eq_sym So))|].
      eexists; eexists. split; [reflexivity|]. split; assumption.
    - cbn [dafter] in HS. destruct (dpasses (dfuel d0) cfg d0) as [[d2 e2]|] eqn:HP; [|discriminate].
      cbn in HS. inversion HS; subst d'.
      destruct HR as [So Sr]. apply is_again_out in So.
      destruct (sim_passes _ _ _ _ _ Sr H0 HP) as (st' & nx & I1 & I2 & I3).
      exists (S (dfuel d0)), (dtotal d0), st', nx. unfold drr_then. rewrite So. split; [exact I1|]. split; assumption.
  Qed.
End Passes.

(* ---- the automaton's steps: from the state the automaton is in, read as the code's fields ---------------------------- *)
Definition st_of (cfg : dcfg) (d : drr) : drr_run_st :=
  {| dr_quantum := dquantum cfg; dr_deficit := ddef d; dr_class_count := dccnt d;
     dr_head_of_line := fun k => is_some (dhol d k) |}.
(* the size of the packet parked under class k; dflt k where none is parked (the size of a packet about to be parked) *)
Definition parked_of (d : drr) (dflt : Z -> Z) (k : Z) : Z := match dhol d k with Some p => psize p | None => dflt k end.

Lemma rel_of cfg d dflt : drr_rel cfg (parked_of d dflt) d (st_of cfg d).
Proof. constructor; cbn; intros; try reflexivity. unfold parked_of. rewrite H. reflexivity. Qed.

(* Initialize of run() / resumed with the token: to the loop head, then passes *)
Lemma bridge_drr_run_init : forall cfg d size dflt d' e,
  dctrl d = DKFresh -> (0 <= dtotal d)%Z -> drr_act cfg d DInit = Some (d', e) ->
  exists st' nx, drr_then (S (dfuel d)) (dtotal d) size (dclasses cfg) (parked_of d dflt)
                          (gen_DRR_run_from_0 (st_of cfg d) (dtotal d) size (dclasses cfg) (parked_of d dflt)) = Some (st', nx) /\
                 out_of_next nx = out_of_ctl (dctrl d') /\ drr_rel cfg (parked_of d dflt) d' st'.
Proof.
  intros cfg d size dflt d' e Hk H0 HA. cbn [drr_act] in HA. rewrite Hk in HA.
  exact (sim_passes cfg size (parked_of d dflt) (dfuel d) d (st_of cfg d) d' e (rel_of cfg d dflt) H0 HA).
Qed.

Lemma bridge_drr_run_token : forall cfg d size dflt u q d' e,
  dctrl d = DKTok -> sq_take (dtok d) = Some (u, q) -> (0 <= dtotal d)%Z ->
  drr_act cfg d (DGetDone None) = Some (d', e) ->
  let d1 := dset_tok d q in
  exists st' nx, drr_then (S (dfuel d1)) (dtotal d1) size (dclasses cfg) (parked_of d1 dflt)
                          (gen_DRR_run_from_4 (st_of cfg d1) (dtotal d1) size (dclasses cfg) (parked_of d1 dflt)) = Some (st', nx) /\
                 out_of_next nx = out_of_ctl (dctrl d') /\ drr_rel cfg (parked_of d1 dflt) d' st'.
Proof.
  intros cfg d size dflt u q d' e Hk Ht H0 HA d1. cbn [drr_act] in HA. rewrite Hk, Ht in HA.
  exact (sim_passes cfg size (parked_of d1 dflt) (dfuel d1) d1 (st_of cfg d1) d' e (rel_of cfg d1 dflt) H0 HA).
Qed.

(* resumed with packet p from the store of class c *)
Lemma bridge_drr_run_get : forall cfg d c rest a p q d' e,
  dctrl d = DKGet c rest -> sq_take (dst d c) = Some ((a, p), q) -> dhol d c = None -> (0 <= dtotal d)%Z ->
  drr_act cfg d (DGetDone (Some c)) = Some (d', e) ->
  let d1 := dset_st d c q in
  let parked := parked_of d1 (fun _ => psize p) in
  exists fuel tot st' nx,
    drr_then fuel tot (psize p) (dclasses cfg) parked
             (gen_DRR_run_from_2 (st_of cfg d1) c rest (dtotal d) (psize p) (dclasses cfg) parked) = Some (st', nx) /\
    out_of_next nx = out_of_ctl (dctrl d') /\ drr_rel cfg parked d' st'.
Proof.
  intros cfg d c rest a p q d' e Hk Ht Hn H0 HA d1 parked. cbn [drr_act] in HA. rewrite Hk, Z.eqb_refl, Ht in HA.
  assert (HS : option_map fst (dafter cfg (restpass cfg rest (dtry_head c rest d1 p))) = Some d')
    by (rewrite <- cont_after; fold d1 in HA; rewrite HA; reflexivity).
  assert (Hp : parked c = psize p) by (unfold parked, parked_of; cbn; rewrite Hn; reflexivity).
  refine (sim_after cfg (psize p) parked _ _ d' (sim_get cfg (dtotal d) (psize p) (dclasses cfg) parked d1 _ c rest p
                                                        (rel_of cfg d1 _) Hn Hp eq_refl) _ HS).
  pose proof (dtry_head_total c rest d1 p) as T1. unfold restpass. destruct (dtry_head c rest d1 p) as [x ex|x ex|]; cbn in *.
  - lia.
  - pose proof (dscan_total cfg rest x) as T2. destruct (dscan cfg rest x); try exact I; lia.
  - exact I.
Qed.

(* the child process has ended *)
Lemma bridge_drr_run_child_end : forall cfg d c rest p d' e,
  dchd d = DCDone p -> dctrl d = DKChild c rest -> (0 <= dtotal d)%Z ->
  drr_act cfg d DChildEnd = Some (d', e) ->
  let parked := parked_of d (fun _ => 0%Z) in
  exists fuel tot st' nx,
    drr_then fuel tot (psize p) (dclasses cfg) parked
             (gen_DRR_run_from_3 (st_of cfg d) c rest (dtotal d) (psize p) (dclasses cfg) parked) = Some (st', nx) /\
    out_of_next nx = out_of_ctl (dctrl d') /\ drr_rel cfg parked d' st'.
Proof.
  intros cfg d c rest p d' e Hc Hk H0 HA parked. cbn [drr_act] in HA. rewrite Hc, Hk in HA.
  assert (HS : option_map fst (dafter cfg (restpass cfg rest (dinner c rest (ddebit d c rest p)))) = Some d').
  { rewrite <- cont_after. destruct (dcontinue cfg rest (dinner c rest (ddebit d c rest p))) as [[d2 e2]|]; [|discriminate].
    inversion HA; subst. reflexivity. }
  refine (sim_after cfg (psize p) parked _ _ d' (sim_child_end cfg (dtotal d) (psize p) (dclasses cfg) parked d _ c rest p
                                                              (rel_of cfg d _) eq_refl) _ HS).
  pose proof (dinner_total c rest (ddebit d c rest p)) as T1. unfold restpass.
  destruct (dinner c rest (ddebit d c rest p)) as [x ex|x ex|]; cbn in *.
  - lia.
  - pose proof (dscan_total cfg rest x) as T2. destruct (dscan cfg rest x); try exact I; lia.
  - exact I.
Qed.
