(* Concrete admissible executions of the multi-queue schedulers SP, RR and WRR (Elem/SchedBase.v), used by the
   non-vacuity witnesses Props/C12_Examples.v, Props/C13_Examples.v and Props/C15_Examples.v.  Definitions only (plus
   the generic accessors [mq_state] / [mq_trace]); every packet is 128 bytes at 1024 bit/s, i.e. 1 s per transmission.

   SP  ([spx_acts]): flow2class {0 -> 10, 1 -> 10, 2 -> 11}, priorities {10: 1, 11: 2} (class 11 is the urgent one).
       a0 (flow 0) and a1 (flow 1) arrive at 0; a0 is transmitted 0..1; b0 (flow 2) arrives at 1/2 DURING that
       transmission (not preempted) and overtakes a1 at 1; b1 (flow 2) arrives at 2, exactly when b0 ends, before run()
       resumes: served 2..3; at 3 run() finds class 11 empty and commits to a1; b2 (flow 2) arrives at 3 AFTER that commit
       and before the transmission timer of a1 starts: it is not allowed to displace a1 (3..4) and leaves 4..5.
       Departure order a0 b0 b1 a1 b2.
   RR  ([rrx_acts]): flows [0; 1; 2].  x0, x1 (flow 0), y0 (flow 2) at 0; z0 (flow 1) at 1/2 (class 1 becomes backlogged
       mid-round).  Order x0 z0 y0 x1; the last pass finds classes 1 and 2 empty.
   WRR ([wrx_acts]): weights {0: 3, 1: 1, 2: 1}, same arrivals.  Class 0 may send 3 per visit but holds only 2: the visit
       ends early.  Order x0 x1 z0 y0. *)
From Coq Require Import ZArith QArith List Bool.
From ONL Require Import Elem.Packet Elem.StoreQ Elem.SchedBase Elem.SP Elem.RR Elem.WRR.
Import ListNotations.

Definition mq_state (c : mq_cfg) (acts : list saction) : mq :=
  match mq_run c (mq0 c) acts with Some (s, _) => s | None => mq0 c end.
Definition mq_trace (c : mq_cfg) (acts : list saction) : list tev :=
  match mq_run c (mq0 c) acts with Some (_, tr) => tr | None => [] end.

(* ---------------------------------------------------------------- SP *)
Definition spx_r : Q := 1024.
Definition spx_cm : Z -> Z := cls_of [(0, 10); (1, 10); (2, 11)]%Z.
Definition spx_fl : list Z := [0; 1; 2]%Z.
Definition spx_tbl : list (Z * Z) := [(10, 1); (11, 2)]%Z.
Definition spx_cfg : mq_cfg := sp_cfg true spx_r spx_cm spx_fl spx_tbl.
Definition spx_a0 : pkt := mkp 0 1 0 128 0.
Definition spx_a1 : pkt := mkp 1 2 1 128 0.
Definition spx_b0 : pkt := mkp 2 3 2 128 (1 # 2).
Definition spx_b1 : pkt := mkp 3 4 2 128 2.
Definition spx_b2 : pkt := mkp 4 5 2 128 3.
Definition spx_acts : list saction :=
  [SInit; SPut spx_a0; SPut spx_a1; SStoreCb None; SStoreCb (Some 10%Z); SStoreCb (Some 10%Z);
   SGetDone None; SGetDone (Some 10%Z); SChildInit;                                        (*  0 ..  8 *)
   SAdvance (1 # 2); SPut spx_b0; SStoreCb (Some 11%Z); SAdvance 1;                        (*  9 .. 12 *)
   SChildTimer;                                                                            (* 13 *)
   SChildEnd; SGetDone (Some 11%Z); SChildInit;                                            (* 14 .. 16 *)
   SAdvance 2; SChildTimer; SPut spx_b1; SChildEnd; SStoreCb (Some 11%Z);
   SGetDone (Some 11%Z); SChildInit; SAdvance 3; SChildTimer;                              (* 17 .. 25 *)
   SChildEnd;                                                                              (* 26 *)
   SPut spx_b2; SGetDone (Some 10%Z);                                                      (* 27 .. 28 *)
   SChildInit;                                                                             (* 29 *)
   SStoreCb (Some 11%Z);                                                                   (* 30 *)
   SAdvance 4; SChildTimer; SChildEnd; SGetDone (Some 11%Z); SChildInit; SAdvance 5;
   SChildTimer; SChildEnd].                                                                (* 31 .. 38 *)
Definition spx_state (n : nat) : mq := mq_state spx_cfg (firstn n spx_acts).
Definition spx_trace (n : nat) : list tev := mq_trace spx_cfg (firstn n spx_acts).

(* ---------------------------------------------------------------- RR / WRR *)
Definition rrx_r : Q := 1024.
Definition rrx_fl : list Z := [0; 1; 2]%Z.
Definition rrx_cfg : mq_cfg := rr_cfg rrx_r rrx_fl.
Definition rrx_x0 : pkt := mkp 0 1 0 128 0.
Definition rrx_x1 : pkt := mkp 1 2 0 128 0.
Definition rrx_y0 : pkt := mkp 2 3 2 128 0.
Definition rrx_z0 : pkt := mkp 3 4 1 128 (1 # 2).
Definition rrx_head : list saction :=
  [SInit; SPut rrx_x0; SPut rrx_x1; SPut rrx_y0; SStoreCb None; SStoreCb (Some 0%Z); SStoreCb (Some 0%Z);
   SStoreCb (Some 2%Z); SGetDone None; SGetDone (Some 0%Z); SChildInit;                    (*  0 .. 10 *)
   SAdvance (1 # 2); SPut rrx_z0; SStoreCb (Some 1%Z); SAdvance 1;                         (* 11 .. 14 *)
   SChildTimer].                                                                           (* 15 *)
Definition rrx_acts : list saction :=
  rrx_head ++
  [SChildEnd; SGetDone (Some 1%Z); SChildInit;                                             (* 16 .. 18 *)
   SAdvance 2; SChildTimer; SChildEnd; SGetDone (Some 2%Z); SChildInit;                    (* 19 .. 23 *)
   SAdvance 3; SChildTimer; SChildEnd; SGetDone (Some 0%Z); SChildInit; SAdvance 4; SChildTimer;   (* 24 .. 30 *)
   SChildEnd].                                                                             (* 31 *)
Definition rrx_state (n : nat) : mq := mq_state rrx_cfg (firstn n rrx_acts).
Definition rrx_trace (n : nat) : list tev := mq_trace rrx_cfg (firstn n rrx_acts).

Definition wrx_r : Q := 1024.
Definition wrx_ws : list (Z * Z) := [(0, 3); (1, 1); (2, 1)]%Z.
Definition wrx_cfg : mq_cfg := wrr_cfg wrx_r wrx_ws.
Definition wrx_acts : list saction :=
  rrx_head ++
  [SChildEnd; SGetDone (Some 0%Z); SChildInit;                                             (* 16 .. 18 *)
   SAdvance 2; SChildTimer; SChildEnd; SGetDone (Some 1%Z); SChildInit;                    (* 19 .. 23 *)
   SAdvance 3; SChildTimer; SChildEnd; SGetDone (Some 2%Z); SChildInit; SAdvance 4; SChildTimer;   (* 24 .. 30 *)
   SChildEnd].                                                                             (* 31 *)
Definition wrx_state (n : nat) : mq := mq_state wrx_cfg (firstn n wrx_acts).
Definition wrx_trace (n : nat) : list tev := mq_trace wrx_cfg (firstn n wrx_acts).
