(* Model of onl/netdev/wire.py : Cable = two Wire automata (one per direction) with disjoint state that
   share only the clock, the loss rate and the sources of random draws.  set_endpoints(dev1, dev2) is
   modelled as data: the `out` pointer of each of the four nodes.  Executable; proofs in CableProofs.v.

   Actions:  CA d a      an action a (anything but WAdvance) of the wire of direction d
             CAdvance t  the clock moves to t: both wires must admit it *)
From Coq Require Import ZArith QArith List Bool.
From ONL Require Import Elem.Packet Elem.StoreQ Elem.Wire.
Import ListNotations.

Inductive dir := D1 | D2.
Inductive node := Dev1 | Dev2 | NW1 | NW2.

Definition dir_eqb (a b : dir) : bool := match a, b with D1, D1 | D2, D2 => true | _, _ => false end.
Definition node_eqb (a b : node) : bool :=
  match a, b with Dev1, Dev1 | Dev2, Dev2 | NW1, NW1 | NW2, NW2 => true | _, _ => false end.
Definition other (d : dir) : dir := match d with D1 => D2 | D2 => D1 end.

(* Cable.set_endpoints: dev1.out = wire1; wire1.out = dev2; dev2.out = wire2; wire2.out = dev1 *)
Definition cable_out (n : node) : node :=
  match n with Dev1 => NW1 | NW1 => Dev2 | Dev2 => NW2 | NW2 => Dev1 end.
Definition wire_node (d : dir) : node := match d with D1 => NW1 | D2 => NW2 end.
Definition dir_source (d : dir) : node := match d with D1 => Dev1 | D2 => Dev2 end.   (* the device feeding direction d *)
Definition dir_dest (d : dir) : node := cable_out (wire_node d).                       (* where direction d delivers *)

Record cable := { cw1 : wire; cw2 : wire }.
Definition cable0 (t0 : Q) : cable := {| cw1 := wire0 t0; cw2 := wire0 t0 |}.

Definition cget (c : cable) (d : dir) : wire := match d with D1 => cw1 c | D2 => cw2 c end.
Definition cset (c : cable) (d : dir) (w : wire) : cable :=
  match d with D1 => {| cw1 := w; cw2 := cw2 c |} | D2 => {| cw1 := cw1 c; cw2 := w |} end.

Inductive caction := CA (d : dir) (a : waction) | CAdvance (t : Q).
Definition cout := (node * wout)%type.      (* (device the packet is handed to, what happened) *)

Definition cable_act (loss : option Q) (c : cable) (a : caction) : option (cable * list cout) :=
  match a with
  | CA _ (WAdvance _) => None
  | CA d a =>
      match wire_act loss (cget c d) a with
      | Some (w', outs) => Some (cset c d w', map (fun o => (dir_dest d, o)) outs)
      | None => None
      end
  | CAdvance t =>
      match wire_act loss (cw1 c) (WAdvance t), wire_act loss (cw2 c) (WAdvance t) with
      | Some (w1, _), Some (w2, _) => Some ({| cw1 := w1; cw2 := w2 |}, [])
      | _, _ => None
      end
  end.

Definition ctev := (Q * caction * list cout)%type.

Definition cnow_after (c' : cable) (a : caction) : Q :=
  match a with CA d _ => wnow (cget c' d) | CAdvance _ => wnow (cw1 c') end.

Fixpoint cable_run (loss : option Q) (c : cable) (acts : list caction) : option (cable * list ctev) :=
  match acts with
  | [] => Some (c, [])
  | a :: rest =>
      match cable_act loss c a with
      | None => None
      | Some (c', outs) =>
          match cable_run loss c' rest with
          | None => None
          | Some (c'', tr) => Some (c'', (cnow_after c' a, a, outs) :: tr)
          end
      end
  end.

(* what one direction sees of a cable execution *)
Definition proj_act (d : dir) (a : caction) : list waction :=
  match a with
  | CA d' a => if dir_eqb d d' then [a] else []
  | CAdvance t => [WAdvance t]
  end.
Definition proj_acts (d : dir) (acts : list caction) : list waction := flat_map (proj_act d) acts.
Definition proj_tev (d : dir) (e : ctev) : list tev :=
  match e with
  | (t, CA d' a, outs) => if dir_eqb d d' then [(t, a, map snd outs)] else []
  | (t, CAdvance t', _) => [(t, WAdvance t', [])]
  end.
Definition proj_tr (d : dir) (tr : list ctev) : list tev := flat_map (proj_tev d) tr.

(* ---- comparison with an observed execution (correspondence) -------------------------------- *)
Definition cout_eqb (a b : cout) : bool := node_eqb (fst a) (fst b) && wout_eqb (snd a) (snd b).
Fixpoint couts_eqb (a b : list cout) : bool :=
  match a, b with
  | [], [] => true
  | x :: s, y :: t => cout_eqb x y && couts_eqb s t
  | _, _ => false
  end.
Definition cdeliveries (l : list cout) : list cout :=
  filter (fun o => match snd o with ODeliver _ => true | OLost _ => false end) l.

(* observed: per action, the deliveries seen (with the device that received them) and per wire
   (packets_rec, len(store.items)) after it *)
Fixpoint cable_agree (loss : option Q) (c : cable)
         (obs : list (caction * list cout * ((Z * nat) * (Z * nat)))) : bool :=
  match obs with
  | [] => true
  | (a, outs, ((r1, n1), (r2, n2))) :: rest =>
      match cable_act loss c a with
      | None => false
      | Some (c', outs') =>
          couts_eqb (cdeliveries outs') outs
          && Z.eqb (nrec (cw1 c')) r1 && Nat.eqb (length (items (wq (cw1 c')))) n1
          && Z.eqb (nrec (cw2 c')) r2 && Nat.eqb (length (items (wq (cw2 c')))) n2
          && cable_agree loss c' rest
      end
  end.

(* the observed `out` pointers after set_endpoints, as (node, its out) pairs *)
Definition wiring_agree (obs : list (node * node)) : bool :=
  match obs with
  | [(a1, b1); (a2, b2); (a3, b3); (a4, b4)] =>
      node_eqb a1 Dev1 && node_eqb b1 (cable_out Dev1) && node_eqb a2 NW1 && node_eqb b2 (cable_out NW1)
      && node_eqb a3 Dev2 && node_eqb b3 (cable_out Dev2) && node_eqb a4 NW2 && node_eqb b4 (cable_out NW2)
  | _ => false
  end.
