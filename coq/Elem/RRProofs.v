(* Proofs about Elem/RR.v: the theorems of SchedBaseProofs.v instantiated for RR (onl/scheduler/rr.py; identity class map); every statement quantifies over
   ALL admissible executions (rr_run ... acts = Some (s, tr)), all rates > 0 and all configurations. *)
From Coq Require Import ZArith QArith List Bool Lia Lqa.
From ONL Require Import Elem.Packet Elem.StoreQ Elem.StoreQProofs Elem.SchedBase Elem.SchedBaseProofs Elem.RR.
Import ListNotations.

Lemma rr_wf r fl : 0 < r -> wf (rr_cfg r fl).
Proof. intros R. split; [exact R|]. intros _ f. reflexivity. Qed.

Lemma rr_cfg_ok r fl : 0 < r -> cfg_ok (rr_cfg r fl).
Proof.
  intros R. split; [apply rr_wf; exact R|]. intros f n Hin. cbn in Hin. apply in_map_iff in Hin as (g & E & _). injection E as _ <-. lia.
Qed.

Lemma rr_work_conserving : forall (r : Q) (fl : list Z) acts s tr t x,
  0 < r ->
  rr_run r fl acts = Some (s, tr) -> rr_act r fl s (SAdvance t) = Some x ->
  (exists p dl, mchild s = CTx p dl /\ mcur s = Some p /\ mnow s < dl) \/ (forall k, held_class (rr_cfg r fl) s k = []).
Proof. intros r fl acts s tr t x R H A. exact (work_conserving0 (rr_cfg r fl) acts s tr t x (rr_cfg_ok r fl R) H A). Qed.

Lemma rr_one_at_a_time_tx_time : forall (r : Q) (fl : list Z) acts s tr,
  0 < r ->
  rr_run r fl acts = Some (s, tr) -> tx_wf (rr_cfg r fl) None tr.
Proof. intros r fl acts s tr R H. exact (tx_wf_run0 (rr_cfg r fl) acts s tr (rr_wf r fl R) H). Qed.

Lemma rr_back_to_back : forall (r : Q) (fl : list Z) acts1 s1 tr1 s2 o acts2 s3 tr2 t x,
  0 < r ->
  rr_run r fl acts1 = Some (s1, tr1) -> rr_act r fl s1 SChildTimer = Some (s2, o) -> (exists k, held_class (rr_cfg r fl) s2 k <> []) ->
  mq_run (rr_cfg r fl) s2 acts2 = Some (s3, tr2) -> (forall t', ~ In (SAdvance t') acts2) -> rr_act r fl s3 (SAdvance t) = Some x ->
  exists e p, In e tr2 /\ In (OStart p) (snd e) /\ fst (fst e) = mnow s2.
Proof. intros r fl acts1 s1 tr1 s2 o acts2 s3 tr2 t x R H1 A2 Hh H2 NA A3. exact (back_to_back (rr_cfg r fl) acts1 s1 tr1 s2 o acts2 s3 tr2 t x (rr_cfg_ok r fl R) H1 A2 Hh H2 NA A3). Qed.

Lemma rr_flow_fifo : forall (r : Q) (fl : list Z) acts s tr f,
  0 < r ->
  rr_run r fl acts = Some (s, tr) ->
  exists rest, filter (is_flow f) (tr_puts tr) = filter (is_flow f) (tr_fwds tr) ++ rest.
Proof. intros r fl acts s tr f R H. exact (run_flow_fifo (rr_cfg r fl) acts s tr f (rr_wf r fl R) H). Qed.

Lemma rr_exactly_once : forall (r : Q) (fl : list Z) acts s tr p,
  0 < r ->
  rr_run r fl acts = Some (s, tr) ->
  count_occ pkt_eq_dec (tr_puts tr) p
  = (count_occ pkt_eq_dec (tr_fwds tr) p + count_occ pkt_eq_dec (held_class (rr_cfg r fl) s ((flow p))) p)%nat.
Proof. intros r fl acts s tr p R H. exact (run_exactly_once (rr_cfg r fl) acts s tr p (rr_wf r fl R) H). Qed.

Lemma rr_counters : forall (r : Q) (fl : list Z) acts s tr,
  0 < r ->
  rr_run r fl acts = Some (s, tr) ->
  (forall f, mqc s f = Z.of_nat (length (held_flow (rr_cfg r fl) s f)) /\ mqb s f = sumsz (held_flow (rr_cfg r fl) s f))
  /\ mtotal s = zsum (fun k => Z.of_nat (length (held_class (rr_cfg r fl) s k))) (dclasses (rr_cfg r fl))
  /\ mcur s = match mchild s with CTx p _ => Some p | _ => None end
  /\ mrecv s = Z.of_nat (length (tr_puts tr)).
Proof. intros r fl acts s tr R H. exact (run_counters (rr_cfg r fl) acts s tr (rr_wf r fl R) H). Qed.

Lemma rr_never_spins : forall (r : Q) (fl : list Z) acts s tr,
  0 < r ->
  rr_run r fl acts = Some (s, tr) -> mpc s <> PSpin.
Proof. intros r fl acts s tr R H. exact (never_spins0 (rr_cfg r fl) acts s tr (rr_cfg_ok r fl R) H). Qed.

Lemma rr_monitor_samples : forall (r : Q) (fl : list Z) acts s tr incl,
  0 < r ->
  rr_run r fl acts = Some (s, tr) ->
  rr_act r fl s (SSample incl) =
    Some (s, [OSample (map (fun f => let l := if incl then held_flow (rr_cfg r fl) s f else waiting_flow (rr_cfg r fl) s f in
                                     (f, Z.of_nat (length l), sumsz l)) (sflows (rr_cfg r fl)))]).
Proof. intros r fl acts s tr incl R H. exact (monitor_samples0 (rr_cfg r fl) acts s tr incl (rr_wf r fl R) H). Qed.

Lemma rr_conserves : forall (r : Q) (fl : list Z) acts s tr,
  0 < r ->
  rr_run r fl acts = Some (s, tr) ->
  (forall k, filter (is_class (rr_cfg r fl) k) (tr_puts tr) = filter (is_class (rr_cfg r fl) k) (tr_fwds tr) ++ held_class (rr_cfg r fl) s k)
  /\ (forall f, filter (is_flow f) (tr_puts tr) = filter (is_flow f) (tr_fwds tr) ++ held_flow (rr_cfg r fl) s f)
  /\ (forall p, In p (tr_puts tr) -> In ((flow p)) (classes (rr_cfg r fl))).
Proof. intros r fl acts s tr R H. exact (run_conserves (rr_cfg r fl) acts s tr (rr_wf r fl R) H). Qed.

Lemma rr_drained : forall (r : Q) (fl : list Z) acts s tr,
  0 < r ->
  rr_run r fl acts = Some (s, tr) -> urgent (rr_cfg r fl) s = false -> (forall p dl, mchild s <> CTx p dl) ->
  (forall k, held_class (rr_cfg r fl) s k = []) /\ (forall f, mqc s f = 0%Z /\ mqb s f = 0%Z) /\ mcur s = None /\
  (forall f, filter (is_flow f) (tr_puts tr) = filter (is_flow f) (tr_fwds tr)) /\ mpc s <> PSpin.
Proof. intros r fl acts s tr R H U Nd. exact (drained0 (rr_cfg r fl) acts s tr (rr_cfg_ok r fl R) H U Nd). Qed.

Lemma rr_visit : forall (r : Q) (fl : list Z) acts s tr,
  0 < r ->
  rr_run r fl acts = Some (s, tr) ->
  exists k, walk (pass (rr_cfg r fl)) (pass (rr_cfg r fl)) (tr_visits tr) = Some k /\
            norm (pass (rr_cfg r fl)) k = norm (pass (rr_cfg r fl)) (cursor (rr_cfg r fl) s).
Proof. intros r fl acts s tr R H. exact (visits_run0 (rr_cfg r fl) acts s tr (rr_wf r fl R) eq_refl H). Qed.

Lemma rr_visit_meaning : forall (r : Q) (fl : list Z) acts s tr a s' o f b,
  0 < r ->
  rr_run r fl acts = Some (s, tr) -> rr_act r fl s a = Some (s', o) -> In (OVisit f b) o ->
  if b then exists x rest, items (mstores s f) = x :: rest /\ get (mstores s' f) = GGranted x /\ items (mstores s' f) = rest
  else items (mstores s f) = [] /\ held_class (rr_cfg r fl) s f = [].
Proof. intros r fl acts s tr a s' o f b R H A Hin. exact (visit_meaning0 (rr_cfg r fl) acts s tr a s' o f b (rr_wf r fl R) H A Hin). Qed.

Lemma rr_starts_follow_visits : forall (r : Q) (fl : list Z) acts s tr,
  0 < r ->
  rr_run r fl acts = Some (s, tr) -> served (tr_visits tr) = map (pclass (rr_cfg r fl)) (tr_starts tr) ++ pending (rr_cfg r fl) s.
Proof. intros r fl acts s tr R H. exact (starts_follow_visits0 (rr_cfg r fl) acts s tr (rr_wf r fl R) H). Qed.

(* non-vacuity: a concrete admissible execution (observed on the real RR: four packets put at t = 0 before the wake-up
   token is processed, 128 B at 1024 bit/s = 1 s each), its departure order, its visits, and the drained final state *)
Definition rr_ex_acts : list saction :=
  [SInit;
   SPut (mkp 0 1 0 128 0);
   SPut (mkp 1 2 0 128 0);
   SPut (mkp 2 3 1 128 0);
   SPut (mkp 3 4 0 128 0);
   SStoreCb None;
   SStoreCb (Some 0%Z);
   SStoreCb (Some 0%Z);
   SStoreCb (Some 1%Z);
   SStoreCb (Some 0%Z);
   SGetDone None;
   SGetDone (Some 0%Z);
   SChildInit;
   SAdvance (1 # 1);
   SChildTimer;
   SChildEnd;
   SGetDone (Some 1%Z);
   SChildInit;
   SAdvance (2 # 1);
   SChildTimer;
   SChildEnd;
   SGetDone (Some 0%Z);
   SChildInit;
   SAdvance (3 # 1);
   SChildTimer;
   SChildEnd;
   SGetDone (Some 0%Z);
   SChildInit;
   SAdvance (4 # 1);
   SChildTimer;
   SChildEnd].

Example rr_example :
  match rr_run (1024 # 1) [0; 1]%Z rr_ex_acts with
  | Some (s, tr) => map uid (tr_fwds tr) = [0; 2; 1; 3]%nat /\ tr_visits tr = [(0, false); (1, false); (0, true); (1, true); (0, true); (1, false); (0, true); (1, false)]%Z /\
                    map (fun e => fst (fst e)) (filter (fun e => negb (nilb (forwards (snd e)))) tr) = [1; 2; 3; 4] /\
                    urgent (rr_cfg (1024 # 1) [0; 1]%Z) s = false /\ mpc s = PTok
  | None => False
  end.
Proof. vm_compute. repeat split; reflexivity. Qed.
