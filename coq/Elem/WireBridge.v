(* Bridging lemma (DESIGN 2.6, second tie) for Wire.put: the body as translated from the tree under test on every run
   (Gen/Extracted_wire.v) is the WPut step of the hand-written automaton (Elem/Wire.v) the C10 theorems are about:
   packets_rec += 1, packet.current_time = now, THEN store.put((now, packet)).  The model files a packet in the store
   under the instant of its put; since the fix 965d42d the code does the same: the entry instant travels with the queued
   entry (run() reads entry[0], not packet.current_time, which is one field per Packet object and is overwritten when the
   same object enters a wire again).  The meaning of store.put below files the packet under the instant the effect
   carries; the per-object stamp is still remembered (the body must still write it, for compatibility). *)
From Coq Require Import ZArith QArith List Bool.
From ONL Require Import Elem.Packet Elem.StoreQ Elem.Wire Gen.Extracted_wire.
Import ListNotations.

Definition wire_fx_apply (p : pkt) (acc : option (wire * option Q)) (e : wire_fx) : option (wire * option Q) :=
  match acc, e with
  | Some (w, _), FxStampCurrent t => Some (w, Some t)
  | Some (w, st), FxStorePut t =>
      Some ({| wnow := wnow w; wq := sq_put fifo_push t p (wq w); started := started w; hold := hold w; nrec := nrec w |}, st)
  | _, _ => None
  end.

Definition wire_gen_put (dbg : bool) (w : wire) : wire_st * list wire_fx :=
  gen_Wire_put {| w_packets_rec := nrec w |} dbg (wnow w).

Definition wire_with_fields (w : wire) (f : wire_st) : wire :=
  {| wnow := wnow w; wq := wq w; started := started w; hold := hold w; nrec := w_packets_rec f |}.

Lemma bridge_wire_put loss dbg w p :
  let g := wire_gen_put dbg w in
  exists w', fold_left (wire_fx_apply p) (snd g) (Some (wire_with_fields w (fst g), None)) = Some (w', Some (wnow w)) /\
             wire_act loss w (WPut p) = Some (w', []) /\
             snd g = [FxStampCurrent (wnow w); FxStorePut (wnow w)].
Proof.
  unfold wire_gen_put, gen_Wire_put, wire_with_fields; destruct dbg; cbn -[Z.add]; rewrite ?(Z.add_comm 1);
    eexists; repeat split; reflexivity.
Qed.
