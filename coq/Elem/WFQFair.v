(* C14, last clause: WFQ with a static backlog serves any two still-backlogged classes fairly.
   If every packet is put before the first transmission starts, then at every later state, for classes i, j
   that still hold a packet,   | W_i/w_i - W_j/w_j | <= Lmax/w_i + Lmax/w_j,
   W_c = bytes of class c whose transmission has started, Lmax = a bound on the packet sizes.

   Proof: an invariant over (state, ghost) where the ghost records W and whether a transmission has started.
   Before the first start V = 0 and the stamps are K*(prefix sums of the class)/w_c (K = 8/rate) (F1, F2);
   afterwards no put happens, every selection takes the least stamp of a fixed set, hence the normalised
   service K*W_c/w_c of every class is below every unstarted stamp (F3) -- except that the very first
   selection may have happened before the last puts, which is absorbed by "or W_c <= Lmax". *)
From Coq Require Import ZArith QArith Qminmax Qabs List Bool Lia Lqa Permutation.
From ONL Require Import Elem.Packet Elem.StoreQ Elem.StoreQProofs Elem.HeapList Elem.WFQServer Elem.WFQServerProofs
  Elem.WFQServerTrace Elem.WFQ Elem.WFQProofs Elem.WFQInst.
Import ListNotations.

Section Fair.
  Variable cfg : wcfg.
  Hypothesis Hok : wcfg_ok cfg.
  Hypothesis Hfix : wfix_first cfg = true.
  Variable Lmax : Z.
  Hypothesis Lmax_nonneg : (0 <= Lmax)%Z.
  Let rp : 0 < wrate cfg := proj1 Hok.
  Let wp := proj2 Hok.
  Notation S := (wfq_stamper cfg).
  Notation D := (wfq_disc cfg rp wp).

  Definition esize (e : entry) : Z := psize (epkt e).
  Definition eseq (e : entry) : nat := iseq (snd e).
  Definition ecls (e : entry) : Z := wcls cfg (epkt e).
  Definition wof (c : Z) : Z := match zlookup c (wweights cfg) with Some w => w | None => 1%Z end.
  Definition K : Q := 8 / wrate cfg.
  (* x bytes of class c, normalised: K * x / w_c *)
  Definition nrm (c : Z) (x : Z) : Q := K * inject_Z x / inject_Z (wof c).

  Lemma wof_pos c : (0 < wof c)%Z.
  Proof. unfold wof. destruct (zlookup c (wweights cfg)) eqn:E; [eapply wp; eauto|lia]. Qed.

  Lemma K_pos : 0 < K.
  Proof. unfold K. apply Qlt_shift_div_l; [exact rp|]. rewrite Qmult_0_l. reflexivity. Qed.

  Lemma nrm_plus c x y : nrm c (x + y) == nrm c x + nrm c y.
  Proof.
    unfold nrm. rewrite inject_Z_plus. pose proof (wof_pos c) as W.
    assert (N : ~ inject_Z (wof c) == 0) by (unfold Qeq; cbn; lia). field. exact N.
  Qed.

  Lemma nrm_mono c x y : (x <= y)%Z -> nrm c x <= nrm c y.
  Proof.
    intros H. unfold nrm. pose proof (wof_pos c) as W. pose proof K_pos as Kp.
    apply Qle_shift_div_l; [unfold Qlt; cbn; lia|].
    assert (N : ~ inject_Z (wof c) == 0) by (unfold Qeq; cbn; lia).
    setoid_replace (K * inject_Z x / inject_Z (wof c) * inject_Z (wof c)) with (K * inject_Z x) by (field; exact N).
    apply Qmult_le_l; [exact Kp|]. rewrite <- Zle_Qle. exact H.
  Qed.

  Lemma nrm_0 c : nrm c 0 == 0.
  Proof. unfold nrm. pose proof (wof_pos c). assert (N : ~ inject_Z (wof c) == 0) by (unfold Qeq; cbn; lia). field. exact N. Qed.

  Lemma nrm_nonneg c x : (0 <= x)%Z -> 0 <= nrm c x.
  Proof. intros H. rewrite <- (nrm_0 c). apply nrm_mono. exact H. Qed.

  (* the increment put() adds to the stamp *)
  Lemma inc_nrm p w : zlookup (wcls cfg p) (wweights cfg) = Some w -> wstamp_inc cfg p w == nrm (wcls cfg p) (psize p).
  Proof.
    intros E. unfold wstamp_inc, nrm, K, wof. rewrite E. pose proof (wp _ _ E) as W.
    assert (N : ~ inject_Z w == 0) by (unfold Qeq; cbn; lia).
    assert (N2 : ~ wrate cfg == 0) by (intros C; rewrite C in rp; apply (Qlt_irrefl 0); exact rp).
    field. split; assumption.
  Qed.

  Lemma NoDup_app_one (A : Type) (l : list A) x : NoDup l -> ~ In x l -> NoDup (l ++ [x]).
  Proof.
    induction l as [|a l IH]; intros ND Hn; cbn; [constructor; [intros []|constructor]|].
    inversion ND; subst. constructor.
    - intros C. apply in_app_or in C as [C|[C|[]]]; [contradiction|]. subst. apply Hn. left. reflexivity.
    - apply IH; [assumption|]. intros C. apply Hn. right. exact C.
  Qed.

  (* ---- sums over lists of entries ---- *)
  Definition csum (c : Z) (l : list entry) : Z :=
    fold_right (fun v a => ((if Z.eqb (ecls v) c then esize v else 0) + a)%Z) 0%Z l.
  Definition pre_in (u v : entry) : bool := Z.eqb (ecls v) (ecls u) && Nat.leb (eseq v) (eseq u).
  Definition presum (l : list entry) (u : entry) : Z :=
    fold_right (fun v a => ((if pre_in u v then esize v else 0) + a)%Z) 0%Z l.

  Lemma csum_perm c l l' : Permutation l l' -> csum c l = csum c l'.
  Proof. intros P. unfold csum. induction P; cbn; lia. Qed.
  Lemma presum_perm u l l' : Permutation l l' -> presum l u = presum l' u.
  Proof. intros P. unfold presum. induction P; cbn; lia. Qed.
  Lemma csum_app c l1 l2 : csum c (l1 ++ l2) = (csum c l1 + csum c l2)%Z.
  Proof. unfold csum. induction l1; cbn; lia. Qed.
  Lemma presum_app u l1 l2 : presum (l1 ++ l2) u = (presum l1 u + presum l2 u)%Z.
  Proof. unfold presum. induction l1; cbn; lia. Qed.

  (* ---- the unstarted entries of a state ---- *)
  Definition sel (s : wfq cfg) : list entry :=
    (match chl s with CInit e => [e] | _ => [] end) ++ (match get (store s) with GGranted x => [x] | _ => [] end).
  Definition Ul (s : wfq cfg) : list entry := sel s ++ items (store s).

  Record ghost := { gW : Z -> Z; gst : bool }.
  Definition g0 : ghost := {| gW := fun _ => 0%Z; gst := false |}.
  Definition gstep (g : ghost) (a : faction) (s' : wfq cfg) : ghost :=
    match a, chl s' with
    | FChildInit, CTx e _ => {| gW := fupd (gW g) (ecls e) (gW g (ecls e) + esize e); gst := true |}
    | _, _ => g
    end.

  Definition FI (s : wfq cfg) (g : ghost) : Prop :=
    (* F0 *) (forall u, In u (Ul s) -> (0 <= esize u <= Lmax)%Z) /\
    (* F6 *) (forall c, 0 <= gW g c)%Z /\
    (* F1 *) (gst g = false ->
               (forall c, gW g c = 0%Z) /\ vtime (stm s) == 0 /\ (Ul s <> [] -> last_time (stm s) = now s) /\
               (forall c, fin (stm s) c == nrm c (csum c (Ul s))) /\
               (chl s = CNone \/ exists e, chl s = CInit e)) /\
    (* F2 *) (forall u, In u (Ul s) -> istamp (snd u) == nrm (ecls u) (gW g (ecls u) + presum (Ul s) u)) /\
    (* F3 *) (forall c u, In u (Ul s) -> nrm c (gW g c) <= istamp (snd u) \/ (gW g c <= Lmax)%Z) /\
    (* F4 *) (forall e dl, chl s = CTx e dl -> forall c, nrm c (gW g c) <= nrm (ecls e) (gW g (ecls e)) \/ (gW g c <= Lmax)%Z) /\
    (* F5 *) (forall x y, In x (sel s) -> In y (items (store s)) ->
               (ecls y = ecls x -> (eseq x < eseq y)%nat) /\
               (gst g = true -> istamp (snd x) <= istamp (snd y))) /\
    (* F7 *) NoDup (map eseq (Ul s)) /\ (forall u, In u (Ul s) -> (eseq u <= seq s)%nat).

  Lemma classic_ex (l : list entry) j : (exists u, In u l /\ ecls u = j) \/ ~ (exists u, In u l /\ ecls u = j).
  Proof.
    induction l as [|a l IH].
    - right. intros (u & [] & _).
    - destruct (Z.eq_dec (ecls a) j) as [E|E]; [left; exists a; split; [left; reflexivity|exact E]|].
      destruct IH as [(u & Hu & Hc)|Hn]; [left; exists u; split; [right; exact Hu|exact Hc]|].
      right. intros (u & [<-|Hu] & Hc); [contradiction|]. apply Hn. eauto.
  Qed.

  (* ---- the bound follows from the invariant ---- *)
  Lemma presum_zero l u :
    (forall v, In v l -> ecls v = ecls u -> (eseq u < eseq v)%nat) -> presum l u = 0%Z.
  Proof.
    induction l as [|b l IH]; intros H; [reflexivity|]. cbn [presum fold_right]. fold (presum l u).
    rewrite IH by (intros v Hv; apply H; right; exact Hv).
    unfold pre_in. destruct (Z.eqb_spec (ecls b) (ecls u)) as [E|E]; [|reflexivity]. cbn [andb].
    assert (L : (eseq u < eseq b)%nat) by (apply H; [left; reflexivity|exact E]).
    destruct (Nat.leb_spec (eseq b) (eseq u)); [lia|reflexivity].
  Qed.

  Lemma presum_min l u :
    NoDup (map eseq l) -> In u l -> (forall v, In v l -> ecls v = ecls u -> (eseq u <= eseq v)%nat) ->
    presum l u = esize u.
  Proof.
    induction l as [|a l IH]; intros ND Hu Hmin; [destruct Hu|].
    cbn [map] in ND. inversion ND as [|? ? Hna ND']; subst. cbn [presum fold_right]. fold (presum l u).
    destruct Hu as [->|Hu].
    - unfold pre_in at 1. rewrite Z.eqb_refl, Nat.leb_refl. cbn [andb].
      rewrite presum_zero; [lia|]. intros v Hv Ec.
      assert (L : (eseq u <= eseq v)%nat) by (apply Hmin; [right; exact Hv|exact Ec]).
      assert (N : eseq v <> eseq u) by (intros C; apply Hna; rewrite <- C; apply in_map; exact Hv). lia.
    - assert (Ea : pre_in u a = false).
      { unfold pre_in. destruct (Z.eqb_spec (ecls a) (ecls u)) as [E|E]; [|reflexivity]. cbn [andb].
        assert (L : (eseq u <= eseq a)%nat) by (apply Hmin; [left; reflexivity|exact E]).
        assert (N : eseq a <> eseq u) by (intros C; apply Hna; rewrite C; apply in_map; exact Hu).
        destruct (Nat.leb_spec (eseq a) (eseq u)); [lia|reflexivity]. }
      rewrite Ea. rewrite IH; [lia|exact ND'|exact Hu|]. intros v Hv. apply Hmin. right. exact Hv.
  Qed.

  (* a list with an entry of class j has one with the least arrival counter among those of class j *)
  Lemma class_min (l : list entry) j :
    (exists u, In u l /\ ecls u = j) ->
    exists u, In u l /\ ecls u = j /\ forall v, In v l -> ecls v = j -> (eseq u <= eseq v)%nat.
  Proof.
    induction l as [|a l IH]; intros (u & Hu & Hc); [destruct Hu|].
    destruct (Z.eq_dec (ecls a) j) as [Ea|Ea].
    - destruct (classic_ex l j) as [(u' & Hu' & Hc')|Hn].
      + destruct (IH (ex_intro _ u' (conj Hu' Hc'))) as (m & Hm & Hmc & Hmin).
        destruct (le_lt_dec (eseq a) (eseq m)) as [L|L].
        * exists a. split; [left; reflexivity|]. split; [exact Ea|].
          intros v [<-|Hv] Hvc; [lia|]. specialize (Hmin v Hv Hvc). lia.
        * exists m. split; [right; exact Hm|]. split; [exact Hmc|].
          intros v [<-|Hv] Hvc; [lia|]. apply Hmin; assumption.
      + exists a. split; [left; reflexivity|]. split; [exact Ea|].
        intros v [<-|Hv] Hvc; [lia|]. exfalso. apply Hn. eauto.
    - destruct Hu as [->|Hu]; [contradiction|].
      destruct (IH (ex_intro _ u (conj Hu Hc))) as (m & Hm & Hmc & Hmin).
      exists m. split; [right; exact Hm|]. split; [exact Hmc|].
      intros v [<-|Hv] Hvc; [contradiction|]. apply Hmin; assumption.
  Qed.

  (* class j holds a packet in state s *)
  Definition holds (j : Z) (s : wfq cfg) : Prop := exists p, In p (held S s) /\ wcls cfg p = j.

  Lemma holds_cases s j : holds j s ->
    (exists u, In u (Ul s) /\ ecls u = j) \/ (exists e dl, chl s = CTx e dl /\ ecls e = j).
  Proof.
    intros (p & Hp & Hc). unfold held in Hp. apply in_app_or in Hp as [Hp|Hp].
    - destruct (chl s) as [|e|e dl|e] eqn:Ec; cbn in Hp; try (destruct Hp; fail).
      + destruct Hp as [<-|[]]. left. exists e. split; [|exact Hc]. unfold Ul, sel. rewrite Ec. left. reflexivity.
      + destruct Hp as [<-|[]]. right. exists e, dl. auto.
    - apply in_map_iff in Hp as (u & <- & Hu). left. exists u. split; [|exact Hc].
      unfold Ul, sel. apply in_or_app. unfold sq_held in Hu. destruct (get (store s)) as [| |y] eqn:G.
      + right. exact Hu.
      + right. exact Hu.
      + destruct Hu as [<-|Hu]; [left; apply in_or_app; right; left; reflexivity|right; exact Hu].
  Qed.

  Lemma one_side s g i j :
    FI s g -> holds j s -> nrm i (gW g i) <= nrm j (gW g j) + nrm j Lmax \/ (gW g i <= Lmax)%Z.
  Proof.
    intros (F0 & F6 & F1 & F2 & F3 & F4 & F5 & F7 & F7b) Hj.
    destruct (holds_cases s j Hj) as [Hu|(e & dl & Ec & Ee)].
    - destruct (class_min (Ul s) j Hu) as (u & Hin & Hc & Hmin).
      assert (Ps : presum (Ul s) u = esize u).
      { apply presum_min; [exact F7|exact Hin|]. intros v Hv Ev. apply Hmin; [exact Hv|congruence]. }
      destruct (F3 i u Hin) as [L|L]; [left|right; exact L].
      rewrite (F2 u Hin), Ps, Hc, nrm_plus in L. destruct (F0 u Hin) as (_ & Hs).
      pose proof (nrm_mono j _ _ Hs). lra.
    - destruct (F4 e dl Ec i) as [L|L]; [left|right; exact L]. rewrite Ee in L.
      pose proof (nrm_nonneg j Lmax Lmax_nonneg). lra.
  Qed.

  Theorem fair_from_FI s g i j :
    FI s g -> holds i s -> holds j s ->
    Qabs (nrm i (gW g i) - nrm j (gW g j)) <= nrm i Lmax + nrm j Lmax.
  Proof.
    intros HF Hi Hj. pose proof HF as (_ & F6 & _).
    pose proof (nrm_nonneg i _ (F6 i)) as Ni. pose proof (nrm_nonneg j _ (F6 j)) as Nj.
    pose proof (nrm_nonneg i Lmax Lmax_nonneg) as Li. pose proof (nrm_nonneg j Lmax Lmax_nonneg) as Lj.
    assert (A : nrm i (gW g i) - nrm j (gW g j) <= nrm i Lmax + nrm j Lmax).
    { destruct (one_side s g i j HF Hj) as [L|L]; [lra|]. pose proof (nrm_mono i _ _ L). lra. }
    assert (B : nrm j (gW g j) - nrm i (gW g i) <= nrm i Lmax + nrm j Lmax).
    { destruct (one_side s g j i HF Hi) as [L|L]; [lra|]. pose proof (nrm_mono j _ _ L). lra. }
    apply Qabs_case; intros _; lra.
  Qed.

  (* ---- preservation ---- *)
  Notation R := (wreach cfg).

  Lemma presum_all l u : (forall v, In v l -> (eseq v <= eseq u)%nat) -> presum l u = csum (ecls u) l.
  Proof.
    induction l as [|a l IH]; intros H; [reflexivity|]. cbn [presum csum fold_right]. fold (presum l u). fold (csum (ecls u) l).
    rewrite IH by (intros v Hv; apply H; right; exact Hv). unfold pre_in.
    assert (L : (eseq a <= eseq u)%nat) by (apply H; left; reflexivity).
    destruct (Nat.leb_spec (eseq a) (eseq u)); [|lia]. rewrite andb_true_r. reflexivity.
  Qed.

  Lemma presum_later l u : (forall v, In v l -> (eseq u < eseq v)%nat) -> presum l u = 0%Z.
  Proof. intros H. apply presum_zero. intros v Hv _. apply H. exact Hv. Qed.

  (* before any transmission started, the packets in the system are exactly the unstarted entries *)
  Lemma insys_Ul s : (chl s = CNone \/ exists e, chl s = CInit e) -> insys S s = map epkt (Ul s).
  Proof.
    intros Hc. unfold insys, Ul, sel, sq_held. rewrite !map_app.
    destruct Hc as [->|(e & ->)]; cbn [child_all app map]; destruct (get (store s)); reflexivity.
  Qed.

  Lemma Ul_nil_insys s : (chl s = CNone \/ exists e, chl s = CInit e) -> (insys S s = [] <-> Ul s = []).
  Proof.
    intros Hc. rewrite (insys_Ul s Hc). split; [|intros ->; reflexivity].
    destruct (Ul s); [reflexivity|discriminate].
  Qed.

  Lemma FI_put s g p s' o :
    R s -> FI s g -> gst g = false -> wconf cfg p -> (psize p <= Lmax)%Z ->
    wfq_act cfg s (FPut p) = Ok (s', o) -> FI s' g.
  Proof.
    intros HR (F0 & F6 & F1 & F2 & F3 & F4 & F5 & F7 & F7b) Gs Hc Hsz A.
    destruct (F1 Gs) as (W0 & V0 & Lt & Fin & Hchl).
    destruct (wfq_stamp cfg Hok Hfix s p HR Hc) as (s1 & w & F & A1 & Ew & EF & EFc & Eoth & (F' & EF' & Eit)).
    rewrite A1 in A. apply Ok_inj in A as [-> ->].
    assert (Hcp : forall q, FPut p = FPut q -> wconf cfg q) by (intros q Eq; injection Eq as <-; exact Hc).
    pose proof (wfq_vtime cfg Hok s (FPut p) s1 [] HR Hcp A1) as (Lt' & V1 & V2).
    set (n := (now s, {| istamp := F'; iseq := Datatypes.S (seq s); ipkt := p |}) : entry) in *.
    assert (Esel : sel s1 = sel s).
    { unfold wfq_act, act in A1. cbn [st_put wfq_stamper] in A1. destruct (wfq_put cfg (now s) (stm s) p) as [[st' F0']|]; [|discriminate].
      apply Ok_inj in A1 as [-> _]. unfold sel. cbn [chl store get sq_put]. reflexivity. }
    assert (Echl : chl s1 = chl s /\ seq s1 = Datatypes.S (seq s) /\ now s1 = now s).
    { unfold wfq_act, act in A1. cbn [st_put wfq_stamper] in A1. destruct (wfq_put cfg (now s) (stm s) p) as [[st' F0']|]; [|discriminate].
      apply Ok_inj in A1 as [-> _]. cbn [chl seq now]. auto. }
    destruct Echl as (Echl & Eseq & Enow).
    assert (EU : Ul s1 = Ul s ++ [n]).
    { unfold Ul. rewrite Esel, Eit, app_assoc. reflexivity. }
    assert (Hn : esize n = psize p /\ ecls n = wcls cfg p /\ eseq n = Datatypes.S (seq s)) by (cbn; auto).
    destruct Hn as (Hn1 & Hn2 & Hn3).
    assert (Hvt : vtime (stm s1) == 0).
    { destruct (Ul s) as [|u0 U0] eqn:EUl.
      - apply V1. apply (Ul_nil_insys s Hchl). exact EUl.
      - destruct V2 as (W & _ & Wp & Ev); [intros C; apply (Ul_nil_insys s Hchl) in C; rewrite EUl in C; discriminate|].
        rewrite Ev, V0. rewrite Lt by discriminate.
        assert (N : ~ inject_Z W == 0) by (unfold Qeq; cbn; lia). field. exact N. }
    assert (Hcs : forall c, csum c (Ul s ++ [n]) = (csum c (Ul s) + (if Z.eqb (wcls cfg p) c then psize p else 0))%Z).
    { intros c. rewrite csum_app. cbn [csum fold_right]. rewrite Hn1, Hn2. lia. }
    assert (HF : F == nrm (wcls cfg p) (csum (wcls cfg p) (Ul s) + psize p)).
    { rewrite EF, Hvt, (inc_nrm p w Ew), nrm_plus, (Fin (wcls cfg p)).
      assert (G0 : 0 <= nrm (wcls cfg p) (csum (wcls cfg p) (Ul s))).
      { apply nrm_nonneg. clear -F0. unfold csum. induction (Ul s) as [|a l IH]; cbn; [lia|].
        assert (0 <= esize a)%Z by (apply F0; left; reflexivity).
        assert (0 <= fold_right (fun v a0 => ((if Z.eqb (ecls v) (wcls cfg p) then esize v else 0) + a0)%Z) 0%Z l)%Z
          by (apply IH; intros u Hu; apply F0; right; exact Hu).
        destruct (Z.eqb (ecls a) (wcls cfg p)); lia. }
      rewrite (Q.max_l _ _ G0). reflexivity. }
    unfold FI. rewrite EU.
    split; [|split; [|split; [|split; [|split; [|split; [|split; [|split]]]]]]].
    - (* F0 *) intros u Hu. apply in_app_or in Hu as [Hu|[<-|[]]]; [apply F0; exact Hu|]. rewrite Hn1. destruct Hc. lia.
    - exact F6.
    - (* F1 *) intros _. split; [exact W0|]. split; [exact Hvt|]. split; [intros _; rewrite Lt', Enow; reflexivity|].
      split; [|rewrite Echl; exact Hchl].
      intros c. rewrite Hcs. destruct (Z.eqb_spec (wcls cfg p) c) as [<-|Nc].
      + rewrite EFc. exact HF.
      + rewrite Z.add_0_r. destruct (Ul s) as [|u0 U0] eqn:EUl.
        * assert (Ea : active (stm s) = []).
          { apply (WJ_active_nil cfg (stm s) (insys S s) (wreach_J cfg rp wp s HR)). apply (Ul_nil_insys s Hchl). exact EUl. }
          unfold wfq_act, act in A1. cbn [st_put wfq_stamper] in A1.
          destruct (wfq_put cfg (now s) (stm s) p) as [[st' F0']|] eqn:P; [|discriminate].
          apply Ok_inj in A1 as [-> _]. cbn [stm]. rewrite (wfq_put_empty_others cfg _ _ _ _ _ c Ea P); [|congruence].
          cbn [csum fold_right]. rewrite nrm_0. reflexivity.
        * rewrite Eoth; [apply Fin|congruence|].
          intros C. apply (Ul_nil_insys s Hchl) in C. rewrite EUl in C. discriminate.
    - (* F2 *) intros u Hu. rewrite presum_app. apply in_app_or in Hu as [Hu|[<-|[]]].
      + assert (Pn : presum [n] u = 0%Z).
        { apply presum_later. intros v [<-|[]]. rewrite Hn3. specialize (F7b u Hu). lia. }
        rewrite Pn, Z.add_0_r. apply F2. exact Hu.
      + rewrite Hn2, W0, Z.add_0_l.
        assert (P1 : presum (Ul s) n = csum (wcls cfg p) (Ul s)).
        { rewrite presum_all; [rewrite Hn2; reflexivity|]. intros v Hv. rewrite Hn3. specialize (F7b v Hv). lia. }
        assert (P2 : presum [n] n = psize p).
        { cbn [presum fold_right]. unfold pre_in. rewrite Z.eqb_refl, Nat.leb_refl. cbn [andb]. lia. }
        rewrite P1, P2. cbn [snd istamp n]. rewrite EF'. exact HF.
    - (* F3 *) intros c u _. right. rewrite W0. exact Lmax_nonneg.
    - (* F4 *) intros e dl Ec. rewrite Echl in Ec. destruct Hchl as [C|(e0 & C)]; rewrite C in Ec; discriminate.
    - (* F5 *) intros x y Hx Hy. rewrite Esel in Hx. rewrite Eit in Hy. apply in_app_or in Hy as [Hy|[<-|[]]].
      + apply F5; assumption.
      + split; [|intros C; congruence]. intros _. rewrite Hn3.
        assert (Hxu : In x (Ul s)) by (unfold Ul; apply in_or_app; left; exact Hx). specialize (F7b x Hxu). lia.
    - (* F7 *) rewrite map_app. cbn [map]. rewrite Hn3. apply NoDup_app_one; [exact F7|].
      intros C. apply in_map_iff in C as (v & Ev & Hv). specialize (F7b v Hv). lia.
    - intros u Hu. rewrite Eseq. apply in_app_or in Hu as [Hu|[<-|[]]]; [specialize (F7b u Hu); lia|rewrite Hn3; lia].
  Qed.

  Lemma klt_stamp_le (x y : entry) : entry_ltb x y = true -> istamp (snd x) <= istamp (snd y).
  Proof.
    unfold entry_ltb. rewrite key_ltb_true. unfold ekey, klt. intros [H|[H _]]; lra.
  Qed.

  (* the transmission of the selected entry x starts *)
  Lemma FI_start s g s' o :
    R s -> FI s g -> wfq_act cfg s FChildInit = Ok (s', o) -> FI s' (gstep g FChildInit s').
  Proof.
    intros HR (F0 & F6 & F1 & F2 & F3 & F4 & F5 & F7 & F7b) A.
    destruct (wreach_inv cfg rp wp s HR) as ((_ & I0 & I1 & _) & _).
    unfold wfq_act, act in A. destruct (chl s) as [|x|x dl|x] eqn:Ec; try discriminate A.
    apply Ok_inj in A as [-> ->].
    assert (G : get (store s) = GNone).
    { destruct (started s) eqn:St; [apply (I1 eq_refl); discriminate|destruct (I0 eq_refl); discriminate]. }
    assert (EU : Ul s = x :: items (store s)) by (unfold Ul, sel; rewrite Ec, G; reflexivity).
    assert (Esel : In x (sel s)) by (unfold sel; rewrite Ec; left; reflexivity).
    unfold gstep. cbn [chl with_child]. set (k := ecls x).
    set (g' := {| gW := fupd (gW g) k (gW g k + esize x); gst := true |}).
    assert (EU' : Ul (with_child S s (CTx x (Qred (now s + tx_time (wrate cfg) (epkt x))))) = items (store s)).
    { unfold Ul, sel. cbn [chl store with_child]. rewrite G. reflexivity. }
    assert (Hx : In x (Ul s)) by (rewrite EU; left; reflexivity).
    assert (Psx : presum (Ul s) x = esize x).
    { rewrite EU. cbn [presum fold_right]. fold (presum (items (store s)) x). unfold pre_in at 1.
      rewrite Z.eqb_refl, Nat.leb_refl. cbn [andb]. rewrite presum_zero; [lia|].
      intros v Hv Ev. apply (F5 x v Esel Hv). exact Ev. }
    assert (Sx : istamp (snd x) == nrm k (gW g k + esize x)).
    { rewrite (F2 x Hx), Psx. reflexivity. }
    assert (Wk : gW g' k = (gW g k + esize x)%Z) by (cbn [gW g']; unfold fupd; rewrite Z.eqb_refl; reflexivity).
    assert (Wo : forall c, c <> k -> gW g' c = gW g c).
    { intros c Nc. cbn [gW g']. unfold fupd. destruct (Z.eqb_spec c k); [contradiction|reflexivity]. }
    unfold FI. rewrite EU'. cbn [chl with_child store seq].
    split; [|split; [|split; [|split; [|split; [|split; [|split; [|split]]]]]]].
    - intros u Hu. apply F0. rewrite EU. right. exact Hu.
    - intros c. destruct (Z.eq_dec c k) as [->|Nc]; [rewrite Wk|rewrite (Wo c Nc); apply F6].
      specialize (F6 k). destruct (F0 x Hx). lia.
    - intros C. discriminate C.
    - (* F2 *) intros u Hu. assert (Hu' : In u (Ul s)) by (rewrite EU; right; exact Hu).
      rewrite (F2 u Hu'), EU. cbn [presum fold_right]. fold (presum (items (store s)) u). unfold pre_in at 1.
      destruct (Z.eq_dec (ecls u) k) as [Ek|Nk].
      + rewrite Ek, Wk. fold k. rewrite Z.eqb_refl.
        assert (L : (eseq x < eseq u)%nat) by (apply (F5 x u Esel Hu); exact Ek).
        destruct (Nat.leb_spec (eseq x) (eseq u)); [|lia]. cbn [andb].
        replace (gW g k + (esize x + presum (items (store s)) u))%Z with (gW g k + esize x + presum (items (store s)) u)%Z by lia.
        reflexivity.
      + rewrite (Wo _ Nk). fold k. destruct (Z.eqb_spec k (ecls u)); [congruence|]. cbn [andb]. reflexivity.
    - (* F3 *) intros c u Hu. assert (Hu' : In u (Ul s)) by (rewrite EU; right; exact Hu).
      destruct (Z.eq_dec c k) as [->|Nc]; [|rewrite (Wo c Nc); apply F3; exact Hu'].
      rewrite Wk. destruct (gst g) eqn:Gs.
      + left. rewrite <- Sx. apply (F5 x u Esel Hu). reflexivity.
      + right. destruct (F1 eq_refl) as (W0 & _). rewrite W0. destruct (F0 x Hx). lia.
    - (* F4 *) intros e dl E c. apply CTx_inj in E as [-> _]. fold k.
      destruct (Z.eq_dec c k) as [->|Nc]; [left; apply Qle_refl|]. rewrite (Wo c Nc), Wk.
      destruct (F3 c x Hx) as [L|L]; [left; rewrite <- Sx; exact L|right; exact L].
    - intros y z Hy. unfold sel in Hy. cbn [chl store with_child] in Hy. rewrite G in Hy. destruct Hy.
    - rewrite EU in F7. cbn [map] in F7. inversion F7; assumption.
    - intros u Hu. apply F7b. rewrite EU. right. exact Hu.
  Qed.

  (* steps that neither put nor start: the unstarted entries are permuted, the ghost is unchanged *)
  Definition phaseA_ok (s s' : wfq cfg) : Prop :=
    vtime (stm s') == vtime (stm s) /\ (Ul s' <> [] -> last_time (stm s') = now s') /\
    (forall c, fin (stm s') c == fin (stm s) c) /\ (chl s' = CNone \/ exists e, chl s' = CInit e).

  Lemma FI_perm s s' g :
    FI s g -> Permutation (Ul s') (Ul s) -> seq s' = seq s ->
    (gst g = false -> phaseA_ok s s') ->
    (forall e dl, chl s' = CTx e dl -> chl s = CTx e dl) ->
    (forall x y, In x (sel s') -> In y (items (store s')) ->
        (ecls y = ecls x -> (eseq x < eseq y)%nat) /\ (gst g = true -> istamp (snd x) <= istamp (snd y))) ->
    FI s' g.
  Proof.
    intros (F0 & F6 & F1 & F2 & F3 & F4 & F5 & F7 & F7b) P Es HA H4 H5.
    assert (In' : forall u, In u (Ul s') -> In u (Ul s)) by (intros u Hu; eapply Permutation_in; eauto).
    unfold FI. split; [|split; [|split; [|split; [|split; [|split; [|split; [|split]]]]]]].
    - intros u Hu. apply F0, In', Hu.
    - exact F6.
    - intros Gs. destruct (F1 Gs) as (W0 & V0 & Lt & Fin & Hc). destruct (HA Gs) as (V' & Lt' & Fin' & Hc').
      split; [exact W0|]. split; [rewrite V'; exact V0|]. split; [exact Lt'|]. split; [|exact Hc'].
      intros c. rewrite Fin', (csum_perm c _ _ P). apply Fin.
    - intros u Hu. rewrite (presum_perm u _ _ P). apply F2, In', Hu.
    - intros c u Hu. apply F3, In', Hu.
    - intros e dl Ec. apply (F4 e dl). apply H4. exact Ec.
    - exact H5.
    - eapply Permutation_NoDup; [apply Permutation_map; symmetry; exact P|exact F7].
    - intros u Hu. rewrite Es. apply F7b, In', Hu.
  Qed.

  Lemma FI_same s s' g :
    FI s g -> sel s' = sel s -> items (store s') = items (store s) -> seq s' = seq s ->
    (gst g = false -> phaseA_ok s s') -> (forall e dl, chl s' = CTx e dl -> chl s = CTx e dl) -> FI s' g.
  Proof.
    intros HF Es Ei Eq HA H4. pose proof HF as (_ & _ & _ & _ & _ & _ & F5 & _).
    apply (FI_perm s s' g HF); try assumption.
    - unfold Ul. rewrite Es, Ei. apply Permutation_refl.
    - intros x y Hx Hy. rewrite Es in Hx. rewrite Ei in Hy. apply F5; assumption.
  Qed.

  Lemma FI_select s s' g x l1 l2 :
    R s -> FI s g -> sel s = [] -> sel s' = [x] ->
    items (store s) = l1 ++ x :: l2 -> items (store s') = l1 ++ l2 -> strictly_least (wcls cfg) x l1 l2 ->
    seq s' = seq s -> (gst g = false -> phaseA_ok s s') -> (forall e dl, chl s' = CTx e dl -> chl s = CTx e dl) ->
    FI s' g.
  Proof.
    intros HR HF Es Es' Ei Ei' (SL1 & SL2) Eq HA H4.
    destruct (wreach_inv cfg rp wp s HR) as (_ & _ & _ & HO & _). rewrite Ei in HO.
    apply (FI_perm s s' g HF); try assumption.
    - unfold Ul. rewrite Es, Es', Ei, Ei'. cbn [app]. apply Permutation_middle.
    - intros y z Hy Hz. rewrite Es' in Hy. destruct Hy as [<-|[]]. rewrite Ei' in Hz. split.
      + intros Ec. apply in_app_or in Hz as [Hz|Hz].
        * exfalso. apply (SL2 z Hz). exact Ec.
        * apply (proj1 (ordl_split_after (wcls cfg) l1 x l2 HO z Hz)).
      + intros _. apply klt_stamp_le. apply SL1. exact Hz.
  Qed.

  Lemma phaseA_same_stm s s' g :
    FI s g -> stm s' = stm s -> now s' = now s -> chl s' = chl s \/ (chl s = CNone /\ exists e, chl s' = CInit e) ->
    Permutation (Ul s') (Ul s) -> gst g = false -> phaseA_ok s s'.
  Proof.
    intros (_ & _ & F1 & _) Est En Ec P Gs. destruct (F1 Gs) as (_ & _ & Lt & _ & Hc).
    unfold phaseA_ok. rewrite Est, En. split; [reflexivity|]. split; [|split; [intros c; reflexivity|]].
    - intros Hne. apply Lt. intros E. apply Hne. rewrite E in P. apply Permutation_nil. symmetry. exact P.
    - destruct Ec as [->|(_ & e & ->)]; [exact Hc|right; eauto].
  Qed.

  Lemma FI_step s g a s' o :
    R s -> FI s g ->
    (forall p, a = FPut p -> gst g = false /\ wconf cfg p /\ (psize p <= Lmax)%Z) ->
    wfq_act cfg s a = Ok (s', o) -> FI s' (gstep g a s').
  Proof.
    intros HR HF Hput A.
    destruct (wreach_inv cfg rp wp s HR) as ((N & I0 & I1 & _) & _).
    pose proof HF as (_ & _ & F1 & _).
    destruct a.
    - (* FPut *) destruct (Hput p eq_refl) as (Gs & Hc & Hs). exact (FI_put s g p s' o HR HF Gs Hc Hs A).
    - (* FInit *) unfold wfq_act in A. act_inv A. cbn [gstep].
      destruct (I0 eq_refl) as (G0 & C0).
      match goal with E : sq_get _ _ = Some ?q |- _ => rename E into G; set (q' := q) in * end.
      match goal with |- FI ?x _ => set (sN := x) end.
      assert (Es : sel s = []) by (unfold sel; rewrite C0, G0; reflexivity).
      apply pq_get_inv in G as (_ & _ & [(E1 & E2 & G')|(x & Hs)]).
      + apply (FI_same s sN g HF); [rewrite Es; unfold sel, sN; cbn [chl store]; rewrite C0, G'; reflexivity|cbn [store sN]; congruence|reflexivity| |intros e dl Ec; exact Ec].
        apply (phaseA_same_stm s sN g HF eq_refl eq_refl (or_introl eq_refl)).
        unfold Ul. replace (sel sN) with (sel s) by (unfold sel, sN; cbn [chl store]; rewrite C0, G', G0; reflexivity).
        cbn [store sN]. rewrite E1, E2. apply Permutation_refl.
      + destruct (selects_strict S wst0 (wconf cfg) (wcls cfg) D s q' x (wreach_inv cfg rp wp s HR) Hs) as (l1 & l2 & E1 & E2 & G' & SL).
        apply (FI_select s sN g x l1 l2 HR HF Es); [unfold sel, sN; cbn [chl store]; rewrite C0, G'; reflexivity|exact E1|exact E2|exact SL|reflexivity| |intros e dl Ec; exact Ec].
        apply (phaseA_same_stm s sN g HF eq_refl eq_refl (or_introl eq_refl)).
        unfold Ul. rewrite Es. replace (sel sN) with [x] by (unfold sel, sN; cbn [chl store]; rewrite C0, G'; reflexivity).
        cbn [store sN app]. rewrite E1, E2. apply Permutation_middle.
    - (* FStoreCb *) unfold wfq_act in A. act_inv A. cbn [gstep].
      match goal with E : sq_cb _ _ = Some ?q |- _ => rename E into G; set (q' := q) in * end.
      match goal with |- FI ?x _ => set (sN := x) end.
      apply pq_cb_inv in G as (_ & [(Gw & x & Hs)|(_ & E1 & G')]).
      + assert (C0 : chl s = CNone).
        { destruct (started s) eqn:St.
          - destruct (chl s) eqn:Ec; [reflexivity| | |]; exfalso;
              (assert (Gn : get (store s) = GNone) by (apply (I1 eq_refl); discriminate); congruence).
          - destruct (I0 eq_refl) as (Gn & _). congruence. }
        assert (Es : sel s = []) by (unfold sel; rewrite C0, Gw; reflexivity).
        destruct (selects_strict S wst0 (wconf cfg) (wcls cfg) D s q' x (wreach_inv cfg rp wp s HR) Hs) as (l1 & l2 & E1 & E2 & G' & SL).
        apply (FI_select s sN g x l1 l2 HR HF Es); [unfold sel, sN; cbn [chl store with_store]; rewrite C0, G'; reflexivity|exact E1|exact E2|exact SL|reflexivity| |intros e dl Ec; exact Ec].
        apply (phaseA_same_stm s sN g HF eq_refl eq_refl (or_introl eq_refl)).
        unfold Ul. rewrite Es. replace (sel sN) with [x] by (unfold sel, sN; cbn [chl store with_store]; rewrite C0, G'; reflexivity).
        cbn [store sN with_store app]. rewrite E1, E2. apply Permutation_middle.
      + assert (Esel : sel sN = sel s) by (unfold sel, sN; cbn [chl store with_store]; rewrite G'; reflexivity).
        apply (FI_same s sN g HF Esel E1 eq_refl); [|intros e dl Ec; exact Ec].
        apply (phaseA_same_stm s sN g HF eq_refl eq_refl (or_introl eq_refl)).
        unfold Ul. rewrite Esel. cbn [store sN with_store]. rewrite E1. apply Permutation_refl.
    - (* FGetDone *) unfold wfq_act in A. act_inv A. cbn [gstep].
      match goal with E : sq_take _ = Some _ |- _ => apply sq_take_inv in E as (Gg & Ei & _ & Gn) end.
      match goal with |- FI ?x _ => set (sN := x) end.
      match goal with E : chl s = CNone |- _ => rename E into C0 end.
      assert (Esel : sel sN = sel s) by (unfold sel, sN; cbn [chl store with_store with_child]; rewrite C0, Gg, Gn; reflexivity).
      apply (FI_same s sN g HF Esel Ei eq_refl); [|intros e dl Ec; discriminate Ec].
      apply (phaseA_same_stm s sN g HF eq_refl eq_refl); [right; split; [exact C0|eexists; reflexivity]|].
      unfold Ul. rewrite Esel. cbn [store sN with_store with_child]. rewrite Ei. apply Permutation_refl.
    - (* FChildInit *) exact (FI_start s g s' o HR HF A).
    - (* FChildTimer *) unfold wfq_act in A. act_inv A. cbn [gstep].
      match goal with |- FI ?x _ => set (sN := x) end.
      match goal with E : chl s = CTx _ _ |- _ => rename E into C0 end.
      assert (Esel : sel sN = sel s) by (unfold sel, sN; cbn [chl store]; rewrite C0; reflexivity).
      apply (FI_same s sN g HF Esel eq_refl eq_refl); [|intros e0 dl0 Ec; discriminate Ec].
      intros Gs. exfalso. destruct (F1 Gs) as (_ & _ & _ & _ & [C|(e0 & C)]); congruence.
    - (* FChildEnd *) unfold wfq_act in A. act_inv A. cbn [gstep].
      match goal with E : sq_get _ _ = Some ?q |- _ => rename E into G; set (q' := q) in * end.
      match goal with |- FI ?x _ => set (sN := x) end.
      match goal with E : chl s = CEnded _ |- _ => rename E into C0 end.
      assert (HA : gst g = false -> phaseA_ok s sN).
      { intros Gs. exfalso. destruct (F1 Gs) as (_ & _ & _ & _ & [C|(e0 & C)]); congruence. }
      assert (G0 : get (store s) = GNone).
      { destruct (started s) eqn:St; [apply (I1 eq_refl); discriminate|destruct (I0 eq_refl) as (_ & C); discriminate C]. }
      assert (Es : sel s = []) by (unfold sel; rewrite C0, G0; reflexivity).
      apply pq_get_inv in G as (_ & _ & [(E1 & E2 & G')|(x & Hs)]).
      + apply (FI_same s sN g HF); [rewrite Es; unfold sel, sN; cbn [chl store]; rewrite G'; reflexivity|cbn [store sN]; congruence|reflexivity|exact HA|intros e0 dl Ec; discriminate Ec].
      + destruct (selects_strict S wst0 (wconf cfg) (wcls cfg) D s q' x (wreach_inv cfg rp wp s HR) Hs) as (l1 & l2 & E1 & E2 & G' & SL).
        apply (FI_select s sN g x l1 l2 HR HF Es); [unfold sel, sN; cbn [chl store]; rewrite G'; reflexivity|exact E1|exact E2|exact SL|reflexivity|exact HA|intros e0 dl Ec; discriminate Ec].
    - (* FAdvance *) unfold wfq_act in A.
      assert (U : urgent s = false) by (unfold act in A; destruct (urgent s); [discriminate A|reflexivity]).
      assert (Hs1 : sel s' = sel s /\ items (store s') = items (store s) /\ seq s' = seq s /\ stm s' = stm s /\ chl s' = chl s).
      { act_inv A; unfold sel; cbn [chl store seq stm]; match goal with E : chl s = _ |- _ => rewrite E end; auto. }
      destruct Hs1 as (Esel & Ei & Eq & Est & Ec). cbn [gstep].
      apply (FI_same s s' g HF Esel Ei Eq); [|intros e dl E; rewrite <- Ec; exact E].
      intros Gs. destruct (F1 Gs) as (_ & V0 & _ & Fin & Hc).
      unfold phaseA_ok. rewrite Est, Ec. split; [reflexivity|]. split; [|split; [intros c; reflexivity|exact Hc]].
      intros Hne. exfalso. apply Hne. unfold Ul. rewrite Esel, Ei.
      (* nothing urgent and no transmission yet: nothing is held *)
      unfold urgent in U. apply orb_false_iff in U as (U & _). apply orb_false_iff in U as (U & Uc).
      apply orb_false_iff in U as (Us & Uq). apply negb_false_iff in Us.
      unfold child_urgent in Uc. destruct Hc as [C0|(e0 & C0)]; [|rewrite C0 in Uc; discriminate].
      pose proof Uq as Uq'. apply sq_urgent_false in Uq' as (_ & NG).
      assert (W : get (store s) = GWaiting).
      { destruct (get (store s)) as [| |y] eqn:G; [exfalso; apply (proj1 (I1 Us)); [exact C0|reflexivity]|reflexivity|exfalso; apply (NG y); reflexivity]. }
      unfold sel. rewrite C0, W. cbn [app]. apply (sq_waiting_quiet_empty _ _ Uq N W).
  Qed.

  (* ---- along a run ---- *)
  Fixpoint grun (g : ghost) (tr : list (tev S)) : ghost :=
    match tr with
    | [] => g
    | (a, _, s1) :: t => grun (gstep g a s1) t
    end.

  (* no put after a transmission start: b = "a transmission has started" *)
  Fixpoint static_from (b : bool) (acts : list faction) : Prop :=
    match acts with
    | [] => True
    | FPut _ :: t => b = false /\ static_from b t
    | FChildInit :: t => static_from true t
    | _ :: t => static_from b t
    end.

  (* bytes of class c whose transmission started along the trace *)
  Fixpoint started_bytes (c : Z) (tr : list (tev S)) : Z :=
    match tr with
    | [] => 0%Z
    | (FChildInit, _, s1) :: t =>
        ((match chl s1 with CTx e _ => if Z.eqb (ecls e) c then esize e else 0 | _ => 0 end) + started_bytes c t)%Z
    | _ :: t => started_bytes c t
    end.

  Lemma grun_W g tr c : gW (grun g tr) c = (gW g c + started_bytes c tr)%Z.
  Proof.
    revert g. induction tr as [|[[a o] s1] t IH]; intros g; cbn [grun started_bytes]; [lia|].
    rewrite IH. destruct a; cbn [gstep]; try lia.
    destruct (chl s1) as [| |e dl|]; cbn [gW]; try lia. unfold fupd.
    destruct (Z.eqb_spec c (ecls e)) as [->|Nc]; [rewrite Z.eqb_refl; lia|].
    destruct (Z.eqb_spec (ecls e) c); [congruence|lia].
  Qed.

  Lemma FI_init : FI (wfq0 cfg) g0.
  Proof.
    unfold FI, wfq0, srv0, Ul, sel, g0; cbn.
    split; [intros u []|]. split; [intros c; lia|]. split.
    - intros _. split; [reflexivity|]. split; [reflexivity|]. split; [intros C; contradiction|].
      split; [intros c; rewrite nrm_0; reflexivity|left; reflexivity].
    - split; [intros u []|]. split; [intros c u []|]. split; [discriminate|]. split; [intros x y []|].
      split; [constructor|intros u []].
  Qed.

  Theorem FI_run acts : forall s g s' tr,
    R s -> FI s g -> wadm cfg acts -> (forall p, In (FPut p) acts -> (psize p <= Lmax)%Z) ->
    static_from (gst g) acts -> wfq_run cfg s acts = Some (s', tr) -> FI s' (grun g tr).
  Proof.
    induction acts as [|a rest IH]; intros s g s' tr HR HF C Hs St H.
    - cbn in H. injection H as <- <-. exact HF.
    - unfold wfq_run in H. apply run_cons in H as (s1 & o & tr' & A & H & ->).
      apply puts_conf_cons in C as (Ca & Cr). cbn [grun].
      assert (R1 : R s1) by (eapply reachS; eauto).
      assert (F1 : FI s1 (gstep g a s1)).
      { apply (FI_step s g a s1 o HR HF); [|exact A].
        intros p ->. cbn [static_from] in St. destruct St as (Gs & _). split; [exact Gs|]. split; [apply Ca; reflexivity|].
        apply Hs. left. reflexivity. }
      apply (IH s1 (gstep g a s1) s' tr' R1 F1 Cr); [intros p Hp; apply Hs; right; exact Hp| |exact H].
      destruct a; cbn [static_from gstep] in St |- *; try exact St.
      + apply St.
      + unfold wfq_act, act in A. destruct (chl s) as [|x|x dl|x]; try discriminate A.
        apply Ok_inj in A as [-> _]. cbn [chl with_child gst]. exact St.
  Qed.

  Lemma nrm_K c x : nrm c x == K * (inject_Z x / inject_Z (wof c)).
  Proof.
    unfold nrm. pose proof (wof_pos c). assert (N : ~ inject_Z (wof c) == 0) by (unfold Qeq; cbn; lia). field. exact N.
  Qed.

  (* C14: with a static backlog, any two classes that still hold a packet have received, normalised by weight,
     service that differs by at most one maximum-size packet each *)
  Theorem wfq_static_fairness_thm acts s' tr i j wi wj :
    wadm cfg acts -> (forall p, In (FPut p) acts -> (psize p <= Lmax)%Z) -> static_from false acts ->
    wfq_run cfg (wfq0 cfg) acts = Some (s', tr) ->
    zlookup i (wweights cfg) = Some wi -> zlookup j (wweights cfg) = Some wj ->
    holds i s' -> holds j s' ->
    Qabs (inject_Z (started_bytes i tr) / inject_Z wi - inject_Z (started_bytes j tr) / inject_Z wj)
      <= inject_Z Lmax / inject_Z wi + inject_Z Lmax / inject_Z wj.
  Proof.
    intros C Hs St H Ei Ej Hi Hj.
    pose proof (FI_run acts (wfq0 cfg) g0 s' tr (reach0 _ _ _ _) FI_init C Hs St H) as HF.
    pose proof (fair_from_FI s' (grun g0 tr) i j HF Hi Hj) as B.
    rewrite !grun_W in B. cbn [gW g0] in B. rewrite !Z.add_0_l in B.
    assert (Wi : wof i = wi) by (unfold wof; rewrite Ei; reflexivity).
    assert (Wj : wof j = wj) by (unfold wof; rewrite Ej; reflexivity).
    rewrite !nrm_K, Wi, Wj in B.
    set (a := inject_Z (started_bytes i tr) / inject_Z wi) in *.
    set (b := inject_Z (started_bytes j tr) / inject_Z wj) in *.
    set (c := inject_Z Lmax / inject_Z wi) in *. set (d := inject_Z Lmax / inject_Z wj) in *.
    pose proof K_pos as Kp.
    assert (E : K * a - K * b == K * (a - b)) by ring. rewrite E in B.
    rewrite Qabs_Qmult, (Qabs_pos K) in B by lra.
    assert (E2 : K * c + K * d == K * (c + d)) by ring. rewrite E2 in B.
    apply (Qmult_le_l _ _ K Kp). exact B.
  Qed.
End Fair.

(* non-vacuity: the run of WFQInst.wfq_example stopped right after the first transmission start: class 1 is in
   transmission (96 bytes started), class 0 still waits with two packets, all puts came before that start *)
Definition ex_fair_acts : list faction := firstn 9 ex_wacts.

Example wfq_fair_example :
  static_from false ex_fair_acts /\ wadm ex_wcfg ex_fair_acts /\
  exists s' tr, wfq_run ex_wcfg (wfq0 ex_wcfg) ex_fair_acts = Some (s', tr) /\
                holds ex_wcfg 0%Z s' /\ holds ex_wcfg 1%Z s' /\
                started_bytes ex_wcfg 1%Z tr = 96%Z /\ started_bytes ex_wcfg 0%Z tr = 0%Z.
Proof.
  split; [cbn; auto 10|]. split.
  - intros p Hp. apply ex_wadm. unfold ex_fair_acts in Hp. rewrite <- (firstn_skipn 9 ex_wacts). apply in_or_app. left. exact Hp.
  - vm_compute. eexists _, _. split; [reflexivity|]. split; [|split; [|split; reflexivity]].
    + exists ex_p0. split; [right; left; reflexivity|reflexivity].
    + exists ex_p1. split; [left; reflexivity|reflexivity].
Qed.
