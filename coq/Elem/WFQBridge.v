(* Bridging lemmas (DESIGN 2.6, second tie) for WFQ.put / update_vtime / reset_vtime: the bodies as translated from the
   tree under test on every run (Gen/Extracted_wfq.v) are [wfq_put], [update_vtime] and the reset of the hand-written
   model (Elem/WFQ.v), and the FPut step of the stamped-priority server (Elem/WFQServer.v), which the C14 theorems are
   about.  The model keeps its rationals Qred-normalised, so states are compared as rationals ([wst_agrees]); the
   item pushed into the store is compared exactly (its stamp is normalised on both sides).
   Meaning of the two whitelisted loops: reset_vtime's loop makes every finish time 0 ([reset_finish_model]);
   update_vtime's loop adds the weights of the active classes ([active_weight_model]).
   Hypotheses (outside the tie): the packet's class has a weight (no KeyError); when the active set is not empty its
   weights sum to a non-zero number (no ZeroDivisionError). *)
From Coq Require Import ZArith QArith Qminmax Qreduction List Bool Lia Lqa.
From ONL Require Import Elem.Packet Elem.StoreQ Elem.HeapList Elem.WFQServer Elem.WFQ Gen.Extracted_wfq.
Import ListNotations.

Definition wfq_fields (s : wst) (arr : Z) : wfq_st :=
  {| w_vtime := vtime s; w_last_time := last_time s; w_arrivals := arr; w_finish_times := fin s;
     w_class_count := ccount s |}.

Definition reset_finish_model : (Z -> Q) -> (Z -> Q) := fun _ _ => 0.
Definition active_weight_model (cfg : wcfg) (s : wst) : Q :=
  match weight_sum (wweights cfg) (active s) with Some w => inject_Z w | None => 0 end.

Definition wst_agrees (s' : wst) (g : wfq_st) : Prop :=
  vtime s' == w_vtime g /\ last_time s' = w_last_time g /\
  (forall k, fin s' k == w_finish_times g k) /\ (forall k, ccount s' k = w_class_count g k).

Definition wfq_gen_put (cfg : wcfg) (now : Q) (s : wst) (arr : Z) (p : pkt) (w : Z) :=
  gen_WFQ_put (wfq_fields s arr) (wf2c cfg (flow p)) now (Z.of_nat (length (active s))) (psize p) (wrate cfg) w
              reset_finish_model (active_weight_model cfg s).
Definition wfq_gen_update_vtime (cfg : wcfg) (now : Q) (s : wst) (arr : Z) :=
  gen_WFQ_update_vtime (wfq_fields s arr) now (active_weight_model cfg s).
Definition wfq_gen_reset_vtime (s : wst) (arr : Z) := gen_WFQ_reset_vtime (wfq_fields s arr) reset_finish_model.

Lemma Qmax_eq_r a b b' : b == b' -> Qmax a b == Qmax a b'.
Proof.
  intros H. destruct (Q.max_spec a b) as [[L E]|[L E]], (Q.max_spec a b') as [[L' E']|[L' E']];
    rewrite E, E'; lra.
Qed.

(* update_vtime *)
Lemma bridge_wfq_update_vtime cfg now s arr ws :
  weight_sum (wweights cfg) (active s) = Some ws -> ws <> 0%Z ->
  let g := wfq_gen_update_vtime cfg now s arr in
  exists v, update_vtime cfg now s = Some v /\ v == w_vtime (fst g) /\
            snd g = [] /\ w_last_time (fst g) = last_time s /\ w_finish_times (fst g) = fin s.
Proof.
  intros Hw Hz. unfold wfq_gen_update_vtime, gen_WFQ_update_vtime, update_vtime, active_weight_model, wfq_fields.
  rewrite Hw. destruct (Z.eqb_spec ws 0) as [E|E]; [contradiction|].
  eexists; split; [reflexivity|]. cbn -[Qred]. repeat split; try reflexivity.
  rewrite Qred_correct. rewrite Qplus_0_l. reflexivity.
Qed.

(* reset_vtime *)
Lemma bridge_wfq_reset_vtime s arr :
  let g := wfq_gen_reset_vtime s arr in
  w_vtime (fst g) == 0 /\ (forall k, w_finish_times (fst g) k == 0) /\ snd g = [] /\ w_last_time (fst g) = last_time s.
Proof. cbn. repeat split; reflexivity. Qed.

(* put: the stamping discipline *)
Lemma bridge_wfq_put cfg now s arr p w :
  wfix_first cfg = true ->
  zlookup (wf2c cfg (flow p)) (wweights cfg) = Some w ->
  (active s <> [] -> exists ws, weight_sum (wweights cfg) (active s) = Some ws /\ ws <> 0%Z) ->
  let c := wf2c cfg (flow p) in
  let g := wfq_gen_put cfg now s arr p w in
  exists s' F, wfq_put cfg now s p = Some (s', F) /\ wst_agrees s' (fst g) /\
               active s' = zadd c (active s) /\ w_arrivals (fst g) = (arr + 1)%Z /\
               F == w_finish_times (fst g) c /\
               snd g = [FxAddToQueue; FxActiveAdd c; FxStorePut (w_finish_times (fst g) c) now (arr + 1)].
Proof.
  intros Hfix Hw Hact c g. subst g. unfold wfq_gen_put, gen_WFQ_put, wfq_put, wst_agrees, wfq_fields.
  rewrite Hw, Hfix. fold c. cbn [andb negb].
  destruct (active s) as [|a l] eqn:EA.
  - (* the scheduler is empty: reset *)
    cbn -[Qred Qmax]. do 2 eexists; split; [reflexivity|]. cbn -[Qred Qmax].
    unfold reset_finish_model, qupd, gen_upd, wstamp_inc.
    repeat split; try reflexivity.
    + intros k. destruct (Z.eqb k c); [rewrite Qred_correct|]; reflexivity.
    + rewrite Z.eqb_refl, Qred_correct. reflexivity.
  - (* busy: update_vtime *)
    destruct (Hact ltac:(discriminate)) as (ws & Hws & Hz).
    unfold update_vtime, active_weight_model. rewrite EA, Hws.
    destruct (Z.eqb_spec ws 0) as [E|E]; [contradiction|].
    assert (HV : Qred (vtime s + (now - last_time s) / inject_Z ws) ==
                 vtime s + (now - last_time s) / (0 + inject_Z ws)).
    { rewrite Qred_correct, Qplus_0_l. reflexivity. }
    cbn -[Qred Qmax Z.of_nat]. do 2 eexists; split; [reflexivity|].
    replace (Z.of_nat (length (a :: l)) =? 0)%Z with false by (cbn; reflexivity).
    cbn -[Qred Qmax]. unfold qupd, gen_upd, wstamp_inc.
    repeat split; try reflexivity; try exact HV.
    + intros k. destruct (Z.eqb k c); [|reflexivity].
      rewrite Qred_correct. rewrite (Qmax_eq_r _ _ _ HV). reflexivity.
    + rewrite Z.eqb_refl, Qred_correct. rewrite (Qmax_eq_r _ _ _ HV). reflexivity.
Qed.

(* put at the level of the server: the FPut step pushes exactly the item the FxStorePut effect describes, keyed
   (stamp, now, arrivals), and does the base-class bookkeeping once *)
Lemma bridge_wfq_act_put cfg (sv : wfq cfg) p w :
  wfix_first cfg = true ->
  zlookup (wf2c cfg (flow p)) (wweights cfg) = Some w ->
  (active (stm sv) <> [] -> exists ws, weight_sum (wweights cfg) (active (stm sv)) = Some ws /\ ws <> 0%Z) ->
  let g := wfq_gen_put cfg (now sv) (stm sv) (Z.of_nat (seq sv)) p w in
  exists sv' stamp,
    wfq_act cfg sv (FPut p) = Ok (sv', []) /\
    snd g = [FxAddToQueue; FxActiveAdd (wf2c cfg (flow p)); FxStorePut stamp (now sv) (Z.of_nat (seq sv' ))] /\
    store sv' = sq_put pq_push (now sv) {| istamp := Qred stamp; iseq := seq sv'; ipkt := p |} (store sv) /\
    wst_agrees (stm sv') (fst g) /\
    nrecv sv' = (nrecv sv + 1)%Z /\ qcount sv' (flow p) = (qcount sv (flow p) + 1)%Z /\
    qbytes sv' (flow p) = (qbytes sv (flow p) + psize p)%Z.
Proof.
  intros Hfix Hw Hact g.
  destruct (bridge_wfq_put cfg (now sv) (stm sv) (Z.of_nat (seq sv)) p w Hfix Hw Hact)
    as (s' & F & HP & HA & _ & _ & HF & HFX).
  fold g in HA, HF, HFX.
  unfold wfq_act, act. cbn [st_put wfq_stamper]. rewrite HP.
  do 2 eexists. split; [reflexivity|]. cbn [seq store stm nrecv qcount qbytes].
  split; [rewrite HFX; rewrite Nat2Z.inj_succ; unfold Z.succ; reflexivity|].
  split; [rewrite (Qred_complete _ _ HF); reflexivity|].
  split; [exact HA|]. unfold fupd. rewrite Z.eqb_refl. repeat split; reflexivity.
Qed.
