(* The TokenBucket (Elem/Bucket.v) as an interface element (Elem/Iface.v).  The adapter's labels are the bucket's own
   actions; its executions are exactly the executions of tb_run, so the theorems of BucketProofs.v transfer.  A token bucket
   has no drop rule: it never emits EDrop.  OHead / ODebit are ghost outputs of the model and have no counterpart. *)
From Coq Require Import ZArith QArith List Bool Permutation Lia.
From ONL Require Import Elem.Packet Elem.StoreQ Elem.Bucket Elem.BucketProofs Elem.Iface.
Import ListNotations.

Definition tout_e (o : tout) : list eout := match o with OForward p => [EForward p] | _ => [] end.
Definition tb_internal (a : taction) : bool := match a with TPut _ | TAdvance _ => false | _ => true end.
Definition tlift (r : option (tb * list tout)) : option (tb * list eout) :=
  match r with Some (s', o) => Some (s', flat_map tout_e o) | None => None end.

Definition tb_elem (c : tbcfg) (t0 : Q) : elem := {|
  st := tb;
  lab := taction;
  init := tb0 true c t0;
  now := tnow;
  put := fun p s => tlift (tb_act c s (TPut p));
  step := fun a s => if tb_internal a then tlift (tb_act c s a) else None;
  advance := fun t s => match tb_act c s (TAdvance t) with Some (s', _) => Some s' | None => None end;
  urgent := tb_urgent;
  deadline := fun s => match phase s with PIdle => None | PTok _ dl => Some dl | PPeak _ dl => Some dl end;
  held := tb_held;
  accepts := fun p => Z.leb 0 (psize p);      (* a negative size makes the kernel reject the spacing timeout *)
  width := 1
|}.

Definition t_to (a : iact taction) : taction := match a with IPut p => TPut p | IStep l => l | IAdv t => TAdvance t end.
Definition t_of (a : taction) : iact taction := match a with TPut p => IPut p | TAdvance t => IAdv t | _ => IStep a end.
Definition t_ev (e : Bucket.tev) : Q * iact taction * list eout := (fst (fst e), t_of (snd (fst e)), flat_map tout_e (snd e)).

Lemma tb_adv_outs c s t s' o : tb_act c s (TAdvance t) = Some (s', o) -> o = [].
Proof.
  cbn [tb_act]. destruct (tb_urgent s); [discriminate|]. destruct (Qlt_le_dec (tnow s) t); [|discriminate].
  destruct (phase s) as [|p dl|p dl]; [|destruct (Qle_bool t dl); [|discriminate]|destruct (Qle_bool t dl); [|discriminate]];
    intros H; injection H as _ <-; reflexivity.
Qed.

Lemma tb_elem_act_of c t0 s a : act (tb_elem c t0) s (t_of a) = tlift (tb_act c s a).
Proof.
  destruct a; try reflexivity. cbn [t_of act tb_elem advance tlift].
  destruct (tb_act c s (TAdvance t)) as [[s' o]|] eqn:E; [|reflexivity].
  rewrite (tb_adv_outs _ _ _ _ _ E). reflexivity.
Qed.

Lemma tb_elem_act_to c t0 s a s' o :
  act (tb_elem c t0) s a = Some (s', o) -> t_of (t_to a) = a /\ tlift (tb_act c s (t_to a)) = Some (s', o).
Proof.
  destruct a as [p|l|t]; cbn [act tb_elem put step advance t_to].
  - intros H. split; [reflexivity|exact H].
  - destruct (tb_internal l) eqn:El; [|discriminate]. intros H. split; [|exact H]. destruct l; try reflexivity; discriminate.
  - destruct (tb_act c s (TAdvance t)) as [[s1 o1]|] eqn:E; [|discriminate].
    intros H. injection H as <- <-. split; [reflexivity|]. cbn [tlift]. rewrite (tb_adv_outs _ _ _ _ _ E). reflexivity.
Qed.

(* every execution of the model is an execution of the adapter ... *)
Theorem tb_run_elem c t0 : forall acts s s' tr,
  tb_run c s acts = Some (s', tr) -> run (tb_elem c t0) s (map t_of acts) = Some (s', map t_ev tr).
Proof.
  induction acts as [|a acts IH]; intros s s' tr H; cbn [tb_run] in H.
  - injection H as <- <-. reflexivity.
  - destruct (tb_act c s a) as [[s1 o]|] eqn:Ea; [|discriminate].
    destruct (tb_run c s1 acts) as [[s2 tr1]|] eqn:Er; [|discriminate]. injection H as <- <-.
    cbn [map run]. rewrite tb_elem_act_of, Ea. cbn [tlift]. rewrite (IH _ _ _ Er). reflexivity.
Qed.

(* ... and conversely: the adapter has no other executions *)
Theorem tb_elem_run c t0 : forall acts s s' tr,
  run (tb_elem c t0) s acts = Some (s', tr) ->
  exists tr0, tb_run c s (map t_to acts) = Some (s', tr0) /\ tr = map t_ev tr0 /\ map t_of (map t_to acts) = acts.
Proof.
  induction acts as [|a acts IH]; intros s s' tr H; cbn [run] in H.
  - injection H as <- <-. exists []. auto.
  - destruct (act (tb_elem c t0) s a) as [[s1 o]|] eqn:Ea; [|discriminate].
    destruct (run (tb_elem c t0) s1 acts) as [[s2 tr1]|] eqn:Er; [|discriminate]. injection H as <- <-.
    destruct (tb_elem_act_to _ _ _ _ _ _ Ea) as [Hn Hl]. destruct (IH _ _ _ Er) as (tr0 & R0 & -> & Hm).
    unfold tlift in Hl. destruct (tb_act c s (t_to a)) as [[s1' o']|] eqn:E0; [|discriminate]. injection Hl as -> <-.
    exists ((tnow s1, t_to a, o') :: tr0). cbn [map tb_run]. rewrite E0, R0. repeat split.
    + unfold t_ev at 2. cbn [fst snd]. rewrite Hn. reflexivity.
    + rewrite Hn, Hm. reflexivity.
Qed.

(* what the interface trace functions are on a model trace *)
Lemma tb_puts tr : Iface.puts (map t_ev tr) = map snd (BucketProofs.puts tr).
Proof.
  induction tr as [|[[t a] o] tr IH]; [reflexivity|]. cbn [map]. unfold t_ev at 1. cbn [fst snd]. rewrite puts_cons, IH.
  unfold BucketProofs.puts. cbn [flat_map]. rewrite map_app. destruct a; reflexivity.
Qed.
Lemma tb_o_fwds o : o_fwds (flat_map tout_e o) = flat_map is_fwd o.
Proof. induction o as [|x o IH]; [reflexivity|]. cbn [flat_map]. rewrite o_fwds_app, IH. destruct x; reflexivity. Qed.
Lemma tb_o_drops o : o_drops (flat_map tout_e o) = [].
Proof. induction o as [|x o IH]; [reflexivity|]. cbn [flat_map]. rewrite o_drops_app, IH. destruct x; reflexivity. Qed.
Lemma tb_fwds tr : Iface.fwds (map t_ev tr) = map snd (BucketProofs.fwds tr).
Proof.
  induction tr as [|[[t a] o] tr IH]; [reflexivity|]. cbn [map]. unfold t_ev at 1. cbn [fst snd]. rewrite fwds_cons, IH.
  unfold BucketProofs.fwds. cbn [flat_map ev_outs]. rewrite map_app, map_map. cbn [snd]. rewrite map_id.
  rewrite tb_o_fwds. reflexivity.
Qed.
Lemma tb_drops tr : drops (map t_ev tr) = [].
Proof.
  induction tr as [|[[t a] o] tr IH]; [reflexivity|]. cbn [map]. unfold t_ev at 1. cbn [fst snd]. rewrite drops_cons, IH.
  rewrite tb_o_drops. reflexivity.
Qed.

Lemma tb_quiet c s : tb_urgent s = false -> phase s = PIdle ->
  forall a, (forall p, a <> TPut p) -> (forall t, a <> TAdvance t) -> tb_act c s a = None.
Proof.
  unfold tb_urgent. intros U Hh a Np Nt. apply orb_false_elim in U as [U _]. apply orb_false_elim in U as [Us Uq].
  apply negb_false_iff in Us. unfold sq_urgent in Uq. apply orb_false_elim in Uq as [Up Ug].
  apply negb_false_iff, Nat.eqb_eq in Up.
  destruct a as [p| | | | |t]; cbn [tb_act].
  - exfalso. eapply Np. reflexivity.
  - rewrite Us. reflexivity.
  - unfold sq_cb. rewrite Up. reflexivity.
  - rewrite Hh. unfold sq_take. destruct (get (tq s)); try reflexivity; discriminate.
  - rewrite Hh. reflexivity.
  - exfalso. eapply Nt. reflexivity.
Qed.

(* ---- the laws (for a configuration the element is specified for: rate > 0, peak > 0 when set) --------------- *)
Definition tb_ok (c : tbcfg) : Prop := 0 < rate c /\ forall k, peak_on c = Some k -> 0 < k.

Theorem tb_elem_conserves c t0 : 0 < rate c -> conserves (tb_elem c t0).
Proof.
  intros R acts s tr H. destruct (tb_elem_run _ _ _ _ _ _ H) as (tr0 & R0 & -> & _).
  rewrite tb_puts, tb_fwds, tb_drops. cbn [app]. rewrite (tb_conserves _ _ _ _ _ R R0). apply Permutation_refl.
Qed.

Theorem tb_elem_flow_fifo c t0 f : 0 < rate c -> flow_fifo (tb_elem c t0) f.
Proof.
  intros R acts s tr H. destruct (tb_elem_run _ _ _ _ _ _ H) as (tr0 & R0 & -> & _).
  rewrite tb_puts, tb_fwds. destruct (tb_flow_fifo _ _ _ _ _ R R0 f) as [rest E].
  unfold of_flow in E. unfold on_flow. rewrite E. apply sublist_app_r.
Qed.

Theorem tb_elem_drained c t0 : tb_ok c -> drained (tb_elem c t0).
Proof.
  intros [R K] acts s tr H Acc U Dl. destruct (tb_elem_run _ _ _ _ _ _ H) as (tr0 & R0 & -> & _).
  cbn [urgent deadline tb_elem] in U, Dl.
  assert (Hh : phase s = PIdle) by (destruct (phase s); [reflexivity|discriminate|discriminate]).
  refine (proj1 (tb_drained _ _ _ _ _ R R0 K _ Hh (tb_quiet _ _ U Hh))).
  rewrite tb_puts in Acc. clear - Acc. induction (BucketProofs.puts tr0) as [|x l IH]; [constructor|].
  cbn [map] in Acc. inversion Acc; subst. constructor; [|auto].
  cbn [accepts tb_elem] in H1. apply Z.leb_le in H1. unfold sz. change 0 with (inject_Z 0). rewrite <- Zle_Qle. exact H1.
Qed.

Theorem tb_elem_laws c t0 : tb_ok c -> laws (tb_elem c t0).
Proof.
  intros K. pose proof K as [R _].
  split; [apply tb_elem_conserves; exact R|intros f; apply tb_elem_flow_fifo; exact R|apply tb_elem_drained; exact K].
Qed.

Ltac crush H := repeat match type of H with
  | context [match ?x with _ => _ end] =>
      lazymatch x with
      | context [match _ with _ => _ end] => fail
      | _ => destruct x eqn:?; try discriminate
      end
  end.

Lemma tb_act_now c s a s' o : tb_act c s a = Some (s', o) -> (forall t, a <> TAdvance t) -> tnow s' = tnow s.
Proof.
  intros H Nt. destruct a as [p| | | | |t]; cbn [tb_act] in H; unfold tb_after_debit, tb_forward in H;
    try (crush H; injection H as <- _; reflexivity).
  exfalso. eapply Nt. reflexivity.
Qed.

Theorem tb_elem_timed c t0 : timed (tb_elem c t0).
Proof.
  repeat split.
  - intros p s s' o H. cbn [put tb_elem] in H. unfold tlift in H.
    destruct (tb_act c s (TPut p)) as [[w' o']|] eqn:E; [|discriminate]. injection H as <- _.
    apply (tb_act_now _ _ _ _ _ E). discriminate.
  - intros l s s' o H. cbn [step tb_elem] in H. destruct (tb_internal l) eqn:El; [|discriminate]. unfold tlift in H.
    destruct (tb_act c s l) as [[w' o']|] eqn:E; [|discriminate]. injection H as <- _.
    apply (tb_act_now _ _ _ _ _ E). intros t ->. discriminate.
  - cbn [advance tb_elem tb_act] in H. crush H; injection H as <-; reflexivity.
  - cbn [advance tb_elem tb_act] in H. destruct (tb_urgent s); [discriminate|]. destruct (Qlt_le_dec (tnow s) t); [|discriminate]. assumption.
  - cbn [advance tb_elem tb_act] in H. cbn [urgent tb_elem]. destruct (tb_urgent s); [discriminate|reflexivity].
  - cbn [advance tb_elem tb_act] in H. cbn [deadline tb_elem]. destruct (tb_urgent s); [discriminate|].
    destruct (Qlt_le_dec (tnow s) t); [|discriminate]. intros d Hd.
    destruct (phase s) as [|p dl|p dl]; [discriminate| |]; injection Hd as <-;
      (destruct (Qle_bool t dl) eqn:El; [|discriminate]); apply Qle_bool_iff; exact El.
Qed.
