(* Proofs about Elem/WFQ.v (the WFQ stamping discipline):
   - [wfq_disc]: WFQ satisfies the interface of WFQServerProofs.disc (class counters = packets in the system,
     active set = classes with a positive counter, no KeyError / ZeroDivisionError, stamps never decrease
     within a class during a busy period),
   - wfq_stamp, wfq_vtime (C14), the refutation of the pinned first-packet behaviour. *)
From Coq Require Import ZArith QArith Qminmax Qabs List Bool Lia Lqa Permutation.
From ONL Require Import Elem.Packet Elem.StoreQ Elem.StoreQProofs Elem.HeapList Elem.WFQServer Elem.WFQServerProofs Elem.WFQ.
Import ListNotations.

(* ---- small facts about the list sets and tables of WFQ.v ---- *)
Lemma zmem_In k l : zmem k l = true <-> In k l.
Proof.
  unfold zmem. rewrite existsb_exists. split.
  - intros (x & Hx & E). apply Z.eqb_eq in E. subst. exact Hx.
  - intros H. exists k. split; [exact H|apply Z.eqb_refl].
Qed.

Lemma zadd_In k l x : In x (zadd k l) <-> x = k \/ In x l.
Proof.
  unfold zadd. destruct (zmem k l) eqn:E.
  - apply zmem_In in E. split; [auto|]. intros [->|H]; auto.
  - rewrite in_app_iff. cbn. intuition.
Qed.

Lemma zadd_NoDup k l : NoDup l -> NoDup (zadd k l).
Proof.
  intros H. unfold zadd. destruct (zmem k l) eqn:E; [exact H|].
  assert (N : ~ In k l) by (intros C; apply zmem_In in C; congruence).
  clear E. induction l as [|a l IH]; cbn.
  - constructor; [intros []|constructor].
  - inversion H; subst. constructor.
    + rewrite in_app_iff. cbn. intros [C|[C|[]]]; [contradiction|]. subst. apply N. left. reflexivity.
    + apply IH; [assumption|]. intros C. apply N. right. exact C.
Qed.

Lemma zremove_In k l x : In x (zremove k l) <-> In x l /\ x <> k.
Proof.
  unfold zremove. rewrite filter_In, negb_true_iff, Z.eqb_neq. tauto.
Qed.

Lemma zremove_NoDup k l : NoDup l -> NoDup (zremove k l).
Proof. apply NoDup_filter. Qed.

Lemma Some_pair_inj (X Y : Type) (a c : X) (b d : Y) : Some (a, b) = Some (c, d) -> c = a /\ d = b.
Proof. intros H. inversion H. auto. Qed.
Lemma Some_inj (X : Type) (a c : X) : Some a = Some c -> c = a.
Proof. intros H. inversion H. auto. Qed.

Section WFQ.
  Variable cfg : wcfg.
  Hypothesis rate_pos : 0 < wrate cfg.
  Hypothesis weights_pos : forall c w, zlookup c (wweights cfg) = Some w -> (0 < w)%Z.

  Definition wcls (p : pkt) : Z := wf2c cfg (flow p).
  (* packets the upstream may put: configured class (C12: "configured flow"), non-negative size *)
  Definition wconf (p : pkt) : Prop := zlookup (wcls p) (wweights cfg) <> None /\ (0 <= psize p)%Z.
  Definition ccnt (c : Z) (l : list pkt) : Z := Z.of_nat (length (filter (fun p => Z.eqb (wcls p) c) l)).

  Lemma ccnt_perm c l l' : Permutation l l' -> ccnt c l = ccnt c l'.
  Proof.
    intros P. unfold ccnt. f_equal. apply Permutation_length. induction P; cbn.
    - constructor.
    - destruct (Z.eqb (wcls x) c); [constructor|]; assumption.
    - destruct (Z.eqb (wcls x) c), (Z.eqb (wcls y) c); try (apply Permutation_refl). apply perm_swap.
    - eapply Permutation_trans; eauto.
  Qed.

  Lemma ccnt_cons c p l : ccnt c (p :: l) = ((if Z.eqb (wcls p) c then 1 else 0) + ccnt c l)%Z.
  Proof. unfold ccnt. cbn [filter]. destruct (Z.eqb (wcls p) c); cbn [length]; lia. Qed.

  Lemma ccnt_nonneg c l : (0 <= ccnt c l)%Z.
  Proof. unfold ccnt. lia. Qed.

  Lemma ccnt_nil_all l : (forall c, ccnt c l = 0%Z) -> l = [].
  Proof.
    destruct l as [|p l]; [reflexivity|]. intros H. specialize (H (wcls p)). rewrite ccnt_cons, Z.eqb_refl in H.
    pose proof (ccnt_nonneg (wcls p) l). lia.
  Qed.

  Definition WJ (st : wst) (l : list pkt) : Prop :=
    (forall c, ccount st c = ccnt c l) /\
    NoDup (active st) /\
    (forall c, In c (active st) <-> (0 < ccount st c)%Z) /\
    (forall c, In c (active st) -> zlookup c (wweights cfg) <> None) /\
    (l = [] -> vtime st == 0 /\ forall c, fin st c == 0).

  Lemma WJ_active_nil st l : WJ st l -> (active st = [] <-> l = []).
  Proof.
    intros (C & _ & A & _ & _). split.
    - intros E. apply ccnt_nil_all. intros c. rewrite <- C.
      pose proof (ccnt_nonneg c l) as N. rewrite <- C in N.
      destruct (Z.eq_dec (ccount st c) 0) as [Z0|Z0]; [exact Z0|].
      exfalso. assert (In c (active st)) by (apply A; lia). rewrite E in H. destruct H.
    - intros ->. destruct (active st) as [|c t] eqn:E; [reflexivity|].
      exfalso. assert (H : In c (c :: t)) by (left; reflexivity).
      apply A in H. rewrite C in H. cbn in H. lia.
  Qed.

  Lemma weight_sum_ok act :
    (forall c, In c act -> zlookup c (wweights cfg) <> None) ->
    exists w, weight_sum (wweights cfg) act = Some w /\ (0 <= w)%Z /\ (act <> [] -> 0 < w)%Z.
  Proof.
    induction act as [|c t IH]; intros H; cbn [weight_sum].
    - exists 0%Z. split; [reflexivity|]. split; [lia|]. intros C. contradiction.
    - destruct (zlookup c (wweights cfg)) as [w|] eqn:E; [|exfalso; apply (H c); [left; reflexivity|exact E]].
      destruct IH as (r & Er & R0 & _); [intros x Hx; apply H; right; exact Hx|].
      rewrite Er. exists (w + r)%Z. split; [reflexivity|]. pose proof (weights_pos _ _ E). split; [lia|]. intros _. lia.
  Qed.

  Lemma update_vtime_ok nw st l : WJ st l -> l <> [] -> exists v, update_vtime cfg nw st = Some v.
  Proof.
    intros HJ Hl. destruct HJ as (C & ND & A & L & R).
    destruct (weight_sum_ok (active st) L) as (w & Ew & _ & Wp). unfold update_vtime. rewrite Ew.
    assert (Hne : active st <> []).
    { intros E. apply Hl. apply (WJ_active_nil st l); [split; [exact C|split; [exact ND|split; [exact A|split; [exact L|exact R]]]]|exact E]. }
    specialize (Wp Hne). destruct (Z.eqb_spec w 0); [lia|]. eauto.
  Qed.

  Lemma wstamp_inc_nonneg p w : (0 <= psize p)%Z -> (0 < w)%Z -> 0 <= wstamp_inc cfg p w.
  Proof.
    intros Hs Hw. unfold wstamp_inc. apply Qle_shift_div_l.
    - apply Qmult_lt_0_compat; [exact rate_pos|]. unfold Qlt; cbn. lia.
    - rewrite Qmult_0_l. apply Qmult_le_0_compat; [|discriminate]. unfold Qle; cbn. lia.
  Qed.

  Lemma WJ_perm st l l' : Permutation l l' -> WJ st l -> WJ st l'.
  Proof.
    intros P (C & ND & A & L & R). split; [intros c; rewrite C; apply ccnt_perm; exact P|].
    split; [exact ND|]. split; [exact A|]. split; [exact L|].
    intros E. subst l'. apply Permutation_sym, Permutation_nil in P. apply R. exact P.
  Qed.

  Lemma WJ_init : WJ wst0 [].
  Proof.
    unfold WJ, wst0; cbn. split; [reflexivity|]. split; [constructor|]. split; [intros c; split; [intros []|lia]|].
    split; [intros c []|]. intros _. split; [reflexivity|intros c; reflexivity].
  Qed.

  Lemma WJ_put_ok nw st l p : WJ st l -> wconf p -> wfq_put cfg nw st p <> None.
  Proof.
    intros HJ (Hc & _). unfold wfq_put. fold (wcls p).
    destruct (zlookup (wcls p) (wweights cfg)) as [w|]; [|contradiction].
    destruct (active st) as [|a t] eqn:Ea; [discriminate|].
    assert (Hl : l <> []).
    { intros E. apply (WJ_active_nil st l HJ) in E. congruence. }
    destruct (update_vtime_ok nw st l HJ Hl) as (v & Ev). rewrite Ev. discriminate.
  Qed.

  Lemma ccount_nonneg st l c : WJ st l -> (0 <= ccount st c)%Z.
  Proof. intros (C & _). rewrite C. apply ccnt_nonneg. Qed.

  Lemma WJ_put nw st l p st' F :
    WJ st l -> wconf p -> wfq_put cfg nw st p = Some (st', F) ->
    WJ st' (p :: l) /\ fin st' (wcls p) == F /\
    (l = [] \/ (fin st (wcls p) <= F /\ forall c, c <> wcls p -> fin st' c == fin st c)).
  Proof.
    intros HJ (Hc & Hsz) H. pose proof HJ as (C & ND & A & L & R). unfold wfq_put in H. fold (wcls p) in H.
    destruct (zlookup (wcls p) (wweights cfg)) as [w|] eqn:Ew; [|contradiction].
    pose proof (weights_pos _ _ Ew) as Wp.
    set (c := wcls p) in *.
    assert (Cnt : forall x, (if Z.eqb x c then ccount st c + 1 else ccount st x)%Z = ccnt x (p :: l)).
    { intros x. rewrite ccnt_cons. fold c. destruct (Z.eqb_spec x c) as [->|Nx].
      - rewrite Z.eqb_refl, C. lia.
      - destruct (Z.eqb_spec c x); [congruence|]. rewrite C. lia. }
    destruct (active st) as [|a t] eqn:Ea.
    - (* first packet of a busy period *)
      assert (El : l = []) by (apply (WJ_active_nil st l HJ); exact Ea).
      cbn [andb] in H. apply Some_pair_inj in H as [-> ->]. split; [|split; [|left; exact El]].
      + unfold WJ; cbn [vtime last_time active fin ccount]. split; [intros x; unfold fupd; apply Cnt|].
        split; [unfold zadd; cbn; constructor; [intros []|constructor]|].
        split.
        { intros x. unfold zadd, fupd; cbn. rewrite El in C. destruct (Z.eqb_spec x c) as [->|Nx].
          - rewrite C. cbn. split; [lia|auto].
          - rewrite C. cbn. split; [intros [E|[]]; congruence|lia]. }
        split; [intros x [<-|[]]; rewrite Ew; discriminate|]. discriminate.
      + cbn [fin]. unfold qupd. rewrite Z.eqb_refl. reflexivity.
    - (* busy *)
      assert (Hl : l <> []).
      { intros E. apply (WJ_active_nil st l HJ) in E. congruence. }
      destruct (update_vtime cfg nw st) as [v|] eqn:Ev; [|discriminate].
      cbn [andb] in H. apply Some_pair_inj in H as [-> ->].
      split; [|split].
      + unfold WJ; cbn [vtime last_time active fin ccount]. split; [intros x; unfold fupd; apply Cnt|].
        split; [apply zadd_NoDup; try rewrite Ea in ND; exact ND|].
        split.
        { intros x. rewrite zadd_In. unfold fupd. destruct (Z.eqb_spec x c) as [->|Nx].
          - pose proof (ccount_nonneg st l c HJ). split; [lia|auto].
          - rewrite A. split; [intros [E|E]; [congruence|exact E]|auto]. }
        split; [|discriminate].
        intros x Hx. apply zadd_In in Hx as [->|Hx]; [rewrite Ew; discriminate|]. apply L. exact Hx.
      + cbn [fin]. unfold qupd. rewrite Z.eqb_refl. reflexivity.
      + right. split.
        * rewrite Qred_correct. pose proof (Q.le_max_l (fin st c) v). pose proof (wstamp_inc_nonneg p w Hsz Wp). lra.
        * intros x Nx. cbn [fin]. unfold qupd. destruct (Z.eqb_spec x c); [contradiction|reflexivity].
  Qed.

  Lemma WJ_head_active st p l : WJ st (p :: l) -> In (wcls p) (active st) /\ ccount st (wcls p) = (1 + ccnt (wcls p) l)%Z.
  Proof.
    intros (C & _ & A & _ & _). assert (E : ccount st (wcls p) = (1 + ccnt (wcls p) l)%Z).
    { rewrite C, ccnt_cons, Z.eqb_refl. reflexivity. }
    split; [|exact E]. apply A. pose proof (ccnt_nonneg (wcls p) l). lia.
  Qed.

  Lemma WJ_done_ok nw st l p : WJ st (p :: l) -> wfq_done cfg nw st p <> None.
  Proof.
    intros HJ. destruct (WJ_head_active st p l HJ) as (Hin & Hc). unfold wfq_done. fold (wcls p).
    destruct (update_vtime_ok nw st (p :: l) HJ) as (v & Ev); [discriminate|]. rewrite Ev.
    destruct (Z.eqb (ccount st (wcls p) - 1) 0).
    - apply zmem_In in Hin. rewrite Hin. destruct (zremove (wcls p) (active st)); discriminate.
    - destruct (active st); discriminate.
  Qed.

  Lemma WJ_done nw st l p st' :
    WJ st (p :: l) -> wfq_done cfg nw st p = Some st' ->
    WJ st' l /\ (l = [] \/ forall c, fin st' c == fin st c).
  Proof.
    intros HJ H. pose proof HJ as (C & ND & A & L & R).
    destruct (WJ_head_active st p l HJ) as (Hin & Hc). unfold wfq_done in H. fold (wcls p) in H.
    set (c := wcls p) in *.
    destruct (update_vtime cfg nw st) as [v|] eqn:Ev; [|discriminate].
    set (n := (ccount st c - 1)%Z) in *.
    assert (Hn : n = ccnt c l) by (unfold n; lia).
    assert (Cnt : forall x, fupd (ccount st) c n x = ccnt x l).
    { intros x. unfold fupd. destruct (Z.eqb_spec x c) as [->|Nx]; [exact Hn|].
      rewrite C, ccnt_cons. fold c. destruct (Z.eqb_spec c x); [congruence|]. lia. }
    (* the new active set *)
    assert (Ha : exists a, (if Z.eqb n 0 then (if zmem c (active st) then Some (zremove c (active st)) else None) else Some (active st)) = Some a
                 /\ NoDup a /\ (forall x, In x a <-> (0 < ccnt x l)%Z) /\ (forall x, In x a -> In x (active st))).
    { destruct (Z.eqb_spec n 0) as [N0|N0].
      - apply zmem_In in Hin. rewrite Hin. eexists. split; [reflexivity|]. split; [apply zremove_NoDup; exact ND|].
        split; [|intros x Hx; apply zremove_In in Hx; tauto].
        intros x. rewrite zremove_In, A, <- Cnt. unfold fupd. destruct (Z.eqb_spec x c) as [->|Nx].
        + rewrite N0. split; [intros [_ F]; contradiction|lia].
        + tauto.
      - eexists. split; [reflexivity|]. split; [exact ND|]. split; [|auto].
        intros x. rewrite A, <- Cnt. unfold fupd. destruct (Z.eqb_spec x c) as [->|Nx]; [|tauto].
        pose proof (ccnt_nonneg c l). unfold n in *. lia. }
    destruct Ha as (a & Ea & NDa & Aa & Sub). rewrite Ea in H.
    destruct a as [|y t].
    - apply Some_inj in H as ->.
      assert (El : l = []).
      { apply ccnt_nil_all. intros x. pose proof (ccnt_nonneg x l). destruct (Z.eq_dec (ccnt x l) 0); [assumption|].
        exfalso. assert (In x []) by (apply Aa; lia). contradiction. }
      split; [|left; exact El].
      unfold WJ; cbn [vtime last_time active fin ccount]. split; [exact Cnt|]. split; [constructor|].
      split; [intros x; rewrite Cnt; apply Aa|]. split; [intros x []|].
      intros _. split; [reflexivity|intros x; reflexivity].
    - apply Some_inj in H as ->. split; [|right; intros x; reflexivity].
      unfold WJ; cbn [vtime last_time active fin ccount]. split; [exact Cnt|]. split; [exact NDa|].
      split; [intros x; rewrite Cnt; apply Aa|]. split; [intros x Hx; apply L, Sub, Hx|].
      intros El. exfalso. assert (H0 : (0 < ccnt y l)%Z) by (apply Aa; left; reflexivity). rewrite El in H0. cbn in H0. lia.
  Qed.

  (* WFQ satisfies the interface of the generic server proofs; the last stamp of a class is finish_times[c] *)
  Definition wfq_disc : disc (wfq_stamper cfg) (wst0 : ST (wfq_stamper cfg)) wconf wcls.
  Proof.
    refine {| dJ := (WJ : ST (wfq_stamper cfg) -> list pkt -> Prop);
              dbound := (fin : ST (wfq_stamper cfg) -> Z -> Q) |}.
    - intros p (_ & H). exact H.
    - intros p q E. unfold wcls. rewrite E. reflexivity.
    - exact WJ_perm.
    - exact WJ_init.
    - exact WJ_put_ok.
    - exact WJ_put.
    - exact WJ_done_ok.
    - exact WJ_done.
  Defined.

  (* ---- C14: stamps and virtual time ---------------------------------------------------------------- *)
  Notation S := (wfq_stamper cfg).
  Definition wreach : wfq cfg -> Prop := reach S (wrate cfg) (wst0 : ST S) wconf.

  Lemma wreach_inv s : wreach s -> Inv S wst0 wconf wcls wfq_disc s.
  Proof. apply Inv_reach. exact rate_pos. Qed.

  Lemma wreach_J s : wreach s -> WJ (stm s) (insys S s).
  Proof. intros R. destruct (wreach_inv s R) as (_ & HJ & _). exact HJ. Qed.

  Lemma update_vtime_spec nw (st : wst) v :
    update_vtime cfg nw st = Some v ->
    exists W, weight_sum (wweights cfg) (active st) = Some W /\ W <> 0%Z /\
              v == vtime st + (nw - last_time st) / inject_Z W.
  Proof.
    unfold update_vtime. destruct (weight_sum (wweights cfg) (active st)) as [W|]; [|discriminate].
    destruct (Z.eqb_spec W 0); [discriminate|]. intros H. apply Some_inj in H as ->.
    exists W. split; [reflexivity|]. split; [assumption|]. apply Qred_correct.
  Qed.

  Lemma Qmax_zero a : a == 0 -> Qmax a 0 == 0.
  Proof. intros H. apply Q.max_r. lra. Qed.

  (* every arriving packet of class c -- also the first one of a busy period -- is stamped
     F = max(F_c, V) + 8*size/(rate*w_c), V being the virtual time at the arrival (after put's update) *)
  Theorem wfq_stamp_thm s p :
    wfix_first cfg = true -> wreach s -> wconf p ->
    exists s' w F,
      wfq_act cfg s (FPut p) = Ok (s', []) /\
      zlookup (wcls p) (wweights cfg) = Some w /\
      F == Qmax (fin (stm s) (wcls p)) (vtime (stm s')) + (inject_Z (psize p) * 8) / (wrate cfg * inject_Z w) /\
      fin (stm s') (wcls p) == F /\
      (forall c, c <> wcls p -> insys S s <> [] -> fin (stm s') c == fin (stm s) c) /\
      exists F', F' == F /\
        items (store s') = items (store s) ++ [(now s, {| istamp := F'; iseq := Datatypes.S (seq s); ipkt := p |})].
  Proof.
    intros Fix R Hc. pose proof (wreach_J s R) as HJ. pose proof HJ as (C & ND & A & L & Rz).
    destruct (wfq_put cfg (now s) (stm s) p) as [[st' F]|] eqn:P; [|exfalso; eapply WJ_put_ok; eauto].
    unfold wfq_act, act. cbn [st_put wfq_stamper]. rewrite P.
    pose proof P as P'. unfold wfq_put in P'. fold (wcls p) in P'.
    destruct (zlookup (wcls p) (wweights cfg)) as [w|] eqn:Ew; [|discriminate].
    eexists _, w, F. split; [reflexivity|]. split; [reflexivity|].
    cbn [stm store items sq_put]. unfold pq_push, lpush.
    destruct (active (stm s)) as [|a t] eqn:Ea.
    - assert (El : insys S s = []) by (apply (WJ_active_nil (stm s) _ HJ); exact Ea).
      destruct (Rz El) as (V0 & F0). rewrite Fix in P'. cbn [andb negb] in P'.
      apply Some_pair_inj in P' as [-> ->]. cbn [vtime fin]. unfold qupd. rewrite Z.eqb_refl.
      split.
      + rewrite Qred_correct. unfold wstamp_inc. rewrite (Qmax_zero _ (F0 (wcls p))). rewrite (Qmax_zero 0); reflexivity.
      + split; [reflexivity|]. split; [intros c _ Hn; contradiction|].
        eexists. split; [apply Qred_correct|reflexivity].
    - destruct (update_vtime cfg (now s) (stm s)) as [v|] eqn:Ev; [|discriminate].
      cbn [andb] in P'. apply Some_pair_inj in P' as [-> ->]. cbn [vtime fin]. unfold qupd. rewrite Z.eqb_refl.
      split; [rewrite Qred_correct; reflexivity|]. split; [reflexivity|].
      split; [intros c Nc _; destruct (Z.eqb_spec c (wcls p)); [contradiction|reflexivity]|].
      eexists. split; [apply Qred_correct|reflexivity].
  Qed.

  (* V and all F are 0 whenever nothing is in the system (initially and after the scheduler emptied) *)
  Theorem wfq_reset_thm s : wreach s -> insys S s = [] -> vtime (stm s) == 0 /\ forall c, fin (stm s) c == 0.
  Proof. intros R E. destruct (wreach_J s R) as (_ & _ & _ & _ & Rz). apply Rz. exact E. Qed.

  (* the active set is the set of classes with a packet in the system *)
  Theorem wfq_active_thm s c : wreach s -> (In c (active (stm s)) <-> exists p, In p (insys S s) /\ wcls p = c).
  Proof.
    intros R. destruct (wreach_J s R) as (C & _ & A & _ & _). rewrite A, C. unfold ccnt. split.
    - intros H. destruct (filter (fun p => Z.eqb (wcls p) c) (insys S s)) as [|p t] eqn:E; [cbn in H; lia|].
      assert (Hp : In p (filter (fun p => Z.eqb (wcls p) c) (insys S s))) by (rewrite E; left; reflexivity).
      apply filter_In in Hp as (Hp & Hc). apply Z.eqb_eq in Hc. eauto.
    - intros (p & Hp & Hc).
      assert (Hf : In p (filter (fun p => Z.eqb (wcls p) c) (insys S s))) by (apply filter_In; split; [exact Hp|apply Z.eqb_eq; exact Hc]).
      destruct (filter (fun p => Z.eqb (wcls p) c) (insys S s)); [destruct Hf|cbn; lia].
  Qed.

  Lemma wfq_put_empty_others nw st p st' F c :
    active st = [] -> wfq_put cfg nw st p = Some (st', F) -> c <> wcls p -> fin st' c = 0.
  Proof.
    intros Ea H Nc. unfold wfq_put in H. fold (wcls p) in H. destruct (zlookup _ _); [|discriminate].
    rewrite Ea in H. cbn [andb] in H. apply Some_pair_inj in H as [-> _]. cbn [fin]. unfold qupd.
    destruct (Z.eqb_spec c (wcls p)); [contradiction|reflexivity].
  Qed.

  Lemma wfq_put_last nw st p st' F : wfq_put cfg nw st p = Some (st', F) -> last_time st' = nw.
  Proof.
    unfold wfq_put. destruct (zlookup _ _); [|discriminate].
    destruct (active st).
    - cbn. intros H. apply Some_pair_inj in H as [-> _]. reflexivity.
    - destruct (update_vtime cfg nw st); [|discriminate]. intros H. apply Some_pair_inj in H as [-> _]. reflexivity.
  Qed.

  Lemma wfq_done_last nw st p st' : wfq_done cfg nw st p = Some st' -> last_time st' = nw.
  Proof.
    unfold wfq_done. destruct (update_vtime cfg nw st); [|discriminate].
    destruct (if Z.eqb _ 0 then _ else _) as [a|]; [|discriminate].
    destruct a; intros H; apply Some_inj in H as ->; reflexivity.
  Qed.

  Lemma weight_sum_pos (st : wst) l : WJ st l -> l <> [] ->
    exists W, weight_sum (wweights cfg) (active st) = Some W /\ (0 < W)%Z.
  Proof.
    intros HJ Hl. pose proof HJ as (_ & _ & _ & L & _).
    destruct (weight_sum_ok (active st) L) as (W & E & _ & P). exists W. split; [exact E|]. apply P.
    intros Ea. apply Hl. apply (WJ_active_nil st l HJ). exact Ea.
  Qed.

  Lemma wfq_put_vtime nw st l p st' F :
    WJ st l -> wfq_put cfg nw st p = Some (st', F) ->
    (l = [] -> vtime st' == 0) /\
    (l <> [] -> exists W, weight_sum (wweights cfg) (active st) = Some W /\ (0 < W)%Z /\
                          vtime st' == vtime st + (nw - last_time st) / inject_Z W).
  Proof.
    intros HJ H. unfold wfq_put in H. destruct (zlookup _ _); [|discriminate].
    destruct (active st) as [|a t] eqn:Ea.
    - cbn [andb] in H. apply Some_pair_inj in H as [-> _]. split; [reflexivity|].
      intros Hl. exfalso. apply Hl. apply (WJ_active_nil st l HJ). exact Ea.
    - destruct (update_vtime cfg nw st) as [v|] eqn:Ev; [|discriminate].
      apply Some_pair_inj in H as [-> _]. cbn [vtime].
      assert (Hl : l <> []) by (intros E; apply (WJ_active_nil st l HJ) in E; congruence).
      split; [intros E; contradiction|]. intros _.
      destruct (update_vtime_spec _ _ _ Ev) as (W & EW & _ & Ve).
      destruct (weight_sum_pos st l HJ Hl) as (W' & EW' & Wp).
      rewrite Ea in EW'. rewrite Ea in EW. rewrite EW in EW'. injection EW' as <-. exists W. auto.
  Qed.

  Lemma wfq_done_vtime nw st l p st' :
    WJ st (p :: l) -> wfq_done cfg nw st p = Some st' ->
    exists W, weight_sum (wweights cfg) (active st) = Some W /\ (0 < W)%Z /\
      (l <> [] -> vtime st' == vtime st + (nw - last_time st) / inject_Z W /\ forall c, fin st' c == fin st c) /\
      (l = [] -> vtime st' == 0 /\ forall c, fin st' c == 0).
  Proof.
    intros HJ H. destruct (WJ_done _ _ _ _ _ HJ H) as (HJ' & _).
    destruct (weight_sum_pos st (p :: l) HJ) as (W & EW & Wp); [discriminate|].
    exists W. split; [exact EW|]. split; [exact Wp|]. split.
    - intros Hl. unfold wfq_done in H. destruct (update_vtime cfg nw st) as [v|] eqn:Ev; [|discriminate].
      destruct (update_vtime_spec _ _ _ Ev) as (W' & EW' & _ & Ve). rewrite EW in EW'. injection EW' as <-.
      destruct (if Z.eqb _ 0 then _ else _) as [a|]; [|discriminate].
      destruct a as [|y t]; apply Some_inj in H as ->.
      + exfalso. apply Hl. apply (WJ_active_nil _ l HJ'). reflexivity.
      + cbn [vtime fin]. split; [exact Ve|intros c; reflexivity].
    - intros El. destruct HJ' as (_ & _ & _ & _ & Rz). apply Rz. exact El.
  Qed.

  (* between consecutive updates V grows by dt / (sum of the weights of the active classes); updates happen
     at every put and when run() notices the end of a transmission; V and all F return to 0 when nothing is left *)
  Theorem wfq_vtime_thm s a s' o :
    wreach s -> (forall p, a = FPut p -> wconf p) -> wfq_act cfg s a = Ok (s', o) ->
    match a with
    | FPut _ =>
        last_time (stm s') = now s /\
        (insys S s = [] -> vtime (stm s') == 0) /\
        (insys S s <> [] -> exists W, weight_sum (wweights cfg) (active (stm s)) = Some W /\ (0 < W)%Z /\
                              vtime (stm s') == vtime (stm s) + (now s - last_time (stm s)) / inject_Z W)
    | FChildEnd =>
        last_time (stm s') = now s /\
        exists W, weight_sum (wweights cfg) (active (stm s)) = Some W /\ (0 < W)%Z /\
          (insys S s' <> [] -> vtime (stm s') == vtime (stm s) + (now s - last_time (stm s)) / inject_Z W /\
                               forall c, fin (stm s') c == fin (stm s) c) /\
          (insys S s' = [] -> vtime (stm s') == 0 /\ forall c, fin (stm s') c == 0)
    | _ => stm s' = stm s
    end.
  Proof.
    intros R Hc H. pose proof (wreach_J s R) as HJ.
    pose proof (step_held S (wrate cfg) _ _ _ _ H) as SH.
    destruct a; unfold wfq_act in H; act_inv H;
      cbn [now started store stm seq qcount qbytes nrecv chl with_store with_child st_put st_done wfq_stamper] in *;
      try reflexivity.
    - (* FPut *)
      match goal with E : wfq_put _ _ _ _ = Some _ |- _ => rename E into P end.
      split; [eapply wfq_put_last; exact P|]. exact (wfq_put_vtime _ _ _ _ _ _ HJ P).
    - (* FChildEnd *)
      match goal with E : wfq_done _ _ _ _ = Some _ |- _ => rename E into Dn end.
      split; [eapply wfq_done_last; exact Dn|].
      destruct SH as (e' & Ee & SI & _ & _). injection Ee as <-.
      eapply wfq_done_vtime; [|exact Dn]. eapply WJ_perm; [exact SI|exact HJ].
  Qed.

  Theorem wfq_last_le s : wreach s -> last_time (stm s) <= now s.
  Proof.
    induction 1 as [|s a s' o R IH Hc H]; [cbn; lra|].
    pose proof (wfq_vtime_thm s a s' o R Hc H) as V.
    destruct a; try (rewrite V); try (destruct V as (-> & _));
      unfold wfq_act in H; act_inv H; cbn [now]; try lra; try assumption.
  Qed.
End WFQ.
