(* Bridging lemmas for the GENERATOR body DistPacketGenerator.run (second tie, generator bodies: vlib/translate_gen.py).
   Gen/Extracted_distgen_run.v is regenerated from the tree under test on every run: the body cut at its yields into
     gen_DistGen_run_from_0   entry                                     -> `yield env.timeout(self.initial_delay)`
     gen_DistGen_run_from_1   resumed after the initial delay           -> the loop test, then
                              `yield env.timeout(self.arrival_dist())` or the end of the generator
     gen_DistGen_run_from_2   resumed after an inter-arrival timeout    -> packets_send += 1, Packet(now, size_dist(),
                              packets_send, ..), out.put(packet), then the loop test as in from_1
   each returning packets_send, the effects in program order (draws consumed, the packet created, the records, out.put) and
   the next request with its program point.  Here they get their meaning in the hand-written automaton (Elem/GenSink.v)
   and GStart / GInitFire a / GFire s a are proved to be EXACTLY the generated functions, carrying exactly the draws the
   code consumes. *)
From Coq Require Import ZArith QArith List Bool.
From ONL Require Import Elem.Packet Elem.GenSink Gen.Extracted_distgen_run.
Import ListNotations.

Definition dg_fields (g : gen) : dg_run_st := {| dg_packets_send := gsent g |}.

(* effects in order: Packet(t, size, id, flow_id=self.flow_id) creates THE packet; out.put(packet) emits the packet created
   last (none yet: no meaning); draws and the rec_flow records are not outputs *)
Fixpoint dg_outs (c : gcfg) (last : option gout) (fx : list dg_run_fx) : option (list gout) :=
  match fx with
  | [] => Some []
  | FxNewPacket t s i :: r => dg_outs c (Some (i, s, t, g_flow c)) r
  | FxOutPut :: r =>
      match last, dg_outs c last r with
      | Some o, Some l => Some (o :: l)
      | _, _ => None
      end
  | _ :: r => dg_outs c last r
  end.

(* the next request as the phase of the automaton; the kernel refuses a negative delay *)
Definition dg_phase (g : gen) (n : dg_run_next) : option gphase :=
  match n with
  | NxYield (RqTimeout d) PP1 => if Qle_bool 0 d then Some (GInitWait (gnow g + d)) else None
  | NxYield (RqTimeout d) PP2 => if Qle_bool 0 d then Some (GWait (gnow g + d)) else None
  | NxExit => Some GDone
  | _ => None
  end.

Definition dg_step (c : gcfg) (g : gen) (r : dg_run_st * list dg_run_fx * dg_run_next) : option (gen * list gout) :=
  match r with
  | (f, fx, n) =>
      match dg_phase g n, dg_outs c None fx with
      | Some ph, Some outs => Some ({| gnow := gnow g; gph := ph; gsent := dg_packets_send f |}, outs)
      | _, _ => None
      end
  end.

(* which draws the code consumed, read off its effects *)
Definition is_arrival (e : dg_run_fx) : bool := match e with FxArrivalDist => true | _ => false end.
Definition dg_consumed (fx : list dg_run_fx) (v : Q) : option Q := if existsb is_arrival fx then Some v else None.

(* the generated functions on the abstract state: initial_delay from the configuration, `env.now < self.finish` =
   before_finish, self.out set; a / sz = what arrival_dist() / size_dist() return IF the code calls them *)
Definition dg_gen (k : nat) (c : gcfg) (g : gen) (rec_flow dbg out_set : bool) (a : Q) (sz : Z) :=
  match k with
  | 0%nat => gen_DistGen_run_from_0 (dg_fields g) (g_init c) (before_finish c (gnow g)) (gnow g) rec_flow dbg out_set a sz
  | 1%nat => gen_DistGen_run_from_1 (dg_fields g) (g_init c) (before_finish c (gnow g)) (gnow g) rec_flow dbg out_set a sz
  | _ => gen_DistGen_run_from_2 (dg_fields g) (g_init c) (before_finish c (gnow g)) (gnow g) rec_flow dbg out_set a sz
  end.

Ltac cbnq := cbn -[Qplus Qle_bool Qeq_bool Z.add before_finish].

(* ---- GStart = from_0 ---------------------------------------------------------------------------------------- *)
Lemma bridge_dg_run_start : forall (c : gcfg) (g : gen) (rec_flow dbg out_set : bool) (a : Q) (sz : Z),
  gen_act c g GStart =
    match gph g with
    | GNotStarted => dg_step c g (dg_gen 0 c g rec_flow dbg out_set a sz)
    | _ => None
    end.
Proof.
  intros c g rec_flow dbg out_set a sz. destruct g as [nw ph ns]. cbnq.
  destruct ph; try reflexivity. destruct (Qle_bool 0 (g_init c)); reflexivity.
Qed.

(* ---- GInitFire a = from_1 ---------------------------------------------------------------------------------- *)
Lemma bridge_dg_run_initfire : forall (c : gcfg) (g : gen) (rec_flow dbg out_set : bool) (a : Q) (sz : Z),
  let r := dg_gen 1 c g rec_flow dbg out_set a sz in
  gen_act c g (GInitFire (dg_consumed (snd (fst r)) a)) =
    match gph g with
    | GInitWait dl => if Qeq_bool dl (gnow g) then dg_step c g r else None
    | _ => None
    end.
Proof.
  intros c g rec_flow dbg out_set a sz. destruct g as [nw ph ns]. cbnq.
  destruct ph; try reflexivity. destruct (Qeq_bool dl nw); [|reflexivity].
  unfold loop_head, dg_consumed. cbnq. destruct (before_finish c nw); cbnq; [|reflexivity].
  destruct (Qle_bool 0 a); reflexivity.
Qed.

(* ---- GFire s a = from_2 ------------------------------------------------------------------------------------- *)
Lemma bridge_dg_run_fire : forall (c : gcfg) (g : gen) (rec_flow dbg : bool) (a : Q) (sz : Z),
  let r := dg_gen 2 c g rec_flow dbg true a sz in
  gen_act c g (GFire sz (dg_consumed (snd (fst r)) a)) =
    match gph g with
    | GWait dl => if Qeq_bool dl (gnow g) then dg_step c g r else None
    | _ => None
    end.
Proof.
  intros c g rec_flow dbg a sz. destruct g as [nw ph ns]. cbnq.
  destruct ph; try reflexivity. destruct (Qeq_bool dl nw); [|reflexivity].
  unfold loop_head, dg_consumed. cbnq.
  destruct rec_flow, (before_finish c nw); cbnq; try reflexivity; destruct (Qle_bool 0 a); reflexivity.
Qed.

(* ---- an admissible GInitFire / GFire carries exactly the arrival draw the code consumes ----------------------- *)
Lemma bridge_dg_run_draws : forall (c : gcfg) (g : gen) (rec_flow dbg : bool) (ao : option Q) (sz : Z) (res : gen * list gout),
  let a := match ao with Some x => x | None => 0 end in
  (gen_act c g (GInitFire ao) = Some res -> ao = dg_consumed (snd (fst (dg_gen 1 c g rec_flow dbg true a sz))) a) /\
  (gen_act c g (GFire sz ao) = Some res -> ao = dg_consumed (snd (fst (dg_gen 2 c g rec_flow dbg true a sz))) a).
Proof.
  intros c g rec_flow dbg ao sz res. destruct g as [nw ph ns]. cbnq. split.
  - destruct ph; try discriminate. destruct (Qeq_bool dl nw); [|discriminate].
    unfold loop_head, dg_consumed. cbnq. destruct (before_finish c nw), ao; cbnq; try discriminate; reflexivity.
  - destruct ph; try discriminate. destruct (Qeq_bool dl nw); [|discriminate].
    unfold loop_head, dg_consumed. cbnq.
    destruct rec_flow, (before_finish c nw), ao; cbnq; try discriminate; reflexivity.
Qed.

(* ---- from_2 explicitly: program order ---------------------------------------------------------------------------
   packets_send += 1 first; size_dist() is drawn while the packet is built with (now, size, the NEW packets_send); the
   records (iff rec_flow) come before out.put; the next inter-arrival time is drawn after out.put, iff now < finish *)
Lemma dg_run_fire_explicit : forall (c : gcfg) (g : gen) (rec_flow dbg : bool) (a : Q) (sz : Z),
  dg_gen 2 c g rec_flow dbg true a sz =
    ({| dg_packets_send := (gsent g + 1)%Z |},
     [FxSizeDist; FxNewPacket (gnow g) sz (gsent g + 1)%Z] ++ (if rec_flow then [FxRecTime; FxRecSize] else []) ++ [FxOutPut]
       ++ (if before_finish c (gnow g) then [FxArrivalDist] else []),
     if before_finish c (gnow g) then NxYield (RqTimeout a) PP2 else NxExit).
Proof.
  intros c g rec_flow dbg a sz. destruct g as [nw ph ns]. cbnq.
  destruct rec_flow, (before_finish c nw); reflexivity.
Qed.
