(* The normalisation of `args` in Timer.__init__ (onl/utils/timer.py):

       if args is None:                          args = []
       elif not isinstance(args, (list, tuple)): args = [args]        # a single positional argument
       self.args = args          ...             self.timeout_callback( *self.args, **self.kwargs )

   over an inductive of the SHAPES a Python object given as `args` can have.  The rule: None -> no positional
   argument; an instance of list or tuple (subclasses included: a namedtuple, a list subclass) -> its elements; anything
   else -- a number, a bool, a str or bytes of any length, a dict, a set, a range, a deque, a generator, any object --
   -> exactly one positional argument, the object itself.  Executable; the automaton of Elem/Timer.v carries the
   normalised arguments as opaque tokens (`cargs`). *)
From Coq Require Import ZArith QArith List Bool.
From ONL Require Import Elem.Timer.
Import ListNotations.

Inductive pyval :=
| VNone
| VBool (b : bool) | VInt (z : Z) | VFloat (q : Q) | VFrac (q : Q)
| VStr (codes : list Z) | VBytes (bs : list Z) | VByteArray (bs : list Z)
| VList (l : list pyval) | VTuple (l : list pyval)
| VNamedTuple (l : list pyval)              (* a tuple subclass *)
| VListSub (l : list pyval)                 (* a list subclass *)
| VDeque (l : list pyval) | VSet (l : list pyval) | VFrozenSet (l : list pyval)
| VDict (kv : list (pyval * pyval))
| VRange (a b c : Z) | VGen | VOther (n : Z).

(* isinstance(v, (list, tuple)) *)
Definition is_list_or_tuple (v : pyval) : bool :=
  match v with VList _ | VTuple _ | VNamedTuple _ | VListSub _ => true | _ => false end.

(* the items of a list / tuple, as `*v` produces them *)
Definition elements (v : pyval) : list pyval :=
  match v with VList l | VTuple l | VNamedTuple l | VListSub l => l | _ => [] end.

(* the value stored in self.args *)
Definition py_stored_args (v : pyval) : pyval :=
  match v with
  | VNone => VList []
  | _ => if is_list_or_tuple v then v else VList [v]
  end.

(* the positional arguments of every callback invocation: *self.args *)
Definition py_norm_args (v : pyval) : list pyval := elements (py_stored_args v).

(* ---- comparison (correspondence) -------------------------------------------------------------------- *)
Fixpoint lz_eqb (a b : list Z) : bool :=
  match a, b with
  | [], [] => true
  | x :: s, y :: t => Z.eqb x y && lz_eqb s t
  | _, _ => false
  end.

Fixpoint pv_eqb (a b : pyval) {struct a} : bool :=
  let fix l_eqb (x y : list pyval) {struct x} : bool :=
    match x, y with
    | [], [] => true
    | p :: s, q :: t => pv_eqb p q && l_eqb s t
    | _, _ => false
    end in
  let fix kv_eqb (x y : list (pyval * pyval)) {struct x} : bool :=
    match x, y with
    | [], [] => true
    | (k, v) :: s, (k', v') :: t => pv_eqb k k' && pv_eqb v v' && kv_eqb s t
    | _, _ => false
    end in
  match a, b with
  | VNone, VNone => true
  | VBool x, VBool y => Bool.eqb x y
  | VInt x, VInt y => Z.eqb x y
  | VFloat x, VFloat y => Qeq_bool x y
  | VFrac x, VFrac y => Qeq_bool x y
  | VStr x, VStr y => lz_eqb x y
  | VBytes x, VBytes y => lz_eqb x y
  | VByteArray x, VByteArray y => lz_eqb x y
  | VList x, VList y => l_eqb x y
  | VTuple x, VTuple y => l_eqb x y
  | VNamedTuple x, VNamedTuple y => l_eqb x y
  | VListSub x, VListSub y => l_eqb x y
  | VDeque x, VDeque y => l_eqb x y
  | VSet x, VSet y => l_eqb x y
  | VFrozenSet x, VFrozenSet y => l_eqb x y
  | VDict x, VDict y => kv_eqb x y
  | VRange a1 b1 c1, VRange a2 b2 c2 => Z.eqb a1 a2 && Z.eqb b1 b2 && Z.eqb c1 c2
  | VGen, VGen => true
  | VOther x, VOther y => Z.eqb x y
  | _, _ => false
  end.

Fixpoint pyl_eqb (x y : list pyval) : bool :=
  match x, y with
  | [], [] => true
  | p :: s, q :: t => pv_eqb p q && pyl_eqb s t
  | _, _ => false
  end.

(* ---- link to the automaton: the argument shapes Elem/Timer.v distinguishes ---------------------------- *)
Definition emb (a : targs) : pyval :=
  match a with
  | ANone => VNone
  | AScalar z => VInt z
  | AList l => VList (map VInt l)
  end.
