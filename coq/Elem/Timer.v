(* Model of onl/utils/timer.py : Timer (a process that sleeps until expire_time, plus stop()/restart()
   built on kernel interrupts) as a timed automaton (DESIGN.md 2.4, AGENT_GUIDE "Layer E").
   Executable; proofs are in TimerProofs.v.

   A Timer owns a growing family of kernel processes (one per arming: __init__ and every restart() by a
   foreign process create one).  Process i is, at any moment,
     PInit     created, its Initialize event is pending (URGENT, due in the instant of creation)
     PWait d   suspended in `yield env.timeout(expire_time - now)`, the Timeout is due at d
     PDone     the generator has ended (loop exit or the `except Interrupt` clause); `is_alive` is False,
               the Process event is scheduled but not processed
     PGone     its Process event has been processed (`processed` is True)
   and `intr` counts the Interruption events aimed at it that the kernel has not processed yet.

   Actions (one per call of the public API by a foreign process, one per kernel step that belongs to
   the timer; this is exactly what props/c19.py observes of the real execution):
     TStop                stop() by a foreign process (or from outside any process)
     TRestart tau         restart(tau) by a foreign process
     TProcInit i          the kernel processes Initialize of timer process i: run() reaches
                          `while now < expire_time: yield timeout(expire_time - now)` or ends at once
     TProcTimeout i cs    the kernel processes the Timeout process i waits for: unless `stopped`, the
                          callback runs with *args; cs is the list of calls the callback makes on its own
                          timer (restart tau / stop), in order; then auto_restart re-bases, then loop or end
     TProcInterrupt i     the kernel processes an Interruption aimed at process i: if it is alive it ends
                          (except clause), otherwise the event is dropped
     TProcEnd i           the kernel processes the Process event of the ended process i
     TAdvance t           the clock moves to t

   Admissibility carries the two kernel facts the Timer relies on (theorems of the kernel model, C01/C04):
     (K1) URGENT before NORMAL inside an instant, and everything due at an instant happens before the clock
          moves: a TProcTimeout and a TAdvance are admissible only when no Initialize/Interruption of the
          timer is pending; TAdvance t does not pass a pending Timeout of a live process;
     (K2) a process's Initialize precedes every Interruption aimed at it: TProcInterrupt i is not
          admissible while i is PInit.
   Every other interleaving (API calls between any two kernel steps, any order among urgent steps, any
   number of calls per instant) is admissible, and the theorems quantify over all of them.

   `fixes` keeps the three repaired lines switchable, so that the behaviour before the fix: commits
   stays expressible (refutation lemmas); `fixed` is the code as it is now. *)
From Coq Require Import ZArith QArith List Bool.
Import ListNotations.

Inductive phase := PInit | PWait (d : Q) | PDone | PGone.
Record tproc := { ph : phase; intr : nat }.

(* the exceptions the timer code can provoke *)
Inductive terr :=
| ENotIterable        (* callback( *7 ) : TypeError, args was stored unwrapped *)
| EInterruptSelf      (* RuntimeError: A process is not allowed to interrupt itself *)
| EInterruptDead      (* RuntimeError: ... has terminated and cannot be interrupted *)
| ENoProc.            (* self.proc does not denote a process: impossible in Python, explicit here because
                         the model indexes a list *)

Inductive targs := ANone | AScalar (z : Z) | AList (l : list Z).
Inductive call := CStop | CRestart (tau : Q).

Inductive taction :=
| TStop | TRestart (tau : Q)
| TProcInit (i : nat) | TProcTimeout (i : nat) (cs : list call) | TProcInterrupt (i : nat) | TProcEnd (i : nat)
| TAdvance (t : Q).

Inductive tout := OFire (a : list Z).

Record fixes := { fx_wrap : bool; fx_selfcb : bool; fx_alive : bool }.
Definition fixed : fixes := {| fx_wrap := true; fx_selfcb := true; fx_alive := true |}.

Record timer := {
  tnow : Q;                 (* env.now *)
  tmo : Q;                  (* self.timeout *)
  expire : Q;               (* self.expire_time *)
  tstart : Q;               (* self.start_time *)
  stopped : bool;
  autor : bool;             (* auto_restart *)
  cargs : option (list Z);  (* self.args; None = a scalar stored as it is (only before the repair) *)
  procs : list tproc;       (* every timer process ever created, in creation order *)
  cur : nat;                (* self.proc *)
  err : option terr
}.

Definition norm_args (fx : fixes) (a : targs) : option (list Z) :=
  match a with
  | ANone => Some []
  | AList l => Some l
  | AScalar z => if fx_wrap fx then Some [z] else None
  end.

(* Timer(env, tau, cb, auto_restart, args) constructed at instant t0 (tau > 0 is checked by __init__) *)
Definition timer0 (fx : fixes) (t0 tau : Q) (au : bool) (a : targs) : timer :=
  {| tnow := t0; tmo := tau; expire := t0 + tau; tstart := t0; stopped := false; autor := au;
     cargs := norm_args fx a; procs := [{| ph := PInit; intr := 0%nat |}]; cur := 0; err := None |}.

Definition set_procs (st : timer) (ps : list tproc) : timer :=
  {| tnow := tnow st; tmo := tmo st; expire := expire st; tstart := tstart st; stopped := stopped st;
     autor := autor st; cargs := cargs st; procs := ps; cur := cur st; err := err st |}.
Definition set_cur (st : timer) (c : nat) : timer :=
  {| tnow := tnow st; tmo := tmo st; expire := expire st; tstart := tstart st; stopped := stopped st;
     autor := autor st; cargs := cargs st; procs := procs st; cur := c; err := err st |}.
Definition set_err (st : timer) (e : terr) : timer :=
  {| tnow := tnow st; tmo := tmo st; expire := expire st; tstart := tstart st; stopped := stopped st;
     autor := autor st; cargs := cargs st; procs := procs st; cur := cur st; err := Some e |}.
Definition set_expire (st : timer) (e : Q) : timer :=
  {| tnow := tnow st; tmo := tmo st; expire := e; tstart := tstart st; stopped := stopped st;
     autor := autor st; cargs := cargs st; procs := procs st; cur := cur st; err := err st |}.
Definition set_now (st : timer) (t : Q) : timer :=
  {| tnow := t; tmo := tmo st; expire := expire st; tstart := tstart st; stopped := stopped st;
     autor := autor st; cargs := cargs st; procs := procs st; cur := cur st; err := err st |}.

Fixpoint upd {A : Type} (i : nat) (f : A -> A) (l : list A) : list A :=
  match l, i with
  | [], _ => []
  | x :: t, O => f x :: t
  | x :: t, S j => x :: upd j f t
  end.

Definition set_ph (q : phase) (p : tproc) : tproc := {| ph := q; intr := intr p |}.
Definition add_intr (p : tproc) : tproc := {| ph := ph p; intr := S (intr p) |}.
Definition sub_intr (p : tproc) : tproc := {| ph := ph p; intr := pred (intr p) |}.

Definition alive (p : tproc) : bool := match ph p with PInit | PWait _ => true | _ => false end.
Definition is_init (p : tproc) : bool := match ph p with PInit => true | _ => false end.
(* an URGENT event of the timer (Initialize or Interruption) is pending for this process *)
Definition urgent_p (p : tproc) : bool := is_init p || negb (Nat.eqb (intr p) 0).
Definition any_urgent (st : timer) : bool := existsb urgent_p (procs st).
Definition live_count (st : timer) : nat := length (filter alive (procs st)).
Definition cur_alive (st : timer) : bool :=
  match nth_error (procs st) (cur st) with Some p => alive p | None => false end.

(* `while env.now < self.expire_time: yield self.env.timeout(self.expire_time - env.now)`:
   the deadline is stored the way the kernel computes it, now + delay *)
Definition loop_phase (st : timer) : phase :=
  if Qlt_le_dec (tnow st) (expire st) then PWait (tnow st + (expire st - tnow st)) else PDone.

(* stop(): self.stopped = True; self.expire_time = self.env.now *)
Definition do_stop (st : timer) : timer :=
  {| tnow := tnow st; tmo := tmo st; expire := tnow st; tstart := tstart st; stopped := true;
     autor := autor st; cargs := cargs st; procs := procs st; cur := cur st; err := err st |}.

(* the test guarding the interrupt in restart(): `self.proc.is_alive` (before the repair: `not self.proc.processed`) *)
Definition alive_test (fx : fixes) (p : tproc) : bool :=
  if fx_alive fx then alive p else match ph p with PGone => false | _ => true end.

Definition is_caller (caller : option nat) (c : nat) : bool :=
  match caller with Some i => Nat.eqb i c | None => false end.

(* the first three lines of restart(tau): start_time = now; timeout = tau; expire_time = start_time + tau *)
Definition set_sched (st : timer) (tau : Q) : timer :=
  {| tnow := tnow st; tmo := tau; expire := tnow st + tau; tstart := tnow st; stopped := stopped st;
     autor := autor st; cargs := cargs st; procs := procs st; cur := cur st; err := err st |}.

Definition newp : tproc := {| ph := PInit; intr := 0 |}.

(* restart(tau) called while `caller` is the active process (None: a foreign process) *)
Definition do_restart (fx : fixes) (caller : option nat) (tau : Q) (st : timer) : timer :=
  let st1 := set_sched st tau in
  if fx_selfcb fx && is_caller caller (cur st) then st1       (* `if self.env.active_process is self.proc: return` *)
  else match nth_error (procs st) (cur st) with
       | None => set_err st1 ENoProc
       | Some p =>
           if alive_test fx p then
             (* self.proc.interrupt(...): Interruption.__init__ checks `triggered`, then `active_process` *)
             if negb (alive p) then set_err st1 EInterruptDead
             else if is_caller caller (cur st) then set_err st1 EInterruptSelf
             else set_cur (set_procs st1 (upd (cur st) add_intr (procs st) ++ [newp])) (length (procs st))
           else st1
       end.

(* one call made by the callback running inside timer process i; an exception ends the callback *)
Definition apply_call (fx : fixes) (i : nat) (st : timer) (c : call) : timer :=
  match err st with
  | Some _ => st
  | None => match c with CStop => do_stop st | CRestart tau => do_restart fx (Some i) tau st end
  end.

Definition rebase (st : timer) : timer :=
  if autor st then set_expire st (tnow st + tmo st) else st.

Definition timer_act (fx : fixes) (st : timer) (a : taction) : option (timer * list tout) :=
  match err st with
  | Some _ => None                                 (* an exception escaped: no property is claimed after it *)
  | None =>
  match a with
  | TStop => Some (do_stop st, [])
  | TRestart tau => Some (do_restart fx None tau st, [])
  | TProcInit i =>
      match nth_error (procs st) i with
      | Some p => match ph p with
                  | PInit => Some (set_procs st (upd i (set_ph (loop_phase st)) (procs st)), [])
                  | _ => None
                  end
      | None => None
      end
  | TProcTimeout i cs =>
      match nth_error (procs st) i with
      | Some p =>
          match ph p with
          | PWait d =>
              if Qeq_bool d (tnow st) && negb (any_urgent st) then
                if stopped st then
                  match cs with
                  | [] => Some (set_procs st (upd i (set_ph (loop_phase st)) (procs st)), [])
                  | _ => None                        (* the callback does not run: it cannot have made calls *)
                  end
                else
                  match cargs st with
                  | None => Some (set_err (set_procs st (upd i (set_ph PDone) (procs st))) ENotIterable, [])
                  | Some a =>
                      let st1 := fold_left (apply_call fx i) cs st in
                      match err st1 with
                      | Some _ => Some (set_procs st1 (upd i (set_ph PDone) (procs st1)), [OFire a])
                      | None =>
                          let st2 := rebase st1 in
                          Some (set_procs st2 (upd i (set_ph (loop_phase st2)) (procs st2)), [OFire a])
                      end
                  end
              else None
          | _ => None
          end
      | None => None
      end
  | TProcInterrupt i =>
      match nth_error (procs st) i with
      | Some p =>
          if Nat.eqb (intr p) 0 then None else
          match ph p with
          | PInit => None                              (* (K2) *)
          | PWait _ => Some (set_procs st (upd i (fun p => set_ph PDone (sub_intr p)) (procs st)), [])
          | _ => Some (set_procs st (upd i sub_intr (procs st)), [])
          end
      | None => None
      end
  | TProcEnd i =>
      match nth_error (procs st) i with
      | Some p => match ph p with
                  | PDone => Some (set_procs st (upd i (set_ph PGone) (procs st)), [])
                  | _ => None
                  end
      | None => None
      end
  | TAdvance t =>
      if any_urgent st then None                       (* (K1) *)
      else if Qlt_le_dec (tnow st) t then
        if forallb (fun p => match ph p with PWait d => Qle_bool t d | _ => true end) (procs st)
        then Some (set_now st t, [])
        else None
      else None
  end
  end.

(* an execution: every action must be admissible; the trace pairs each action with the instant at which
   it happened and with what it emitted *)
Definition tev := (Q * taction * list tout)%type.

Fixpoint timer_run (fx : fixes) (st : timer) (acts : list taction) : option (timer * list tev) :=
  match acts with
  | [] => Some (st, [])
  | a :: rest =>
      match timer_act fx st a with
      | None => None
      | Some (st', outs) =>
          match timer_run fx st' rest with
          | None => None
          | Some (st'', tr) => Some (st'', (tnow st', a, outs) :: tr)
          end
      end
  end.

(* the timed callback invocations of a trace: (instant, arguments) *)
Fixpoint fires (tr : list tev) : list (Q * list Z) :=
  match tr with
  | [] => []
  | (t, _, outs) :: rest => map (fun o => match o with OFire a => (t, a) end) outs ++ fires rest
  end.

(* index of the first action that is not admissible (diagnosis), or None *)
Fixpoint timer_stuck (fx : fixes) (st : timer) (acts : list taction) (i : nat) : option nat :=
  match acts with
  | [] => None
  | a :: rest =>
      match timer_act fx st a with
      | None => Some i
      | Some (st', _) => timer_stuck fx st' rest (S i)
      end
  end.

(* ---- comparison with an observed execution (correspondence) -------------------------------- *)
Fixpoint listZ_eq (a b : list Z) : bool :=
  match a, b with
  | [], [] => true
  | x :: s, y :: t => Z.eqb x y && listZ_eq s t
  | _, _ => false
  end.

Fixpoint fires_eqb (t : Q) (outs : list tout) (obs : list (Q * list Z)) : bool :=
  match outs, obs with
  | [], [] => true
  | OFire a :: s, (u, b) :: r => Qeq_bool t u && listZ_eq a b && fires_eqb t s r
  | _, _ => false
  end.

(* observed after every action: expire_time, stopped, number of live timer processes, proc.is_alive,
   self.timeout, self.start_time, number of timer processes created so far, whether an exception escaped *)
Record tsample := { o_expire : Q; o_stopped : bool; o_live : nat; o_alive : bool; o_tmo : Q; o_start : Q; o_nprocs : nat; o_raised : bool }.

Definition sample_eqb (st : timer) (s : tsample) : bool :=
  Qeq_bool (expire st) (o_expire s) && Bool.eqb (stopped st) (o_stopped s) && Nat.eqb (live_count st) (o_live s)
  && Bool.eqb (cur_alive st) (o_alive s) && Qeq_bool (tmo st) (o_tmo s) && Qeq_bool (tstart st) (o_start s) && Nat.eqb (length (procs st)) (o_nprocs s)
  && Bool.eqb (match err st with Some _ => true | None => false end) (o_raised s).

Fixpoint timer_agree (fx : fixes) (st : timer) (obs : list (taction * list (Q * list Z) * tsample)) : bool :=
  match obs with
  | [] => true
  | (a, fs, s) :: rest =>
      match timer_act fx st a with
      | None => false
      | Some (st', outs) => fires_eqb (tnow st') outs fs && sample_eqb st' s && timer_agree fx st' rest
      end
  end.
