(* Proofs about Elem/Wire.v: for every loss configuration, every admissible execution (any action
   list accepted by wire_run from wire0 t0) and all draws, the timed outputs of the wire are what the
   property's recurrence (wire_rec) gives.  Skeleton: AGENT_GUIDE "Layer E", invariants I1-I4. *)
From Coq Require Import ZArith QArith Qminmax List Bool Lia Lqa Permutation Sorted.
From ONL Require Import Elem.Packet Elem.StoreQ Elem.StoreQProofs Elem.Wire.
Import ListNotations.

(* ---------------------------------------------------------------------------------------------- *)
(* small tools                                                                                     *)

(* same packets (Leibniz), same instants (==) *)
Definition tp_equiv : list (Q * pkt) -> list (Q * pkt) -> Prop :=
  Forall2 (fun x y : Q * pkt => fst x == fst y /\ snd x = snd y).

Lemma tp_equiv_snoc l1 l2 t T p : tp_equiv l1 l2 -> t == T -> tp_equiv (l1 ++ [(t, p)]) (l2 ++ [(T, p)]).
Proof.
  intros H E. apply Forall2_app; [exact H|]. constructor; [|constructor]. cbn. split; [exact E|reflexivity].
Qed.

Lemma tp_equiv_pkts l1 l2 : tp_equiv l1 l2 -> map snd l1 = map snd l2.
Proof. induction 1 as [|x y l l' [_ E] _ IH]; cbn; [reflexivity|]. rewrite E, IH. reflexivity. Qed.

Lemma tp_equiv_length l1 l2 : tp_equiv l1 l2 -> length l1 = length l2.
Proof. induction 1; cbn; auto. Qed.

Lemma tp_equiv_nth l1 l2 : tp_equiv l1 l2 -> forall k t p, nth_error l1 k = Some (t, p) ->
  exists T, nth_error l2 k = Some (T, p) /\ t == T.
Proof.
  induction 1 as [|x y l l' [E1 E2] _ IH]; intros k t p Hk.
  - destruct k; discriminate.
  - destruct k as [|k]; cbn in Hk |- *.
    + injection Hk as ->. destruct y as [T q]. cbn in *. subst q. exists T. split; [reflexivity|exact E1].
    + apply IH. exact Hk.
Qed.

Lemma Qmax_now a F n : a <= n -> F <= n -> (a == n \/ F == n) -> n == Qmax a F.
Proof.
  intros Ha HF H. destruct (Q.max_spec a F) as [[Hlt E]|[Hle E]]; rewrite E; destruct H as [H|H]; lra.
Qed.

Lemma Qmax_ge_l a F : a <= Qmax a F.
Proof. apply Q.le_max_l. Qed.
Lemma Qmax_ge_r a F : F <= Qmax a F.
Proof. apply Q.le_max_r. Qed.

Lemma deliver_at_compat s s' a dd : s == s' -> deliver_at s a dd == deliver_at s' a dd.
Proof. intros E. unfold deliver_at. destruct (Qlt_le_dec (s - a) dd), (Qlt_le_dec (s' - a) dd); lra. Qed.

(* the delivery-time law: never before a + d, never before the dequeue instant; for d >= 0 exactly
   max(a + d, instant the server became free) *)
Lemma deliver_at_ge s a dd : a <= s -> a + dd <= deliver_at s a dd /\ s <= deliver_at s a dd.
Proof. intros Ha. unfold deliver_at. destruct (Qlt_le_dec (s - a) dd); split; lra. Qed.

Lemma deliver_at_max a F dd : 0 <= dd -> deliver_at (Qmax a F) a dd == Qmax (a + dd) F.
Proof.
  intros Hd. unfold deliver_at.
  destruct (Q.max_spec a F) as [[H1 E1]|[H1 E1]]; destruct (Q.max_spec (a + dd) F) as [[H2 E2]|[H2 E2]];
    destruct (Qlt_le_dec (Qmax a F - a) dd); rewrite ?E1, ?E2 in *; lra.
Qed.

Lemma lost_dec_true loss u :
  lost_dec loss u = Some true <-> exists r x, loss = Some r /\ ~ r == 0 /\ u = Some x /\ x < r.
Proof.
  unfold lost_dec, loss_on. split.
  - destruct loss as [r|]; [|destruct u; discriminate].
    destruct (Qeq_bool r 0) eqn:E0; [destruct u; discriminate|].
    destruct u as [x|]; [|discriminate]. intros H. injection H as H.
    exists r, x. repeat split; auto.
    + apply Qeq_bool_neq. exact E0.
    + apply negb_true_iff in H. apply Qnot_le_lt. intros Hle. apply Qle_bool_iff in Hle. congruence.
  - intros (r & x & -> & Hr & -> & Hx).
    destruct (Qeq_bool r 0) eqn:E0; [apply Qeq_bool_eq in E0; contradiction|].
    f_equal. apply negb_true_iff. destruct (Qle_bool r x) eqn:E; [|reflexivity].
    apply Qle_bool_iff in E. lra.
Qed.

Lemma lost_dec_none_off loss u : loss_on loss = None -> lost_dec loss u <> Some true.
Proof. unfold lost_dec. intros ->. destruct u; discriminate. Qed.

Lemma flat_map_snoc {A B} (f : A -> list B) l x : flat_map f (l ++ [x]) = flat_map f l ++ f x.
Proof. rewrite flat_map_app. cbn. rewrite app_nil_r. reflexivity. Qed.

Lemma arrivals_snoc h t a outs :
  arrivals (h ++ [(t, a, outs)]) = arrivals h ++ match a with WPut p => [(t, p)] | _ => [] end.
Proof. unfold arrivals. rewrite flat_map_snoc. reflexivity. Qed.
Lemma draws_snoc h (t : Q) a (outs : list wout) :
  draws (h ++ [(t, a, outs)]) = draws h ++ match a with WGet u d => [(u, d)] | _ => [] end.
Proof. unfold draws. rewrite flat_map_snoc. reflexivity. Qed.
Lemma tgets_snoc h (t : Q) a (outs : list wout) :
  tgets (h ++ [(t, a, outs)]) = tgets h ++ match a with WGet _ _ => [t] | _ => [] end.
Proof. unfold tgets. rewrite flat_map_snoc. reflexivity. Qed.
Lemma tdeliv_snoc h (t : Q) (a : waction) outs :
  tdeliv (h ++ [(t, a, outs)]) =
  tdeliv h ++ flat_map (fun o => match o with ODeliver p => [(t, p)] | OLost _ => [] end) outs.
Proof. unfold tdeliv. rewrite flat_map_snoc. reflexivity. Qed.
Lemma tlost_snoc h (t : Q) (a : waction) outs :
  tlost (h ++ [(t, a, outs)]) =
  tlost h ++ flat_map (fun o => match o with OLost p => [(t, p)] | ODeliver _ => [] end) outs.
Proof. unfold tlost. rewrite flat_map_snoc. reflexivity. Qed.
Lemma exp_deliv_snoc R o :
  exp_deliv (R ++ [o]) = exp_deliv R ++ match o_fate o with Deliv T => [(T, o_pkt o)] | Lost => [] end.
Proof. unfold exp_deliv. rewrite flat_map_snoc. reflexivity. Qed.
Lemma exp_lost_snoc R o :
  exp_lost (R ++ [o]) = exp_lost R ++ match o_fate o with Lost => [(o_start o, o_pkt o)] | Deliv _ => [] end.
Proof. unfold exp_lost. rewrite flat_map_snoc. reflexivity. Qed.

(* ---------------------------------------------------------------------------------------------- *)
(* the recurrence as a chain (snoc-friendly form of wire_rec)                                       *)

Fixpoint rec_chain (loss : option Q) (F : Q) (R : list outcome) (dr : list (option Q * option Q)) : Prop :=
  match R, dr with
  | [], [] => True
  | o :: R', (u, d) :: dr' =>
      rec_step loss F (o_arr o) u d = Some (o_start o, o_fate o) /\ rec_chain loss (o_fin o) R' dr'
  | _, _ => False
  end.

(* completion instant of the last outcome (F when there is none) *)
Definition last_fin (F : Q) (R : list outcome) : Q := fold_left (fun _ o => o_fin o) R F.

Lemma last_fin_snoc F R o : last_fin F (R ++ [o]) = o_fin o.
Proof. unfold last_fin. rewrite fold_left_app. reflexivity. Qed.

Lemma last_fin_cons F o R : last_fin F (o :: R) = last_fin (o_fin o) R.
Proof. reflexivity. Qed.

Lemma rec_chain_snoc loss : forall R F dr o u d,
  rec_chain loss F R dr ->
  rec_step loss (last_fin F R) (o_arr o) u d = Some (o_start o, o_fate o) ->
  rec_chain loss F (R ++ [o]) (dr ++ [(u, d)]).
Proof.
  induction R as [|o1 R IH]; intros F dr o u d H S.
  - destruct dr; [|destruct H]. cbn. split; [exact S|exact I].
  - destruct dr as [|[u1 d1] dr]; [destruct H|]. cbn in H |- *. destruct H as [H1 H2].
    split; [exact H1|]. apply IH; [exact H2|exact S].
Qed.

Lemma rec_chain_length loss : forall R F dr, rec_chain loss F R dr -> length R = length dr.
Proof.
  induction R as [|o R IH]; intros F [|[u d] dr] H; cbn in *; try tauto.
  f_equal. eapply IH. apply H.
Qed.

Lemma rec_chain_wire_rec loss : forall R F dr rest,
  rec_chain loss F R dr -> wire_rec loss F (map o_ap R ++ rest) dr = Some R.
Proof.
  induction R as [|o R IH]; intros F dr rest H.
  - destruct dr; [|destruct H]. reflexivity.
  - destruct dr as [|[u d] dr]; [destruct H|]. cbn in H. destruct H as [H1 H2].
    cbn [map app]. change (o_ap o) with (o_arr o, o_pkt o). cbn [wire_rec]. rewrite H1.
    assert (E : {| o_pkt := o_pkt o; o_arr := o_arr o; o_start := o_start o; o_fate := o_fate o |} = o)
      by (destruct o; reflexivity).
    rewrite E. rewrite (IH _ _ rest H2). reflexivity.
Qed.

Lemma wire_rec_chain loss : forall dr F arr R,
  wire_rec loss F arr dr = Some R -> rec_chain loss F R dr /\ exists rest, arr = map o_ap R ++ rest.
Proof.
  induction dr as [|[u d] dr IH]; intros F arr R H.
  - cbn in H. injection H as <-. split; [exact I|]. exists arr. reflexivity.
  - destruct arr as [|[a p] arr]; [discriminate|]. cbn [wire_rec] in H.
    destruct (rec_step loss F a u d) as [[s f]|] eqn:S; [|discriminate].
    destruct (wire_rec loss _ arr dr) as [R'|] eqn:W; [|discriminate].
    injection H as <-. apply IH in W as [C (rest & ->)].
    split; [cbn; split; [exact S|exact C]|]. exists rest. reflexivity.
Qed.

(* the i-th outcome is one step of the recurrence from the completion instant of the (i-1)-th *)
Lemma rec_chain_nth loss : forall R F dr i o,
  rec_chain loss F R dr -> nth_error R i = Some o ->
  exists u d, nth_error dr i = Some (u, d) /\
              rec_step loss (last_fin F (firstn i R)) (o_arr o) u d = Some (o_start o, o_fate o).
Proof.
  induction R as [|o1 R IH]; intros F dr i o H Hi.
  - destruct i; discriminate.
  - destruct dr as [|[u1 d1] dr]; [destruct H|]. cbn in H. destruct H as [H1 H2].
    destruct i as [|i]; cbn in Hi.
    + injection Hi as <-. exists u1, d1. split; [reflexivity|exact H1].
    + cbn [firstn]. rewrite last_fin_cons. cbn [nth_error]. eapply IH; eauto.
Qed.

Lemma rec_step_start loss F a u d s f : rec_step loss F a u d = Some (s, f) -> s = Qmax a F.
Proof.
  unfold rec_step. destruct (lost_dec loss u) as [[|]|]; destruct d; intros H; try discriminate; injection H as <- _; reflexivity.
Qed.

(* completion instants never decrease along the chain *)
Lemma rec_step_fin_ge loss F a u d s f :
  rec_step loss F a u d = Some (s, f) -> F <= s /\ a <= s /\ s <= match f with Lost => s | Deliv T => T end.
Proof.
  unfold rec_step. destruct (lost_dec loss u) as [[|]|]; destruct d as [dd|]; intros H; try discriminate;
    injection H as <- <-; (split; [apply Qmax_ge_r|split; [apply Qmax_ge_l|]]).
  - apply Qle_refl.
  - apply deliver_at_ge, Qmax_ge_l.
Qed.

(* ---------------------------------------------------------------------------------------------- *)
(* facts about single actions                                                                       *)

Lemma server_get_inv w w' :
  server_get w = Some w' ->
  wnow w' = wnow w /\ started w' = started w /\ hold w' = hold w /\ nrec w' = nrec w /\
  sq_get fifo_pop (wq w) = Some (wq w').
Proof.
  unfold server_get. destruct (sq_get fifo_pop (wq w)) as [q|] eqn:E; [|discriminate].
  intros H. injection H as <-. cbn. auto.
Qed.

Lemma wire_act_now_mono loss w a w' outs : wire_act loss w a = Some (w', outs) -> wnow w <= wnow w'.
Proof.
  destruct a as [p| | |u d| |t]; cbn [wire_act]; intros H.
  - injection H as <- _. cbn. apply Qle_refl.
  - destruct (started w); [discriminate|].
    destruct (server_get _) as [w2|] eqn:E; [|discriminate]. injection H as <- _.
    apply server_get_inv in E as (-> & _). cbn. apply Qle_refl.
  - destruct (sq_cb fifo_pop (wq w)); [|discriminate]. injection H as <- _. cbn. apply Qle_refl.
  - destruct (hold w); [discriminate|]. destruct (sq_take (wq w)) as [[[a0 p] q]|]; [|discriminate].
    destruct (negb (started w)); [discriminate|].
    destruct d as [dd|]; destruct (lost_dec loss u) as [[|]|]; try discriminate.
    + destruct (Qlt_le_dec (wnow w - a0) dd).
      * injection H as <- _. cbn. apply Qle_refl.
      * destruct (server_get _) as [w2|] eqn:E; [|discriminate]. injection H as <- _.
        apply server_get_inv in E as (-> & _). cbn. apply Qle_refl.
    + destruct (server_get _) as [w2|] eqn:E; [|discriminate]. injection H as <- _.
      apply server_get_inv in E as (-> & _). cbn. apply Qle_refl.
  - destruct (hold w) as [[p dl]|]; [|discriminate]. destruct (Qeq_bool dl (wnow w)); [|discriminate].
    destruct (server_get _) as [w2|] eqn:E; [|discriminate]. injection H as <- _.
    apply server_get_inv in E as (-> & _). cbn. apply Qle_refl.
  - destruct (wurgent w); [discriminate|]. destruct (Qlt_le_dec (wnow w) t) as [Hlt|]; [|discriminate].
    destruct (hold w) as [[p dl]|]; [destruct (Qle_bool t dl); [|discriminate]|]; injection H as <- _; cbn; lra.
Qed.

(* ---------------------------------------------------------------------------------------------- *)
(* the invariant                                                                                    *)
Section Invariant.
  Variable loss : option Q.
  Variable t0 : Q.

  (* what the server process is doing, and what it implies for times and deliveries *)
  Definition phase (w : wire) (h : list tev) (R : list outcome) : Prop :=
    match hold w with
    | Some (p, dl) =>
        started w = true /\ get (wq w) = GNone /\ wnow w <= dl /\
        exists R' o T, R = R' ++ [o] /\ o_pkt o = p /\ o_fate o = Deliv T /\ T == dl /\
                       tp_equiv (tdeliv h) (exp_deliv R')
    | None =>
        tp_equiv (tdeliv h) (exp_deliv R) /\
        if started w then
          last_fin t0 R <= wnow w /\ sq_fresh (wnow w) (wq w) /\ get (wq w) <> GNone /\
          (forall x, get (wq w) = GGranted x -> fst x == wnow w \/ last_fin t0 R == wnow w)
        else get (wq w) = GNone /\ R = [] /\ wnow w == t0
    end.

  Record Inv (w : wire) (h : list tev) (R : list outcome) : Prop := {
    inv_chain : rec_chain loss t0 R (draws h);                       (* the recurrence, one outcome per WGet *)
    inv_fifo : arrivals h = map o_ap R ++ sq_held (wq w);           (* (I4) taken ++ held = put, in order *)
    inv_nostrand : sq_nostrand (wq w);                               (* (I1) *)
    inv_stamped : sq_stamped (wnow w) (wq w);
    inv_starts : Forall2 Qeq (tgets h) (map o_start R);             (* k-th dequeue instant is s_k *)
    inv_lost : tp_equiv (tlost h) (exp_lost R);
    inv_phase : phase w h R                                          (* (I2), (I3), deadlines, deliveries *)
  }.

  Lemma Inv_init : Inv (wire0 t0) [] [].
  Proof.
    constructor.
    - exact I.
    - reflexivity.
    - apply sq_nostrand_init.
    - constructor.
    - constructor.
    - constructor.
    - unfold phase; cbn. split; [constructor|]. split; [reflexivity|]. split; [reflexivity|]. reflexivity.
  Qed.

  (* the started, not-propagating phase right after the server went back to store.get() *)
  Lemma phase_after_get w1 w2 h R :
    hold w1 = None -> started w1 = true -> server_get w1 = Some w2 ->
    last_fin t0 R == wnow w1 -> tp_equiv (tdeliv h) (exp_deliv R) -> phase w2 h R.
  Proof.
    intros Hh Hs Hg HF Hd. apply server_get_inv in Hg as (En & Es & Eh & _ & Hq).
    unfold phase. rewrite Eh, Hh, Es, Hs, En. split; [exact Hd|].
    split; [lra|]. split; [eapply sq_fresh_get; eauto|].
    split; [eapply sq_get_not_none; eauto|]. intros x _. right. exact HF.
  Qed.

  Ltac trace_snoc :=
    rewrite ?arrivals_snoc, ?draws_snoc, ?tgets_snoc, ?tdeliv_snoc, ?tlost_snoc; cbn [flat_map app]; rewrite ?app_nil_r.

  Lemma step_put w h R p w' outs :
    Inv w h R -> wire_act loss w (WPut p) = Some (w', outs) -> Inv w' (h ++ [(wnow w', WPut p, outs)]) R.
  Proof.
    intros [C Ff N S St L P] H. cbn [wire_act] in H. injection H as <- <-. cbn [wnow].
    constructor; cbn [wq wnow]; trace_snoc.
    - exact C.
    - rewrite Ff, fifo_held_put, app_assoc. reflexivity.
    - apply sq_nostrand_put.
    - apply sq_stamped_put. exact S.
    - exact St.
    - exact L.
    - unfold phase in *. cbn [hold started wq wnow]. trace_snoc.
      destruct (hold w) as [[q dl]|]; [exact P|].
      destruct P as [Pd P]. split; [exact Pd|].
      destruct (started w); [|exact P].
      destruct P as (P1 & P2 & P3 & P4). repeat split; auto. apply sq_fresh_put. exact P2.
  Qed.

  Lemma step_cb w h R w' outs :
    Inv w h R -> wire_act loss w WStoreCb = Some (w', outs) -> Inv w' (h ++ [(wnow w', WStoreCb, outs)]) R.
  Proof.
    intros [C Ff N S St L P] H. cbn [wire_act] in H.
    destruct (sq_cb fifo_pop (wq w)) as [q|] eqn:E; [|discriminate]. injection H as <- <-. cbn [wnow with_q].
    constructor; cbn [wq wnow with_q]; trace_snoc.
    - exact C.
    - rewrite (fifo_held_cb _ _ _ E). exact Ff.
    - eapply fifo_nostrand_cb; eauto.
    - eapply sq_stamped_cb; eauto.
    - exact St.
    - exact L.
    - unfold phase in *. cbn [hold started wq wnow with_q]. trace_snoc.
      destruct (hold w) as [[p dl]|].
      + destruct P as (P1 & P2 & P3 & P4). repeat split; auto.
        apply (sq_cb_get_none _ _ _ _ E). exact P2.
      + destruct P as [Pd P]. split; [exact Pd|].
        destruct (started w).
        * destruct P as (P1 & P2 & P3 & P4). split; [exact P1|]. split; [eapply sq_fresh_cb; eauto|].
          split.
          -- intros G. apply P3. apply (sq_cb_get_none _ _ _ _ E). exact G.
          -- intros x Gx. destruct (fifo_cb_inv _ _ _ E) as (_ & [(W & y & Ei & Gy)|(_ & _ & Gs)]).
             ++ left. rewrite (sq_cb_grants_fresh _ _ _ _ x E P2 W Gx). reflexivity.
             ++ apply P4. rewrite <- Gs. exact Gx.
        * destruct P as (P1 & P2 & P3). repeat split; auto. apply (sq_cb_get_none _ _ _ _ E). exact P1.
  Qed.

  Lemma step_init w h R w' outs :
    Inv w h R -> wire_act loss w WInit = Some (w', outs) -> Inv w' (h ++ [(wnow w', WInit, outs)]) R.
  Proof.
    intros [C Ff N S St L P] H. cbn [wire_act] in H.
    destruct (started w) eqn:Es; [discriminate|].
    destruct (server_get _) as [w2|] eqn:E; [|discriminate]. injection H as <- <-.
    unfold phase in P. destruct (hold w) as [[p dl]|] eqn:Eh; [destruct P as (P & _); congruence|].
    rewrite Es in P. destruct P as (Pd & Pg & -> & Pn).
    pose proof (server_get_inv _ _ E) as (En & Est & Eh' & _ & Hq). cbn [wnow wq started hold] in *.
    rewrite En. constructor; rewrite ?En; trace_snoc.
    - exact C.
    - rewrite (fifo_held_get _ _ _ Hq). exact Ff.
    - eapply fifo_nostrand_get; eauto.
    - eapply sq_stamped_get; eauto.
    - exact St.
    - exact L.
    - eapply phase_after_get; [| |exact E| |]; cbn [hold started wnow]; auto.
      + cbn. lra.
      + trace_snoc. exact Pd.
  Qed.

  Lemma step_adv w h R t w' outs :
    Inv w h R -> wire_act loss w (WAdvance t) = Some (w', outs) -> Inv w' (h ++ [(wnow w', WAdvance t, outs)]) R.
  Proof.
    intros [C Ff N S St L P] H. cbn [wire_act] in H.
    destruct (wurgent w) eqn:U; [discriminate|].
    destruct (Qlt_le_dec (wnow w) t) as [Hlt|]; [|discriminate].
    unfold wurgent in U. apply orb_false_iff in U as [U Ut]. apply orb_false_iff in U as [Us Uq].
    apply negb_false_iff in Us.
    assert (Hw' : wq w' = wq w /\ wnow w' = t /\ started w' = started w /\ hold w' = hold w /\ outs = [] /\
                  match hold w with Some (_, dl) => t <= dl | None => True end).
    { destruct (hold w) as [[p dl]|].
      - destruct (Qle_bool t dl) eqn:El; [|discriminate]. injection H as <- <-. cbn. repeat split; auto.
        apply Qle_bool_iff. exact El.
      - injection H as <- <-. cbn. repeat split; auto. }
    clear H. destruct Hw' as (Eq & En & Est & Eh & -> & Hdl).
    rewrite En. constructor; rewrite ?Eq, ?En; trace_snoc.
    - exact C.
    - exact Ff.
    - exact N.
    - eapply sq_stamped_mono; [|exact S]. lra.
    - exact St.
    - exact L.
    - unfold phase in *. rewrite Eh, Eq, En, Est. trace_snoc.
      destruct (hold w) as [[p dl]|].
      + destruct P as (P1 & P2 & P3 & P4). repeat split; auto.
      + destruct P as [Pd P]. split; [exact Pd|]. rewrite Us in *.
        destruct P as (P1 & P2 & P3 & P4). split; [lra|]. split; [apply sq_fresh_advance; auto|].
        split; [exact P3|]. intros x Gx. exfalso.
        apply sq_urgent_false in Uq as [_ Ug]. apply (Ug x). exact Gx.
  Qed.

  Lemma step_timer w h R w' outs :
    Inv w h R -> wire_act loss w WTimer = Some (w', outs) -> Inv w' (h ++ [(wnow w', WTimer, outs)]) R.
  Proof.
    intros [C Ff N S St L P] H. cbn [wire_act] in H.
    destruct (hold w) as [[p dl]|] eqn:Eh; [|discriminate].
    destruct (Qeq_bool dl (wnow w)) eqn:Edl; [|discriminate]. apply Qeq_bool_eq in Edl.
    destruct (server_get _) as [w2|] eqn:E; [|discriminate]. injection H as <- <-.
    unfold phase in P. rewrite Eh in P. destruct P as (Ps & Pg & Pn & R' & o & T & -> & Po & Pf & PT & Pd).
    pose proof (server_get_inv _ _ E) as (En & Est & Eh' & _ & Hq). cbn [wnow wq started hold] in *.
    rewrite En. constructor; rewrite ?En; trace_snoc.
    - exact C.
    - rewrite (fifo_held_get _ _ _ Hq). exact Ff.
    - eapply fifo_nostrand_get; eauto.
    - eapply sq_stamped_get; eauto.
    - exact St.
    - exact L.
    - eapply phase_after_get; [| |exact E| |]; cbn [hold started wnow]; auto.
      + rewrite last_fin_snoc. unfold o_fin. rewrite Pf. lra.
      + trace_snoc. rewrite exp_deliv_snoc, Pf, Po.
        apply tp_equiv_snoc; [exact Pd|]. lra.
  Qed.

  Lemma step_get w h R u d w' outs :
    Inv w h R -> wire_act loss w (WGet u d) = Some (w', outs) ->
    exists o, Inv w' (h ++ [(wnow w', WGet u d, outs)]) (R ++ [o]).
  Proof.
    intros [C Ff N S St L P] H. cbn [wire_act] in H.
    destruct (hold w) as [[p0 dl0]|] eqn:Eh; [discriminate|].
    destruct (sq_take (wq w)) as [[[a0 p] q]|] eqn:Et; [|discriminate].
    destruct (negb (started w)) eqn:Es; [discriminate|]. apply negb_false_iff in Es.
    unfold phase in P. rewrite Eh, Es in P. destruct P as (Pd & PF & Pfr & Pg & Px).
    pose proof (sq_take_inv _ _ _ _ Et) as (Gx & Ei & Ep & Gn).
    pose proof (sq_stamped_take _ _ _ _ _ Et S) as [Ha Sq]. cbn [fst] in Ha.
    assert (Hs : wnow w == Qmax a0 (last_fin t0 R)).
    { apply Qmax_now; auto. destruct (Px _ Gx) as [X|X]; [left|right]; exact X. }
    assert (Hheld : sq_held (wq w) = (a0, p) :: sq_held q) by (eapply fifo_held_take; eauto).
    assert (Nq : sq_nostrand q) by (eapply fifo_nostrand_take; eauto).
    set (F := last_fin t0 R) in *.
    destruct d as [dd|]; destruct (lost_dec loss u) as [[|]|] eqn:El; try discriminate.
    - (* kept *)
      set (o := {| o_pkt := p; o_arr := a0; o_start := Qmax a0 F; o_fate := Deliv (deliver_at (Qmax a0 F) a0 dd) |}).
      assert (Hstep : rec_step loss (last_fin t0 R) (o_arr o) u (Some dd) = Some (o_start o, o_fate o)).
      { unfold rec_step. rewrite El. reflexivity. }
      exists o.
      destruct (Qlt_le_dec (wnow w - a0) dd) as [Hq|Hq].
      + (* propagate: yield env.timeout(delay - queued_time) *)
        injection H as <- <-. cbn [wnow with_q wq].
        constructor; cbn [wnow wq with_q]; trace_snoc.
        * apply rec_chain_snoc; assumption.
        * rewrite Ff, Hheld, map_app. cbn [map]. rewrite <- app_assoc. reflexivity.
        * exact Nq.
        * exact Sq.
        * rewrite map_app. apply Forall2_app; [exact St|]. constructor; [exact Hs|constructor].
        * rewrite exp_lost_snoc. cbn [o_fate o]. rewrite app_nil_r. exact L.
        * unfold phase. cbn [hold started wq wnow with_q]. split; [exact Es|]. split; [exact Gn|].
          split; [lra|]. exists R, o, (deliver_at (Qmax a0 F) a0 dd).
          split; [reflexivity|]. split; [reflexivity|]. split; [reflexivity|]. split.
          -- unfold deliver_at. destruct (Qlt_le_dec (Qmax a0 F - a0) dd); lra.
          -- trace_snoc. exact Pd.
      + (* deliver at once *)
        destruct (server_get (with_q w q)) as [w2|] eqn:E; [|discriminate]. injection H as <- <-.
        pose proof (server_get_inv _ _ E) as (En & Est & Eh' & _ & Hq'). cbn [wnow wq started hold with_q] in *.
        assert (HT : deliver_at (Qmax a0 F) a0 dd == wnow w).
        { unfold deliver_at. destruct (Qlt_le_dec (Qmax a0 F - a0) dd); lra. }
        rewrite En. constructor; rewrite ?En; trace_snoc.
        * apply rec_chain_snoc; assumption.
        * rewrite (fifo_held_get _ _ _ Hq'). rewrite Ff, Hheld, map_app. cbn [map]. rewrite <- app_assoc. reflexivity.
        * eapply fifo_nostrand_get; eauto.
        * eapply sq_stamped_get; eauto.
        * rewrite map_app. apply Forall2_app; [exact St|]. constructor; [exact Hs|constructor].
        * rewrite exp_lost_snoc. cbn [o_fate o]. rewrite app_nil_r. exact L.
        * eapply phase_after_get; [| |exact E| |]; cbn [hold started wnow with_q]; auto.
          -- rewrite last_fin_snoc. unfold o_fin. cbn [o_fate o]. exact HT.
          -- trace_snoc. rewrite exp_deliv_snoc. cbn [o_fate o o_pkt].
             apply tp_equiv_snoc; [exact Pd|]. lra.
    - (* lost *)
      set (o := {| o_pkt := p; o_arr := a0; o_start := Qmax a0 F; o_fate := Lost |}).
      assert (Hstep : rec_step loss (last_fin t0 R) (o_arr o) u None = Some (o_start o, o_fate o)).
      { unfold rec_step. rewrite El. reflexivity. }
      exists o.
      destruct (server_get (with_q w q)) as [w2|] eqn:E; [|discriminate]. injection H as <- <-.
      pose proof (server_get_inv _ _ E) as (En & Est & Eh' & _ & Hq'). cbn [wnow wq started hold with_q] in *.
      rewrite En. constructor; rewrite ?En; trace_snoc.
      + apply rec_chain_snoc; assumption.
      + rewrite (fifo_held_get _ _ _ Hq'). rewrite Ff, Hheld, map_app. cbn [map]. rewrite <- app_assoc. reflexivity.
      + eapply fifo_nostrand_get; eauto.
      + eapply sq_stamped_get; eauto.
      + rewrite map_app. apply Forall2_app; [exact St|]. constructor; [exact Hs|constructor].
      + rewrite exp_lost_snoc. cbn [o_fate o o_pkt o_start].
        apply tp_equiv_snoc; [exact L|]. exact Hs.
      + eapply phase_after_get; [| |exact E| |]; cbn [hold started wnow with_q]; auto.
        * rewrite last_fin_snoc. unfold o_fin. cbn [o_fate o o_start]. lra.
        * trace_snoc. rewrite exp_deliv_snoc. cbn [o_fate o]. rewrite app_nil_r. exact Pd.
  Qed.

  Lemma step_inv w h R a w' outs :
    Inv w h R -> wire_act loss w a = Some (w', outs) -> exists R', Inv w' (h ++ [(wnow w', a, outs)]) R'.
  Proof.
    intros HI H. destruct a as [p| | |u d| |t].
    - exists R. eapply step_put; eauto.
    - exists R. eapply step_init; eauto.
    - exists R. eapply step_cb; eauto.
    - destruct (step_get _ _ _ _ _ _ _ HI H) as [o Ho]. exists (R ++ [o]). exact Ho.
    - exists R. eapply step_timer; eauto.
    - exists R. eapply step_adv; eauto.
  Qed.

  Lemma run_inv : forall acts w h R w' tr,
    Inv w h R -> wire_run loss w acts = Some (w', tr) -> exists R', Inv w' (h ++ tr) R'.
  Proof.
    induction acts as [|a acts IH]; intros w h R w' tr HI H; cbn [wire_run] in H.
    - injection H as <- <-. rewrite app_nil_r. exists R. exact HI.
    - destruct (wire_act loss w a) as [[w1 outs]|] eqn:Ea; [|discriminate].
      destruct (wire_run loss w1 acts) as [[w2 tr1]|] eqn:Er; [|discriminate].
      injection H as <- <-.
      destruct (step_inv _ _ _ _ _ _ HI Ea) as [R1 HI1].
      destruct (IH _ _ _ _ _ HI1 Er) as [R2 HI2].
      exists R2. rewrite <- app_assoc in HI2. exact HI2.
  Qed.

  Theorem reachable_inv acts w tr :
    wire_run loss (wire0 t0) acts = Some (w, tr) -> exists R, Inv w tr R.
  Proof. intros H. apply (run_inv acts (wire0 t0) [] [] w tr Inv_init H). Qed.
End Invariant.

(* ---------------------------------------------------------------------------------------------- *)
(* the theorems                                                                                     *)

(* the timed deliveries of the trace are the recurrence's deliveries, in order, minus at most the
   packet still propagating, whose stored deadline is its T_k *)
Definition deliveries_match (w : wire) (tr : list tev) (R : list outcome) : Prop :=
  match hold w with
  | None => tp_equiv (tdeliv tr) (exp_deliv R)
  | Some (p, dl) =>
      exists R' o T, R = R' ++ [o] /\ o_pkt o = p /\ o_fate o = Deliv T /\ T == dl /\
                     tp_equiv (tdeliv tr) (exp_deliv R')
  end.

Lemma Inv_deliveries loss t0 w tr R : Inv loss t0 w tr R -> deliveries_match w tr R.
Proof.
  intros HI. pose proof (inv_phase _ _ _ _ _ HI) as P. unfold phase in P. unfold deliveries_match.
  destruct (hold w) as [[p dl]|].
  - destruct P as (_ & _ & _ & P). exact P.
  - destruct P as (P & _). exact P.
Qed.

(* the outcome list of an execution is the value of the recurrence on its arrivals and draws *)
Lemma run_outcomes loss t0 acts w tr R :
  wire_run loss (wire0 t0) acts = Some (w, tr) ->
  wire_rec loss t0 (arrivals tr) (draws tr) = Some R -> Inv loss t0 w tr R.
Proof.
  intros Hr HR. destruct (reachable_inv _ _ _ _ _ Hr) as [R0 HI].
  pose proof (rec_chain_wire_rec loss R0 t0 (draws tr) (sq_held (wq w)) (inv_chain _ _ _ _ _ HI)) as E.
  rewrite <- (inv_fifo _ _ _ _ _ HI) in E. rewrite E in HR. injection HR as <-. exact HI.
Qed.

Theorem wire_spec loss t0 acts w tr :
  wire_run loss (wire0 t0) acts = Some (w, tr) ->
  exists R, wire_rec loss t0 (arrivals tr) (draws tr) = Some R
    /\ arrivals tr = map o_ap R ++ sq_held (wq w)          (* the k-th WGet concerns the k-th arrival *)
    /\ Forall2 Qeq (tgets tr) (map o_start R)               (* it happens at s_k = max(a_k, F_(k-1)) *)
    /\ tp_equiv (tlost tr) (exp_lost R)                     (* losses reported = losses of the recurrence *)
    /\ deliveries_match w tr R.
Proof.
  intros Hr. destruct (reachable_inv _ _ _ _ _ Hr) as [R HI]. exists R.
  split; [|split; [|split; [|split]]].
  - rewrite (inv_fifo _ _ _ _ _ HI). apply rec_chain_wire_rec. apply (inv_chain _ _ _ _ _ HI).
  - apply (inv_fifo _ _ _ _ _ HI).
  - apply (inv_starts _ _ _ _ _ HI).
  - apply (inv_lost _ _ _ _ _ HI).
  - eapply Inv_deliveries; eauto.
Qed.

(* ---- from positions in the flattened delivery list back to outcomes ---- *)
Lemma exp_deliv_nth : forall R k T p,
  nth_error (exp_deliv R) k = Some (T, p) ->
  exists i o, nth_error R i = Some o /\ o_fate o = Deliv T /\ o_pkt o = p.
Proof.
  induction R as [|o R IH]; intros k T p H.
  - destruct k; discriminate.
  - unfold exp_deliv in H. cbn [flat_map] in H. fold (exp_deliv R) in H.
    destruct (o_fate o) as [|T0] eqn:Ef.
    + cbn [app] in H. destruct (IH _ _ _ H) as (i & o' & Hi & Hf & Hp). exists (S i), o'. auto.
    + destruct k as [|k]; cbn in H.
      * injection H as <- <-. exists 0%nat, o. auto.
      * destruct (IH _ _ _ H) as (i & o' & Hi & Hf & Hp). exists (S i), o'. auto.
Qed.

Lemma deliveries_match_nth w tr R k t p :
  deliveries_match w tr R -> nth_error (tdeliv tr) k = Some (t, p) ->
  exists i o T, nth_error R i = Some o /\ o_fate o = Deliv T /\ o_pkt o = p /\ t == T.
Proof.
  unfold deliveries_match. intros M Hk. destruct (hold w) as [[q dl]|].
  - destruct M as (R' & o' & T' & -> & _ & _ & _ & M).
    destruct (tp_equiv_nth _ _ M _ _ _ Hk) as (T & HT & Et).
    destruct (exp_deliv_nth _ _ _ _ HT) as (i & o & Hi & Hf & Hp).
    exists i, o, T. repeat split; auto.
    rewrite nth_error_app1; [exact Hi|]. apply nth_error_Some. congruence.
  - destruct (tp_equiv_nth _ _ M _ _ _ Hk) as (T & HT & Et).
    destruct (exp_deliv_nth _ _ _ _ HT) as (i & o & Hi & Hf & Hp).
    exists i, o, T. repeat split; auto.
Qed.

Lemma nth_map_o_ap R i o rest : nth_error R i = Some o -> nth_error (map o_ap R ++ rest) i = Some (o_arr o, o_pkt o).
Proof.
  intros H. rewrite nth_error_app1.
  - rewrite nth_error_map, H. reflexivity.
  - rewrite map_length. apply nth_error_Some. congruence.
Qed.

(* ---- wire_delivery_time ---- *)
(* every delivery observed in the trace, at instant t, of packet p: p is the i-th arrival (at a), the
   i-th pair of draws gave delay dd; t is never before a + dd, and for dd >= 0 it is
   max(a + dd, instant the server finished packet i-1) *)
Theorem wire_delivery_time loss t0 acts w tr :
  wire_run loss (wire0 t0) acts = Some (w, tr) ->
  forall R, wire_rec loss t0 (arrivals tr) (draws tr) = Some R ->
  forall k t p, nth_error (tdeliv tr) k = Some (t, p) ->
  exists i a u dd,
    nth_error (arrivals tr) i = Some (a, p) /\ nth_error (draws tr) i = Some (u, Some dd) /\
    a + dd <= t /\
    (0 <= dd -> t == Qmax (a + dd) (last_fin t0 (firstn i R))) /\
    t == deliver_at (Qmax a (last_fin t0 (firstn i R))) a dd.
Proof.
  intros Hr R HR k t p Hk. pose proof (run_outcomes _ _ _ _ _ _ Hr HR) as HI.
  destruct (deliveries_match_nth _ _ _ _ _ _ (Inv_deliveries _ _ _ _ _ HI) Hk) as (i & o & T & Hi & Hf & Hp & Et).
  destruct (rec_chain_nth _ _ _ _ _ _ (inv_chain _ _ _ _ _ HI) Hi) as (u & d & Hd & Hs).
  rewrite Hf in Hs. unfold rec_step in Hs.
  destruct (lost_dec loss u) as [[|]|]; destruct d as [dd|]; try discriminate.
  injection Hs as Hs1 Hs2.
  exists i, (o_arr o), u, dd. split; [|split; [exact Hd|]].
  - rewrite (inv_fifo _ _ _ _ _ HI), <- Hp. apply nth_map_o_ap. exact Hi.
  - set (F := last_fin t0 (firstn i R)) in *. set (a := o_arr o) in *.
    pose proof (deliver_at_ge (Qmax a F) a dd (Qmax_ge_l a F)) as [G1 G2].
    split; [rewrite Et, <- Hs2; exact G1|]. split.
    + intros Hdd. rewrite Et, <- Hs2. apply deliver_at_max. exact Hdd.
    + rewrite Et, <- Hs2. reflexivity.
Qed.

(* ---- wire_fifo ---- *)
Inductive subseq {A : Type} : list A -> list A -> Prop :=
| sub_nil l : subseq [] l
| sub_take x l1 l2 : subseq l1 l2 -> subseq (x :: l1) (x :: l2)
| sub_skip x l1 l2 : subseq l1 l2 -> subseq l1 (x :: l2).

Lemma subseq_refl {A} (l : list A) : subseq l l.
Proof. induction l; constructor; auto. Qed.

Lemma subseq_app_r {A} (l1 l2 l3 : list A) : subseq l1 l2 -> subseq l1 (l2 ++ l3).
Proof. induction 1; cbn; constructor; auto. Qed.

Lemma subseq_app {A} (l1 l2 m1 m2 : list A) : subseq l1 l2 -> subseq m1 m2 -> subseq (l1 ++ m1) (l2 ++ m2).
Proof.
  induction 1; cbn; intros Hm.
  - induction l as [|x l IH]; cbn; [exact Hm|]. apply sub_skip. exact IH.
  - apply sub_take. auto.
  - apply sub_skip. auto.
Qed.

Lemma subseq_filter {A} (f : A -> bool) (l1 l2 : list A) : subseq l1 l2 -> subseq (filter f l1) (filter f l2).
Proof.
  induction 1; cbn.
  - constructor.
  - destruct (f x); [apply sub_take|]; auto.
  - destruct (f x); [apply sub_skip|]; auto.
Qed.

Lemma exp_deliv_subseq R : subseq (map snd (exp_deliv R)) (map o_pkt R).
Proof.
  induction R as [|o R IH]; [constructor|].
  unfold exp_deliv. cbn [flat_map]. fold (exp_deliv R). destruct (o_fate o); cbn.
  - apply sub_skip. exact IH.
  - apply sub_take. exact IH.
Qed.

Lemma map_snd_o_ap R : map snd (map o_ap R) = map o_pkt R.
Proof. rewrite map_map. reflexivity. Qed.

(* deliveries happen in arrival order: the delivered packets are, in order, a subsequence of the
   packets put in (position-wise statement: wire_spec); and delivery instants never decrease *)
Theorem wire_fifo loss t0 acts w tr :
  wire_run loss (wire0 t0) acts = Some (w, tr) ->
  subseq (map snd (tdeliv tr)) (map snd (arrivals tr)).
Proof.
  intros Hr. destruct (reachable_inv _ _ _ _ _ Hr) as [R HI].
  rewrite (inv_fifo _ _ _ _ _ HI), map_app, map_snd_o_ap. apply subseq_app_r.
  pose proof (Inv_deliveries _ _ _ _ _ HI) as M. unfold deliveries_match in M.
  destruct (hold w) as [[p dl]|].
  - destruct M as (R' & o & T & -> & _ & _ & _ & M). rewrite (tp_equiv_pkts _ _ M), map_app.
    apply subseq_app_r. apply exp_deliv_subseq.
  - rewrite (tp_equiv_pkts _ _ M). apply exp_deliv_subseq.
Qed.

(* instants of a trace never decrease *)
Lemma run_times_sorted loss : forall acts w w' tr,
  wire_run loss w acts = Some (w', tr) ->
  Forall (fun e : tev => wnow w <= fst (fst e)) tr /\ StronglySorted (fun e1 e2 : tev => fst (fst e1) <= fst (fst e2)) tr.
Proof.
  induction acts as [|a acts IH]; intros w w' tr H; cbn [wire_run] in H.
  - injection H as <- <-. split; constructor.
  - destruct (wire_act loss w a) as [[w1 outs]|] eqn:Ea; [|discriminate].
    destruct (wire_run loss w1 acts) as [[w2 tr1]|] eqn:Er; [|discriminate].
    injection H as <- <-. apply wire_act_now_mono in Ea. destruct (IH _ _ _ Er) as [F S].
    split.
    + constructor; [cbn; exact Ea|]. eapply Forall_impl; [|exact F]. cbn. intros e He. lra.
    + constructor; [exact S|]. eapply Forall_impl; [|exact F]. cbn. intros e He. exact He.
Qed.

Lemma tdeliv_times_sorted : forall tr,
  StronglySorted (fun e1 e2 : tev => fst (fst e1) <= fst (fst e2)) tr ->
  StronglySorted (fun x y : Q * pkt => fst x <= fst y) (tdeliv tr).
Proof.
  induction tr as [|[[t a] outs] tr IH]; intros S; [constructor|].
  inversion S as [|? ? S' F]; subst. specialize (IH S').
  unfold tdeliv. cbn [flat_map]. fold (tdeliv tr).
  assert (Hall : Forall (fun y : Q * pkt => t <= fst y) (tdeliv tr)).
  { clear - F. induction tr as [|[[t1 a1] o1] tr IH]; [constructor|].
    inversion F as [|? ? F1 F2]; subst. unfold tdeliv. cbn [flat_map]. fold (tdeliv tr).
    apply Forall_app. split; [|auto]. cbn in F1. clear - F1. induction o1 as [|[p|p] o1 IH]; cbn; auto. }
  clear S F. induction outs as [|[p|p] outs IHo]; cbn; auto.
  constructor; [exact IHo|]. apply Forall_app. split.
  - clear. induction outs as [|[q|q] outs IH]; cbn; auto. constructor; [cbn; apply Qle_refl|exact IH].
  - exact Hall.
Qed.

Theorem wire_delivery_instants_sorted loss t0 acts w tr :
  wire_run loss (wire0 t0) acts = Some (w, tr) ->
  StronglySorted (fun x y : Q * pkt => fst x <= fst y) (tdeliv tr).
Proof. intros Hr. apply tdeliv_times_sorted. eapply run_times_sorted; eauto. Qed.

(* ---- wire_no_loss_exactly_once ---- *)
Definition loss_off (loss : option Q) : Prop := loss = None \/ exists r, loss = Some r /\ r == 0.

Lemma loss_off_on loss : loss_off loss -> loss_on loss = None.
Proof.
  intros [->|(r & -> & Hr)]; [reflexivity|]. unfold loss_on.
  destruct (Qeq_bool r 0) eqn:E; [reflexivity|]. apply Qeq_bool_neq in E. contradiction.
Qed.

Lemma chain_all_deliv loss : loss_on loss = None -> forall R F dr,
  rec_chain loss F R dr -> Forall (fun o => exists T, o_fate o = Deliv T) R.
Proof.
  intros Hl. induction R as [|o R IH]; intros F dr H; [constructor|].
  destruct dr as [|[u d] dr]; [destruct H|]. cbn in H. destruct H as [H1 H2].
  constructor; [|eapply IH; eauto].
  unfold rec_step in H1. pose proof (lost_dec_none_off loss u Hl) as Hn.
  destruct (lost_dec loss u) as [[|]|]; [congruence| |discriminate].
  destruct d; [|discriminate]. injection H1 as _ <-. eauto.
Qed.

Lemma all_deliv_exp R : Forall (fun o => exists T, o_fate o = Deliv T) R ->
  exp_lost R = [] /\ map snd (exp_deliv R) = map o_pkt R.
Proof.
  induction 1 as [|o R (T & HT) _ [IH1 IH2]]; [split; reflexivity|].
  unfold exp_lost, exp_deliv. cbn [flat_map]. fold (exp_lost R) (exp_deliv R). rewrite HT. cbn.
  split; [exact IH1|]. rewrite IH2. reflexivity.
Qed.

(* loss rate None or 0: nothing is ever lost, and every packet put in is, in arrival order, either
   delivered (exactly once: list equality) or still inside (propagating, then in the store) *)
Theorem wire_no_loss_exactly_once loss t0 acts w tr :
  loss_off loss -> wire_run loss (wire0 t0) acts = Some (w, tr) ->
  tlost tr = [] /\ map snd (arrivals tr) = map snd (tdeliv tr) ++ wheld w.
Proof.
  intros Hl Hr. apply loss_off_on in Hl. destruct (reachable_inv _ _ _ _ _ Hr) as [R HI].
  pose proof (chain_all_deliv loss Hl _ _ _ (inv_chain _ _ _ _ _ HI)) as Hall.
  destruct (all_deliv_exp R Hall) as [EL ED]. split.
  - pose proof (inv_lost _ _ _ _ _ HI) as L. rewrite EL in L. inversion L. reflexivity.
  - rewrite (inv_fifo _ _ _ _ _ HI), map_app, map_snd_o_ap. unfold wheld.
    pose proof (Inv_deliveries _ _ _ _ _ HI) as M. unfold deliveries_match in M.
    destruct (hold w) as [[p dl]|].
    + destruct M as (R' & o & T & -> & Hp & Hf & _ & M). rewrite (tp_equiv_pkts _ _ M).
      apply Forall_app in Hall as [Hall' _]. destruct (all_deliv_exp R' Hall') as [_ ED'].
      rewrite ED', map_app. cbn [map]. rewrite Hp, <- !app_assoc. reflexivity.
    + rewrite (tp_equiv_pkts _ _ M), ED. reflexivity.
Qed.

(* ---- conservation (C08) ---- *)
Lemma outcomes_partition R : Permutation (map o_pkt R) (map snd (exp_deliv R) ++ map snd (exp_lost R)).
Proof.
  induction R as [|o R IH]; [constructor|].
  unfold exp_deliv, exp_lost. cbn [flat_map map]. fold (exp_deliv R) (exp_lost R).
  destruct (o_fate o); cbn [app map snd].
  - apply Permutation_cons_app. exact IH.
  - constructor. exact IH.
Qed.

Theorem wire_conserves loss t0 acts w tr :
  wire_run loss (wire0 t0) acts = Some (w, tr) ->
  Permutation (map snd (arrivals tr)) (map snd (tdeliv tr) ++ map snd (tlost tr) ++ wheld w).
Proof.
  intros Hr. destruct (reachable_inv _ _ _ _ _ Hr) as [R HI].
  rewrite (inv_fifo _ _ _ _ _ HI), map_app, map_snd_o_ap.
  rewrite (tp_equiv_pkts _ _ (inv_lost _ _ _ _ _ HI)). unfold wheld.
  pose proof (Inv_deliveries _ _ _ _ _ HI) as M. unfold deliveries_match in M.
  destruct (hold w) as [[p dl]|].
  - destruct M as (R' & o & T & -> & Hp & Hf & _ & M). rewrite (tp_equiv_pkts _ _ M).
    rewrite (outcomes_partition (R' ++ [o])), exp_deliv_snoc, exp_lost_snoc, Hf, app_nil_r, map_app. cbn [map snd].
    rewrite Hp, <- !app_assoc. apply Permutation_app_head. cbn [app].
    apply Permutation_middle.
  - rewrite (tp_equiv_pkts _ _ M), (outcomes_partition R), <- !app_assoc. cbn [app]. reflexivity.
Qed.

Theorem wire_conserves_uids loss t0 acts w tr :
  wire_run loss (wire0 t0) acts = Some (w, tr) ->
  Permutation (map uid (map snd (arrivals tr)))
              (map uid (map snd (tdeliv tr)) ++ map uid (map snd (tlost tr)) ++ map uid (wheld w)).
Proof.
  intros H. rewrite <- !map_app. apply Permutation_map. exact (wire_conserves _ _ _ _ _ H).
Qed.

(* every delivered packet IS a packet put in (the same record, all header fields), at an earlier or
   equal position-instant *)
Theorem wire_delivers_what_was_put loss t0 acts w tr :
  wire_run loss (wire0 t0) acts = Some (w, tr) ->
  forall k t p, nth_error (tdeliv tr) k = Some (t, p) -> exists i a, nth_error (arrivals tr) i = Some (a, p) /\ a <= t.
Proof.
  intros Hr k t p Hk. destruct (wire_spec _ _ _ _ _ Hr) as (R & HR & _).
  destruct (wire_delivery_time _ _ _ _ _ Hr R HR k t p Hk) as (i & a & u & dd & Ha & _ & _ & _ & Et).
  exists i, a. split; [exact Ha|]. rewrite Et.
  pose proof (deliver_at_ge (Qmax a (last_fin t0 (firstn i R))) a dd (Qmax_ge_l _ _)) as [_ G].
  pose proof (Qmax_ge_l a (last_fin t0 (firstn i R))). lra.
Qed.

Theorem wire_flow_fifo loss t0 acts w tr :
  wire_run loss (wire0 t0) acts = Some (w, tr) ->
  forall f, subseq (filter (fun p => Z.eqb (flow p) f) (map snd (tdeliv tr)))
                   (filter (fun p => Z.eqb (flow p) f) (map snd (arrivals tr))).
Proof. intros Hr f. apply subseq_filter. eapply wire_fifo; eauto. Qed.

(* ---- wire_lost_never_delivered ---- *)
Lemma NoDup_map_inj {A B} (f : A -> B) l x y : NoDup (map f l) -> In x l -> In y l -> f x = f y -> x = y.
Proof.
  induction l as [|z l IH]; cbn; intros N Hx Hy E; [destruct Hx|].
  inversion N as [|? ? Hn N']; subst.
  destruct Hx as [->|Hx], Hy as [->|Hy]; auto.
  - exfalso. apply Hn. rewrite E. apply in_map. exact Hy.
  - exfalso. apply Hn. rewrite <- E. apply in_map. exact Hx.
Qed.

Lemma NoDup_app_l {A} (l1 l2 : list A) : NoDup (l1 ++ l2) -> NoDup l1 /\ (forall x, In x l1 -> ~ In x l2).
Proof.
  induction l1 as [|y l1 IH]; cbn; intros N; [split; [constructor|intros x []]|].
  inversion N as [|? ? Hn N']; subst. destruct (IH N') as [N1 Hd]. split.
  - constructor; [|exact N1]. intros Hy. apply Hn. apply in_or_app. left. exact Hy.
  - intros x [->|Hx]; [|auto]. intros H2. apply Hn. apply in_or_app. right. exact H2.
Qed.

Lemma exp_lost_in R t p : In (t, p) (exp_lost R) -> exists o, In o R /\ o_fate o = Lost /\ o_pkt o = p.
Proof.
  unfold exp_lost. rewrite in_flat_map. intros (o & Ho & Hi). exists o.
  destruct (o_fate o); [|destruct Hi]. destruct Hi as [Hi|[]]. injection Hi as _ <-. auto.
Qed.

Lemma exp_deliv_in R p : In p (map snd (exp_deliv R)) -> exists o T, In o R /\ o_fate o = Deliv T /\ o_pkt o = p.
Proof.
  rewrite in_map_iff. intros ([T q] & Eq & Hi). cbn in Eq. subst q.
  unfold exp_deliv in Hi. rewrite in_flat_map in Hi. destruct Hi as (o & Ho & Hi). exists o.
  destruct (o_fate o) as [|T']; [destruct Hi|]. destruct Hi as [Hi|[]]. injection Hi as <- <-. eauto.
Qed.

Lemma tp_equiv_in l1 l2 t p : tp_equiv l1 l2 -> In (t, p) l1 -> exists T, In (T, p) l2.
Proof.
  induction 1 as [|x y l l' [E1 E2] _ IH]; intros Hi; [destruct Hi|].
  destruct Hi as [->|Hi].
  - destruct y as [T q]. cbn in E2. subst q. exists T. left. reflexivity.
  - destruct (IH Hi) as [T HT]. exists T. right. exact HT.
Qed.

(* distinct packets (uids) put in: a packet reported lost is never delivered and is not inside *)
Theorem wire_lost_never_delivered loss t0 acts w tr :
  wire_run loss (wire0 t0) acts = Some (w, tr) ->
  NoDup (map uid (map snd (arrivals tr))) ->
  forall t p, In (t, p) (tlost tr) -> ~ In p (map snd (tdeliv tr)) /\ ~ In p (wheld w).
Proof.
  intros Hr Hnd t p Hl. destruct (reachable_inv _ _ _ _ _ Hr) as [R HI].
  destruct (tp_equiv_in _ _ _ _ (inv_lost _ _ _ _ _ HI) Hl) as [T0 Hl'].
  apply exp_lost_in in Hl' as (o & Ho & Hf & Hp).
  rewrite (inv_fifo _ _ _ _ _ HI), map_app, map_snd_o_ap, map_app in Hnd.
  destruct (NoDup_app_l _ _ Hnd) as [NR Hdisj].
  assert (Hdel : forall R1 R2, R = R1 ++ R2 -> ~ In p (map snd (exp_deliv R1))).
  { intros R1 R2 -> Hd. apply exp_deliv_in in Hd as (o' & T & Ho' & Hf' & Hp').
    assert (o' = o).
    { rewrite map_map in NR. eapply (NoDup_map_inj (fun o => uid (o_pkt o))); eauto.
      - apply in_or_app. left. exact Ho'.
      - cbn. congruence. }
    subst o'. congruence. }
  assert (Hst : ~ In p (map snd (sq_held (wq w)))).
  { intros Hs. apply (in_map uid) in Hs.
    assert (Hu : In (uid p) (map uid (map o_pkt R))) by (rewrite <- Hp; apply in_map, in_map; exact Ho).
    exact (Hdisj _ Hu Hs). }
  pose proof (Inv_deliveries _ _ _ _ _ HI) as M. unfold deliveries_match in M. unfold wheld.
  destruct (hold w) as [[q dl]|].
  - destruct M as (R' & o1 & T & E & Hq & Hf1 & _ & M). rewrite (tp_equiv_pkts _ _ M). split.
    + apply (Hdel R' [o1] E).
    + intros Hin. cbn in Hin. destruct Hin as [Hin|Hin]; [|exact (Hst Hin)].
      subst q. assert (o1 = o).
      { rewrite map_map in NR. eapply (NoDup_map_inj (fun o => uid (o_pkt o))); eauto.
        - rewrite E. apply in_or_app. right. left. reflexivity.
        - cbn. congruence. }
      subst o1. congruence.
  - rewrite (tp_equiv_pkts _ _ M). split.
    + apply (Hdel R []). rewrite app_nil_r. reflexivity.
    + cbn. exact Hst.
Qed.

(* ---- wire_lost_delays_nobody / wire_loss_iff ---- *)
Lemma firstn_S_snoc {A} (l : list A) i x : nth_error l i = Some x -> firstn (S i) l = firstn i l ++ [x].
Proof.
  revert i. induction l as [|y l IH]; intros [|i] H; try discriminate; cbn in *.
  - injection H as ->. reflexivity.
  - f_equal. apply IH. exact H.
Qed.

(* a lost packet occupies the server for no time: the next packet is dequeued at
   max(its own arrival, the lost packet's dequeue instant) -- in the recurrence and in the trace *)
Theorem wire_lost_delays_nobody loss t0 acts w tr :
  wire_run loss (wire0 t0) acts = Some (w, tr) ->
  forall R, wire_rec loss t0 (arrivals tr) (draws tr) = Some R ->
  forall i o o', nth_error R i = Some o -> o_fate o = Lost -> nth_error R (S i) = Some o' ->
    o_start o' = Qmax (o_arr o') (o_start o) /\
    exists ti ti', nth_error (tgets tr) i = Some ti /\ nth_error (tgets tr) (S i) = Some ti' /\
                   ti == o_start o /\ ti' == Qmax (o_arr o') ti.
Proof.
  intros Hr R HR i o o' Hi Hf Hi'. pose proof (run_outcomes _ _ _ _ _ _ Hr HR) as HI.
  destruct (rec_chain_nth _ _ _ _ _ _ (inv_chain _ _ _ _ _ HI) Hi') as (u & d & _ & Hs).
  apply rec_step_start in Hs. rewrite (firstn_S_snoc _ _ _ Hi), last_fin_snoc in Hs.
  unfold o_fin in Hs. rewrite Hf in Hs. split; [exact Hs|].
  pose proof (inv_starts _ _ _ _ _ HI) as St.
  assert (Hnth : forall j oj, nth_error R j = Some oj -> exists tj, nth_error (tgets tr) j = Some tj /\ tj == o_start oj).
  { clear - St. revert St. generalize (tgets tr). induction R as [|o1 R IH]; intros l St j oj Hj; [destruct j; discriminate|].
    inversion St as [|x y l' l'' E St']; subst. destruct j as [|j]; cbn in Hj.
    - injection Hj as <-. exists x. split; [reflexivity|exact E].
    - apply (IH _ St' _ _ Hj). }
  destruct (Hnth _ _ Hi) as (ti & Hti & Eti). destruct (Hnth _ _ Hi') as (ti' & Hti' & Eti').
  exists ti, ti'. repeat split; auto. rewrite Eti', Hs.
  destruct (Q.max_spec (o_arr o') (o_start o)) as [[? E1]|[? E1]];
    destruct (Q.max_spec (o_arr o') ti) as [[? E2]|[? E2]]; rewrite E1, E2; lra.
Qed.

Theorem wire_loss_iff loss t0 acts w tr :
  wire_run loss (wire0 t0) acts = Some (w, tr) ->
  forall R, wire_rec loss t0 (arrivals tr) (draws tr) = Some R ->
  tp_equiv (tlost tr) (exp_lost R) /\
  forall i o, nth_error R i = Some o ->
    exists u d, nth_error (draws tr) i = Some (u, d) /\
      (o_fate o = Lost <-> exists r x, loss = Some r /\ ~ r == 0 /\ u = Some x /\ x < r).
Proof.
  intros Hr R HR. pose proof (run_outcomes _ _ _ _ _ _ Hr HR) as HI.
  split; [apply (inv_lost _ _ _ _ _ HI)|].
  intros i o Hi. destruct (rec_chain_nth _ _ _ _ _ _ (inv_chain _ _ _ _ _ HI) Hi) as (u & d & Hd & Hs).
  exists u, d. split; [exact Hd|]. rewrite <- lost_dec_true. unfold rec_step in Hs.
  destruct (lost_dec loss u) as [[|]|]; destruct d as [dd|]; try discriminate; injection Hs as _ <-; split; congruence.
Qed.

(* ---- wire_never_late ---- *)
Definition reachable (loss : option Q) (t0 : Q) (w : wire) : Prop :=
  exists acts tr, wire_run loss (wire0 t0) acts = Some (w, tr).

Lemma quiet_held_empty loss t0 w tr R :
  Inv loss t0 w tr R -> wurgent w = false -> hold w = None -> wheld w = [].
Proof.
  intros HI U Hh. unfold wurgent in U. apply orb_false_iff in U as [U _]. apply orb_false_iff in U as [Us Uq].
  apply negb_false_iff in Us. pose proof (inv_phase _ _ _ _ _ HI) as P. unfold phase in P.
  rewrite Hh, Us in P. destruct P as (_ & _ & _ & Pg & _).
  unfold wheld. rewrite Hh. cbn [app].
  assert (G : get (wq w) = GWaiting).
  { pose proof (proj1 (sq_urgent_false _ _) Uq) as [_ Ug]. destruct (get (wq w)) as [| |x]; [contradiction|reflexivity|].
    exfalso. apply (Ug x). reflexivity. }
  rewrite (sq_waiting_quiet_held _ _ Uq (inv_nostrand _ _ _ _ _ HI) G). reflexivity.
Qed.

(* a pending deadline is never passed, and the server never idles while it holds work *)
Theorem wire_never_late loss t0 w :
  reachable loss t0 w ->
  (forall p dl, hold w = Some (p, dl) -> wnow w <= dl) /\
  (forall t w' outs, wire_act loss w (WAdvance t) = Some (w', outs) ->
     wnow w < t /\ (forall p dl, hold w = Some (p, dl) -> t <= dl) /\ (hold w <> None \/ wheld w = [])) /\
  (forall p dl t, hold w = Some (p, dl) -> dl < t -> wire_act loss w (WAdvance t) = None).
Proof.
  intros (acts & tr & Hr). destruct (reachable_inv _ _ _ _ _ Hr) as [R HI].
  split; [|split].
  - intros p dl Hh. pose proof (inv_phase _ _ _ _ _ HI) as P. unfold phase in P. rewrite Hh in P. tauto.
  - intros t w' outs H. cbn [wire_act] in H.
    destruct (wurgent w) eqn:U; [discriminate|].
    destruct (Qlt_le_dec (wnow w) t) as [Hlt|]; [|discriminate]. split; [exact Hlt|].
    destruct (hold w) as [[p dl]|] eqn:Hh.
    + destruct (Qle_bool t dl) eqn:El; [|discriminate]. apply Qle_bool_iff in El. split.
      * intros p' dl' E. injection E as _ <-. exact El.
      * left. discriminate.
    + split; [intros p dl E; discriminate|]. right. eapply quiet_held_empty; eauto.
  - intros p dl t Hh Hlt. cbn [wire_act]. destruct (wurgent w); [reflexivity|].
    destruct (Qlt_le_dec (wnow w) t); [|reflexivity]. rewrite Hh.
    destruct (Qle_bool t dl) eqn:El; [|reflexivity]. apply Qle_bool_iff in El. lra.
Qed.

(* ---- wire_drained ---- *)
(* when no internal step of the wire is enabled, nothing of the wire is due in the current instant *)
Lemma no_internal_step_quiet loss t0 w tr R :
  Inv loss t0 w tr R -> hold w = None ->
  (forall a, (forall p, a <> WPut p) -> (forall t, a <> WAdvance t) -> wire_act loss w a = None) ->
  wurgent w = false.
Proof.
  intros HI Hh Hno. pose proof (inv_phase _ _ _ _ _ HI) as P. unfold phase in P. rewrite Hh in P.
  destruct P as (_ & P).
  assert (Hs : started w = true).
  { destruct (started w) eqn:Es; [reflexivity|]. exfalso. destruct P as (Pg & _ & _).
    assert (H : wire_act loss w WInit = None) by (apply Hno; intros; discriminate).
    cbn [wire_act] in H. rewrite Es in H. unfold server_get in H. cbn [wq] in H.
    destruct (sq_get_enabled _ fifo_pop _ Pg) as [q Hq]. rewrite Hq in H. discriminate. }
  rewrite Hs in P. destruct P as (_ & _ & Pg & _).
  assert (Hp : pend (wq w) = 0%nat).
  { destruct (pend (wq w)) as [|n] eqn:Ep; [reflexivity|]. exfalso.
    assert (H : wire_act loss w WStoreCb = None) by (apply Hno; intros; discriminate).
    cbn [wire_act] in H. destruct (proj1 (sq_cb_enabled _ fifo_pop (wq w))) as [q Hq]; [lia|].
    rewrite Hq in H. discriminate. }
  assert (Hg : forall x, get (wq w) <> GGranted x).
  { intros [a0 p] Gx.
    set (u := match loss_on loss with Some r => Some r | None => None end).
    assert (H : wire_act loss w (WGet u (Some 0)) = None) by (apply Hno; intros; discriminate).
    cbn [wire_act] in H. rewrite Hh in H. destruct (sq_take_enabled _ _ _ Gx) as [q Hq]. rewrite Hq in H.
    rewrite Hs in H. cbn [negb] in H.
    assert (El : lost_dec loss u = Some false).
    { unfold lost_dec, u. destruct (loss_on loss) as [r|]; [|reflexivity].
      f_equal. apply negb_false_iff. apply Qle_bool_iff. apply Qle_refl. }
    rewrite El in H. destruct (Qlt_le_dec (wnow w - a0) 0); [discriminate|].
    apply sq_take_inv in Hq as (_ & _ & _ & Gn).
    unfold server_get in H. cbn [wq with_q] in H.
    destruct (sq_get_enabled _ fifo_pop _ Gn) as [q' Hq']. rewrite Hq' in H. discriminate. }
  unfold wurgent, timer_due. rewrite Hs, Hh. cbn [negb orb]. rewrite orb_false_r.
  apply sq_urgent_false. split; assumption.
Qed.

(* the wire's share of "the simulation ran out of events": nothing enabled but puts and the passing
   of time, no deadline pending  =>  nothing is held *)
Theorem wire_drained loss t0 w :
  reachable loss t0 w -> hold w = None ->
  (forall a, (forall p, a <> WPut p) -> (forall t, a <> WAdvance t) -> wire_act loss w a = None) ->
  wheld w = [].
Proof.
  intros (acts & tr & Hr) Hh Hno. destruct (reachable_inv _ _ _ _ _ Hr) as [R HI].
  eapply quiet_held_empty; eauto. eapply no_internal_step_quiet; eauto.
Qed.

(* ---------------------------------------------------------------------------------------------- *)
(* non-vacuity: a concrete admissible execution with loss rate 1/4: four packets; p0 propagates until 2;
   p1 (arrived at 1, delay 1/2) would be due at 3/2 but cannot overtake p0: delivered at 2, right after
   p0; p2 is lost (u = 0 < 1/4) at its dequeue instant 2 and delays nobody; p3 arrives at 3 to an idle
   wire and is delivered at 3 + 1 = 4 *)
Definition ex_p (i : nat) : pkt := mkp i (Z.of_nat i + 1) (Z.of_nat (i mod 2)) 1000 0.
Definition ex_loss : option Q := Some (1 # 4).
Definition ex_acts : list waction :=
  [ WInit; WPut (ex_p 0); WStoreCb; WGet (Some (1 # 2)) (Some 2);
    WAdvance 1; WPut (ex_p 1); WPut (ex_p 2); WStoreCb; WStoreCb;
    WAdvance 2; WTimer; WGet (Some (1 # 2)) (Some (1 # 2)); WGet (Some 0) None;
    WAdvance 3; WPut (ex_p 3); WStoreCb; WGet (Some 1) (Some 1);
    WAdvance 4; WTimer ].

Example ex_run :
  exists w tr R,
    wire_run ex_loss (wire0 0) ex_acts = Some (w, tr) /\
    wire_rec ex_loss 0 (arrivals tr) (draws tr) = Some R /\
    map snd (arrivals tr) = [ex_p 0; ex_p 1; ex_p 2; ex_p 3] /\
    map snd (tdeliv tr) = [ex_p 0; ex_p 1; ex_p 3] /\
    Forall2 Qeq (map fst (tdeliv tr)) [2; 2; 4] /\
    map snd (tlost tr) = [ex_p 2] /\
    Forall2 Qeq (tgets tr) [0; 2; 2; 3] /\
    map o_fate R = [Deliv (0 + 2); Deliv 2; Lost; Deliv (3 + 1)] /\
    hold w = None /\ wheld w = [] /\ wurgent w = false.
Proof.
  eexists. eexists. eexists.
  split; [vm_compute; reflexivity|].
  split; [vm_compute; reflexivity|].
  vm_compute. repeat split; repeat constructor.
Qed.

(* the same execution stopped while p3 is propagating: its stored deadline is its T, and advancing the
   clock beyond the deadline is refused *)
Example ex_run_pending :
  exists w tr, wire_run ex_loss (wire0 0) (firstn 17 ex_acts) = Some (w, tr) /\
    (exists dl, hold w = Some (ex_p 3, dl) /\ dl == 4) /\ wheld w = [ex_p 3] /\
    wire_act ex_loss w (WAdvance 5) = None /\
    (exists w', wire_act ex_loss w (WAdvance 4) = Some (w', [])).
Proof.
  eexists. eexists. split; [vm_compute; reflexivity|].
  split; [eexists; split; [vm_compute; reflexivity|vm_compute; reflexivity]|].
  split; [vm_compute; reflexivity|]. split; [vm_compute; reflexivity|].
  eexists. vm_compute. reflexivity.
Qed.
