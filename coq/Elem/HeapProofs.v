(* Proofs about the heapq transcription Elem/Heap.v: for a strict weak order [ltb], heappush/heappop
   never run out of fuel, keep the heap invariant, permute the contents, and heappop returns a least
   element.  Simulation with the plain-list priority queue Elem/HeapList.v (lpop) when all keys held
   are pairwise strictly comparable (heap_sim_push / heap_sim_pop / heap_sim_pop_none). *)
From Coq Require Import List Bool Arith Lia Permutation.
From ONL Require Import Elem.Heap Elem.HeapList.
Import ListNotations.

(* ------------------------------------------------------------------------------------------ *)
(* array facts: upd, par                                                                        *)
(* ------------------------------------------------------------------------------------------ *)
Section Upd.
  Variable A : Type.

  Lemma upd_length : forall (h : list A) i x, length (upd h i x) = length h.
  Proof. induction h as [|y t IH]; intros [|i] x; simpl; auto. Qed.

  Lemma nth_upd_eq : forall (h : list A) i x, i < length h -> nth_error (upd h i x) i = Some x.
  Proof.
    induction h as [|y t IH]; intros [|i] x Hi; simpl in *; try lia; auto.
    apply IH; lia.
  Qed.

  Lemma nth_upd_neq : forall (h : list A) i j x, i <> j -> nth_error (upd h i x) j = nth_error h j.
  Proof.
    induction h as [|y t IH]; intros [|i] [|j] x Hij; simpl; auto; try lia.
    all: try (apply IH; lia).
  Qed.

  Lemma nth_upd : forall (h : list A) i j x a,
      nth_error (upd h i x) j = Some a ->
      (i = j /\ a = x) \/ (i <> j /\ nth_error h j = Some a).
  Proof.
    intros h i j x a H. destruct (Nat.eq_dec i j) as [E|E].
    - left. split; [assumption|]. subst j.
      assert (Hi : i < length h).
      { rewrite <- (upd_length h i x). apply nth_error_Some. congruence. }
      rewrite nth_upd_eq in H by assumption. congruence.
    - right. split; [assumption|]. rewrite nth_upd_neq in H by assumption. assumption.
  Qed.

  Lemma upd_upd : forall (h : list A) i x y, upd (upd h i x) i y = upd h i y.
  Proof. induction h as [|z t IH]; intros [|i] x y; simpl; auto. f_equal. apply IH. Qed.

  Lemma upd_perm : forall (h : list A) i x a,
      nth_error h i = Some a -> Permutation (a :: upd h i x) (x :: h).
  Proof.
    induction h as [|y t IH]; intros [|i] x a H; simpl in *; try discriminate.
    - injection H as ->. apply perm_swap.
    - eapply perm_trans; [apply perm_swap|].
      eapply perm_trans; [apply perm_skip; apply IH; eassumption|]. apply perm_swap.
  Qed.

  (* moving the hole from i to j (whose content p is copied into i) does not change the contents *)
  Lemma perm_upd_swap : forall (h : list A) i j x a p,
      i <> j -> nth_error h i = Some a -> nth_error h j = Some p ->
      Permutation (upd (upd h i p) j x) (upd h i x).
  Proof.
    intros h i j x a p Hij Ha Hp.
    assert (Hp' : nth_error (upd h i p) j = Some p) by (rewrite nth_upd_neq; assumption).
    pose proof (upd_perm (upd h i p) j x p Hp') as P1.
    pose proof (upd_perm h i p a Ha) as P2.
    pose proof (upd_perm h i x a Ha) as P3.
    apply (Permutation_cons_inv (a := a)). apply (Permutation_cons_inv (a := p)).
    eapply perm_trans; [apply perm_swap|].
    eapply perm_trans; [apply perm_skip; exact P1|].
    eapply perm_trans; [apply perm_swap|].
    eapply perm_trans; [apply perm_skip; exact P2|].
    eapply perm_trans; [apply perm_swap|].
    apply perm_skip. apply Permutation_sym. exact P3.
  Qed.

  Lemma nth_error_lt : forall (h : list A) i a, nth_error h i = Some a -> i < length h.
  Proof. intros h i a H. apply nth_error_Some. congruence. Qed.

  Lemma nth_error_ex : forall (h : list A) i, i < length h -> exists a, nth_error h i = Some a.
  Proof.
    intros h i Hi. destruct (nth_error h i) as [a|] eqn:E; [eauto|].
    apply nth_error_None in E. lia.
  Qed.
End Upd.

Lemma par_spec : forall i, 0 < i -> i = 2 * par i + 1 \/ i = 2 * par i + 2.
Proof.
  intros i Hi. unfold par. pose proof (Nat.div2_odd (i - 1)) as H.
  destruct (Nat.odd (i - 1)); simpl Nat.b2n in H; lia.
Qed.

Lemma siftdown_S : forall A ltb f (h : list A) s x pos,
    siftdown ltb (S f) h s x pos =
    if Nat.ltb s pos then
      match nth_error h (par pos) with
      | None => None
      | Some parent =>
          if ltb x parent then siftdown ltb f (upd h pos parent) s x (par pos)
          else Some (upd h pos x)
      end
    else Some (upd h pos x).
Proof. reflexivity. Qed.

Lemma siftup_loop_S : forall A ltb f (h : list A) pos,
    siftup_loop ltb (S f) h pos =
    if Nat.ltb (2 * pos + 1) (length h) then
      match nth_error h (2 * pos + 1) with
      | None => None
      | Some cl =>
          match (if Nat.ltb (2 * pos + 1 + 1) (length h) then
                   match nth_error h (2 * pos + 1 + 1) with
                   | None => None
                   | Some cr => Some (if negb (ltb cl cr) then 2 * pos + 1 + 1 else 2 * pos + 1)
                   end
                 else Some (2 * pos + 1)) with
          | None => None
          | Some cp =>
              match nth_error h cp with
              | None => None
              | Some c => siftup_loop ltb f (upd h pos c) cp
              end
          end
      end
    else Some (h, pos).
Proof. reflexivity. Qed.

(* ------------------------------------------------------------------------------------------ *)
Section HeapProofs.
  Variable A : Type.
  Variable ltb : A -> A -> bool.
  Hypothesis ltb_irrefl : forall a, ltb a a = false.
  Hypothesis ltb_trans : forall a b c, ltb a b = true -> ltb b c = true -> ltb a c = true.
  Hypothesis ltb_negtrans : forall a b c, ltb a b = false -> ltb b c = false -> ltb a c = false.

  Lemma ltb_asym : forall a b, ltb a b = true -> ltb b a = false.
  Proof.
    intros a b H. destruct (ltb b a) eqn:E; [|reflexivity].
    rewrite <- (ltb_irrefl a). symmetry. eapply ltb_trans; eassumption.
  Qed.

  (* a < b, not (c < b)  ==>  a < c *)
  Lemma ltb_lt_nlt : forall a b c, ltb a b = true -> ltb c b = false -> ltb a c = true.
  Proof.
    intros a b c H1 H2. destruct (ltb a c) eqn:E; [reflexivity|].
    rewrite (ltb_negtrans a c b E H2) in H1. discriminate.
  Qed.

  (* the item at the parent position is not greater than the item at i *)
  Definition heap_inv (h : list A) : Prop :=
    forall i a p, 0 < i -> nth_error h i = Some a -> nth_error h (par i) = Some p -> ltb a p = false.

  Lemma heap_inv_nil : heap_inv [].
  Proof. intros i a p _ H. destruct i; discriminate. Qed.

  (* heap_inv with a hole at pos: all parent/child relations not involving pos, and the children of
     pos are not less than the parent of pos *)
  Definition hole_inv (h : list A) (pos : nat) : Prop :=
    (forall i a p, 0 < i -> i <> pos -> par i <> pos ->
                   nth_error h i = Some a -> nth_error h (par i) = Some p -> ltb a p = false) /\
    (forall c a g, 0 < pos -> 0 < c -> par c = pos ->
                   nth_error h c = Some a -> nth_error h (par pos) = Some g -> ltb a g = false).

  (* the children of pos are not less than x *)
  Definition kids_ge (h : list A) (pos : nat) (x : A) : Prop :=
    forall c a, 0 < c -> par c = pos -> nth_error h c = Some a -> ltb a x = false.

  Lemma hole_inv_upd : forall h pos y, hole_inv h pos -> hole_inv (upd h pos y) pos.
  Proof.
    intros h pos y [HA HC]. split.
    - intros i a p Hi N1 N2 Ha Hp.
      apply nth_upd in Ha. apply nth_upd in Hp.
      destruct Ha as [[E _]|[_ Ha]]; [congruence|].
      destruct Hp as [[E _]|[_ Hp]]; [congruence|].
      eapply HA; eassumption.
    - intros c a g Hpos Hc Hpc Ha Hg.
      pose proof (par_spec c Hc). pose proof (par_spec pos Hpos).
      apply nth_upd in Ha. apply nth_upd in Hg.
      destruct Ha as [[E _]|[_ Ha]]; [lia|].
      destruct Hg as [[E _]|[_ Hg]]; [lia|].
      eapply HC; eassumption.
  Qed.

  Lemma kids_ge_upd : forall h pos y x, kids_ge h pos x -> kids_ge (upd h pos y) pos x.
  Proof.
    intros h pos y x HK c a Hc Hpc Ha. pose proof (par_spec c Hc).
    apply nth_upd in Ha. destruct Ha as [[E _]|[_ Ha]]; [lia|]. eapply HK; eassumption.
  Qed.

  Lemma heap_inv_hole : forall h pos, heap_inv h -> hole_inv h pos.
  Proof.
    intros h pos H. split.
    - intros i a p Hi _ _ Ha Hp. eapply H; eassumption.
    - intros c a g Hpos Hc Hpc Ha Hg. subst pos.
      destruct (nth_error_ex _ h (par c)) as [m Hm].
      { pose proof (par_spec c Hc). apply nth_error_lt in Ha. lia. }
      eapply ltb_negtrans; [eapply H; [exact Hc|exact Ha|exact Hm]|].
      eapply H; [exact Hpos|exact Hm|exact Hg].
  Qed.

  (* the loop of _siftdown stops: store newitem *)
  Lemma bubble_stop : forall h pos x,
      pos < length h -> hole_inv h pos -> kids_ge h pos x ->
      (0 < pos -> forall p, nth_error h (par pos) = Some p -> ltb x p = false) ->
      heap_inv (upd h pos x).
  Proof.
    intros h pos x Hlen [HA HC] HK HP i a p Hi Ha Hp.
    pose proof (par_spec i Hi) as Si.
    apply nth_upd in Ha. apply nth_upd in Hp.
    destruct Ha as [[E1 E2]|[E1 Ha]]; destruct Hp as [[E3 E4]|[E3 Hp]].
    - lia.
    - subst i a. eapply HP; eassumption.
    - subst p. eapply HK; [exact Hi| |exact Ha]. congruence.
    - eapply HA; try eassumption; congruence.
  Qed.

  (* the loop of _siftdown continues: newitem < parent, the parent moves down *)
  Lemma bubble_step : forall h pos x parent,
      0 < pos -> nth_error h (par pos) = Some parent -> ltb x parent = true ->
      hole_inv h pos -> kids_ge h pos x ->
      hole_inv (upd h pos parent) (par pos) /\ kids_ge (upd h pos parent) (par pos) x.
  Proof.
    intros h pos x parent Hpos Hpar Hlt [HA HC] HK.
    pose proof (par_spec pos Hpos) as Sp.
    split; [split|].
    - intros i a p Hi N1 N2 Ha Hp. pose proof (par_spec i Hi) as Si.
      apply nth_upd in Ha. apply nth_upd in Hp.
      destruct Ha as [[E1 E2]|[E1 Ha]]; destruct Hp as [[E3 E4]|[E3 Hp]].
      + lia.
      + subst i. congruence.
      + subst p. eapply HC; try eassumption. congruence.
      + eapply HA; try eassumption; congruence.
    - intros c a g Hpp Hc Hpc Ha Hg. pose proof (par_spec c Hc) as Sc.
      pose proof (par_spec (par pos) Hpp) as Spp.
      apply nth_upd in Ha. apply nth_upd in Hg.
      destruct Hg as [[E3 E4]|[E3 Hg]]; [lia|].
      assert (Hpg : ltb parent g = false).
      { eapply (HA (par pos)); try eassumption; lia. }
      destruct Ha as [[E1 E2]|[E1 Ha]].
      + subst a. exact Hpg.
      + eapply ltb_negtrans; [|exact Hpg].
        eapply (HA c); try eassumption; try lia. congruence.
    - intros c a Hc Hpc Ha. pose proof (par_spec c Hc) as Sc.
      apply nth_upd in Ha. destruct Ha as [[E1 E2]|[E1 Ha]].
      + subst a. apply ltb_asym. exact Hlt.
      + apply ltb_asym. eapply ltb_lt_nlt; [exact Hlt|].
        eapply (HA c); try eassumption; try lia. congruence.
  Qed.

  Lemma siftdown_ok : forall f h pos x,
      pos < f -> pos < length h -> hole_inv h pos -> kids_ge h pos x ->
      exists h', siftdown ltb f h 0 x pos = Some h' /\ heap_inv h' /\ Permutation h' (upd h pos x).
  Proof.
    induction f as [|f IH]; intros h pos x Hf Hlen HI HK; [lia|].
    rewrite siftdown_S. destruct (Nat.ltb_spec 0 pos) as [Hpos|Hpos].
    - pose proof (par_spec pos Hpos) as Sp.
      destruct (nth_error_ex _ h (par pos)) as [parent Hpar]; [lia|]. rewrite Hpar.
      destruct (nth_error_ex _ h pos Hlen) as [old Hold].
      destruct (ltb x parent) eqn:Hlt.
      + destruct (bubble_step h pos x parent Hpos Hpar Hlt HI HK) as [HI' HK'].
        destruct (IH (upd h pos parent) (par pos) x) as [h' [E [Hh' P]]]; try assumption; try lia.
        { rewrite upd_length. lia. }
        exists h'. split; [exact E|]. split; [exact Hh'|].
        eapply perm_trans; [exact P|].
        eapply perm_upd_swap; try eassumption. lia.
      + eexists. split; [reflexivity|]. split; [|apply Permutation_refl].
        apply bubble_stop; try assumption. intros _ p Hp. congruence.
    - eexists. split; [reflexivity|]. split; [|apply Permutation_refl].
      apply bubble_stop; try assumption. intros Hp. lia.
  Qed.

  Theorem heappush_spec : forall h x,
      heap_inv h -> exists h', heappush ltb h x = Some h' /\ heap_inv h' /\ Permutation h' (x :: h).
  Proof.
    intros h x Hh. unfold heappush.
    assert (Hlen : length (h ++ [x]) = S (length h)) by (rewrite app_length; simpl; lia).
    rewrite Hlen. replace (S (length h) - 1) with (length h) by lia.
    destruct (siftdown_ok (S (length h)) (h ++ [x]) (length h) x) as [h' [E [Hh' P]]]; try lia.
    - split.
      + intros i a p Hi N1 N2 Ha Hp. pose proof (par_spec i Hi) as Si.
        pose proof (nth_error_lt _ _ _ _ Ha) as Li. rewrite Hlen in Li.
        rewrite nth_error_app1 in Ha by lia. rewrite nth_error_app1 in Hp by lia.
        eapply Hh; eassumption.
      + intros c a g _ Hc Hpc Ha Hg. pose proof (par_spec c Hc) as Sc.
        apply nth_error_lt in Ha. rewrite Hlen in Ha. lia.
    - intros c a Hc Hpc Ha. pose proof (par_spec c Hc) as Sc.
      apply nth_error_lt in Ha. rewrite Hlen in Ha. lia.
    - exists h'. split; [exact E|]. split; [exact Hh'|].
      eapply perm_trans; [exact P|].
      assert (Hl : nth_error (h ++ [x]) (length h) = Some x).
      { rewrite nth_error_app2 by lia. rewrite Nat.sub_diag. reflexivity. }
      apply (Permutation_cons_inv (a := x)).
      eapply perm_trans; [apply upd_perm; exact Hl|].
      apply perm_skip. apply Permutation_sym. apply Permutation_cons_append.
  Qed.

  (* one iteration of the loop of _siftup: the smaller child cp moves up into the hole *)
  Lemma down_step : forall h pos cp c,
      0 < cp -> par cp = pos -> nth_error h cp = Some c ->
      (forall c' a, 0 < c' -> par c' = pos -> c' <> cp -> nth_error h c' = Some a -> ltb a c = false) ->
      hole_inv h pos -> hole_inv (upd h pos c) cp.
  Proof.
    intros h pos cp c Hcp Hpcp Hc Hsib [HA HC].
    pose proof (par_spec cp Hcp) as Scp. split.
    - intros i a p Hi N1 N2 Ha Hp. pose proof (par_spec i Hi) as Si.
      apply nth_upd in Ha. apply nth_upd in Hp.
      destruct Ha as [[E1 E2]|[E1 Ha]]; destruct Hp as [[E3 E4]|[E3 Hp]].
      + lia.
      + subst i a. eapply (HC cp); eassumption.
      + subst p. eapply Hsib; try eassumption. congruence.
      + eapply HA; try eassumption; congruence.
    - intros k a g _ Hk Hpk Ha Hg. pose proof (par_spec k Hk) as Sk.
      apply nth_upd in Ha. apply nth_upd in Hg.
      destruct Ha as [[E1 E2]|[E1 Ha]]; [lia|].
      destruct Hg as [[E3 E4]|[E3 Hg]]; [|congruence].
      subst g. eapply (HA k); try eassumption; try lia. congruence.
  Qed.

  Lemma siftup_loop_ok : forall f h pos,
      length h - pos <= f -> pos < length h -> hole_inv h pos ->
      exists h1 leaf, siftup_loop ltb f h pos = Some (h1, leaf) /\
                      length h1 = length h /\ leaf < length h /\ hole_inv h1 leaf /\
                      length h <= 2 * leaf + 1 /\
                      (forall x, Permutation (upd h1 leaf x) (upd h pos x)).
  Proof.
    induction f as [|f IH]; intros h pos Hf Hlen HI; [lia|].
    rewrite siftup_loop_S.
    destruct (Nat.ltb_spec (2 * pos + 1) (length h)) as [Hl|Hl].
    2:{ exists h, pos. split; [reflexivity|]. split; [reflexivity|]. split; [exact Hlen|].
        split; [exact HI|]. split; [lia|]. intros x. apply Permutation_refl. }
    destruct (nth_error_ex _ h (2 * pos + 1) Hl) as [cl Hcl]. rewrite Hcl.
    destruct (nth_error_ex _ h pos Hlen) as [old Hold].
    (* the chosen child and the sibling property *)
    assert (Hpick : exists cp c,
               (if Nat.ltb (2 * pos + 1 + 1) (length h) then
                  match nth_error h (2 * pos + 1 + 1) with
                  | None => None
                  | Some cr => Some (if negb (ltb cl cr) then 2 * pos + 1 + 1 else 2 * pos + 1)
                  end
                else Some (2 * pos + 1)) = Some cp /\
               nth_error h cp = Some c /\ (cp = 2 * pos + 1 \/ cp = 2 * pos + 2) /\
               (forall c' a, 0 < c' -> par c' = pos -> c' <> cp -> nth_error h c' = Some a ->
                             ltb a c = false)).
    { destruct (Nat.ltb_spec (2 * pos + 1 + 1) (length h)) as [Hr|Hr].
      - destruct (nth_error_ex _ h (2 * pos + 1 + 1) Hr) as [cr Hcr]. rewrite Hcr.
        destruct (ltb cl cr) eqn:Hlt; simpl.
        + exists (2 * pos + 1), cl. split; [reflexivity|]. split; [exact Hcl|]. split; [lia|].
          intros c' a Hc' Hpc' Hne Ha. pose proof (par_spec c' Hc') as Sc.
          replace c' with (2 * pos + 1 + 1) in Ha by lia.
          rewrite Hcr in Ha. injection Ha as <-. apply ltb_asym. exact Hlt.
        + exists (2 * pos + 1 + 1), cr. split; [reflexivity|]. split; [exact Hcr|]. split; [lia|].
          intros c' a Hc' Hpc' Hne Ha. pose proof (par_spec c' Hc') as Sc.
          replace c' with (2 * pos + 1) in Ha by lia.
          rewrite Hcl in Ha. injection Ha as <-. exact Hlt.
      - exists (2 * pos + 1), cl. split; [reflexivity|]. split; [exact Hcl|]. split; [lia|].
        intros c' a Hc' Hpc' Hne Ha. pose proof (par_spec c' Hc') as Sc.
        apply nth_error_lt in Ha. lia. }
    destruct Hpick as [cp [c [-> [Hc [Hcp Hsib]]]]]. rewrite Hc.
    assert (Hcp0 : 0 < cp) by lia.
    pose proof (par_spec cp Hcp0) as Scp.
    assert (Hpcp : par cp = pos) by lia.
    pose proof (nth_error_lt _ _ _ _ Hc) as Lcp.
    destruct (IH (upd h pos c) cp) as [h1 [leaf [E [L1 [L2 [HI1 [L3 P]]]]]]].
    - rewrite upd_length. lia.
    - rewrite upd_length. exact Lcp.
    - eapply down_step; eassumption.
    - rewrite upd_length in *. exists h1, leaf.
      split; [exact E|]. split; [exact L1|]. split; [exact L2|]. split; [exact HI1|]. split; [exact L3|].
      intros x. eapply perm_trans; [apply P|].
      eapply perm_upd_swap; try eassumption. lia.
  Qed.

  Lemma heap_root_min : forall h r,
      heap_inv h -> nth_error h 0 = Some r -> forall i a, nth_error h i = Some a -> ltb a r = false.
  Proof.
    intros h r Hh Hr i. induction i as [i IH] using lt_wf_ind. intros a Ha.
    destruct (Nat.eq_dec i 0) as [->|Hi].
    - rewrite Hr in Ha. injection Ha as <-. apply ltb_irrefl.
    - assert (Hi' : 0 < i) by lia. pose proof (par_spec i Hi') as Si.
      pose proof (nth_error_lt _ _ _ _ Ha) as Li.
      destruct (nth_error_ex _ h (par i)) as [p Hp]; [lia|].
      eapply ltb_negtrans; [eapply Hh; eassumption|]. apply (IH (par i)); [lia|exact Hp].
  Qed.

  Lemma heap_inv_prefix : forall h t, heap_inv (h ++ t) -> heap_inv h.
  Proof.
    intros h t H i a p Hi Ha Hp.
    pose proof (nth_error_lt _ _ _ _ Ha). pose proof (nth_error_lt _ _ _ _ Hp).
    eapply H; [exact Hi| |]; rewrite nth_error_app1; eassumption.
  Qed.

  Lemma heappop_nil : heappop ltb [] = None.
  Proof. reflexivity. Qed.

  Theorem heappop_spec : forall h,
      heap_inv h -> h <> [] ->
      exists x h', heappop ltb h = Some (x, h') /\ heap_inv h' /\ Permutation h (x :: h') /\
                   (forall y, In y h -> ltb y x = false).
  Proof.
    intros h Hh Hne. destruct (exists_last Hne) as [h0 [lastelt ->]].
    unfold heappop.
    assert (Hlen : length (h0 ++ [lastelt]) - 1 = length h0) by (rewrite app_length; simpl; lia).
    rewrite Hlen. rewrite nth_error_app2 by lia. rewrite Nat.sub_diag. simpl nth_error.
    rewrite firstn_app, firstn_all, Nat.sub_diag. simpl firstn. rewrite app_nil_r.
    cbv zeta.
    destruct h0 as [|r t] eqn:Eh0.
    - exists lastelt, []. split; [reflexivity|]. split; [apply heap_inv_nil|].
      split; [apply Permutation_refl|].
      intros y [<-|[]]. apply ltb_irrefl.
    - rewrite <- Eh0 in *.
      assert (Hr : nth_error h0 0 = Some r) by (rewrite Eh0; reflexivity).
      assert (L0 : 0 < length h0) by (rewrite Eh0; simpl; lia).
      pose proof (heap_inv_prefix _ _ Hh) as Hh0.
      unfold siftup.
      rewrite nth_upd_eq by assumption. rewrite upd_length.
      destruct (siftup_loop_ok (length h0) (upd h0 0 lastelt) 0)
        as [h1 [leaf [E [L1 [L2 [HI1 [L3 P]]]]]]].
      + rewrite upd_length. lia.
      + rewrite upd_length. exact L0.
      + apply hole_inv_upd. apply heap_inv_hole. exact Hh0.
      + rewrite E. rewrite upd_length in *.
        destruct (siftdown_ok (S leaf) (upd h1 leaf lastelt) leaf lastelt) as [h2 [E2 [Hh2 P2]]].
        * lia.
        * rewrite upd_length. lia.
        * apply hole_inv_upd. exact HI1.
        * intros c a Hc Hpc Ha. pose proof (par_spec c Hc) as Sc.
          apply nth_error_lt in Ha. rewrite upd_length in Ha. lia.
        * rewrite E2. exists r, h2. split; [reflexivity|]. split; [exact Hh2|]. split.
          -- rewrite upd_upd in P2.
             eapply perm_trans; [apply Permutation_sym; apply Permutation_cons_append|].
             eapply perm_trans; [apply Permutation_sym; apply (upd_perm _ h0 0 lastelt r Hr)|].
             apply perm_skip. apply Permutation_sym.
             eapply perm_trans; [exact P2|].
             eapply perm_trans; [apply P|]. rewrite upd_upd. apply Permutation_refl.
          -- intros y Hy. apply In_nth_error in Hy. destruct Hy as [i Hy].
             eapply heap_root_min; [exact Hh| |exact Hy].
             rewrite nth_error_app1 by assumption. exact Hr.
  Qed.

  Corollary heappop_some_inv : forall h x h',
      heap_inv h -> heappop ltb h = Some (x, h') ->
      heap_inv h' /\ Permutation h (x :: h') /\ (forall y, In y h -> ltb y x = false).
  Proof.
    intros h x h' Hh E. destruct h as [|a t].
    - rewrite heappop_nil in E. discriminate.
    - destruct (heappop_spec (a :: t) Hh) as [x' [h'' [E' R]]]; [discriminate|].
      rewrite E in E'. injection E' as <- <-. exact R.
  Qed.

  (* ---------------------------------------------------------------------------------------- *)
  (* the plain-list priority queue Elem/HeapList.v                                              *)
  (* ---------------------------------------------------------------------------------------- *)

  Definition list_min : A -> list A -> A := lmin ltb.

  Lemma lmin_split_gen : forall t p x s,
      (forall y, In y p -> ltb x y = true) -> (forall y, In y s -> ltb y x = false) ->
      exists l1 l2, p ++ x :: s ++ t = l1 ++ lmin ltb x t :: l2 /\
                    (forall y, In y l1 -> ltb (lmin ltb x t) y = true) /\
                    (forall y, In y l2 -> ltb y (lmin ltb x t) = false).
  Proof.
    induction t as [|y t IH]; intros p x s Hp Hs.
    - exists p, s. rewrite app_nil_r. simpl. auto.
    - simpl lmin. destruct (ltb y x) eqn:Hyx.
      + destruct (IH (p ++ x :: s) y []) as [l1 [l2 [E R]]].
        * intros z Hz. apply in_app_or in Hz. destruct Hz as [Hz|[<-|Hz]].
          -- eapply ltb_trans; [exact Hyx|]. apply Hp. exact Hz.
          -- exact Hyx.
          -- eapply ltb_lt_nlt; [exact Hyx|]. apply Hs. exact Hz.
        * intros z [].
        * exists l1, l2. split; [|exact R]. rewrite <- E. simpl.
          rewrite <- app_assoc. reflexivity.
      + destruct (IH p x (s ++ [y])) as [l1 [l2 [E R]]].
        * exact Hp.
        * intros z Hz. apply in_app_or in Hz. destruct Hz as [Hz|[<-|[]]]; [apply Hs; exact Hz|exact Hyx].
        * exists l1, l2. split; [|exact R]. rewrite <- E.
          rewrite <- app_assoc. reflexivity.
  Qed.

  Lemma lremove_split : forall l1 m l2,
      (forall y, In y l1 -> ltb m y = true) -> lremove ltb m (l1 ++ m :: l2) = l1 ++ l2.
  Proof.
    induction l1 as [|y l1 IH]; intros m l2 H; simpl.
    - rewrite ltb_irrefl. reflexivity.
    - rewrite (H y) by (left; reflexivity). f_equal. apply IH. intros z Hz. apply H. right. exact Hz.
  Qed.

  Lemma lpop_nil : lpop ltb [] = None.
  Proof. reflexivity. Qed.

  Theorem lpop_spec : forall l,
      l <> [] ->
      exists m l1 l2, lpop ltb l = Some (m, l1 ++ l2) /\ l = l1 ++ m :: l2 /\
                      (forall y, In y l -> ltb y m = false).
  Proof.
    intros [|x t] Hne; [congruence|].
    destruct (lmin_split_gen t [] x []) as [l1 [l2 [E [H1 H2]]]]; try (intros y []).
    simpl in E. exists (lmin ltb x t), l1, l2. split; [|split].
    - unfold lpop. f_equal. f_equal.
      transitivity (lremove ltb (lmin ltb x t) (l1 ++ lmin ltb x t :: l2)).
      + rewrite <- E. reflexivity.
      + apply lremove_split. exact H1.
    - exact E.
    - intros y Hy. rewrite E in Hy. apply in_app_or in Hy. destruct Hy as [Hy|[<-|Hy]].
      + apply ltb_asym. apply H1. exact Hy.
      + apply ltb_irrefl.
      + apply H2. exact Hy.
  Qed.

  Lemma lpop_none : forall l, lpop ltb l = None -> l = [].
  Proof. intros [|x t] H; [reflexivity|discriminate]. Qed.

  Lemma lpop_list_min : forall x t m l', lpop ltb (x :: t) = Some (m, l') -> m = list_min x t.
  Proof. intros x t m l' H. simpl in H. injection H as <- _. reflexivity. Qed.

  (* recursive formulation of distinct_keys *)
  Definition kcmp (a b : A) : Prop := ltb a b = true \/ ltb b a = true.

  Fixpoint dkeys (l : list A) : Prop :=
    match l with
    | [] => True
    | a :: t => (forall b, In b t -> kcmp a b) /\ dkeys t
    end.

  Lemma kcmp_sym : forall a b, kcmp a b -> kcmp b a.
  Proof. intros a b [H|H]; [right|left]; exact H. Qed.

  Lemma distinct_keys_dkeys : forall l, distinct_keys ltb l <-> dkeys l.
  Proof.
    induction l as [|a t IH]; simpl.
    - split; [trivial|]. intros _ l1 a l2 b l3 E. destruct l1; discriminate.
    - split.
      + intros H. split.
        * intros b Hb. apply in_split in Hb. destruct Hb as [t1 [t2 ->]].
          apply (H [] a t1 b t2). reflexivity.
        * apply IH. intros l1 x l2 y l3 E. apply (H (a :: l1) x l2 y l3). rewrite E. reflexivity.
      + intros [H1 H2] l1 x l2 y l3 E. destruct l1 as [|z l1]; simpl in E.
        * injection E as -> ->. apply H1. apply in_or_app. right. left. reflexivity.
        * injection E as -> ->. apply IH in H2. eapply H2. reflexivity.
  Qed.

  Lemma dkeys_remove : forall l1 m l2, dkeys (l1 ++ m :: l2) -> dkeys (l1 ++ l2).
  Proof.
    induction l1 as [|a l1 IH]; intros m l2 H; simpl in *.
    - apply H.
    - destruct H as [H1 H2]. split; [|eapply IH; exact H2].
      intros b Hb. apply H1. apply in_app_or in Hb. apply in_or_app.
      destruct Hb as [Hb|Hb]; [left|right; right]; exact Hb.
  Qed.

  Lemma dkeys_app_one : forall l x, dkeys l -> (forall y, In y l -> kcmp y x) -> dkeys (l ++ [x]).
  Proof.
    induction l as [|a l IH]; intros x H Hx; simpl in *.
    - split; [intros b []|trivial].
    - destruct H as [H1 H2]. split.
      + intros b Hb. apply in_app_or in Hb. destruct Hb as [Hb|[<-|[]]].
        * apply H1. exact Hb.
        * apply Hx. left. reflexivity.
      + apply IH; [exact H2|]. intros y Hy. apply Hx. right. exact Hy.
  Qed.

  (* under dkeys, two elements neither of which is less than the other are the same element *)
  Lemma dkeys_unique : forall l x m,
      dkeys l -> In x l -> In m l -> ltb x m = false -> ltb m x = false -> x = m.
  Proof.
    induction l as [|a l IH]; intros x m H Hx Hm N1 N2; simpl in *; [contradiction|].
    destruct H as [H1 H2]. destruct Hx as [<-|Hx]; destruct Hm as [<-|Hm].
    - reflexivity.
    - destruct (H1 m Hm) as [C|C]; congruence.
    - destruct (H1 x Hx) as [C|C]; congruence.
    - eapply IH; eassumption.
  Qed.

  Lemma distinct_keys_app_one : forall l x,
      distinct_keys ltb l -> (forall y, In y l -> ltb y x = true \/ ltb x y = true) ->
      distinct_keys ltb (l ++ [x]).
  Proof.
    intros l x H Hx. apply distinct_keys_dkeys. apply dkeys_app_one.
    - apply distinct_keys_dkeys. exact H.
    - exact Hx.
  Qed.

  Lemma distinct_keys_remove : forall l1 m l2,
      distinct_keys ltb (l1 ++ m :: l2) -> distinct_keys ltb (l1 ++ l2).
  Proof.
    intros l1 m l2 H. apply distinct_keys_dkeys. eapply dkeys_remove.
    apply distinct_keys_dkeys. exact H.
  Qed.

  (* the least element of a list with distinct keys is unique *)
  Lemma distinct_keys_min_unique : forall l x m,
      distinct_keys ltb l -> In x l -> In m l ->
      (forall y, In y l -> ltb y x = false) -> (forall y, In y l -> ltb y m = false) -> x = m.
  Proof.
    intros l x m H Hx Hm Mx Mm. apply distinct_keys_dkeys in H.
    eapply dkeys_unique; try eassumption; auto.
  Qed.

  Theorem heap_sim_push : forall h l x,
      heap_inv h -> Permutation h l ->
      exists h', heappush ltb h x = Some h' /\ heap_inv h' /\ Permutation h' (l ++ [x]).
  Proof.
    intros h l x Hh P. destruct (heappush_spec h x Hh) as [h' [E [Hh' P']]].
    exists h'. split; [exact E|]. split; [exact Hh'|].
    eapply perm_trans; [exact P'|].
    eapply perm_trans; [apply perm_skip; exact P|]. apply Permutation_cons_append.
  Qed.

  Theorem heap_sim_pop : forall h l,
      heap_inv h -> Permutation h l -> distinct_keys ltb l ->
      forall m l', lpop ltb l = Some (m, l') ->
      exists h', heappop ltb h = Some (m, h') /\ heap_inv h' /\ Permutation h' l' /\
                 distinct_keys ltb l'.
  Proof.
    intros h l Hh P D m l' E.
    assert (Hl : l <> []) by (intros ->; discriminate).
    assert (Hne : h <> []).
    { intros ->. apply Permutation_nil in P. congruence. }
    destruct (lpop_spec l Hl) as [m0 [l1 [l2 [E0 [Es Mm]]]]].
    rewrite E in E0. injection E0 as <- ->.
    destruct (heappop_spec h Hh Hne) as [x [h' [Ep [Hh' [Pp Mx]]]]].
    assert (Hxm : x = m).
    { apply (distinct_keys_min_unique l x m D).
      - eapply Permutation_in; [exact P|]. eapply Permutation_in; [apply Permutation_sym; exact Pp|].
        left. reflexivity.
      - rewrite Es. apply in_or_app. right. left. reflexivity.
      - intros y Hy. apply Mx. eapply Permutation_in; [apply Permutation_sym; exact P|exact Hy].
      - exact Mm. }
    subst x. exists h'. split; [exact Ep|]. split; [exact Hh'|]. split.
    - apply (Permutation_cons_inv (a := m)).
      eapply perm_trans; [apply Permutation_sym; exact Pp|].
      eapply perm_trans; [exact P|]. rewrite Es. apply Permutation_sym. apply Permutation_middle.
    - rewrite Es in D. eapply distinct_keys_remove. exact D.
  Qed.

  Theorem heap_sim_pop_none : forall h l,
      Permutation h l -> lpop ltb l = None -> heappop ltb h = None.
  Proof.
    intros h l P E. apply lpop_none in E. subst l.
    apply Permutation_sym in P. apply Permutation_nil in P. subst h. reflexivity.
  Qed.

End HeapProofs.

Arguments heap_inv {A} ltb h.
Arguments hole_inv {A} ltb h pos.
Arguments kids_ge {A} ltb h pos x.
Arguments list_min {A} ltb x l.
Arguments kcmp {A} ltb a b.
Arguments dkeys {A} ltb l.

(* ------------------------------------------------------------------------------------------ *)
(* non-vacuity: the functions compute what CPython computes                                     *)
(* ------------------------------------------------------------------------------------------ *)
Fixpoint heap_pushall {A} (ltb : A -> A -> bool) (h : list A) (xs : list A) : option (list A) :=
  match xs with
  | [] => Some h
  | x :: t => match heappush ltb h x with Some h' => heap_pushall ltb h' t | None => None end
  end.

Fixpoint heap_popall {A} (ltb : A -> A -> bool) (n : nat) (h : list A) : option (list A) :=
  match n with
  | O => Some []
  | S k =>
      match heappop ltb h with
      | Some (x, h') => match heap_popall ltb k h' with Some r => Some (x :: r) | None => None end
      | None => None
      end
  end.

Definition heap_key_ltb (a b : nat * nat) : bool := Nat.ltb (fst a) (fst b).

(* six items with equal keys, tagged 0..5 in push order, leave in the order CPython's heapq gives:
   >>> h = []; [heapq.heappush(h, K(7, i)) for i in range(6)]; [heapq.heappop(h).tag for _ in range(6)]
   [0, 2, 5, 4, 1, 3] *)
Example heapq_tie_order :
  match heap_pushall heap_key_ltb [] [(7,0); (7,1); (7,2); (7,3); (7,4); (7,5)] with
  | Some h => heap_popall heap_key_ltb 6 h
  | None => None
  end = Some [(7,0); (7,2); (7,5); (7,4); (7,1); (7,3)].
Proof. vm_compute; reflexivity. Qed.

Example heapq_sorts :
  match heap_pushall Nat.ltb [] [5; 3; 8; 1; 9; 2] with
  | Some h => heap_popall Nat.ltb 6 h
  | None => None
  end = Some [1; 2; 3; 5; 8; 9].
Proof. vm_compute; reflexivity. Qed.

Example heapq_array : heap_pushall Nat.ltb [] [5; 3; 8; 1; 9; 2] = Some [1; 3; 2; 5; 9; 8].
Proof. vm_compute; reflexivity. Qed.

Example lpop_example : lpop heap_key_ltb [(7,0); (3,1); (9,2); (3,3)] = Some ((3,1), [(7,0); (9,2); (3,3)]).
Proof. vm_compute; reflexivity. Qed.

Print Assumptions heappush_spec.
Print Assumptions heappop_spec.
Print Assumptions heap_sim_pop.
