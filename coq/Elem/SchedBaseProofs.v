(* Proofs about Elem/SchedBase.v: the invariant of the multi-queue scheduler automaton and what follows from it for
   EVERY admissible execution, every configuration with positive allowances and every rate > 0:
   conservation / per-flow FIFO / counters, one transmission at a time of exactly 8*size/rate, no lost wake-up
   (work conservation), the visiting order of the run() loop.  SPProofs.v / RRProofs.v / WRRProofs.v instantiate. *)
From Coq Require Import ZArith QArith List Bool Lia Lqa.
From ONL Require Import Elem.Packet Elem.StoreQ Elem.StoreQProofs Elem.SchedBase.
Import ListNotations.

(* ---------------------------------------------------------------------------------------------- *)
(* small list / map facts *)

Definition is_flow (f : Z) (p : pkt) : bool := Z.eqb (flow p) f.
Fixpoint sumsz (l : list pkt) : Z := match l with [] => 0%Z | p :: t => (psize p + sumsz t)%Z end.
Fixpoint zsum (g : Z -> Z) (l : list Z) : Z := match l with [] => 0%Z | f :: t => (g f + zsum g t)%Z end.

Lemma sumsz_app a b : sumsz (a ++ b) = (sumsz a + sumsz b)%Z.
Proof. induction a as [|x a IH]; cbn; [reflexivity|]. rewrite IH. lia. Qed.

Lemma upd_same {A} (m : Z -> A) f v : upd m f v f = v.
Proof. unfold upd. rewrite Z.eqb_refl. reflexivity. Qed.

Lemma upd_other {A} (m : Z -> A) f v g : g <> f -> upd m f v g = m g.
Proof. intros H. unfold upd. destruct (Z.eqb_spec g f); [contradiction|reflexivity]. Qed.

Lemma zsum_upd_notin g f v l : ~ In f l -> zsum (upd g f v) l = zsum g l.
Proof.
  induction l as [|x t IH]; cbn; [reflexivity|]. intros H.
  rewrite upd_other by (intros E; apply H; left; auto). rewrite IH by (intros E; apply H; right; auto). reflexivity.
Qed.

Lemma zsum_upd g f v l : NoDup l -> In f l -> zsum (upd g f v) l = (zsum g l - g f + v)%Z.
Proof.
  induction l as [|x t IH]; cbn; [tauto|]. intros ND [->|Hin].
  - inversion ND; subst. rewrite upd_same, zsum_upd_notin by assumption. lia.
  - inversion ND; subst. assert (x <> f) by (intros ->; contradiction).
    rewrite upd_other by assumption. rewrite IH by assumption. lia.
Qed.

Lemma zsum_nonneg g l : (forall f, In f l -> (0 <= g f)%Z) -> (0 <= zsum g l)%Z.
Proof.
  induction l as [|x t IH]; cbn; intros H; [lia|].
  assert (0 <= g x)%Z by (apply H; left; auto). assert (0 <= zsum g t)%Z by (apply IH; intros; apply H; right; auto). lia.
Qed.

Lemma zsum_zero g l : (forall f, In f l -> (0 <= g f)%Z) -> zsum g l = 0%Z -> forall f, In f l -> g f = 0%Z.
Proof.
  induction l as [|x t IH]; cbn; intros H E f Hf; [destruct Hf|].
  assert (0 <= g x)%Z by (apply H; left; auto).
  assert (0 <= zsum g t)%Z by (apply zsum_nonneg; intros; apply H; right; auto).
  destruct Hf as [<-|Hf]; [lia|]. apply IH; auto. lia.
Qed.

Lemma zsum_pos g l : (forall f, In f l -> (0 <= g f)%Z) -> (0 < zsum g l)%Z -> exists f, In f l /\ (0 < g f)%Z.
Proof.
  induction l as [|x t IH]; cbn; intros H E; [lia|].
  destruct (Z_lt_le_dec 0 (g x)) as [P|P]; [exists x; auto|].
  assert (0 <= g x)%Z by (apply H; left; auto).
  destruct IH as (f & Hf & Pf); [intros; apply H; right; auto|lia|]. exists f; auto.
Qed.

Lemma memZ_In f l : memZ f l = true <-> In f l.
Proof.
  unfold memZ. rewrite existsb_exists. split.
  - intros (x & Hx & E). apply Z.eqb_eq in E. subst. exact Hx.
  - intros H. exists f. split; [exact H|apply Z.eqb_refl].
Qed.

Lemma filter_is_flow_in f p l : In p (filter (is_flow f) l) -> flow p = f /\ In p l.
Proof. intros H. apply filter_In in H as [H1 H2]. unfold is_flow in H2. apply Z.eqb_eq in H2. auto. Qed.

(* ---------------------------------------------------------------------------------------------- *)
(* what the scheduler holds *)

Definition child_pkts (s : mq) : list pkt :=
  match mchild s with CInit p => [p] | CTx p _ => [p] | _ => [] end.

(* packets of flow f inside the scheduler, oldest first: in transmission, travelling in the granted get, in the store *)
Definition held_flow (s : mq) (f : Z) : list pkt :=
  filter (is_flow f) (child_pkts s) ++ map snd (sq_held (mstores s f)).

Definition puts (a : saction) : list pkt := match a with SPut p => [p] | _ => [] end.

(* pc-independent part of the invariant; ins / outs = packets put so far / forwarded so far *)
Record Core (c : mq_cfg) (ins outs : list pkt) (s : mq) : Prop := {
  i_cur : mcur s = match mchild s with CTx p _ => Some p | _ => None end;
  i_cons : forall f, filter (is_flow f) ins = filter (is_flow f) outs ++ held_flow s f;
  i_qc : forall f, mqc s f = Z.of_nat (length (held_flow s f));
  i_qb : forall f, mqb s f = sumsz (held_flow s f);
  i_tot : mtotal s = zsum (mqc s) (dflows c);
  i_ins : forall p, In p ins -> In (flow p) (flows c) /\ (0 <= psize p)%Z;
  i_tokns : sq_nostrand (mtok s);
  i_tokwake : get (mtok s) = GWaiting -> (0 < mtotal s)%Z -> items (mtok s) <> [];
  i_dl : forall p dl, mchild s = CTx p dl -> mnow s <= dl
}.

(* how the program counter, the child and the outstanding gets fit together *)
Record Shape (s : mq) : Prop := {
  i_child : match mpc s with PChild _ => mchild s <> CNone | _ => mchild s = CNone end;
  i_getf : forall g, match get (mstores s g) with
                     | GNone => True
                     | GWaiting => False
                     | GGranted _ => exists rem, mpc s = PGet g rem
                     end;
  i_pget : forall f rem, mpc s = PGet f rem -> exists x, get (mstores s f) = GGranted x;
  i_tokpc : get (mtok s) = GNone <-> mpc s <> PTok
}.

Definition Inv (c : mq_cfg) (ins outs : list pkt) (s : mq) : Prop := Core c ins outs s /\ Shape s.

(* run() is executing (between two yields): no child, no outstanding get *)
Record Mid (s : mq) : Prop := {
  m_child : mchild s = CNone;
  m_getf : forall g, get (mstores s g) = GNone;
  m_tok : get (mtok s) = GNone
}.

Lemma held_flow_eq s s' f :
  mchild s' = mchild s -> sq_held (mstores s' f) = sq_held (mstores s f) -> held_flow s' f = held_flow s f.
Proof. intros H1 H2. unfold held_flow, child_pkts. rewrite H1, H2. reflexivity. Qed.

Lemma held_in_ins c ins outs s f p : Core c ins outs s -> In p (held_flow s f) -> flow p = f /\ In p ins.
Proof.
  intros C H. apply (filter_is_flow_in f p ins). rewrite (i_cons _ _ _ _ C f). apply in_or_app. right. exact H.
Qed.

Lemma qc_nonneg c ins outs s f : Core c ins outs s -> (0 <= mqc s f)%Z.
Proof. intros C. rewrite (i_qc _ _ _ _ C f). lia. Qed.

Lemma total_nonneg c ins outs s : Core c ins outs s -> (0 <= mtotal s)%Z.
Proof. intros C. rewrite (i_tot _ _ _ _ C). apply zsum_nonneg. intros f _. eapply qc_nonneg; eauto. Qed.

Lemma dflows_in c f : In f (dflows c) <-> In f (flows c).
Proof. unfold dflows. apply nodup_In. Qed.

Lemma dflows_nodup c : NoDup (dflows c).
Proof. apply NoDup_nodup. Qed.

(* with nothing in flight, what is held of f is what the store of f contains *)
Lemma mid_held s f : Mid s -> held_flow s f = map snd (items (mstores s f)).
Proof.
  intros M. unfold held_flow, child_pkts. rewrite (m_child _ M). cbn.
  unfold sq_held. rewrite (m_getf _ M f). reflexivity.
Qed.

Lemma nonempty_spec c ins outs s f :
  Core c ins outs s -> Mid s -> nonempty c s f = negb (nilb (items (mstores s f))).
Proof.
  intros C M. unfold nonempty. destruct (by_count c); [|reflexivity].
  rewrite (i_qc _ _ _ _ C f), (mid_held s f M), map_length.
  destruct (items (mstores s f)); reflexivity.
Qed.

(* ---------------------------------------------------------------------------------------------- *)
(* scan *)

Lemma scan_some test rem vs f rem' :
  scan test rem = (vs, Some (f, rem')) ->
  test f = true /\ exists l1 n l2, rem = l1 ++ (f, S n) :: l2 /\ rem' = (f, n) :: l2 /\
     (forall g m, In (g, m) l1 -> m = 0%nat \/ test g = false).
Proof.
  revert vs. induction rem as [|[g m] t IH]; intros vs H; cbn in H; [discriminate|].
  destruct m as [|m].
  - destruct (IH _ H) as (T & l1 & n & l2 & E & E' & F). split; [exact T|].
    exists ((g, 0%nat) :: l1), n, l2. split; [rewrite E; reflexivity|split; [exact E'|]].
    intros g' m' [Eq|Hin]; [injection Eq as <- <-; left; reflexivity|eauto].
  - destruct (test g) eqn:T.
    + injection H as <- <- <-. split; [exact T|]. exists [], m, t. split; [reflexivity|split; [reflexivity|]]. intros ? ? [].
    + destruct (scan test t) as [vs' r] eqn:Sc. injection H as <- ->.
      destruct (IH _ eq_refl) as (T' & l1 & n & l2 & E & E' & F). split; [exact T'|].
      exists ((g, S m) :: l1), n, l2. split; [rewrite E; reflexivity|split; [exact E'|]].
      intros g' m' [Eq|Hin]; [injection Eq as <- <-; right; exact T|eauto].
Qed.

Lemma scan_none test rem vs :
  scan test rem = (vs, None) -> forall g m, In (g, m) rem -> m = 0%nat \/ test g = false.
Proof.
  revert vs. induction rem as [|[g m] t IH]; intros vs H g' m' Hin; [destruct Hin|]. cbn in H.
  destruct m as [|m].
  - destruct Hin as [Eq|Hin]; [injection Eq as <- <-; left; reflexivity|eauto].
  - destruct (test g) eqn:T; [discriminate|].
    destruct (scan test t) as [vs' r] eqn:Sc. injection H as <- ->.
    destruct Hin as [Eq|Hin]; [injection Eq as <- <-; right; exact T|eauto].
Qed.

Lemma scan_visit_true test rem vs r f : scan test rem = (vs, r) -> In (OVisit f true) vs -> exists rem', r = Some (f, rem').
Proof.
  revert vs. induction rem as [|[g m] t IH]; intros vs H Hin; cbn in H.
  - injection H as <- <-. destruct Hin.
  - destruct m as [|m]; [eauto|]. destruct (test g) eqn:T.
    + injection H as <- <-. destruct Hin as [E|[]]. injection E as <-. eauto.
    + destruct (scan test t) as [vs' r'] eqn:Sc. injection H as <- <-.
      destruct Hin as [E|Hin]; [discriminate|eauto].
Qed.

Lemma scan_visit_false test rem vs r f : scan test rem = (vs, r) -> In (OVisit f false) vs -> test f = false.
Proof.
  revert vs. induction rem as [|[g m] t IH]; intros vs H Hin; cbn in H.
  - injection H as <- <-. destruct Hin.
  - destruct m as [|m]; [eauto|]. destruct (test g) eqn:T.
    + injection H as <- <-. destruct Hin as [E|[]]. discriminate.
    + destruct (scan test t) as [vs' r'] eqn:Sc. injection H as <- <-.
      destruct Hin as [E|Hin]; [injection E as <-; exact T|eauto].
Qed.

Lemma scan_only_visits test rem vs r o : scan test rem = (vs, r) -> In o vs -> exists f b, o = OVisit f b.
Proof.
  revert vs. induction rem as [|[g m] t IH]; intros vs H Hin; cbn in H.
  - injection H as <- <-. destruct Hin.
  - destruct m as [|m]; [eauto|]. destruct (test g) eqn:T.
    + injection H as <- <-. destruct Hin as [<-|[]]. eauto.
    + destruct (scan test t) as [vs' r'] eqn:Sc. injection H as <- <-.
      destruct Hin as [<-|Hin]; eauto.
Qed.

(* ---------------------------------------------------------------------------------------------- *)
(* run() between two yields: resume preserves the invariant *)


Lemma zsum_ext g g' l : (forall f, g' f = g f) -> zsum g' l = zsum g l.
Proof. intros H. induction l as [|x t IH]; cbn; [reflexivity|]. rewrite H, IH. reflexivity. Qed.

(* states that hold the same things *)
Lemma core_ext c ins outs s s' :
  Core c ins outs s ->
  mcur s' = match mchild s' with CTx p _ => Some p | _ => None end ->
  (forall g, held_flow s' g = held_flow s g) ->
  (forall g, mqc s' g = mqc s g) -> (forall g, mqb s' g = mqb s g) -> mtotal s' = mtotal s ->
  mtok s' = mtok s ->
  (forall p dl, mchild s' = CTx p dl -> mnow s' <= dl) ->
  Core c ins outs s'.
Proof.
  intros C Hcur Hh Hqc Hqb Htot Htok Hdl. constructor.
  - exact Hcur.
  - intros f. rewrite Hh. apply (i_cons _ _ _ _ C).
  - intros f. rewrite Hqc, Hh. apply (i_qc _ _ _ _ C).
  - intros f. rewrite Hqb, Hh. apply (i_qb _ _ _ _ C).
  - rewrite Htot, (zsum_ext _ _ _ Hqc). apply (i_tot _ _ _ _ C).
  - apply (i_ins _ _ _ _ C).
  - rewrite Htok. apply (i_tokns _ _ _ _ C).
  - rewrite Htok, Htot. apply (i_tokwake _ _ _ _ C).
  - exact Hdl.
Qed.

Lemma core_with_pc c ins outs s p : Core c ins outs s -> Core c ins outs (with_pc s p).
Proof.
  intros C. apply (core_ext c ins outs s _ C); [|intros; reflexivity|intros; reflexivity|intros; reflexivity|reflexivity|reflexivity|].
  - apply (i_cur _ _ _ _ C).
  - apply (i_dl _ _ _ _ C).
Qed.

Lemma core_tok c ins outs s q :
  Core c ins outs s -> sq_nostrand q ->
  (get q = GWaiting -> (0 < mtotal s)%Z -> items q <> []) ->
  Core c ins outs (with_tok s q).
Proof.
  intros C N W. constructor; try (destruct C; assumption).
Qed.

Lemma held_flow_with_store s f q g :
  sq_held q = sq_held (mstores s f) -> held_flow (with_store s f q) g = held_flow s g.
Proof.
  intros H. apply held_flow_eq; [reflexivity|]. cbn. unfold upd.
  destruct (Z.eqb_spec g f); [subst; exact H|reflexivity].
Qed.

Lemma core_with_store c ins outs s f q :
  Core c ins outs s -> sq_held q = sq_held (mstores s f) -> Core c ins outs (with_store s f q).
Proof.
  intros C H. apply (core_ext c ins outs s _ C); [| |intros; reflexivity|intros; reflexivity|reflexivity|reflexivity|].
  - apply (i_cur _ _ _ _ C).
  - intros g. apply held_flow_with_store. exact H.
  - apply (i_dl _ _ _ _ C).
Qed.

Lemma commit_inv c ins outs s f rem s' :
  Core c ins outs s -> Mid s -> items (mstores s f) <> [] -> commit s f rem = Some s' ->
  Inv c ins outs s' /\ mpc s' = PGet f rem /\ (forall g, items (mstores s' g) = if Z.eqb g f then tl (items (mstores s f)) else items (mstores s g))
  /\ mnow s' = mnow s.
Proof.
  intros C M NE H. unfold commit in H.
  destruct (sq_get fifo_pop (mstores s f)) as [q|] eqn:G; [|discriminate]. injection H as <-.
  pose proof (fifo_held_get _ _ _ G) as Hh.
  apply fifo_get_inv in G as (G0 & _ & [(E & _)|(x & E & Gx)]); [contradiction|].
  split; [split|].
  - apply core_with_pc, core_with_store; assumption.
  - constructor; cbn.
    + apply (m_child _ M).
    + intros g. unfold upd. destruct (Z.eqb_spec g f).
      * subst. rewrite Gx. eauto.
      * rewrite (m_getf _ M g). exact I.
    + intros f0 rem0 E0. injection E0 as <- <-. rewrite upd_same. eauto.
    + split; [discriminate|]. intros _. apply (m_tok _ M).
  - split; [reflexivity|]. split; [|reflexivity].
    intros g. cbn. unfold upd. destruct (Z.eqb_spec g f); [|reflexivity]. subst. rewrite E. reflexivity.
Qed.

Lemma tokget_inv c ins outs s q :
  Core c ins outs s -> Mid s -> mtotal s = 0%Z -> sq_get fifo_pop (mtok s) = Some q ->
  Inv c ins outs (with_pc (with_tok s q) PTok).
Proof.
  intros C M T G. split.
  - apply core_with_pc, core_tok; [assumption|eapply fifo_nostrand_get; eauto|].
    intros _ H. lia.
  - constructor; cbn.
    + apply (m_child _ M).
    + intros g. rewrite (m_getf _ M g). exact I.
    + discriminate.
    + apply sq_get_not_none in G as [G _]. split; [intros E; contradiction|intros E; exfalso; apply E; reflexivity].
Qed.

Lemma spin_inv c ins outs s : Core c ins outs s -> Mid s -> Inv c ins outs (with_pc s PSpin).
Proof.
  intros C M. split; [apply core_with_pc; assumption|]. constructor; cbn.
  - apply (m_child _ M).
  - intros g. rewrite (m_getf _ M g). exact I.
  - discriminate.
  - split; [discriminate|]. intros _. apply (m_tok _ M).
Qed.

Lemma nonempty_items c ins outs s f :
  Core c ins outs s -> Mid s -> nonempty c s f = true -> items (mstores s f) <> [].
Proof.
  intros C M H. rewrite (nonempty_spec c ins outs s f C M) in H. destruct (items (mstores s f)); [discriminate|discriminate].
Qed.

Lemma end_pass_inv c ins outs s s' vs :
  Core c ins outs s -> Mid s -> end_pass c s = Some (s', vs) -> Inv c ins outs s' /\ mnow s' = mnow s.
Proof.
  intros C M H. unfold end_pass in H. destruct (Z.eqb_spec (mtotal s) 0) as [T|T].
  - destruct (sq_get fifo_pop (mtok s)) as [q|] eqn:G; [|discriminate]. injection H as <- <-.
    split; [eapply tokget_inv; eauto|reflexivity].
  - destruct (scan (nonempty c s) (pass c)) as [vs0 [[f rem]|]] eqn:Sc.
    + destruct (commit s f (after c rem)) as [s1|] eqn:Cm; [|discriminate]. injection H as <- <-.
      apply scan_some in Sc as (Tf & _).
      destruct (commit_inv c ins outs s f (after c rem) s1 C M (nonempty_items _ _ _ _ _ C M Tf) Cm) as (I1 & _ & _ & N). auto.
    + injection H as <- <-. split; [apply spin_inv; assumption|reflexivity].
Qed.

Lemma resume_inv c ins outs s rem s' vs :
  Core c ins outs s -> Mid s -> resume c s rem = Some (s', vs) -> Inv c ins outs s' /\ mnow s' = mnow s.
Proof.
  intros C M H. unfold resume in H.
  destruct (scan (nonempty c s) rem) as [vs0 [[f rem']|]] eqn:Sc.
  - destruct (commit s f (after c rem')) as [s1|] eqn:Cm; [|discriminate]. injection H as <- <-.
    apply scan_some in Sc as (Tf & _).
    destruct (commit_inv c ins outs s f (after c rem') s1 C M (nonempty_items _ _ _ _ _ C M Tf) Cm) as (I1 & _ & _ & N). auto.
  - destruct (end_pass c s) as [[s1 vs1]|] eqn:E; [|discriminate]. injection H as <- <-.
    eapply end_pass_inv; eauto.
Qed.

(* ---------------------------------------------------------------------------------------------- *)
(* every action preserves the invariant *)


Lemma end_pass_only_visits c s s' vs o : end_pass c s = Some (s', vs) -> In o vs -> exists f b, o = OVisit f b.
Proof.
  unfold end_pass. destruct (Z.eqb (mtotal s) 0).
  - destruct (sq_get fifo_pop (mtok s)); [|discriminate]. intros H; injection H as <- <-. intros [].
  - destruct (scan (nonempty c s) (pass c)) as [vs0 [[f rem]|]] eqn:Sc.
    + destruct (commit s f (after c rem)); [|discriminate]. intros H; injection H as <- <-. eapply scan_only_visits; eauto.
    + intros H; injection H as <- <-. eapply scan_only_visits; eauto.
Qed.

Lemma resume_only_visits c s rem s' vs o : resume c s rem = Some (s', vs) -> In o vs -> exists f b, o = OVisit f b.
Proof.
  unfold resume. destruct (scan (nonempty c s) rem) as [vs0 [[f rem']|]] eqn:Sc.
  - destruct (commit s f (after c rem')); [|discriminate]. intros H; injection H as <- <-. eapply scan_only_visits; eauto.
  - destruct (end_pass c s) as [[s1 vs1]|] eqn:E; [|discriminate]. intros H; injection H as <- <-.
    intros Hin. apply in_app_or in Hin as [Hin|Hin]; [eapply scan_only_visits; eauto|eapply end_pass_only_visits; eauto].
Qed.

Lemma forwards_visits vs : (forall o, In o vs -> exists f b, o = OVisit f b) -> forwards vs = [].
Proof.
  induction vs as [|o t IH]; intros H; [reflexivity|]. unfold forwards in *. cbn.
  destruct (H o (or_introl eq_refl)) as (f & b & ->). cbn. apply IH. intros; apply H; right; auto.
Qed.

Lemma mid_of s s' :
  Shape s -> mstores s' = mstores s -> mtok s' = mtok s -> mchild s' = CNone ->
  (forall f rem, mpc s <> PGet f rem) -> mpc s <> PTok -> Mid s'.
Proof.
  intros Sh Es Et Ec Hg Ht. constructor.
  - exact Ec.
  - intros g. rewrite Es. pose proof (i_getf _ Sh g) as H. destruct (get (mstores s g)); [reflexivity|destruct H|].
    destruct H as (rem & E). exfalso. eapply Hg; eauto.
  - rewrite Et. apply (i_tokpc _ Sh). exact Ht.
Qed.

Lemma tx_time_nonneg c p : 0 < rate c -> (0 <= psize p)%Z -> 0 <= tx_time c p.
Proof.
  intros R P. unfold tx_time. apply Qle_shift_div_l; [exact R|]. rewrite Qmult_0_l.
  change 0 with (inject_Z 0). rewrite <- Zle_Qle. lia.
Qed.

Lemma filter_one f p : filter (is_flow f) [p] = if is_flow f p then [p] else [].
Proof. reflexivity. Qed.

(* ---- SPut ---- *)
Lemma put_inv c ins outs s p s' o :
  Inv c ins outs s -> mq_act c s (SPut p) = Some (s', o) -> Inv c (ins ++ [p]) (outs ++ forwards o) s'.
Proof.
  intros [C Sh] H. cbn in H.
  destruct (memZ (flow p) (flows c) && (0 <=? psize p)%Z) eqn:Cond; [|discriminate].
  apply andb_true_iff in Cond as [Hf Hs]. apply memZ_In in Hf. apply Z.leb_le in Hs.
  injection H as <- <-. cbn [forwards flat_map]. rewrite app_nil_r.
  set (f := flow p) in *.
  match goal with |- Inv _ _ _ ?x => set (s1 := x) end.
  assert (Hheld : forall g, held_flow s1 g = held_flow s g ++ (if is_flow g p then [p] else [])).
  { intros g. unfold held_flow, child_pkts, s1. cbn. unfold upd, is_flow. fold f.
    destruct (Z.eqb_spec g f) as [->|N].
    - rewrite Z.eqb_refl. rewrite fifo_held_put, map_app. cbn. rewrite app_assoc. reflexivity.
    - destruct (Z.eqb_spec f g); [congruence|]. rewrite app_nil_r. reflexivity. }
  split.
  - constructor.
    + apply (i_cur _ _ _ _ C).
    + intros g. rewrite (Hheld g), filter_app, (i_cons _ _ _ _ C g), filter_one, app_assoc. reflexivity.
    + intros g. rewrite (Hheld g), app_length. unfold s1; cbn. unfold upd, is_flow. fold f.
      destruct (Z.eqb_spec g f) as [->|N].
      * rewrite Z.eqb_refl. cbn. rewrite (i_qc _ _ _ _ C f). lia.
      * destruct (Z.eqb_spec f g); [congruence|]. cbn. rewrite (i_qc _ _ _ _ C g). lia.
    + intros g. rewrite (Hheld g), sumsz_app. unfold s1; cbn. unfold upd, is_flow. fold f.
      destruct (Z.eqb_spec g f) as [->|N].
      * rewrite Z.eqb_refl. cbn. rewrite (i_qb _ _ _ _ C f). lia.
      * destruct (Z.eqb_spec f g); [congruence|]. cbn. rewrite (i_qb _ _ _ _ C g). lia.
    + unfold s1; cbn. rewrite zsum_upd; [|apply dflows_nodup|apply dflows_in; exact Hf]. rewrite (i_tot _ _ _ _ C). lia.
    + intros p0 Hin. apply in_app_or in Hin as [Hin|[<-|[]]]; [apply (i_ins _ _ _ _ C); exact Hin|]. split; assumption.
    + unfold s1; cbn. destruct (mtotal s =? 0)%Z; [apply fifo_nostrand_put|apply (i_tokns _ _ _ _ C)].
    + unfold s1; cbn. destruct (Z.eqb_spec (mtotal s) 0) as [T|T].
      * intros _ _. cbn. unfold fifo_push. intros E. apply app_eq_nil in E as [_ E]. discriminate.
      * intros G _. apply (i_tokwake _ _ _ _ C); [exact G|]. pose proof (total_nonneg _ _ _ _ C). lia.
    + apply (i_dl _ _ _ _ C).
  - constructor; unfold s1; cbn.
    + apply (i_child _ Sh).
    + intros g. unfold upd. destruct (Z.eqb_spec g f) as [->|N]; [cbn|]; apply (i_getf _ Sh).
    + intros f0 rem E. unfold upd. destruct (Z.eqb_spec f0 f) as [->|N]; [cbn|]; eapply (i_pget _ Sh); eauto.
    + destruct (mtotal s =? 0)%Z; [cbn|]; apply (i_tokpc _ Sh).
Qed.

(* ---- StorePut events ---- *)
Lemma cbtok_inv c ins outs s s' o :
  Inv c ins outs s -> mq_act c s (SStoreCb None) = Some (s', o) -> Inv c ins (outs ++ forwards o) s'.
Proof.
  intros [C Sh] H. cbn in H. destruct (sq_cb fifo_pop (mtok s)) as [q|] eqn:G; [|discriminate].
  injection H as <- <-. cbn [forwards flat_map]. rewrite app_nil_r. split.
  - apply core_tok; [assumption|eapply fifo_nostrand_cb; eauto|].
    intros W T. apply fifo_cb_inv in G as (_ & [(_ & x & _ & Gx)|(_ & Ei & Eg)]); [congruence|].
    rewrite Ei. apply (i_tokwake _ _ _ _ C); [congruence|exact T].
  - constructor; cbn; try apply Sh.
    rewrite <- (sq_cb_get_none _ _ _ _ G). apply (i_tokpc _ Sh).
Qed.

Lemma cbflow_inv c ins outs s f s' o :
  Inv c ins outs s -> mq_act c s (SStoreCb (Some f)) = Some (s', o) -> Inv c ins (outs ++ forwards o) s'.
Proof.
  intros [C Sh] H. cbn in H. destruct (sq_cb fifo_pop (mstores s f)) as [q|] eqn:G; [|discriminate].
  injection H as <- <-. cbn [forwards flat_map]. rewrite app_nil_r.
  assert (NW : get (mstores s f) <> GWaiting).
  { intros E. pose proof (i_getf _ Sh f) as H. rewrite E in H. exact H. }
  destruct (sq_cb_not_waiting _ _ _ _ G NW) as [Ei Eg].
  split.
  - apply core_with_store; [assumption|eapply fifo_held_cb; eauto].
  - constructor; cbn.
    + apply (i_child _ Sh).
    + intros g. unfold upd. destruct (Z.eqb_spec g f) as [->|N]; [rewrite Eg|]; apply (i_getf _ Sh).
    + intros f0 rem E. unfold upd. destruct (Z.eqb_spec f0 f) as [->|N]; [rewrite Eg|]; eapply (i_pget _ Sh); eauto.
    + apply (i_tokpc _ Sh).
Qed.

(* ---- run() resumes ---- *)
Lemma init_inv c ins outs s s' o :
  Inv c ins outs s -> mq_act c s SInit = Some (s', o) -> Inv c ins (outs ++ forwards o) s'.
Proof.
  intros [C Sh] H. cbn in H. destruct (mpc s) eqn:P; try discriminate.
  rewrite (forwards_visits o), app_nil_r by (intros; eapply resume_only_visits; eauto).
  eapply resume_inv; [exact C| |exact H].
  apply (mid_of s s Sh); auto; try (rewrite P; discriminate).
  pose proof (i_child _ Sh) as Hc. rewrite P in Hc. exact Hc.
Qed.

Lemma gettok_inv c ins outs s s' o :
  Inv c ins outs s -> mq_act c s (SGetDone None) = Some (s', o) -> Inv c ins (outs ++ forwards o) s'.
Proof.
  intros [C Sh] H. cbn in H. destruct (mpc s) eqn:P; try discriminate.
  destruct (sq_take (mtok s)) as [[x q]|] eqn:T; [|discriminate].
  rewrite (forwards_visits o), app_nil_r by (intros; eapply resume_only_visits; eauto).
  apply sq_take_inv in T as (Gx & Ei & Ep & Gq).
  eapply resume_inv; [| |exact H].
  - apply core_tok; [assumption| |].
    + intros W. congruence.
    + intros W. congruence.
  - constructor; cbn.
    + pose proof (i_child _ Sh) as Hc. rewrite P in Hc. exact Hc.
    + intros g. pose proof (i_getf _ Sh g) as Hg. destruct (get (mstores s g)); [reflexivity|destruct Hg|].
      destruct Hg as (rem & E). congruence.
    + exact Gq.
Qed.

Lemma getflow_inv c ins outs s f s' o :
  Inv c ins outs s -> mq_act c s (SGetDone (Some f)) = Some (s', o) -> Inv c ins (outs ++ forwards o) s'.
Proof.
  intros [C Sh] H. cbn in H. destruct (mpc s) as [|g rem|rem| |] eqn:P; try discriminate.
  destruct (mchild s) eqn:Ch; try discriminate.
  destruct (Z.eqb_spec f g) as [<-|N]; [|discriminate].
  destruct (sq_take (mstores s f)) as [[[a p] q]|] eqn:T; [|discriminate].
  injection H as <- <-. cbn [forwards flat_map]. rewrite app_nil_r.
  pose proof (fifo_held_take _ _ _ _ T) as Hh.
  apply sq_take_inv in T as (Gx & Ei & Ep & Gq).
  assert (Fp : flow p = f).
  { apply (held_in_ins c ins outs s f p C). unfold held_flow. apply in_or_app. right. rewrite Hh. left. reflexivity. }
  split.
  - apply (core_ext c ins outs s _ C); [| |intros; reflexivity|intros; reflexivity|reflexivity|reflexivity|].
    + cbn. rewrite (i_cur _ _ _ _ C), Ch. reflexivity.
    + intros g. unfold held_flow, child_pkts. cbn. rewrite Ch. cbn. unfold upd, is_flow. rewrite Fp.
      destruct (Z.eqb_spec g f) as [->|Ng].
      * rewrite Z.eqb_refl, Hh. reflexivity.
      * destruct (Z.eqb_spec f g); [congruence|]. reflexivity.
    + intros p0 dl E. cbn in E. discriminate.
  - constructor; cbn.
    + discriminate.
    + intros g. unfold upd. destruct (Z.eqb_spec g f) as [->|Ng]; [rewrite Gq; exact I|].
      pose proof (i_getf _ Sh g) as Hg. destruct (get (mstores s g)); [exact I|exact Hg|].
      destruct Hg as (rem' & E). rewrite P in E. injection E as E _. congruence.
    + discriminate.
    + split; [discriminate|]. intros _. apply (i_tokpc _ Sh). rewrite P. discriminate.
Qed.

Lemma childinit_inv c ins outs s s' o :
  0 < rate c -> Inv c ins outs s -> mq_act c s SChildInit = Some (s', o) -> Inv c ins (outs ++ forwards o) s'.
Proof.
  intros R [C Sh] H. cbn in H. destruct (mchild s) as [|p| |] eqn:Ch; try discriminate.
  injection H as <- <-. cbn [forwards flat_map]. rewrite app_nil_r.
  assert (Hp : (0 <= psize p)%Z).
  { destruct (held_in_ins c ins outs s (flow p) p C) as [_ Hin].
    - unfold held_flow, child_pkts. rewrite Ch. apply in_or_app. left. cbn. unfold is_flow. rewrite Z.eqb_refl. left. reflexivity.
    - apply (i_ins _ _ _ _ C p Hin). }
  split.
  - apply (core_ext c ins outs s _ C); [| |intros; reflexivity|intros; reflexivity|reflexivity|reflexivity|].
    + reflexivity.
    + intros g. unfold held_flow, child_pkts. cbn. rewrite Ch. reflexivity.
    + intros p0 dl E. cbn in E. injection E as _ <-. cbn. pose proof (tx_time_nonneg c p R Hp). lra.
  - constructor; cbn; try apply Sh.
    pose proof (i_child _ Sh) as Hc. rewrite Ch in Hc. destruct (mpc s); try discriminate.
Qed.

Lemma childtimer_inv c ins outs s s' o :
  Inv c ins outs s -> mq_act c s SChildTimer = Some (s', o) -> Inv c ins (outs ++ forwards o) s'.
Proof.
  intros [C Sh] H. cbn in H. destruct (mchild s) as [| |p dl|] eqn:Ch; try discriminate.
  destruct (Qeq_bool dl (mnow s)); [|discriminate]. injection H as <- <-. cbn [forwards flat_map app].
  set (f := flow p).
  assert (Hpc : exists rem, mpc s = PChild rem).
  { pose proof (i_child _ Sh) as Hc. rewrite Ch in Hc. destruct (mpc s); try discriminate. eauto. }
  destruct Hpc as (rem & P).
  assert (Hold : forall g, held_flow s g = (if is_flow g p then [p] else []) ++ map snd (sq_held (mstores s g))).
  { intros g. unfold held_flow, child_pkts. rewrite Ch. reflexivity. }
  assert (Hf : In f (flows c)).
  { destruct (held_in_ins c ins outs s f p C) as [_ Hin].
    - rewrite Hold. unfold is_flow, f. rewrite Z.eqb_refl. left. reflexivity.
    - apply (i_ins _ _ _ _ C p Hin). }
  split.
  - constructor; cbn.
    + reflexivity.
    + intros g. rewrite filter_app, filter_one, (i_cons _ _ _ _ C g), Hold. unfold held_flow, child_pkts. cbn.
      rewrite <- app_assoc. reflexivity.
    + intros g. unfold held_flow, child_pkts. cbn. unfold upd.
      destruct (Z.eqb_spec g f) as [->|N].
      * rewrite (i_qc _ _ _ _ C f), Hold. unfold is_flow. fold f. rewrite Z.eqb_refl. cbn [app length]. lia.
      * rewrite (i_qc _ _ _ _ C g), Hold. unfold is_flow. fold f. destruct (Z.eqb_spec f g); [congruence|]. reflexivity.
    + intros g. unfold held_flow, child_pkts. cbn. unfold upd.
      destruct (Z.eqb_spec g f) as [->|N].
      * rewrite (i_qb _ _ _ _ C f), Hold. unfold is_flow. fold f. rewrite Z.eqb_refl. cbn [app sumsz]. lia.
      * rewrite (i_qb _ _ _ _ C g), Hold. unfold is_flow. fold f. destruct (Z.eqb_spec f g); [congruence|]. reflexivity.
    + rewrite zsum_upd; [|apply dflows_nodup|apply dflows_in; exact Hf]. rewrite (i_tot _ _ _ _ C). lia.
    + apply (i_ins _ _ _ _ C).
    + apply (i_tokns _ _ _ _ C).
    + intros W. exfalso. assert (E : get (mtok s) = GNone) by (apply (i_tokpc _ Sh); rewrite P; discriminate). congruence.
    + discriminate.
  - constructor; cbn; try apply Sh. rewrite P. discriminate.
Qed.

Lemma childend_inv c ins outs s s' o :
  Inv c ins outs s -> mq_act c s SChildEnd = Some (s', o) -> Inv c ins (outs ++ forwards o) s'.
Proof.
  intros [C Sh] H. cbn in H. destruct (mchild s) eqn:Ch; try discriminate.
  destruct (mpc s) as [| |rem| |] eqn:P; try discriminate.
  rewrite (forwards_visits o), app_nil_r by (intros; eapply resume_only_visits; eauto).
  eapply resume_inv; [| |exact H].
  - apply (core_ext c ins outs s _ C); [| |intros; reflexivity|intros; reflexivity|reflexivity|reflexivity|].
    + cbn. rewrite (i_cur _ _ _ _ C), Ch. reflexivity.
    + intros g. unfold held_flow, child_pkts. cbn. rewrite Ch. reflexivity.
    + intros p0 dl E. cbn in E. discriminate.
  - apply (mid_of s _ Sh); try reflexivity; rewrite P; discriminate.
Qed.

Lemma advance_inv c ins outs s t s' o :
  Inv c ins outs s -> mq_act c s (SAdvance t) = Some (s', o) -> Inv c ins (outs ++ forwards o) s'.
Proof.
  intros [C Sh] H. cbn in H. destruct (urgent c s); [discriminate|].
  destruct (Qlt_le_dec (mnow s) t) as [Lt|]; [|discriminate].
  assert (E : s' = {| mnow := t; mstores := mstores s; mtok := mtok s; mqc := mqc s; mqb := mqb s; mtotal := mtotal s;
                     mcur := mcur s; mrecv := mrecv s; mchild := mchild s; mpc := mpc s |} /\ o = [] /\
              (forall p dl, mchild s = CTx p dl -> t <= dl)).
  { destruct (mchild s) as [| |p dl|] eqn:Ch; try (injection H as <- <-; repeat split; intros; discriminate).
    destruct (Qle_bool t dl) eqn:L; [|discriminate]. injection H as <- <-. repeat split.
    intros p0 dl0 E0. injection E0 as _ <-. apply Qle_bool_iff. exact L. }
  destruct E as (-> & -> & Hdl). cbn [forwards flat_map]. rewrite app_nil_r. split.
  - apply (core_ext c ins outs s _ C); [|intros; reflexivity|intros; reflexivity|intros; reflexivity|reflexivity|reflexivity|].
    + apply (i_cur _ _ _ _ C).
    + exact Hdl.
  - constructor; cbn; apply Sh.
Qed.

Theorem inv_step c ins outs s a s' o :
  0 < rate c -> Inv c ins outs s -> mq_act c s a = Some (s', o) -> Inv c (ins ++ puts a) (outs ++ forwards o) s'.
Proof.
  intros R I H. destruct a as [p| |[f|]|[f|]| | | |t|incl]; cbn [puts]; rewrite ?app_nil_r.
  - eapply put_inv; eauto.
  - eapply init_inv; eauto.
  - eapply cbflow_inv; eauto.
  - eapply cbtok_inv; eauto.
  - eapply getflow_inv; eauto.
  - eapply gettok_inv; eauto.
  - eapply childinit_inv; eauto.
  - eapply childtimer_inv; eauto.
  - eapply childend_inv; eauto.
  - eapply advance_inv; eauto.
  - cbn in H. injection H as <- <-. cbn. rewrite app_nil_r. exact I.
Qed.
