(* Proofs about Elem/SchedBase.v: the invariant of the multi-queue scheduler automaton and what follows from it for
   EVERY admissible execution, every configuration with positive allowances and every rate > 0:
   conservation / per-flow FIFO / counters, one transmission at a time of exactly 8*size/rate, no lost wake-up
   (work conservation), the visiting order of the run() loop.  SPProofs.v / RRProofs.v / WRRProofs.v instantiate. *)
From Coq Require Import ZArith QArith List Bool Lia Lqa.
From ONL Require Import Elem.Packet Elem.StoreQ Elem.StoreQProofs Elem.SchedBase.
Import ListNotations.

(* ---------------------------------------------------------------------------------------------- *)
(* small list / map facts *)

Definition is_flow (f : Z) (p : pkt) : bool := Z.eqb (flow p) f.
(* p belongs to class k (its flow is mapped onto k) *)
Definition is_class (c : mq_cfg) (k : Z) (p : pkt) : bool := Z.eqb (cls c (flow p)) k.
Fixpoint sumsz (l : list pkt) : Z := match l with [] => 0%Z | p :: t => (psize p + sumsz t)%Z end.
Fixpoint zsum (g : Z -> Z) (l : list Z) : Z := match l with [] => 0%Z | f :: t => (g f + zsum g t)%Z end.

Lemma sumsz_app a b : sumsz (a ++ b) = (sumsz a + sumsz b)%Z.
Proof. induction a as [|x a IH]; cbn; [reflexivity|]. rewrite IH. lia. Qed.

Lemma upd_same {A} (m : Z -> A) f v : upd m f v f = v.
Proof. unfold upd. rewrite Z.eqb_refl. reflexivity. Qed.

Lemma upd_other {A} (m : Z -> A) f v g : g <> f -> upd m f v g = m g.
Proof. intros H. unfold upd. destruct (Z.eqb_spec g f); [contradiction|reflexivity]. Qed.

Lemma zsum_upd_notin g f v l : ~ In f l -> zsum (upd g f v) l = zsum g l.
Proof.
  induction l as [|x t IH]; cbn; [reflexivity|]. intros H.
  rewrite upd_other by (intros E; apply H; left; auto). rewrite IH by (intros E; apply H; right; auto). reflexivity.
Qed.

Lemma zsum_upd g f v l : NoDup l -> In f l -> zsum (upd g f v) l = (zsum g l - g f + v)%Z.
Proof.
  induction l as [|x t IH]; cbn; [tauto|]. intros ND [->|Hin].
  - inversion ND; subst. rewrite upd_same, zsum_upd_notin by assumption. lia.
  - inversion ND; subst. assert (x <> f) by (intros ->; contradiction).
    rewrite upd_other by assumption. rewrite IH by assumption. lia.
Qed.

Lemma zsum_nonneg g l : (forall f, In f l -> (0 <= g f)%Z) -> (0 <= zsum g l)%Z.
Proof.
  induction l as [|x t IH]; cbn; intros H; [lia|].
  assert (0 <= g x)%Z by (apply H; left; auto). assert (0 <= zsum g t)%Z by (apply IH; intros; apply H; right; auto). lia.
Qed.

Lemma zsum_zero g l : (forall f, In f l -> (0 <= g f)%Z) -> zsum g l = 0%Z -> forall f, In f l -> g f = 0%Z.
Proof.
  induction l as [|x t IH]; cbn; intros H E f Hf; [destruct Hf|].
  assert (0 <= g x)%Z by (apply H; left; auto).
  assert (0 <= zsum g t)%Z by (apply zsum_nonneg; intros; apply H; right; auto).
  destruct Hf as [<-|Hf]; [lia|]. apply IH; auto. lia.
Qed.

Lemma zsum_pos g l : (forall f, In f l -> (0 <= g f)%Z) -> (0 < zsum g l)%Z -> exists f, In f l /\ (0 < g f)%Z.
Proof.
  induction l as [|x t IH]; cbn; intros H E; [lia|].
  destruct (Z_lt_le_dec 0 (g x)) as [P|P]; [exists x; auto|].
  assert (0 <= g x)%Z by (apply H; left; auto).
  destruct IH as (f & Hf & Pf); [intros; apply H; right; auto|lia|]. exists f; auto.
Qed.

Lemma memZ_In f l : memZ f l = true <-> In f l.
Proof.
  unfold memZ. rewrite existsb_exists. split.
  - intros (x & Hx & E). apply Z.eqb_eq in E. subst. exact Hx.
  - intros H. exists f. split; [exact H|apply Z.eqb_refl].
Qed.

Lemma filter_is_class_in c f p l : In p (filter (is_class c f) l) -> cls c (flow p) = f /\ In p l.
Proof. intros H. apply filter_In in H as [H1 H2]. unfold is_class in H2. apply Z.eqb_eq in H2. auto. Qed.

(* ---------------------------------------------------------------------------------------------- *)
(* what the scheduler holds *)

Definition child_pkts (s : mq) : list pkt :=
  match mchild s with CInit p => [p] | CTx p _ => [p] | _ => [] end.

(* packets of class k inside the scheduler, oldest first: in transmission, travelling in the granted get, in the store *)
Definition held_class (c : mq_cfg) (s : mq) (k : Z) : list pkt :=
  filter (is_class c k) (child_pkts s) ++ map snd (sq_held (mstores s k)).
(* packets of flow f inside the scheduler, oldest first (they sit in the queue of the class of f) *)
Definition held_flow (c : mq_cfg) (s : mq) (f : Z) : list pkt := filter (is_flow f) (held_class c s (cls c f)).

(* rate positive; the schedulers that test queue_count[class] (RR, WRR) use the identity class map *)
Definition wf (c : mq_cfg) : Prop := 0 < rate c /\ (by_count c = true -> forall f, cls c f = f).

Definition puts (a : saction) : list pkt := match a with SPut p => [p] | _ => [] end.

(* pc-independent part of the invariant; ins / outs = packets put so far / forwarded so far *)
Record Core (c : mq_cfg) (ins outs : list pkt) (s : mq) : Prop := {
  i_cur : mcur s = match mchild s with CTx p _ => Some p | _ => None end;
  i_cons : forall f, filter (is_class c f) ins = filter (is_class c f) outs ++ held_class c s f;
  i_qc : forall f, mqc s f = Z.of_nat (length (held_flow c s f));
  i_qb : forall f, mqb s f = sumsz (held_flow c s f);
  i_tot : mtotal s = zsum (fun k => Z.of_nat (length (held_class c s k))) (dclasses c);
  i_ins : forall p, In p ins -> In (cls c (flow p)) (classes c) /\ (0 <= psize p)%Z;
  i_tokns : sq_nostrand (mtok s);
  i_tokwake : get (mtok s) = GWaiting -> (0 < mtotal s)%Z -> items (mtok s) <> [];
  i_dl : forall p dl, mchild s = CTx p dl -> mnow s <= dl
}.

(* how the program counter, the child and the outstanding gets fit together *)
Record Shape (s : mq) : Prop := {
  i_child : match mpc s with PChild _ => mchild s <> CNone | _ => mchild s = CNone end;
  i_getf : forall g, match get (mstores s g) with
                     | GNone => True
                     | GWaiting => False
                     | GGranted _ => exists rem, mpc s = PGet g rem
                     end;
  i_pget : forall f rem, mpc s = PGet f rem -> exists x, get (mstores s f) = GGranted x;
  i_tokpc : get (mtok s) = GNone <-> mpc s <> PTok
}.

Definition Inv (c : mq_cfg) (ins outs : list pkt) (s : mq) : Prop := Core c ins outs s /\ Shape s.

(* run() is executing (between two yields): no child, no outstanding get *)
Record Mid (s : mq) : Prop := {
  m_child : mchild s = CNone;
  m_getf : forall g, get (mstores s g) = GNone;
  m_tok : get (mtok s) = GNone
}.

Lemma held_class_eq c s s' f :
  mchild s' = mchild s -> sq_held (mstores s' f) = sq_held (mstores s f) -> held_class c s' f = held_class c s f.
Proof. intros H1 H2. unfold held_class, child_pkts. rewrite H1, H2. reflexivity. Qed.

Lemma held_in_ins c ins outs s f p : Core c ins outs s -> In p (held_class c s f) -> cls c (flow p) = f /\ In p ins.
Proof.
  intros C H. apply (filter_is_class_in c f p ins). rewrite (i_cons _ _ _ _ C f). apply in_or_app. right. exact H.
Qed.

Lemma qc_nonneg c ins outs s f : Core c ins outs s -> (0 <= mqc s f)%Z.
Proof. intros C. rewrite (i_qc _ _ _ _ C f). lia. Qed.

Lemma total_nonneg c ins outs s : Core c ins outs s -> (0 <= mtotal s)%Z.
Proof. intros C. rewrite (i_tot _ _ _ _ C). apply zsum_nonneg. intros f _. lia. Qed.

Lemma filter_all {A} (P : A -> bool) l : (forall x, In x l -> P x = true) -> filter P l = l.
Proof.
  induction l as [|x t IH]; intros H; cbn; [reflexivity|]. rewrite (H x (or_introl eq_refl)), IH; [reflexivity|].
  intros y Hy. apply H. right. exact Hy.
Qed.

Lemma filter_flow_class c f l : filter (is_flow f) (filter (is_class c (cls c f)) l) = filter (is_flow f) l.
Proof.
  induction l as [|x t IH]; cbn; [reflexivity|]. unfold is_class at 1, is_flow at 2.
  destruct (Z.eqb_spec (flow x) f) as [E|N].
  - rewrite E, Z.eqb_refl. cbn. unfold is_flow at 1. rewrite E, Z.eqb_refl, IH. reflexivity.
  - destruct (cls c (flow x) =? cls c f)%Z; [cbn; unfold is_flow at 1; destruct (Z.eqb_spec (flow x) f); [contradiction|]|]; exact IH.
Qed.

Lemma held_flow_in c s f p : In p (held_flow c s f) -> flow p = f /\ In p (held_class c s (cls c f)).
Proof. unfold held_flow. intros H. apply filter_In in H as [H1 H2]. unfold is_flow in H2. apply Z.eqb_eq in H2. auto. Qed.

Lemma held_flow_ext c s s' f : (forall k, held_class c s' k = held_class c s k) -> held_flow c s' f = held_flow c s f.
Proof. intros H. unfold held_flow. rewrite H. reflexivity. Qed.

(* under the identity class map the queue of class f holds exactly the packets of flow f *)
Lemma held_flow_id c ins outs s f :
  Core c ins outs s -> (forall g, cls c g = g) -> held_flow c s f = held_class c s f.
Proof.
  intros C Id. unfold held_flow. rewrite Id. apply filter_all. intros p Hp.
  destruct (held_in_ins c ins outs s f p C Hp) as [E _]. rewrite Id in E. unfold is_flow. apply Z.eqb_eq. exact E.
Qed.

Lemma dflows_in c f : In f (dclasses c) <-> In f (classes c).
Proof. unfold dclasses. apply nodup_In. Qed.

Lemma dflows_nodup c : NoDup (dclasses c).
Proof. apply NoDup_nodup. Qed.

(* with nothing in flight, what is held of f is what the store of f contains *)
Lemma mid_held c s f : Mid s -> held_class c s f = map snd (items (mstores s f)).
Proof.
  intros M. unfold held_class, child_pkts. rewrite (m_child _ M). cbn.
  unfold sq_held. rewrite (m_getf _ M f). reflexivity.
Qed.

Lemma nonempty_spec c ins outs s f :
  wf c -> Core c ins outs s -> Mid s -> nonempty c s f = negb (nilb (items (mstores s f))).
Proof.
  intros [_ Id] C M. unfold nonempty. destruct (by_count c); [|reflexivity].
  rewrite (i_qc _ _ _ _ C f), (held_flow_id c ins outs s f C (Id eq_refl)), (mid_held c s f M), map_length.
  destruct (items (mstores s f)); reflexivity.
Qed.

(* ---------------------------------------------------------------------------------------------- *)
(* scan *)

Lemma scan_some test rem vs f rem' :
  scan test rem = (vs, Some (f, rem')) ->
  test f = true /\ exists l1 n l2, rem = l1 ++ (f, S n) :: l2 /\ rem' = (f, n) :: l2 /\
     (forall g m, In (g, m) l1 -> m = 0%nat \/ test g = false).
Proof.
  revert vs. induction rem as [|[g m] t IH]; intros vs H; cbn in H; [discriminate|].
  destruct m as [|m].
  - destruct (IH _ H) as (T & l1 & n & l2 & E & E' & F). split; [exact T|].
    exists ((g, 0%nat) :: l1), n, l2. split; [rewrite E; reflexivity|split; [exact E'|]].
    intros g' m' [Eq|Hin]; [injection Eq as <- <-; left; reflexivity|eauto].
  - destruct (test g) eqn:T.
    + injection H as <- <- <-. split; [exact T|]. exists [], m, t. split; [reflexivity|split; [reflexivity|]]. intros ? ? [].
    + destruct (scan test t) as [vs' r] eqn:Sc. injection H as <- ->.
      destruct (IH _ eq_refl) as (T' & l1 & n & l2 & E & E' & F). split; [exact T'|].
      exists ((g, S m) :: l1), n, l2. split; [rewrite E; reflexivity|split; [exact E'|]].
      intros g' m' [Eq|Hin]; [injection Eq as <- <-; right; exact T|eauto].
Qed.

Lemma scan_none test rem vs :
  scan test rem = (vs, None) -> forall g m, In (g, m) rem -> m = 0%nat \/ test g = false.
Proof.
  revert vs. induction rem as [|[g m] t IH]; intros vs H g' m' Hin; [destruct Hin|]. cbn in H.
  destruct m as [|m].
  - destruct Hin as [Eq|Hin]; [injection Eq as <- <-; left; reflexivity|eauto].
  - destruct (test g) eqn:T; [discriminate|].
    destruct (scan test t) as [vs' r] eqn:Sc. injection H as <- ->.
    destruct Hin as [Eq|Hin]; [injection Eq as <- <-; right; exact T|eauto].
Qed.

Lemma scan_visit_true test rem vs r f : scan test rem = (vs, r) -> In (OVisit f true) vs -> exists rem', r = Some (f, rem').
Proof.
  revert vs. induction rem as [|[g m] t IH]; intros vs H Hin; cbn in H.
  - injection H as <- <-. destruct Hin.
  - destruct m as [|m]; [eauto|]. destruct (test g) eqn:T.
    + injection H as <- <-. destruct Hin as [E|[]]. injection E as <-. eauto.
    + destruct (scan test t) as [vs' r'] eqn:Sc. injection H as <- <-.
      destruct Hin as [E|Hin]; [discriminate|eauto].
Qed.

Lemma scan_visit_false test rem vs r f : scan test rem = (vs, r) -> In (OVisit f false) vs -> test f = false.
Proof.
  revert vs. induction rem as [|[g m] t IH]; intros vs H Hin; cbn in H.
  - injection H as <- <-. destruct Hin.
  - destruct m as [|m]; [eauto|]. destruct (test g) eqn:T.
    + injection H as <- <-. destruct Hin as [E|[]]. discriminate.
    + destruct (scan test t) as [vs' r'] eqn:Sc. injection H as <- <-.
      destruct Hin as [E|Hin]; [injection E as <-; exact T|eauto].
Qed.

Lemma scan_only_visits test rem vs r o : scan test rem = (vs, r) -> In o vs -> exists f b, o = OVisit f b.
Proof.
  revert vs. induction rem as [|[g m] t IH]; intros vs H Hin; cbn in H.
  - injection H as <- <-. destruct Hin.
  - destruct m as [|m]; [eauto|]. destruct (test g) eqn:T.
    + injection H as <- <-. destruct Hin as [<-|[]]. eauto.
    + destruct (scan test t) as [vs' r'] eqn:Sc. injection H as <- <-.
      destruct Hin as [<-|Hin]; eauto.
Qed.

(* ---------------------------------------------------------------------------------------------- *)
(* run() between two yields: resume preserves the invariant *)


Lemma zsum_ext g g' l : (forall f, g' f = g f) -> zsum g' l = zsum g l.
Proof. intros H. induction l as [|x t IH]; cbn; [reflexivity|]. rewrite H, IH. reflexivity. Qed.

(* states that hold the same things *)
Lemma core_ext c ins outs s s' :
  Core c ins outs s ->
  mcur s' = match mchild s' with CTx p _ => Some p | _ => None end ->
  (forall g, held_class c s' g = held_class c s g) ->
  (forall g, mqc s' g = mqc s g) -> (forall g, mqb s' g = mqb s g) -> mtotal s' = mtotal s ->
  mtok s' = mtok s ->
  (forall p dl, mchild s' = CTx p dl -> mnow s' <= dl) ->
  Core c ins outs s'.
Proof.
  intros C Hcur Hh Hqc Hqb Htot Htok Hdl. constructor.
  - exact Hcur.
  - intros f. rewrite Hh. apply (i_cons _ _ _ _ C).
  - intros f. rewrite Hqc, (held_flow_ext c s s' f Hh). apply (i_qc _ _ _ _ C).
  - intros f. rewrite Hqb, (held_flow_ext c s s' f Hh). apply (i_qb _ _ _ _ C).
  - rewrite Htot, (i_tot _ _ _ _ C). symmetry. apply zsum_ext. intros k. rewrite Hh. reflexivity.
  - apply (i_ins _ _ _ _ C).
  - rewrite Htok. apply (i_tokns _ _ _ _ C).
  - rewrite Htok, Htot. apply (i_tokwake _ _ _ _ C).
  - exact Hdl.
Qed.

Lemma core_with_pc c ins outs s p : Core c ins outs s -> Core c ins outs (with_pc s p).
Proof.
  intros C. apply (core_ext c ins outs s _ C); [|intros; reflexivity|intros; reflexivity|intros; reflexivity|reflexivity|reflexivity|].
  - apply (i_cur _ _ _ _ C).
  - apply (i_dl _ _ _ _ C).
Qed.

Lemma core_tok c ins outs s q :
  Core c ins outs s -> sq_nostrand q ->
  (get q = GWaiting -> (0 < mtotal s)%Z -> items q <> []) ->
  Core c ins outs (with_tok s q).
Proof.
  intros C N W. constructor; try (destruct C; assumption).
Qed.

Lemma held_class_with_store c s f q g :
  sq_held q = sq_held (mstores s f) -> held_class c (with_store s f q) g = held_class c s g.
Proof.
  intros H. apply held_class_eq; [reflexivity|]. cbn. unfold upd.
  destruct (Z.eqb_spec g f); [subst; exact H|reflexivity].
Qed.

Lemma core_with_store c ins outs s f q :
  Core c ins outs s -> sq_held q = sq_held (mstores s f) -> Core c ins outs (with_store s f q).
Proof.
  intros C H. apply (core_ext c ins outs s _ C); [| |intros; reflexivity|intros; reflexivity|reflexivity|reflexivity|].
  - apply (i_cur _ _ _ _ C).
  - intros g. apply held_class_with_store. exact H.
  - apply (i_dl _ _ _ _ C).
Qed.

Lemma commit_inv c ins outs s f rem s' :
  Core c ins outs s -> Mid s -> items (mstores s f) <> [] -> commit s f rem = Some s' ->
  Inv c ins outs s' /\ mpc s' = PGet f rem /\ (forall g, items (mstores s' g) = if Z.eqb g f then tl (items (mstores s f)) else items (mstores s g))
  /\ mnow s' = mnow s.
Proof.
  intros C M NE H. unfold commit in H.
  destruct (sq_get fifo_pop (mstores s f)) as [q|] eqn:G; [|discriminate]. injection H as <-.
  pose proof (fifo_held_get _ _ _ G) as Hh.
  apply fifo_get_inv in G as (G0 & _ & [(E & _)|(x & E & Gx)]); [contradiction|].
  split; [split|].
  - apply core_with_pc, core_with_store; assumption.
  - constructor; cbn.
    + apply (m_child _ M).
    + intros g. unfold upd. destruct (Z.eqb_spec g f).
      * subst. rewrite Gx. eauto.
      * rewrite (m_getf _ M g). exact I.
    + intros f0 rem0 E0. injection E0 as <- <-. rewrite upd_same. eauto.
    + split; [discriminate|]. intros _. apply (m_tok _ M).
  - split; [reflexivity|]. split; [|reflexivity].
    intros g. cbn. unfold upd. destruct (Z.eqb_spec g f); [|reflexivity]. subst. rewrite E. reflexivity.
Qed.

Lemma tokget_inv c ins outs s q :
  Core c ins outs s -> Mid s -> mtotal s = 0%Z -> sq_get fifo_pop (mtok s) = Some q ->
  Inv c ins outs (with_pc (with_tok s q) PTok).
Proof.
  intros C M T G. split.
  - apply core_with_pc, core_tok; [assumption|eapply fifo_nostrand_get; eauto|].
    intros _ H. lia.
  - constructor; cbn.
    + apply (m_child _ M).
    + intros g. rewrite (m_getf _ M g). exact I.
    + discriminate.
    + apply sq_get_not_none in G as [G _]. split; [intros E; contradiction|intros E; exfalso; apply E; reflexivity].
Qed.

Lemma spin_inv c ins outs s : Core c ins outs s -> Mid s -> Inv c ins outs (with_pc s PSpin).
Proof.
  intros C M. split; [apply core_with_pc; assumption|]. constructor; cbn.
  - apply (m_child _ M).
  - intros g. rewrite (m_getf _ M g). exact I.
  - discriminate.
  - split; [discriminate|]. intros _. apply (m_tok _ M).
Qed.

Lemma nonempty_items c ins outs s f :
  wf c -> Core c ins outs s -> Mid s -> nonempty c s f = true -> items (mstores s f) <> [].
Proof.
  intros W C M H. rewrite (nonempty_spec c ins outs s f W C M) in H. destruct (items (mstores s f)); [discriminate|discriminate].
Qed.

Lemma end_pass_inv c ins outs s s' vs :
  wf c -> Core c ins outs s -> Mid s -> end_pass c s = Some (s', vs) -> Inv c ins outs s' /\ mnow s' = mnow s.
Proof.
  intros W C M H. unfold end_pass in H. destruct (Z.eqb_spec (mtotal s) 0) as [T|T].
  - destruct (sq_get fifo_pop (mtok s)) as [q|] eqn:G; [|discriminate]. injection H as <- <-.
    split; [eapply tokget_inv; eauto|reflexivity].
  - destruct (scan (nonempty c s) (pass c)) as [vs0 [[f rem]|]] eqn:Sc.
    + destruct (commit s f (after c rem)) as [s1|] eqn:Cm; [|discriminate]. injection H as <- <-.
      apply scan_some in Sc as (Tf & _).
      destruct (commit_inv c ins outs s f (after c rem) s1 C M (nonempty_items _ _ _ _ _ W C M Tf) Cm) as (I1 & _ & _ & N). auto.
    + injection H as <- <-. split; [apply spin_inv; assumption|reflexivity].
Qed.

Lemma resume_inv c ins outs s rem s' vs :
  wf c -> Core c ins outs s -> Mid s -> resume c s rem = Some (s', vs) -> Inv c ins outs s' /\ mnow s' = mnow s.
Proof.
  intros W C M H. unfold resume in H.
  destruct (scan (nonempty c s) rem) as [vs0 [[f rem']|]] eqn:Sc.
  - destruct (commit s f (after c rem')) as [s1|] eqn:Cm; [|discriminate]. injection H as <- <-.
    apply scan_some in Sc as (Tf & _).
    destruct (commit_inv c ins outs s f (after c rem') s1 C M (nonempty_items _ _ _ _ _ W C M Tf) Cm) as (I1 & _ & _ & N). auto.
  - destruct (end_pass c s) as [[s1 vs1]|] eqn:E; [|discriminate]. injection H as <- <-.
    eapply end_pass_inv; eauto.
Qed.

(* ---------------------------------------------------------------------------------------------- *)
(* every action preserves the invariant *)


Lemma end_pass_only_visits c s s' vs o : end_pass c s = Some (s', vs) -> In o vs -> exists f b, o = OVisit f b.
Proof.
  unfold end_pass. destruct (Z.eqb (mtotal s) 0).
  - destruct (sq_get fifo_pop (mtok s)); [|discriminate]. intros H; injection H as <- <-. intros [].
  - destruct (scan (nonempty c s) (pass c)) as [vs0 [[f rem]|]] eqn:Sc.
    + destruct (commit s f (after c rem)); [|discriminate]. intros H; injection H as <- <-. eapply scan_only_visits; eauto.
    + intros H; injection H as <- <-. eapply scan_only_visits; eauto.
Qed.

Lemma resume_only_visits c s rem s' vs o : resume c s rem = Some (s', vs) -> In o vs -> exists f b, o = OVisit f b.
Proof.
  unfold resume. destruct (scan (nonempty c s) rem) as [vs0 [[f rem']|]] eqn:Sc.
  - destruct (commit s f (after c rem')); [|discriminate]. intros H; injection H as <- <-. eapply scan_only_visits; eauto.
  - destruct (end_pass c s) as [[s1 vs1]|] eqn:E; [|discriminate]. intros H; injection H as <- <-.
    intros Hin. apply in_app_or in Hin as [Hin|Hin]; [eapply scan_only_visits; eauto|eapply end_pass_only_visits; eauto].
Qed.

Lemma forwards_visits vs : (forall o, In o vs -> exists f b, o = OVisit f b) -> forwards vs = [].
Proof.
  induction vs as [|o t IH]; intros H; [reflexivity|]. unfold forwards in *. cbn.
  destruct (H o (or_introl eq_refl)) as (f & b & ->). cbn. apply IH. intros; apply H; right; auto.
Qed.

Lemma mid_of s s' :
  Shape s -> mstores s' = mstores s -> mtok s' = mtok s -> mchild s' = CNone ->
  (forall f rem, mpc s <> PGet f rem) -> mpc s <> PTok -> Mid s'.
Proof.
  intros Sh Es Et Ec Hg Ht. constructor.
  - exact Ec.
  - intros g. rewrite Es. pose proof (i_getf _ Sh g) as H. destruct (get (mstores s g)); [reflexivity|destruct H|].
    destruct H as (rem & E). exfalso. eapply Hg; eauto.
  - rewrite Et. apply (i_tokpc _ Sh). exact Ht.
Qed.

Lemma tx_time_nonneg c p : 0 < rate c -> (0 <= psize p)%Z -> 0 <= tx_time c p.
Proof.
  intros R P. unfold tx_time. apply Qle_shift_div_l; [exact R|]. rewrite Qmult_0_l.
  change 0 with (inject_Z 0). rewrite <- Zle_Qle. lia.
Qed.

Lemma filter_one c f p : filter (is_class c f) [p] = if is_class c f p then [p] else [].
Proof. reflexivity. Qed.

Lemma zsum_change g g' k l :
  NoDup l -> In k l -> (forall j, j <> k -> g' j = g j) -> zsum g' l = (zsum g l - g k + g' k)%Z.
Proof.
  induction l as [|x t IH]; cbn; [tauto|]. intros ND [->|Hin] Hj.
  - inversion ND; subst. assert (E : zsum g' t = zsum g t).
    { clear IH ND. induction t as [|y t IHt]; cbn; [reflexivity|].
      rewrite Hj by (intros ->; apply H1; left; reflexivity). rewrite IHt; [reflexivity| |].
      - intros Hk. apply H1. right. exact Hk.
      - inversion H2; assumption. }
    lia.
  - inversion ND; subst. assert (x <> k) by (intros ->; contradiction).
    rewrite (Hj x) by assumption. rewrite IH by assumption. lia.
Qed.

(* a packet joins / leaves the things held: what it means per flow *)
Lemma filter_flow_one c g p : filter (is_flow g) (if is_class c (cls c g) p then [p] else []) = if is_flow g p then [p] else [].
Proof.
  unfold is_class. destruct (Z.eqb_spec (cls c (flow p)) (cls c g)) as [E|N]; cbn; unfold is_flow.
  - destruct (flow p =? g)%Z; reflexivity.
  - destruct (Z.eqb_spec (flow p) g) as [E|N']; [exfalso; apply N; rewrite E; reflexivity|reflexivity].
Qed.

(* ---- SPut ---- *)
Lemma put_inv c ins outs s p s' o :
  Inv c ins outs s -> mq_act c s (SPut p) = Some (s', o) -> Inv c (ins ++ [p]) (outs ++ forwards o) s'.
Proof.
  intros [C Sh] H. cbn in H.
  destruct (memZ (cls c (flow p)) (classes c) && (0 <=? psize p)%Z) eqn:Cond; [|discriminate].
  apply andb_true_iff in Cond as [Hf Hs]. apply memZ_In in Hf. apply Z.leb_le in Hs.
  injection H as <- <-. cbn [forwards flat_map]. rewrite app_nil_r.
  set (f := flow p) in *. set (k := cls c f) in *.
  match goal with |- Inv _ _ _ ?x => set (s1 := x) end.
  assert (Hheld : forall g, held_class c s1 g = held_class c s g ++ (if is_class c g p then [p] else [])).
  { intros g. unfold held_class, child_pkts, s1. cbn. unfold upd, is_class. fold f. fold k.
    destruct (Z.eqb_spec g k) as [->|N].
    - rewrite Z.eqb_refl. rewrite fifo_held_put, map_app. cbn. rewrite app_assoc. reflexivity.
    - destruct (Z.eqb_spec k g); [congruence|]. rewrite app_nil_r. reflexivity. }
  assert (Hflow : forall g, held_flow c s1 g = held_flow c s g ++ (if is_flow g p then [p] else [])).
  { intros g. unfold held_flow. rewrite Hheld, filter_app, filter_flow_one. reflexivity. }
  split.
  - constructor.
    + apply (i_cur _ _ _ _ C).
    + intros g. rewrite (Hheld g), filter_app, (i_cons _ _ _ _ C g), filter_one, app_assoc. reflexivity.
    + intros g. rewrite (Hflow g), app_length. unfold s1; cbn. unfold upd, is_flow. fold f.
      destruct (Z.eqb_spec g f) as [->|N].
      * rewrite Z.eqb_refl. cbn. rewrite (i_qc _ _ _ _ C f). lia.
      * destruct (Z.eqb_spec f g); [congruence|]. cbn. rewrite (i_qc _ _ _ _ C g). lia.
    + intros g. rewrite (Hflow g), sumsz_app. unfold s1; cbn. unfold upd, is_flow. fold f.
      destruct (Z.eqb_spec g f) as [->|N].
      * rewrite Z.eqb_refl. cbn. rewrite (i_qb _ _ _ _ C f). lia.
      * destruct (Z.eqb_spec f g); [congruence|]. cbn. rewrite (i_qb _ _ _ _ C g). lia.
    + rewrite (zsum_change (fun j => Z.of_nat (length (held_class c s j))) (fun j => Z.of_nat (length (held_class c s1 j))) k);
        [|apply dflows_nodup|apply dflows_in; exact Hf|].
      * rewrite (Hheld k), app_length. unfold is_class. fold f. fold k. rewrite Z.eqb_refl.
        unfold s1 at 1; cbn [mtotal]. rewrite (i_tot _ _ _ _ C). cbn [length]. lia.
      * intros j Hj. rewrite (Hheld j). unfold is_class. fold f. fold k. destruct (Z.eqb_spec k j); [congruence|]. rewrite app_nil_r. reflexivity.
    + intros p0 Hin. apply in_app_or in Hin as [Hin|[<-|[]]]; [apply (i_ins _ _ _ _ C); exact Hin|]. split; assumption.
    + unfold s1; cbn. destruct (mtotal s =? 0)%Z; [apply fifo_nostrand_put|apply (i_tokns _ _ _ _ C)].
    + unfold s1; cbn. destruct (Z.eqb_spec (mtotal s) 0) as [T|T].
      * intros _ _. cbn. unfold fifo_push. intros E. apply app_eq_nil in E as [_ E]. discriminate.
      * intros G _. apply (i_tokwake _ _ _ _ C); [exact G|]. pose proof (total_nonneg _ _ _ _ C). lia.
    + apply (i_dl _ _ _ _ C).
  - constructor; unfold s1; cbn.
    + apply (i_child _ Sh).
    + intros g. unfold upd. destruct (Z.eqb_spec g k) as [->|N]; [cbn|]; apply (i_getf _ Sh).
    + intros f0 rem E. unfold upd. destruct (Z.eqb_spec f0 k) as [->|N]; [cbn|]; eapply (i_pget _ Sh); eauto.
    + destruct (mtotal s =? 0)%Z; [cbn|]; apply (i_tokpc _ Sh).
Qed.

(* ---- StorePut events ---- *)
Lemma cbtok_inv c ins outs s s' o :
  Inv c ins outs s -> mq_act c s (SStoreCb None) = Some (s', o) -> Inv c ins (outs ++ forwards o) s'.
Proof.
  intros [C Sh] H. cbn in H. destruct (sq_cb fifo_pop (mtok s)) as [q|] eqn:G; [|discriminate].
  injection H as <- <-. cbn [forwards flat_map]. rewrite app_nil_r. split.
  - apply core_tok; [assumption|eapply fifo_nostrand_cb; eauto|].
    intros W T. apply fifo_cb_inv in G as (_ & [(_ & x & _ & Gx)|(_ & Ei & Eg)]); [congruence|].
    rewrite Ei. apply (i_tokwake _ _ _ _ C); [congruence|exact T].
  - constructor; cbn; try apply Sh.
    rewrite <- (sq_cb_get_none _ _ _ _ G). apply (i_tokpc _ Sh).
Qed.

Lemma cbflow_inv c ins outs s f s' o :
  Inv c ins outs s -> mq_act c s (SStoreCb (Some f)) = Some (s', o) -> Inv c ins (outs ++ forwards o) s'.
Proof.
  intros [C Sh] H. cbn in H. destruct (sq_cb fifo_pop (mstores s f)) as [q|] eqn:G; [|discriminate].
  injection H as <- <-. cbn [forwards flat_map]. rewrite app_nil_r.
  assert (NW : get (mstores s f) <> GWaiting).
  { intros E. pose proof (i_getf _ Sh f) as H. rewrite E in H. exact H. }
  destruct (sq_cb_not_waiting _ _ _ _ G NW) as [Ei Eg].
  split.
  - apply core_with_store; [assumption|eapply fifo_held_cb; eauto].
  - constructor; cbn.
    + apply (i_child _ Sh).
    + intros g. unfold upd. destruct (Z.eqb_spec g f) as [->|N]; [rewrite Eg|]; apply (i_getf _ Sh).
    + intros f0 rem E. unfold upd. destruct (Z.eqb_spec f0 f) as [->|N]; [rewrite Eg|]; eapply (i_pget _ Sh); eauto.
    + apply (i_tokpc _ Sh).
Qed.

(* ---- run() resumes ---- *)
Lemma init_inv c ins outs s s' o :
  wf c -> Inv c ins outs s -> mq_act c s SInit = Some (s', o) -> Inv c ins (outs ++ forwards o) s'.
Proof.
  intros Wf [C Sh] H. cbn in H. destruct (mpc s) eqn:P; try discriminate.
  rewrite (forwards_visits o), app_nil_r by (intros; eapply resume_only_visits; eauto).
  eapply resume_inv; [exact Wf|exact C| |exact H].
  apply (mid_of s s Sh); auto; try (rewrite P; discriminate).
  pose proof (i_child _ Sh) as Hc. rewrite P in Hc. exact Hc.
Qed.

Lemma gettok_inv c ins outs s s' o :
  wf c -> Inv c ins outs s -> mq_act c s (SGetDone None) = Some (s', o) -> Inv c ins (outs ++ forwards o) s'.
Proof.
  intros Wf [C Sh] H. cbn in H. destruct (mpc s) eqn:P; try discriminate.
  destruct (sq_take (mtok s)) as [[x q]|] eqn:T; [|discriminate].
  rewrite (forwards_visits o), app_nil_r by (intros; eapply resume_only_visits; eauto).
  apply sq_take_inv in T as (Gx & Ei & Ep & Gq).
  eapply resume_inv; [exact Wf| | |exact H].
  - apply core_tok; [assumption| |].
    + intros W. congruence.
    + intros W. congruence.
  - constructor; cbn.
    + pose proof (i_child _ Sh) as Hc. rewrite P in Hc. exact Hc.
    + intros g. pose proof (i_getf _ Sh g) as Hg. destruct (get (mstores s g)); [reflexivity|destruct Hg|].
      destruct Hg as (rem & E). congruence.
    + exact Gq.
Qed.

Lemma getflow_inv c ins outs s f s' o :
  Inv c ins outs s -> mq_act c s (SGetDone (Some f)) = Some (s', o) -> Inv c ins (outs ++ forwards o) s'.
Proof.
  intros [C Sh] H. cbn in H. destruct (mpc s) as [|g rem|rem| |] eqn:P; try discriminate.
  destruct (mchild s) eqn:Ch; try discriminate.
  destruct (Z.eqb_spec f g) as [<-|N]; [|discriminate].
  destruct (sq_take (mstores s f)) as [[[a p] q]|] eqn:T; [|discriminate].
  injection H as <- <-. cbn [forwards flat_map]. rewrite app_nil_r.
  pose proof (fifo_held_take _ _ _ _ T) as Hh.
  apply sq_take_inv in T as (Gx & Ei & Ep & Gq).
  assert (Fp : cls c (flow p) = f).
  { apply (held_in_ins c ins outs s f p C). unfold held_class. apply in_or_app. right. rewrite Hh. left. reflexivity. }
  split.
  - apply (core_ext c ins outs s _ C); [| |intros; reflexivity|intros; reflexivity|reflexivity|reflexivity|].
    + cbn. rewrite (i_cur _ _ _ _ C), Ch. reflexivity.
    + intros g. unfold held_class, child_pkts. cbn. rewrite Ch. cbn. unfold upd, is_class. rewrite Fp.
      destruct (Z.eqb_spec g f) as [->|Ng].
      * rewrite Z.eqb_refl, Hh. reflexivity.
      * destruct (Z.eqb_spec f g); [congruence|]. reflexivity.
    + intros p0 dl E. cbn in E. discriminate.
  - constructor; cbn.
    + discriminate.
    + intros g. unfold upd. destruct (Z.eqb_spec g f) as [->|Ng]; [rewrite Gq; exact I|].
      pose proof (i_getf _ Sh g) as Hg. destruct (get (mstores s g)); [exact I|exact Hg|].
      destruct Hg as (rem' & E). rewrite P in E. injection E as E _. congruence.
    + discriminate.
    + split; [discriminate|]. intros _. apply (i_tokpc _ Sh). rewrite P. discriminate.
Qed.

Lemma childinit_inv c ins outs s s' o :
  wf c -> Inv c ins outs s -> mq_act c s SChildInit = Some (s', o) -> Inv c ins (outs ++ forwards o) s'.
Proof.
  intros R [C Sh] H. cbn in H. destruct (mchild s) as [|p| |] eqn:Ch; try discriminate.
  injection H as <- <-. cbn [forwards flat_map]. rewrite app_nil_r.
  assert (Hp : (0 <= psize p)%Z).
  { destruct (held_in_ins c ins outs s (cls c (flow p)) p C) as [_ Hin].
    - unfold held_class, child_pkts. rewrite Ch. apply in_or_app. left. cbn. unfold is_class. rewrite Z.eqb_refl. left. reflexivity.
    - apply (i_ins _ _ _ _ C p Hin). }
  split.
  - apply (core_ext c ins outs s _ C); [| |intros; reflexivity|intros; reflexivity|reflexivity|reflexivity|].
    + reflexivity.
    + intros g. unfold held_class, child_pkts. cbn. rewrite Ch. reflexivity.
    + intros p0 dl E. cbn in E. injection E as _ <-. cbn. pose proof (tx_time_nonneg c p (proj1 R) Hp). lra.
  - constructor; cbn; try apply Sh.
    pose proof (i_child _ Sh) as Hc. rewrite Ch in Hc. destruct (mpc s); try discriminate.
Qed.

Lemma childtimer_inv c ins outs s s' o :
  Inv c ins outs s -> mq_act c s SChildTimer = Some (s', o) -> Inv c ins (outs ++ forwards o) s'.
Proof.
  intros [C Sh] H. cbn in H. destruct (mchild s) as [| |p dl|] eqn:Ch; try discriminate.
  destruct (Qeq_bool dl (mnow s)); [|discriminate]. injection H as <- <-. cbn [forwards flat_map app].
  set (f := flow p). set (k := cls c f).
  assert (Hpc : exists rem, mpc s = PChild rem).
  { pose proof (i_child _ Sh) as Hc. rewrite Ch in Hc. destruct (mpc s); try discriminate. eauto. }
  destruct Hpc as (rem & P).
  assert (Hold : forall g, held_class c s g = (if is_class c g p then [p] else []) ++ map snd (sq_held (mstores s g))).
  { intros g. unfold held_class, child_pkts. rewrite Ch. reflexivity. }
  assert (Hf : In k (classes c)).
  { destruct (held_in_ins c ins outs s k p C) as [_ Hin].
    - rewrite Hold. unfold is_class, k, f. rewrite Z.eqb_refl. left. reflexivity.
    - apply (i_ins _ _ _ _ C p Hin). }
  match goal with |- Inv _ _ _ ?x => set (s1 := x) end.
  assert (Hnew : forall g, held_class c s1 g = map snd (sq_held (mstores s g))).
  { intros g. unfold held_class, child_pkts, s1. reflexivity. }
  assert (Hflow : forall g, held_flow c s g = (if is_flow g p then [p] else []) ++ held_flow c s1 g).
  { intros g. unfold held_flow. rewrite Hold, Hnew, filter_app, filter_flow_one. reflexivity. }
  split.
  - constructor.
    + reflexivity.
    + intros g. rewrite filter_app, filter_one, (i_cons _ _ _ _ C g), Hold, Hnew.
      rewrite <- app_assoc. reflexivity.
    + intros g. unfold s1 at 1; cbn [mqc]. unfold upd. pose proof (Hflow g) as E. unfold is_flow in E. fold f in E.
      destruct (Z.eqb_spec g f) as [->|N].
      * rewrite Z.eqb_refl in E. rewrite (i_qc _ _ _ _ C f), E. cbn [app length]. lia.
      * destruct (Z.eqb_spec f g); [congruence|]. rewrite (i_qc _ _ _ _ C g), E. reflexivity.
    + intros g. unfold s1 at 1; cbn [mqb]. unfold upd. pose proof (Hflow g) as E. unfold is_flow in E. fold f in E.
      destruct (Z.eqb_spec g f) as [->|N].
      * rewrite Z.eqb_refl in E. rewrite (i_qb _ _ _ _ C f), E. cbn [app sumsz]. lia.
      * destruct (Z.eqb_spec f g); [congruence|]. rewrite (i_qb _ _ _ _ C g), E. reflexivity.
    + rewrite (zsum_change (fun j => Z.of_nat (length (held_class c s j))) (fun j => Z.of_nat (length (held_class c s1 j))) k);
        [|apply dflows_nodup|apply dflows_in; exact Hf|].
      * rewrite (Hold k), (Hnew k), app_length. unfold is_class. fold f. fold k. rewrite Z.eqb_refl.
        unfold s1 at 1; cbn [mtotal]. rewrite (i_tot _ _ _ _ C). cbn [length]. lia.
      * intros j Hj. rewrite (Hold j), (Hnew j). unfold is_class. fold f. fold k. destruct (Z.eqb_spec k j); [congruence|]. reflexivity.
    + apply (i_ins _ _ _ _ C).
    + apply (i_tokns _ _ _ _ C).
    + intros W. exfalso. assert (E : get (mtok s) = GNone) by (apply (i_tokpc _ Sh); rewrite P; discriminate). unfold s1 in W; cbn in W. congruence.
    + discriminate.
  - constructor; unfold s1; cbn; try apply Sh. rewrite P. discriminate.
Qed.

Lemma childend_inv c ins outs s s' o :
  wf c -> Inv c ins outs s -> mq_act c s SChildEnd = Some (s', o) -> Inv c ins (outs ++ forwards o) s'.
Proof.
  intros Wf [C Sh] H. cbn in H. destruct (mchild s) eqn:Ch; try discriminate.
  destruct (mpc s) as [| |rem| |] eqn:P; try discriminate.
  rewrite (forwards_visits o), app_nil_r by (intros; eapply resume_only_visits; eauto).
  eapply resume_inv; [exact Wf| | |exact H].
  - apply (core_ext c ins outs s _ C); [| |intros; reflexivity|intros; reflexivity|reflexivity|reflexivity|].
    + cbn. rewrite (i_cur _ _ _ _ C), Ch. reflexivity.
    + intros g. unfold held_class, child_pkts. cbn. rewrite Ch. reflexivity.
    + intros p0 dl E. cbn in E. discriminate.
  - apply (mid_of s _ Sh); try reflexivity; rewrite P; discriminate.
Qed.

Lemma advance_inv c ins outs s t s' o :
  Inv c ins outs s -> mq_act c s (SAdvance t) = Some (s', o) -> Inv c ins (outs ++ forwards o) s'.
Proof.
  intros [C Sh] H. cbn in H. destruct (urgent c s); [discriminate|].
  destruct (Qlt_le_dec (mnow s) t) as [Lt|]; [|discriminate].
  assert (E : s' = {| mnow := t; mstores := mstores s; mtok := mtok s; mqc := mqc s; mqb := mqb s; mtotal := mtotal s;
                     mcur := mcur s; mrecv := mrecv s; mchild := mchild s; mpc := mpc s |} /\ o = [] /\
              (forall p dl, mchild s = CTx p dl -> t <= dl)).
  { destruct (mchild s) as [| |p dl|] eqn:Ch; try (injection H as <- <-; repeat split; intros; discriminate).
    destruct (Qle_bool t dl) eqn:L; [|discriminate]. injection H as <- <-. repeat split.
    intros p0 dl0 E0. injection E0 as _ <-. apply Qle_bool_iff. exact L. }
  destruct E as (-> & -> & Hdl). cbn [forwards flat_map]. rewrite app_nil_r. split.
  - apply (core_ext c ins outs s _ C); [|intros; reflexivity|intros; reflexivity|intros; reflexivity|reflexivity|reflexivity|].
    + apply (i_cur _ _ _ _ C).
    + exact Hdl.
  - constructor; cbn; apply Sh.
Qed.

Theorem inv_step c ins outs s a s' o :
  wf c -> Inv c ins outs s -> mq_act c s a = Some (s', o) -> Inv c (ins ++ puts a) (outs ++ forwards o) s'.
Proof.
  intros R I H. destruct a as [p| |[f|]|[f|]| | | |t|incl]; cbn [puts]; rewrite ?app_nil_r.
  - eapply put_inv; eauto.
  - eapply init_inv; eauto.
  - eapply cbflow_inv; eauto.
  - eapply cbtok_inv; eauto.
  - eapply getflow_inv; eauto.
  - eapply gettok_inv; eauto.
  - eapply childinit_inv; eauto.
  - eapply childtimer_inv; eauto.
  - eapply childend_inv; eauto.
  - eapply advance_inv; eauto.
  - cbn in H. injection H as <- <-. cbn. rewrite app_nil_r. exact I.
Qed.


(* ---------------------------------------------------------------------------------------------- *)
(* the three actions in which run() executes: what the state looks like while it scans *)

Definition runs_loop (a : saction) : bool :=
  match a with SInit | SGetDone None | SChildEnd => true | _ => false end.

Definition cursor (c : mq_cfg) (s : mq) : list (Z * nat) :=
  match mpc s with PGet _ rem => rem | PChild rem => rem | _ => pass c end.

Lemma resume_site c ins outs s a s' o :
  Inv c ins outs s -> mq_act c s a = Some (s', o) -> runs_loop a = true ->
  exists s0, Core c ins outs s0 /\ Mid s0 /\ resume c s0 (cursor c s) = Some (s', o) /\
             mstores s0 = mstores s /\ mnow s0 = mnow s /\ mqc s0 = mqc s /\ mtotal s0 = mtotal s /\
             (forall g rem, mpc s <> PGet g rem).
Proof.
  intros [C Sh] H Ra. destruct a as [p| |[f|]|[f|]| | | |t|incl]; try discriminate; cbn in H.
  - destruct (mpc s) eqn:P; try discriminate. exists s. unfold cursor. rewrite P.
    split; [exact C|]. split.
    { apply (mid_of s s Sh); auto; try (rewrite P; discriminate).
      pose proof (i_child _ Sh) as Hc. rewrite P in Hc. exact Hc. }
    split; [exact H|]. do 4 (split; [reflexivity|]). discriminate.
  - destruct (mpc s) eqn:P; try discriminate.
    destruct (sq_take (mtok s)) as [[x q]|] eqn:T; [|discriminate].
    apply sq_take_inv in T as (Gx & Ei & Ep & Gq).
    exists (with_tok s q). unfold cursor. rewrite P.
    split. { apply core_tok; [assumption| |]; intros W; congruence. }
    split.
    { constructor; cbn.
      - pose proof (i_child _ Sh) as Hc. rewrite P in Hc. exact Hc.
      - intros g. pose proof (i_getf _ Sh g) as Hg. destruct (get (mstores s g)); [reflexivity|destruct Hg|].
        destruct Hg as (rem & E). congruence.
      - exact Gq. }
    split; [exact H|]. do 4 (split; [reflexivity|]). discriminate.
  - destruct (mchild s) eqn:Ch; try discriminate.
    destruct (mpc s) as [| |rem| |] eqn:P; try discriminate.
    exists (with_child s CNone (PChild rem)). unfold cursor. rewrite P.
    split.
    { apply (core_ext c ins outs s _ C); [| |intros; reflexivity|intros; reflexivity|reflexivity|reflexivity|].
      * cbn. rewrite (i_cur _ _ _ _ C), Ch. reflexivity.
      * intros g. unfold held_class, child_pkts. cbn. rewrite Ch. reflexivity.
      * intros p0 dl E. cbn in E. discriminate. }
    split.
    { constructor; cbn.
      - reflexivity.
      - intros g. pose proof (i_getf _ Sh g) as Hg. destruct (get (mstores s g)); [reflexivity|destruct Hg|].
        destruct Hg as (rem' & E). congruence.
      - apply (i_tokpc _ Sh). rewrite P. discriminate. }
    split; [exact H|]. do 4 (split; [reflexivity|]). discriminate.
Qed.

(* the actions that do not run the loop leave the cursor alone and visit nothing *)
Lemma other_site c s a s' o :
  mq_act c s a = Some (s', o) -> runs_loop a = false ->
  cursor c s' = cursor c s /\ (forall f b, ~ In (OVisit f b) o) /\ (mpc s' = PSpin -> mpc s = PSpin).
Proof.
  assert (NV1 : forall (x : sout), (forall f b, x <> OVisit f b) -> forall f b, ~ In (OVisit f b) [x]).
  { intros x Hx f b [E|[]]. eapply Hx; eauto. }
  intros H Ra. destruct a as [p| |[f|]|[f|]| | | |t|incl]; try discriminate; cbn in H.
  - destruct (memZ (cls c (flow p)) (classes c) && (0 <=? psize p)%Z); [|discriminate]. injection H as <- <-.
    split; [reflexivity|split; [intros f b []|auto]].
  - destruct (sq_cb fifo_pop (mstores s f)); [|discriminate]. injection H as <- <-.
    split; [reflexivity|split; [intros f0 b []|auto]].
  - destruct (sq_cb fifo_pop (mtok s)); [|discriminate]. injection H as <- <-.
    split; [reflexivity|split; [intros f0 b []|auto]].
  - destruct (mpc s) as [|g rem|rem| |] eqn:P; try discriminate. destruct (mchild s); try discriminate.
    destruct (f =? g)%Z; [|discriminate]. destruct (sq_take (mstores s f)) as [[[a p] q]|]; [|discriminate].
    injection H as <- <-. unfold cursor; cbn. rewrite P.
    split; [reflexivity|split; [intros f0 b []|discriminate]].
  - destruct (mchild s); try discriminate. injection H as <- <-.
    split; [reflexivity|split; [apply NV1; discriminate|auto]].
  - destruct (mchild s); try discriminate. destruct (Qeq_bool dl (mnow s)); [|discriminate]. injection H as <- <-.
    split; [reflexivity|split; [apply NV1; discriminate|auto]].
  - destruct (urgent c s); [discriminate|]. destruct (Qlt_le_dec (mnow s) t); [|discriminate].
    assert (E : exists s1, Some (s1, @nil sout) = Some (s', o) /\ mpc s1 = mpc s).
    { destruct (mchild s); try (eexists; split; [exact H|reflexivity]).
      destruct (Qle_bool t dl); [|discriminate]. eexists; split; [exact H|reflexivity]. }
    destruct E as (s1 & E & P1). injection E as <- <-.
    unfold cursor. rewrite P1. split; [reflexivity|split; [intros f0 b []|congruence]].
  - injection H as <- <-. split; [reflexivity|split; [apply NV1; discriminate|auto]].
Qed.

(* ---------------------------------------------------------------------------------------------- *)
(* executions *)

Definition tr_puts (tr : list tev) : list pkt := flat_map (fun e => puts (snd (fst e))) tr.
Definition tr_fwds (tr : list tev) : list pkt := flat_map (fun e => forwards (snd e)) tr.
Definition reachable (c : mq_cfg) (s : mq) : Prop := exists acts tr, mq_run c (mq0 c) acts = Some (s, tr).

(* every allowance positive (SP: all priorities > 0; WRR: all weights > 0), rate positive *)
Definition cfg_ok (c : mq_cfg) : Prop := wf c /\ forall f n, In (f, n) (pass c) -> (0 < n)%nat.

Lemma inv0 c : Inv c [] [] (mq0 c).
Proof.
  split.
  - constructor.
    + reflexivity.
    + intros f. reflexivity.
    + intros f. reflexivity.
    + intros f. reflexivity.
    + cbn. induction (dclasses c) as [|x l IH]; cbn; [reflexivity|exact IH].
    + intros p [].
    + apply sq_nostrand_init.
    + intros H. discriminate.
    + intros p dl H. discriminate.
  - constructor.
    + reflexivity.
    + intros g. exact I.
    + intros f rem H. discriminate.
    + split; [discriminate|reflexivity].
Qed.

Lemma inv_run c : wf c -> forall acts s ins outs s' tr,
  Inv c ins outs s -> mq_run c s acts = Some (s', tr) -> Inv c (ins ++ tr_puts tr) (outs ++ tr_fwds tr) s'.
Proof.
  intros R. induction acts as [|a rest IH]; intros s ins outs s' tr I H; cbn in H.
  - injection H as <- <-. cbn. rewrite !app_nil_r. exact I.
  - destruct (mq_act c s a) as [[s1 o]|] eqn:A; [|discriminate].
    destruct (mq_run c s1 rest) as [[s2 tr']|] eqn:Rn; [|discriminate]. injection H as <- <-.
    unfold tr_puts, tr_fwds. cbn [flat_map fst snd]. rewrite !app_assoc.
    apply (IH s1); [|exact Rn]. eapply inv_step; eauto.
Qed.

Lemma reachable_inv c s : wf c -> reachable c s -> exists ins outs, Inv c ins outs s.
Proof.
  intros R (acts & tr & H). exists (tr_puts tr), (tr_fwds tr).
  apply (inv_run c R acts (mq0 c) [] [] s tr (inv0 c) H).
Qed.

Lemma run_app c acts1 : forall s acts2 s2 tr,
  mq_run c s (acts1 ++ acts2) = Some (s2, tr) ->
  exists s1 tr1 tr2, mq_run c s acts1 = Some (s1, tr1) /\ mq_run c s1 acts2 = Some (s2, tr2) /\ tr = tr1 ++ tr2.
Proof.
  induction acts1 as [|a t IH]; intros s acts2 s2 tr H; cbn in H.
  - exists s, [], tr. auto.
  - destruct (mq_act c s a) as [[s1 o]|] eqn:A; [|discriminate].
    destruct (mq_run c s1 (t ++ acts2)) as [[s3 tr']|] eqn:Rn; [|discriminate]. injection H as <- <-.
    destruct (IH _ _ _ _ Rn) as (sa & tr1 & tr2 & R1 & R2 & ->).
    exists sa, ((mnow s1, a, o) :: tr1), tr2. cbn. rewrite A, R1. auto.
Qed.

Lemma run_snoc c acts a s s' o tr :
  mq_run c (mq0 c) acts = Some (s, tr) -> mq_act c s a = Some (s', o) ->
  mq_run c (mq0 c) (acts ++ [a]) = Some (s', tr ++ [(mnow s', a, o)]).
Proof.
  revert tr. generalize (mq0 c). induction acts as [|b t IH]; intros s0 tr H A; cbn in *.
  - injection H as <- <-. rewrite A. reflexivity.
  - destruct (mq_act c s0 b) as [[s1 o1]|]; [|discriminate].
    destruct (mq_run c s1 t) as [[s2 tr2]|] eqn:Rn; [|discriminate]. injection H as <- <-.
    rewrite (IH s1 tr2 Rn A). reflexivity.
Qed.

Lemma reachable_step c s a s' o : reachable c s -> mq_act c s a = Some (s', o) -> reachable c s'.
Proof. intros (acts & tr & H) A. exists (acts ++ [a]), (tr ++ [(mnow s', a, o)]). eapply run_snoc; eauto. Qed.

(* induction principle over reachable states *)
Lemma reachable_ind' c (P : mq -> Prop) :
  P (mq0 c) -> (forall s a s' o, reachable c s -> P s -> mq_act c s a = Some (s', o) -> P s') ->
  forall s, reachable c s -> P s.
Proof.
  intros P0 Pst s (acts & tr & H). revert s tr H.
  induction acts as [|a t IH] using rev_ind; intros s tr H.
  - cbn in H. injection H as <- <-. exact P0.
  - apply run_app in H as (s1 & tr1 & tr2 & R1 & R2 & ->). cbn in R2.
    destruct (mq_act c s1 a) as [[s2 o]|] eqn:A; [|discriminate]. injection R2 as <- <-.
    eapply Pst; [exists t, tr1; exact R1|eapply IH; eauto|exact A].
Qed.

(* ---------------------------------------------------------------------------------------------- *)
(* the loop never spins: with positive allowances a pass started with packets counted finds one *)

Lemma resume_no_spin c ins outs s rem s' vs :
  cfg_ok c -> Core c ins outs s -> Mid s -> resume c s rem = Some (s', vs) -> mpc s' <> PSpin.
Proof.
  intros [R Pos] C M H. unfold resume in H.
  destruct (scan (nonempty c s) rem) as [vs0 [[f rem']|]] eqn:Sc.
  - unfold commit in H. destruct (sq_get fifo_pop (mstores s f)); [|discriminate]. injection H as <- <-. discriminate.
  - destruct (end_pass c s) as [[s1 vs1]|] eqn:E; [|discriminate]. injection H as <- <-.
    unfold end_pass in E. destruct (Z.eqb_spec (mtotal s) 0) as [T|T].
    + destruct (sq_get fifo_pop (mtok s)); [|discriminate]. injection E as <- <-. discriminate.
    + destruct (scan (nonempty c s) (pass c)) as [vs2 [[f rem']|]] eqn:Sc2.
      * unfold commit in E. destruct (sq_get fifo_pop (mstores s f)); [|discriminate]. injection E as <- <-. discriminate.
      * exfalso. pose proof (total_nonneg _ _ _ _ C) as T0.
        destruct (zsum_pos (fun k => Z.of_nat (length (held_class c s k))) (dclasses c)) as (f & Hf & Pf).
        { intros g _. lia. }
        { rewrite <- (i_tot _ _ _ _ C). lia. }
        apply dflows_in in Hf. unfold classes in Hf. apply in_map_iff in Hf as ([f' n] & E1 & Hin). cbn in E1. subst f'.
        destruct (scan_none _ _ _ Sc2 f n Hin) as [N0|Tf].
        -- specialize (Pos f n Hin). lia.
        -- rewrite (nonempty_spec c ins outs s f R C M) in Tf.
           rewrite (mid_held c s f M), map_length in Pf.
           destruct (items (mstores s f)); [cbn in Pf; lia|discriminate].
Qed.

Theorem never_spins c s : cfg_ok c -> reachable c s -> mpc s <> PSpin.
Proof.
  intros Ok Rs. revert s Rs. apply reachable_ind'.
  - discriminate.
  - intros s a s' o Rs IH A. destruct (reachable_inv c s (proj1 Ok) Rs) as (ins & outs & I).
    destruct (runs_loop a) eqn:Ra.
    + destruct (resume_site c ins outs s a s' o I A Ra) as (s0 & C0 & M0 & Rsm & _).
      eapply resume_no_spin; eauto.
    + intros E. apply IH. eapply (other_site c s a s' o A Ra). exact E.
Qed.

(* ---------------------------------------------------------------------------------------------- *)
(* work conservation: whenever the clock may move, a transmission is in progress or nothing is held *)

Lemma quiet_transmitting_or_empty c ins outs s :
  Inv c ins outs s -> mpc s <> PSpin -> urgent c s = false ->
  (exists p dl, mchild s = CTx p dl /\ mcur s = Some p /\ mnow s < dl) \/ (forall f, held_class c s f = []).
Proof.
  intros [C Sh] NS U. unfold urgent in U.
  apply orb_false_iff in U as [U Uch]. apply orb_false_iff in U as [U Ust]. apply orb_false_iff in U as [Upc Utok].
  destruct (mpc s) as [|f rem|rem| |] eqn:P; try discriminate.
  - (* PGet: the granted get is due now *)
    exfalso. destruct (i_pget _ Sh f rem P) as (x & Gx).
    assert (Hf : In f (classes c)).
    { destruct (held_in_ins c ins outs s f (snd x) C) as [Fx Hin].
      - unfold held_class. apply in_or_app. right. unfold sq_held. rewrite Gx. left. reflexivity.
      - rewrite <- Fx. apply (i_ins _ _ _ _ C _ Hin). }
    assert (E : existsb (fun f0 => sq_urgent (mstores s f0)) (classes c) = true).
    { apply existsb_exists. exists f. split; [exact Hf|]. unfold sq_urgent. rewrite Gx. apply orb_true_r. }
    congruence.
  - (* PChild *)
    pose proof (i_child _ Sh) as Hc. rewrite P in Hc. unfold child_urgent in Uch.
    destruct (mchild s) as [|p|p dl|] eqn:Ch; try discriminate; [contradiction|].
    left. exists p, dl. split; [reflexivity|]. split; [rewrite (i_cur _ _ _ _ C), Ch; reflexivity|].
    pose proof (i_dl _ _ _ _ C p dl Ch) as Le.
    destruct (Qlt_le_dec (mnow s) dl) as [Lt|Ge]; [exact Lt|].
    exfalso. assert (Eq : dl == mnow s) by (apply Qle_antisym; assumption).
    apply Qeq_bool_iff in Eq. congruence.
  - (* PTok *)
    right. pose proof (i_child _ Sh) as Hc. rewrite P in Hc.
    apply sq_urgent_false in Utok as [Pz Ng].
    assert (T0 : mtotal s = 0%Z).
    { pose proof (total_nonneg _ _ _ _ C) as T0. destruct (Z.eq_dec (mtotal s) 0) as [|N]; [assumption|]. exfalso.
      destruct (get (mtok s)) as [| |x] eqn:G.
      - apply (i_tokpc _ Sh) in G. apply G. exact P.
      - assert (Hi : items (mtok s) <> []) by (apply (i_tokwake _ _ _ _ C); [exact G|lia]).
        pose proof (i_tokns _ _ _ _ C G Hi). lia.
      - apply (Ng x). reflexivity. }
    intros f.
    destruct (in_dec Z.eq_dec f (classes c)) as [Hf|Hf].
    + assert (Q0 : Z.of_nat (length (held_class c s f)) = 0%Z).
      { apply (zsum_zero (fun k => Z.of_nat (length (held_class c s k))) (dclasses c)); [intros g _; lia|rewrite <- (i_tot _ _ _ _ C); exact T0|apply dflows_in; exact Hf]. }
      destruct (held_class c s f); [reflexivity|cbn in Q0; lia].
    + destruct (held_class c s f) as [|p l] eqn:Hh; [reflexivity|]. exfalso. apply Hf.
      destruct (held_in_ins c ins outs s f p C) as [Fp Hin]; [rewrite Hh; left; reflexivity|].
      rewrite <- Fp. apply (i_ins _ _ _ _ C _ Hin).
  - contradiction.
Qed.

Theorem work_conserving c s t r :
  cfg_ok c -> reachable c s -> mq_act c s (SAdvance t) = Some r ->
  (exists p dl, mchild s = CTx p dl /\ mcur s = Some p /\ mnow s < dl) \/ (forall f, held_class c s f = []).
Proof.
  intros Ok Rs A. destruct (reachable_inv c s (proj1 Ok) Rs) as (ins & outs & I).
  apply (quiet_transmitting_or_empty c ins outs s I (never_spins c s Ok Rs)).
  cbn in A. destruct (urgent c s); [discriminate|reflexivity].
Qed.

(* a state in which nothing of the scheduler is enabled and no deadline is pending holds nothing *)
Theorem drained c s :
  cfg_ok c -> reachable c s -> urgent c s = false -> (forall p dl, mchild s <> CTx p dl) ->
  (forall f, held_class c s f = []) /\ (forall f, mqc s f = 0%Z /\ mqb s f = 0%Z) /\ mcur s = None.
Proof.
  intros Ok Rs U Nd. destruct (reachable_inv c s (proj1 Ok) Rs) as (ins & outs & I).
  destruct (quiet_transmitting_or_empty c ins outs s I (never_spins c s Ok Rs) U) as [(p & dl & E & _)|He].
  - exfalso. eapply Nd; eauto.
  - destruct I as [C Sh]. split; [exact He|]. split.
    + intros f. rewrite (i_qc _ _ _ _ C f), (i_qb _ _ _ _ C f). unfold held_flow. rewrite He. split; reflexivity.
    + rewrite (i_cur _ _ _ _ C). destruct (mchild s) eqn:Ch; try reflexivity. exfalso. eapply Nd; eauto.
Qed.


(* ---------------------------------------------------------------------------------------------- *)
(* one transmission at a time, of exactly 8*size/rate, never aborted *)

Definition starts (l : list sout) : list pkt := flat_map (fun o => match o with OStart p => [p] | _ => [] end) l.
Definition child_tx (s : mq) : option (pkt * Q) := match mchild s with CTx p dl => Some (p, dl) | _ => None end.

(* every entry of a timed trace either starts a transmission (only when none is in progress), or ends the one in
   progress -- the very packet that was started, exactly at start + 8*size/rate --, or does neither, and then the
   clock has not passed the end of the transmission in progress *)
Fixpoint tx_wf (c : mq_cfg) (cur : option (pkt * Q)) (tr : list tev) : Prop :=
  match tr with
  | [] => True
  | (t, a, outs) :: r =>
      match starts outs, forwards outs with
      | [p], [] => cur = None /\ tx_wf c (Some (p, t + tx_time c p)) r
      | [], [p] => (exists dl, cur = Some (p, dl) /\ dl == t) /\ tx_wf c None r
      | [], [] => match cur with Some (_, dl) => t <= dl | None => True end /\ tx_wf c cur r
      | _, _ => False
      end
  end.

Lemma resume_child c s rem s' o : resume c s rem = Some (s', o) -> mchild s' = mchild s.
Proof.
  unfold resume, end_pass, commit.
  destruct (scan (nonempty c s) rem) as [vs0 [[f rem']|]].
  - destruct (sq_get fifo_pop (mstores s f)); [|discriminate]. intros H; injection H as <- <-. reflexivity.
  - destruct (mtotal s =? 0)%Z.
    + destruct (sq_get fifo_pop (mtok s)); [|discriminate]. intros H; injection H as <- <-. reflexivity.
    + destruct (scan (nonempty c s) (pass c)) as [vs1 [[f rem']|]].
      * destruct (sq_get fifo_pop (mstores s f)); [|discriminate]. intros H; injection H as <- <-. reflexivity.
      * intros H; injection H as <- <-. reflexivity.
Qed.

Lemma starts_visits vs : (forall o, In o vs -> exists f b, o = OVisit f b) -> starts vs = [].
Proof.
  induction vs as [|o t IH]; intros H; [reflexivity|]. unfold starts in *. cbn.
  destruct (H o (or_introl eq_refl)) as (f & b & ->). cbn. apply IH. intros; apply H; right; auto.
Qed.

Lemma tx_step c ins outs s a s' o :
  wf c -> Inv c ins outs s -> mq_act c s a = Some (s', o) ->
  (exists p, starts o = [p] /\ forwards o = [] /\ child_tx s = None /\ child_tx s' = Some (p, mnow s' + tx_time c p))
  \/ (exists p dl, starts o = [] /\ forwards o = [p] /\ child_tx s = Some (p, dl) /\ dl == mnow s' /\ child_tx s' = None)
  \/ (starts o = [] /\ forwards o = [] /\ child_tx s' = child_tx s /\
      match child_tx s with Some (_, dl) => mnow s' <= dl | None => True end).
Proof.
  intros R I H. pose proof (inv_step c ins outs s a s' o R I H) as [C' _].
  assert (Hb : child_tx s' = child_tx s -> match child_tx s with Some (_, dl) => mnow s' <= dl | None => True end).
  { intros E. rewrite <- E. unfold child_tx. destruct (mchild s') eqn:Ch; auto. apply (i_dl _ _ _ _ C' _ _ Ch). }
  destruct (runs_loop a) eqn:Ra.
  - right. right. destruct (resume_site c ins outs s a s' o I H Ra) as (s0 & C0 & M0 & Rs & _).
    assert (Ech : child_tx s' = None).
    { unfold child_tx. rewrite (resume_child _ _ _ _ _ Rs), (m_child _ M0). reflexivity. }
    assert (Ech0 : child_tx s = None).
    { destruct I as [C Sh]. pose proof (i_child _ Sh) as Hc. unfold child_tx.
      destruct a as [p| |[f|]|[f|]| | | |t|incl]; try discriminate; cbn in H.
      - destruct (mpc s); try discriminate. rewrite Hc. reflexivity.
      - destruct (mpc s); try discriminate. rewrite Hc. reflexivity.
      - destruct (mchild s); try discriminate; reflexivity. }
    split; [apply starts_visits; intros; eapply resume_only_visits; eauto|].
    split; [apply forwards_visits; intros; eapply resume_only_visits; eauto|].
    split; [congruence|]. rewrite Ech0. exact Logic.I.
  - destruct a as [p| |[f|]|[f|]| | | |t|incl]; try discriminate; cbn in H.
    + destruct (memZ (cls c (flow p)) (classes c) && (0 <=? psize p)%Z); [|discriminate]. injection H as <- <-.
      right. right. split; [reflexivity|split; [reflexivity|]]. split; [reflexivity|]. apply Hb. reflexivity.
    + destruct (sq_cb fifo_pop (mstores s f)); [|discriminate]. injection H as <- <-.
      right. right. split; [reflexivity|split; [reflexivity|]]. split; [reflexivity|]. apply Hb. reflexivity.
    + destruct (sq_cb fifo_pop (mtok s)); [|discriminate]. injection H as <- <-.
      right. right. split; [reflexivity|split; [reflexivity|]]. split; [reflexivity|]. apply Hb. reflexivity.
    + destruct (mpc s) as [|g rem|rem| |] eqn:P; try discriminate. destruct (mchild s) eqn:Ch; try discriminate.
      destruct (f =? g)%Z; [|discriminate]. destruct (sq_take (mstores s f)) as [[[a p] q]|]; [|discriminate].
      injection H as <- <-. right. right. unfold child_tx. cbn. rewrite Ch. auto.
    + destruct (mchild s) eqn:Ch; try discriminate. injection H as <- <-.
      left. exists p. unfold child_tx. cbn. rewrite Ch. auto.
    + destruct (mchild s) eqn:Ch; try discriminate. destruct (Qeq_bool dl (mnow s)) eqn:E; [|discriminate]. injection H as <- <-.
      right. left. exists p, dl. unfold child_tx. cbn. rewrite Ch. apply Qeq_bool_iff in E. auto.
    + destruct (urgent c s); [discriminate|]. destruct (Qlt_le_dec (mnow s) t); [|discriminate].
      assert (E : o = [] /\ mchild s' = mchild s).
      { destruct (mchild s); try (injection H as <- <-; split; reflexivity).
        destruct (Qle_bool t dl); [|discriminate]. injection H as <- <-. split; reflexivity. }
      destruct E as [-> Ech]. right. right. split; [reflexivity|split; [reflexivity|]].
      assert (Ec : child_tx s' = child_tx s) by (unfold child_tx; rewrite Ech; reflexivity). split; [exact Ec|apply Hb; exact Ec].
    + injection H as <- <-. right. right. split; [reflexivity|split; [reflexivity|]]. split; [reflexivity|]. apply Hb. reflexivity.
Qed.

Theorem tx_wf_run c : wf c -> forall acts s ins outs s' tr,
  Inv c ins outs s -> mq_run c s acts = Some (s', tr) -> tx_wf c (child_tx s) tr.
Proof.
  intros R. induction acts as [|a rest IH]; intros s ins outs s' tr I H; cbn in H.
  - injection H as <- <-. exact Logic.I.
  - destruct (mq_act c s a) as [[s1 o]|] eqn:A; [|discriminate].
    destruct (mq_run c s1 rest) as [[s2 tr']|] eqn:Rn; [|discriminate]. injection H as <- <-.
    pose proof (inv_step c ins outs s a s1 o R I A) as I1.
    specialize (IH s1 _ _ _ _ I1 Rn). cbn [tx_wf].
    destruct (tx_step c ins outs s a s1 o R I A) as [(p & Es & Ef & E0 & E1)|[(p & dl & Es & Ef & E0 & Ed & E1)|(Es & Ef & E1 & Hb)]];
      rewrite Es, Ef.
    + split; [exact E0|]. rewrite <- E1. exact IH.
    + split; [exists dl; auto|]. rewrite <- E1. exact IH.
    + split; [exact Hb|]. rewrite <- E1. exact IH.
Qed.

(* ---------------------------------------------------------------------------------------------- *)
(* conservation, per-flow FIFO, counters: statements on executions from the initial state *)

Theorem run_conserves c acts s tr :
  wf c -> mq_run c (mq0 c) acts = Some (s, tr) ->
  (forall k, filter (is_class c k) (tr_puts tr) = filter (is_class c k) (tr_fwds tr) ++ held_class c s k)
  /\ (forall f, filter (is_flow f) (tr_puts tr) = filter (is_flow f) (tr_fwds tr) ++ held_flow c s f)
  /\ (forall p, In p (tr_puts tr) -> In (cls c (flow p)) (classes c)).
Proof.
  intros R H. destruct (inv_run c R acts (mq0 c) [] [] s tr (inv0 c) H) as [C _]. cbn in C. split; [|split].
  - apply (i_cons _ _ _ _ C).
  - intros f. rewrite <- (filter_flow_class c f (tr_puts tr)), (i_cons _ _ _ _ C (cls c f)), filter_app, filter_flow_class.
    reflexivity.
  - intros p Hp. apply (i_ins _ _ _ _ C p Hp).
Qed.

Lemma recv_run c : forall acts s0 s tr, mq_run c s0 acts = Some (s, tr) ->
  mrecv s = (mrecv s0 + Z.of_nat (length (tr_puts tr)))%Z.
Proof.
  induction acts as [|a rest IH]; intros s0 s tr H; cbn in H.
  - injection H as <- <-. cbn. lia.
  - destruct (mq_act c s0 a) as [[s1 o]|] eqn:A; [|discriminate].
    destruct (mq_run c s1 rest) as [[s2 tr']|] eqn:Rn; [|discriminate]. injection H as <- <-.
    rewrite (IH _ _ _ Rn). unfold tr_puts. cbn [flat_map fst snd]. rewrite app_length.
    assert (E : mrecv s1 = (mrecv s0 + Z.of_nat (length (puts a)))%Z).
    { assert (Rr : forall x rem y vs, resume c x rem = Some (y, vs) -> mrecv y = mrecv x).
      { intros x rem y vs. unfold resume, end_pass, commit.
        destruct (scan (nonempty c x) rem) as [vs0 [[f rem']|]].
        - destruct (sq_get fifo_pop (mstores x f)); [|discriminate]. intros E; injection E as <- <-. reflexivity.
        - destruct (mtotal x =? 0)%Z.
          + destruct (sq_get fifo_pop (mtok x)); [|discriminate]. intros E; injection E as <- <-. reflexivity.
          + destruct (scan (nonempty c x) (pass c)) as [vs1 [[f rem']|]].
            * destruct (sq_get fifo_pop (mstores x f)); [|discriminate]. intros E; injection E as <- <-. reflexivity.
            * intros E; injection E as <- <-. reflexivity. }
      destruct a as [p| |[f|]|[f|]| | | |t|incl]; cbn in A; cbn [puts length].
      - destruct (memZ (cls c (flow p)) (classes c) && (0 <=? psize p)%Z); [|discriminate]. injection A as <- <-. cbn. lia.
      - destruct (mpc s0); try discriminate. rewrite (Rr _ _ _ _ A). lia.
      - destruct (sq_cb fifo_pop (mstores s0 f)); [|discriminate]. injection A as <- <-. cbn. lia.
      - destruct (sq_cb fifo_pop (mtok s0)); [|discriminate]. injection A as <- <-. cbn. lia.
      - destruct (mpc s0); try discriminate. destruct (mchild s0); try discriminate. destruct (f =? f0)%Z; [|discriminate].
        destruct (sq_take (mstores s0 f)) as [[[a p] q]|]; [|discriminate]. injection A as <- <-. cbn. lia.
      - destruct (mpc s0); try discriminate. destruct (sq_take (mtok s0)) as [[x q]|]; [|discriminate].
        rewrite (Rr _ _ _ _ A). cbn. lia.
      - destruct (mchild s0); try discriminate. injection A as <- <-. cbn. lia.
      - destruct (mchild s0); try discriminate. destruct (Qeq_bool dl (mnow s0)); [|discriminate]. injection A as <- <-. cbn. lia.
      - destruct (mchild s0); try discriminate. destruct (mpc s0); try discriminate.
        rewrite (Rr _ _ _ _ A). cbn. lia.
      - destruct (urgent c s0); [discriminate|]. destruct (Qlt_le_dec (mnow s0) t); [|discriminate].
        destruct (mchild s0); try (injection A as <- <-; cbn; lia). destruct (Qle_bool t dl); [|discriminate]. injection A as <- <-; cbn; lia.
      - injection A as <- <-. lia. }
    rewrite E. lia.
Qed.

Theorem run_counters c acts s tr :
  wf c -> mq_run c (mq0 c) acts = Some (s, tr) ->
  (forall f, mqc s f = Z.of_nat (length (held_flow c s f)) /\ mqb s f = sumsz (held_flow c s f))
  /\ mtotal s = zsum (fun k => Z.of_nat (length (held_class c s k))) (dclasses c)
  /\ mcur s = match mchild s with CTx p _ => Some p | _ => None end
  /\ mrecv s = Z.of_nat (length (tr_puts tr)).
Proof.
  intros R H. destruct (inv_run c R acts (mq0 c) [] [] s tr (inv0 c) H) as [C _]. cbn in C.
  split; [intros f; split; [apply (i_qc _ _ _ _ C)|apply (i_qb _ _ _ _ C)]|].
  split; [apply (i_tot _ _ _ _ C)|].
  split; [apply (i_cur _ _ _ _ C)|].
  rewrite (recv_run c _ _ _ _ H). cbn. lia.
Qed.

(* ---------------------------------------------------------------------------------------------- *)
(* between the moment run() takes a packet of class k out of its queue and the start of the transmission timer *)
Definition committed (c : mq_cfg) (s : mq) (k : Z) : Prop :=
  (exists rem, mpc s = PGet k rem) \/ (exists p, mchild s = CInit p /\ cls c (flow p) = k).

Lemma committed_urgent c s f : wf c -> reachable c s -> committed c s f -> urgent c s = true.
Proof.
  intros R Rs Cm. destruct (reachable_inv c s R Rs) as (ins & outs & [C Sh]).
  unfold urgent. destruct Cm as [(rem & P)|(p & Ch & _)].
  - destruct (i_pget _ Sh f rem P) as (x & Gx).
    assert (Hf : In f (classes c)).
    { destruct (held_in_ins c ins outs s f (snd x) C) as [Fx Hin].
      - unfold held_class. apply in_or_app. right. unfold sq_held. rewrite Gx. left. reflexivity.
      - rewrite <- Fx. apply (i_ins _ _ _ _ C _ Hin). }
    assert (Ex : existsb (fun f0 => sq_urgent (mstores s f0)) (classes c) = true).
    { apply existsb_exists. exists f. split; [exact Hf|]. unfold sq_urgent. rewrite Gx. apply orb_true_r. }
    rewrite Ex. rewrite orb_true_r. reflexivity.
  - unfold child_urgent. rewrite Ch. apply orb_true_r.
Qed.


(* ---------------------------------------------------------------------------------------------- *)
(* per-flow FIFO, exactly once *)

Theorem run_flow_fifo c acts s tr f :
  wf c -> mq_run c (mq0 c) acts = Some (s, tr) ->
  exists rest, filter (is_flow f) (tr_puts tr) = filter (is_flow f) (tr_fwds tr) ++ rest.
Proof. intros R H. exists (held_flow c s f). apply (run_conserves c acts s tr R H). Qed.

Lemma Q_eq_dec (a b : Q) : {a = b} + {a <> b}.
Proof. decide equality; [apply Pos.eq_dec|apply Z.eq_dec]. Qed.
Lemma pkt_eq_dec (a b : pkt) : {a = b} + {a <> b}.
Proof. decide equality; auto using Q_eq_dec, Z.eq_dec, Nat.eq_dec. Qed.

Lemma count_filter_class c p l :
  count_occ pkt_eq_dec (filter (is_class c (cls c (flow p))) l) p = count_occ pkt_eq_dec l p.
Proof.
  induction l as [|x t IH]; cbn; [reflexivity|].
  destruct (pkt_eq_dec x p) as [->|N].
  - unfold is_class at 1. rewrite Z.eqb_refl. cbn. destruct (pkt_eq_dec p p); [|contradiction]. rewrite IH. reflexivity.
  - destruct (is_class c (cls c (flow p)) x); [cbn; destruct (pkt_eq_dec x p); [contradiction|]|]; exact IH.
Qed.

(* every packet handed in is accounted for exactly once: forwarded or held (in the queue of its class) *)
Theorem run_exactly_once c acts s tr p :
  wf c -> mq_run c (mq0 c) acts = Some (s, tr) ->
  count_occ pkt_eq_dec (tr_puts tr) p
  = (count_occ pkt_eq_dec (tr_fwds tr) p + count_occ pkt_eq_dec (held_class c s (cls c (flow p))) p)%nat.
Proof.
  intros R H. destruct (run_conserves c acts s tr R H) as [Hc _].
  rewrite <- (count_filter_class c p (tr_puts tr)), <- (count_filter_class c p (tr_fwds tr)), (Hc (cls c (flow p))), count_occ_app.
  reflexivity.
Qed.

(* ---------------------------------------------------------------------------------------------- *)
(* what the Monitor samples *)

(* packets of flow f held but not (yet) in transmission *)
Definition waiting_flow (c : mq_cfg) (s : mq) (f : Z) : list pkt :=
  filter (is_flow f) (filter (is_class c (cls c f)) (match mchild s with CInit p => [p] | _ => [] end)
                      ++ map snd (sq_held (mstores s (cls c f)))).

Theorem monitor_samples c s incl f :
  wf c -> reachable c s ->
  sample_of s incl f =
    let l := if incl then held_flow c s f else waiting_flow c s f in (f, Z.of_nat (length l), sumsz l).
Proof.
  intros R Rs. destruct (reachable_inv c s R Rs) as (ins & outs & [C Sh]).
  unfold sample_of. rewrite (i_cur _ _ _ _ C), (i_qc _ _ _ _ C f), (i_qb _ _ _ _ C f).
  unfold held_flow, held_class, waiting_flow, child_pkts.
  destruct (mchild s) as [|p|p dl|]; destruct incl; cbn [negb andb]; try reflexivity.
  rewrite !filter_app, filter_one, filter_flow_one. cbn [filter app].
  change (flow p =? f)%Z with (is_flow f p). destruct (is_flow f p); [|reflexivity].
  cbn [app length sumsz]. f_equal; [f_equal|]; lia.
Qed.

(* ---------------------------------------------------------------------------------------------- *)
(* the visiting order of run(): cyclic in declaration order, allowance per visit *)

Definition visits_of (o : list sout) : list (Z * bool) :=
  flat_map (fun x => match x with OVisit f b => [(f, b)] | _ => [] end) o.
Definition tr_visits (tr : list tev) : list (Z * bool) := flat_map (fun e => visits_of (snd e)) tr.

Fixpoint drop0 (l : list (Z * nat)) : list (Z * nat) :=
  match l with (_, O) :: t => drop0 t | _ => l end.
(* the slot the loop looks at next: exhausted slots are passed over, after the last slot the pass starts again *)
Definition norm (pass rem : list (Z * nat)) : list (Z * nat) :=
  match drop0 rem with [] => drop0 pass | l => l end.

(* the specification of cyclic visiting: a visit is always to the class of the next slot; a visit that takes a
   packet uses up one unit of the slot's allowance, a visit that finds the class empty ends the slot *)
Fixpoint walk (pass rem : list (Z * nat)) (vs : list (Z * bool)) : option (list (Z * nat)) :=
  match vs with
  | [] => Some rem
  | (f, b) :: r =>
      match norm pass rem with
      | (g, S n) :: t => if Z.eqb f g then walk pass (if b then (g, n) :: t else t) r else None
      | _ => None
      end
  end.

Lemma walk_app pass vs1 : forall rem vs2 k,
  walk pass rem vs1 = Some k -> walk pass rem (vs1 ++ vs2) = walk pass k vs2.
Proof.
  induction vs1 as [|[f b] r IH]; intros rem vs2 k H; cbn in *.
  - injection H as <-. reflexivity.
  - destruct (norm pass rem) as [|[g [|n]] t]; try discriminate. destruct (f =? g)%Z; [|discriminate]. eauto.
Qed.

Lemma drop0_idem l : drop0 (drop0 l) = drop0 l.
Proof. induction l as [|[f [|n]] t IH]; cbn; auto. Qed.

Lemma drop0_head l : match drop0 l with (_, O) :: _ => False | _ => True end.
Proof. induction l as [|[f [|n]] t IH]; cbn; auto. Qed.

Lemma visits_of_app a b : visits_of (a ++ b) = visits_of a ++ visits_of b.
Proof. unfold visits_of. apply flat_map_app. Qed.

(* a scan over rem, started with the cursor at k (same next slot), walks to the cursor it leaves *)
Lemma scan_walk pass test rem : forall vs r k,
  scan test rem = (vs, r) ->
  (drop0 rem <> [] -> norm pass k = drop0 rem) -> (drop0 rem = [] -> drop0 k = []) ->
  exists k', walk pass k (visits_of vs) = Some k' /\
             match r with Some (f, rem') => k' = rem' | None => drop0 k' = [] end.
Proof.
  induction rem as [|[g m] t IH]; intros vs r k H Hk Hk0; cbn in H.
  - injection H as <- <-. exists k. split; [reflexivity|]. apply Hk0. reflexivity.
  - destruct m as [|m].
    + apply (IH vs r k H); cbn in Hk, Hk0; assumption.
    + cbn in Hk. destruct (test g) eqn:T.
      * injection H as <- <-. exists ((g, m) :: t). split; [|reflexivity].
        cbn. rewrite Hk by discriminate. rewrite Z.eqb_refl. reflexivity.
      * destruct (scan test t) as [vs' r'] eqn:Sc. injection H as <- <-.
        destruct (IH vs' r' t eq_refl) as (k' & W & E).
        { intros NE. unfold norm. destruct (drop0 t); [contradiction|reflexivity]. }
        { auto. }
        exists k'. split; [|exact E]. cbn. rewrite Hk by discriminate. rewrite Z.eqb_refl. exact W.
Qed.

Lemma norm_of_drop0 pass k rem : drop0 k = drop0 rem -> norm pass k = norm pass rem.
Proof. unfold norm. intros ->. reflexivity. Qed.

(* resume, when the pass is never left early, walks from the cursor to the new cursor *)
Lemma resume_walk c s rem s' o k :
  brk c = false -> resume c s rem = Some (s', o) -> norm (pass c) k = norm (pass c) rem ->
  exists k', walk (pass c) k (visits_of o) = Some k' /\ norm (pass c) k' = norm (pass c) (cursor c s').
Proof.
  intros B H Hk. unfold resume in H.
  assert (Wrap : forall k1 s1 vs1, drop0 k1 = [] -> end_pass c s = Some (s1, vs1) ->
            exists k', walk (pass c) k1 (visits_of vs1) = Some k' /\ norm (pass c) k' = norm (pass c) (cursor c s1)).
  { intros k1 s1 vs1 D E. unfold end_pass in E. destruct (mtotal s =? 0)%Z.
    - destruct (sq_get fifo_pop (mtok s)); [|discriminate]. injection E as <- <-. exists k1. split; [reflexivity|].
      unfold cursor; cbn. unfold norm. rewrite D. destruct (drop0 (pass c)); reflexivity.
    - destruct (scan (nonempty c s) (pass c)) as [vs2 r2] eqn:Sc.
      destruct (scan_walk (pass c) _ _ _ _ k1 Sc) as (k' & W & E').
      { intros _. unfold norm. rewrite D. reflexivity. }
      { intros _. exact D. }
      destruct r2 as [[f rem2]|].
      + unfold commit, after in E. rewrite B in E. destruct (sq_get fifo_pop (mstores s f)); [|discriminate].
        injection E as <- <-. exists k'. split; [exact W|]. subst k'. reflexivity.
      + injection E as <- <-. exists k'. split; [exact W|]. unfold cursor; cbn.
        unfold norm. rewrite E'. destruct (drop0 (pass c)); reflexivity. }
  destruct (scan (nonempty c s) rem) as [vs0 r0] eqn:Sc.
  destruct (drop0 rem) as [|d0 dt] eqn:D.
  - (* nothing left in this pass *)
    assert (E0 : vs0 = [] /\ r0 = None).
    { clear -Sc D. revert vs0 r0 Sc. induction rem as [|[g [|m]] t IH]; intros vs0 r0 Sc; cbn in *.
      - injection Sc as <- <-. auto.
      - auto.
      - discriminate. }
    destruct E0 as [-> ->]. destruct (end_pass c s) as [[s1 vs1]|] eqn:E; [|discriminate]. injection H as <- <-. cbn [app].
    destruct (drop0 k) as [|k0 kt] eqn:Dk.
    + apply (Wrap k s1 vs1 Dk eq_refl).
    + (* the cursor k is ahead only by a wrap: it shows the first slot of the pass *)
      unfold norm in Hk. rewrite Dk, D in Hk.
      unfold end_pass in E. destruct (mtotal s =? 0)%Z.
      * destruct (sq_get fifo_pop (mtok s)); [|discriminate]. injection E as <- <-. exists k. split; [reflexivity|].
        unfold cursor; cbn. unfold norm. rewrite Dk, <- Hk. reflexivity.
      * destruct (scan (nonempty c s) (pass c)) as [vs2 r2] eqn:Sc2.
        destruct (scan_walk (pass c) _ _ _ _ k Sc2) as (k' & W & E').
        { intros _. unfold norm. rewrite Dk. exact Hk. }
        { intros Dp. rewrite Dp in Hk. discriminate. }
        destruct r2 as [[f rem2]|].
        -- unfold commit, after in E. rewrite B in E. destruct (sq_get fifo_pop (mstores s f)); [|discriminate].
           injection E as <- <-. exists k'. split; [exact W|]. subst k'. reflexivity.
        -- injection E as <- <-. exists k'. split; [exact W|]. unfold cursor; cbn.
           unfold norm. rewrite E'. destruct (drop0 (pass c)); reflexivity.
  - destruct (scan_walk (pass c) _ _ _ _ k Sc) as (k1 & W & E1).
    { intros _. rewrite Hk. unfold norm. rewrite D. reflexivity. }
    { intros E. congruence. }
    destruct r0 as [[f rem0]|].
    + unfold commit, after in H. rewrite B in H. destruct (sq_get fifo_pop (mstores s f)); [|discriminate].
      injection H as <- <-. exists k1. split; [exact W|]. subst k1. reflexivity.
    + destruct (end_pass c s) as [[s1 vs1]|] eqn:E; [|discriminate]. injection H as <- <-.
      destruct (Wrap k1 s1 vs1 E1 eq_refl) as (k2 & W2 & N2).
      exists k2. split; [|exact N2]. rewrite visits_of_app. rewrite (walk_app _ _ _ _ _ W). exact W2.
Qed.

Lemma visits_none o : (forall f b, ~ In (OVisit f b) o) -> visits_of o = [].
Proof.
  induction o as [|x t IH]; intros H; [reflexivity|]. unfold visits_of in *. cbn.
  destruct x; cbn; try (apply IH; intros f0 b0 Hin; apply (H f0 b0); right; exact Hin).
  exfalso. apply (H f served). left. reflexivity.
Qed.

Theorem visits_run c : wf c -> brk c = false -> forall acts s ins outs s' tr k,
  Inv c ins outs s -> mq_run c s acts = Some (s', tr) -> norm (pass c) k = norm (pass c) (cursor c s) ->
  exists k', walk (pass c) k (tr_visits tr) = Some k' /\ norm (pass c) k' = norm (pass c) (cursor c s').
Proof.
  intros R B. induction acts as [|a rest IH]; intros s ins outs s' tr k Iv H Hk; cbn in H.
  - injection H as <- <-. exists k. split; [reflexivity|exact Hk].
  - destruct (mq_act c s a) as [[s1 o]|] eqn:A; [|discriminate].
    destruct (mq_run c s1 rest) as [[s2 tr']|] eqn:Rn; [|discriminate]. injection H as <- <-.
    pose proof (inv_step c ins outs s a s1 o R Iv A) as I1.
    unfold tr_visits. cbn [flat_map snd]. fold (tr_visits tr').
    assert (St : exists k1, walk (pass c) k (visits_of o) = Some k1 /\ norm (pass c) k1 = norm (pass c) (cursor c s1)).
    { destruct (runs_loop a) eqn:Ra.
      - destruct (resume_site c ins outs s a s1 o Iv A Ra) as (s0 & _ & _ & Rsm & _).
        eapply resume_walk; eauto.
      - destruct (other_site c s a s1 o A Ra) as (Ec & Nv & _).
        rewrite (visits_none o Nv). exists k. split; [reflexivity|]. rewrite Ec. exact Hk. }
    destruct St as (k1 & W1 & N1).
    destruct (IH s1 _ _ s2 tr' k1 I1 Rn N1) as (k2 & W2 & N2).
    exists k2. split; [|exact N2]. rewrite (walk_app _ _ _ _ _ W1). exact W2.
Qed.

(* what a visit means for the queues: a class is skipped only when it holds nothing, a class that is served gives
   the head of its queue *)
Lemma resume_visit c ins outs s rem s' o f b :
  wf c -> Core c ins outs s -> Mid s -> resume c s rem = Some (s', o) -> In (OVisit f b) o ->
  if b then exists x rest, items (mstores s f) = x :: rest /\ get (mstores s' f) = GGranted x /\ items (mstores s' f) = rest
  else items (mstores s f) = [] /\ held_class c s f = [].
Proof.
  intros Wf C M H Hin.
  assert (Tst : forall g, nonempty c s g = negb (nilb (items (mstores s g)))) by (intros; eapply nonempty_spec; eauto).
  assert (Cm : forall g rem1 s1, nonempty c s g = true -> commit s g rem1 = Some s1 ->
             exists x rest, items (mstores s g) = x :: rest /\ get (mstores s1 g) = GGranted x /\ items (mstores s1 g) = rest).
  { intros g rem1 s1 T E. rewrite Tst in T. unfold commit in E.
    destruct (sq_get fifo_pop (mstores s g)) as [q|] eqn:G; [|discriminate]. injection E as <-.
    apply fifo_get_inv in G as (_ & _ & [(E0 & _)|(x & E1 & Gx)]); [rewrite E0 in T; discriminate|].
    exists x, (items q). cbn. rewrite upd_same. auto. }
  assert (Sk : forall g, nonempty c s g = false -> items (mstores s g) = [] /\ held_class c s g = []).
  { intros g T. rewrite Tst in T. assert (E : items (mstores s g) = []) by (destruct (items (mstores s g)); [reflexivity|discriminate]).
    split; [exact E|]. rewrite (mid_held c s g M), E. reflexivity. }
  assert (One : forall rem1 vs r, scan (nonempty c s) rem1 = (vs, r) -> In (OVisit f b) vs ->
             if b then exists rem', r = Some (f, rem') else nonempty c s f = false).
  { intros rem1 vs r Sc Hv. destruct b; [eapply scan_visit_true; eauto|eapply scan_visit_false; eauto]. }
  unfold resume in H. destruct (scan (nonempty c s) rem) as [vs0 r0] eqn:Sc.
  assert (EP : forall s1 vs1, end_pass c s = Some (s1, vs1) -> In (OVisit f b) vs1 ->
     if b then exists x rest, items (mstores s f) = x :: rest /\ get (mstores s1 f) = GGranted x /\ items (mstores s1 f) = rest
     else items (mstores s f) = [] /\ held_class c s f = []).
  { intros s1 vs1 E Hv. unfold end_pass in E. destruct (mtotal s =? 0)%Z.
    - destruct (sq_get fifo_pop (mtok s)); [|discriminate]. injection E as <- <-. destruct Hv.
    - destruct (scan (nonempty c s) (pass c)) as [vs2 r2] eqn:Sc2. pose proof (One _ _ _ Sc2) as O2.
      destruct r2 as [[g rem2]|].
      + destruct (commit s g (after c rem2)) as [s2|] eqn:Cg; [|discriminate]. injection E as <- <-.
        specialize (O2 Hv). destruct b; [|apply Sk; exact O2].
        destruct O2 as (rem' & Er). injection Er as -> _. apply (Cm f _ _ (proj1 (scan_some _ _ _ _ _ Sc2)) Cg).
      + injection E as <- <-. specialize (O2 Hv). destruct b; [destruct O2; discriminate|apply Sk; exact O2]. }
  pose proof (One _ _ _ Sc) as O1.
  destruct r0 as [[g rem0]|].
  - destruct (commit s g (after c rem0)) as [s1|] eqn:Cg; [|discriminate]. injection H as <- <-.
    specialize (O1 Hin). destruct b; [|apply Sk; exact O1].
    destruct O1 as (rem' & Er). injection Er as -> _. apply (Cm f _ _ (proj1 (scan_some _ _ _ _ _ Sc)) Cg).
  - destruct (end_pass c s) as [[s1 vs1]|] eqn:E; [|discriminate]. injection H as <- <-.
    apply in_app_or in Hin as [Hin|Hin].
    + specialize (O1 Hin). destruct b; [destruct O1; discriminate|apply Sk; exact O1].
    + eapply EP; eauto.
Qed.

Theorem visit_meaning c s a s' o f b :
  wf c -> reachable c s -> mq_act c s a = Some (s', o) -> In (OVisit f b) o ->
  if b then exists x rest, items (mstores s f) = x :: rest /\ get (mstores s' f) = GGranted x /\ items (mstores s' f) = rest
  else items (mstores s f) = [] /\ held_class c s f = [].
Proof.
  intros R Rs A Hin. destruct (reachable_inv c s R Rs) as (ins & outs & Iv).
  destruct (runs_loop a) eqn:Ra; [|exfalso; eapply (other_site c s a s' o A Ra); exact Hin].
  destruct (resume_site c ins outs s a s' o Iv A Ra) as (s0 & C0 & M0 & Rsm & Est & _).
  pose proof (resume_visit c ins outs s0 _ s' o f b R C0 M0 Rsm Hin) as V. rewrite Est in V.
  destruct b; [exact V|]. destruct V as [V1 V2]. split; [exact V1|].
  (* held_flow of s: the child of s has ended or does not exist, its stores are those of s0 *)
  destruct Iv as [C Sh]. rewrite <- V2. unfold held_class. rewrite Est. f_equal.
  unfold child_pkts. rewrite (m_child _ M0).
  destruct a as [p| |[g|]|[g|]| | | |t|incl]; try discriminate; cbn in A.
  - destruct (mpc s) eqn:P; try discriminate. pose proof (i_child _ Sh) as Hc. rewrite P in Hc. rewrite Hc. reflexivity.
  - destruct (mpc s) eqn:P; try discriminate. pose proof (i_child _ Sh) as Hc. rewrite P in Hc. rewrite Hc. reflexivity.
  - destruct (mchild s); try discriminate. reflexivity.
Qed.


(* ---------------------------------------------------------------------------------------------- *)
(* back to back: when a transmission ends with a packet held, the next one starts before the clock moves *)

Lemma resume_now c s rem s' o : resume c s rem = Some (s', o) -> mnow s' = mnow s.
Proof.
  unfold resume, end_pass, commit.
  destruct (scan (nonempty c s) rem) as [vs0 [[f rem']|]].
  - destruct (sq_get fifo_pop (mstores s f)); [|discriminate]. intros H; injection H as <- <-. reflexivity.
  - destruct (mtotal s =? 0)%Z.
    + destruct (sq_get fifo_pop (mtok s)); [|discriminate]. intros H; injection H as <- <-. reflexivity.
    + destruct (scan (nonempty c s) (pass c)) as [vs1 [[f rem']|]].
      * destruct (sq_get fifo_pop (mstores s f)); [|discriminate]. intros H; injection H as <- <-. reflexivity.
      * intros H; injection H as <- <-. reflexivity.
Qed.

Lemma act_now c s a s' o : mq_act c s a = Some (s', o) -> (forall t, a <> SAdvance t) -> mnow s' = mnow s.
Proof.
  intros A NA. destruct a as [p| |[f|]|[f|]| | | |t|incl]; cbn in A.
  - destruct (memZ (cls c (flow p)) (classes c) && (0 <=? psize p)%Z); [|discriminate]. injection A as <- <-. reflexivity.
  - destruct (mpc s); try discriminate. eapply resume_now; eauto.
  - destruct (sq_cb fifo_pop (mstores s f)); [|discriminate]. injection A as <- <-. reflexivity.
  - destruct (sq_cb fifo_pop (mtok s)); [|discriminate]. injection A as <- <-. reflexivity.
  - destruct (mpc s); try discriminate. destruct (mchild s); try discriminate. destruct (f =? f0)%Z; [|discriminate].
    destruct (sq_take (mstores s f)) as [[[a p] q]|]; [|discriminate]. injection A as <- <-. reflexivity.
  - destruct (mpc s); try discriminate. destruct (sq_take (mtok s)) as [[x q]|]; [|discriminate].
    rewrite (resume_now _ _ _ _ _ A). reflexivity.
  - destruct (mchild s); try discriminate. injection A as <- <-. reflexivity.
  - destruct (mchild s); try discriminate. destruct (Qeq_bool dl (mnow s)); [|discriminate]. injection A as <- <-. reflexivity.
  - destruct (mchild s); try discriminate. destruct (mpc s); try discriminate. rewrite (resume_now _ _ _ _ _ A). reflexivity.
  - exfalso. eapply NA; eauto.
  - injection A as <- <-. reflexivity.
Qed.

Lemma run_same_instant c : forall acts s s' tr,
  mq_run c s acts = Some (s', tr) -> (forall t, ~ In (SAdvance t) acts) ->
  mnow s' = mnow s /\ forall e, In e tr -> fst (fst e) = mnow s.
Proof.
  induction acts as [|a rest IH]; intros s s' tr H NA; cbn in H.
  - injection H as <- <-. split; [reflexivity|intros e []].
  - destruct (mq_act c s a) as [[s1 o]|] eqn:A; [|discriminate].
    destruct (mq_run c s1 rest) as [[s2 tr']|] eqn:Rn; [|discriminate]. injection H as <- <-.
    assert (N1 : mnow s1 = mnow s) by (eapply act_now; eauto; intros t E; apply (NA t); left; auto).
    destruct (IH s1 s2 tr' Rn) as [N2 Ht]; [intros t Hin; apply (NA t); right; exact Hin|].
    split; [congruence|]. intros e [<-|Hin]; [exact N1|]. rewrite (Ht e Hin). exact N1.
Qed.

Lemma no_start_no_tx c : wf c -> forall acts s ins outs s' tr,
  Inv c ins outs s -> mq_run c s acts = Some (s', tr) -> child_tx s = None ->
  (forall e, In e tr -> starts (snd e) = []) -> child_tx s' = None /\ tr_fwds tr = [].
Proof.
  intros R. induction acts as [|a rest IH]; intros s ins outs s' tr Iv H C0 Ns; cbn in H.
  - injection H as <- <-. auto.
  - destruct (mq_act c s a) as [[s1 o]|] eqn:A; [|discriminate].
    destruct (mq_run c s1 rest) as [[s2 tr']|] eqn:Rn; [|discriminate]. injection H as <- <-.
    pose proof (inv_step c ins outs s a s1 o R Iv A) as I1.
    assert (So : starts o = []) by (apply (Ns (mnow s1, a, o)); left; reflexivity).
    destruct (tx_step c ins outs s a s1 o R Iv A) as [(p & Es & _)|[(p & dl & _ & _ & E0 & _)|(_ & Ef & E1 & _)]];
      [congruence|congruence|].
    destruct (IH s1 _ _ s2 tr' I1 Rn) as [Cn Fn]; [congruence|intros e Hin; apply Ns; right; exact Hin|].
    split; [exact Cn|]. unfold tr_fwds in *. cbn [flat_map snd]. rewrite Ef, Fn. reflexivity.
Qed.

Theorem back_to_back c acts1 s1 tr1 s2 o acts2 s3 tr2 t r :
  cfg_ok c ->
  mq_run c (mq0 c) acts1 = Some (s1, tr1) ->
  mq_act c s1 SChildTimer = Some (s2, o) ->
  (exists f, held_class c s2 f <> []) ->
  mq_run c s2 acts2 = Some (s3, tr2) -> (forall t', ~ In (SAdvance t') acts2) ->
  mq_act c s3 (SAdvance t) = Some r ->
  exists e p, In e tr2 /\ In (OStart p) (snd e) /\ fst (fst e) = mnow s2.
Proof.
  intros Ok R1 A2 (f & Hf) R2 NA A3. pose proof (proj1 Ok) as R.
  pose proof (inv_run c R acts1 (mq0 c) [] [] s1 tr1 (inv0 c) R1) as Iv1.
  pose proof (inv_step c _ _ s1 _ s2 o R Iv1 A2) as Iv2.
  match type of Iv2 with Inv _ ?i ?o _ => set (ins2 := i) in *; set (outs2 := o) in * end.
  pose proof (inv_run c R acts2 s2 _ _ s3 tr2 Iv2 R2) as Iv3.
  destruct (run_same_instant c acts2 s2 s3 tr2 R2 NA) as [_ Ht].
  assert (Rs3 : reachable c s3).
  { assert (Rs2 : reachable c s2) by (eapply reachable_step; [exists acts1, tr1; exact R1|exact A2]).
    clear -Rs2 R2. revert s2 tr2 Rs2 R2. induction acts2 as [|a rest IH]; intros s2 tr2 Rs2 R2; cbn in R2.
    - injection R2 as <- <-. exact Rs2.
    - destruct (mq_act c s2 a) as [[sa oa]|] eqn:A; [|discriminate].
      destruct (mq_run c sa rest) as [[sb trb]|] eqn:Rn; [|discriminate]. injection R2 as <- <-.
      eapply IH; [eapply reachable_step; eauto|exact Rn]. }
  destruct (Exists_dec (fun e : tev => starts (snd e) <> []) tr2) as [Ex|Nex].
  { intros e. destruct (starts (snd e)); [right; intros H; apply H; reflexivity|left; discriminate]. }
  - apply Exists_exists in Ex as (e & Hin & Hs). destruct (starts (snd e)) as [|p l] eqn:Es; [contradiction|].
    exists e, p. split; [exact Hin|]. split; [|apply Ht; exact Hin].
    unfold starts in Es. assert (Hp : In p (flat_map (fun o0 => match o0 with OStart p0 => [p0] | _ => [] end) (snd e))) by (rewrite Es; left; reflexivity).
    apply in_flat_map in Hp as (x & Hx & Hp). destruct x as [q|q|? ?|?]; cbn in Hp; try contradiction. destruct Hp as [<-|[]]. exact Hx.
  - exfalso.
    assert (C2 : child_tx s2 = None).
    { cbn in A2. destruct (mchild s1); try discriminate. destruct (Qeq_bool dl (mnow s1)); [|discriminate]. injection A2 as <- <-. reflexivity. }
    destruct (no_start_no_tx c R acts2 s2 _ _ s3 tr2 Iv2 R2 C2) as [C3 F3].
    { intros e Hin. destruct (starts (snd e)) eqn:Es; [reflexivity|]. exfalso. apply Nex. apply Exists_exists. exists e. split; [exact Hin|]. rewrite Es. discriminate. }
    destruct Iv2 as [Cr2 _], Iv3 as [Cr3 _].
    pose proof (i_cons _ _ _ _ Cr2 f) as E2. pose proof (i_cons _ _ _ _ Cr3 f) as E3.
    rewrite F3, app_nil_r, filter_app, E2, <- app_assoc in E3. apply app_inv_head in E3.
    destruct (work_conserving c s3 t r Ok Rs3 A3) as [(p & dl & Ch & _)|He].
    + unfold child_tx in C3. rewrite Ch in C3. discriminate.
    + rewrite (He f) in E3. destruct (held_class c s2 f); [apply Hf; reflexivity|discriminate].
Qed.


(* ---------------------------------------------------------------------------------------------- *)
(* the sequence of transmission starts is the sequence of visits that took a packet *)

Definition tr_starts (tr : list tev) : list pkt := flat_map (fun e => starts (snd e)) tr.
Definition served (vs : list (Z * bool)) : list Z := map fst (filter snd vs).
(* the class run() has committed to and whose transmission has not started yet *)
Definition pending (c : mq_cfg) (s : mq) : list Z :=
  match mpc s, mchild s with
  | PGet f _, _ => [f]
  | _, CInit p => [cls c (flow p)]
  | _, _ => []
  end.
Definition pclass (c : mq_cfg) (p : pkt) : Z := cls c (flow p).

Lemma scan_served test rem vs r :
  scan test rem = (vs, r) -> served (visits_of vs) = match r with Some (f, _) => [f] | None => [] end.
Proof.
  revert vs r. induction rem as [|[g m] t IH]; intros vs r H; cbn in H.
  - injection H as <- <-. reflexivity.
  - destruct m as [|m]; [eauto|]. destruct (test g).
    + injection H as <- <-. reflexivity.
    + destruct (scan test t) as [vs' r'] eqn:Sc. injection H as <- <-. cbn. apply (IH _ _ eq_refl).
Qed.

Lemma served_app a b : served (a ++ b) = served a ++ served b.
Proof. unfold served. rewrite filter_app, map_app. reflexivity. Qed.

Lemma resume_served c s rem s' o :
  mchild s = CNone -> resume c s rem = Some (s', o) -> served (visits_of o) = pending c s'.
Proof.
  intros Ch H. unfold resume in H.
  assert (EP : forall s1 vs1, end_pass c s = Some (s1, vs1) -> served (visits_of vs1) = pending c s1).
  { intros s1 vs1 E. unfold end_pass in E. destruct (mtotal s =? 0)%Z.
    - destruct (sq_get fifo_pop (mtok s)); [|discriminate]. injection E as <- <-. unfold pending; cbn. rewrite Ch. reflexivity.
    - destruct (scan (nonempty c s) (pass c)) as [vs2 r2] eqn:Sc. pose proof (scan_served _ _ _ _ Sc) as Sv.
      destruct r2 as [[f rem2]|].
      + unfold commit in E. destruct (sq_get fifo_pop (mstores s f)); [|discriminate]. injection E as <- <-. exact Sv.
      + injection E as <- <-. rewrite Sv. unfold pending; cbn. rewrite Ch. reflexivity. }
  destruct (scan (nonempty c s) rem) as [vs0 r0] eqn:Sc. pose proof (scan_served _ _ _ _ Sc) as Sv.
  destruct r0 as [[f rem0]|].
  - unfold commit in H. destruct (sq_get fifo_pop (mstores s f)); [|discriminate]. injection H as <- <-. exact Sv.
  - destruct (end_pass c s) as [[s1 vs1]|] eqn:E; [|discriminate]. injection H as <- <-.
    rewrite visits_of_app, served_app, Sv. cbn. eauto.
Qed.

Lemma starts_step c ins outs s a s' o :
  Inv c ins outs s -> mq_act c s a = Some (s', o) ->
  pending c s ++ served (visits_of o) = map (pclass c) (starts o) ++ pending c s'.
Proof.
  intros Iv A. pose proof Iv as [C Sh]. pose proof (i_child _ Sh) as Hc.
  destruct (runs_loop a) eqn:Ra.
  - destruct (resume_site c ins outs s a s' o Iv A Ra) as (s0 & C0 & M0 & Rsm & _ & _ & _ & _ & Ng).
    rewrite (resume_served c s0 _ s' o (m_child _ M0) Rsm).
    rewrite (starts_visits o) by (intros; eapply resume_only_visits; eauto). cbn [map app].
    assert (Ep : pending c s = []).
    { unfold pending. destruct a as [p| |[f|]|[f|]| | | |t|incl]; try discriminate; cbn in A.
      - destruct (mpc s); try discriminate. rewrite Hc. reflexivity.
      - destruct (mpc s); try discriminate. rewrite Hc. reflexivity.
      - destruct (mchild s); try discriminate. destruct (mpc s); try discriminate. reflexivity. }
    rewrite Ep. reflexivity.
  - destruct (other_site c s a s' o A Ra) as (_ & Nv & _). rewrite (visits_none o Nv). cbn [served filter map]. rewrite app_nil_r.
    destruct a as [p| |[f|]|[f|]| | | |t|incl]; try discriminate; cbn in A.
    + destruct (memZ (cls c (flow p)) (classes c) && (0 <=? psize p)%Z); [|discriminate]. injection A as <- <-. reflexivity.
    + destruct (sq_cb fifo_pop (mstores s f)); [|discriminate]. injection A as <- <-. reflexivity.
    + destruct (sq_cb fifo_pop (mtok s)); [|discriminate]. injection A as <- <-. reflexivity.
    + destruct (mpc s) as [|g rem|rem| |] eqn:P; try discriminate. destruct (mchild s) eqn:Ch; try discriminate.
      destruct (Z.eqb_spec f g) as [<-|N]; [|discriminate].
      destruct (sq_take (mstores s f)) as [[[a p] q]|] eqn:T; [|discriminate]. injection A as <- <-.
      pose proof (fifo_held_take _ _ _ _ T) as Hh.
      assert (Fp : cls c (flow p) = f).
      { apply (held_in_ins c ins outs s f p C). unfold held_class. apply in_or_app. right. rewrite Hh. left. reflexivity. }
      unfold pending; cbn. rewrite P, Fp. reflexivity.
    + destruct (mchild s) eqn:Ch; try discriminate. injection A as <- <-.
      unfold pending; cbn. rewrite ?Ch. destruct (mpc s); try discriminate; reflexivity.
    + destruct (mchild s) eqn:Ch; try discriminate. destruct (Qeq_bool dl (mnow s)); [|discriminate]. injection A as <- <-.
      unfold pending; cbn. rewrite ?Ch. destruct (mpc s); try discriminate; reflexivity.
    + destruct (urgent c s); [discriminate|]. destruct (Qlt_le_dec (mnow s) t); [|discriminate].
      assert (E : o = [] /\ mpc s' = mpc s /\ mchild s' = mchild s).
      { destruct (mchild s); try (injection A as <- <-; repeat split; reflexivity).
        destruct (Qle_bool t dl); [|discriminate]. injection A as <- <-. repeat split; reflexivity. }
      destruct E as (-> & E1 & E2). unfold pending. rewrite E1, E2. reflexivity.
    + injection A as <- <-. reflexivity.
Qed.

Theorem starts_follow_visits c : wf c -> forall acts s ins outs s' tr,
  Inv c ins outs s -> mq_run c s acts = Some (s', tr) ->
  pending c s ++ served (tr_visits tr) = map (pclass c) (tr_starts tr) ++ pending c s'.
Proof.
  intros R. induction acts as [|a rest IH]; intros s ins outs s' tr Iv H; cbn in H.
  - injection H as <- <-. cbn. rewrite app_nil_r. reflexivity.
  - destruct (mq_act c s a) as [[s1 o]|] eqn:A; [|discriminate].
    destruct (mq_run c s1 rest) as [[s2 tr']|] eqn:Rn; [|discriminate]. injection H as <- <-.
    pose proof (inv_step c ins outs s a s1 o R Iv A) as I1.
    unfold tr_visits, tr_starts. cbn [flat_map snd]. fold (tr_visits tr'). fold (tr_starts tr').
    rewrite served_app, map_app, app_assoc, (starts_step c ins outs s a s1 o Iv A), <- !app_assoc.
    f_equal. apply (IH s1 _ _ s2 tr' I1 Rn).
Qed.

(* ---------------------------------------------------------------------------------------------- *)
(* statements for executions from the initial state *)

Theorem tx_wf_run0 c acts s tr : wf c -> mq_run c (mq0 c) acts = Some (s, tr) -> tx_wf c None tr.
Proof. intros R H. apply (tx_wf_run c R acts (mq0 c) [] [] s tr (inv0 c) H). Qed.

Theorem visits_run0 c acts s tr :
  wf c -> brk c = false -> mq_run c (mq0 c) acts = Some (s, tr) ->
  exists k, walk (pass c) (pass c) (tr_visits tr) = Some k /\ norm (pass c) k = norm (pass c) (cursor c s).
Proof. intros R B H. apply (visits_run c R B acts (mq0 c) [] [] s tr (pass c) (inv0 c) H). reflexivity. Qed.

Theorem starts_follow_visits0 c acts s tr :
  wf c -> mq_run c (mq0 c) acts = Some (s, tr) ->
  served (tr_visits tr) = map (pclass c) (tr_starts tr) ++ pending c s.
Proof. intros R H. apply (starts_follow_visits c R acts (mq0 c) [] [] s tr (inv0 c) H). Qed.

Theorem work_conserving0 c acts s tr t x :
  cfg_ok c -> mq_run c (mq0 c) acts = Some (s, tr) -> mq_act c s (SAdvance t) = Some x ->
  (exists p dl, mchild s = CTx p dl /\ mcur s = Some p /\ mnow s < dl) \/ (forall f, held_class c s f = []).
Proof. intros Ok H A. apply (work_conserving c s t x Ok); [exists acts, tr; exact H|exact A]. Qed.

Theorem never_spins0 c acts s tr : cfg_ok c -> mq_run c (mq0 c) acts = Some (s, tr) -> mpc s <> PSpin.
Proof. intros Ok H. apply (never_spins c s Ok). exists acts, tr. exact H. Qed.

Theorem drained0 c acts s tr :
  cfg_ok c -> mq_run c (mq0 c) acts = Some (s, tr) -> urgent c s = false -> (forall p dl, mchild s <> CTx p dl) ->
  (forall f, held_class c s f = []) /\ (forall f, mqc s f = 0%Z /\ mqb s f = 0%Z) /\ mcur s = None /\
  (forall f, filter (is_flow f) (tr_puts tr) = filter (is_flow f) (tr_fwds tr)) /\ mpc s <> PSpin.
Proof.
  intros Ok H U Nd. assert (Rs : reachable c s) by (exists acts, tr; exact H).
  destruct (drained c s Ok Rs U Nd) as (He & Hq & Hc). split; [exact He|]. split; [exact Hq|]. split; [exact Hc|].
  split; [|apply (never_spins c s Ok Rs)].
  intros f. destruct (run_conserves c acts s tr (proj1 Ok) H) as (_ & Hcv & _). rewrite (Hcv f). unfold held_flow. rewrite (He (cls c f)).
  cbn. rewrite app_nil_r. reflexivity.
Qed.

Theorem monitor_samples0 c acts s tr incl :
  wf c -> mq_run c (mq0 c) acts = Some (s, tr) ->
  mq_act c s (SSample incl) =
    Some (s, [OSample (map (fun f => let l := if incl then held_flow c s f else waiting_flow c s f in
                                     (f, Z.of_nat (length l), sumsz l)) (sflows c))]).
Proof.
  intros R H. cbn [mq_act]. do 4 f_equal. apply map_ext. intros f.
  apply (monitor_samples c s incl f R). exists acts, tr. exact H.
Qed.

Theorem visit_meaning0 c acts s tr a s' o f b :
  wf c -> mq_run c (mq0 c) acts = Some (s, tr) -> mq_act c s a = Some (s', o) -> In (OVisit f b) o ->
  if b then exists x rest, items (mstores s f) = x :: rest /\ get (mstores s' f) = GGranted x /\ items (mstores s' f) = rest
  else items (mstores s f) = [] /\ held_class c s f = [].
Proof. intros R H. apply (visit_meaning c s a s' o f b R). exists acts, tr. exact H. Qed.
