(* Bridging lemmas (DESIGN 2.6, second tie) for VC.put: the body as translated from the tree under test on every run
   (Gen/Extracted_vc.v) is [vc_put] of the hand-written model (Elem/VC.v) and the FPut step of the stamped-priority
   server (Elem/WFQServer.v) the C14 theorems are about.  VC.vc (maintained by the code, never read for a decision) is
   not modelled: the lemmas hold for every value of it.  Hypothesis (outside the tie): the class has a vtick (no
   KeyError). *)
From Coq Require Import ZArith QArith Qminmax Qreduction List Bool Lia Lqa.
From ONL Require Import Elem.Packet Elem.StoreQ Elem.HeapList Elem.WFQServer Elem.WFQ Elem.VC Gen.Extracted_vc.
Import ListNotations.

Definition vc_gen_put (cfg : vcfg) (now : Q) (s : vst) (vcm : Z -> Q) (arr : Z) (p : pkt) (vt : Q) :=
  gen_VC_put {| v_arrivals := arr; v_vc := vcm; v_aux_vc := s |} (vf2c cfg (flow p)) now (psize p) vt.

(* rational goals with max: split every max, then linear arithmetic (survives swapped arguments, commuted sums) *)
Ltac qmax_lra :=
  repeat match goal with
         | |- context [Qmax ?a ?b] =>
             let L := fresh "L" in let H := fresh "H" in
             destruct (Q.max_spec a b) as [[L H]|[L H]]; rewrite H; clear H
         end; lra.

Lemma bridge_vc_put cfg now s vcm arr p vt :
  zlookup (vf2c cfg (flow p)) (vticks cfg) = Some vt ->
  let c := vf2c cfg (flow p) in
  let g := vc_gen_put cfg now s vcm arr p vt in
  exists s' F, vc_put cfg now s p = Some (s', F) /\
               (forall k, s' k == v_aux_vc (fst g) k) /\ v_arrivals (fst g) = (arr + 1)%Z /\
               F == v_aux_vc (fst g) c /\
               snd g = [FxAddToQueue; FxStorePut (v_aux_vc (fst g) c) now (arr + 1)].
Proof.
  intros Hv c g. subst g. unfold vc_gen_put, gen_VC_put, vc_put. rewrite Hv. fold c.
  do 2 eexists; split; [reflexivity|]. cbn -[Qred Qmax]. unfold qupd, gen_upd.
  repeat split; try reflexivity.
  - intros k. destruct (Z.eqb k c) eqn:E; [|reflexivity].
    rewrite ?Z.eqb_refl, Qred_correct. first [reflexivity | qmax_lra].
  - rewrite ?Z.eqb_refl, Qred_correct. first [reflexivity | qmax_lra].
Qed.

Lemma bridge_vc_act_put cfg (sv : vc cfg) vcm p vt :
  zlookup (vf2c cfg (flow p)) (vticks cfg) = Some vt ->
  let g := vc_gen_put cfg (now sv) (stm sv) vcm (Z.of_nat (seq sv)) p vt in
  exists sv' stamp,
    vc_act cfg sv (FPut p) = Ok (sv', []) /\
    snd g = [FxAddToQueue; FxStorePut stamp (now sv) (Z.of_nat (seq sv'))] /\
    store sv' = sq_put pq_push (now sv) {| istamp := Qred stamp; iseq := seq sv'; ipkt := p |} (store sv) /\
    (forall k, stm sv' k == v_aux_vc (fst g) k) /\
    nrecv sv' = (nrecv sv + 1)%Z /\ qcount sv' (flow p) = (qcount sv (flow p) + 1)%Z /\
    qbytes sv' (flow p) = (qbytes sv (flow p) + psize p)%Z.
Proof.
  intros Hv g.
  destruct (bridge_vc_put cfg (now sv) (stm sv) vcm (Z.of_nat (seq sv)) p vt Hv) as (s' & F & HP & HA & _ & HF & HFX).
  fold g in HA, HF, HFX.
  unfold vc_act, act. cbn [st_put vc_stamper]. rewrite HP.
  do 2 eexists. split; [reflexivity|]. cbn [seq store stm nrecv qcount qbytes].
  split; [rewrite HFX; rewrite Nat2Z.inj_succ; unfold Z.succ; reflexivity|].
  split; [rewrite (Qred_complete _ _ HF); reflexivity|].
  split; [exact HA|]. unfold fupd. rewrite Z.eqb_refl. repeat split; reflexivity.
Qed.
