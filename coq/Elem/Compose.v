(* Composition of interface elements (Elem/Iface.v): SERIES `A >> B`, linear pipelines, and a classified PARALLEL
   composition `par sel A B` which with series gives FAN-IN `(A | B) >> C`.

   series A B: the state is the pair of states (each carries its clock; Advance must be admissible for both); an action
   is a put into A, an internal step of A, an internal step of B or an Advance.  Every `EForward p` emitted by A is fed
   to B's put INSIDE the same action, in order (that is what `self.out.put(packet)` does in the code: a synchronous
   call); the composite shows it as the hand-over `EHand (width A - 1) p`.  B's forwards are the composite's forwards;
   A's drops and B's drops are the composite's drops.  A put that B refuses (not admissible) makes the whole action
   inadmissible.  Executable; the projection and the compositional C08 laws are proved here. *)
From Coq Require Import ZArith QArith Qminmax List Bool Permutation Lia Arith.
From ONL Require Import Elem.Packet Elem.Iface Elem.Network.
Import ListNotations.

Definition omin (a b : option Q) : option Q :=
  match a, b with
  | Some x, Some y => Some (if Qle_bool x y then x else y)
  | Some x, None => Some x
  | None, y => y
  end.

Section Series.
  Variables A B : elem.

  (* B's stage numbers come after A's *)
  Definition shift (o : eout) : eout := match o with EHand k p => EHand (width A + k) p | _ => o end.

  (* hand A's outputs over to B, in order *)
  Fixpoint feed (outs : list eout) (sB : st B) : option (st B * list eout) :=
    match outs with
    | [] => Some (sB, [])
    | EForward p :: r =>
        match put B p sB with
        | None => None
        | Some (s1, o1) =>
            match feed r s1 with
            | None => None
            | Some (s2, o2) => Some (s2, EHand (pred (width A)) p :: map shift o1 ++ o2)
            end
        end
    | o :: r =>
        match feed r sB with
        | None => None
        | Some (s2, o2) => Some (s2, o :: o2)
        end
    end.

  Definition via (s : st A * st B) (r : option (st A * list eout)) : option ((st A * st B) * list eout) :=
    match r with
    | None => None
    | Some (a', o) =>
        match feed o (snd s) with
        | None => None
        | Some (b', o') => Some ((a', b'), o')
        end
    end.

  Definition series : elem := {|
    st := (st A * st B)%type;
    lab := (lab A + lab B)%type;
    init := (init A, init B);
    now := fun s => now A (fst s);
    put := fun p s => via s (put A p (fst s));
    step := fun l s =>
      match l with
      | inl x => via s (step A x (fst s))
      | inr y => match step B y (snd s) with
                 | None => None
                 | Some (b', o) => Some ((fst s, b'), map shift o)
                 end
      end;
    advance := fun t s =>
      match advance A t (fst s), advance B t (snd s) with
      | Some a', Some b' => Some (a', b')
      | _, _ => None
      end;
    urgent := fun s => urgent A (fst s) || urgent B (snd s);
    deadline := fun s => omin (deadline A (fst s)) (deadline B (snd s));
    held := fun s => held A (fst s) ++ held B (snd s);
    accepts := fun p => accepts A p && accepts B p;
    width := width A + width B
  |}.

  (* ---- what each side sees of a composite execution ------------------------------------------------------- *)
  Definition actA (a : iact (lab series)) : list (iact (lab A)) :=
    match a with
    | IPut p => [IPut p]
    | IStep (inl x) => [IStep x]
    | IStep (inr _) => []
    | IAdv t => [IAdv t]
    end.
  Definition actsA (acts : list (iact (lab series))) : list (iact (lab A)) := flat_map actA acts.

  (* B's puts are what A forwards: they are read off A's own (deterministic) execution *)
  Fixpoint actsB (sA : st A) (acts : list (iact (lab series))) : list (iact (lab B)) :=
    match acts with
    | [] => []
    | IStep (inr y) :: r => IStep y :: actsB sA r
    | IAdv t :: r =>
        match advance A t sA with
        | Some sA' => IAdv t :: actsB sA' r
        | None => []
        end
    | IPut p :: r =>
        match put A p sA with
        | Some (sA', o) => map IPut (o_fwds o) ++ actsB sA' r
        | None => []
        end
    | IStep (inl x) :: r =>
        match step A x sA with
        | Some (sA', o) => map IPut (o_fwds o) ++ actsB sA' r
        | None => []
        end
    end.

  Lemma o_fwds_shift o : o_fwds (map shift o) = o_fwds o.
  Proof. unfold o_fwds. induction o as [|x o IH]; cbn; [reflexivity|]. destruct x; cbn; rewrite IH; reflexivity. Qed.
  Lemma o_drops_shift o : o_drops (map shift o) = o_drops o.
  Proof. unfold o_drops. induction o as [|x o IH]; cbn; [reflexivity|]. destruct x; cbn; rewrite IH; reflexivity. Qed.

  (* one hand-over: B executes exactly the puts of what A forwarded; B's forwards become the composite's forwards and
     the drops are A's and B's *)
  Lemma feed_spec : forall oA sB sB1 o,
    feed oA sB = Some (sB1, o) ->
    exists trB, run B sB (map IPut (o_fwds oA)) = Some (sB1, trB) /\
                puts trB = o_fwds oA /\ fwds trB = o_fwds o /\
                Permutation (o_drops o) (o_drops oA ++ drops trB).
  Proof.
    induction oA as [|x oA IH]; intros sB sB1 o H; cbn [feed] in H.
    - injection H as <- <-. exists []. cbn. repeat split; auto.
    - destruct x as [p|p|k p].
      + destruct (put B p sB) as [[s1 o1]|] eqn:Ep; [|discriminate].
        destruct (feed oA s1) as [[s2 o2]|] eqn:Ef; [|discriminate].
        injection H as <- <-. destruct (IH _ _ _ Ef) as (trB & R & P & F & D).
        exists ((now B s1, IPut p, o1) :: trB). rewrite o_fwds_cons. cbn [map app run act].
        rewrite Ep, R. rewrite puts_cons, fwds_cons, drops_cons, P, F.
        rewrite !o_fwds_cons, !o_drops_cons, o_fwds_app, o_drops_app, o_fwds_shift, o_drops_shift. cbn [app a_puts].
        repeat split.
        apply Permutation_trans with (o_drops o1 ++ o_drops oA ++ drops trB).
        { apply Permutation_app_head. exact D. }
        rewrite !app_assoc. apply Permutation_app_tail. apply Permutation_app_comm.
      + destruct (feed oA sB) as [[s2 o2]|] eqn:Ef; [|discriminate].
        injection H as <- <-. destruct (IH _ _ _ Ef) as (trB & R & P & F & D).
        exists trB. rewrite !o_fwds_cons, !o_drops_cons. cbn [app]. repeat split; auto.
      + destruct (feed oA sB) as [[s2 o2]|] eqn:Ef; [|discriminate].
        injection H as <- <-. destruct (IH _ _ _ Ef) as (trB & R & P & F & D).
        exists trB. rewrite !o_fwds_cons, !o_drops_cons. cbn [app]. repeat split; auto.
  Qed.

  Lemma via_spec s r sA1 sB1 o :
    via s r = Some ((sA1, sB1), o) -> exists oA, r = Some (sA1, oA) /\ feed oA (snd s) = Some (sB1, o).
  Proof.
    unfold via. destruct r as [[a' oA]|]; [|discriminate].
    destruct (feed oA (snd s)) as [[b' o']|] eqn:Ef; [|discriminate].
    intros H. injection H as <- <- <-. exists oA. auto.
  Qed.

  Lemma perm_shuffle {X} (a b c d : list X) : Permutation ((a ++ b) ++ (c ++ d)) ((a ++ c) ++ (b ++ d)).
  Proof.
    rewrite <- !app_assoc. apply Permutation_app_head. rewrite !app_assoc. apply Permutation_app_tail.
    apply Permutation_app_comm.
  Qed.

  (* PROJECTION: what A sees and what B sees of ANY composite execution are admissible executions of A alone and of B
     alone, ending in the component states; B was given exactly what A forwarded, in order; the composite forwards what
     B forwards; the composite's drops are A's and B's.  Hence every theorem about A's and B's executions holds inside
     the composition, whatever the other element does. *)
  Theorem series_projection : forall acts sA sB sA' sB' tr,
    run series (sA, sB) acts = Some ((sA', sB'), tr) ->
    exists trA trB,
      run A sA (actsA acts) = Some (sA', trA) /\ run B sB (actsB sA acts) = Some (sB', trB) /\
      puts trA = puts tr /\ puts trB = fwds trA /\ fwds trB = fwds tr /\
      Permutation (drops tr) (drops trA ++ drops trB).
  Proof.
    induction acts as [|a acts IH]; intros sA sB sA' sB' tr H.
    - cbn in H. injection H as <- <- <-. exists [], []. cbn. repeat split; auto.
    - cbn [run] in H.
      destruct (act series (sA, sB) a) as [[[sA1 sB1] o]|] eqn:Ea; [|discriminate].
      destruct (run series (sA1, sB1) acts) as [[[sA2 sB2] tr1]|] eqn:Er; [|discriminate].
      injection H as <- <- <-.
      destruct (IH _ _ _ _ _ Er) as (trA1 & trB1 & RA & RB & P1 & P2 & P3 & P4).
      assert (Hfeed : forall rA, via (sA, sB) rA = Some ((sA1, sB1), o) ->
                forall a', act A sA a' = rA -> a_puts a' = a_puts a ->
                actsA (a :: acts) = a' :: actsA acts ->
                (forall oA, rA = Some (sA1, oA) -> actsB sA (a :: acts) = map IPut (o_fwds oA) ++ actsB sA1 acts) ->
                exists trA trB,
                  run A sA (actsA (a :: acts)) = Some (sA2, trA) /\ run B sB (actsB sA (a :: acts)) = Some (sB2, trB) /\
                  puts trA = puts ((now series (sA1, sB1), a, o) :: tr1) /\ puts trB = fwds trA /\
                  fwds trB = fwds ((now series (sA1, sB1), a, o) :: tr1) /\
                  Permutation (drops ((now series (sA1, sB1), a, o) :: tr1)) (drops trA ++ drops trB)).
      { intros rA Hv a' Ha' Hp HaA HaB. apply via_spec in Hv as (oA & -> & Ef). cbn [snd] in Ef.
        destruct (feed_spec _ _ _ _ Ef) as (trBf & Rf & Pf & Ff & Df).
        exists ((now A sA1, a', oA) :: trA1), (trBf ++ trB1).
        rewrite HaA, (HaB _ eq_refl). cbn [run]. rewrite Ha', RA. rewrite run_app, Rf, RB.
        rewrite !puts_cons, !fwds_cons, !drops_cons, puts_app, fwds_app, drops_app, P1, P2, P3, Pf, Ff, Hp.
        repeat split.
        apply Permutation_trans with ((o_drops oA ++ drops trBf) ++ (drops trA1 ++ drops trB1)).
        - apply Permutation_app; assumption.
        - apply perm_shuffle. }
      destruct a as [p|[x|y]|t].
      + cbn [act series put] in Ea. cbn [fst] in Ea.
        apply (Hfeed _ Ea (IPut p)); try reflexivity.
        intros oA E. cbn [actsB]. rewrite E. reflexivity.
      + cbn [act series step] in Ea. cbn [fst] in Ea.
        apply (Hfeed _ Ea (IStep x)); try reflexivity.
        intros oA E. cbn [actsB]. rewrite E. reflexivity.
      + cbn [act series step] in Ea. cbn [fst snd] in Ea.
        destruct (step B y sB) as [[b' oB]|] eqn:Es; [|discriminate].
        injection Ea as E1 E2 E3. subst sA1 b' o.
        exists trA1, ((now B sB1, IStep y, oB) :: trB1).
        cbn [actsA flat_map actA app actsB run act]. fold (actsA acts). rewrite Es, RA, RB.
        rewrite !puts_cons, !fwds_cons, !drops_cons, o_fwds_shift, o_drops_shift, P1, P2, P3. cbn [a_puts app].
        repeat split.
        apply Permutation_trans with (o_drops oB ++ drops trA1 ++ drops trB1).
        * apply Permutation_app_head. exact P4.
        * apply Permutation_app_swap_app.
      + cbn [act series advance] in Ea. cbn [fst snd] in Ea.
        destruct (advance A t sA) as [a1|] eqn:EA; [|discriminate].
        destruct (advance B t sB) as [b1|] eqn:EB; [|discriminate].
        injection Ea as E1 E2 E3. subst a1 b1 o.
        exists ((now A sA1, IAdv t, []) :: trA1), ((now B sB1, IAdv t, []) :: trB1).
        cbn [actsA flat_map actA app actsB]. fold (actsA acts). rewrite EA. cbn [run act]. rewrite EA, EB, RA, RB.
        rewrite !puts_cons, !fwds_cons, !drops_cons, P1, P2, P3. cbn [a_puts app o_fwds o_drops flat_map].
        repeat split. exact P4.
  Qed.

  (* the same for executions from the initial state, with what was reached spelled out *)
  Corollary series_projection_init : forall acts s tr,
    run series (init series) acts = Some (s, tr) ->
    exists trA trB,
      run A (init A) (actsA acts) = Some (fst s, trA) /\ run B (init B) (actsB (init A) acts) = Some (snd s, trB) /\
      puts trA = puts tr /\ puts trB = fwds trA /\ fwds trB = fwds tr /\
      Permutation (drops tr) (drops trA ++ drops trB).
  Proof. intros acts [sA sB] tr H. exact (series_projection _ _ _ _ _ _ H). Qed.

  (* ---- the C08 laws, compositionally -------------------------------------------------------------------------- *)
  (* injected into A = forwarded by B ++ dropped by A ++ dropped by B ++ held by A ++ held by B *)
  Theorem compose_conserves : conserves A -> conserves B -> forall acts s tr,
    run series (init series) acts = Some (s, tr) ->
    exists trA trB,
      run A (init A) (actsA acts) = Some (fst s, trA) /\ run B (init B) (actsB (init A) acts) = Some (snd s, trB) /\
      puts trA = puts tr /\ puts trB = fwds trA /\ fwds trB = fwds tr /\
      Permutation (puts trA) (fwds trB ++ drops trA ++ drops trB ++ held A (fst s) ++ held B (snd s)).
  Proof.
    intros CA CB acts s tr H.
    destruct (series_projection_init _ _ _ H) as (trA & trB & RA & RB & P1 & P2 & P3 & P4).
    exists trA, trB. repeat split; auto.
    pose proof (CA _ _ _ RA) as HA. pose proof (CB _ _ _ RB) as HB. rewrite P2 in HB.
    apply Permutation_trans with (1 := HA).
    apply Permutation_trans with ((fwds trB ++ drops trB ++ held B (snd s)) ++ drops trA ++ held A (fst s)).
    { apply Permutation_app_tail. exact HB. }
    rewrite <- !app_assoc. apply Permutation_app_head.
    (* dB ++ hB ++ dA ++ hA  ~  dA ++ dB ++ hA ++ hB *)
    apply Permutation_trans with (drops trB ++ drops trA ++ held B (snd s) ++ held A (fst s)).
    { apply Permutation_app_head. apply Permutation_app_swap_app. }
    apply Permutation_trans with (drops trA ++ drops trB ++ held B (snd s) ++ held A (fst s)).
    { apply Permutation_app_swap_app. }
    do 2 apply Permutation_app_head. apply Permutation_app_comm.
  Qed.

  (* the composite is again an element that conserves packets *)
  Theorem series_conserves : conserves A -> conserves B -> conserves series.
  Proof.
    intros CA CB acts s tr H.
    destruct (compose_conserves CA CB _ _ _ H) as (trA & trB & _ & _ & P1 & _ & P3 & HP).
    destruct (series_projection_init _ _ _ H) as (trA' & trB' & RA & RB & _ & _ & _ & P4).
    destruct (compose_conserves CA CB _ _ _ H) as (trA2 & trB2 & RA2 & RB2 & Q1 & _ & Q3 & HQ).
    rewrite RA in RA2. injection RA2 as <-. rewrite RB in RB2. injection RB2 as <-.
    rewrite Q1, Q3 in HQ. apply Permutation_trans with (1 := HQ).
    apply Permutation_app_head. cbn [held series]. rewrite !app_assoc. apply Permutation_app_tail.
    apply Permutation_app_tail. apply Permutation_sym. exact P4.
  Qed.

  (* per-flow order is preserved through the composition *)
  Theorem compose_flow_fifo f : flow_fifo A f -> flow_fifo B f -> flow_fifo series f.
  Proof.
    intros FA FB acts s tr H.
    destruct (series_projection_init _ _ _ H) as (trA & trB & RA & RB & P1 & P2 & P3 & _).
    pose proof (FA _ _ _ RA) as HA. pose proof (FB _ _ _ RB) as HB.
    rewrite P2 in HB. rewrite P3 in HB. rewrite P1 in HA. eapply sublist_trans; eassumption.
  Qed.

  Lemma omin_none a b : omin a b = None -> a = None /\ b = None.
  Proof. destruct a, b; cbn; intros; try discriminate; auto. Qed.

  (* when nothing of the composite is due and no deadline is pending, neither stage holds a packet *)
  Theorem compose_drained : conserves A -> drained A -> drained B -> drained series.
  Proof.
    intros CA DA DB acts s tr H Acc U Dl.
    destruct (series_projection_init _ _ _ H) as (trA & trB & RA & RB & P1 & P2 & P3 & _).
    cbn [urgent series] in U. apply orb_false_elim in U as [UA UB].
    cbn [deadline series] in Dl. apply omin_none in Dl as [DlA DlB].
    assert (AccA : Forall (fun p => accepts A p = true) (puts trA) /\ Forall (fun p => accepts B p = true) (puts trA)).
    { rewrite P1. split; eapply Forall_impl; try exact Acc; cbn; intros p Hp; apply andb_prop in Hp; tauto. }
    destruct AccA as [AccA AccAB].
    cbn [held series]. rewrite (DA _ _ _ RA AccA UA DlA). cbn [app].
    apply (DB _ _ _ RB); auto.
    rewrite P2. apply Forall_forall. intros p Hp.
    pose proof (conserves_fwd_in _ CA _ _ _ _ RA Hp) as Hin.
    rewrite Forall_forall in AccAB. auto.
  Qed.

  Theorem series_laws : laws A -> laws B -> laws series.
  Proof.
    intros [CA FA DA] [CB FB DB]. split.
    - apply series_conserves; assumption.
    - intros f. apply compose_flow_fifo; auto.
    - apply compose_drained; assumption.
  Qed.

  (* ---- the clock ------------------------------------------------------------------------------------------------ *)
  Lemma feed_now : timed B -> forall oA sB sB1 o, feed oA sB = Some (sB1, o) -> now B sB1 = now B sB.
  Proof.
    intros (TP & _ & _). induction oA as [|x oA IH]; intros sB sB1 o H; cbn [feed] in H.
    - injection H as <- _. reflexivity.
    - destruct x as [p|p|k p].
      + destruct (put B p sB) as [[s1 o1]|] eqn:Ep; [|discriminate].
        destruct (feed oA s1) as [[s2 o2]|] eqn:Ef; [|discriminate].
        injection H as <- _. rewrite (IH _ _ _ Ef). eapply TP; eauto.
      + destruct (feed oA sB) as [[s2 o2]|] eqn:Ef; [|discriminate]. injection H as <- _. eapply IH; eauto.
      + destruct (feed oA sB) as [[s2 o2]|] eqn:Ef; [|discriminate]. injection H as <- _. eapply IH; eauto.
  Qed.

  Lemma omin_le a b t : (forall d, a = Some d -> t <= d) -> (forall d, b = Some d -> t <= d) ->
    forall d, omin a b = Some d -> t <= d.
  Proof.
    intros Ha Hb d. destruct a as [x|], b as [y|]; cbn; intros E; try discriminate; injection E as <-; auto.
    destruct (Qle_bool x y); auto.
  Qed.

  Theorem series_timed : timed A -> timed B -> timed series.
  Proof.
    intros TA TB. pose proof TA as (PA & SA & AA). pose proof TB as (PB & SB & AB). repeat split.
    - intros p [sA sB] [sA1 sB1] o H. cbn [put series] in H. apply via_spec in H as (oA & E & _). cbn. eapply PA; eauto.
    - intros [x|y] [sA sB] [sA1 sB1] o H; cbn [step series] in H.
      + apply via_spec in H as (oA & E & _). cbn. eapply SA; eauto.
      + cbn [fst snd] in H. destruct (step B y sB) as [[b' oB]|]; [|discriminate]. injection H as <- _ _. reflexivity.
    - cbn [advance series] in H. cbn [fst snd] in H. destruct s as [sA sB].
      cbn [fst snd] in H. destruct (advance A t sA) as [a1|] eqn:EA; [|discriminate].
      destruct (advance B t sB) as [b1|]; [|discriminate]. injection H as <-. cbn. apply (AA _ _ _ EA).
    - destruct s as [sA sB]. cbn [advance series fst snd] in H.
      destruct (advance A t sA) as [a1|] eqn:EA; [|discriminate]. cbn. apply (AA _ _ _ EA).
    - destruct s as [sA sB]. cbn [advance series fst snd] in H.
      destruct (advance A t sA) as [a1|] eqn:EA; [|discriminate].
      destruct (advance B t sB) as [b1|] eqn:EB; [|discriminate].
      cbn. destruct (AA _ _ _ EA) as (_ & _ & -> & _). destruct (AB _ _ _ EB) as (_ & _ & -> & _). reflexivity.
    - destruct s as [sA sB]. cbn [advance series fst snd] in H.
      destruct (advance A t sA) as [a1|] eqn:EA; [|discriminate].
      destruct (advance B t sB) as [b1|] eqn:EB; [|discriminate].
      cbn [deadline series fst snd]. apply omin_le.
      + apply (AA _ _ _ EA).
      + apply (AB _ _ _ EB).
  Qed.

  (* the two stages share the clock: started at the same instant they are at the same instant after every execution *)
  Theorem series_clock : timed A -> timed B -> forall acts sA sB sA' sB' tr,
    run series (sA, sB) acts = Some ((sA', sB'), tr) -> now A sA = now B sB -> now A sA' = now B sB'.
  Proof.
    intros TA TB. pose proof TA as (PA & SA & AA). pose proof TB as (PB & SB & AB).
    induction acts as [|a acts IH]; intros sA sB sA' sB' tr H E.
    - cbn in H. injection H as <- <- _. exact E.
    - cbn [run] in H. destruct (act series (sA, sB) a) as [[[sA1 sB1] o]|] eqn:Ea; [|discriminate].
      destruct (run series (sA1, sB1) acts) as [[[sA2 sB2] tr1]|] eqn:Er; [|discriminate].
      injection H as <- <- _. apply (IH _ _ _ _ _ Er).
      destruct a as [p|[x|y]|t]; cbn [act series put step advance fst snd] in Ea.
      + apply via_spec in Ea as (oA & E1 & E2). cbn [snd] in E2. rewrite (PA _ _ _ _ E1), (feed_now TB _ _ _ _ E2). exact E.
      + apply via_spec in Ea as (oA & E1 & E2). cbn [snd] in E2. rewrite (SA _ _ _ _ E1), (feed_now TB _ _ _ _ E2). exact E.
      + destruct (step B y sB) as [[b' oB]|] eqn:Es; [|discriminate]. injection Ea as <- <- _.
        rewrite (SB _ _ _ _ Es). exact E.
      + destruct (advance A t sA) as [a1|] eqn:EA; [|discriminate].
        destruct (advance B t sB) as [b1|] eqn:EB; [|discriminate]. injection Ea as <- <- _.
        destruct (AA _ _ _ EA) as (-> & _). destruct (AB _ _ _ EB) as (-> & _). reflexivity.
  Qed.
End Series.

Infix ">>" := series (at level 61, left associativity).
Local Close Scope Q_scope.

(* ---- linear pipelines of any length --------------------------------------------------------------------------- *)
Fixpoint pipeline (E : elem) (es : list elem) : elem :=
  match es with
  | [] => E
  | F :: r => series E (pipeline F r)
  end.

Theorem pipeline_laws : forall es E, laws E -> Forall laws es -> laws (pipeline E es).
Proof.
  induction es as [|F r IH]; intros E LE Les; cbn [pipeline]; [exact LE|].
  inversion Les; subst. apply series_laws; [exact LE|]. apply IH; assumption.
Qed.

Theorem pipeline_timed : forall es E, timed E -> Forall timed es -> timed (pipeline E es).
Proof.
  induction es as [|F r IH]; intros E LE Les; cbn [pipeline]; [exact LE|].
  inversion Les; subst. apply series_timed; [exact LE|]. apply IH; assumption.
Qed.

Lemma pipeline_width : forall es E, width (pipeline E es) = width E + fold_right (fun F n => width F + n) 0 es.
Proof. induction es as [|F r IH]; intros E; cbn [pipeline fold_right]; [lia|]. cbn [width series]. rewrite IH. lia. Qed.

(* ---- the abstract composition theorem (Elem/Network.v) instantiated: a series composition IS a wiring of two nodes
        (node 0 = A, node 1 = B; injection into A only; A sends everything it forwards to B; B delivers to the sink), its three
        hypotheses hold for every execution, and its conclusion is the conservation equation of the composite -------- *)
Definition uids (l : list pkt) : list nat := map uid l.

Lemma cnt_app u a b : cnt u (a ++ b) = cnt u a + cnt u b.
Proof. unfold cnt. apply count_occ_app. Qed.

Lemma perm_cnt u (l1 l2 l3 l4 : list pkt) :
  Permutation l1 (l2 ++ l3 ++ l4) -> cnt u (uids l1) = cnt u (uids l2) + cnt u (uids l3) + cnt u (uids l4).
Proof.
  intros H. apply (Permutation_map uid) in H. unfold uids. rewrite !map_app in H.
  unfold cnt. rewrite (proj1 (Permutation_count_occ Nat.eq_dec _ _) H u). rewrite !count_occ_app. lia.
Qed.

Section SeriesNet.
  Variables A B : elem.
  Variables (trA : list (tev (lab A))) (trB : list (tev (lab B))) (sA : st A) (sB : st B).

  Definition sel2 {X} (a b : X) (d : X) (i : nat) : X := match i with 0 => a | 1 => b | _ => d end.
  Definition n_inp := sel2 (uids (puts trA)) (uids (puts trB)) [].
  Definition n_fwd := sel2 (uids (fwds trA)) (uids (fwds trB)) [].
  Definition n_drp := sel2 (uids (drops trA)) (uids (drops trB)) [].
  Definition n_held := sel2 (uids (held A sA)) (uids (held B sB)) [].
  Definition n_inj := sel2 (uids (puts trA)) [] [].
  Definition n_tosink := sel2 [] (uids (fwds trB)) [].
  Definition n_sent (i j : nat) : list nat := match i, j with 0, 1 => uids (fwds trA) | _, _ => [] end.

  Hypothesis HA : Permutation (puts trA) (fwds trA ++ drops trA ++ held A sA).
  Hypothesis HB : Permutation (puts trB) (fwds trB ++ drops trB ++ held B sB).
  Hypothesis Hwire : puts trB = fwds trA.

  Lemma net_elem_conserves : forall i u, i < 2 ->
    cnt u (n_inp i) = cnt u (n_fwd i) + cnt u (n_drp i) + cnt u (n_held i).
  Proof.
    intros i u Hi. destruct i as [|[|i]]; [| |lia]; cbn [n_inp n_fwd n_drp n_held sel2]; apply perm_cnt; assumption.
  Qed.
  Lemma cnt_nil u : cnt u [] = 0.
  Proof. reflexivity. Qed.

  Lemma net_out_wiring : forall i u, i < 2 ->
    cnt u (n_fwd i) = sum_n 2 (fun j => cnt u (n_sent i j)) + cnt u (n_tosink i).
  Proof.
    intros i u Hi. destruct i as [|[|i]]; [| |lia]; cbn [n_fwd n_sent n_tosink sel2 sum_n]; rewrite ?cnt_nil; lia.
  Qed.
  Lemma net_in_wiring : forall j u, j < 2 ->
    cnt u (n_inp j) = cnt u (n_inj j) + sum_n 2 (fun i => cnt u (n_sent i j)).
  Proof.
    intros j u Hj. destruct j as [|[|j]]; [| |lia]; cbn [n_inp n_inj n_sent sel2 sum_n]; rewrite ?cnt_nil; [lia|].
    rewrite Hwire. lia.
  Qed.

  (* the conclusion of network_conserves for this wiring *)
  Theorem series_network : forall u,
    sum_n 2 (fun j => cnt u (n_inj j)) =
    sum_n 2 (fun i => cnt u (n_tosink i)) + sum_n 2 (fun i => cnt u (n_drp i)) + sum_n 2 (fun i => cnt u (n_held i)).
  Proof.
    exact (network_conserves 2 n_inp n_fwd n_drp n_held n_inj n_tosink n_sent net_elem_conserves net_out_wiring net_in_wiring).
  Qed.

  (* ... which reads: injected = delivered + dropped by A + dropped by B + held by A + held by B, per packet identity *)
  Corollary series_network_read : forall u,
    cnt u (uids (puts trA)) =
    cnt u (uids (fwds trB)) + (cnt u (uids (drops trA)) + cnt u (uids (drops trB)))
    + (cnt u (uids (held A sA)) + cnt u (uids (held B sB))).
  Proof.
    intros u. pose proof (series_network u) as H.
    cbn [n_inj n_tosink n_drp n_held sel2 sum_n] in H. rewrite ?cnt_nil in H. lia.
  Qed.
End SeriesNet.

(* for every execution of every composition of two conserving elements the hypotheses of network_conserves hold *)
Theorem compose_network (A B : elem) : conserves A -> conserves B -> forall acts s tr,
  run (A >> B) (init (A >> B)) acts = Some (s, tr) ->
  exists trA trB,
    run A (init A) (actsA A B acts) = Some (fst s, trA) /\ run B (init B) (actsB A B (init A) acts) = Some (snd s, trB) /\
    puts trA = puts tr /\ fwds trB = fwds tr /\
    (forall i u, i < 2 -> cnt u (n_inp A B trA trB i) = cnt u (n_fwd A B trA trB i) + cnt u (n_drp A B trA trB i) + cnt u (n_held A B (fst s) (snd s) i)) /\
    (forall i u, i < 2 -> cnt u (n_fwd A B trA trB i) = sum_n 2 (fun j => cnt u (n_sent A trA i j)) + cnt u (n_tosink B trB i)) /\
    (forall j u, j < 2 -> cnt u (n_inp A B trA trB j) = cnt u (n_inj A trA j) + sum_n 2 (fun i => cnt u (n_sent A trA i j))) /\
    (forall u, cnt u (uids (puts tr)) =
               cnt u (uids (fwds tr)) + (cnt u (uids (drops trA)) + cnt u (uids (drops trB)))
               + (cnt u (uids (held A (fst s))) + cnt u (uids (held B (snd s))))).
Proof.
  intros CA CB acts s tr H.
  destruct (series_projection_init A B _ _ _ H) as (trA & trB & RA & RB & P1 & P2 & P3 & _).
  exists trA, trB. pose proof (CA _ _ _ RA) as HA. pose proof (CB _ _ _ RB) as HB.
  repeat split; auto.
  - apply net_elem_conserves; assumption.
  - apply net_out_wiring.
  - apply net_in_wiring; assumption.
  - intros u. rewrite <- P1, <- P3. apply series_network_read; assumption.
Qed.

(* ---- comparison with an observed execution of a REAL pipeline (correspondence, props/part_gensink.py kind 'pipe'):
        the observed global action sequence must be admissible for the composite and every action must show exactly the
        observed hand-overs between the stages (EHand k) and deliveries (EForward), in order ----------------------- *)
Definition pipe_agree (E : elem) (obs : list (iact (lab E) * list eout)) : bool := agree E (init E) obs.
Definition pipe_first_diff (E : elem) (obs : list (iact (lab E) * list eout)) : option (nat * option (list eout)) :=
  first_diff E (init E) obs 0.
