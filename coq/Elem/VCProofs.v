(* Proofs about Elem/VC.v (the VirtualClock stamping discipline): VC satisfies the interface of
   WFQServerProofs.disc (it cannot raise on a configured class; aux_vc never decreases), and vc_stamp (C14). *)
From Coq Require Import ZArith QArith Qminmax Qabs List Bool Lia Lqa Permutation.
From ONL Require Import Elem.Packet Elem.StoreQ Elem.StoreQProofs Elem.HeapList Elem.WFQServer Elem.WFQServerProofs Elem.WFQ Elem.WFQProofs Elem.VC.
Import ListNotations.

Section VC.
  Variable cfg : vcfg.
  Hypothesis rate_pos : 0 < vrate cfg.
  Hypothesis vticks_pos : forall c v, zlookup c (vticks cfg) = Some v -> 0 < v.

  Definition vcls (p : pkt) : Z := vf2c cfg (flow p).
  Definition vconf (p : pkt) : Prop := zlookup (vcls p) (vticks cfg) <> None /\ (0 <= psize p)%Z.
  Notation S := (vc_stamper cfg).

  Definition vc_disc : disc S (vst0 : ST S) vconf vcls.
  Proof.
    refine {| dJ := (fun _ _ => True) : ST S -> list pkt -> Prop; dbound := (fun s c => s c) : ST S -> Z -> Q |}.
    - intros p (_ & H). exact H.
    - intros p q E. unfold vcls. rewrite E. reflexivity.
    - auto.
    - exact I.
    - intros nw st l p _ (Hc & _). cbn [st_put vc_stamper]. unfold vc_put. fold (vcls p).
      destruct (zlookup (vcls p) (vticks cfg)); [discriminate|contradiction].
    - intros nw st l p st' F _ _ H. cbn [st_put vc_stamper] in H. unfold vc_put in H. fold (vcls p) in H.
      destruct (zlookup (vcls p) (vticks cfg)) as [vt|] eqn:E; [|discriminate].
      apply Some_pair_inj in H as [-> ->]. split; [exact I|]. split.
      + unfold qupd. rewrite Z.eqb_refl. reflexivity.
      + right. split.
        * rewrite Qred_correct. pose proof (Q.le_max_r nw (st (vcls p))). pose proof (vticks_pos _ _ E). lra.
        * intros c Nc. unfold qupd. destruct (Z.eqb_spec c (vcls p)); [contradiction|reflexivity].
    - intros nw st l p _. cbn. discriminate.
    - intros nw st l p st' _ H. cbn in H. apply Some_inj in H as ->. split; [exact I|]. right. intros c. reflexivity.
  Defined.

  Definition vreach : vc cfg -> Prop := reach S (vrate cfg) (vst0 : ST S) vconf.

  (* every arriving packet of class c is stamped auxVC_c := max(now, auxVC_c) + vtick_c *)
  Theorem vc_stamp_thm s p :
    vreach s -> vconf p ->
    exists s' vt,
      vc_act cfg s (FPut p) = Ok (s', []) /\
      zlookup (vcls p) (vticks cfg) = Some vt /\
      (stm s' : vst) (vcls p) == Qmax (now s) ((stm s : vst) (vcls p)) + vt /\
      (forall c, c <> vcls p -> (stm s' : vst) c == (stm s : vst) c) /\
      exists F', F' == (stm s' : vst) (vcls p) /\
        items (store s') = items (store s) ++ [(now s, {| istamp := F'; iseq := Datatypes.S (seq s); ipkt := p |})].
  Proof.
    intros _ (Hc & _). unfold vc_act, act. cbn [st_put vc_stamper]. unfold vc_put. fold (vcls p).
    destruct (zlookup (vcls p) (vticks cfg)) as [vt|] eqn:E; [|contradiction].
    eexists _, vt. split; [reflexivity|]. split; [reflexivity|]. cbn [stm store items sq_put]. unfold pq_push, lpush, qupd.
    rewrite Z.eqb_refl. split; [apply Qred_correct|].
    split; [intros c Nc; destruct (Z.eqb_spec c (vcls p)); [contradiction|reflexivity]|].
    eexists. split; [|reflexivity]. rewrite !Qred_correct. reflexivity.
  Qed.
End VC.
