(* Elements whose put() consumes a random draw, as interface elements: the Port of Elem/Port.v with ANY drop policy, in
   particular REDPort (Elem/Red.v).

   In a composition the put of a downstream element happens INSIDE an action of its upstream element, so the draw cannot be
   carried by the action that makes the put.  The adapter therefore keeps an ORACLE TAPE in its state: the internal step
   `OLoad u` appends the next value of random.uniform(0,1) to the tape; put(p) consumes the head of the tape exactly when the
   policy asks for a draw (it does not when the policy decides without one).  An execution of the adapter is an execution of
   port_run in which `OLoad u ... put p` reads `PPut p (Some u)`; conversely every execution of port_run is one of the adapter
   (load each draw right before the put that consumes it).  The theorems of PortProofs.v (any policy) transfer. *)
From Coq Require Import ZArith QArith List Bool Permutation Lia.
From ONL Require Import Elem.Packet Elem.StoreQ Elem.Port Elem.PortProofs Elem.Red Elem.Iface Elem.AdaptPort.
Import ListNotations.

Inductive olabel := OAct (a : paction) | OLoad (u : Q).

(* the model action a put stands for, and the tape it leaves *)
Definition o_put_act (c : pcfg) (s : port) (tape : list Q) (p : pkt) : paction * list Q :=
  match c_policy c s p None with
  | Some _ => (PPut p None, tape)
  | None => match tape with u :: rest => (PPut p (Some u), rest) | [] => (PPut p None, tape) end
  end.

Definition with_tape (tape : list Q) (r : option (port * list eout)) : option ((port * list Q) * list eout) :=
  match r with Some (s', o) => Some ((s', tape), o) | None => None end.

Definition oport_elem (c : pcfg) (t0 : Q) : elem := {|
  st := (port * list Q)%type;
  lab := olabel;
  init := (port0 t0, []);
  now := fun s => pnow (fst s);
  put := fun p s => let '(a, tape) := o_put_act c (fst s) (snd s) p in with_tape tape (plift (port_act c (fst s) a));
  step := fun l s =>
    match l with
    | OLoad u => Some ((fst s, snd s ++ [u]), [])
    | OAct a => if port_internal a then with_tape (snd s) (plift (port_act c (fst s) a)) else None
    end;
  advance := fun t s => match port_act c (fst s) (PAdvance t) with Some (s', _) => Some (s', snd s) | None => None end;
  urgent := fun s => purgent (fst s);
  deadline := fun s => match psvc (fst s) with Some (_, dl) => Some dl | None => None end;
  held := fun s => port_held (fst s);
  accepts := fun _ => true;
  width := 1
|}.

Definition red_elem (rate : Q) (rc : redcfg) (eid : ekey) (t0 : Q) : elem := oport_elem (red_cfg all_fixed rate rc eid) t0.

(* ---- adapter -> model: the model actions of an adapter execution (read along the execution: the tape is state) ---- *)
Fixpoint o_model (c : pcfg) (s : port) (tape : list Q) (acts : list (iact olabel)) : list paction :=
  match acts with
  | [] => []
  | IStep (OLoad u) :: r => o_model c s (tape ++ [u]) r
  | a :: r =>
      let '(ma, tape') := match a with
                          | IPut p => o_put_act c s tape p
                          | IStep (OAct l) => (l, tape)
                          | IStep (OLoad _) => (PInit, tape)
                          | IAdv t => (PAdvance t, tape)
                          end in
      ma :: match port_act c s ma with Some (s', _) => o_model c s' tape' r | None => [] end
  end.

Theorem oport_elem_run c t0 : forall acts s tape s' tape' tr,
  run (oport_elem c t0) (s, tape) acts = Some ((s', tape'), tr) ->
  exists tr0, port_run c s (o_model c s tape acts) = Some (s', tr0) /\
              Iface.puts tr = PortProofs.puts tr0 /\ fwds tr = forwarded tr0 /\ drops tr = dropped tr0.
Proof.
  induction acts as [|a acts IH]; intros s tape s' tape' tr H; cbn [run] in H.
  - injection H as <- _ <-. exists []. repeat split.
  - destruct (act (oport_elem c t0) (s, tape) a) as [[[s1 tape1] o]|] eqn:Ea; [|discriminate].
    destruct (run (oport_elem c t0) (s1, tape1) acts) as [[[s2 tape2] tr1]|] eqn:Er; [|discriminate].
    injection H as <- _ <-. destruct (IH _ _ _ _ _ Er) as (tr0 & R0 & P & F & D).
    assert (Hmodel : forall ma tp, with_tape tp (plift (port_act c s ma)) = Some ((s1, tape1), o) ->
              (forall p, a_puts a = [p] -> exists u, ma = PPut p u) -> (a_puts a = [] -> forall p u, ma <> PPut p u) ->
              o_model c s tape (a :: acts) = ma :: match port_act c s ma with Some (s', _) => o_model c s' tp acts | None => [] end ->
              exists tr0', port_run c s (o_model c s tape (a :: acts)) = Some (s2, tr0') /\
                Iface.puts ((pnow s1, a, o) :: tr1) = PortProofs.puts tr0' /\ fwds ((pnow s1, a, o) :: tr1) = forwarded tr0' /\
                drops ((pnow s1, a, o) :: tr1) = dropped tr0').
    { intros ma tp Hw Hp Hnp Hm. unfold with_tape, plift in Hw.
      destruct (port_act c s ma) as [[s1' o']|] eqn:E0; [|discriminate]. injection Hw as -> -> <-.
      exists ((pnow s1, ma, o') :: tr0). rewrite Hm. cbn [port_run]. rewrite E0, R0.
      rewrite puts_cons, fwds_cons, drops_cons, P, F, D, port_o_fwds, port_o_drops. repeat split.
      - unfold PortProofs.puts. cbn [flat_map ev_puts]. f_equal.
        destruct (a_puts a) as [|p [|q l]] eqn:Ap.
        + specialize (Hnp eq_refl). destruct ma; try reflexivity. exfalso. eapply Hnp. reflexivity.
        + destruct (Hp p eq_refl) as [u ->]. reflexivity.
        + destruct a; discriminate.
      - unfold forwarded, departures. cbn [flat_map ev_departures]. rewrite map_app, map_map. cbn [snd]. rewrite map_id. reflexivity. }
    destruct a as [p|[l|u]|t].
    + cbn [act oport_elem put fst snd] in Ea. destruct (o_put_act c s tape p) as [ma tp] eqn:Eo.
      apply (Hmodel ma tp Ea).
      * intros q E. injection E as <-. unfold o_put_act in Eo. destruct (c_policy c s p None); [injection Eo as <- _; eauto|].
        destruct tape; injection Eo as <- _; eauto.
      * discriminate.
      * cbn [o_model]. rewrite Eo. reflexivity.
    + cbn [act oport_elem step fst snd] in Ea. destruct (port_internal l) eqn:El; [|discriminate].
      apply (Hmodel l tape Ea).
      * discriminate.
      * intros _ p u ->. discriminate.
      * reflexivity.
    + cbn [act oport_elem step fst snd] in Ea. injection Ea as <- <- <-.
      exists tr0. cbn [o_model]. rewrite R0, puts_cons, fwds_cons, drops_cons. cbn [a_puts o_fwds o_drops flat_map app]. auto.
    + cbn [act oport_elem advance fst snd] in Ea. destruct (port_act c s (PAdvance t)) as [[s1' o']|] eqn:E0; [|discriminate].
      injection Ea as <- <- <-. pose proof (port_adv_outs _ _ _ _ _ E0) as ->.
      exists ((pnow s1', PAdvance t, []) :: tr0). cbn [o_model port_run]. rewrite E0, R0.
      rewrite puts_cons, fwds_cons, drops_cons, P, F, D. repeat split.
Qed.

(* ---- model -> adapter: load each draw right before the put that consumes it ------------------------------------- *)
Definition o_of (a : paction) : list (iact olabel) :=
  match a with
  | PPut p (Some u) => [IStep (OLoad u); IPut p]
  | PPut p None => [IPut p]
  | PAdvance t => [IAdv t]
  | _ => [IStep (OAct a)]
  end.
(* the policy asks for a determinate number of draws *)
Definition draw_det (c : pcfg) : Prop := forall s p u r, c_policy c s p (Some u) = Some r -> c_policy c s p None = None.

Lemma red_draw_det f rate rc eid : draw_det (red_cfg f rate rc eid).
Proof.
  intros s p u r. cbn [c_policy red_cfg]. unfold red_policy.
  destruct (Qle_bool (r_qlimit rc) (red_avg_next rc s)); [discriminate|].
  destruct (Qle_bool (r_max rc) (red_avg_next rc s) || Qle_bool (r_min rc) (red_avg_next rc s)); [reflexivity|discriminate].
Qed.
Lemma tail_draw_det f rate ql lb eid : draw_det (port_cfg f rate ql lb eid).
Proof. intros s p u r. cbn [c_policy port_cfg]. unfold tail_policy. discriminate. Qed.

Theorem port_run_oelem c t0 : draw_det c -> forall acts s s' tr0,
  port_run c s acts = Some (s', tr0) ->
  exists tr, run (oport_elem c t0) (s, []) (flat_map o_of acts) = Some ((s', []), tr) /\
             Iface.puts tr = PortProofs.puts tr0 /\ fwds tr = forwarded tr0 /\ drops tr = dropped tr0.
Proof.
  intros Dd. induction acts as [|a acts IH]; intros s s' tr0 H; cbn [port_run] in H.
  - injection H as <- <-. exists []. repeat split.
  - destruct (port_act c s a) as [[s1 o]|] eqn:Ea; [|discriminate].
    destruct (port_run c s1 acts) as [[s2 tr1]|] eqn:Er; [|discriminate]. injection H as <- <-.
    destruct (IH _ _ _ Er) as (tr & R & P & F & D). cbn [flat_map]. rewrite run_app.
    assert (Hone : forall ia, o_of a = [ia] -> act (oport_elem c t0) (s, []) ia = Some ((s1, []), flat_map pout_e o) ->
               a_puts ia = ev_puts (pnow s1, a, o) ->
               exists tr', match run (oport_elem c t0) (s, []) (o_of a) with
                           | Some (s1', t1) => match run (oport_elem c t0) s1' (flat_map o_of acts) with
                                               | Some (s2', t2) => Some (s2', t1 ++ t2) | None => None end
                           | None => None end = Some ((s2, []), tr') /\
                 Iface.puts tr' = PortProofs.puts ((pnow s1, a, o) :: tr1) /\ fwds tr' = forwarded ((pnow s1, a, o) :: tr1) /\
                 drops tr' = dropped ((pnow s1, a, o) :: tr1)).
    { intros ia Eo Eact Ep. rewrite Eo. cbn [run]. rewrite Eact, R. eexists. split; [reflexivity|].
      unfold Iface.puts, fwds, drops in *. cbn [app flat_map fst snd lab oport_elem] in *. rewrite P, F, D, port_o_fwds, port_o_drops, Ep. repeat split.
      unfold forwarded, departures. cbn [flat_map ev_departures]. rewrite map_app, map_map. cbn [snd]. rewrite map_id. reflexivity. }
    destruct a as [p [u|]| | | | |t|incl].
    + (* a put that consumes a draw *)
      cbn [o_of run act oport_elem step put fst snd app]. unfold o_put_act.
      assert (Epol : c_policy c s p None = None).
      { cbn [port_act] in Ea. unfold port_put in Ea. destruct (c_policy c s p (Some u)) as [r|] eqn:E; [|discriminate]. eapply Dd; eauto. }
      rewrite Epol. cbn [fst snd]. rewrite Ea. cbn [plift with_tape]. rewrite R. eexists. split; [reflexivity|].
      unfold Iface.puts, fwds, drops in *. cbn [app flat_map fst snd a_puts o_fwds o_drops lab oport_elem] in *. rewrite P, F, D.
      fold (o_fwds (flat_map pout_e o)) (o_drops (flat_map pout_e o)). rewrite port_o_fwds, port_o_drops.
      repeat split. unfold forwarded, departures. cbn [flat_map ev_departures]. rewrite map_app, map_map. cbn [snd]. rewrite map_id. reflexivity.
    + apply (Hone (IPut p)); [reflexivity| |reflexivity].
      cbn [act oport_elem put fst snd]. unfold o_put_act.
      assert (Epol : exists r, c_policy c s p None = Some r).
      { cbn [port_act] in Ea. unfold port_put in Ea. destruct (c_policy c s p None) as [r|]; [eauto|discriminate]. }
      destruct Epol as [r ->]. rewrite Ea. reflexivity.
    + apply (Hone (IStep (OAct PInit))); [reflexivity| |reflexivity]. cbn [act oport_elem step port_internal fst snd]. rewrite Ea. reflexivity.
    + apply (Hone (IStep (OAct PStoreCb))); [reflexivity| |reflexivity]. cbn [act oport_elem step port_internal fst snd]. rewrite Ea. reflexivity.
    + apply (Hone (IStep (OAct PGet))); [reflexivity| |reflexivity]. cbn [act oport_elem step port_internal fst snd]. rewrite Ea. reflexivity.
    + apply (Hone (IStep (OAct PTimer))); [reflexivity| |reflexivity]. cbn [act oport_elem step port_internal fst snd]. rewrite Ea. reflexivity.
    + apply (Hone (IAdv t)); [reflexivity| |reflexivity]. cbn [act oport_elem advance fst snd]. rewrite Ea.
      rewrite (port_adv_outs _ _ _ _ _ Ea). reflexivity.
    + apply (Hone (IStep (OAct (PSample incl)))); [reflexivity| |reflexivity]. cbn [act oport_elem step port_internal fst snd]. rewrite Ea. reflexivity.
Qed.

(* ---- the laws ------------------------------------------------------------------------------------------------ *)
Lemma oport_init_run c t0 acts s tr :
  run (oport_elem c t0) (init (oport_elem c t0)) acts = Some (s, tr) ->
  exists tr0, port_run c (port0 t0) (o_model c (port0 t0) [] acts) = Some (fst s, tr0) /\
              Iface.puts tr = PortProofs.puts tr0 /\ fwds tr = forwarded tr0 /\ drops tr = dropped tr0.
Proof. destruct s as [s tape]. apply oport_elem_run. Qed.

Theorem oport_elem_conserves c t0 : conserves (oport_elem c t0).
Proof.
  intros acts s tr H. destruct (oport_init_run _ _ _ _ _ H) as (tr0 & R0 & -> & -> & ->).
  exact (proj1 (port_conserves _ _ _ _ _ R0)).
Qed.
Theorem oport_elem_flow_fifo c t0 f : flow_fifo (oport_elem c t0) f.
Proof.
  intros acts s tr H. destruct (oport_init_run _ _ _ _ _ H) as (tr0 & R0 & -> & -> & _).
  apply psubseq_sublist. exact (proj1 (port_flow_fifo _ _ _ _ _ (on_flow f) R0)).
Qed.
Theorem oport_elem_drained c t0 : drained (oport_elem c t0).
Proof.
  intros acts s tr H _ U Dl. destruct (oport_init_run _ _ _ _ _ H) as (tr0 & R0 & _).
  cbn [urgent deadline oport_elem] in U, Dl.
  assert (Hh : psvc (fst s) = None) by (destruct (psvc (fst s)) as [[p dl]|]; [discriminate|reflexivity]).
  exact (port_drained _ _ _ _ _ R0 U Hh).
Qed.
Theorem oport_elem_laws c t0 : laws (oport_elem c t0).
Proof. split; [apply oport_elem_conserves|intros f; apply oport_elem_flow_fifo|apply oport_elem_drained]. Qed.

Lemma o_put_act_put c s tape p ma tp : o_put_act c s tape p = (ma, tp) -> exists u, ma = PPut p u.
Proof.
  unfold o_put_act. destruct (c_policy c s p None); [intros H; injection H as <- _; eauto|].
  destruct tape; intros H; injection H as <- _; eauto.
Qed.

Theorem oport_elem_timed c t0 : timed (oport_elem c t0).
Proof.
  repeat split.
  - intros p [s tape] [s' tape'] o H. cbn [put oport_elem fst snd] in H. destruct (o_put_act c s tape p) as [ma tp] eqn:Eo.
    unfold with_tape, plift in H. destruct (port_act c s ma) as [[w' o']|] eqn:E; [|discriminate]. injection H as <- _ _.
    cbn [now oport_elem fst]. apply (pstep_now _ _ _ _ _ (port_act_step _ _ _ _ _ E)).
    destruct (o_put_act_put _ _ _ _ _ _ Eo) as [u ->]. discriminate.
  - intros [a|u] [s tape] [s' tape'] o H; cbn [step oport_elem fst snd] in H.
    + destruct (port_internal a) eqn:El; [|discriminate]. unfold with_tape, plift in H.
      destruct (port_act c s a) as [[w' o']|] eqn:E; [|discriminate]. injection H as <- _ _.
      cbn [now oport_elem fst]. apply (pstep_now _ _ _ _ _ (port_act_step _ _ _ _ _ E)). intros t ->. discriminate.
    + injection H as <- _ _. reflexivity.
  - destruct s as [s tape]. cbn [advance oport_elem fst snd] in H.
    destruct (port_act c s (PAdvance t)) as [[s1 o1]|] eqn:E; [|discriminate]. injection H as <-.
    apply port_act_step in E. inversion E; subst. reflexivity.
  - destruct s as [s tape]. cbn [advance oport_elem fst snd] in H.
    destruct (port_act c s (PAdvance t)) as [[s1 o1]|] eqn:E; [|discriminate].
    apply port_act_step in E. inversion E; subst. assumption.
  - destruct s as [s tape]. cbn [advance oport_elem fst snd] in H.
    destruct (port_act c s (PAdvance t)) as [[s1 o1]|] eqn:E; [|discriminate].
    apply port_act_step in E. inversion E; subst. assumption.
  - destruct s as [s tape]. cbn [advance oport_elem fst snd] in H.
    destruct (port_act c s (PAdvance t)) as [[s1 o1]|] eqn:E; [|discriminate].
    apply port_act_step in E. inversion E; subst. cbn [deadline oport_elem fst]. intros d Hd.
    destruct (psvc s) as [[p dl]|] eqn:V; [|discriminate]. injection Hd as <-. eauto.
Qed.
