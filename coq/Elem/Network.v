(* Composition of per-element conservation into network-wide conservation (C08, `network_conserves`).
   Multisets of packets are lists of uids compared by count_occ.  The wiring is arbitrary (fan-in,
   fan-out, even cycles): every packet an element forwards goes to exactly one downstream element or to
   a sink; an element's input is what is injected into it plus what its upstream elements sent to it. *)
From Coq Require Import Arith List Lia.
Import ListNotations.

Definition cnt (u : nat) (l : list nat) : nat := count_occ Nat.eq_dec l u.

Fixpoint sum_n (n : nat) (f : nat -> nat) : nat :=
  match n with O => 0 | S k => sum_n k f + f k end.

Lemma sum_n_ext n f g : (forall i, i < n -> f i = g i) -> sum_n n f = sum_n n g.
Proof. induction n as [|n IH]; intros H; cbn; [reflexivity|]. rewrite IH, H by (intros; auto with arith); lia. Qed.

Lemma sum_n_add n f g : sum_n n (fun i => f i + g i) = sum_n n f + sum_n n g.
Proof. induction n as [|n IH]; cbn; [reflexivity|]. rewrite IH. lia. Qed.

Lemma sum_n_swap n m (f : nat -> nat -> nat) :
  sum_n n (fun i => sum_n m (fun j => f i j)) = sum_n m (fun j => sum_n n (fun i => f i j)).
Proof.
  induction n as [|n IH]; cbn.
  - induction m as [|m IHm]; cbn; [reflexivity|]. rewrite <- IHm. reflexivity.
  - rewrite IH. rewrite <- sum_n_add. reflexivity.
Qed.

Section Network.
  Variable n : nat.                                   (* number of elements *)
  Variables inp fwd drp held inj tosink : nat -> list nat.   (* per element: uids *)
  Variable sent : nat -> nat -> list nat.             (* sent i j : what element i handed to element j *)

  (* per-element conservation (the X_conserves theorems of the element models) *)
  Hypothesis elem_conserves : forall i u, i < n ->
    cnt u (inp i) = cnt u (fwd i) + cnt u (drp i) + cnt u (held i).
  (* every forwarded packet goes to exactly one place *)
  Hypothesis out_wiring : forall i u, i < n ->
    cnt u (fwd i) = sum_n n (fun j => cnt u (sent i j)) + cnt u (tosink i).
  (* an element's input is what was injected plus what was sent to it *)
  Hypothesis in_wiring : forall j u, j < n ->
    cnt u (inp j) = cnt u (inj j) + sum_n n (fun i => cnt u (sent i j)).

  Theorem network_conserves : forall u,
    sum_n n (fun j => cnt u (inj j)) =
    sum_n n (fun i => cnt u (tosink i)) + sum_n n (fun i => cnt u (drp i)) + sum_n n (fun i => cnt u (held i)).
  Proof.
    intros u.
    assert (A : sum_n n (fun j => cnt u (inp j)) =
                sum_n n (fun j => cnt u (inj j)) + sum_n n (fun j => sum_n n (fun i => cnt u (sent i j)))).
    { rewrite <- sum_n_add. apply sum_n_ext. intros j Hj. apply in_wiring; auto. }
    assert (B : sum_n n (fun i => cnt u (inp i)) =
                sum_n n (fun i => sum_n n (fun j => cnt u (sent i j))) + sum_n n (fun i => cnt u (tosink i))
                + sum_n n (fun i => cnt u (drp i)) + sum_n n (fun i => cnt u (held i))).
    { rewrite <- !sum_n_add. apply sum_n_ext. intros i Hi. rewrite elem_conserves, out_wiring by auto. lia. }
    rewrite (sum_n_swap n n (fun i j => cnt u (sent i j))) in B. lia.
  Qed.

  (* at quiescence (nothing held anywhere) everything injected was delivered to a sink or dropped by a rule *)
  Corollary network_quiescent : (forall i, i < n -> held i = []) -> forall u,
    sum_n n (fun j => cnt u (inj j)) = sum_n n (fun i => cnt u (tosink i)) + sum_n n (fun i => cnt u (drp i)).
  Proof.
    intros Hq u. rewrite network_conserves.
    replace (sum_n n (fun i => cnt u (held i))) with 0; [lia|].
    symmetry. rewrite (sum_n_ext n _ (fun _ => 0)).
    - clear. induction n as [|k IH]; cbn; lia.
    - intros i Hi. rewrite Hq by auto. reflexivity.
  Qed.
End Network.
