(* Bridging lemmas (DESIGN 2.6, second tie) for TokenBucket.put / TwoRateTokenBucket.put: the bodies as translated from the
   tree under test on every run (Gen/Extracted_bucketput.v) are the TPut / RPut steps of the hand-written automata
   (Elem/Bucket.v, Elem/TwoRate.v): packets_received += 1, then store.put(packet). *)
From Coq Require Import ZArith QArith List Bool.
From ONL Require Import Elem.Packet Elem.StoreQ Elem.Bucket Elem.TwoRate Gen.Extracted_bucketput.
Import ListNotations.

Definition tb_put_fx (p : pkt) (s : tb) (f : bput_st) (fx : list bput_fx) : option tb :=
  match fx with
  | [FxStorePut] =>
      Some {| tnow := tnow s; tq := sq_put fifo_push (tnow s) p (tq s); tstarted := tstarted s; level := level s;
              utime := utime s; phase := phase s; nrecv := b_packets_received f; nsent := nsent s |}
  | _ => None
  end.

Lemma bridge_tb_put c s p :
  let g := gen_TokenBucket_put {| b_packets_received := nrecv s |} in
  match tb_put_fx p s (fst g) (snd g) with
  | Some s' => tb_act c s (TPut p) = Some (s', [])
  | None => False
  end.
Proof. cbn -[Z.add]. rewrite ?(Z.add_comm 1). reflexivity. Qed.

Definition tr_put_fx (p : pkt) (s : trtb) (f : bput_st) (fx : list bput_fx) : option trtb :=
  match fx with
  | [FxStorePut] =>
      Some {| rnow := rnow s; rq := sq_put fifo_push (rnow s) p (rq s); rstarted := rstarted s; lc := lc s; lp := lp s;
              rut := rut s; rphase_ := rphase_ s; rrecv := b_packets_received f; rsent := rsent s |}
  | _ => None
  end.

Lemma bridge_tr_put fy fr c s p :
  let g := gen_TwoRateTokenBucket_put {| b_packets_received := rrecv s |} in
  match tr_put_fx p s (fst g) (snd g) with
  | Some s' => tr_act fy fr c s (RPut p) = Some (s', [])
  | None => False
  end.
Proof. cbn -[Z.add]. rewrite ?(Z.add_comm 1). reflexivity. Qed.
