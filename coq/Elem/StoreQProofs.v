(* Lemmas about Elem/StoreQ.v (the kernel Store with its micro-steps, one consumer), proved once for
   an arbitrary payload type A and imported by every server-style element (Wire, Port, buckets, ...).

   Part 1 (any discipline push/pop): the "no stranded consumer" invariant [sq_nostrand] and the shape
          of every micro-step.
   Part 2 (FIFO discipline fifo_push/fifo_pop): conservation and order of [sq_held]:
            sq_put   adds exactly the new item at the END of sq_held,
            sq_cb / sq_get keep sq_held as a list (FIFO order preserved),
            sq_take  removes the HEAD of sq_held;
          time stamps: [sq_stamped] (every held item was put at or before now) and [sq_fresh]
          (while the consumer is waiting, every item in the store was put at the current instant).
   Naming is stable: other files import these names. *)
From Coq Require Import ZArith QArith List Bool Lia.
From ONL Require Import Elem.StoreQ.
Import ListNotations.

(* ---------------------------------------------------------------------------------------------- *)
(* Part 1: any discipline                                                                          *)
Section AnyDiscipline.
  Variable A : Type.
  Variable push : (Q * A) -> list (Q * A) -> list (Q * A).
  Variable pop : list (Q * A) -> option ((Q * A) * list (Q * A)).
  Implicit Types s : sq A.

  (* (I1) no stranded consumer: a waiting get with a non-empty store has an unprocessed put event *)
  Definition sq_nostrand (s : sq A) : Prop :=
    get s = GWaiting -> items s <> [] -> (pend s > 0)%nat.

  (* [pop] is honest about emptiness (true of fifo_pop and of heappop) *)
  Definition pop_total : Prop := forall l, pop l = None -> l = [].

  Lemma sq_nostrand_init : sq_nostrand sq0.
  Proof. intros _ H. exfalso. apply H. reflexivity. Qed.

  Lemma sq_nostrand_put now x s : sq_nostrand (sq_put push now x s).
  Proof. intros _ _. cbn. lia. Qed.

  Lemma sq_nostrand_cb s s' : pop_total -> sq_cb pop s = Some s' -> sq_nostrand s'.
  Proof.
    intros Hp H. unfold sq_cb in H.
    destruct (pend s) as [|n]; [discriminate|].
    destruct (get s) eqn:G.
    - injection H as <-. intros G'. cbn in G'. congruence.
    - destruct (pop (items s)) as [[x rest]|] eqn:P.
      + injection H as <-. intros G'. cbn in G'. discriminate.
      + injection H as <-. intros _ Hne. cbn in Hne. apply Hp in P. contradiction.
    - injection H as <-. intros G'. cbn in G'. congruence.
  Qed.

  Lemma sq_nostrand_get s s' : pop_total -> sq_get pop s = Some s' -> sq_nostrand s'.
  Proof.
    intros Hp H. unfold sq_get in H.
    destruct (get s); try discriminate.
    destruct (pop (items s)) as [[x rest]|] eqn:P; injection H as <-.
    - intros G'. cbn in G'. discriminate.
    - intros _ Hne. cbn in Hne. apply Hp in P. contradiction.
  Qed.

  Lemma sq_nostrand_take s x s' : sq_take s = Some (x, s') -> sq_nostrand s'.
  Proof.
    unfold sq_take. destruct (get s); try discriminate.
    intros H. injection H as _ <-. intros G'. cbn in G'. discriminate.
  Qed.

  (* what "not urgent" means *)
  Lemma sq_urgent_false s :
    sq_urgent s = false <-> pend s = 0%nat /\ (forall x, get s <> GGranted x).
  Proof.
    unfold sq_urgent. rewrite orb_false_iff, negb_false_iff, Nat.eqb_eq. split.
    - intros [Hp Hg]. split; [exact Hp|]. intros x E. rewrite E in Hg. discriminate.
    - intros [Hp Hg]. split; [exact Hp|]. destruct (get s) as [| |x]; auto. exfalso. apply (Hg x). reflexivity.
  Qed.

  Lemma sq_urgent_put now x s : sq_urgent (sq_put push now x s) = true.
  Proof. reflexivity. Qed.

  (* the consequence every Advance uses: a waiting consumer of a quiet store sees an empty store *)
  Lemma sq_waiting_quiet_empty s :
    sq_urgent s = false -> sq_nostrand s -> get s = GWaiting -> items s = [].
  Proof.
    intros U N G. apply sq_urgent_false in U as [Hp _].
    destruct (items s) as [|x t] eqn:E; [reflexivity|].
    exfalso. assert (H : (pend s > 0)%nat) by (apply N; [exact G|rewrite E; discriminate]). lia.
  Qed.

  Lemma sq_waiting_quiet_held s :
    sq_urgent s = false -> sq_nostrand s -> get s = GWaiting -> sq_held s = [].
  Proof.
    intros U N G. unfold sq_held. rewrite G. apply sq_waiting_quiet_empty; assumption.
  Qed.

  Lemma sq_quiet_held_items s : sq_urgent s = false -> sq_held s = items s.
  Proof.
    intros U. apply sq_urgent_false in U as [_ Hg]. unfold sq_held.
    destruct (get s) as [| |x]; auto. exfalso. apply (Hg x). reflexivity.
  Qed.

  (* shape of the micro-steps that do not depend on the discipline *)
  Lemma sq_take_inv s x s' :
    sq_take s = Some (x, s') ->
    get s = GGranted x /\ items s' = items s /\ pend s' = pend s /\ get s' = GNone.
  Proof.
    unfold sq_take. destruct (get s) as [| |y]; try discriminate.
    intros H. injection H as <- <-. cbn. auto.
  Qed.

  Lemma sq_take_enabled s x : get s = GGranted x -> exists s', sq_take s = Some (x, s').
  Proof. intros G. unfold sq_take. rewrite G. eauto. Qed.

  Lemma sq_take_none s : sq_take s = None <-> (forall x, get s <> GGranted x).
  Proof.
    unfold sq_take. destruct (get s) as [| |y]; split; intros H; try discriminate; try reflexivity.
    exfalso. apply (H y). reflexivity.
  Qed.

  Lemma sq_put_fields now x s :
    items (sq_put push now x s) = push (now, x) (items s) /\ pend (sq_put push now x s) = S (pend s)
    /\ get (sq_put push now x s) = get s.
  Proof. cbn. auto. Qed.

  Lemma sq_get_requires_none s s' : sq_get pop s = Some s' -> get s = GNone.
  Proof. unfold sq_get. destruct (get s); try discriminate. reflexivity. Qed.

  Lemma sq_get_enabled s : get s = GNone -> exists s', sq_get pop s = Some s'.
  Proof. intros G. unfold sq_get. rewrite G. destruct (pop (items s)) as [[x r]|]; eauto. Qed.

  Lemma sq_get_not_none s s' : sq_get pop s = Some s' -> get s' <> GNone /\ pend s' = pend s.
  Proof.
    unfold sq_get. destruct (get s); try discriminate.
    destruct (pop (items s)) as [[x r]|]; intros H; injection H as <-; cbn; split; auto; discriminate.
  Qed.

  Lemma sq_cb_enabled s : (pend s > 0)%nat <-> exists s', sq_cb pop s = Some s'.
  Proof.
    unfold sq_cb. destruct (pend s) as [|n]; split.
    - lia.
    - intros (s' & H). discriminate.
    - intros _. destruct (get s); [eauto| |eauto]. destruct (pop (items s)) as [[x r]|]; eauto.
    - lia.
  Qed.

  Lemma sq_cb_pend s s' : sq_cb pop s = Some s' -> pend s = S (pend s').
  Proof.
    unfold sq_cb. destruct (pend s) as [|n]; [discriminate|].
    destruct (get s); [| |]; try (intros H; injection H as <-; reflexivity).
    destruct (pop (items s)) as [[x r]|]; intros H; injection H as <-; reflexivity.
  Qed.

  (* a StorePut event processed while nobody waits changes nothing but the counter *)
  Lemma sq_cb_not_waiting s s' :
    sq_cb pop s = Some s' -> get s <> GWaiting -> items s' = items s /\ get s' = get s.
  Proof.
    unfold sq_cb. destruct (pend s) as [|n]; [discriminate|].
    destruct (get s); intros H NW; try (injection H as <-; cbn; auto). contradiction.
  Qed.

  (* the phase of the consumer: GNone stays GNone under put/cb; only sq_get leaves it, only sq_take enters it *)
  Lemma sq_cb_get_none s s' : sq_cb pop s = Some s' -> (get s = GNone <-> get s' = GNone).
  Proof.
    unfold sq_cb. destruct (pend s) as [|n]; [discriminate|].
    destruct (get s) eqn:G.
    - intros H; injection H as <-. cbn. split; auto.
    - destruct (pop (items s)) as [[x r]|]; intros H; injection H as <-; cbn; split; discriminate.
    - intros H; injection H as <-. cbn. split; auto.
  Qed.
End AnyDiscipline.

Arguments sq_nostrand {A} s.
Arguments pop_total {A} pop.

(* ---------------------------------------------------------------------------------------------- *)
(* Part 2: the FIFO discipline of Store                                                            *)
Section Fifo.
  Variable A : Type.
  Notation sqA := (sq A).

  Lemma fifo_pop_total : pop_total (@fifo_pop A).
  Proof. intros [|x t]; cbn; [reflexivity|discriminate]. Qed.

  Lemma fifo_pop_some (l : list (Q * A)) x rest : fifo_pop l = Some (x, rest) <-> l = x :: rest.
  Proof.
    destruct l as [|y t]; cbn; split; intros H; try discriminate.
    - injection H as <- <-. reflexivity.
    - injection H as <- <-. reflexivity.
  Qed.

  (* preservation of (I1) by the four micro-steps, FIFO instance *)
  Lemma fifo_nostrand_put now x (s : sqA) : sq_nostrand (sq_put fifo_push now x s).
  Proof. apply sq_nostrand_put. Qed.
  Lemma fifo_nostrand_cb (s s' : sqA) : sq_cb fifo_pop s = Some s' -> sq_nostrand s'.
  Proof. apply sq_nostrand_cb, fifo_pop_total. Qed.
  Lemma fifo_nostrand_get (s s' : sqA) : sq_get fifo_pop s = Some s' -> sq_nostrand s'.
  Proof. apply sq_nostrand_get, fifo_pop_total. Qed.
  Lemma fifo_nostrand_take (s : sqA) x s' : sq_take s = Some (x, s') -> sq_nostrand s'.
  Proof. apply sq_nostrand_take. Qed.

  (* exact shape of the FIFO micro-steps *)
  Lemma fifo_cb_inv (s s' : sqA) :
    sq_cb fifo_pop s = Some s' ->
    pend s = S (pend s') /\
    ((get s = GWaiting /\ exists x, items s = x :: items s' /\ get s' = GGranted x)
     \/ ((get s <> GWaiting \/ items s = []) /\ items s' = items s /\ get s' = get s)).
  Proof.
    unfold sq_cb. destruct (pend s) as [|n]; [discriminate|].
    destruct (get s) eqn:G.
    - intros H; injection H as <-. cbn. split; [reflexivity|]. right. split; [left; discriminate|auto].
    - destruct (items s) as [|x t] eqn:E; cbn; intros H; injection H as <-; cbn; (split; [reflexivity|]).
      + right. auto.
      + left. split; [reflexivity|]. exists x. auto.
    - intros H; injection H as <-. cbn. split; [reflexivity|]. right. split; [left; discriminate|auto].
  Qed.

  Lemma fifo_get_inv (s s' : sqA) :
    sq_get fifo_pop s = Some s' ->
    get s = GNone /\ pend s' = pend s /\
    ((items s = [] /\ items s' = [] /\ get s' = GWaiting)
     \/ (exists x, items s = x :: items s' /\ get s' = GGranted x)).
  Proof.
    unfold sq_get. destruct (get s); try discriminate.
    destruct (items s) as [|x t] eqn:E; cbn; intros H; injection H as <-; cbn.
    - split; [reflexivity|split; [reflexivity|left; auto]].
    - split; [reflexivity|split; [reflexivity|right; exists x; auto]].
  Qed.

  (* ---- conservation and order of what the store holds ---- *)
  Lemma fifo_held_put now x (s : sqA) : sq_held (sq_put fifo_push now x s) = sq_held s ++ [(now, x)].
  Proof. unfold sq_held, sq_put, fifo_push; cbn. destruct (get s); reflexivity. Qed.

  Lemma fifo_held_cb (s s' : sqA) : sq_cb fifo_pop s = Some s' -> sq_held s' = sq_held s.
  Proof.
    intros H. apply fifo_cb_inv in H as (_ & [(G & x & E & G')|(_ & E & G')]); unfold sq_held.
    - rewrite G, G', E. reflexivity.
    - rewrite G', E. reflexivity.
  Qed.

  Lemma fifo_held_get (s s' : sqA) : sq_get fifo_pop s = Some s' -> sq_held s' = sq_held s.
  Proof.
    intros H. apply fifo_get_inv in H as (G & _ & [(E & E' & G')|(x & E & G')]); unfold sq_held.
    - rewrite G, G', E, E'. reflexivity.
    - rewrite G, G', E. reflexivity.
  Qed.

  Lemma fifo_held_take (s : sqA) x s' : sq_take s = Some (x, s') -> sq_held s = x :: sq_held s'.
  Proof.
    intros H. apply sq_take_inv in H as (G & E & _ & G'). unfold sq_held. rewrite G, G', E. reflexivity.
  Qed.

  Lemma fifo_held_init : sq_held (@sq0 A) = [].
  Proof. reflexivity. Qed.

  (* the item a granted get carries is the head of what is held; nothing is held by an idle consumer (GNone)
     beyond the items *)
  Lemma sq_held_granted (s : sqA) x : get s = GGranted x -> sq_held s = x :: items s.
  Proof. intros G. unfold sq_held. rewrite G. reflexivity. Qed.

  Lemma sq_held_not_granted (s : sqA) : (forall x, get s <> GGranted x) -> sq_held s = items s.
  Proof. intros G. unfold sq_held. destruct (get s) as [| |x]; auto. exfalso. apply (G x). reflexivity. Qed.

  (* ---- time stamps ---- *)
  (* every held item was put at or before [now] *)
  Definition sq_stamped (now : Q) (s : sqA) : Prop := Forall (fun x => fst x <= now) (sq_held s).
  (* (I2) while the consumer waits, every item of the store was put at the current instant *)
  Definition sq_fresh (now : Q) (s : sqA) : Prop := get s = GWaiting -> Forall (fun x => fst x = now) (items s).

  Lemma sq_stamped_init now : sq_stamped now (@sq0 A).
  Proof. constructor. Qed.

  Lemma sq_stamped_put now x (s : sqA) : sq_stamped now s -> sq_stamped now (sq_put fifo_push now x s).
  Proof.
    unfold sq_stamped. rewrite fifo_held_put. intros H. apply Forall_app. split; [exact H|].
    constructor; [cbn; apply Qle_refl|constructor].
  Qed.

  Lemma sq_stamped_cb now (s s' : sqA) : sq_cb fifo_pop s = Some s' -> sq_stamped now s -> sq_stamped now s'.
  Proof. unfold sq_stamped. intros H. rewrite (fifo_held_cb _ _ H). auto. Qed.

  Lemma sq_stamped_get now (s s' : sqA) : sq_get fifo_pop s = Some s' -> sq_stamped now s -> sq_stamped now s'.
  Proof. unfold sq_stamped. intros H. rewrite (fifo_held_get _ _ H). auto. Qed.

  Lemma sq_stamped_take now (s : sqA) x s' :
    sq_take s = Some (x, s') -> sq_stamped now s -> fst x <= now /\ sq_stamped now s'.
  Proof.
    unfold sq_stamped. intros H. rewrite (fifo_held_take _ _ _ H). intros F.
    inversion F; subst. auto.
  Qed.

  Lemma sq_stamped_mono now t (s : sqA) : now <= t -> sq_stamped now s -> sq_stamped t s.
  Proof.
    unfold sq_stamped. intros Hle F. eapply Forall_impl; [|exact F].
    intros x Hx. cbn in Hx. eapply Qle_trans; eauto.
  Qed.

  Lemma sq_fresh_init now : sq_fresh now (@sq0 A).
  Proof. intros H. discriminate. Qed.

  Lemma sq_fresh_put now x (s : sqA) : sq_fresh now s -> sq_fresh now (sq_put fifo_push now x s).
  Proof.
    unfold sq_fresh, sq_put, fifo_push; cbn. intros H G. apply Forall_app. split; [auto|].
    constructor; [reflexivity|constructor].
  Qed.

  Lemma sq_fresh_cb now (s s' : sqA) : sq_cb fifo_pop s = Some s' -> sq_fresh now s -> sq_fresh now s'.
  Proof.
    intros H F. apply fifo_cb_inv in H as (_ & [(G & x & E & G')|(_ & E & G')]); intros W.
    - rewrite G' in W. discriminate.
    - rewrite E. apply F. rewrite <- G'. exact W.
  Qed.

  Lemma sq_fresh_get now (s s' : sqA) : sq_get fifo_pop s = Some s' -> sq_fresh now s'.
  Proof.
    intros H. apply fifo_get_inv in H as (G & _ & [(E & E' & G')|(x & E & G')]); intros W.
    - rewrite E'. constructor.
    - rewrite G' in W. discriminate.
  Qed.

  Lemma sq_fresh_take now (s : sqA) x s' : sq_take s = Some (x, s') -> sq_fresh now s'.
  Proof. intros H. apply sq_take_inv in H as (_ & _ & _ & G'). intros W. rewrite G' in W. discriminate. Qed.

  (* the clock may move only when the store is quiet; then a waiting consumer has an empty store and
     freshness holds at the new instant for free *)
  Lemma sq_fresh_advance (t : Q) (s : sqA) :
    sq_urgent s = false -> sq_nostrand s -> sq_fresh t s.
  Proof.
    intros U N W. rewrite (sq_waiting_quiet_empty _ s U N W). constructor.
  Qed.

  (* a StorePut event that serves the waiting consumer hands over an item put at the current instant *)
  Lemma sq_cb_grants_fresh now (s s' : sqA) x :
    sq_cb fifo_pop s = Some s' -> sq_fresh now s -> get s = GWaiting -> get s' = GGranted x -> fst x = now.
  Proof.
    intros H F W G'. apply fifo_cb_inv in H as (_ & [(_ & y & E & Gy)|(_ & _ & Gs)]).
    - rewrite Gy in G'. injection G' as <-. specialize (F W). rewrite E in F. inversion F as [|? ? Hh Ht]. exact Hh.
    - rewrite Gs, W in G'. discriminate.
  Qed.

  (* an immediate grant (get on a non-empty store) hands over the head of the items *)
  Lemma sq_get_grants_head (s s' : sqA) x :
    sq_get fifo_pop s = Some s' -> get s' = GGranted x -> exists rest, items s = x :: rest /\ items s' = rest.
  Proof.
    intros H G'. apply fifo_get_inv in H as (_ & _ & [(_ & _ & W)|(y & E & Gy)]).
    - rewrite W in G'. discriminate.
    - rewrite Gy in G'. injection G' as <-. eauto.
  Qed.

  (* ---- counting (for counters such as len(store.items) sampled by harnesses) ---- *)
  Lemma fifo_held_length_put now x (s : sqA) : length (sq_held (sq_put fifo_push now x s)) = S (length (sq_held s)).
  Proof. rewrite fifo_held_put, app_length. cbn. lia. Qed.

  Lemma fifo_held_length_take (s : sqA) x s' : sq_take s = Some (x, s') -> length (sq_held s) = S (length (sq_held s')).
  Proof. intros H. rewrite (fifo_held_take _ _ _ H). reflexivity. Qed.
End Fifo.

Arguments sq_stamped {A} now s.
Arguments sq_fresh {A} now s.
