(* The Port (Elem/Port.v; any drop policy that needs no random draw, in particular Port's tail drop `port_cfg`) as an
   interface element (Elem/Iface.v).  The adapter's labels are the port's own actions; its executions are exactly the
   executions of port_run whose puts carry no draw, so the theorems of PortProofs.v transfer.  OForward p is the forward,
   ODrop p the counted refusal; OStamp / OSample are not packet events and have no counterpart. *)
From Coq Require Import ZArith QArith List Bool Permutation Lia.
From ONL Require Import Elem.Packet Elem.StoreQ Elem.Port Elem.PortProofs Elem.Iface.
Import ListNotations.

Definition pout_e (o : pout) : list eout :=
  match o with OForward p => [EForward p] | ODrop p => [EDrop p] | _ => [] end.
Definition port_internal (a : paction) : bool := match a with PPut _ _ | PAdvance _ => false | _ => true end.
Definition plift (r : option (port * list pout)) : option (port * list eout) :=
  match r with Some (s', o) => Some (s', flat_map pout_e o) | None => None end.

Definition port_elem (c : pcfg) (t0 : Q) : elem := {|
  st := port;
  lab := paction;
  init := port0 t0;
  now := pnow;
  put := fun p s => plift (port_act c s (PPut p None));
  step := fun a s => if port_internal a then plift (port_act c s a) else None;
  advance := fun t s => match port_act c s (PAdvance t) with Some (s', _) => Some s' | None => None end;
  urgent := purgent;
  deadline := fun s => match psvc s with Some (_, dl) => Some dl | None => None end;
  held := port_held;
  accepts := fun _ => true;
  width := 1
|}.

Definition p_to (a : iact paction) : paction := match a with IPut p => PPut p None | IStep l => l | IAdv t => PAdvance t end.
Definition p_of (a : paction) : iact paction := match a with PPut p _ => IPut p | PAdvance t => IAdv t | _ => IStep a end.
Definition p_ev (e : pev) : Q * iact paction * list eout := (fst (fst e), p_of (snd (fst e)), flat_map pout_e (snd e)).
(* the model executions the adapter covers: no put consumes a random draw (Port; REDPort's puts do) *)
Definition no_draw (a : paction) : Prop := match a with PPut _ (Some _) => False | _ => True end.

Lemma port_adv_outs c s t s' o : port_act c s (PAdvance t) = Some (s', o) -> o = [].
Proof. intros H. apply port_act_step in H. inversion H; reflexivity. Qed.

Lemma port_elem_act_of c t0 s a : no_draw a -> act (port_elem c t0) s (p_of a) = plift (port_act c s a).
Proof.
  destruct a as [p [u|]| | | | |t|incl]; cbn [no_draw]; intros N; try reflexivity; [contradiction|].
  cbn [p_of act port_elem advance plift].
  destruct (port_act c s (PAdvance t)) as [[s' o]|] eqn:E; [|reflexivity].
  rewrite (port_adv_outs _ _ _ _ _ E). reflexivity.
Qed.

Lemma port_elem_act_to c t0 s a s' o :
  act (port_elem c t0) s a = Some (s', o) ->
  p_of (p_to a) = a /\ no_draw (p_to a) /\ plift (port_act c s (p_to a)) = Some (s', o).
Proof.
  destruct a as [p|l|t]; cbn [act port_elem put step advance p_to].
  - intros H. repeat split; auto.
  - destruct (port_internal l) eqn:El; [|discriminate]. intros H. repeat split; auto; destruct l; try reflexivity; discriminate.
  - destruct (port_act c s (PAdvance t)) as [[s1 o1]|] eqn:E; [|discriminate].
    intros H. injection H as <- <-. repeat split; auto. cbn [plift]. rewrite (port_adv_outs _ _ _ _ _ E). reflexivity.
Qed.

(* every execution of the model without draws is an execution of the adapter ... *)
Theorem port_run_elem c t0 : forall acts s s' tr,
  Forall no_draw acts -> port_run c s acts = Some (s', tr) -> run (port_elem c t0) s (map p_of acts) = Some (s', map p_ev tr).
Proof.
  induction acts as [|a acts IH]; intros s s' tr N H; cbn [port_run] in H.
  - injection H as <- <-. reflexivity.
  - inversion N as [|? ? Na Nr]; subst.
    destruct (port_act c s a) as [[s1 o]|] eqn:Ea; [|discriminate].
    destruct (port_run c s1 acts) as [[s2 tr1]|] eqn:Er; [|discriminate]. injection H as <- <-.
    cbn [map run]. rewrite (port_elem_act_of _ _ _ _ Na), Ea. cbn [plift]. rewrite (IH _ _ _ Nr Er). reflexivity.
Qed.

(* ... and conversely: the adapter has no other executions *)
Theorem port_elem_run c t0 : forall acts s s' tr,
  run (port_elem c t0) s acts = Some (s', tr) ->
  exists tr0, port_run c s (map p_to acts) = Some (s', tr0) /\ tr = map p_ev tr0 /\
              map p_of (map p_to acts) = acts /\ Forall no_draw (map p_to acts).
Proof.
  induction acts as [|a acts IH]; intros s s' tr H; cbn [run] in H.
  - injection H as <- <-. exists []. repeat split; try reflexivity. constructor.
  - destruct (act (port_elem c t0) s a) as [[s1 o]|] eqn:Ea; [|discriminate].
    destruct (run (port_elem c t0) s1 acts) as [[s2 tr1]|] eqn:Er; [|discriminate]. injection H as <- <-.
    destruct (port_elem_act_to _ _ _ _ _ _ Ea) as (Hn & Hd & Hl). destruct (IH _ _ _ Er) as (tr0 & R0 & -> & Hm & Hf).
    unfold plift in Hl. destruct (port_act c s (p_to a)) as [[s1' o']|] eqn:E0; [|discriminate]. injection Hl as -> <-.
    exists ((pnow s1, p_to a, o') :: tr0). cbn [map port_run]. rewrite E0, R0. repeat split.
    + unfold p_ev at 2. cbn [fst snd]. rewrite Hn. reflexivity.
    + rewrite Hn, Hm. reflexivity.
    + constructor; assumption.
Qed.

(* what the interface trace functions are on a model trace *)
Lemma port_puts tr : Iface.puts (map p_ev tr) = PortProofs.puts tr.
Proof.
  induction tr as [|[[t a] o] tr IH]; [reflexivity|]. cbn [map]. unfold p_ev at 1. cbn [fst snd]. rewrite puts_cons, IH.
  unfold PortProofs.puts. cbn [flat_map]. destruct a; reflexivity.
Qed.
Lemma port_o_fwds o : o_fwds (flat_map pout_e o) = flat_map out_forward o.
Proof. induction o as [|x o IH]; [reflexivity|]. cbn [flat_map]. rewrite o_fwds_app, IH. destruct x; reflexivity. Qed.
Lemma port_o_drops o : o_drops (flat_map pout_e o) = flat_map out_drop o.
Proof. induction o as [|x o IH]; [reflexivity|]. cbn [flat_map]. rewrite o_drops_app, IH. destruct x; reflexivity. Qed.
Lemma port_fwds tr : fwds (map p_ev tr) = forwarded tr.
Proof.
  induction tr as [|[[t a] o] tr IH]; [reflexivity|]. cbn [map]. unfold p_ev at 1. cbn [fst snd]. rewrite fwds_cons, IH.
  unfold forwarded, departures. cbn [flat_map ev_departures]. rewrite map_app, map_map. cbn [snd]. rewrite map_id.
  rewrite port_o_fwds. reflexivity.
Qed.
Lemma port_drops tr : drops (map p_ev tr) = dropped tr.
Proof.
  induction tr as [|[[t a] o] tr IH]; [reflexivity|]. cbn [map]. unfold p_ev at 1. cbn [fst snd]. rewrite drops_cons, IH.
  unfold dropped. cbn [flat_map ev_dropped]. rewrite port_o_drops. reflexivity.
Qed.

Lemma psubseq_sublist {X} (a b : list X) : PortProofs.subseq a b -> sublist a b.
Proof. induction 1; constructor; auto. Qed.

(* ---- the laws ---------------------------------------------------------------------------------------------- *)
Theorem port_elem_conserves c t0 : conserves (port_elem c t0).
Proof.
  intros acts s tr H. destruct (port_elem_run _ _ _ _ _ _ H) as (tr0 & R0 & -> & _).
  rewrite port_puts, port_fwds, port_drops. exact (proj1 (port_conserves _ _ _ _ _ R0)).
Qed.

Theorem port_elem_flow_fifo c t0 f : flow_fifo (port_elem c t0) f.
Proof.
  intros acts s tr H. destruct (port_elem_run _ _ _ _ _ _ H) as (tr0 & R0 & -> & _).
  rewrite port_puts, port_fwds. apply psubseq_sublist. exact (proj1 (port_flow_fifo _ _ _ _ _ (on_flow f) R0)).
Qed.

Theorem port_elem_drained c t0 : drained (port_elem c t0).
Proof.
  intros acts s tr H _ U Dl. destruct (port_elem_run _ _ _ _ _ _ H) as (tr0 & R0 & _ & _).
  cbn [urgent deadline port_elem] in U, Dl.
  assert (Hh : psvc s = None) by (destruct (psvc s) as [[p dl]|]; [discriminate|reflexivity]).
  exact (port_drained _ _ _ _ _ R0 U Hh).
Qed.

Theorem port_elem_laws c t0 : laws (port_elem c t0).
Proof. split; [apply port_elem_conserves|intros f; apply port_elem_flow_fifo|apply port_elem_drained]. Qed.

Lemma pstep_now c s a s' o : pstep c s a s' o -> (forall t, a <> PAdvance t) -> pnow s' = pnow s.
Proof.
  intros H Nt. inversion H; subst; try reflexivity.
  - unfold leave_now. destruct (c_fix_rate0 c); reflexivity.
  - exfalso. eapply Nt. reflexivity.
Qed.

Theorem port_elem_timed c t0 : timed (port_elem c t0).
Proof.
  repeat split.
  - intros p s s' o H. cbn [put port_elem] in H. unfold plift in H.
    destruct (port_act c s (PPut p None)) as [[w' o']|] eqn:E; [|discriminate]. injection H as <- _.
    apply (pstep_now _ _ _ _ _ (port_act_step _ _ _ _ _ E)). discriminate.
  - intros l s s' o H. cbn [step port_elem] in H. destruct (port_internal l) eqn:El; [|discriminate]. unfold plift in H.
    destruct (port_act c s l) as [[w' o']|] eqn:E; [|discriminate]. injection H as <- _.
    apply (pstep_now _ _ _ _ _ (port_act_step _ _ _ _ _ E)). intros t ->. discriminate.
  - cbn [advance port_elem] in H. destruct (port_act c s (PAdvance t)) as [[s1 o1]|] eqn:E; [|discriminate]. injection H as <-.
    apply port_act_step in E. inversion E; subst. reflexivity.
  - cbn [advance port_elem] in H. destruct (port_act c s (PAdvance t)) as [[s1 o1]|] eqn:E; [|discriminate].
    apply port_act_step in E. inversion E; subst. assumption.
  - cbn [advance port_elem] in H. destruct (port_act c s (PAdvance t)) as [[s1 o1]|] eqn:E; [|discriminate].
    apply port_act_step in E. inversion E; subst. assumption.
  - cbn [advance port_elem] in H. destruct (port_act c s (PAdvance t)) as [[s1 o1]|] eqn:E; [|discriminate].
    apply port_act_step in E. inversion E; subst. cbn [deadline port_elem]. intros d Hd.
    destruct (psvc s) as [[p dl]|] eqn:V; [|discriminate]. injection Hd as <-. eauto.
Qed.
