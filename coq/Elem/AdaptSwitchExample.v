(* Concrete executions of the switch models, OBSERVED on the real onl.netdev.switch classes (props/part_route.py prints them):
   non-vacuity of Elem/ComposeSwitch.v / AdaptSwitch.v. *)
From Coq Require Import ZArith QArith List Bool.
From ONL Require Import Elem.Packet Elem.StoreQ Elem.HeapList Elem.WFQServer Elem.WFQ Elem.VC Elem.DRR Elem.SchedBase Elem.SP Elem.Port
  Route.Demux Elem.Iface Elem.Compose Elem.ComposePar Elem.ComposeFan Elem.ComposeSwitch Elem.AdaptPort Elem.AdaptSched Elem.AdaptSwitch.
Import ListNotations.
Local Open Scope Z_scope.

Definition ssw_E : elem := (sswitch_elem 2%nat ((1024)%Z # 1) (Some (2)%Z) (fun i : nat => Some (Z.of_nat i + 100)%Z) ((0)%Z # 1)).
Definition ssw_acts : list (iact (lab ssw_E)) :=
  [IStep (inr (inl (PInit)));
   IStep (inr (inr (inl (PInit))));
   IPut (mkp 0%nat (1)%Z (0)%Z (128)%Z ((0)%Z # 1));
   IPut (mkp 1%nat (2)%Z (0)%Z (128)%Z ((0)%Z # 1));
   IPut (mkp 2%nat (3)%Z (1)%Z (128)%Z ((0)%Z # 1));
   IPut (mkp 3%nat (4)%Z (2)%Z (128)%Z ((0)%Z # 1));
   IStep (inr (inl (PStoreCb)));
   IStep (inr (inr (inl (PStoreCb))));
   IStep (inr (inl (PGet)));
   IStep (inr (inr (inl (PGet))));
   IAdv ((1)%Z # 1);
   IStep (inr (inl (PTimer)));
   IStep (inr (inr (inl (PTimer))))].
Definition fsw_E : elem := (fswitch_elem {| fs_nports := 2%nat; fs_fib := Some [((0)%Z, (0)%Z); ((1)%Z, (1)%Z); ((2)%Z, (0)%Z)]; fs_ends := []; fs_class := SchedBase.cls_of [((0)%Z, (10)%Z); ((1)%Z, (11)%Z); ((2)%Z, (10)%Z); ((3)%Z, (11)%Z)] |} (Some (2)%Z) (fun i : nat => Some (Z.of_nat i + 200)%Z) (mq_elem (SP.sp_cfg true ((1024)%Z # 1) (SchedBase.cls_of [((0)%Z, (10)%Z); ((1)%Z, (11)%Z); ((2)%Z, (10)%Z); ((3)%Z, (11)%Z)]) [(0)%Z; (1)%Z; (2)%Z; (3)%Z] [((10)%Z, (1)%Z); ((11)%Z, (2)%Z)])) [] ((0)%Z # 1)).
Definition fsw_acts : list (iact (lab fsw_E)) :=
  [IStep (inr (inl (inl (PInit))));
   IStep (inr (inl (inr (SchedBase.SInit))));
   IStep (inr (inr (inl (inl (PInit)))));
   IStep (inr (inr (inl (inr (SchedBase.SInit)))));
   IPut (mkp 0%nat (1)%Z (0)%Z (128)%Z ((0)%Z # 1));
   IPut (mkp 1%nat (2)%Z (2)%Z (128)%Z ((0)%Z # 1));
   IPut (mkp 2%nat (3)%Z (1)%Z (128)%Z ((0)%Z # 1));
   IPut (mkp 3%nat (4)%Z (3)%Z (128)%Z ((0)%Z # 1));
   IStep (inr (inl (inl (PStoreCb))));
   IStep (inr (inr (inl (inl (PStoreCb)))));
   IStep (inr (inl (inl (PGet))));
   IStep (inr (inr (inl (inl (PGet)))));
   IStep (inr (inl (inr (SchedBase.SStoreCb None))));
   IStep (inr (inl (inr (SchedBase.SStoreCb (Some (10)%Z)))));
   IStep (inr (inr (inl (inr (SchedBase.SStoreCb None)))));
   IStep (inr (inr (inl (inr (SchedBase.SStoreCb (Some (11)%Z))))));
   IStep (inr (inl (inr (SchedBase.SGetDone None))));
   IStep (inr (inr (inl (inr (SchedBase.SGetDone None)))));
   IStep (inr (inl (inr (SchedBase.SGetDone (Some (10)%Z)))));
   IStep (inr (inl (inr (SchedBase.SChildInit))));
   IStep (inr (inr (inl (inr (SchedBase.SGetDone (Some (11)%Z))))));
   IStep (inr (inr (inl (inr (SchedBase.SChildInit)))));
   IAdv ((1)%Z # 2);
   IPut (mkp 4%nat (5)%Z (2)%Z (128)%Z ((0)%Z # 1));
   IStep (inr (inl (inl (PStoreCb))));
   IStep (inr (inl (inl (PGet))));
   IStep (inr (inl (inr (SchedBase.SStoreCb (Some (10)%Z)))));
   IAdv ((1)%Z # 1);
   IStep (inr (inl (inr (SchedBase.SChildTimer))));
   IStep (inr (inr (inl (inr (SchedBase.SChildTimer)))));
   IStep (inr (inl (inr (SchedBase.SChildEnd))));
   IStep (inr (inr (inl (inr (SchedBase.SChildEnd)))));
   IStep (inr (inl (inr (SchedBase.SGetDone (Some (10)%Z)))));
   IStep (inr (inl (inr (SchedBase.SChildInit))));
   IAdv ((2)%Z # 1);
   IStep (inr (inl (inr (SchedBase.SChildTimer))));
   IStep (inr (inl (inr (SchedBase.SChildEnd))))].

Definition uids_of (l : list pkt) : list nat := map uid l.

(* SimplePacketSwitch(2 ports, 1024 bit/s, buffer 2): four packets at t = 0 of flows 0, 0, 1, 2: the second is refused by port 0
   (counted), the fourth has no port (discarded by the demux), the other two leave their ports at t = 1 *)
Example ssw_run :
  exists s tr, Iface.run ssw_E (init ssw_E) ssw_acts = Some (s, tr) /\
    uids_of (puts tr) = [0; 1; 2; 3]%nat /\ uids_of (fwds tr) = [0; 2]%nat /\ uids_of (drops tr) = [1; 3]%nat /\
    uids_of (hands 0 tr) = [0; 1; 2]%nat /\
    map (fun x => (fst x, uid (snd x))) (tfwds tr) = [(1%Q, 0%nat); (1%Q, 2%nat)] /\
    pdrop (fst (snd s)) = 1 /\ pdrop (fst (snd (snd s))) = 0 /\
    held ssw_E s = [] /\ Iface.urgent ssw_E s = false /\ deadline ssw_E s = None.
Proof. eexists. eexists. split; [vm_compute; reflexivity|]. vm_compute. repeat split. Qed.

(* FairPacketSwitch(2 ports, SP, buffer 2, flows 0,2 -> class 10, flows 1,3 -> class 11; fib 0->0, 1->1, 2->0): packets of flows
   0, 2, 1, 3 at t = 0 and of flow 2 at t = 1/2: the second is refused by egress port 0 (counted), the packet of flow 3 has no
   route, the others cross their egress port at once and are served by the port's SP *)
Example fsw_run :
  exists s tr, Iface.run fsw_E (init fsw_E) fsw_acts = Some (s, tr) /\
    uids_of (puts tr) = [0; 1; 2; 3; 4]%nat /\ uids_of (fwds tr) = [0; 2; 4]%nat /\ uids_of (drops tr) = [1; 3]%nat /\
    uids_of (hands 0 tr) = [0; 1; 2; 4]%nat /\ uids_of (hands 1 tr) = [0; 4]%nat /\ uids_of (hands 3 tr) = [2]%nat /\
    map (fun x => (fst x, uid (snd x))) (tfwds tr) = [(1%Q, 0%nat); (1%Q, 2%nat); (2%Q, 4%nat)] /\
    pdrop (fst (fst (snd s))) = 1 /\
    held fsw_E s = [] /\ Iface.urgent fsw_E s = false /\ deadline fsw_E s = None.
Proof. eexists. eexists. split; [vm_compute; reflexivity|]. vm_compute. repeat split. Qed.
