(* The part WFQ (onl/scheduler/wfq.py) and VirtualClock (onl/scheduler/virtual_clock.py) share, as a timed
   automaton with urgent micro-steps (DESIGN.md 2.4):

     - the base class Scheduler (onl/scheduler/base.py): add_packet_to_queue (packets_received, per-FLOW
       queue_count / queue_byte_size), the send_packet child process (current_packet := p; timeout
       8*size/rate; decrement the counters; out.put(p); current_packet := None),
     - the kernel PriorityStore with PriorityItem((stamp, now, arrivals), packet) items (repaired code:
       the arrival counter is the last key component), modelled as a list in arrival order from which
       "pop" takes the least key (Elem/HeapList.v; HeapProofs.heap_sim_pop: CPython's heapq returns exactly
       that item because the keys held at one time are pairwise distinct),
     - the run() loop:  item = yield store.get(); yield env.process(send_packet(item.item)); <after>.

   What differs between the two schedulers -- how put() computes the stamp and what run() does after a
   transmission -- is a [stamper] (WFQ.v, VC.v).

   Actions (one per put() call / kernel step of the element, as logged by props/elem_common.Harness):
     FPut p        put(p) called by the upstream element
     FInit         Initialize of run(): the server reaches its first store.get()
     FStoreCb      a StorePut event of the store is processed (_trigger_get serves a waiting get)
     FGetDone      the granted StoreGet is processed: run() resumes with the item and creates the child
     FChildInit    Initialize of send_packet: current_packet := p, the transmission timeout is scheduled
     FChildTimer   the timeout is processed: counters decremented, packet forwarded, current_packet := None
     FChildEnd     the child's Process event is processed: run() resumes, does its after-transmission
                   bookkeeping and calls store.get() again
     FAdvance t    the clock moves to t (only when nothing of the element is due now, never past the deadline)

   [act] returns [Raises] where the Python code would raise (KeyError for an unconfigured class,
   ZeroDivisionError in update_vtime, KeyError in active_set.remove): the theorems show it is not reached.
   Executable; no proofs here. *)
From Coq Require Import ZArith QArith Qminmax Qabs List Bool.
From ONL Require Import Elem.Packet Elem.StoreQ Elem.HeapList.
Import ListNotations.

(* ---- the PriorityStore discipline ------------------------------------------------------------------ *)
Record item := { istamp : Q; iseq : nat; ipkt : pkt }.
Definition entry := (Q * item)%type.                 (* (instant of the put, item) as StoreQ keeps it *)

Definition Qltb (a b : Q) : bool := negb (Qle_bool b a).

(* Python's tuple comparison (stamp, now, arrivals) < (stamp', now', arrivals'): the first component that
   differs decides *)
Definition key_ltb (a b : Q * Q * nat) : bool :=
  match a, b with
  | (s1, t1, n1), (s2, t2, n2) =>
      if Qeq_bool s1 s2 then (if Qeq_bool t1 t2 then Nat.ltb n1 n2 else Qltb t1 t2) else Qltb s1 s2
  end.

Definition ekey (e : entry) : Q * Q * nat := (istamp (snd e), fst e, iseq (snd e)).
Definition entry_ltb (a b : entry) : bool := key_ltb (ekey a) (ekey b).

Definition pq_push : entry -> list entry -> list entry := @lpush entry.
Definition pq_pop : list entry -> option (entry * list entry) := lpop entry_ltb.

(* ---- what differs between WFQ and VC ---------------------------------------------------------------- *)
Record stamper := {
  ST : Type;
  st_put : Q -> ST -> pkt -> option (ST * Q);     (* now, state, packet -> new state and stamp; None = raises *)
  st_done : Q -> ST -> pkt -> option ST           (* run() after the transmission of the packet; None = raises *)
}.

(* the send_packet child; run() keeps the PriorityItem it took in its local variable `item` for the whole
   transmission, so the model keeps the whole entry (its packet is what send_packet works on) *)
Inductive child := CNone | CInit (e : entry) | CTx (e : entry) (dl : Q) | CEnded (e : entry).
Definition epkt (e : entry) : pkt := ipkt (snd e).

Inductive faction :=
| FPut (p : pkt) | FInit | FStoreCb | FGetDone | FChildInit | FChildTimer | FChildEnd | FAdvance (t : Q).

Inductive fout := OForward (p : pkt).

Inductive res (X : Type) := Ok (x : X) | Disabled | Raises.
Arguments Ok {X} x.
Arguments Disabled {X}.
Arguments Raises {X}.

Definition fupd (f : Z -> Z) (k v : Z) : Z -> Z := fun x => if Z.eqb x k then v else f x.

Section Server.
  Variable S : stamper.
  Variable rate : Q.

  Record srv := {
    now : Q;
    started : bool;                   (* Initialize of run() processed *)
    store : sq item;                  (* the PriorityStore *)
    stm : ST S;                       (* the stamping discipline's own fields *)
    seq : nat;                        (* self.arrivals *)
    qcount : Z -> Z;                  (* queue_count[flow] *)
    qbytes : Z -> Z;                  (* queue_byte_size[flow] *)
    nrecv : Z;                        (* packets_received *)
    chl : child                       (* the send_packet child of run() *)
  }.

  Definition srv0 (t0 : Q) (st0 : ST S) : srv :=
    {| now := t0; started := false; store := sq0; stm := st0; seq := 0; qcount := fun _ => 0%Z;
       qbytes := fun _ => 0%Z; nrecv := 0%Z; chl := CNone |}.

  Definition tx_time (p : pkt) : Q := (8 * inject_Z (psize p)) / rate.

  Definition timer_due (s : srv) : bool :=
    match chl s with CTx _ dl => Qeq_bool dl (now s) | _ => false end.

  Definition child_urgent (s : srv) : bool :=
    match chl s with CInit _ | CEnded _ => true | _ => false end.

  Definition urgent (s : srv) : bool :=
    negb (started s) || sq_urgent (store s) || child_urgent s || timer_due s.

  Definition current_packet (s : srv) : option pkt :=
    match chl s with CTx e _ => Some (epkt e) | _ => None end.

  Definition with_store (s : srv) (q : sq item) : srv :=
    {| now := now s; started := started s; store := q; stm := stm s; seq := seq s; qcount := qcount s;
       qbytes := qbytes s; nrecv := nrecv s; chl := chl s |}.

  Definition with_child (s : srv) (c : child) : srv :=
    {| now := now s; started := started s; store := store s; stm := stm s; seq := seq s; qcount := qcount s;
       qbytes := qbytes s; nrecv := nrecv s; chl := c |}.

  Definition act (s : srv) (a : faction) : res (srv * list fout) :=
    match a with
    | FPut p =>
        match st_put S (now s) (stm s) p with
        | None => Raises
        | Some (st', F) =>
            let it := {| istamp := Qred F; iseq := Datatypes.S (seq s); ipkt := p |} in
            Ok ({| now := now s; started := started s; store := sq_put pq_push (now s) it (store s);
                   stm := st'; seq := Datatypes.S (seq s);
                   qcount := fupd (qcount s) (flow p) (qcount s (flow p) + 1)%Z;
                   qbytes := fupd (qbytes s) (flow p) (qbytes s (flow p) + psize p)%Z;
                   nrecv := (nrecv s + 1)%Z; chl := chl s |}, [])
        end
    | FInit =>
        if started s then Disabled
        else match sq_get pq_pop (store s) with
             | Some q => Ok ({| now := now s; started := true; store := q; stm := stm s; seq := seq s;
                                qcount := qcount s; qbytes := qbytes s; nrecv := nrecv s; chl := chl s |}, [])
             | None => Disabled
             end
    | FStoreCb =>
        match sq_cb pq_pop (store s) with
        | Some q => Ok (with_store s q, [])
        | None => Disabled
        end
    | FGetDone =>
        match chl s, sq_take (store s) with
        | CNone, Some (e, q) =>
            if started s then Ok (with_child (with_store s q) (CInit e), []) else Disabled
        | _, _ => Disabled
        end
    | FChildInit =>
        match chl s with
        | CInit e => Ok (with_child s (CTx e (Qred (now s + tx_time (epkt e)))), [])
        | _ => Disabled
        end
    | FChildTimer =>
        match chl s with
        | CTx e dl =>
            let p := epkt e in
            if Qeq_bool dl (now s) then
              Ok ({| now := now s; started := started s; store := store s; stm := stm s; seq := seq s;
                     qcount := fupd (qcount s) (flow p) (qcount s (flow p) - 1)%Z;
                     qbytes := fupd (qbytes s) (flow p) (qbytes s (flow p) - psize p)%Z;
                     nrecv := nrecv s; chl := CEnded e |}, [OForward p])
            else Disabled
        | _ => Disabled
        end
    | FChildEnd =>
        match chl s with
        | CEnded e =>
            match st_done S (now s) (stm s) (epkt e) with
            | None => Raises
            | Some st' =>
                match sq_get pq_pop (store s) with
                | Some q => Ok ({| now := now s; started := started s; store := q; stm := st'; seq := seq s;
                                   qcount := qcount s; qbytes := qbytes s; nrecv := nrecv s; chl := CNone |}, [])
                | None => Disabled
                end
            end
        | _ => Disabled
        end
    | FAdvance t =>
        if urgent s then Disabled
        else if Qlt_le_dec (now s) t then
          let s' := {| now := t; started := started s; store := store s; stm := stm s; seq := seq s;
                       qcount := qcount s; qbytes := qbytes s; nrecv := nrecv s; chl := chl s |} in
          match chl s with
          | CTx _ dl => if Qle_bool t dl then Ok (s', []) else Disabled
          | _ => Ok (s', [])
          end
        else Disabled
    end.

  (* an execution: every action must be enabled and must not raise; the trace keeps, per action, what it
     emitted and the state it led to *)
  Definition tev := (faction * list fout * srv)%type.

  Fixpoint run (s : srv) (acts : list faction) : option (srv * list tev) :=
    match acts with
    | [] => Some (s, [])
    | a :: rest =>
        match act s a with
        | Ok (s', outs) =>
            match run s' rest with
            | Some (s'', tr) => Some (s'', (a, outs, s') :: tr)
            | None => None
            end
        | _ => None
        end
    end.

  (* ---- comparison with an observed execution (correspondence) ---------------------------------------- *)
  (* per action: outputs seen, and after it: uid of current_packet (-1 = None), len(store.items),
     packets_received, [(flow, queue_count, queue_byte_size)], and the discipline's own observation X *)
  Definition sobs := (Z * nat * Z * list (Z * Z * Z))%type.

  Definition cur_uid (s : srv) : Z :=
    match current_packet s with Some p => Z.of_nat (uid p) | None => (-1)%Z end.

  Fixpoint flows_ok (s : srv) (l : list (Z * Z * Z)) : bool :=
    match l with
    | [] => true
    | (f, c, b) :: t => Z.eqb (qcount s f) c && Z.eqb (qbytes s f) b && flows_ok s t
    end.

  Definition sobs_ok (s : srv) (o : sobs) : bool :=
    match o with
    | (cu, n, r, fl) =>
        Z.eqb (cur_uid s) cu && Nat.eqb (length (items (store s))) n && Z.eqb (nrecv s) r && flows_ok s fl
    end.

  Fixpoint outs_eqb (a : list fout) (b : list pkt) : bool :=
    match a, b with
    | [], [] => true
    | OForward p :: s, q :: t => pkt_eqb p q && outs_eqb s t
    | _, _ => false
    end.

  Section Agree.
    Variable X : Type.
    Variable xok : ST S -> X -> bool.
    Fixpoint agree (s : srv) (obs : list (faction * list pkt * sobs * X)) : bool :=
      match obs with
      | [] => true
      | (a, outs, o, x) :: rest =>
          match act s a with
          | Ok (s', outs') => outs_eqb outs' outs && sobs_ok s' o && xok (stm s') x && agree s' rest
          | _ => false
          end
      end.

    (* index of the first observed action the model does not accept or on which it differs (diagnosis) *)
    Fixpoint first_bad (s : srv) (obs : list (faction * list pkt * sobs * X)) (i : nat) : option nat :=
      match obs with
      | [] => None
      | (a, outs, o, x) :: rest =>
          match act s a with
          | Ok (s', outs') =>
              if outs_eqb outs' outs && sobs_ok s' o && xok (stm s') x then first_bad s' rest (Datatypes.S i) else Some i
          | _ => Some i
          end
      end.
  End Agree.
End Server.

Arguments now {S} s.
Arguments started {S} s.
Arguments store {S} s.
Arguments stm {S} s.
Arguments seq {S} s.
Arguments qcount {S} s.
Arguments qbytes {S} s.
Arguments nrecv {S} s.
Arguments chl {S} s.
Arguments srv0 {S} t0 st0.
Arguments urgent {S} s.
Arguments current_packet {S} s.
Arguments agree {S} rate {X} xok s obs.
Arguments first_bad {S} rate {X} xok s obs i.

(* comparison of rationals the implementation computed in floats: exact when tol = 0 *)
Definition Qclose (tol a b : Q) : bool := Qle_bool (Qabs (a - b)) (tol * (1 + Qabs b)).
