(* REPLICATING elements: onl/netdev/splitter.py (Splitter, NSplitter) and onl/netdev/hub.py (Hub).
   A splitter legitimately duplicates, so "puts = forwards ++ drops ++ held" is not its law; its law is
   "EVERY output receives EVERY packet (the hub: every packet that did not come from that endpoint) exactly once, in order".

     fork wa wb A B      two elements side by side; a packet p put into it is put into A when wa p and (then) into B when wb p
                         (par sel A B of ComposePar.v is the case wb = negb wa; a two-way splitter is wa = wb = true)
     mcast t0 want Es    n elements; branch i is given p iff want i p.  NSplitter: want = true.  Hub: want i p = the endpoint of
                         branch i is not the packet's source.
   [mcast_projection]: inside ANY execution of the composite every branch runs as it would alone and was given exactly the
   packets it is meant to get, in order -- hence, when the branch conserves packets, each of them is forwarded, discarded by the
   branch's own rule, or held there, exactly once PER BRANCH. *)
From Coq Require Import ZArith QArith List Bool Permutation Lia Arith.
From ONL Require Import Elem.Packet Elem.Iface Elem.Compose Elem.ComposePar Elem.ComposeSwitch.
Import ListNotations.
Local Open Scope Q_scope.

Lemma interleave_pre {X} (x y a b c : list X) : interleave a b c -> interleave (x ++ a) (y ++ b) (x ++ y ++ c).
Proof. intros H. induction x as [|x0 x IHx]; cbn; [induction y as [|y0 y IHy]; cbn; [exact H|constructor; exact IHy]|constructor; exact IHx]. Qed.

Section Fork.
  Variables wa wb : pkt -> bool.
  Variables A B : elem.

  Definition fork_put (p : pkt) (s : st A * st B) : option ((st A * st B) * list eout) :=
    match (if wa p then put A p (fst s) else Some (fst s, [])) with
    | None => None
    | Some (a', oA) =>
        match (if wb p then put B p (snd s) else Some (snd s, [])) with
        | None => None
        | Some (b', oB) => Some ((a', b'), oA ++ map (shift A) oB)
        end
    end.

  Definition fork : elem := {|
    st := (st A * st B)%type;
    lab := (lab A + lab B)%type;
    init := (init A, init B);
    now := fun s => now A (fst s);
    put := fork_put;
    step := fun l s => match l with inl x => onA A B s (step A x (fst s)) | inr y => onB A B s (step B y (snd s)) end;
    advance := fun t s =>
      match advance A t (fst s), advance B t (snd s) with
      | Some a', Some b' => Some (a', b')
      | _, _ => None
      end;
    urgent := fun s => urgent A (fst s) || urgent B (snd s);
    deadline := fun s => omin (deadline A (fst s)) (deadline B (snd s));
    held := fun s => held A (fst s) ++ held B (snd s);
    accepts := fun p => (if wa p then accepts A p else true) && (if wb p then accepts B p else true);
    width := width A + width B
  |}.

  Definition factA (a : iact (lab fork)) : list (iact (lab A)) :=
    match a with
    | IPut p => if wa p then [IPut p] else []
    | IStep (inl x) => [IStep x]
    | IStep (inr _) => []
    | IAdv t => [IAdv t]
    end.
  Definition factB (a : iact (lab fork)) : list (iact (lab B)) :=
    match a with
    | IPut p => if wb p then [IPut p] else []
    | IStep (inl _) => []
    | IStep (inr y) => [IStep y]
    | IAdv t => [IAdv t]
    end.
  Definition factsA (acts : list (iact (lab fork))) := flat_map factA acts.
  Definition factsB (acts : list (iact (lab fork))) := flat_map factB acts.

  (* PROJECTION: each side of ANY execution of the fork is an admissible execution of that element alone, given exactly the
     packets it is meant to get, in order; the composite's forwards / drops are interleavings of the two sides' *)
  Theorem fork_projection : forall acts sA sB sA' sB' tr,
    run fork (sA, sB) acts = Some ((sA', sB'), tr) ->
    exists trA trB,
      run A sA (factsA acts) = Some (sA', trA) /\ run B sB (factsB acts) = Some (sB', trB) /\
      puts trA = filter wa (puts tr) /\ puts trB = filter wb (puts tr) /\
      interleave (fwds trA) (fwds trB) (fwds tr) /\ interleave (drops trA) (drops trB) (drops tr).
  Proof.
    induction acts as [|a acts IH]; intros sA sB sA' sB' tr H.
    - cbn in H. injection H as <- <- <-. exists [], []. cbn. repeat split; constructor.
    - cbn [run] in H.
      destruct (act fork (sA, sB) a) as [[[sA1 sB1] o]|] eqn:Ea; [|discriminate].
      destruct (run fork (sA1, sB1) acts) as [[[sA2 sB2] tr1]|] eqn:Er; [|discriminate].
      injection H as <- <- <-.
      destruct (IH _ _ _ _ _ Er) as (trA1 & trB1 & RA & RB & P1 & P2 & I2 & I3).
      unfold factsA, factsB. cbn [flat_map]. fold (factsA acts) (factsB acts).
      destruct a as [p|[x|y]|t].
      + cbn [act fork put] in Ea. unfold fork_put in Ea. cbn [fst snd] in Ea. cbn [factA factB].
        destruct (wa p) eqn:Wa; destruct (wb p) eqn:Wb.
        * destruct (put A p sA) as [[a1 oA]|] eqn:EA; [|discriminate]. destruct (put B p sB) as [[b1 oB]|] eqn:EB; [|discriminate].
          injection Ea as E1 E2 E3. subst a1 b1 o.
          exists ((now A sA1, IPut p, oA) :: trA1), ((now B sB1, IPut p, oB) :: trB1).
          cbn [app run act]. rewrite EA, EB, RA, RB.
          rewrite !puts_cons, !fwds_cons, !drops_cons, o_fwds_app, o_drops_app, (o_fwds_shift A), (o_drops_shift A), P1, P2.
          cbn [a_puts app filter]. rewrite Wa, Wb. repeat split.
          -- rewrite <- app_assoc. apply interleave_pre. exact I2.
          -- rewrite <- app_assoc. apply interleave_pre. exact I3.
        * destruct (put A p sA) as [[a1 oA]|] eqn:EA; [|discriminate]. injection Ea as E1 E2 E3. subst a1 sB1 o.
          exists ((now A sA1, IPut p, oA) :: trA1), trB1.
          cbn [app run act]. rewrite EA, RA, RB.
          rewrite !puts_cons, !fwds_cons, !drops_cons, o_fwds_app, o_drops_app, P1, P2. cbn [a_puts app filter map o_fwds o_drops flat_map].
          rewrite Wa, Wb, !app_nil_r. repeat split.
          -- change (fwds trB1) with ([] ++ fwds trB1). apply interleave_app; [apply interleave_left|exact I2].
          -- change (drops trB1) with ([] ++ drops trB1). apply interleave_app; [apply interleave_left|exact I3].
        * destruct (put B p sB) as [[b1 oB]|] eqn:EB; [|discriminate]. injection Ea as E1 E2 E3. subst sA1 b1 o.
          exists trA1, ((now B sB1, IPut p, oB) :: trB1).
          cbn [app run act]. rewrite EB, RA, RB.
          rewrite !puts_cons, !fwds_cons, !drops_cons, (o_fwds_shift A), (o_drops_shift A), P1, P2. cbn [a_puts app filter].
          rewrite Wa, Wb. repeat split.
          -- change (fwds trA1) with ([] ++ fwds trA1). apply interleave_app; [apply interleave_right|exact I2].
          -- change (drops trA1) with ([] ++ drops trA1). apply interleave_app; [apply interleave_right|exact I3].
        * injection Ea as E1 E2 E3. subst sA1 sB1 o. exists trA1, trB1. cbn [app]. rewrite RA, RB.
          rewrite !puts_cons, !fwds_cons, !drops_cons, P1, P2. cbn [a_puts app filter o_fwds o_drops flat_map]. rewrite Wa, Wb. repeat split; auto.
      + cbn [act fork step] in Ea. unfold onA in Ea. cbn [fst snd] in Ea. destruct (step A x sA) as [[a1 oA]|] eqn:EA; [|discriminate].
        injection Ea as E1 E2 E3. subst a1 sB1 o. cbn [factA factB].
        exists ((now A sA1, IStep x, oA) :: trA1), trB1. cbn [app run act]. rewrite EA, RA, RB.
        rewrite !puts_cons, !fwds_cons, !drops_cons, P1, P2. cbn [a_puts app]. repeat split.
        * change (fwds trB1) with ([] ++ fwds trB1). apply interleave_app; [apply interleave_left|exact I2].
        * change (drops trB1) with ([] ++ drops trB1). apply interleave_app; [apply interleave_left|exact I3].
      + cbn [act fork step] in Ea. unfold onB in Ea. cbn [fst snd] in Ea. destruct (step B y sB) as [[b1 oB]|] eqn:EB; [|discriminate].
        injection Ea as E1 E2 E3. subst sA1 b1 o. cbn [factA factB].
        exists trA1, ((now B sB1, IStep y, oB) :: trB1). cbn [app run act]. rewrite EB, RA, RB.
        rewrite !puts_cons, !fwds_cons, !drops_cons, (o_fwds_shift A), (o_drops_shift A), P1, P2. cbn [a_puts app]. repeat split.
        * change (fwds trA1) with ([] ++ fwds trA1). apply interleave_app; [apply interleave_right|exact I2].
        * change (drops trA1) with ([] ++ drops trA1). apply interleave_app; [apply interleave_right|exact I3].
      + cbn [act fork advance fst snd] in Ea.
        destruct (advance A t sA) as [a1|] eqn:EA; [|discriminate]. destruct (advance B t sB) as [b1|] eqn:EB; [|discriminate].
        injection Ea as E1 E2 E3. subst a1 b1 o. cbn [factA factB].
        exists ((now A sA1, IAdv t, []) :: trA1), ((now B sB1, IAdv t, []) :: trB1). cbn [app run act]. rewrite EA, EB, RA, RB.
        rewrite !puts_cons, !fwds_cons, !drops_cons, P1, P2. cbn [a_puts o_fwds o_drops flat_map app]. repeat split; auto.
  Qed.
End Fork.

(* the absorbing terminator of a multicast: accepts every packet and does nothing (no law is claimed about it) *)
Definition null_elem (t0 : Q) : elem := {|
  st := Q; lab := Empty_set; init := t0; now := fun s => s;
  put := fun _ s => Some (s, []);
  step := fun l _ => match l with end;
  advance := fun t s => if Qlt_le_dec s t then Some t else None;
  urgent := fun _ => false; deadline := fun _ => None; held := fun _ => []; accepts := fun _ => true; width := 1
|}.

Fixpoint mcast (t0 : Q) (want : nat -> pkt -> bool) (Es : list elem) : elem :=
  match Es with
  | [] => null_elem t0
  | E :: r => fork (want O) (fun _ => true) E (mcast t0 (fun i => want (S i)) r)
  end.

Inductive mcast_has (t0 : Q) : forall (Es : list elem) (want : nat -> pkt -> bool), st (mcast t0 want Es) -> nat -> forall E : elem, st E -> Prop :=
| mh_here E r want (s : st (mcast t0 want (E :: r))) : mcast_has t0 (E :: r) want s 0 E (fst s)
| mh_there E r want (s : st (mcast t0 want (E :: r))) i F sF :
    mcast_has t0 r (fun i => want (S i)) (snd s) i F sF -> mcast_has t0 (E :: r) want s (S i) F sF.

Lemma mcast_has_total t0 : forall Es want s i E, nth_error Es i = Some E -> exists sE, mcast_has t0 Es want s i E sE.
Proof.
  induction Es as [|E0 r IH]; intros want s i E H; [destruct i; discriminate|].
  destruct i as [|i]; cbn [nth_error] in H.
  - injection H as <-. exists (fst s). constructor.
  - destruct (IH (fun i => want (S i)) (snd s) i E H) as [sE HsE]. exists sE. constructor. exact HsE.
Qed.

Lemma filter_true {X} (l : list X) : filter (fun _ => true) l = l.
Proof. induction l; cbn; congruence. Qed.

(* PROJECTION onto output i of a splitter / hub: inside ANY execution, the device behind output i runs as it would alone and
   was given EXACTLY the packets meant for it (NSplitter: every packet; Hub: every packet not coming from endpoint i), each once,
   in the order in which they were put in; what it delivers is among the composite's deliveries *)
Theorem mcast_projection t0 : forall Es want s i E sE, mcast_has t0 Es want s i E sE -> forall acts tr,
  run (mcast t0 want Es) (init (mcast t0 want Es)) acts = Some (s, tr) ->
  exists acts_i tr_i, run E (init E) acts_i = Some (sE, tr_i) /\
    puts tr_i = filter (want i) (puts tr) /\ sublist (fwds tr_i) (fwds tr) /\ sublist (drops tr_i) (drops tr).
Proof.
  intros Es want s i E sE Hh. induction Hh as [E r want s|E r want s i F sF Hh IH]; intros acts tr H; cbn [mcast] in H.
  - destruct s as [sA sB]. destruct (fork_projection _ _ _ _ _ _ _ _ _ _ H) as (trA & trB & RA & _ & P1 & _ & I2 & I3).
    exists (factsA (want O) (fun _ => true) E (mcast t0 (fun i => want (S i)) r) acts), trA.
    split; [exact RA|]. split; [exact P1|]. split; eapply interleave_sub_l; eauto.
  - destruct s as [sA sB]. destruct (fork_projection _ _ _ _ _ _ _ _ _ _ H) as (trA & trB & _ & RB & _ & P2 & I2 & I3).
    cbn [snd] in IH. destruct (IH _ _ RB) as (acts_i & tr_i & R & P & Fw & Dr).
    exists acts_i, tr_i. split; [exact R|]. split; [|split; (eapply sublist_trans; [eassumption|eapply interleave_sub_r; eauto])].
    rewrite P, P2, filter_true. reflexivity.
Qed.

(* replicating conservation: per output, every packet meant for it is forwarded by the device behind it, discarded by that device's
   own documented rule, or still held there -- exactly once *)
Theorem mcast_conserves_per_output t0 : forall Es want s i E sE, mcast_has t0 Es want s i E sE -> conserves E -> forall acts tr,
  run (mcast t0 want Es) (init (mcast t0 want Es)) acts = Some (s, tr) ->
  exists acts_i tr_i, run E (init E) acts_i = Some (sE, tr_i) /\ puts tr_i = filter (want i) (puts tr) /\
    Permutation (filter (want i) (puts tr)) (fwds tr_i ++ drops tr_i ++ held E sE) /\ sublist (fwds tr_i) (fwds tr).
Proof.
  intros Es want s i E sE Hh CE acts tr H. destruct (mcast_projection t0 _ _ _ _ _ _ Hh _ _ H) as (acts_i & tr_i & R & P & Fw & _).
  exists acts_i, tr_i. repeat split; auto. rewrite <- P. exact (CE _ _ _ R).
Qed.

(* the clock and the stage numbering compose as for par *)
Theorem mcast_exists_branch t0 Es want : forall acts s tr,
  run (mcast t0 want Es) (init (mcast t0 want Es)) acts = Some (s, tr) ->
  forall i E, nth_error Es i = Some E -> conserves E ->
  exists sE acts_i tr_i, mcast_has t0 Es want s i E sE /\ run E (init E) acts_i = Some (sE, tr_i) /\
    puts tr_i = filter (want i) (puts tr) /\
    Permutation (filter (want i) (puts tr)) (fwds tr_i ++ drops tr_i ++ held E sE) /\ sublist (fwds tr_i) (fwds tr).
Proof.
  intros acts s tr H i E Hn CE. destruct (mcast_has_total t0 Es want s i E Hn) as [sE Hh].
  destruct (mcast_conserves_per_output t0 _ _ _ _ _ _ Hh CE _ _ H) as (acts_i & tr_i & R & P & C & Fw).
  exists sE, acts_i, tr_i. auto.
Qed.
