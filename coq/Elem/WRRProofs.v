(* Proofs about Elem/WRR.v: the theorems of SchedBaseProofs.v instantiated for WRR (onl/scheduler/wrr.py; identity class map); every statement quantifies over
   ALL admissible executions (wrr_run ... acts = Some (s, tr)), all rates > 0 and all configurations. *)
From Coq Require Import ZArith QArith List Bool Lia Lqa.
From ONL Require Import Elem.Packet Elem.StoreQ Elem.StoreQProofs Elem.SchedBase Elem.SchedBaseProofs Elem.WRR.
Import ListNotations.

Lemma wrr_wf r ws : 0 < r -> wf (wrr_cfg r ws).
Proof. intros R. split; [exact R|]. intros _ f. reflexivity. Qed.

Lemma wrr_cfg_ok r ws : 0 < r -> (forall f w, In (f, w) ws -> (0 < w)%Z) -> cfg_ok (wrr_cfg r ws).
Proof.
  intros R Pos. split; [apply wrr_wf; exact R|]. intros f n Hin. cbn in Hin. apply in_map_iff in Hin as ([g w] & E & Hw).
  unfold wrr_slot in E; cbn in E. injection E as _ <-. specialize (Pos g w Hw). lia.
Qed.

Lemma wrr_work_conserving : forall (r : Q) (ws : list (Z * Z)) acts s tr t x,
  0 < r -> (forall f w, In (f, w) ws -> (0 < w)%Z) ->
  wrr_run r ws acts = Some (s, tr) -> wrr_act r ws s (SAdvance t) = Some x ->
  (exists p dl, mchild s = CTx p dl /\ mcur s = Some p /\ mnow s < dl) \/ (forall k, held_class (wrr_cfg r ws) s k = []).
Proof. intros r ws acts s tr t x R Pos H A. exact (work_conserving0 (wrr_cfg r ws) acts s tr t x (wrr_cfg_ok r ws R Pos) H A). Qed.

Lemma wrr_one_at_a_time_tx_time : forall (r : Q) (ws : list (Z * Z)) acts s tr,
  0 < r ->
  wrr_run r ws acts = Some (s, tr) -> tx_wf (wrr_cfg r ws) None tr.
Proof. intros r ws acts s tr R H. exact (tx_wf_run0 (wrr_cfg r ws) acts s tr (wrr_wf r ws R) H). Qed.

Lemma wrr_back_to_back : forall (r : Q) (ws : list (Z * Z)) acts1 s1 tr1 s2 o acts2 s3 tr2 t x,
  0 < r -> (forall f w, In (f, w) ws -> (0 < w)%Z) ->
  wrr_run r ws acts1 = Some (s1, tr1) -> wrr_act r ws s1 SChildTimer = Some (s2, o) -> (exists k, held_class (wrr_cfg r ws) s2 k <> []) ->
  mq_run (wrr_cfg r ws) s2 acts2 = Some (s3, tr2) -> (forall t', ~ In (SAdvance t') acts2) -> wrr_act r ws s3 (SAdvance t) = Some x ->
  exists e p, In e tr2 /\ In (OStart p) (snd e) /\ fst (fst e) = mnow s2.
Proof. intros r ws acts1 s1 tr1 s2 o acts2 s3 tr2 t x R Pos H1 A2 Hh H2 NA A3. exact (back_to_back (wrr_cfg r ws) acts1 s1 tr1 s2 o acts2 s3 tr2 t x (wrr_cfg_ok r ws R Pos) H1 A2 Hh H2 NA A3). Qed.

Lemma wrr_flow_fifo : forall (r : Q) (ws : list (Z * Z)) acts s tr f,
  0 < r ->
  wrr_run r ws acts = Some (s, tr) ->
  exists rest, filter (is_flow f) (tr_puts tr) = filter (is_flow f) (tr_fwds tr) ++ rest.
Proof. intros r ws acts s tr f R H. exact (run_flow_fifo (wrr_cfg r ws) acts s tr f (wrr_wf r ws R) H). Qed.

Lemma wrr_exactly_once : forall (r : Q) (ws : list (Z * Z)) acts s tr p,
  0 < r ->
  wrr_run r ws acts = Some (s, tr) ->
  count_occ pkt_eq_dec (tr_puts tr) p
  = (count_occ pkt_eq_dec (tr_fwds tr) p + count_occ pkt_eq_dec (held_class (wrr_cfg r ws) s ((flow p))) p)%nat.
Proof. intros r ws acts s tr p R H. exact (run_exactly_once (wrr_cfg r ws) acts s tr p (wrr_wf r ws R) H). Qed.

Lemma wrr_counters : forall (r : Q) (ws : list (Z * Z)) acts s tr,
  0 < r ->
  wrr_run r ws acts = Some (s, tr) ->
  (forall f, mqc s f = Z.of_nat (length (held_flow (wrr_cfg r ws) s f)) /\ mqb s f = sumsz (held_flow (wrr_cfg r ws) s f))
  /\ mtotal s = zsum (fun k => Z.of_nat (length (held_class (wrr_cfg r ws) s k))) (dclasses (wrr_cfg r ws))
  /\ mcur s = match mchild s with CTx p _ => Some p | _ => None end
  /\ mrecv s = Z.of_nat (length (tr_puts tr)).
Proof. intros r ws acts s tr R H. exact (run_counters (wrr_cfg r ws) acts s tr (wrr_wf r ws R) H). Qed.

Lemma wrr_never_spins : forall (r : Q) (ws : list (Z * Z)) acts s tr,
  0 < r -> (forall f w, In (f, w) ws -> (0 < w)%Z) ->
  wrr_run r ws acts = Some (s, tr) -> mpc s <> PSpin.
Proof. intros r ws acts s tr R Pos H. exact (never_spins0 (wrr_cfg r ws) acts s tr (wrr_cfg_ok r ws R Pos) H). Qed.

Lemma wrr_monitor_samples : forall (r : Q) (ws : list (Z * Z)) acts s tr incl,
  0 < r ->
  wrr_run r ws acts = Some (s, tr) ->
  wrr_act r ws s (SSample incl) =
    Some (s, [OSample (map (fun f => let l := if incl then held_flow (wrr_cfg r ws) s f else waiting_flow (wrr_cfg r ws) s f in
                                     (f, Z.of_nat (length l), sumsz l)) (sflows (wrr_cfg r ws)))]).
Proof. intros r ws acts s tr incl R H. exact (monitor_samples0 (wrr_cfg r ws) acts s tr incl (wrr_wf r ws R) H). Qed.

Lemma wrr_conserves : forall (r : Q) (ws : list (Z * Z)) acts s tr,
  0 < r ->
  wrr_run r ws acts = Some (s, tr) ->
  (forall k, filter (is_class (wrr_cfg r ws) k) (tr_puts tr) = filter (is_class (wrr_cfg r ws) k) (tr_fwds tr) ++ held_class (wrr_cfg r ws) s k)
  /\ (forall f, filter (is_flow f) (tr_puts tr) = filter (is_flow f) (tr_fwds tr) ++ held_flow (wrr_cfg r ws) s f)
  /\ (forall p, In p (tr_puts tr) -> In ((flow p)) (classes (wrr_cfg r ws))).
Proof. intros r ws acts s tr R H. exact (run_conserves (wrr_cfg r ws) acts s tr (wrr_wf r ws R) H). Qed.

Lemma wrr_drained : forall (r : Q) (ws : list (Z * Z)) acts s tr,
  0 < r -> (forall f w, In (f, w) ws -> (0 < w)%Z) ->
  wrr_run r ws acts = Some (s, tr) -> urgent (wrr_cfg r ws) s = false -> (forall p dl, mchild s <> CTx p dl) ->
  (forall k, held_class (wrr_cfg r ws) s k = []) /\ (forall f, mqc s f = 0%Z /\ mqb s f = 0%Z) /\ mcur s = None /\
  (forall f, filter (is_flow f) (tr_puts tr) = filter (is_flow f) (tr_fwds tr)) /\ mpc s <> PSpin.
Proof. intros r ws acts s tr R Pos H U Nd. exact (drained0 (wrr_cfg r ws) acts s tr (wrr_cfg_ok r ws R Pos) H U Nd). Qed.

Lemma wrr_visit : forall (r : Q) (ws : list (Z * Z)) acts s tr,
  0 < r ->
  wrr_run r ws acts = Some (s, tr) ->
  exists k, walk (pass (wrr_cfg r ws)) (pass (wrr_cfg r ws)) (tr_visits tr) = Some k /\
            norm (pass (wrr_cfg r ws)) k = norm (pass (wrr_cfg r ws)) (cursor (wrr_cfg r ws) s).
Proof. intros r ws acts s tr R H. exact (visits_run0 (wrr_cfg r ws) acts s tr (wrr_wf r ws R) eq_refl H). Qed.

Lemma wrr_visit_meaning : forall (r : Q) (ws : list (Z * Z)) acts s tr a s' o f b,
  0 < r ->
  wrr_run r ws acts = Some (s, tr) -> wrr_act r ws s a = Some (s', o) -> In (OVisit f b) o ->
  if b then exists x rest, items (mstores s f) = x :: rest /\ get (mstores s' f) = GGranted x /\ items (mstores s' f) = rest
  else items (mstores s f) = [] /\ held_class (wrr_cfg r ws) s f = [].
Proof. intros r ws acts s tr a s' o f b R H A Hin. exact (visit_meaning0 (wrr_cfg r ws) acts s tr a s' o f b (wrr_wf r ws R) H A Hin). Qed.

Lemma wrr_starts_follow_visits : forall (r : Q) (ws : list (Z * Z)) acts s tr,
  0 < r ->
  wrr_run r ws acts = Some (s, tr) -> served (tr_visits tr) = map (pclass (wrr_cfg r ws)) (tr_starts tr) ++ pending (wrr_cfg r ws) s.
Proof. intros r ws acts s tr R H. exact (starts_follow_visits0 (wrr_cfg r ws) acts s tr (wrr_wf r ws R) H). Qed.

(* non-vacuity: a concrete admissible execution (observed on the real WRR: four packets put at t = 0 before the wake-up
   token is processed, 128 B at 1024 bit/s = 1 s each), its departure order, its visits, and the drained final state *)
Definition wrr_ex_acts : list saction :=
  [SInit;
   SPut (mkp 0 1 0 128 0);
   SPut (mkp 1 2 0 128 0);
   SPut (mkp 2 3 1 128 0);
   SPut (mkp 3 4 0 128 0);
   SStoreCb None;
   SStoreCb (Some 0%Z);
   SStoreCb (Some 0%Z);
   SStoreCb (Some 1%Z);
   SStoreCb (Some 0%Z);
   SGetDone None;
   SGetDone (Some 0%Z);
   SChildInit;
   SAdvance (1 # 1);
   SChildTimer;
   SChildEnd;
   SGetDone (Some 0%Z);
   SChildInit;
   SAdvance (2 # 1);
   SChildTimer;
   SChildEnd;
   SGetDone (Some 1%Z);
   SChildInit;
   SAdvance (3 # 1);
   SChildTimer;
   SChildEnd;
   SGetDone (Some 0%Z);
   SChildInit;
   SAdvance (4 # 1);
   SChildTimer;
   SChildEnd].

Example wrr_example :
  match wrr_run (1024 # 1) [(0, 2); (1, 1)]%Z wrr_ex_acts with
  | Some (s, tr) => map uid (tr_fwds tr) = [0; 1; 2; 3]%nat /\ tr_visits tr = [(0, false); (1, false); (0, true); (0, true); (1, true); (0, true); (0, false); (1, false)]%Z /\
                    map (fun e => fst (fst e)) (filter (fun e => negb (nilb (forwards (snd e)))) tr) = [1; 2; 3; 4] /\
                    urgent (wrr_cfg (1024 # 1) [(0, 2); (1, 1)]%Z) s = false /\ mpc s = PTok
  | None => False
  end.
Proof. vm_compute. repeat split; reflexivity. Qed.
