(* The adapters are atomic: they never emit a hand-over, so pipelines built from them number their stage boundaries
   consistently (Elem/ComposeHands.v) and the hand-overs a pipeline shows at boundary k are what stage k forwarded. *)
From Coq Require Import ZArith QArith List Bool Lia Arith.
From ONL Require Import Elem.Packet Elem.StoreQ Elem.Wire Elem.Port Elem.Bucket Elem.SchedBase
  Elem.WFQServer Elem.WFQ Elem.VC Elem.DRR
  Elem.Iface Elem.Compose Elem.ComposeHands Elem.AdaptWire Elem.AdaptPort Elem.AdaptBucket Elem.AdaptSched Elem.AdaptSrv Elem.AdaptDRR
  Elem.TwoRate Elem.AdaptTwoRate Elem.AdaptRed.
Import ListNotations.
Local Close Scope Q_scope.

Lemma no_hand_flat {X} (g : X -> list eout) (o : list X) : (forall x, Forall no_hand (g x)) -> Forall no_hand (flat_map g o).
Proof. intros H. induction o as [|x o IH]; cbn; [constructor|]. apply Forall_app. split; auto. Qed.

Lemma wlift_no_hand r s o : wlift r = Some (s, o) -> Forall no_hand o.
Proof.
  unfold wlift. destruct r as [[w' o']|]; [|discriminate]. intros H. injection H as _ <-.
  induction o' as [|x o' IH]; cbn; constructor; auto. destruct x; exact I.
Qed.
Theorem wire_elem_tagged loss t0 : tagged (wire_elem loss t0).
Proof.
  apply atomic_tagged; [cbn; lia| |].
  - intros p s s' o H. cbn [put wire_elem] in H. eapply wlift_no_hand; eauto.
  - intros l s s' o H. cbn [step wire_elem] in H. destruct (wire_internal l); [|discriminate]. eapply wlift_no_hand; eauto.
Qed.

Lemma plift_no_hand r s o : plift r = Some (s, o) -> Forall no_hand o.
Proof.
  unfold plift. destruct r as [[w' o']|]; [|discriminate]. intros H. injection H as _ <-.
  apply no_hand_flat. intros []; cbn; repeat constructor.
Qed.
Theorem port_elem_tagged c t0 : tagged (port_elem c t0).
Proof.
  apply atomic_tagged; [cbn; lia| |].
  - intros p s s' o H. cbn [put port_elem] in H. eapply plift_no_hand; eauto.
  - intros l s s' o H. cbn [step port_elem] in H. destruct (port_internal l); [|discriminate]. eapply plift_no_hand; eauto.
Qed.

Lemma tlift_no_hand r s o : tlift r = Some (s, o) -> Forall no_hand o.
Proof.
  unfold tlift. destruct r as [[w' o']|]; [|discriminate]. intros H. injection H as _ <-.
  apply no_hand_flat. intros []; cbn; repeat constructor.
Qed.
Theorem tb_elem_tagged c t0 : tagged (tb_elem c t0).
Proof.
  apply atomic_tagged; [cbn; lia| |].
  - intros p s s' o H. cbn [put tb_elem] in H. eapply tlift_no_hand; eauto.
  - intros l s s' o H. cbn [step tb_elem] in H. destruct (tb_internal l); [|discriminate]. eapply tlift_no_hand; eauto.
Qed.

Lemma slift_no_hand r s o : slift r = Some (s, o) -> Forall no_hand o.
Proof.
  unfold slift. destruct r as [[w' o']|]; [|discriminate]. intros H. injection H as _ <-.
  apply no_hand_flat. intros []; cbn; repeat constructor.
Qed.
Theorem mq_elem_tagged c : tagged (mq_elem c).
Proof.
  apply atomic_tagged; [cbn; lia| |].
  - intros p s s' o H. cbn [put mq_elem] in H. eapply slift_no_hand; eauto.
  - intros l s s' o H. cbn [step mq_elem] in H. destruct (mq_internal l); [|discriminate]. eapply slift_no_hand; eauto.
Qed.

Lemma flift_no_hand S (r : res (srv S * list fout)) s o : flift S r = Some (s, o) -> Forall no_hand o.
Proof.
  unfold flift. destruct r as [[w' o']| |]; try discriminate. intros H. injection H as _ <-.
  induction o' as [|x o' IH]; cbn; constructor; auto. destruct x; exact I.
Qed.
Theorem srv_elem_tagged S rate st0 confb : tagged (srv_elem S rate st0 confb).
Proof.
  apply atomic_tagged; [cbn; lia| |].
  - intros p s s' o H. cbn [put srv_elem] in H. destruct (confb p); [|discriminate]. exact (flift_no_hand _ _ _ _ H).
  - intros l s s' o H. cbn [step srv_elem] in H. destruct (srv_internal l); [|discriminate]. exact (flift_no_hand _ _ _ _ H).
Qed.
Corollary wfq_elem_tagged cfg : tagged (wfq_elem cfg).
Proof. apply srv_elem_tagged. Qed.
Corollary vc_elem_tagged cfg : tagged (vc_elem cfg).
Proof. apply srv_elem_tagged. Qed.

Lemma dlift_no_hand r s o : dlift r = Some (s, o) -> Forall no_hand o.
Proof.
  unfold dlift. destruct r as [[w' o']|]; [|discriminate]. intros H. injection H as _ <-.
  apply no_hand_flat. intros []; cbn; repeat constructor.
Qed.
Theorem drr_elem_tagged c t0 : tagged (drr_elem c t0).
Proof.
  apply atomic_tagged; [cbn; lia| |].
  - intros p s s' o H. cbn [put drr_elem] in H. eapply dlift_no_hand; eauto.
  - intros l s s' o H. cbn [step drr_elem] in H. destruct (drr_internal l); [|discriminate]. eapply dlift_no_hand; eauto.
Qed.

Lemma rlift_no_hand r s o : rlift r = Some (s, o) -> Forall no_hand o.
Proof.
  unfold rlift. destruct r as [[w' o']|]; [|discriminate]. intros H. injection H as _ <-.
  apply no_hand_flat. intros []; cbn; repeat constructor.
Qed.
Theorem trtb_elem_tagged c t0 : tagged (trtb_elem c t0).
Proof.
  apply atomic_tagged; [cbn; lia| |].
  - intros p s s' o H. cbn [put trtb_elem] in H. eapply rlift_no_hand; eauto.
  - intros l s s' o H. cbn [step trtb_elem] in H. destruct (tr_internal l); [|discriminate]. eapply rlift_no_hand; eauto.
Qed.

Lemma with_tape_no_hand tp r s o : with_tape tp (plift r) = Some (s, o) -> Forall no_hand o.
Proof.
  unfold with_tape. destruct (plift r) as [[w' o']|] eqn:E; [|discriminate]. intros H. injection H as _ <-.
  eapply plift_no_hand; eauto.
Qed.
Theorem oport_elem_tagged c t0 : tagged (oport_elem c t0).
Proof.
  apply atomic_tagged; [cbn; lia| |].
  - intros p s s' o H. cbn [put oport_elem] in H. destruct (o_put_act c (fst s) (snd s) p) as [ma tp].
    eapply with_tape_no_hand; eauto.
  - intros [a|u] s s' o H; cbn [step oport_elem] in H.
    + destruct (port_internal a); [|discriminate]. eapply with_tape_no_hand; eauto.
    + injection H as _ <-. constructor.
Qed.
