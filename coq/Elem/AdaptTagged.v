(* The adapters are atomic: they never emit a hand-over, so pipelines built from them number their stage boundaries
   consistently (Elem/ComposeHands.v) and the hand-overs a pipeline shows at boundary k are what stage k forwarded. *)
From Coq Require Import ZArith QArith List Bool Lia Arith.
From ONL Require Import Elem.Packet Elem.StoreQ Elem.Wire Elem.Port Elem.Bucket Elem.SchedBase
  Elem.Iface Elem.Compose Elem.ComposeHands Elem.AdaptWire Elem.AdaptPort Elem.AdaptBucket Elem.AdaptSched.
Import ListNotations.
Local Close Scope Q_scope.

Lemma no_hand_flat {X} (g : X -> list eout) (o : list X) : (forall x, Forall no_hand (g x)) -> Forall no_hand (flat_map g o).
Proof. intros H. induction o as [|x o IH]; cbn; [constructor|]. apply Forall_app. split; auto. Qed.

Lemma wlift_no_hand r s o : wlift r = Some (s, o) -> Forall no_hand o.
Proof.
  unfold wlift. destruct r as [[w' o']|]; [|discriminate]. intros H. injection H as _ <-.
  induction o' as [|x o' IH]; cbn; constructor; auto. destruct x; exact I.
Qed.
Theorem wire_elem_tagged loss t0 : tagged (wire_elem loss t0).
Proof.
  apply atomic_tagged; [cbn; lia| |].
  - intros p s s' o H. cbn [put wire_elem] in H. eapply wlift_no_hand; eauto.
  - intros l s s' o H. cbn [step wire_elem] in H. destruct (wire_internal l); [|discriminate]. eapply wlift_no_hand; eauto.
Qed.

Lemma plift_no_hand r s o : plift r = Some (s, o) -> Forall no_hand o.
Proof.
  unfold plift. destruct r as [[w' o']|]; [|discriminate]. intros H. injection H as _ <-.
  apply no_hand_flat. intros []; cbn; repeat constructor.
Qed.
Theorem port_elem_tagged c t0 : tagged (port_elem c t0).
Proof.
  apply atomic_tagged; [cbn; lia| |].
  - intros p s s' o H. cbn [put port_elem] in H. eapply plift_no_hand; eauto.
  - intros l s s' o H. cbn [step port_elem] in H. destruct (port_internal l); [|discriminate]. eapply plift_no_hand; eauto.
Qed.

Lemma tlift_no_hand r s o : tlift r = Some (s, o) -> Forall no_hand o.
Proof.
  unfold tlift. destruct r as [[w' o']|]; [|discriminate]. intros H. injection H as _ <-.
  apply no_hand_flat. intros []; cbn; repeat constructor.
Qed.
Theorem tb_elem_tagged c t0 : tagged (tb_elem c t0).
Proof.
  apply atomic_tagged; [cbn; lia| |].
  - intros p s s' o H. cbn [put tb_elem] in H. eapply tlift_no_hand; eauto.
  - intros l s s' o H. cbn [step tb_elem] in H. destruct (tb_internal l); [|discriminate]. eapply tlift_no_hand; eauto.
Qed.

Lemma slift_no_hand r s o : slift r = Some (s, o) -> Forall no_hand o.
Proof.
  unfold slift. destruct r as [[w' o']|]; [|discriminate]. intros H. injection H as _ <-.
  apply no_hand_flat. intros []; cbn; repeat constructor.
Qed.
Theorem mq_elem_tagged c : tagged (mq_elem c).
Proof.
  apply atomic_tagged; [cbn; lia| |].
  - intros p s s' o H. cbn [put mq_elem] in H. eapply slift_no_hand; eauto.
  - intros l s s' o H. cbn [step mq_elem] in H. destruct (mq_internal l); [|discriminate]. eapply slift_no_hand; eauto.
Qed.
