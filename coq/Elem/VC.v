(* Model of onl/scheduler/virtual_clock.py : the VirtualClock stamping discipline on top of
   Elem/WFQServer.v.  REPAIRED code (fix: commits 438d379 PriorityItem instead of a bare tuple and
   item.item in run(), 42d7aff arrival counter in the key).  The pinned code raised on every packet, so
   there is no unrepaired variant to keep (DESIGN.md 3.5: the replay alone is the record).

     put(p):  c = flow2class(p.flow_id)
              aux_vc[c] = max(now, aux_vc[c]); aux_vc[c] += vticks[c]
              add_packet_to_queue(p); arrivals += 1
              store.put(PriorityItem((aux_vc[c], now, arrivals), p))
     run() does nothing after a transmission.
   (VC.vc, a second per-class clock that the code updates and never reads, is not modelled.)
   Executable; no proofs here. *)
From Coq Require Import ZArith QArith Qminmax Qabs List Bool.
From ONL Require Import Elem.Packet Elem.StoreQ Elem.HeapList Elem.WFQServer Elem.WFQ.
Import ListNotations.

Record vcfg := {
  vrate : Q;
  vticks : list (Z * Q);          (* self.vticks : class -> vtick *)
  vf2c : Z -> Z
}.

Definition vst := Z -> Q.         (* aux_vc *)
Definition vst0 : vst := fun _ => 0.

Definition vc_put (cfg : vcfg) (now : Q) (s : vst) (p : pkt) : option (vst * Q) :=
  let c := vf2c cfg (flow p) in
  match zlookup c (vticks cfg) with
  | None => None                                  (* KeyError: unconfigured class *)
  | Some vt =>
      let a := Qred (Qmax now (s c) + vt) in
      Some (qupd s c a, a)
  end.

Definition vc_done (cfg : vcfg) (now : Q) (s : vst) (p : pkt) : option vst := Some s.

Definition vc_stamper (cfg : vcfg) : stamper :=
  {| ST := vst; st_put := vc_put cfg; st_done := vc_done cfg |}.

Definition vc (cfg : vcfg) : Type := srv (vc_stamper cfg).
Definition vc0 (cfg : vcfg) : vc cfg := srv0 0 (vst0 : ST (vc_stamper cfg)).
Definition vc_act (cfg : vcfg) : vc cfg -> faction -> res (vc cfg * list fout) := act (vc_stamper cfg) (vrate cfg).
Definition vc_run (cfg : vcfg) : vc cfg -> list faction -> option (vc cfg * list (tev (vc_stamper cfg))) :=
  run (vc_stamper cfg) (vrate cfg).

(* correspondence: aux_vc per configured class (always exact: vticks and instants are dyadic) *)
Definition vobs := list (Z * Q).

Definition vobs_ok (s : vst) (o : vobs) : bool := fin_ok 0 s o.

Definition vc_agree (cfg : vcfg) (obs : list (faction * list pkt * sobs * vobs)) : bool :=
  agree (vrate cfg) (vobs_ok : ST (vc_stamper cfg) -> vobs -> bool) (vc0 cfg) obs.

Definition vc_first_bad (cfg : vcfg) (obs : list (faction * list pkt * sobs * vobs)) : option nat :=
  first_bad (vrate cfg) (vobs_ok : ST (vc_stamper cfg) -> vobs -> bool) (vc0 cfg) obs 0.
