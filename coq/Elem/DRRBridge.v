(* Bridging lemma (DESIGN 2.6, second tie) for DRR.put: the body as translated from the tree under test on every run
   (Gen/Extracted_drr.v; Scheduler.add_packet_to_queue translated in place) is the DPut step of the hand-written
   automaton (Elem/DRR.v) the C15 / C12 / C08 theorems about DRR are stated on: class_count[c] += 1 first, a token into
   packets_available iff total_packets was 0 BEFORE the packet is counted, the base-class counters, then
   stores[c].put(packet).  The model's derived fields (dtotal = sum of queue_count, dlmax = largest size so far) are
   not fields of the object; the observation self.total_packets is read off dtotal. *)
From Coq Require Import ZArith QArith List Bool Lia.
From ONL Require Import Elem.Packet Elem.StoreQ Elem.DRR Gen.Extracted_drr.
Import ListNotations.

Definition drr_fields (d : drr) : drr_st :=
  {| d_packets_received := dnrecv d; d_class_count := dccnt d; d_queue_count := dqcnt d; d_queue_byte_size := dqbytes d |}.

(* the state with the generated fields written back; one more packet is counted, lmax follows *)
Definition drr_with_fields (d : drr) (f : drr_st) (p : pkt) : drr :=
  {| dnow := dnow d; dtok := dtok d; dst := dst d; dqcnt := d_queue_count f; dqbytes := d_queue_byte_size f;
     dtotal := (dtotal d + 1)%Z; dccnt := d_class_count f; ddef := ddef d; dhol := dhol d; dcur := dcur d;
     dnrecv := d_packets_received f; dlmax := Z.max (dlmax d) (psize p); dchd := dchd d; dctrl := dctrl d |}.

Definition drr_fx_apply (p : pkt) (d : drr) (e : drr_fx) : drr :=
  match e with
  | FxToken => dset_tok d (sq_put fifo_push (dnow d) tt (dtok d))                 (* packets_available.put(True) *)
  | FxStorePut c => dset_st d c (sq_put fifo_push (dnow d) p (dst d c))            (* stores[c].put(packet) *)
  end.

Definition drr_gen_put (cfg : dcfg) (d : drr) (p : pkt) : drr_st * list drr_fx :=
  gen_DRR_put (drr_fields d) (df2c cfg (flow p)) (flow p) (psize p) (dtotal d).

Lemma bridge_drr_put cfg d p :
  dmemZ (df2c cfg (flow p)) (dclasses cfg) && (0 <? psize p)%Z = true ->
  let g := drr_gen_put cfg d p in
  drr_act cfg d (DPut p) = Some (fold_left (drr_fx_apply p) (snd g) (drr_with_fields d (fst g) p), []) /\
  snd g = (if (dtotal d =? 0)%Z then [FxToken] else []) ++ [FxStorePut (df2c cfg (flow p))].
Proof.
  intros Hadm. unfold drr_gen_put, gen_DRR_put, drr_act. rewrite Hadm.
  unfold drr_fields, drr_with_fields; cbn -[Z.eqb Z.max Z.add].
  rewrite ?(Z.add_comm 1), ?(Z.eqb_sym 0).         (* `1 + x`, `0 == x` as the model writes them *)
  destruct (Z.eqb_spec (dtotal d) 0); cbn -[Z.eqb Z.max Z.add]; split; reflexivity.
Qed.
